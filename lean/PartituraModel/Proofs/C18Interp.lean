/-
C18 — linear interpolation with extrapolation through strictly increasing knots: it passes through
the knots, and the maps through (x, y) and (y, x) are inverse to each other when the y are strictly
increasing too.  Knots of the time maps.
-/
import PartituraModel.Proofs.C18Lists
import Mathlib.Tactic.FieldSimp
import Mathlib.Tactic.Ring
import Mathlib.Algebra.Order.Field.Rat
import Mathlib.Algebra.Order.Field.Basic

namespace C18P
open Model Model.Codec

abbrev IncX (ks : List (Rat × Rat)) : Prop := ks.Pairwise (fun a b => a.1 < b.1)
abbrev IncY (ks : List (Rat × Rat)) : Prop := ks.Pairwise (fun a b => a.2 < b.2)

theorem linSeg_left (x0 y0 x1 y1 : Rat) (h : x0 < x1) : linSeg x0 y0 x1 y1 x0 = some y0 := by
  unfold linSeg
  rw [if_neg (ne_of_gt h)]
  simp

theorem linSeg_right (x0 y0 x1 y1 : Rat) (h : x0 < x1) : linSeg x0 y0 x1 y1 x1 = some y1 := by
  unfold linSeg
  rw [if_neg (ne_of_gt h)]
  have : x1 - x0 ≠ 0 := by linarith [sub_pos.mpr h] |> ne_of_gt
  congr 1
  field_simp
  ring

theorem interpExt_two (x0 y0 x1 y1 q : Rat) : interpExt [(x0, y0), (x1, y1)] q = linSeg x0 y0 x1 y1 q := rfl

theorem interpExt_three (x0 y0 x1 y1 q : Rat) (k2 : Rat × Rat) (rest : List (Rat × Rat)) :
    interpExt ((x0, y0) :: (x1, y1) :: k2 :: rest) q
      = if q ≤ x1 then linSeg x0 y0 x1 y1 q else interpExt ((x1, y1) :: k2 :: rest) q := rfl

/-- the interpolant takes the knot values at the knots -/
theorem interpExt_knot (ks : List (Rat × Rat)) (hx : IncX ks) (x y : Rat) (hm : (x, y) ∈ ks) :
    interpExt ks x = some y := by
  induction ks with
  | nil => simp at hm
  | cons k0 t ih =>
    obtain ⟨x0, y0⟩ := k0
    cases t with
    | nil =>
      simp only [List.mem_singleton, Prod.mk.injEq] at hm
      simp [interpExt, hm.2]
    | cons k1 rest =>
      obtain ⟨x1, y1⟩ := k1
      have hx' := List.pairwise_cons.mp hx
      have h01 : x0 < x1 := hx'.1 (x1, y1) (by simp)
      cases rest with
      | nil =>
        rw [interpExt_two]
        rcases List.mem_cons.mp hm with h | h
        · rw [Prod.mk.injEq] at h
          rw [h.1, h.2]; exact linSeg_left x0 y0 x1 y1 h01
        · simp only [List.mem_singleton, Prod.mk.injEq] at h
          rw [h.1, h.2]; exact linSeg_right x0 y0 x1 y1 h01
      | cons k2 rest' =>
        rw [interpExt_three]
        rcases List.mem_cons.mp hm with h | h
        · rw [Prod.mk.injEq] at h
          rw [h.1, h.2, if_pos (le_of_lt h01)]
          exact linSeg_left x0 y0 x1 y1 h01
        · rcases List.mem_cons.mp h with h1 | h2
          · rw [Prod.mk.injEq] at h1
            rw [h1.1, h1.2, if_pos (le_refl _)]
            exact linSeg_right x0 y0 x1 y1 h01
          · have hx'' := List.pairwise_cons.mp hx'.2
            have : x1 < x := hx''.1 (x, y) h2
            rw [if_neg (not_le.mpr this)]
            exact ih hx'.2 h

theorem linSeg_inv (x0 y0 x1 y1 s : Rat) (hx : x0 < x1) (hy : y0 < y1) :
    ∃ p, linSeg x0 y0 x1 y1 s = some p ∧ linSeg y0 x0 y1 x1 p = some s ∧
      (s ≤ x1 ↔ p ≤ y1) ∧ (x0 < s ↔ y0 < p) := by
  unfold linSeg
  simp only [if_neg (ne_of_gt hx), if_neg (ne_of_gt hy)]
  have hdx : 0 < x1 - x0 := sub_pos.mpr hx
  have hdy : 0 < y1 - y0 := sub_pos.mpr hy
  have hsl : 0 < (y1 - y0) / (x1 - x0) := div_pos hdy hdx
  refine ⟨_, rfl, ?_, ?_, ?_⟩
  · congr 1
    field_simp
    ring
  · have e : (y1 - y0) / (x1 - x0) * (s - x0) + y0 - y1 = (y1 - y0) / (x1 - x0) * (s - x1) := by
      field_simp
      ring
    constructor
    · intro h
      have : (y1 - y0) / (x1 - x0) * (s - x1) ≤ 0 := mul_nonpos_of_nonneg_of_nonpos (le_of_lt hsl) (by linarith)
      linarith
    · intro h
      by_contra hc
      have : 0 < (y1 - y0) / (x1 - x0) * (s - x1) := mul_pos hsl (by linarith [not_le.mp hc])
      linarith
  · constructor
    · intro h
      have : 0 < (y1 - y0) / (x1 - x0) * (s - x0) := mul_pos hsl (by linarith)
      linarith
    · intro h
      by_contra hc
      have : (y1 - y0) / (x1 - x0) * (s - x0) ≤ 0 := mul_nonpos_of_nonneg_of_nonpos (le_of_lt hsl) (by linarith [not_lt.mp hc])
      linarith

/-- to the right of the first knot the interpolant lies above the first knot's value -/
theorem interpExt_above (ks : List (Rat × Rat)) (x0 y0 : Rat) (k1 : Rat × Rat)
    (hx : IncX ((x0, y0) :: k1 :: ks)) (hy : IncY ((x0, y0) :: k1 :: ks)) (s : Rat) (hs : x0 < s) :
    ∃ p, interpExt ((x0, y0) :: k1 :: ks) s = some p ∧ y0 < p := by
  induction ks generalizing x0 y0 k1 with
  | nil =>
    obtain ⟨x1, y1⟩ := k1
    have h01 : x0 < x1 := (List.pairwise_cons.mp hx).1 (x1, y1) (by simp)
    have g01 : y0 < y1 := (List.pairwise_cons.mp hy).1 (x1, y1) (by simp)
    obtain ⟨p, hp, _, _, h4⟩ := linSeg_inv x0 y0 x1 y1 s h01 g01
    exact ⟨p, by rw [interpExt_two, hp], h4.mp hs⟩
  | cons k2 rest ih =>
    obtain ⟨x1, y1⟩ := k1
    have hx' := List.pairwise_cons.mp hx
    have hy' := List.pairwise_cons.mp hy
    have h01 : x0 < x1 := hx'.1 (x1, y1) (by simp)
    have g01 : y0 < y1 := hy'.1 (x1, y1) (by simp)
    rw [interpExt_three]
    by_cases hq : s ≤ x1
    · rw [if_pos hq]
      obtain ⟨p, hp, _, _, h4⟩ := linSeg_inv x0 y0 x1 y1 s h01 g01
      exact ⟨p, hp, h4.mp hs⟩
    · rw [if_neg hq]
      obtain ⟨p, hp, hgt⟩ := ih x1 y1 k2 hx'.2 hy'.2 (not_le.mp hq)
      exact ⟨p, hp, lt_trans g01 hgt⟩

def swapK (ks : List (Rat × Rat)) : List (Rat × Rat) := ks.map fun k => (k.2, k.1)

/-- with at least two knots, strictly increasing in both coordinates, the interpolant through the
    swapped knots undoes the interpolant through the knots, everywhere -/
theorem interpExt_inverse (ks : List (Rat × Rat)) (k0 k1 : Rat × Rat)
    (hx : IncX (k0 :: k1 :: ks)) (hy : IncY (k0 :: k1 :: ks)) (s : Rat) :
    ∃ p, interpExt (k0 :: k1 :: ks) s = some p ∧ interpExt (swapK (k0 :: k1 :: ks)) p = some s := by
  induction ks generalizing k0 k1 with
  | nil =>
    obtain ⟨x0, y0⟩ := k0
    obtain ⟨x1, y1⟩ := k1
    have h01 : x0 < x1 := (List.pairwise_cons.mp hx).1 (x1, y1) (by simp)
    have g01 : y0 < y1 := (List.pairwise_cons.mp hy).1 (x1, y1) (by simp)
    obtain ⟨p, hp, hq, _, _⟩ := linSeg_inv x0 y0 x1 y1 s h01 g01
    exact ⟨p, by rw [interpExt_two, hp], by simp only [swapK, List.map_cons, List.map_nil]; rw [interpExt_two, hq]⟩
  | cons k2 rest ih =>
    obtain ⟨x0, y0⟩ := k0
    obtain ⟨x1, y1⟩ := k1
    have hx' := List.pairwise_cons.mp hx
    have hy' := List.pairwise_cons.mp hy
    have h01 : x0 < x1 := hx'.1 (x1, y1) (by simp)
    have g01 : y0 < y1 := hy'.1 (x1, y1) (by simp)
    obtain ⟨x2, y2⟩ := k2
    simp only [swapK, List.map_cons, interpExt_three]
    by_cases hq : s ≤ x1
    · rw [if_pos hq]
      obtain ⟨p, hp, hinv, h3, _⟩ := linSeg_inv x0 y0 x1 y1 s h01 g01
      refine ⟨p, hp, ?_⟩
      rw [if_pos (h3.mp hq)]
      exact hinv
    · rw [if_neg hq]
      obtain ⟨p, hp, hinv⟩ := ih (x1, y1) (x2, y2) hx'.2 hy'.2
      obtain ⟨p', hp', hgt⟩ := interpExt_above rest x1 y1 (x2, y2) hx'.2 hy'.2 s (not_le.mp hq)
      have e : p' = p := by rw [hp] at hp'; exact (Option.some.inj hp').symm
      subst e
      refine ⟨p', hp, ?_⟩
      rw [if_neg (not_le.mpr hgt)]
      simpa only [swapK, List.map_cons] using hinv

-- ------------------------------------------------------------------ sorting an ordered list

theorem isort_of_pairwise {α : Type} (le : α → α → Bool) (l : List α)
    (h : l.Pairwise (fun a b => le a b = true)) : isort le l = l := by
  induction l with
  | nil => simp [isort]
  | cons a as ih =>
    have h' := List.pairwise_cons.mp h
    simp only [isort, ih h'.2]
    cases as with
    | nil => simp [insertBy]
    | cons b bs => simp [insertBy, h'.1 b (by simp)]

theorem swapKnots_eq (ks : List (Rat × Rat)) (hy : IncY ks) : swapKnots ks = swapK ks := by
  unfold swapKnots swapK
  apply isort_of_pairwise
  rw [List.pairwise_map]
  exact hy.imp (fun h => by simpa using le_of_lt h)

-- ------------------------------------------------------------------ np.unique

theorem mem_dedupAdj (l : List Rat) (x : Rat) : x ∈ dedupAdj l ↔ x ∈ l := by
  induction l with
  | nil => simp [dedupAdj]
  | cons a rest ih =>
    cases rest with
    | nil => simp [dedupAdj]
    | cons b t =>
      rw [dedupAdj]
      by_cases hab : a = b
      · rw [if_pos hab, ih]
        subst hab
        simp
      · rw [if_neg hab, List.mem_cons, ih]
        simp

theorem dedupAdj_strict (l : List Rat) (h : l.Pairwise (· ≤ ·)) : (dedupAdj l).Pairwise (· < ·) := by
  induction l with
  | nil => simp [dedupAdj]
  | cons a rest ih =>
    have h' := List.pairwise_cons.mp h
    cases rest with
    | nil => simp [dedupAdj]
    | cons b t =>
      rw [dedupAdj]
      by_cases hab : a = b
      · rw [if_pos hab]; exact ih h'.2
      · rw [if_neg hab]
        refine List.pairwise_cons.mpr ⟨?_, ih h'.2⟩
        intro y hy
        have hy' : y ∈ b :: t := (mem_dedupAdj (b :: t) y).mp hy
        have hb : a ≤ b := h'.1 b (by simp)
        have hlt : a < b := lt_of_le_of_ne hb hab
        rcases List.mem_cons.mp hy' with rfl | hyt
        · exact hlt
        · exact lt_of_lt_of_le hlt ((List.pairwise_cons.mp h'.2).1 y hyt)

theorem uniqueSorted_strict (l : List Rat) : (uniqueSorted l).Pairwise (· < ·) := by
  unfold uniqueSorted
  apply dedupAdj_strict
  have := pairwise_isort (fun (a b : Rat) => decide (a ≤ b))
    (by intro a b; simp only [decide_eq_true_eq]; exact le_total a b)
    (by intro a b c; simp only [decide_eq_true_eq]; exact le_trans) l
  exact this.imp (by intro a b h; simpa using h)

theorem mem_uniqueSorted (l : List Rat) (x : Rat) : x ∈ uniqueSorted l ↔ x ∈ l := by
  unfold uniqueSorted
  rw [mem_dedupAdj]
  exact (perm_isort _ l).mem_iff

/-- the score onsets of the time-map knots are strictly increasing -/
theorem timeKnots_incX (ro : Bool) (rows : List TRow) : IncX (timeKnots ro rows) := by
  unfold timeKnots
  apply List.Pairwise.filterMap _ _ (uniqueSorted_strict (rows.map (·.1)))
  intro a a' haa' b hb b' hb'
  -- both knots carry their own onset as abscissa
  have h1 : b.1 = a := by
    simp only at hb
    split at hb
    · simp at hb
    · simp only [Option.some.injEq] at hb; rw [← hb]
  have h2 : b'.1 = a' := by
    simp only at hb'
    split at hb'
    · simp at hb'
    · simp only [Option.some.injEq] at hb'; rw [← hb']
  rw [h1, h2]; exact haa'

end C18P
