/-
Dependence of the sounding end on the threshold: the time-ordered pedal stream has the same times for every
threshold; raising the threshold turns "down" events into "up" events only.
-/
import PartituraModel.Proofs.C14Main

namespace C14P
open Model Model.Pedal

def ped64 (cs : List Control) : List Control := cs.filter (fun c => c.number = sustainCC)

def evOf (thr : Int) (c : Control) : Ev := (c.time, decide (thr < c.value))

theorem pedalStream_eq (cs : List Control) (thr : Int) :
    pedalStream cs thr = (sortBy (fun c : Control => c.time) (ped64 cs)).map (evOf thr) :=
  sortBy_map (fun e : Ev => e.1) (evOf thr) (ped64 cs)

theorem mem_upTimes (r : Rat) (E : List Ev) (y : Rat) :
    y ∈ upTimes r E ↔ ∃ e ∈ E, r ≤ e.1 ∧ e.2 = false ∧ e.1 = y := by
  unfold upTimes
  simp only [List.mem_map, List.mem_filter, Bool.and_eq_true, decide_eq_true_eq, Bool.not_eq_true']
  constructor
  · rintro ⟨e, ⟨he, h1, h2⟩, rfl⟩; exact ⟨e, he, h1, h2, rfl⟩
  · rintro ⟨e, he, h1, h2, rfl⟩; exact ⟨e, ⟨he, h1, h2⟩, rfl⟩

theorem downBefore_map (r : Rat) (L : List Control) (thr : Int) :
    downBefore r (L.map (evOf thr)) =
      match (L.filter (fun c => decide (c.time < r))).getLast? with
      | some c => decide (thr < c.value)
      | none => false := by
  unfold downBefore
  rw [List.filter_map, List.getLast?_map]
  have : ((fun e : Ev => decide (e.1 < r)) ∘ evOf thr) = (fun c : Control => decide (c.time < r)) := rfl
  rw [this]
  cases (L.filter (fun c => decide (c.time < r))).getLast? <;> rfl

theorem down_mono (r : Rat) (L : List Control) (thr thr' : Int) (h : thr ≤ thr')
    (hd : downBefore r (L.map (evOf thr')) = true) : downBefore r (L.map (evOf thr)) = true := by
  rw [downBefore_map] at hd ⊢
  cases hl : (L.filter (fun c => decide (c.time < r))).getLast? with
  | none => simp [hl] at hd
  | some c =>
    simp only [hl, decide_eq_true_eq] at hd ⊢
    omega

theorem upTimes_mono (r : Rat) (L : List Control) (thr thr' : Int) (h : thr ≤ thr') :
    ∀ y ∈ upTimes r (L.map (evOf thr)), y ∈ upTimes r (L.map (evOf thr')) := by
  intro y hy
  obtain ⟨e, he, h1, h2, h3⟩ := (mem_upTimes _ _ _).mp hy
  obtain ⟨c, hc, rfl⟩ := List.mem_map.mp he
  refine (mem_upTimes _ _ _).mpr ⟨evOf thr' c, List.mem_map.mpr ⟨c, hc, rfl⟩, h1, ?_, h3⟩
  simp only [evOf, decide_eq_false_iff_not] at h2 ⊢
  omega

theorem closing_map (ns : List Note) (L : List Control) (thr thr' : Int) :
    closing ns (L.map (evOf thr)) = closing ns (L.map (evOf thr')) := by
  unfold closing
  rw [List.getLast?_map, List.getLast?_map]
  cases ns with
  | nil => rfl
  | cons n0 rest => cases L.getLast? <;> rfl

/-- raising the threshold never lengthens a note -/
theorem spec_antitone (ns : List Note) (cs : List Control) (thr thr' : Int) (h : thr ≤ thr') (i : Nat) (n : Note)
    (hn : n ∈ ns) : soundOffSpec ns cs thr' i n ≤ soundOffSpec ns cs thr i n := by
  by_cases hd' : downBefore n.off (pedalStream cs thr') = true
  · have hd : downBefore n.off (pedalStream cs thr) = true := by
      rw [pedalStream_eq] at hd' ⊢
      exact down_mono _ _ _ _ h hd'
    have hcl : closing ns (pedalStream cs thr') = closing ns (pedalStream cs thr) := by
      rw [pedalStream_eq, pedalStream_eq]; exact closing_map _ _ _ _
    simp only [soundOffSpec, hd, hd', if_true, hcl]
    apply foldl_min_anti
    intro y hy
    refine ⟨y, ?_, le_refl _⟩
    rcases List.mem_append.mp hy with hu | hr
    · apply List.mem_append_left
      rw [pedalStream_eq] at hu ⊢
      exact upTimes_mono _ _ _ _ h y hu
    · exact List.mem_append_right _ hr
  · have : soundOffSpec ns cs thr' i n = n.off := by simp [soundOffSpec, hd']
    rw [this]
    exact spec_ge_off ns cs thr i n hn

end C14P
