/-
Lemmas about `Model.roundHalfEven` (numpy/Python rounding) over exact rationals.
-/
import PartituraModel.Model.Basic
import Mathlib.Tactic.Linarith
import Mathlib.Tactic.FieldSimp
import Mathlib.Tactic.Push
import Mathlib.Algebra.Order.Ring.Abs
import Mathlib.Algebra.Order.Field.Rat

namespace Round
open Model

theorem roundHalfEven_close (r : Rat) : |((roundHalfEven r : Int) : Rat) - r| ≤ 1 / 2 := by
  have h1 : (r.floor : Rat) ≤ r := Rat.floor_le r
  have h2 : r < ((r.floor + 1 : Int) : Rat) := Rat.lt_floor_add_one r
  push_cast at h2
  unfold roundHalfEven
  simp only
  rw [abs_le]
  split
  · constructor <;> linarith
  · split
    · push_cast; constructor <;> linarith
    · rename_i h3 h4
      have h5 : r - (r.floor : Rat) = 1 / 2 := le_antisymm (not_lt.mp h4) (not_lt.mp h3)
      split
      · constructor <;> linarith
      · push_cast; constructor <;> linarith

theorem roundHalfEven_tie_even (r : Rat) (h : r - (r.floor : Rat) = 1 / 2) :
    roundHalfEven r % 2 = 0 := by
  unfold roundHalfEven
  simp only [h, lt_irrefl, if_false]
  split
  · assumption
  · omega

theorem roundHalfEven_int (k : Int) : roundHalfEven (k : Rat) = k := by
  unfold roundHalfEven
  simp [Rat.floor_intCast]

/-- rounding is monotone -/
theorem roundHalfEven_mono {a b : Rat} (h : a ≤ b) : roundHalfEven a ≤ roundHalfEven b := by
  by_contra hc
  have hc' : roundHalfEven b + 1 ≤ roundHalfEven a := by omega
  have ha := roundHalfEven_close a
  have hb := roundHalfEven_close b
  rw [abs_le] at ha hb
  have hc'' : ((roundHalfEven b : Int) : Rat) + 1 ≤ ((roundHalfEven a : Int) : Rat) := by exact_mod_cast hc'
  -- then both are ties between the same two integers and a = b
  have hab : a = b := by linarith [ha.1, ha.2, hb.1, hb.2]
  subst hab
  linarith

end Round
