/-
C08 (round 5) — helper lemmas for the binary64 model of the loaded durations (Model/MatchFloat.lean):
a natural number below 2^53 is a binary64 number, so `fl` leaves it alone.
-/
import PartituraModel.Model.MatchFloat
import PartituraModel.Proofs.C03Float
import PartituraModel.Proofs.C08
import Mathlib.Tactic.Linarith
import Mathlib.Tactic.Ring
import Mathlib.Tactic.NormNum
import Mathlib.Tactic.FieldSimp
import Mathlib.Tactic.Positivity

namespace C08F
open Model Model.MatchTime Model.Binary64 Model.MatchFloat C03.Float

/-- every positive natural number below 2^53 is the value of a normal binary64 number -/
theorem nat_is_dbl (k : Nat) (h0 : 0 < k) (hk : k < 2 ^ 53) : ∃ d : Dbl, d.Normal ∧ d.value = (k : Rat) := by
  have hne : k ≠ 0 := by omega
  have hlo : 2 ^ k.log2 ≤ k := Nat.log2_self_le hne
  have hhi : k < 2 ^ (k.log2 + 1) := Nat.lt_log2_self
  have hj : k.log2 ≤ 52 := by
    by_contra hc
    have h53 : 53 ≤ k.log2 := by omega
    have : 2 ^ 53 ≤ 2 ^ k.log2 := Nat.pow_le_pow_right (by norm_num) h53
    omega
  refine ⟨⟨k * 2 ^ (52 - k.log2), (k.log2 : Int) - 52⟩, ⟨?_, ?_⟩, ?_⟩
  · show 2 ^ 52 ≤ k * 2 ^ (52 - k.log2)
    calc 2 ^ 52 = 2 ^ k.log2 * 2 ^ (52 - k.log2) := by rw [← Nat.pow_add]; congr 1; omega
      _ ≤ k * 2 ^ (52 - k.log2) := Nat.mul_le_mul_right _ hlo
  · show k * 2 ^ (52 - k.log2) < 2 ^ 53
    calc k * 2 ^ (52 - k.log2) < 2 ^ (k.log2 + 1) * 2 ^ (52 - k.log2) :=
          Nat.mul_lt_mul_of_pos_right hhi (Nat.pow_pos (by norm_num))
      _ = 2 ^ 53 := by rw [← Nat.pow_add]; congr 1; omega
  · show ((k * 2 ^ (52 - k.log2) : Nat) : Rat) * pow2 ((k.log2 : Int) - 52) = (k : Rat)
    have e : ((k.log2 : Int) - 52) = -((52 - k.log2 : Nat) : Int) := by omega
    rw [e, pow2_eq]
    push_cast
    have h2 : ((2 : Rat) ^ (52 - k.log2)) ≠ 0 := by positivity
    rw [zpow_neg, zpow_natCast]
    field_simp

/-- `fl` leaves a natural number below 2^53 alone -/
theorem fl_nat (k : Nat) (hk : k < 2 ^ 53) : fl (k : Rat) = (k : Rat) := by
  unfold fl
  rcases Nat.eq_zero_or_pos k with h0 | h0
  · subst h0
    simp [readFloat_zero, Dbl.zero, Dbl.value]
  · obtain ⟨d, hn, hv⟩ := nat_is_dbl k h0 hk
    rw [← hv, readFloat_exact d hn]

end C08F
