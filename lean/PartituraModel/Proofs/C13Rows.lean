/-
C13, round 6 — the cell lemmas of Proofs/C13Raster.lean once more for the row-parametric rasteriser `makeRows`
(Model/PianoRollMargin.lean): the number of rows `M`, the row `row n` a note is drawn in and the position `irow n`
reported in its index row are ARBITRARY.  Collision handling (maximum velocity), "non-zero iff covered", the bounds
and the index rows are facts about the integer frames and the integer rows, whatever produced them — in particular the
rows `int(fl(pitch - lowest + pm))` of a real pitch margin (`makeWithQ`).
-/
import PartituraModel.Model.PianoRollMargin
import PartituraModel.Proofs.C13Raster

namespace C13
open Model Model.PianoRoll
open List

theorem mem_noteCellsR (fl : Rat → Rat) (o : Opts) (row : Note → Int) (t0 : Rat) (n : Note) (p j v : Int) :
    (p, j, v) ∈ noteCellsR fl o row t0 n ↔
      p = row n ∧ v = n.vel ∧ onFrameG fl o t0 n ≤ j ∧ j < offCellG fl o t0 n := by
  unfold noteCellsR offCellG
  simp only
  by_cases h : o.onsetOnly = true
  · simp only [h, if_true, mem_singleton, Prod.mk.injEq]
    constructor
    · rintro ⟨h1, h2, h3⟩; exact ⟨h1, h3, by omega, by omega⟩
    · rintro ⟨h1, h2, h3, h4⟩; exact ⟨h1, by omega, h2⟩
  · have h' : o.onsetOnly = false := by simpa using h
    simp only [h', Bool.false_eq_true, ↓reduceIte, mem_map, mem_range, Prod.mk.injEq]
    constructor
    · rintro ⟨k, hk, h1, h2, h3⟩
      exact ⟨h1.symm, h3.symm, by omega, by omega⟩
    · rintro ⟨h1, h2, h3, h4⟩
      exact ⟨(j - onFrameG fl o t0 n).toNat, by omega, h1.symm, by omega, h2.symm⟩

theorem mem_fillOfR (fl : Rat → Rat) (o : Opts) (row : Note → Int) (notes : List Note) (p j v : Int) :
    (p, j, v) ∈ fillOfR fl o row notes ↔
      ∃ n ∈ notes, row n = p ∧ n.vel = v ∧
        onFrameG fl o (t0Of o notes) n ≤ j ∧ j < offCellG fl o (t0Of o notes) n := by
  unfold fillOfR
  rw [mem_flatMap]
  constructor
  · rintro ⟨n, hn, hc⟩
    rw [mem_noteCellsR] at hc
    exact ⟨n, mem_sortedNotes.mp hn, hc.1.symm, hc.2.1.symm, hc.2.2.1, hc.2.2.2⟩
  · rintro ⟨n, hn, h1, h2, h3, h4⟩
    exact ⟨n, mem_sortedNotes.mpr hn, (mem_noteCellsR ..).mpr ⟨h1.symm, h2.symm, h3, h4⟩⟩

/-- the roll assembled when no check fails -/
def rollOfR (fl : Rat → Rat) (o : Opts) (notes : List Note) (M : Int) (row irow : Note → Int) (N : Int) : Roll :=
  { rows := if o.pianoRange then slicedRows M else M
    cols := N
    rowStart := rowStartOf o
    binary := o.binary
    fill := fillOfR fl o row notes
    idx := idxOfR fl o irow notes }

theorem makeRows_eq_some (fl : Rat → Rat) (o : Opts) (notes : List Note) (M : Int) (row irow : Note → Int) (r : Roll) :
    makeRows fl o notes M row irow = some r ↔
      notes ≠ [] ∧ (∀ n ∈ notes, 0 ≤ n.dur) ∧
      ∃ N, colsOfG fl o notes = some N ∧
        (∀ e ∈ fillOfR fl o row notes, inBounds M N e = true) ∧ r = rollOfR fl o notes M row irow N := by
  unfold makeRows rollOfR
  by_cases h1 : notes.isEmpty = true
  · have : notes = [] := isEmpty_iff.mp h1
    simp [this]
  · have hne : notes ≠ [] := fun h => h1 (isEmpty_iff.mpr h)
    rw [if_neg h1]
    by_cases h2 : (notes.any fun n => decide (n.dur < 0)) = true
    · rw [if_pos h2]
      simp only [reduceCtorEq, false_iff, not_and]
      intro _ hall
      rw [any_eq_true] at h2
      obtain ⟨n, hn, hd⟩ := h2
      have := hall n hn
      simp only [decide_eq_true_eq] at hd
      exact absurd this (not_le.mpr hd)
    · rw [if_neg h2]
      have hdur : ∀ n ∈ notes, 0 ≤ n.dur := by
        intro n hn
        by_contra hc
        apply h2
        rw [any_eq_true]
        exact ⟨n, hn, by simpa using hc⟩
      cases hc : colsOfG fl o notes with
      | none => simp
      | some N =>
        simp only
        by_cases h3 : (fillOfR fl o row notes).all (inBounds M N) = true
        · rw [if_pos h3]
          rw [all_eq_true] at h3
          constructor
          · intro h; exact ⟨hne, hdur, N, rfl, h3, (Option.some.inj h).symm⟩
          · rintro ⟨_, _, N', hN', _, hr⟩
            rw [Option.some.injEq] at hN'
            subst hN'
            rw [hr]
        · rw [if_neg h3]
          simp only [reduceCtorEq, false_iff, not_and, not_exists]
          intro _ _ N' hN' hb
          rw [Option.some.injEq] at hN'
          subst hN'
          exact absurd (all_eq_true.mpr hb) h3

/-- `pr_idx[idx.argsort()]` is the table of index rows in input order -/
theorem idxOfR_eq (fl : Rat → Rat) (o : Opts) (irow : Note → Int) (notes : List Note) :
    idxOfR fl o irow notes = notes.map fun n =>
      (irow n, onFrameG fl o (t0Of o notes) n, offIdxG fl o (t0Of o notes) n, n.pitch) := by
  unfold idxOfR
  exact unsort_sorted (fun n => (irow n, onFrameG fl o (t0Of o notes) n, offIdxG fl o (t0Of o notes) n, n.pitch)) notes

/-- note `n` sounds in cell `(p, j)` of the un-sliced roll whose rows are given by `row` -/
def CoversR (fl : Rat → Rat) (o : Opts) (row : Note → Int) (notes : List Note) (n : Note) (p j : Int) : Prop :=
  row n = p ∧ onFrameG fl o (t0Of o notes) n ≤ j ∧ j < offCellG fl o (t0Of o notes) n

theorem cell_valueR_aux (fl : Rat → Rat) (o : Opts) (notes : List Note) (M : Int) (row irow : Note → Int) (r : Roll)
    (h : makeRows fl o notes M row irow = some r) (p j : Int) (hp0 : 0 ≤ p) (hp1 : p < r.rows) :
    ((¬ ∃ n ∈ notes, CoversR fl o row notes n (p + r.rowStart) j) → r.cell p j = 0) ∧
    ((∃ n ∈ notes, CoversR fl o row notes n (p + r.rowStart) j) →
      ∃ n ∈ notes, CoversR fl o row notes n (p + r.rowStart) j ∧
        (∀ n' ∈ notes, CoversR fl o row notes n' (p + r.rowStart) j → n'.vel ≤ n.vel) ∧
        r.cell p j = if o.binary = true ∧ n.vel ≠ 0 then 1 else n.vel) := by
  obtain ⟨_, _, N, _, hb, rfl⟩ := (makeRows_eq_some fl o notes M row irow r).mp h
  have hcov : ∀ n ∈ notes, ∀ q, CoversR fl o row notes n q j → (q, j, n.vel) ∈ fillOfR fl o row notes := by
    intro n hn q hc
    exact (mem_fillOfR ..).mpr ⟨n, hn, hc.1, rfl, hc.2.1, hc.2.2⟩
  constructor
  · intro hno
    unfold Roll.cell
    split
    · have : keyMax (rollOfR fl o notes M row irow N).fill (p + (rollOfR fl o notes M row irow N).rowStart) j = none := by
        rw [keyMax_none_iff]
        rintro ⟨a, b, c⟩ he ⟨h1, h2⟩
        simp only at h1 h2
        subst h1 h2
        obtain ⟨n, hn, h3, h4, h5, h6⟩ := (mem_fillOfR ..).mp he
        exact hno ⟨n, hn, h3, h5, h6⟩
      rw [this]
    · rfl
  · rintro ⟨n0, hn0, hc0⟩
    have hj := hb _ (hcov n0 hn0 _ hc0)
    simp only [inBounds, Bool.and_eq_true, decide_eq_true_eq] at hj
    cases hk : keyMax (fillOfR fl o row notes) (p + (rollOfR fl o notes M row irow N).rowStart) j with
    | none =>
      exfalso
      rw [keyMax_none_iff] at hk
      exact hk _ (hcov n0 hn0 _ hc0) ⟨rfl, rfl⟩
    | some v =>
      obtain ⟨hv1, hv2⟩ := (keyMax_some_iff ..).mp hk
      obtain ⟨n, hn, h3, h4, h5, h6⟩ := (mem_fillOfR ..).mp hv1
      refine ⟨n, hn, ⟨h3, h5, h6⟩, ?_, ?_⟩
      · intro n' hn' hc'
        rw [h4]
        exact hv2 _ (hcov n' hn' _ hc') rfl rfl
      · unfold Roll.cell
        have hg : 0 ≤ p ∧ p < (rollOfR fl o notes M row irow N).rows ∧ 0 ≤ j ∧ j < (rollOfR fl o notes M row irow N).cols :=
          ⟨hp0, hp1, hj.1.2, hj.2⟩
        rw [if_pos hg]
        have : keyMax (rollOfR fl o notes M row irow N).fill (p + (rollOfR fl o notes M row irow N).rowStart) j = some v := hk
        rw [this, h4]
        simp only [rollOfR]
        by_cases hbin : o.binary = true <;> by_cases hv0 : v = 0 <;> simp [hbin, hv0]

theorem cells_in_rangeR_aux (fl : Rat → Rat) (o : Opts) (notes : List Note) (M : Int) (row irow : Note → Int) (r : Roll)
    (h : makeRows fl o notes M row irow = some r)
    (n : Note) (hn : n ∈ notes) (q j : Int) (hc : CoversR fl o row notes n q j) :
    0 ≤ q ∧ q < M ∧ 0 ≤ j ∧ j < r.cols := by
  obtain ⟨_, _, N, _, hb, rfl⟩ := (makeRows_eq_some fl o notes M row irow r).mp h
  have := hb _ ((mem_fillOfR fl o row notes q j n.vel).mpr ⟨n, hn, hc.1, rfl, hc.2.1, hc.2.2⟩)
  simpa [inBounds, rollOfR, and_assoc] using this

theorem fillOfR_perm (fl : Rat → Rat) (o : Opts) (row : Note → Int) {notes notes' : List Note} (hp : notes ~ notes') :
    fillOfR fl o row notes ~ fillOfR fl o row notes' := by
  unfold fillOfR
  rw [t0Of_perm o hp]
  exact Perm.flatMap_right _ (((sortedNotes_perm notes).trans hp).trans (sortedNotes_perm notes').symm)

/-- a permutation of the rows is accepted alike and gives the same matrix (rows `M`, `row`, `irow` fixed) -/
theorem makeRows_perm (fl : Rat → Rat) (o : Opts) (M : Int) (row irow : Note → Int) {a b : List Note} (hab : a ~ b)
    (r : Roll) (hr : makeRows fl o a M row irow = some r) :
    ∃ r', makeRows fl o b M row irow = some r' ∧ r.rows = r'.rows ∧ r.cols = r'.cols ∧
      (∀ p j, r.cell p j = r'.cell p j) ∧ r.idx ~ r'.idx := by
  obtain ⟨hne, hd, N, hN, hb, rfl⟩ := (makeRows_eq_some fl o a M row irow r).mp hr
  refine ⟨rollOfR fl o b M row irow N, ?_, rfl, rfl, ?_, ?_⟩
  · rw [makeRows_eq_some]
    refine ⟨fun hnil => hne (by subst hnil; exact hab.eq_nil), fun n hn => hd n (hab.mem_iff.mpr hn), N,
      by rw [← colsOfG_perm fl o hab]; exact hN, ?_, rfl⟩
    intro e he
    exact hb e ((fillOfR_perm fl o row hab).mem_iff.mpr he)
  · apply cell_congr
    · rfl
    · rfl
    · rfl
    · rfl
    · intro p j
      exact keyMax_perm (fillOfR_perm fl o row hab) p j
  · simp only [rollOfR, idxOfR_eq]
    rw [t0Of_perm o hab]
    exact hab.map _

end C13
