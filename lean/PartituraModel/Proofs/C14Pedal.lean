/-
The pedal change table of `adjust_offsets_w_sustain` computes, for every release `r` strictly between its
sentinels, `if downBefore r stream then (first pedal-up time ≥ r, or the closing sentinel) else r`.
-/
import PartituraModel.Proofs.C14Sort

namespace C14P
open Model Model.Pedal

-- ------------------------------------------------------------------ mapM'

theorem mapM'_eq_some {α β : Type} (f : α → Option β) (g : α → β) (l : List α)
    (h : ∀ a ∈ l, f a = some (g a)) : mapM' f l = some (l.map g) := by
  induction l with
  | nil => rfl
  | cons a rest ih =>
    have h1 := h a List.mem_cons_self
    have h2 := ih (fun b hb => h b (List.mem_cons_of_mem _ hb))
    simp [mapM', h1, h2]

-- ------------------------------------------------------------------ index lookup = walk

/-- walking along the table: the state of the last entry before `r`, the time of the next entry -/
def walkEnd (r : Rat) : Bool → List Ev → Option Rat
  | _, [] => none
  | s, e :: es => if e.1 < r then walkEnd r e.2 es else some (if s then e.1 else r)

theorem pedalEnd_cons_lt (t0 e : Ev) (es : List Ev) (r : Rat) (h0 : t0.1 < r) (he : e.1 < r) :
    pedalEnd (t0 :: e :: es) r = pedalEnd (e :: es) r := by
  unfold pedalEnd searchsortedLeft
  simp only [List.map_cons, List.takeWhile_cons, h0, he, decide_true, if_true, List.length_cons]
  simp

theorem pedalEnd_eq_walk (t0 : Ev) (T : List Ev) (r : Rat) (h0 : t0.1 < r) :
    pedalEnd (t0 :: T) r = walkEnd r t0.2 T := by
  induction T generalizing t0 with
  | nil =>
    unfold pedalEnd searchsortedLeft
    simp [h0, walkEnd]
  | cons e es ih =>
    by_cases he : e.1 < r
    · rw [pedalEnd_cons_lt t0 e es r h0 he, ih e he]
      simp [walkEnd, he]
    · unfold pedalEnd searchsortedLeft
      simp [h0, he, walkEnd]

-- ------------------------------------------------------------------ walk over the flips

/-- first pedal-up time of a list of events, `c` if there is none -/
def firstUp (c : Rat) : List Ev → Rat
  | [] => c
  | b :: rest => if b.2 then firstUp c rest else b.1

/-- what the table computes, written as a recursion over the time-ordered stream -/
def specEnd (r c : Rat) : Bool → List Ev → Rat
  | s, [] => if s then c else r
  | s, b :: rest => if b.1 < r then specEnd r c b.2 rest else if s then firstUp c (b :: rest) else r

theorem walk_flips_ge (r c : Rat) (s : Bool) (E : List Ev) (hc : ¬ c < r)
    (hE : ∀ e ∈ E, ¬ e.1 < r) :
    walkEnd r s (flipsFrom s E ++ [(c, false)]) = some (if s then (if s then firstUp c E else r) else r) := by
  induction E with
  | nil => cases s <;> simp [flipsFrom, walkEnd, hc, firstUp]
  | cons b rest ih =>
    have hb := hE b List.mem_cons_self
    have ih' := ih (fun e he => hE e (List.mem_cons_of_mem _ he))
    unfold flipsFrom
    by_cases hbs : b.2 = s
    · simp only [hbs, if_true]
      rw [ih']
      cases s <;> simp [firstUp, hbs]
    · simp only [hbs, if_false, List.cons_append, walkEnd, hb]
      cases s
      · simp
      · have : b.2 = false := by cases hb2 : b.2 <;> simp_all
        simp [firstUp, this]

theorem walk_flips (r c : Rat) (s : Bool) (E : List Ev) (hc : ¬ c < r)
    (hE : SortedBy (·.1) E) :
    walkEnd r s (flipsFrom s E ++ [(c, false)]) = some (specEnd r c s E) := by
  induction E generalizing s with
  | nil => simp [flipsFrom, walkEnd, hc, specEnd]
  | cons b rest ih =>
    have hs := List.pairwise_cons.mp hE
    by_cases hb : b.1 < r
    · have ih' := ih b.2 hs.2
      unfold flipsFrom
      by_cases hbs : b.2 = s
      · simp only [hbs, if_true]
        rw [← hbs, ih']
        simp [specEnd, hb]
      · simp only [hbs, if_false, List.cons_append, walkEnd, hb, if_true]
        rw [ih']
        simp [specEnd, hb]
    · have hall : ∀ e ∈ b :: rest, ¬ e.1 < r := by
        intro e he
        rcases List.mem_cons.mp he with rfl | he
        · exact hb
        · exact fun h => hb (lt_of_le_of_lt (hs.1 e he) h)
      rw [walk_flips_ge r c s (b :: rest) hc hall]
      cases s <;> simp [specEnd, hb]

/-- the table of the model, looked up by index, is `specEnd` over the sorted stream -/
theorem pedalEnd_table (E : List Ev) (firstOff lastOff r : Rat) (T : List Ev)
    (hT : pedalTable E firstOff lastOff = some T) (hE : SortedBy (·.1) E)
    (h1 : firstOff ≤ r) (h2 : r ≤ lastOff) :
    ∃ pl, E.getLast? = some pl ∧
      pedalEnd T r = some (specEnd r (max (pl.1 + 1) (lastOff + 1)) false E) := by
  unfold pedalTable at hT
  cases E with
  | nil => simp at hT
  | cons p0 E' =>
    cases hl : (p0 :: E').getLast? with
    | none => simp [hl] at hT
    | some pl =>
      refine ⟨pl, rfl, ?_⟩
      simp only [hl] at hT
      have hT' := Option.some.inj hT
      subst hT'
      have hs0 : min (p0.1 - 1) (firstOff - 1) < r :=
        lt_of_le_of_lt (min_le_right _ _) (by linarith)
      have hc : ¬ max (pl.1 + 1) (lastOff + 1) < r := by
        have : lastOff + 1 ≤ max (pl.1 + 1) (lastOff + 1) := le_max_right _ _
        intro h; linarith
      rw [pedalEnd_eq_walk (min (p0.1 - 1) (firstOff - 1), false) _ r hs0]
      have hs := List.pairwise_cons.mp hE
      show walkEnd r false (p0 :: (flips (p0 :: E') ++ [_])) = _
      by_cases hp : p0.1 < r
      · simp only [walkEnd, hp, if_true, flips]
        rw [walk_flips r _ p0.2 E' hc hs.2]
        simp [specEnd, hp]
      · simp [walkEnd, hp, specEnd]

-- ------------------------------------------------------------------ specEnd in the property's vocabulary

theorem firstUp_eq (c : Rat) (E : List Ev) (hE : SortedBy (·.1) E) (hc : ∀ e ∈ E, e.1 ≤ c) :
    firstUp c E = minOf c ((E.filter (fun e => !e.2)).map (·.1)) := by
  induction E with
  | nil => rfl
  | cons b rest ih =>
    have hs := List.pairwise_cons.mp hE
    have ih' := ih hs.2 (fun e he => hc e (List.mem_cons_of_mem _ he))
    unfold firstUp
    cases hb : b.2
    · simp only [List.filter_cons, hb, Bool.not_false, if_true, List.map_cons, minOf, List.foldl_cons,
        Bool.false_eq_true, if_false]
      have hbc : b.1 ≤ c := hc b List.mem_cons_self
      rw [min_eq_right hbc]
      symm
      apply foldl_min_eq_init
      intro y hy
      obtain ⟨e, he, rfl⟩ := List.mem_map.mp hy
      exact hs.1 e (List.mem_filter.mp he).1
    · simp only [List.filter_cons, hb, Bool.not_true, if_true]
      simpa using ih'

/-- state after a list of events that starts in state `s` -/
def lastState (s : Bool) (l : List Ev) : Bool :=
  match l.getLast? with
  | some e => e.2
  | none => s

theorem lastState_cons (s : Bool) (b : Ev) (l : List Ev) : lastState s (b :: l) = lastState b.2 l := by
  cases l with
  | nil => simp [lastState]
  | cons x xs =>
    unfold lastState
    rw [List.getLast?_cons_cons]
    cases h : (x :: xs).getLast? with
    | none => simp at h
    | some e => rfl

theorem specEnd_eq (r c : Rat) (s : Bool) (E : List Ev) (hE : SortedBy (·.1) E) (hc : ∀ e ∈ E, e.1 ≤ c) :
    specEnd r c s E =
      if lastState s (E.filter (fun e => decide (e.1 < r))) then minOf c (upTimes r E) else r := by
  induction E generalizing s with
  | nil => simp [specEnd, upTimes, minOf, lastState]
  | cons b rest ih =>
    have hs := List.pairwise_cons.mp hE
    have ih' := ih b.2 hs.2 (fun e he => hc e (List.mem_cons_of_mem _ he))
    by_cases hb : b.1 < r
    · have hnb : ¬ r ≤ b.1 := not_le.mpr hb
      simp only [specEnd, hb, if_true, ih', List.filter_cons, decide_true, upTimes, hnb, decide_false,
        Bool.false_and, Bool.false_eq_true, if_false, lastState_cons]
    · have hall : ∀ e ∈ rest, ¬ e.1 < r :=
        fun e he h => hb (lt_of_le_of_lt (hs.1 e he) h)
      have hfil : (b :: rest).filter (fun e => decide (e.1 < r)) = [] := by
        apply List.filter_eq_nil_iff.mpr
        intro e he
        rcases List.mem_cons.mp he with rfl | he
        · simpa using hb
        · simpa using hall e he
      rw [hfil]
      simp only [specEnd, hb, if_false, lastState, List.getLast?_nil]
      cases s
      · simp
      · simp only [if_true]
        rw [firstUp_eq c (b :: rest) hE hc]
        congr 1
        unfold upTimes
        congr 1
        apply List.filter_congr
        intro e he
        have : r ≤ e.1 := by
          rcases List.mem_cons.mp he with rfl | he
          · exact not_lt.mp hb
          · exact not_lt.mp (hall e he)
        simp [this]

-- ------------------------------------------------------------------ bounds of np.min / np.max

theorem minOf_le (x : Rat) (l : List Rat) (y : Rat) (hy : y = x ∨ y ∈ l) : minOf x l ≤ y := by
  rcases hy with rfl | hy
  · exact foldl_min_le_init _ _
  · exact foldl_min_le_mem _ _ _ hy

theorem le_maxOf (x : Rat) (l : List Rat) (y : Rat) (hy : y = x ∨ y ∈ l) : y ≤ maxOf x l := by
  rcases hy with rfl | hy
  · exact foldl_max_ge_init _ _
  · exact foldl_max_ge_mem _ _ _ hy

end C14P

namespace C14P
open Model Model.Pedal

-- ------------------------------------------------------------------ the table is sorted (searchsorted's precondition)

theorem flipsFrom_sublist (s : Bool) (E : List Ev) : (flipsFrom s E).Sublist E := by
  induction E generalizing s with
  | nil => exact List.Sublist.refl _
  | cons b rest ih =>
    unfold flipsFrom
    split
    · exact (ih b.2).cons b
    · exact (ih b.2).cons_cons b

theorem sorted_last_max (l : List Ev) (pl : Ev) (hs : SortedBy (·.1) l) (hl : l.getLast? = some pl) :
    ∀ e ∈ l, e.1 ≤ pl.1 := by
  obtain ⟨ys, rfl⟩ := List.getLast?_eq_some_iff.mp hl
  intro e he
  rcases List.mem_append.mp he with h | h
  · exact (List.pairwise_append.mp hs).2.2 e h pl (List.mem_singleton.mpr rfl)
  · rw [List.mem_singleton.mp h]

/-- the times of the pedal change table are in ascending order -/
theorem pedalTable_sorted (E : List Ev) (firstOff lastOff : Rat) (T : List Ev)
    (hT : pedalTable E firstOff lastOff = some T) (hE : SortedBy (·.1) E) : SortedBy (·.1) T := by
  unfold pedalTable at hT
  cases E with
  | nil => simp at hT
  | cons p0 E' =>
    cases hl : (p0 :: E').getLast? with
    | none => simp [hl] at hT
    | some pl =>
      simp only [hl] at hT
      have hT' := Option.some.inj hT
      subst hT'
      have hs := List.pairwise_cons.mp hE
      have hmax := sorted_last_max (p0 :: E') pl hE hl
      have hsub : (flips (p0 :: E')).Sublist E' := flipsFrom_sublist p0.2 E'
      have hend : ∀ e ∈ p0 :: E', e.1 ≤ max (pl.1 + 1) (lastOff + 1) := by
        intro e he
        have h1 := hmax e he
        have h2 : pl.1 + 1 ≤ max (pl.1 + 1) (lastOff + 1) := le_max_left _ _
        linarith
      have hs0 : min (p0.1 - 1) (firstOff - 1) ≤ p0.1 := le_trans (min_le_left _ _) (by linarith)
      unfold SortedBy
      refine List.pairwise_cons.mpr ⟨?_, List.pairwise_cons.mpr ⟨?_, ?_⟩⟩
      · intro e he
        rcases List.mem_cons.mp he with rfl | he
        · exact hs0
        · rcases List.mem_append.mp he with h | h
          · exact le_trans hs0 (hs.1 e (hsub.subset h))
          · rw [List.mem_singleton.mp h]
            exact le_trans hs0 (hend p0 List.mem_cons_self)
      · intro e he
        rcases List.mem_append.mp he with h | h
        · exact hs.1 e (hsub.subset h)
        · rw [List.mem_singleton.mp h]
          exact hend p0 List.mem_cons_self
      · apply List.pairwise_append.mpr
        refine ⟨hs.2.sublist hsub, List.pairwise_singleton _ _, ?_⟩
        intro a ha b hb
        rw [List.mem_singleton.mp hb]
        exact hend a (List.mem_cons_of_mem _ (hsub.subset ha))

end C14P
