/-
Helper lemmas for the `load_score` dispatch theorems (C19).
-/
import PartituraModel.Model.LoadDispatch
import Mathlib.Tactic.Ring

namespace C19D
open Model Model.LoadDispatch

theorem takeWhile_append_of_all {α : Type} (p : α → Bool) (a b : List α) (h : ∀ x ∈ a, p x = true) :
    (a ++ b).takeWhile p = a ++ b.takeWhile p := by
  induction a with
  | nil => rfl
  | cons x rest ih =>
    simp only [List.cons_append, List.takeWhile_cons, h x (by simp), if_true]
    rw [ih (fun y hy => h y (by simp [hy]))]

/-- the extension of `dir/stem.x` is `.x` when `x` has neither dot nor slash and `stem` (no slash) is not made of dots only -/
theorem extOf_spec (dir stem x : List Char) (hx : ∀ c ∈ x, c ≠ '.' ∧ c ≠ '/') (hs : ∀ c ∈ stem, c ≠ '/')
    (hstem : stem.any (· ≠ '.') = true) :
    extOf (dir ++ '/' :: (stem ++ '.' :: x)) = '.' :: x := by
  have hbase : lastComponent (dir ++ '/' :: (stem ++ '.' :: x)) = stem ++ '.' :: x := by
    simp only [lastComponent, List.reverse_append, List.reverse_cons, List.append_assoc, List.singleton_append]
    have : ∀ c ∈ x.reverse ++ '.' :: stem.reverse, (decide (c ≠ '/')) = true := by
      intro c hc
      rcases List.mem_append.mp hc with h | h
      · simpa using (hx c (List.mem_reverse.mp h)).2
      · rcases List.mem_cons.mp h with rfl | h
        · decide
        · simpa using hs c (List.mem_reverse.mp h)
    rw [← List.append_assoc, takeWhile_append_of_all _ _ _ this]
    simp
  have hext : (stem ++ '.' :: x).reverse.takeWhile (· ≠ '.') = x.reverse := by
    simp only [List.reverse_append, List.reverse_cons, List.append_assoc, List.singleton_append]
    rw [takeWhile_append_of_all _ _ _ (fun c hc => by simpa using (hx c (List.mem_reverse.mp hc)).1)]
    simp
  simp only [extOf, hbase, hext, List.length_reverse, List.length_append, List.length_cons]
  have hlen : ¬ (x.length = stem.length + (x.length + 1)) := by omega
  simp only [hlen, if_false]
  have hdrop : ((stem ++ '.' :: x).reverse.drop (x.length + 1)).reverse = stem := by
    simp only [List.reverse_append, List.reverse_cons, List.append_assoc, List.singleton_append]
    rw [show x.reverse ++ '.' :: stem.reverse = (x.reverse ++ ['.']) ++ stem.reverse by simp]
    rw [List.drop_left' (by simp)]
    simp
  rw [hdrop, hstem]
  simp

theorem lookup_mem {α β : Type} [DecidableEq α] (k : α) (l : List (α × β)) (v : β) (h : lookup k l = some v) : (k, v) ∈ l := by
  induction l with
  | nil => simp [lookup] at h
  | cons a rest ih =>
    obtain ⟨a1, a2⟩ := a
    simp only [lookup] at h
    split at h
    · rename_i heq
      simp at h
      subst h
      simp [heq]
    · exact List.mem_cons_of_mem _ (ih h)

/-- no extension is listed twice: looking a row's extension up gives the row's reader (whole finite table) -/
theorem table_lookup : ∀ row ∈ table, lookup row.1 table = some row.2 := by decide

end C19D
