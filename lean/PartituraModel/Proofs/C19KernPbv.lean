/-
C19 — helper lemmas: which main spine every column belongs to after an interpretation row (`mainsOut`), and that
the arithmetic of `importkern.parse_by_voice` (Model/KernPbv.lean) counts the columns of the leftmost spine.
-/
import PartituraModel.Model.KernPbv

set_option linter.unusedSimpArgs false

namespace C19.Pbv
open Model Model.Kern

/-- the main spines of the columns a row of interpretation cells leaves (`prev`: the spine of the cell to the left if
    that cell was a `*v`) -/
def mainsOut : List (Col × Nat) → List (List Char) → Option Nat → List Nat
  | (c, _) :: cs, cell :: cells, prev =>
    if cell = "*^".toList then c.main :: c.main :: mainsOut cs cells none
    else if cell = "*v".toList then (if prev = some c.main then [] else [c.main]) ++ mainsOut cs cells (some c.main)
    else if cell = "*-".toList then mainsOut cs cells none
    else c.main :: mainsOut cs cells none
  | _, _, _ => []

theorem tandem_main {st : St} {c : Col} {p : Nat} {cell : List Char} {st' : St} {c' : Col}
    (h : tandem st c p cell = some (st', c')) : c'.main = c.main := by
  unfold tandem at h
  split at h
  · simp only [Option.some.injEq, Prod.mk.injEq] at h; rw [← h.2]
  · split at h
    · split at h
      · simp only [Option.some.injEq, Prod.mk.injEq] at h; rw [← h.2]
      · simp at h
    · split at h
      · split at h
        · simp only [Option.some.injEq, Prod.mk.injEq] at h; rw [← h.2]
        · simp at h
      · split at h
        · simp only [Option.some.injEq, Prod.mk.injEq] at h; rw [← h.2]
        · split at h
          · split at h
            · simp only [Option.some.injEq, Prod.mk.injEq] at h; rw [← h.2]
            · simp at h
          · split at h
            · simp only [Option.some.injEq, Prod.mk.injEq] at h; rw [← h.2]
            · split at h
              · simp only [Option.some.injEq, Prod.mk.injEq] at h; rw [← h.2]
              · split at h
                · simp only [Option.some.injEq, Prod.mk.injEq] at h; rw [← h.2]
                · simp only [Option.some.injEq, Prod.mk.injEq] at h; rw [← h.2]

/-- the columns after an accepted interpretation row belong to the main spines `mainsOut` lists, in this order -/
theorem interpRow_mains (st : St) (cp : List (Col × Nat)) (row : List (List Char)) (acc : List Col) (joining : Bool)
    (st' : St) (cols' : List Col) (hj : joining = true → acc ≠ [])
    (h : interpRow st cp row acc joining = some (st', cols')) :
    cols'.map (·.main) = acc.reverse.map (·.main)
      ++ mainsOut cp row (if joining then acc.head?.map (·.main) else none) := by
  induction cp generalizing st row acc joining with
  | nil =>
    cases row with
    | nil =>
      simp only [interpRow, Option.some.injEq, Prod.mk.injEq] at h
      rw [← h.2]
      simp [mainsOut]
    | cons _ _ => simp [interpRow] at h
  | cons cpHead cs ih =>
    obtain ⟨c, p⟩ := cpHead
    cases row with
    | nil => simp [interpRow] at h
    | cons cell cells =>
      simp only [interpRow] at h
      by_cases h1 : cell = "*^".toList
      · simp only [eq_true h1, if_true] at h
        have := ih st cells (c :: c :: acc) false (by simp) h
        simp only [mainsOut, eq_true h1, if_true]
        simpa using this
      · simp only [eq_false h1, if_false] at h
        by_cases h2 : cell = "*v".toList
        · simp only [eq_true h2, if_true] at h
          simp only [mainsOut, eq_false h1, eq_true h2, if_true, if_false]
          cases acc with
          | nil =>
            have hjf : joining = false := by
              cases joining with
              | false => rfl
              | true => exact absurd rfl (hj rfl)
            subst hjf
            have := ih st cells [c] true (by simp) h
            simpa using this
          | cons a rest =>
            cases joining with
            | false =>
              have := ih st cells (c :: a :: rest) true (by simp) h
              simpa using this
            | true =>
              simp only at h
              by_cases hm : a.main = c.main
              · simp only [hm, if_true] at h
                have := ih st cells (a :: rest) true (by simp) h
                simpa [hm] using this
              · simp only [hm, if_false] at h
                have := ih st cells (c :: a :: rest) true (by simp) h
                simpa [hm] using this
        · simp only [eq_false h2, if_false] at h
          by_cases h3 : cell = "*-".toList
          · simp only [eq_true h3, if_true] at h
            have := ih st cells acc false (by simp) h
            simp only [mainsOut, eq_false h1, eq_false h2, eq_true h3, if_true, if_false]
            simpa using this
          · simp only [eq_false h3, if_false] at h
            cases ht : tandem st c p cell with
            | none => simp [ht] at h
            | some r =>
              obtain ⟨st2, c2⟩ := r
              simp only [ht] at h
              have := ih st2 cells (c2 :: acc) false (by simp) h
              simp only [mainsOut, eq_false h1, eq_false h2, eq_false h3, if_false]
              have hc2 := tandem_main ht
              simpa [hc2] using this

/-- whether the cell to the left of what follows was a `*v`, and of which spine -/
def prevAfter : List (Col × Nat) → List (List Char) → Option Nat → Option Nat
  | (c, _) :: cs, cell :: cells, _ => prevAfter cs cells (if cell = "*v".toList then some c.main else none)
  | _, _, prev => prev

theorem mainsOut_prev_irrel (cp : List (Col × Nat)) (row : List (List Char)) (m : Nat)
    (h : ∀ x, cp.head? = some x → x.1.main ≠ m) : mainsOut cp row (some m) = mainsOut cp row none := by
  cases cp with
  | nil => simp [mainsOut]
  | cons x cs =>
    obtain ⟨c, p⟩ := x
    cases row with
    | nil => simp [mainsOut]
    | cons cell cells =>
      have hc : c.main ≠ m := h (c, p) (by simp)
      have hne : ¬ (some m = some c.main) := by
        intro e; exact hc (Option.some.inj e).symm
      simp only [mainsOut, hne, if_false, reduceCtorEq]

theorem mainsOut_append (pre post : List (Col × Nat)) (rpre rpost : List (List Char)) (prev : Option Nat)
    (hl : pre.length = rpre.length) :
    mainsOut (pre ++ post) (rpre ++ rpost) prev
      = mainsOut pre rpre prev ++ mainsOut post rpost (prevAfter pre rpre prev) := by
  induction pre generalizing rpre prev with
  | nil =>
    cases rpre with
    | nil => simp [mainsOut, prevAfter]
    | cons _ _ => simp at hl
  | cons x cs ih =>
    obtain ⟨c, p⟩ := x
    cases rpre with
    | nil => simp at hl
    | cons cell cells =>
      have hl' : cs.length = cells.length := by simpa using hl
      simp only [List.cons_append, mainsOut, prevAfter]
      by_cases h1 : cell = "*^".toList
      · have h2 : ¬ cell = "*v".toList := by rw [h1]; decide
        simp only [eq_true h1, eq_false h2, if_true, if_false, ih cells none hl', List.cons_append]
      · by_cases h2 : cell = "*v".toList
        · simp only [eq_false h1, eq_true h2, if_true, if_false, ih cells (some c.main) hl', List.append_assoc]
        · by_cases h3 : cell = "*-".toList
          · simp only [eq_false h1, eq_false h2, eq_true h3, if_true, if_false, ih cells none hl']
          · simp only [eq_false h1, eq_false h2, eq_false h3, if_false, ih cells none hl', List.cons_append]

theorem prevAfter_cases (m : Nat) (pre : List (Col × Nat)) (rpre : List (List Char)) (prev : Option Nat)
    (hm : ∀ x ∈ pre, x.1.main = m) (hp : prev = none ∨ prev = some m) :
    prevAfter pre rpre prev = none ∨ prevAfter pre rpre prev = some m := by
  induction pre generalizing rpre prev with
  | nil => simpa [prevAfter] using hp
  | cons x cs ih =>
    obtain ⟨c, p⟩ := x
    cases rpre with
    | nil => simpa [prevAfter] using hp
    | cons cell cells =>
      have hc : c.main = m := hm (c, p) (by simp)
      have hm' : ∀ x ∈ cs, x.1.main = m := fun x hx => hm x (List.mem_cons_of_mem _ hx)
      simp only [prevAfter]
      apply ih cells _ hm'
      by_cases h2 : cell = "*v".toList
      · simp only [eq_true h2, if_true, hc]; exact Or.inr trivial
      · simp only [eq_false h2, if_false]; exact Or.inl trivial

theorem mainsOut_all (P : Nat → Prop) (cp : List (Col × Nat)) (row : List (List Char)) (prev : Option Nat)
    (h : ∀ x ∈ cp, P x.1.main) : ∀ y ∈ mainsOut cp row prev, P y := by
  induction cp generalizing row prev with
  | nil => simp [mainsOut]
  | cons x cs ih =>
    obtain ⟨c, p⟩ := x
    cases row with
    | nil => simp [mainsOut]
    | cons cell cells =>
      have hc : P c.main := h (c, p) (by simp)
      have h' : ∀ x ∈ cs, P x.1.main := fun x hx => h x (List.mem_cons_of_mem _ hx)
      intro y hy
      simp only [mainsOut] at hy
      by_cases h1 : cell = "*^".toList
      · simp only [eq_true h1, if_true, List.mem_cons] at hy
        rcases hy with rfl | rfl | hy
        · exact hc
        · exact hc
        · exact ih cells none h' y hy
      · by_cases h2 : cell = "*v".toList
        · simp only [eq_false h1, eq_true h2, if_true, if_false, List.mem_append] at hy
          rcases hy with hy | hy
          · by_cases hpv : prev = some c.main
            · simp [hpv] at hy
            · simp only [hpv, if_false, List.mem_singleton] at hy
              rw [hy]; exact hc
          · exact ih cells _ h' y hy
        · by_cases h3 : cell = "*-".toList
          · simp only [eq_false h1, eq_false h2, eq_true h3, if_true, if_false] at hy
            exact ih cells none h' y hy
          · simp only [eq_false h1, eq_false h2, eq_false h3, if_false, List.mem_cons] at hy
            rcases hy with rfl | hy
            · exact hc
            · exact ih cells none h' y hy

/-- a list whose image under `f` is `a ++ b` splits accordingly -/
theorem split_of_map_eq_append {α β : Type} (f : α → β) (l : List α) (a b : List β) (h : l.map f = a ++ b) :
    (l.take a.length).map f = a ∧ (l.drop a.length).map f = b := by
  constructor
  · rw [List.map_take, h]; simp
  · rw [List.map_drop, h]; simp

theorem withPosAux_fst (cols : List Col) (prev : Option Nat) (k : Nat) :
    (withPosAux cols prev k).map Prod.fst = cols := by
  induction cols generalizing prev k with
  | nil => simp [withPosAux]
  | cons c rest ih => simp [withPosAux, ih]

theorem startsWith_star_not_bang (first : List Char) (h : startsWith first "*" = true) : startsWith first "!" = false := by
  cases first with
  | nil => simp [startsWith] at h
  | cons c cs =>
    simp only [startsWith] at h ⊢
    have h' : '*' = c := by simpa [List.isPrefixOf] using h
    subst h'
    simp [List.isPrefixOf]

theorem barRow_cols (st : St) (cp : List (Col × Nat)) (row : List (List Char)) (st' : St)
    (h : barRow st cp row = some st') : st'.cols = st.cols := by
  induction cp generalizing st row with
  | nil =>
    cases row with
    | nil => simp only [barRow, Option.some.injEq] at h; rw [← h]
    | cons _ _ => simp [barRow] at h
  | cons x cs ih =>
    obtain ⟨c, p⟩ := x
    cases row with
    | nil => simp [barRow] at h
    | cons cell cells =>
      simp only [barRow] at h
      split at h
      · have := ih _ cells h
        simpa using this
      · exact ih _ cells h

theorem dataRow_mains (st : St) (cp : List (Col × Nat)) (row : List (List Char)) (acc : List Col) (anchors : List (Nat × Rat))
    (st' : St) (cols' : List Col) (h : dataRow st cp row acc anchors = some (st', cols')) :
    cols'.map (·.main) = acc.reverse.map (·.main) ++ cp.map (·.1.main) := by
  induction cp generalizing st row acc anchors with
  | nil =>
    cases row with
    | nil =>
      simp only [dataRow, Option.some.injEq, Prod.mk.injEq] at h
      rw [← h.2]; simp
    | cons _ _ => simp [dataRow] at h
  | cons x cs ih =>
    obtain ⟨c, p⟩ := x
    cases row with
    | nil => simp [dataRow] at h
    | cons cell cells =>
      simp only [dataRow] at h
      split at h
      · have := ih _ cells (c :: acc) anchors h
        simpa using this
      · split at h
        · split at h
          · simp at h
          · cases ht : tandem st c p cell with
            | none => simp [ht] at h
            | some r =>
              obtain ⟨st2, c2⟩ := r
              simp only [ht] at h
              have := ih _ cells (c2 :: acc) anchors h
              have hc2 := tandem_main ht
              simpa [hc2] using this
        · cases hp : parseToken cell with
          | none => simp [hp] at h
          | some toks =>
            simp only [hp] at h
            split at h
            · have := ih _ cells _ _ h
              cases hlk : lookup (groupKey st.same c) anchors with
              | none => simpa [hlk] using this
              | some t => simpa [hlk] using this
            · simp at h

theorem withPos_mains (cols : List Col) : (withPos cols).map (·.1.main) = cols.map (·.main) := by
  have := congrArg (List.map (·.main)) (withPosAux_fst cols none 0)
  simpa [withPos, List.map_map, Function.comp_def] using this

theorem step_other_mains (st st' : St) (first : List Char) (rest : List (List Char))
    (hstar : startsWith first "*" = false) (h : step st (first :: rest) = some st') :
    st'.cols.map (·.main) = st.cols.map (·.main) ∧
      (startsWith first "!" = false → (first :: rest).length = st.cols.length) := by
  simp only [step] at h
  by_cases hb : startsWith first "!" = true
  · simp only [hb, if_true, Option.some.injEq] at h
    subst h
    exact ⟨rfl, by simp [hb]⟩
  · have hb' : startsWith first "!" = false := by simpa using hb
    simp only [hb', Bool.false_eq_true, if_false, hstar] at h
    by_cases hlen : (first :: rest).length ≠ st.cols.length
    · exfalso
      simp only [List.length_cons] at hlen
      simp only [List.length_cons, hlen, if_true, reduceCtorEq, ne_eq, not_false_eq_true] at h
    · simp only [hlen, if_false] at h
      have hlen' : (first :: rest).length = st.cols.length := by simpa using hlen
      refine ⟨?_, fun _ => hlen'⟩
      split at h
      · have := barRow_cols _ _ _ _ h
        rw [this]
      · cases hd : dataRow { st with widths := updWidths st.widths (withPos st.cols) } (withPos st.cols) (first :: rest) [] [] with
        | none => simp [hd] at h
        | some r =>
          obtain ⟨st2, cols2⟩ := r
          simp only [hd, Option.map_some, Option.some.injEq] at h
          have := dataRow_mains _ _ _ _ _ _ _ hd
          rw [← h]
          simpa [withPos_mains] using this

theorem pbvJoins_zero (seg : List (List Char)) (b : Bool) (h : ∀ cell ∈ seg, cell ≠ "*v".toList) : pbvJoins seg b = 0 := by
  induction seg generalizing b with
  | nil => rfl
  | cons cell cells ih =>
    have h1 : cell ≠ "*v".toList := h cell (by simp)
    simp only [pbvJoins, h1, false_and, if_false, ih _ (fun c hc => h c (List.mem_cons_of_mem _ hc))]

theorem pbvStep_clean (k : Nat) (row : List (List Char)) (hk : k ≤ row.length)
    (hno : ∀ cell ∈ row, cell ≠ "*^".toList ∧ cell ≠ "*v".toList) : pbvStep k row = some k := by
  have hs : pbvSplits (row.take k) = 0 := by
    unfold pbvSplits
    rw [List.length_eq_zero_iff, List.filter_eq_nil_iff]
    intro cell hc
    simpa using (hno cell (List.mem_of_mem_take hc)).1
  have hj : pbvJoins (row.take k) false = 0 :=
    pbvJoins_zero _ _ (fun cell hc => (hno cell (List.mem_of_mem_take hc)).2)
  have : ¬ row.length < k := by omega
  simp [pbvStep, this, hs, hj]

theorem countMain_block (m : Nat) (pre post : List Col) (hpre : ∀ c ∈ pre, c.main = m) (hpost : ∀ c ∈ post, c.main ≠ m) :
    countMain (pre ++ post) m = pre.length := by
  unfold countMain
  rw [List.filter_append]
  have h1 : pre.filter (fun c => decide (c.main = m)) = pre := by
    rw [List.filter_eq_self]; intro c hc; simpa using hpre c hc
  have h2 : post.filter (fun c => decide (c.main = m)) = [] := by
    rw [List.filter_eq_nil_iff]; intro c hc; simpa using hpost c hc
  rw [h1, h2]; simp

theorem initCols_mains_ge (l : List (List Char)) (i : Nat) : ∀ c ∈ initCols l i, i ≤ c.main := by
  induction l generalizing i with
  | nil => simp [initCols]
  | cons h rest ih =>
    intro c hc
    simp only [initCols, List.mem_cons] at hc
    rcases hc with rfl | hc
    · exact Nat.le_refl _
    · have := ih (i + 1) c hc; omega

end C19.Pbv
