/-
C15: definitions used in the statements of Props/C15.lean (hypotheses, and the concrete parts of the
non-vacuity examples).
-/
import PartituraModel.Proofs.C15Sound
import PartituraModel.Proofs.C15Distinct

namespace C15
open Model.Merge

/-- voice and staff numbers start from 1 (MusicXML; "voice numbers start from 1" in `merge_parts`) -/
def NumberedFrom1 (ps : List APart) : Prop :=
  ∀ p ∈ ps, ∀ e ∈ allElems p, (∀ v ∈ e.voice, 1 ≤ v) ∧ (∀ s ∈ e.staff, 1 ≤ s)

-- ================================================================ a concrete, non-trivial instance

/-- part A, divisions 3: a quarter note tied to a half note (voice 1), a rest alone in voice 2, a note without staff,
measure, time signature, a clef on an empty second staff, a fermata -/
def exA : APart := { pid := 0, divs := 3, elems := [
  { oid := 0, cls := classId "Note", start := 0, stop := some 3, voice := some 1, staff := some 1, pitch := some 60, tiePrev := false, chain := [4] },
  { oid := 1, cls := classId "Rest", start := 0, stop := some 9, voice := some 2, staff := some 1, pitch := none, tiePrev := false, chain := [] },
  { oid := 2, cls := classId "Clef", start := 0, stop := none, voice := none, staff := some 2, pitch := none, tiePrev := false, chain := [] },
  { oid := 3, cls := classId "Measure", start := 0, stop := some 12, voice := none, staff := none, pitch := none, tiePrev := false, chain := [] },
  { oid := 4, cls := classId "Note", start := 3, stop := some 9, voice := some 1, staff := some 1, pitch := some 60, tiePrev := true, chain := [] },
  { oid := 5, cls := classId "Note", start := 9, stop := some 12, voice := some 1, staff := none, pitch := some 64, tiePrev := false, chain := [] }] }

/-- part B, divisions 4: two notes in voices 1 and 3, a grace note, a measure, a tempo, words on staff 1; a slur that
ends with the last note and whose start is not in the score (on the timeline by its end only) -/
def exB : APart := { pid := 1, divs := 4, elems := [
  { oid := 10, cls := classId "Note", start := 0, stop := some 6, voice := some 1, staff := some 1, pitch := some 48, tiePrev := false, chain := [] },
  { oid := 11, cls := classId "GraceNote", start := 0, stop := some 0, voice := some 1, staff := some 1, pitch := some 50, tiePrev := false, chain := [] },
  { oid := 12, cls := classId "Measure", start := 0, stop := some 16, voice := none, staff := none, pitch := none, tiePrev := false, chain := [] },
  { oid := 13, cls := classId "Tempo", start := 0, stop := none, voice := none, staff := none, pitch := none, tiePrev := false, chain := [] },
  { oid := 14, cls := classId "Words", start := 0, stop := none, voice := none, staff := some 1, pitch := none, tiePrev := false, chain := [] },
  { oid := 15, cls := classId "Note", start := 6, stop := some 16, voice := some 3, staff := none, pitch := some 55, tiePrev := false, chain := [] }], tails := [
  { oid := 16, cls := classId "Slur", start := 0, stop := some 16, voice := none, staff := none, pitch := none, tiePrev := false, chain := [], refs := [15] }] }

/-- part C, divisions 2: five simultaneous voices on one staff -/
def exC : APart := { pid := 2, divs := 2, elems := (List.range 5).map fun v =>
  { oid := 20 + v, cls := classId "Note", start := 0, stop := some 2, voice := some (v + 1), staff := some 1, pitch := some 60, tiePrev := false, chain := [] } }

/-- part D, divisions 2: one note in voice 1 -/
def exD : APart := { pid := 3, divs := 2, elems := [
  { oid := 30, cls := classId "Note", start := 0, stop := some 2, voice := some 1, staff := some 1, pitch := some 72, tiePrev := false, chain := [] }] }

/-- what the examples show of a result -/
def summary : Result → Nat × List (Nat × Nat × Option Nat × Option Nat × Option Nat)
  | .merged L es => (L, es.map fun e => (e.oid, e.start, e.stop, e.voice, e.staff))
  | .same p => (0, p.elems.map fun e => (e.oid, e.start, e.stop, e.voice, e.staff))

end C15
