/-
Helper lemmas for the C19 theorems about the STRUCTURE of an MEI document (`Props/C19Sections.lean`):
how the same measures are cut into sibling / nested `<section>` elements, and where the `<tie>` elements stand.

The state machine of `Model/Mei.lean` is not changed.  Its two step functions are shown equal to functions
(`openCore`, `closeCore`) that see the stack of open elements only through a small context
(`Ctx`: tag and attributes of the innermost open element, the enclosing tuplets, "inside a layer");
everything about sections then follows from list reasoning on the stack.
-/
import PartituraModel.Model.Mei

set_option linter.unusedSimpArgs false
set_option linter.unusedVariables false

namespace C19S
open Model Model.Mei

/-! ## what a step sees of the stack -/

structure Ctx where
  ptag : String
  pattrs : List (String × String)
  tups : List (Nat × Nat)
  lay : Bool
  deriving DecidableEq

def ptagOf (s : List Frame) : String := (s.head?.map (·.tag)).getD ""

/-- the attributes of the innermost open element are looked at only when it is a `staffDef` (number of a clef)
    or a `note` (an `accid` child) -/
def ctxOf (s : List Frame) : Ctx :=
  ⟨ptagOf s, if ptagOf s = "staffDef" ∨ ptagOf s = "note" then (s.head?.map (·.attrs)).getD [] else [], tupletsOf s, inLayer s⟩

/-- what a child element writes into the frame of its parent (`staffDef` / `scoreDef`) -/
inductive TopMod where
  | keep
  | meter (m : Option (Nat × Nat))
  | key (k : Option (Int × Option String))
  | clef (c : Option (Nat × String × Nat × Int))

def applyTop : TopMod → List Frame → List Frame
  | .keep, s => s
  | .meter m, s => setTop s fun f => { f with cMeter := m }
  | .key k, s => setTop s fun f => { f with cKey := k }
  | .clef c, s => setTop s fun f => { f with cClef := c }

def durOfT (tups : List (Nat × Nat)) (as : List (String × String)) : Option Rat :=
  match (attr as "dur").bind durNumber with
  | none => none
  | some v =>
    let dots := (natAttr as "dots").getD 0
    match tups with
    | [] => some (meiValue v dots none)
    | [(a, b)] => if a = 0 then none else some (meiValue v dots (some (a, b)))
    | _ => none

def recordDurElT (tups : List (Nat × Nat)) (st : St) (as : List (String × String)) : Option St :=
  match attr as "dur" with
  | none => some st
  | some d =>
    match durNumber d with
    | none => none
    | some v =>
      match tups with
      | [] => some { st with durEls := ⟨v, (natAttr as "dots").getD 0, none, natAttr as "dur.ppq"⟩ :: st.durEls }
      | [t] => some { st with durEls := ⟨v, (natAttr as "dots").getD 0, some t, natAttr as "dur.ppq"⟩ :: st.durEls }
      | _ => none

/-- `openEv` without the stack: the new state (stack untouched) and what is written into the parent's frame -/
def coreBody (c : Ctx) (st : St) (tag : String) (as : List (String × String)) : Option (St × TopMod) := do
  let parentTag := c.ptag
  if tag = "section" then
    pure ({ st with inSection := true }, .keep)
  else if tag = "scoreDef" then
    if st.inSection then pure (st, .keep)
    else pure ({ st with sdMeter := meterOfAttrs as "meter.count" "meter.unit",
                         sdKey := keyOfAttrs as "key.sig" "key.mode" }, .keep)
  else if tag = "meterSig" then
    if parentTag = "staffDef" || parentTag = "scoreDef" then
      pure (st, .meter (meterOfAttrs as "count" "unit"))
    else pure (st, .keep)
  else if tag = "keySig" then
    if parentTag = "staffDef" || parentTag = "scoreDef" then
      pure (st, .key (keyOfAttrs as "sig" "mode"))
    else pure (st, .keep)
  else if tag = "clef" then
    if (attr as "sameas").isSome then pure (st, .keep)
    else
      match attr as "shape", natAttr as "line" with
      | some sh, some ln =>
        if parentTag = "staffDef" then
          let num := (natAttr c.pattrs "n").getD 1
          pure (st, .clef (some (num, sh, ln, clefOctave as)))
        else if c.lay then
          pure ({ st with clefs := (st.staffIdx, st.cursor, st.staffN, sh, ln, clefOctave as) :: st.clefs }, .keep)
        else pure (st, .keep)
      | _, _ => none
  else if tag = "measure" then
    let st ← ensureStarted st
    pure ({ st with measName := attr as "n", staffIdx := 0, staffEnds := [] }, .keep)
  else if tag = "staff" && parentTag = "measure" then
    pure ({ st with staffN := (natAttr as "n").getD (st.staffIdx + 1), layerIdx := 0, layerEnds := [] }, .keep)
  else if tag = "layer" && parentTag = "staff" then
    pure ({ st with voice := (natAttr as "n").getD (st.layerIdx + 1), cursor := st.pos }, .keep)
  else if tag = "tie" then
    match attr as "startid", attr as "endid" with
    | some a, some b => pure ({ st with ties := (String.ofList (a.toList.drop 1), String.ofList (b.toList.drop 1)) :: st.ties }, .keep)
    | _, _ => pure (st, .keep)
  else if !c.lay then pure (st, .keep)
  else if tag = "chord" then
    let d ← durOfT c.tups as
    pure ({ st with chord := some (d, natAttr as "staff") }, .keep)
  else if tag = "note" then
    if parentTag = "chord" then
      match st.chord with
      | none => none
      | some (d, cstaff) =>
        let staff := (natAttr as "staff").getD (cstaff.getD st.staffN)
        let step ← attr as "pname"
        let oct ← (attr as "oct").bind natOfString
        pure ({ st with notes := ⟨st.staffIdx, (attr as "xml:id").getD "", st.cursor, d, 0, upperStep step,
                                  (noteAlter as).getD 0, oct, st.voice, staff⟩ :: st.notes }, .keep)
    else
      let grace := (attr as "grace").isSome
      let d ← if grace then some 0 else durOfT c.tups as
      let staff := (natAttr as "staff").getD st.staffN
      let step ← attr as "pname"
      let oct ← (attr as "oct").bind natOfString
      pure ({ st with notes := ⟨st.staffIdx, (attr as "xml:id").getD "", st.cursor, d, if grace then 1 else 0,
                                upperStep step, (noteAlter as).getD 0, oct, st.voice, staff⟩ :: st.notes,
                      cursor := st.cursor + d }, .keep)
  else if tag = "accid" && parentTag = "note" then
    let pattrs := c.pattrs
    if (attr pattrs "accid").isSome || (attr pattrs "accid.ges").isSome then pure (st, .keep)
    else
      match st.notes with
      | n :: rest =>
        match noteAlter as with
        | some a => pure ({ st with notes := { n with alter := a } :: rest }, .keep)
        | none => pure (st, .keep)
      | [] => pure (st, .keep)
  else if tag = "rest" then
    let d ← durOfT c.tups as
    let staff := (natAttr as "staff").getD st.staffN
    pure ({ st with notes := ⟨st.staffIdx, (attr as "xml:id").getD "", st.cursor, d, 2, "", 0, 0, st.voice, staff⟩ :: st.notes,
                    cursor := st.cursor + d }, .keep)
  else if tag = "mRest" || tag = "multiRest" then
    if tag = "multiRest" && (natAttr as "num").getD 1 > 1 then none
    else
      let d ← measureLen st
      let staff := (natAttr as "staff").getD st.staffN
      pure ({ st with notes := ⟨st.staffIdx, (attr as "xml:id").getD "", st.cursor, d, 2, "", 0, 0, st.voice, staff⟩ :: st.notes,
                      cursor := st.cursor + d }, .keep)
  else if tag = "space" then
    match attr as "dur" with
    | some _ =>
      let d ← durOfT c.tups as
      pure ({ st with cursor := st.cursor + d }, .keep)
    | none =>
      let d ← measureLen st
      pure ({ st with cursor := st.pos + d }, .keep)
  else if tag = "tuplet" then
    match c.tups with
    | [] => pure (st, .keep)
    | _ => none
  else pure (st, .keep)

def openCore (c : Ctx) (st : St) (tag : String) (as : List (String × String)) : Option (St × TopMod) :=
  (recordDurElT c.tups (recordUnits st tag as) as).bind fun st => coreBody c st tag as

/-- the if-chain of `openEv` (verbatim copy), after the durations have been recorded -/
def openBody (st : St) (tag : String) (as : List (String × String)) : Option St := do
  let parentTag := (st.stack.head?.map (·.tag)).getD ""
  let push (s : St) : St := { s with stack := { tag := tag, attrs := as } :: s.stack }
  if tag = "section" then
    pure (push { st with inSection := true })
  else if tag = "scoreDef" then
    if st.inSection then pure (push st)
    else pure (push { st with sdMeter := meterOfAttrs as "meter.count" "meter.unit",
                              sdKey := keyOfAttrs as "key.sig" "key.mode" })
  else if tag = "meterSig" then
    if parentTag = "staffDef" || parentTag = "scoreDef" then
      pure (push { st with stack := setTop st.stack fun f => { f with cMeter := meterOfAttrs as "count" "unit" } })
    else pure (push st)
  else if tag = "keySig" then
    if parentTag = "staffDef" || parentTag = "scoreDef" then
      pure (push { st with stack := setTop st.stack fun f => { f with cKey := keyOfAttrs as "sig" "mode" } })
    else pure (push st)
  else if tag = "clef" then
    if (attr as "sameas").isSome then pure (push st)
    else
      match attr as "shape", natAttr as "line" with
      | some sh, some ln =>
        if parentTag = "staffDef" then
          let num := (st.stack.head?.bind fun f => natAttr f.attrs "n").getD 1
          pure (push { st with stack := setTop st.stack fun f => { f with cClef := some (num, sh, ln, clefOctave as) } })
        else if inLayer st.stack then
          pure (push { st with clefs := (st.staffIdx, st.cursor, st.staffN, sh, ln, clefOctave as) :: st.clefs })
        else pure (push st)
      | _, _ => none
  else if tag = "measure" then
    let st ← ensureStarted st
    pure (push { st with measName := attr as "n", staffIdx := 0, staffEnds := [] })
  else if tag = "staff" && parentTag = "measure" then
    pure (push { st with staffN := (natAttr as "n").getD (st.staffIdx + 1), layerIdx := 0, layerEnds := [] })
  else if tag = "layer" && parentTag = "staff" then
    pure (push { st with voice := (natAttr as "n").getD (st.layerIdx + 1), cursor := st.pos })
  else if tag = "tie" then
    match attr as "startid", attr as "endid" with
    | some a, some b => pure (push { st with ties := (String.ofList (a.toList.drop 1), String.ofList (b.toList.drop 1)) :: st.ties })
    | _, _ => pure (push st)
  else if !(inLayer st.stack) then pure (push st)
  else if tag = "chord" then
    let d ← durOfAttrs st as
    pure (push { st with chord := some (d, natAttr as "staff") })
  else if tag = "note" then
    if parentTag = "chord" then
      match st.chord with
      | none => none
      | some (d, cstaff) =>
        let staff := (natAttr as "staff").getD (cstaff.getD st.staffN)
        let step ← attr as "pname"
        let oct ← (attr as "oct").bind natOfString
        pure (push { st with notes := ⟨st.staffIdx, (attr as "xml:id").getD "", st.cursor, d, 0, upperStep step,
                                       (noteAlter as).getD 0, oct, st.voice, staff⟩ :: st.notes })
    else
      let grace := (attr as "grace").isSome
      let d ← if grace then some 0 else durOfAttrs st as
      let staff := (natAttr as "staff").getD st.staffN
      let step ← attr as "pname"
      let oct ← (attr as "oct").bind natOfString
      pure (push { st with notes := ⟨st.staffIdx, (attr as "xml:id").getD "", st.cursor, d, if grace then 1 else 0,
                                     upperStep step, (noteAlter as).getD 0, oct, st.voice, staff⟩ :: st.notes,
                           cursor := st.cursor + d })
  else if tag = "accid" && parentTag = "note" then
    -- child accidental: used when the note itself carries neither @accid nor @accid.ges
    let pattrs := (st.stack.head?.map (·.attrs)).getD []
    if (attr pattrs "accid").isSome || (attr pattrs "accid.ges").isSome then pure (push st)
    else
      match st.notes with
      | n :: rest =>
        match noteAlter as with
        | some a => pure (push { st with notes := { n with alter := a } :: rest })
        | none => pure (push st)
      | [] => pure (push st)
  else if tag = "rest" then
    let d ← durOfAttrs st as
    let staff := (natAttr as "staff").getD st.staffN
    pure (push { st with notes := ⟨st.staffIdx, (attr as "xml:id").getD "", st.cursor, d, 2, "", 0, 0, st.voice, staff⟩ :: st.notes,
                         cursor := st.cursor + d })
  else if tag = "mRest" || tag = "multiRest" then
    if tag = "multiRest" && (natAttr as "num").getD 1 > 1 then none
    else
      let d ← measureLen st
      let staff := (natAttr as "staff").getD st.staffN
      pure (push { st with notes := ⟨st.staffIdx, (attr as "xml:id").getD "", st.cursor, d, 2, "", 0, 0, st.voice, staff⟩ :: st.notes,
                           cursor := st.cursor + d })
  else if tag = "space" then
    match attr as "dur" with
    | some _ =>
      let d ← durOfAttrs st as
      pure (push { st with cursor := st.cursor + d })
    | none =>
      -- a space without duration fills the rest of the measure
      let d ← measureLen st
      pure (push { st with cursor := st.pos + d })
  else if tag = "tuplet" then
    match tupletsOf st.stack with
    | [] => pure (push st)
    | _ => none                                   -- nested tuplets: outside the supported subset
  else pure (push st)

theorem openEv_body (st : St) (tag : String) (as : List (String × String)) :
    openEv st tag as = (recordDurEl (recordUnits st tag as) as).bind fun st => openBody st tag as := rfl

/-- the state with its stack replaced -/
def withStack (st : St) (s : List Frame) : St := { st with stack := s }

def newFrame (tag : String) (as : List (String × String)) : Frame := { tag := tag, attrs := as }

theorem durOfAttrs_eq (st : St) (as : List (String × String)) : durOfAttrs st as = durOfT (tupletsOf st.stack) as := rfl

theorem recordDurEl_eq (st : St) (as : List (String × String)) :
    recordDurEl st as = (recordDurElT (tupletsOf st.stack) (withStack st []) as).map fun s => withStack s st.stack := by
  unfold recordDurEl recordDurElT withStack
  cases h1 : attr as "dur" with
  | none => simp
  | some d =>
    cases h2 : durNumber d with
    | none => simp [h2]
    | some v =>
      cases h3 : tupletsOf st.stack with
      | nil => simp [h2]
      | cons t ts =>
        cases ts with
        | nil => simp [h2]
        | cons t2 ts2 => simp [h2]

theorem recordUnits_stack (st : St) (tag : String) (as : List (String × String)) (s : List Frame) :
    recordUnits (withStack st s) tag as = withStack (recordUnits st tag as) s := by
  unfold recordUnits withStack
  cases natAttr as "meter.unit" <;> by_cases h : tag = "meterSig" <;> cases natAttr as "unit" <;> simp [h]

theorem recordUnits_stack' (st : St) (tag : String) (as : List (String × String)) :
    (recordUnits st tag as).stack = st.stack := by
  unfold recordUnits
  cases natAttr as "meter.unit" <;> by_cases h : tag = "meterSig" <;> cases natAttr as "unit" <;> simp [h]

@[simp] theorem applyTop_keep (s : List Frame) : applyTop .keep s = s := rfl
@[simp] theorem applyTop_meter_cons (m) (f : Frame) (r : List Frame) :
    applyTop (.meter m) (f :: r) = { f with cMeter := m } :: r := rfl
@[simp] theorem applyTop_key_cons (k) (f : Frame) (r : List Frame) :
    applyTop (.key k) (f :: r) = { f with cKey := k } :: r := rfl
@[simp] theorem applyTop_clef_cons (c) (f : Frame) (r : List Frame) :
    applyTop (.clef c) (f :: r) = { f with cClef := c } :: r := rfl
@[simp] theorem applyTop_nil (t : TopMod) : applyTop t [] = [] := by cases t <;> rfl

theorem ensureStarted_stack (st : St) (s : List Frame) :
    ensureStarted (withStack st s) = (ensureStarted st).map fun x => withStack x s := by
  unfold ensureStarted withStack
  by_cases h : st.started = true
  · simp [h]
  · simp only [h]
    show (match (partsInOrder st).mapM (resolveMeter st) with | some ms => _ | none => _) = _
    cases (partsInOrder st).mapM (resolveMeter st) <;> simp

theorem measureLen_stack (st : St) (s : List Frame) : measureLen (withStack st s) = measureLen st := rfl

theorem durOfAttrs_stack (st : St) (s : List Frame) (as : List (String × String)) :
    durOfAttrs (withStack st s) as = durOfT (tupletsOf s) as := rfl

theorem bind_ext {α β : Type} (x : Option α) (f g : α → Option β) (h : ∀ a, f a = g a) : x.bind f = x.bind g := by
  cases x <;> simp [h]

macro "fin" : tactic => `(tactic|
  (simp [openBody, coreBody, newFrame, ctxOf, ptagOf, durOfAttrs_stack, ensureStarted_stack, measureLen_stack, setTop, Option.bind_map, *]
   all_goals (try (repeat' split))
   all_goals (try (simp_all [withStack, newFrame, ctxOf, ptagOf, setTop]))
   all_goals (try (refine bind_ext _ _ _ (fun _ => ?_)))
   all_goals (try (simp [withStack, Function.comp]))
   all_goals (try (refine bind_ext _ _ _ (fun _ => ?_)))
   all_goals (try (simp [withStack, Function.comp]))
   all_goals (try (refine bind_ext _ _ _ (fun _ => ?_)))
   all_goals (try (simp [withStack, Function.comp]))))

theorem openBody_eq (s0 : St) (stack : List Frame) (tag : String) (as : List (String × String)) :
    openBody (withStack s0 stack) tag as = (coreBody (ctxOf stack) s0 tag as).map fun r =>
      withStack r.1 (newFrame tag as :: applyTop r.2 stack) := by
  cases stack with
  | nil =>
    by_cases h0 : tag = "section"
    · subst h0
      fin
    by_cases h1 : tag = "scoreDef"
    · subst h1
      fin
    by_cases h2 : tag = "meterSig"
    · subst h2
      fin
    by_cases h3 : tag = "keySig"
    · subst h3
      fin
    by_cases h4 : tag = "clef"
    · subst h4
      fin
    by_cases h5 : tag = "measure"
    · subst h5
      fin
    by_cases h6 : tag = "staff"
    · subst h6
      fin
    by_cases h7 : tag = "layer"
    · subst h7
      fin
    by_cases h8 : tag = "tie"
    · subst h8
      fin
    by_cases h9 : tag = "chord"
    · subst h9
      fin
    by_cases h10 : tag = "note"
    · subst h10
      fin
    by_cases h11 : tag = "accid"
    · subst h11
      fin
    by_cases h12 : tag = "rest"
    · subst h12
      fin
    by_cases h13 : tag = "mRest"
    · subst h13
      fin
    by_cases h14 : tag = "multiRest"
    · subst h14
      fin
    by_cases h15 : tag = "space"
    · subst h15
      fin
    by_cases h16 : tag = "tuplet"
    · subst h16
      fin
    fin
  | cons f rest =>
    by_cases h0 : tag = "section"
    · subst h0
      fin
    by_cases h1 : tag = "scoreDef"
    · subst h1
      fin
    by_cases h2 : tag = "meterSig"
    · subst h2
      fin
    by_cases h3 : tag = "keySig"
    · subst h3
      fin
    by_cases h4 : tag = "clef"
    · subst h4
      fin
    by_cases h5 : tag = "measure"
    · subst h5
      fin
    by_cases h6 : tag = "staff"
    · subst h6
      fin
    by_cases h7 : tag = "layer"
    · subst h7
      fin
    by_cases h8 : tag = "tie"
    · subst h8
      fin
    by_cases h9 : tag = "chord"
    · subst h9
      fin
    by_cases h10 : tag = "note"
    · subst h10
      fin
    by_cases h11 : tag = "accid"
    · subst h11
      fin
    by_cases h12 : tag = "rest"
    · subst h12
      fin
    by_cases h13 : tag = "mRest"
    · subst h13
      fin
    by_cases h14 : tag = "multiRest"
    · subst h14
      fin
    by_cases h15 : tag = "space"
    · subst h15
      fin
    by_cases h16 : tag = "tuplet"
    · subst h16
      fin
    fin

/-- `closeEv` after the innermost element `f` has been taken off the stack (`below`: tag of the element that is
    innermost now); the stack itself is not touched -/
def closeCore (f : Frame) (below : String) (st : St) : Option St :=
  if f.tag = "scoreDef" then
    if st.inSection then
      match ensureStarted st with
      | some st => some (applySdChange st f)
      | none => none
    else some { st with sdMeterChild := f.cMeter, sdKeyChild := f.cKey }
  else if f.tag = "staffDef" && !st.inSection then
    let own : PartDef := {
      xmlid := (attr f.attrs "xml:id").getD "", n := (natAttr f.attrs "n").getD 1, ppq := natAttr f.attrs "ppq",
      meter := (match f.cMeter with | some m => some m | none => meterOfAttrs f.attrs "meter.count" "meter.unit"),
      key := (match f.cKey with | some k => some k | none => keyOfAttrs f.attrs "key.sig" "key.mode"),
      clef := (match f.cClef with
        | some c => some c
        | none => match natAttr f.attrs "n", attr f.attrs "clef.shape", natAttr f.attrs "clef.line" with
          | some n, some sh, some ln => some (n, sh, ln, clefOctave f.attrs)
          | _, _, _ => none) }
    some { st with defs := own :: st.defs }
  else if f.tag = "layer" && below = "staff" then
    some { st with layerEnds := st.cursor :: st.layerEnds, layerIdx := st.layerIdx + 1 }
  else if f.tag = "staff" && below = "measure" then
    let e := ratMaxFrom st.pos st.layerEnds
    some { st with measures := (st.staffIdx, st.measNo, st.measName, st.pos, e) :: st.measures,
                   staffEnds := e :: st.staffEnds, staffIdx := st.staffIdx + 1 }
  else if f.tag = "measure" then
    if st.staffIdx ≠ st.defs.length then none
    else some { st with pos := ratMaxFrom st.pos st.staffEnds, measNo := st.measNo + 1 }
  else if f.tag = "chord" then
    match st.chord with
    | some (d, _) => some { st with cursor := st.cursor + d, chord := none }
    | none => some st
  else some st

theorem applySdChange_stack (st : St) (f : Frame) (s : List Frame) :
    applySdChange (withStack st s) f = withStack (applySdChange st f) s := by
  unfold applySdChange withStack
  simp only []
  split <;> split <;> rfl

/-- the body of `closeEv` (verbatim copy): `st` is the state with the innermost frame `f` already taken off -/
def closeBody (st : St) (f : Frame) (rest : List Frame) : Option St :=
  if f.tag = "scoreDef" then
    if st.inSection then
      match ensureStarted st with
      | some st => some (applySdChange st f)
      | none => none
    else some { st with sdMeterChild := f.cMeter, sdKeyChild := f.cKey }
  else if f.tag = "staffDef" && !st.inSection then
    let own : PartDef := {
      xmlid := (attr f.attrs "xml:id").getD "", n := (natAttr f.attrs "n").getD 1, ppq := natAttr f.attrs "ppq",
      meter := (match f.cMeter with | some m => some m | none => meterOfAttrs f.attrs "meter.count" "meter.unit"),
      key := (match f.cKey with | some k => some k | none => keyOfAttrs f.attrs "key.sig" "key.mode"),
      clef := (match f.cClef with
        | some c => some c
        | none => match natAttr f.attrs "n", attr f.attrs "clef.shape", natAttr f.attrs "clef.line" with
          | some n, some sh, some ln => some (n, sh, ln, clefOctave f.attrs)
          | _, _, _ => none) }
    some { st with defs := own :: st.defs }
  else if f.tag = "layer" && (rest.head?.map (·.tag)) = some "staff" then
    some { st with layerEnds := st.cursor :: st.layerEnds, layerIdx := st.layerIdx + 1 }
  else if f.tag = "staff" && (rest.head?.map (·.tag)) = some "measure" then
    let e := ratMaxFrom st.pos st.layerEnds
    some { st with measures := (st.staffIdx, st.measNo, st.measName, st.pos, e) :: st.measures,
                   staffEnds := e :: st.staffEnds, staffIdx := st.staffIdx + 1 }
  else if f.tag = "measure" then
    if st.staffIdx ≠ st.defs.length then none
    else some { st with pos := ratMaxFrom st.pos st.staffEnds, measNo := st.measNo + 1 }
  else if f.tag = "chord" then
    match st.chord with
    | some (d, _) => some { st with cursor := st.cursor + d, chord := none }
    | none => some st
  else some st

theorem closeEv_body (st : St) :
    closeEv st = match st.stack with
      | [] => none
      | f :: rest => closeBody { st with stack := rest } f rest := rfl

theorem closeBody_eq (s0 : St) (f : Frame) (rest : List Frame) :
    closeBody (withStack s0 rest) f rest = (closeCore f (ptagOf rest) s0).map fun x => withStack x rest := by
  obtain ⟨ftag, fattrs, cm, ck, cc⟩ := f
  by_cases h1 : ftag = "scoreDef"
  · subst h1
    by_cases h2 : s0.inSection = true
    · have h2' : (withStack s0 rest).inSection = true := h2
      simp only [closeBody, closeCore, h2, h2', if_true, ensureStarted_stack]
      cases ensureStarted s0 with
      | none => rfl
      | some x => simp [applySdChange_stack]
    · have h2' : ¬ (withStack s0 rest).inSection = true := h2
      simp [closeBody, closeCore, h2, h2', withStack]
  by_cases h2 : ftag = "staffDef"
  · subst h2
    by_cases h3 : s0.inSection = true
    · have h3' : (withStack s0 rest).inSection = true := h3
      simp [closeBody, closeCore, h3, h3', withStack]
    · have h3' : ¬ (withStack s0 rest).inSection = true := h3
      simp [closeBody, closeCore, h3, h3', withStack]
  by_cases h3 : ftag = "layer"
  · subst h3
    cases hb : rest.head? <;> simp [closeBody, closeCore, hb, withStack, ptagOf]
    split <;> simp_all
  by_cases h4 : ftag = "staff"
  · subst h4
    cases hb : rest.head? <;> simp [closeBody, closeCore, hb, withStack, ptagOf]
    split <;> simp_all
  by_cases h5 : ftag = "measure"
  · subst h5
    simp [closeBody, closeCore, withStack]
    split <;> simp_all
  by_cases h6 : ftag = "chord"
  · subst h6
    simp [closeBody, closeCore, withStack]
    split <;> simp_all
  simp only [closeBody, closeCore, h1, h2, h3, h4, h5, h6, decide_false, Bool.false_and, Bool.false_eq_true, if_false]
  rfl

theorem closeEv_eq (st : St) :
    closeEv st = match st.stack with
      | [] => none
      | f :: rest => (closeCore f (ptagOf rest) (withStack st [])).map fun x => withStack x rest := by
  rw [closeEv_body]
  cases st.stack with
  | nil => rfl
  | cons f rest => exact closeBody_eq (withStack st []) f rest

theorem openEv_eq (st : St) (tag : String) (as : List (String × String)) :
    openEv st tag as = (openCore (ctxOf st.stack) (withStack st []) tag as).map fun r =>
      withStack r.1 (newFrame tag as :: applyTop r.2 st.stack) := by
  rw [openEv_body, recordDurEl_eq, recordUnits_stack', ← recordUnits_stack]
  unfold openCore
  show _ = Option.map _ ((recordDurElT (tupletsOf st.stack) (recordUnits (withStack st []) tag as) as).bind _)
  cases recordDurElT (tupletsOf st.stack) (recordUnits (withStack st []) tag as) as with
  | none => rfl
  | some s0 =>
    simp only [Option.map_some, Option.bind_some]
    exact openBody_eq s0 st.stack tag as

/-! ## states up to their stack -/

/-- everything of a state but the stack of open elements -/
def core (st : St) : St := withStack st []

theorem core_withStack (st : St) (s : List Frame) : core (withStack st s) = core st := rfl

theorem withStack_core (st : St) : withStack (core st) st.stack = st := rfl

theorem eq_of_core (a b : St) (h : core a = core b) (hs : a.stack = b.stack) : a = b := by
  rw [← withStack_core a, ← withStack_core b, h, hs]

def RelOpt (R : St → St → Prop) : Option St → Option St → Prop
  | some a, some b => R a b
  | none, none => True
  | _, _ => False

theorem stepEv_op (st : St) (tag : String) (as : List (String × String)) :
    stepEv st (.op tag as) = (openCore (ctxOf st.stack) (core st) tag as).map fun r =>
      withStack r.1 (newFrame tag as :: applyTop r.2 st.stack) := openEv_eq st tag as

theorem stepEv_cl (st : St) :
    stepEv st .cl = match st.stack with
      | [] => none
      | f :: rest => (closeCore f (ptagOf rest) (core st)).map fun x => withStack x rest := closeEv_eq st

theorem closeCore_section (f : Frame) (b : String) (st : St) (h : f.tag = "section") : closeCore f b st = some st := by
  simp [closeCore, h]

/-! ## stacks that differ only in the attributes of their `section` frames -/

def FrEq (f g : Frame) : Prop := f = g ∨ (f.tag = "section" ∧ g.tag = "section")

inductive SecEq : List Frame → List Frame → Prop
  | nil : SecEq [] []
  | cons {f g : Frame} {a b : List Frame} : FrEq f g → SecEq a b → SecEq (f :: a) (g :: b)

theorem FrEq.refl (f : Frame) : FrEq f f := Or.inl rfl

theorem SecEq.refl (s : List Frame) : SecEq s s := by
  induction s with
  | nil => exact .nil
  | cons f r ih => exact .cons (FrEq.refl f) ih

theorem tupletsOf_cons_section (f : Frame) (s : List Frame) (h : f.tag = "section") : tupletsOf (f :: s) = tupletsOf s := by
  simp [tupletsOf, h]

theorem inLayer_cons_section (f : Frame) (s : List Frame) (h : f.tag = "section") : inLayer (f :: s) = inLayer s := by
  simp [inLayer, h]

theorem tupletsOf_cons (f : Frame) (s t : List Frame) (h : tupletsOf s = tupletsOf t) : tupletsOf (f :: s) = tupletsOf (f :: t) := by
  simp only [tupletsOf, List.filterMap_cons] at h ⊢
  split <;> simp [h]

theorem inLayer_cons (f : Frame) (s t : List Frame) (h : inLayer s = inLayer t) : inLayer (f :: s) = inLayer (f :: t) := by
  simp only [inLayer, List.any_cons] at h ⊢
  rw [h]

theorem tupletsOf_secEq {a b : List Frame} (h : SecEq a b) : tupletsOf a = tupletsOf b := by
  induction h with
  | nil => rfl
  | cons hf _ ih =>
    rcases hf with rfl | ⟨h1, h2⟩
    · exact tupletsOf_cons _ _ _ ih
    · rw [tupletsOf_cons_section _ _ h1, tupletsOf_cons_section _ _ h2, ih]

theorem inLayer_secEq {a b : List Frame} (h : SecEq a b) : inLayer a = inLayer b := by
  induction h with
  | nil => rfl
  | cons hf _ ih =>
    rcases hf with rfl | ⟨h1, h2⟩
    · exact inLayer_cons _ _ _ ih
    · rw [inLayer_cons_section _ _ h1, inLayer_cons_section _ _ h2, ih]

theorem ptagOf_secEq {a b : List Frame} (h : SecEq a b) : ptagOf a = ptagOf b := by
  cases h with
  | nil => rfl
  | cons hf _ =>
    rcases hf with rfl | ⟨h1, h2⟩
    · rfl
    · simp [ptagOf, h1, h2]

theorem ctxOf_secEq {a b : List Frame} (h : SecEq a b) : ctxOf a = ctxOf b := by
  have h1 := ptagOf_secEq h
  have h2 := tupletsOf_secEq h
  have h3 := inLayer_secEq h
  cases h with
  | nil => rfl
  | @cons f g ra rb hf _ =>
    rcases hf with rfl | ⟨g1, g2⟩
    · simp only [ctxOf, h2, h3]
      rfl
    · have e1 : ptagOf (f :: ra) = "section" := by simp [ptagOf, g1]
      have e2 : ptagOf (g :: rb) = "section" := by simp [ptagOf, g2]
      simp only [ctxOf, h2, h3, e1, e2]
      simp

theorem applyTop_secEq {a b : List Frame} (tm : TopMod) (h : SecEq a b) : SecEq (applyTop tm a) (applyTop tm b) := by
  cases h with
  | nil => cases tm <;> exact .nil
  | cons hf ht =>
    cases tm with
    | keep => exact .cons hf ht
    | meter m =>
      refine .cons ?_ ht
      rcases hf with rfl | ⟨g1, g2⟩
      · exact Or.inl rfl
      · exact Or.inr ⟨g1, g2⟩
    | key k =>
      refine .cons ?_ ht
      rcases hf with rfl | ⟨g1, g2⟩
      · exact Or.inl rfl
      · exact Or.inr ⟨g1, g2⟩
    | clef c =>
      refine .cons ?_ ht
      rcases hf with rfl | ⟨g1, g2⟩
      · exact Or.inl rfl
      · exact Or.inr ⟨g1, g2⟩

/-- two states with the same core whose stacks differ only in attributes of `section` frames -/
def SimE (a b : St) : Prop := core a = core b ∧ SecEq a.stack b.stack

theorem step_simE (a b : St) (e : Ev) (h : SimE a b) : RelOpt SimE (stepEv a e) (stepEv b e) := by
  obtain ⟨hc, hs⟩ := h
  cases e with
  | op tag as =>
    rw [stepEv_op, stepEv_op, hc, ctxOf_secEq hs]
    cases openCore (ctxOf b.stack) (core b) tag as with
    | none => exact trivial
    | some r => exact ⟨rfl, .cons (FrEq.refl _) (applyTop_secEq r.2 hs)⟩
  | cl =>
    rw [stepEv_cl, stepEv_cl]
    generalize hsa : a.stack = sa at hs
    generalize hsb : b.stack = sb at hs
    cases hs with
    | nil => exact trivial
    | @cons f g ra rb hf ht =>
      simp only []
      rw [hc, ptagOf_secEq ht]
      rcases hf with rfl | ⟨g1, g2⟩
      · cases closeCore f (ptagOf rb) (core b) with
        | none => exact trivial
        | some x => exact ⟨rfl, ht⟩
      · rw [closeCore_section _ _ _ g1, closeCore_section _ _ _ g2]
        exact ⟨rfl, ht⟩

theorem run_simE (evs : List Ev) (a b : St) (h : SimE a b) : RelOpt SimE (runEvs a evs) (runEvs b evs) := by
  induction evs generalizing a b with
  | nil => exact h
  | cons e es ih =>
    simp only [runEvs]
    have hstep := step_simE a b e h
    cases ha : stepEv a e with
    | none =>
      cases hb : stepEv b e with
      | none => exact trivial
      | some y => simp [ha, hb, RelOpt] at hstep
    | some x =>
      cases hb : stepEv b e with
      | none => simp [ha, hb, RelOpt] at hstep
      | some y =>
        simp only [ha, hb, RelOpt] at hstep
        exact ih x y hstep

/-! ## what a child may write into its parent's frame -/

def TmOk (c : Ctx) : Option (St × TopMod) → Prop
  | some r => r.2 = .keep ∨ c.ptag = "staffDef" ∨ c.ptag = "scoreDef"
  | none => True

theorem TmOk_bind {α : Type} (c : Ctx) (x : Option α) (f : α → Option (St × TopMod)) (h : ∀ a, TmOk c (f a)) :
    TmOk c (x.bind f) := by
  cases x with
  | none => exact trivial
  | some a => exact h a

theorem TmOk_keep (c : Ctx) (s : St) : TmOk c (some (s, .keep)) := Or.inl rfl

macro "fin2" : tactic => `(tactic|
  (simp [coreBody, TmOk_keep, *]
   all_goals (try (repeat' split))
   all_goals (try (simp_all [TmOk_keep]))
   all_goals (try (refine TmOk_bind _ _ _ (fun _ => ?_)))
   all_goals (try (simp_all [TmOk_keep]))
   all_goals (try (refine TmOk_bind _ _ _ (fun _ => ?_)))
   all_goals (try (simp_all [TmOk_keep]))
   all_goals (try (refine TmOk_bind _ _ _ (fun _ => ?_)))
   all_goals (try (simp_all [TmOk_keep]))
   all_goals (try (simp_all [TmOk]))))

/-- only a `meterSig` / `keySig` / `clef` child of a `staffDef` or `scoreDef` writes into the frame of its parent -/
theorem coreBody_tm (c : Ctx) (st : St) (tag : String) (as : List (String × String)) : TmOk c (coreBody c st tag as) := by
  by_cases h0 : tag = "section"
  · subst h0
    fin2
  by_cases h1 : tag = "scoreDef"
  · subst h1
    fin2
  by_cases h2 : tag = "meterSig"
  · subst h2
    fin2
  by_cases h3 : tag = "keySig"
  · subst h3
    fin2
  by_cases h4 : tag = "clef"
  · subst h4
    fin2
  by_cases h5 : tag = "measure"
  · subst h5
    fin2
  by_cases h6 : tag = "staff"
  · subst h6
    fin2
  by_cases h7 : tag = "layer"
  · subst h7
    fin2
  by_cases h8 : tag = "tie"
  · subst h8
    fin2
  by_cases h9 : tag = "chord"
  · subst h9
    fin2
  by_cases h10 : tag = "note"
  · subst h10
    fin2
  by_cases h11 : tag = "accid"
  · subst h11
    fin2
  by_cases h12 : tag = "rest"
  · subst h12
    fin2
  by_cases h13 : tag = "mRest"
  · subst h13
    fin2
  by_cases h14 : tag = "multiRest"
  · subst h14
    fin2
  by_cases h15 : tag = "space"
  · subst h15
    fin2
  by_cases h16 : tag = "tuplet"
  · subst h16
    fin2
  fin2

theorem openCore_tm (c : Ctx) (st : St) (tag : String) (as : List (String × String)) : TmOk c (openCore c st tag as) := by
  unfold openCore
  exact TmOk_bind _ _ _ fun a => coreBody_tm c a tag as

/-! ## an extra `section` element directly inside a section -/

theorem tupletsOf_append (a b : List Frame) : tupletsOf (a ++ b) = tupletsOf a ++ tupletsOf b := by
  simp [tupletsOf, List.filterMap_append]

theorem inLayer_append (a b : List Frame) : inLayer (a ++ b) = (inLayer a || inLayer b) := by
  simp [inLayer, List.any_append]

theorem ptagOf_section_cons (x : Frame) (low : List Frame) (hx : x.tag = "section") : ptagOf (x :: low) = "section" := by
  simp [ptagOf, hx]

theorem ctxOf_section_top (s : List Frame) (h : ptagOf s = "section") :
    ctxOf s = ⟨"section", [], tupletsOf s, inLayer s⟩ := by
  simp [ctxOf, h]

/-- the context is the same with and without the extra frame `x` -/
theorem ctxOf_ins (top low : List Frame) (x : Frame) (hx : x.tag = "section") (hlow : ptagOf low = "section") :
    ctxOf (top ++ x :: low) = ctxOf (top ++ low) := by
  have ht : tupletsOf (top ++ x :: low) = tupletsOf (top ++ low) := by
    rw [tupletsOf_append, tupletsOf_append, tupletsOf_cons_section _ _ hx]
  have hl : inLayer (top ++ x :: low) = inLayer (top ++ low) := by
    rw [inLayer_append, inLayer_append, inLayer_cons_section _ _ hx]
  cases top with
  | nil =>
    simp only [List.nil_append] at ht hl ⊢
    rw [ctxOf_section_top _ (ptagOf_section_cons x low hx), ctxOf_section_top _ hlow, ht, hl]
  | cons t ts =>
    simp only [List.cons_append] at ht hl ⊢
    simp only [ctxOf, ht, hl]
    rfl

theorem ptagOf_ins (top low : List Frame) (x : Frame) (hx : x.tag = "section") (hlow : ptagOf low = "section") :
    ptagOf (top ++ x :: low) = ptagOf (top ++ low) := by
  have := ctxOf_ins top low x hx hlow
  exact congrArg Ctx.ptag this

theorem applyTop_cons_app (tm : TopMod) (t : Frame) (ts r : List Frame) :
    ∃ t', ∀ r : List Frame, applyTop tm (t :: ts ++ r) = t' :: ts ++ r := by
  cases tm with
  | keep => exact ⟨t, fun r => rfl⟩
  | meter m => exact ⟨{ t with cMeter := m }, fun r => rfl⟩
  | key k => exact ⟨{ t with cKey := k }, fun r => rfl⟩
  | clef c => exact ⟨{ t with cClef := c }, fun r => rfl⟩

/-- how deep an event list closes: `none` when it closes an element it did not open -/
def balAux : Nat → List Ev → Option Nat
  | d, [] => some d
  | d, .op _ _ :: es => balAux (d + 1) es
  | 0, .cl :: _ => none
  | d + 1, .cl :: es => balAux d es

/-- the events of whole elements: every close matches an open of the list, nothing stays open -/
def Balanced (evs : List Ev) : Prop := balAux 0 evs = some 0

instance (evs : List Ev) : Decidable (Balanced evs) := by unfold Balanced; infer_instance

/-- same core, and the left stack has the extra section frame `x` under the `d` innermost frames -/
def SimI (x : Frame) (low : List Frame) (d : Nat) (a b : St) : Prop :=
  core a = core b ∧ ∃ top : List Frame, top.length = d ∧ a.stack = top ++ x :: low ∧ b.stack = top ++ low

theorem run_simI (x : Frame) (low : List Frame) (hx : x.tag = "section") (hlow : ptagOf low = "section")
    (evs : List Ev) : ∀ (d d' : Nat) (a b : St), SimI x low d a b → balAux d evs = some d' →
      RelOpt (SimI x low d') (runEvs a evs) (runEvs b evs) := by
  induction evs with
  | nil =>
    intro d d' a b h hb
    simp only [balAux, Option.some.injEq] at hb
    subst hb
    exact h
  | cons e es ih =>
    intro d d' a b h hb
    obtain ⟨hc, top, hlen, hsa, hsb⟩ := h
    simp only [runEvs]
    cases e with
    | op tag as =>
      simp only [balAux] at hb
      rw [stepEv_op, stepEv_op, hc, hsa, hsb, ctxOf_ins top low x hx hlow]
      have htm := openCore_tm (ctxOf (top ++ low)) (core b) tag as
      cases hr : openCore (ctxOf (top ++ low)) (core b) tag as with
      | none => exact trivial
      | some r =>
        simp only [Option.map_some]
        refine ih (d + 1) d' _ _ ?_ hb
        refine ⟨rfl, ?_⟩
        cases top with
        | nil =>
          -- the innermost open element is the section `x` / the section below it: nothing is written into it
          rw [hr] at htm
          have hp : (ctxOf ([] ++ low)).ptag = "section" := hlow
          have hk : r.2 = .keep := by
            rcases htm with h1 | h1 | h1
            · exact h1
            · rw [hp] at h1; exact absurd h1 (by decide)
            · rw [hp] at h1; exact absurd h1 (by decide)
          refine ⟨[newFrame tag as], by simp [← hlen], ?_, ?_⟩
          · show newFrame tag as :: applyTop r.2 ([] ++ x :: low) = _
            rw [hk]; rfl
          · show newFrame tag as :: applyTop r.2 ([] ++ low) = _
            rw [hk]; rfl
        | cons t ts =>
          obtain ⟨t', ht'⟩ := applyTop_cons_app r.2 t ts low
          refine ⟨newFrame tag as :: t' :: ts, by simp [← hlen], ?_, ?_⟩
          · show newFrame tag as :: applyTop r.2 (t :: ts ++ x :: low) = _
            rw [ht' (x :: low)]; rfl
          · show newFrame tag as :: applyTop r.2 (t :: ts ++ low) = _
            rw [ht' low]; rfl
    | cl =>
      cases top with
      | nil =>
        simp only [List.length_nil] at hlen
        subst hlen
        simp [balAux] at hb
      | cons t ts =>
        simp only [List.length_cons] at hlen
        subst hlen
        simp only [balAux] at hb
        rw [stepEv_cl, stepEv_cl, hsa, hsb]
        simp only [List.cons_append]
        rw [hc, ptagOf_ins ts low x hx hlow]
        cases closeCore t (ptagOf (ts ++ low)) (core b) with
        | none => exact trivial
        | some y =>
          simp only [Option.map_some]
          exact ih ts.length d' _ _ ⟨rfl, ts, rfl, rfl, rfl⟩ hb

/-! ## from runs to denotations -/

theorem runEvs_append (st : St) (a b : List Ev) :
    runEvs st (a ++ b) = (runEvs st a).bind fun st' => runEvs st' b := by
  induction a generalizing st with
  | nil => simp [runEvs]
  | cons e rest ih =>
    simp only [List.cons_append, runEvs]
    cases stepEv st e with
    | none => simp
    | some st1 => simp [ih]

/-- the parts of a final state -/
def partsOf (st : St) : Option (List Part) := ((partsInOrder st).zipIdx).mapM fun (d, i) => mkPart st i d

theorem denote_eq (evs : List Ev) : denote evs = (runEvs {} evs).bind partsOf := by
  unfold denote partsOf
  cases runEvs {} evs <;> rfl

/-- the parts do not depend on the elements still open -/
theorem partsOf_core (st : St) : partsOf st = partsOf (core st) := rfl

theorem partsOf_of_core (a b : St) (h : core a = core b) : partsOf a = partsOf b := by
  rw [partsOf_core a, partsOf_core b, h]

theorem bind_partsOf_of_rel {R : St → St → Prop} (hR : ∀ a b, R a b → core a = core b) (x y : Option St)
    (h : RelOpt R x y) : x.bind partsOf = y.bind partsOf := by
  cases x with
  | none => cases y with
    | none => rfl
    | some b => exact absurd h (by simp [RelOpt])
  | some a => cases y with
    | none => exact absurd h (by simp [RelOpt])
    | some b => exact partsOf_of_core a b (hR a b h)

/-! ## opening a section -/

/-- attributes that carry no duration and no beat unit (every attribute a `section` has in MEI) -/
def PlainAttrs (as : List (String × String)) : Prop := attr as "dur" = none ∧ natAttr as "meter.unit" = none

instance (as : List (String × String)) : Decidable (PlainAttrs as) := by unfold PlainAttrs; infer_instance

theorem openCore_section (c : Ctx) (st : St) (as : List (String × String)) (hp : PlainAttrs as) :
    openCore c st "section" as = some ({ st with inSection := true }, .keep) := by
  obtain ⟨h1, h2⟩ := hp
  simp [openCore, coreBody, recordDurElT, recordUnits, h1, h2]

theorem inSection_eta (st : St) (h : st.inSection = true) : ({ st with inSection := true } : St) = st := by
  obtain ⟨s, b⟩ := st
  simp only at h
  subst h
  rfl

theorem stepEv_section (st : St) (as : List (String × String)) (hp : PlainAttrs as) (hin : st.inSection = true) :
    stepEv st (.op "section" as) = some (withStack st (newFrame "section" as :: st.stack)) := by
  rw [stepEv_op, openCore_section _ _ _ hp]
  have : ({ core st with inSection := true } : St) = core st := inSection_eta (core st) hin
  simp only [Option.map_some, this, applyTop_keep]
  rfl

theorem stepEv_cl_section (st : St) (f : Frame) (rest : List Frame) (hs : st.stack = f :: rest) (hf : f.tag = "section") :
    stepEv st .cl = some (withStack st rest) := by
  rw [stepEv_cl, hs]
  simp only [closeCore_section _ _ _ hf, Option.map_some]
  rfl

/-- closing the innermost section and opening a new one in its place -/
theorem cut_state (st : St) (f : Frame) (rest : List Frame) (as : List (String × String)) (evs : List Ev)
    (hs : st.stack = f :: rest) (hf : f.tag = "section") (hin : st.inSection = true) (hp : PlainAttrs as) :
    RelOpt SimE (runEvs st (.cl :: .op "section" as :: evs)) (runEvs st evs) := by
  simp only [runEvs, stepEv_cl_section st f rest hs hf]
  have hin' : (withStack st rest).inSection = true := hin
  simp only [stepEv_section (withStack st rest) as hp hin']
  refine run_simE evs _ _ ⟨rfl, ?_⟩
  show SecEq (newFrame "section" as :: rest) st.stack
  rw [hs]
  exact .cons (Or.inr ⟨rfl, hf⟩) (SecEq.refl rest)

/-- a whole section element standing directly inside a section -/
theorem unnest_state (st : St) (as : List (String × String)) (mid evs : List Ev)
    (hs : ptagOf st.stack = "section") (hin : st.inSection = true) (hp : PlainAttrs as) (hb : Balanced mid) :
    runEvs st (.op "section" as :: (mid ++ .cl :: evs)) = runEvs st (mid ++ evs) := by
  simp only [runEvs, stepEv_section st as hp hin]
  rw [runEvs_append, runEvs_append]
  have hsim := run_simI (newFrame "section" as) st.stack rfl hs mid 0 0
    (withStack st (newFrame "section" as :: st.stack)) st ⟨rfl, [], rfl, rfl, rfl⟩ hb
  cases ha : runEvs (withStack st (newFrame "section" as :: st.stack)) mid with
  | none =>
    cases hb' : runEvs st mid with
    | none => rfl
    | some y => simp [ha, hb', RelOpt] at hsim
  | some a =>
    cases hb' : runEvs st mid with
    | none => simp [ha, hb', RelOpt] at hsim
    | some b =>
      simp only [ha, hb', RelOpt] at hsim
      obtain ⟨hc, top, hlen, hsa, hsb⟩ := hsim
      have htop : top = [] := List.eq_nil_of_length_eq_zero hlen
      subst htop
      simp only [List.nil_append] at hsa hsb
      simp only [Option.bind_some, runEvs]
      rw [stepEv_cl_section a _ _ hsa rfl]
      have : withStack a st.stack = b := eq_of_core _ _ hc (by show st.stack = b.stack; exact hsb.symm)
      rw [this]

/-! ## the tie list and the `inSection` flag along a run -/

/-- the tie a single element contributes: a `tie` with both `@startid` and `@endid` (without the leading `#`) -/
def tieOf (tag : String) (as : List (String × String)) : List (String × String) :=
  if tag = "tie" then
    match attr as "startid", attr as "endid" with
    | some a, some b => [(String.ofList (a.toList.drop 1), String.ofList (b.toList.drop 1))]
    | _, _ => []
  else []

theorem tieOf_reverse (tag : String) (as : List (String × String)) : (tieOf tag as).reverse = tieOf tag as := by
  unfold tieOf
  split
  · split <;> rfl
  · rfl

theorem opt_bind_some {α β : Type} {x : Option α} {f : α → Option β} {b : β} (h : x.bind f = some b) :
    ∃ a, x = some a ∧ f a = some b := by
  cases x with
  | none => simp at h
  | some a => exact ⟨a, rfl, h⟩

/-- all ties of an event list, in document order -/
def tiesOf : List Ev → List (String × String)
  | [] => []
  | .op tag as :: es => tieOf tag as ++ tiesOf es
  | .cl :: es => tiesOf es

/-- `s` has the ties of `st` plus `extra` (newest first) and is still inside the section part if `st` was -/
def Keeps (st : St) (extra : List (String × String)) (s : St) : Prop :=
  s.ties = extra ++ st.ties ∧ (st.inSection = true → s.inSection = true)

theorem Keeps.rfl' (st : St) : Keeps st [] st := ⟨rfl, id⟩

def POk (P : St × TopMod → Prop) : Option (St × TopMod) → Prop
  | some r => P r
  | none => True

theorem POk_bind {α : Type} (P : St × TopMod → Prop) (x : Option α) (f : α → Option (St × TopMod))
    (h : ∀ a, POk P (f a)) : POk P (x.bind f) := by
  cases x with
  | none => exact trivial
  | some a => exact h a

theorem ensureStarted_keeps (st s : St) (h : ensureStarted st = some s) : s.ties = st.ties ∧ s.inSection = st.inSection := by
  unfold ensureStarted at h
  by_cases hs : st.started = true
  · simp [hs] at h; subst h; exact ⟨rfl, rfl⟩
  · simp only [hs] at h
    cases hm : (partsInOrder st).mapM (resolveMeter st) with
    | none => simp [hm] at h
    | some ms => simp [hm] at h; subst h; exact ⟨rfl, rfl⟩

@[simp] theorem POk_some (P : St × TopMod → Prop) (r : St × TopMod) : POk P (some r) = P r := rfl
@[simp] theorem POk_none (P : St × TopMod → Prop) : POk P none = True := rfl

macro "fin3" : tactic => `(tactic|
  (simp [coreBody, tieOf, Keeps, *]
   all_goals (try (repeat' split))
   all_goals (try (simp_all [Keeps]))
   all_goals (try (refine POk_bind _ _ _ (fun _ => ?_)))
   all_goals (try (simp_all [Keeps]))
   all_goals (try (refine POk_bind _ _ _ (fun _ => ?_)))
   all_goals (try (simp_all [Keeps]))
   all_goals (try (refine POk_bind _ _ _ (fun _ => ?_)))
   all_goals (try (simp_all [Keeps]))))

theorem coreBody_keeps (c : Ctx) (st : St) (tag : String) (as : List (String × String)) :
    POk (fun r => Keeps st (tieOf tag as) r.1) (coreBody c st tag as) := by
  by_cases hm : tag = "measure"
  · subst hm
    simp only [coreBody]
    simp
    cases he : ensureStarted st with
    | none => exact trivial
    | some s =>
      obtain ⟨e1, e2⟩ := ensureStarted_keeps st s he
      simp [Keeps, tieOf, e1, e2]
  by_cases h0 : tag = "section"
  · subst h0
    fin3
  by_cases h1 : tag = "scoreDef"
  · subst h1
    fin3
  by_cases h2 : tag = "meterSig"
  · subst h2
    fin3
  by_cases h3 : tag = "keySig"
  · subst h3
    fin3
  by_cases h4 : tag = "clef"
  · subst h4
    fin3
  by_cases h5 : tag = "staff"
  · subst h5
    fin3
  by_cases h6 : tag = "layer"
  · subst h6
    fin3
  by_cases h7 : tag = "tie"
  · subst h7
    fin3
  by_cases h8 : tag = "chord"
  · subst h8
    fin3
  by_cases h9 : tag = "note"
  · subst h9
    fin3
  by_cases h10 : tag = "accid"
  · subst h10
    fin3
  by_cases h11 : tag = "rest"
  · subst h11
    fin3
  by_cases h12 : tag = "mRest"
  · subst h12
    fin3
  by_cases h13 : tag = "multiRest"
  · subst h13
    fin3
  by_cases h14 : tag = "space"
  · subst h14
    fin3
  by_cases h15 : tag = "tuplet"
  · subst h15
    fin3
  fin3

theorem recordUnits_keeps (st : St) (tag : String) (as : List (String × String)) :
    (recordUnits st tag as).ties = st.ties ∧ (recordUnits st tag as).inSection = st.inSection := by
  unfold recordUnits
  cases natAttr as "meter.unit" <;> by_cases h : tag = "meterSig" <;> cases natAttr as "unit" <;> simp [h]

theorem recordDurElT_keeps (tups : List (Nat × Nat)) (st s : St) (as : List (String × String))
    (h : recordDurElT tups st as = some s) : s.ties = st.ties ∧ s.inSection = st.inSection := by
  unfold recordDurElT at h
  cases h1 : attr as "dur" with
  | none => simp [h1] at h; subst h; exact ⟨rfl, rfl⟩
  | some d =>
    cases h2 : durNumber d with
    | none => simp [h1, h2] at h
    | some v =>
      simp only [h1, h2] at h
      split at h
      · simp at h; subst h; exact ⟨rfl, rfl⟩
      · simp at h; subst h; exact ⟨rfl, rfl⟩
      · simp at h

theorem openCore_keeps (c : Ctx) (st : St) (tag : String) (as : List (String × String)) :
    POk (fun r => Keeps st (tieOf tag as) r.1) (openCore c st tag as) := by
  unfold openCore
  cases h : recordDurElT c.tups (recordUnits st tag as) as with
  | none => exact trivial
  | some s =>
    obtain ⟨a1, a2⟩ := recordDurElT_keeps _ _ _ _ h
    obtain ⟨b1, b2⟩ := recordUnits_keeps st tag as
    have := coreBody_keeps c s tag as
    simp only [Option.bind_some]
    cases hc : coreBody c s tag as with
    | none => exact trivial
    | some r =>
      rw [hc] at this
      obtain ⟨k1, k2⟩ := this
      exact ⟨by rw [k1, a1, b1], fun hi => k2 (by rw [a2, b2]; exact hi)⟩

theorem applySdChange_keeps (st : St) (f : Frame) :
    (applySdChange st f).ties = st.ties ∧ (applySdChange st f).inSection = st.inSection := by
  unfold applySdChange
  simp only []
  split <;> split <;> exact ⟨rfl, rfl⟩

theorem closeCore_keeps (f : Frame) (b : String) (st s : St) (h : closeCore f b st = some s) : Keeps st [] s := by
  obtain ⟨ftag, fattrs, cm, ck, cc⟩ := f
  by_cases h1 : ftag = "scoreDef"
  · subst h1
    by_cases h2 : st.inSection = true
    · simp only [closeCore, h2, if_true] at h
      cases he : ensureStarted st with
      | none => simp [he] at h
      | some x =>
        simp only [he, Option.some.injEq] at h
        subst h
        obtain ⟨e1, e2⟩ := ensureStarted_keeps st x he
        obtain ⟨a1, a2⟩ := applySdChange_keeps x ⟨"scoreDef", fattrs, cm, ck, cc⟩
        exact ⟨by rw [a1, e1]; rfl, fun hi => by rw [a2, e2]; exact hi⟩
    · simp [closeCore, h2] at h
      subst h
      exact ⟨rfl, fun hi => absurd hi h2⟩
  by_cases h2 : ftag = "staffDef"
  · subst h2
    simp [closeCore] at h
    split at h <;> (simp at h; subst h; exact ⟨rfl, id⟩)
  by_cases h3 : ftag = "layer"
  · subst h3
    simp [closeCore] at h
    split at h <;> (simp at h; subst h; exact ⟨rfl, id⟩)
  by_cases h4 : ftag = "staff"
  · subst h4
    simp [closeCore] at h
    split at h <;> (simp at h; subst h; exact ⟨rfl, id⟩)
  by_cases h5 : ftag = "measure"
  · subst h5
    simp [closeCore] at h
    obtain ⟨_, h⟩ := h
    subst h
    exact ⟨rfl, id⟩
  by_cases h6 : ftag = "chord"
  · subst h6
    simp [closeCore] at h
    split at h <;> (simp at h; subst h; exact ⟨rfl, id⟩)
  simp only [closeCore, h1, h2, h3, h4, h5, h6, decide_false, Bool.false_and, Bool.false_eq_true, if_false,
    Option.some.injEq] at h
  subst h
  exact ⟨rfl, id⟩

def evTies : Ev → List (String × String)
  | .op tag as => tieOf tag as
  | .cl => []

theorem step_keeps (st s : St) (e : Ev) (h : stepEv st e = some s) : Keeps st (evTies e) s := by
  cases e with
  | op tag as =>
    rw [stepEv_op] at h
    have hk := openCore_keeps (ctxOf st.stack) (core st) tag as
    cases hr : openCore (ctxOf st.stack) (core st) tag as with
    | none => simp [hr] at h
    | some r =>
      rw [hr] at hk h
      simp only [Option.map_some, Option.some.injEq] at h
      subst h
      exact hk
  | cl =>
    rw [stepEv_cl] at h
    cases hs : st.stack with
    | nil => simp [hs] at h
    | cons f rest =>
      simp only [hs] at h
      cases hc : closeCore f (ptagOf rest) (core st) with
      | none => simp [hc] at h
      | some x =>
        simp only [hc, Option.map_some, Option.some.injEq] at h
        subst h
        exact closeCore_keeps f _ (core st) x hc

/-- `mei_ties_collected`: whatever else the events do, the tie list at the end holds exactly the tie elements
    of the events read, newest first -/
theorem run_ties (evs : List Ev) : ∀ (st s : St), runEvs st evs = some s →
    s.ties = (tiesOf evs).reverse ++ st.ties ∧ (st.inSection = true → s.inSection = true) := by
  induction evs with
  | nil =>
    intro st s h
    simp only [runEvs, Option.some.injEq] at h
    subst h
    exact ⟨by simp [tiesOf], id⟩
  | cons e es ih =>
    intro st s h
    simp only [runEvs] at h
    cases h1 : stepEv st e with
    | none => simp [h1] at h
    | some x =>
      simp only [h1] at h
      obtain ⟨k1, k2⟩ := step_keeps st x e h1
      obtain ⟨i1, i2⟩ := ih x s h
      refine ⟨?_, fun hi => i2 (k2 hi)⟩
      rw [i1, k1]
      cases e with
      | op tag as => simp [tiesOf, evTies, List.reverse_append, tieOf_reverse]
      | cl => simp [tiesOf, evTies]

/-! ## a section frame is on the stack only after a section has been opened -/

def HasSection (s : List Frame) : Prop := ∃ f ∈ s, f.tag = "section"

def SecInv (st : St) : Prop := HasSection st.stack → st.inSection = true

theorem hasSection_applyTop (tm : TopMod) (s : List Frame) (h : HasSection (applyTop tm s)) : HasSection s := by
  cases s with
  | nil => simp [applyTop_nil] at h; exact h
  | cons t r =>
    cases tm with
    | keep => exact h
    | meter m =>
      obtain ⟨f, hf, ht⟩ := h
      simp only [applyTop_meter_cons, List.mem_cons] at hf
      rcases hf with rfl | hf
      · exact ⟨t, by simp, ht⟩
      · exact ⟨f, by simp [hf], ht⟩
    | key k =>
      obtain ⟨f, hf, ht⟩ := h
      simp only [applyTop_key_cons, List.mem_cons] at hf
      rcases hf with rfl | hf
      · exact ⟨t, by simp, ht⟩
      · exact ⟨f, by simp [hf], ht⟩
    | clef c =>
      obtain ⟨f, hf, ht⟩ := h
      simp only [applyTop_clef_cons, List.mem_cons] at hf
      rcases hf with rfl | hf
      · exact ⟨t, by simp, ht⟩
      · exact ⟨f, by simp [hf], ht⟩

theorem coreBody_section_flag (c : Ctx) (st : St) (as : List (String × String)) (r : St × TopMod)
    (h : coreBody c st "section" as = some r) : r.1.inSection = true := by
  simp [coreBody] at h
  subst h
  rfl

theorem step_secInv (st s : St) (e : Ev) (hinv : SecInv st) (h : stepEv st e = some s) : SecInv s := by
  have hk := step_keeps st s e h
  cases e with
  | op tag as =>
    rw [stepEv_op] at h
    cases hr : openCore (ctxOf st.stack) (core st) tag as with
    | none => simp [hr] at h
    | some r =>
      simp only [hr, Option.map_some, Option.some.injEq] at h
      subst h
      intro hs
      show r.1.inSection = true
      by_cases ht : tag = "section"
      · subst ht
        unfold openCore at hr
        obtain ⟨a, _, ha⟩ := opt_bind_some hr
        exact coreBody_section_flag _ _ _ _ ha
      · obtain ⟨f, hf, hft⟩ := hs
        have hf' : f ∈ newFrame tag as :: applyTop r.2 st.stack := hf
        simp only [List.mem_cons] at hf'
        rcases hf' with rfl | hf'
        · exact absurd hft ht
        · exact hk.2 (hinv (hasSection_applyTop r.2 st.stack ⟨f, hf', hft⟩))
  | cl =>
    rw [stepEv_cl] at h
    cases hs : st.stack with
    | nil => simp [hs] at h
    | cons f rest =>
      simp only [hs] at h
      cases hc : closeCore f (ptagOf rest) (core st) with
      | none => simp [hc] at h
      | some x =>
        simp only [hc, Option.map_some, Option.some.injEq] at h
        subst h
        intro hsec
        obtain ⟨g, hg, hgt⟩ := hsec
        have hg' : g ∈ rest := hg
        exact hk.2 (hinv ⟨g, by rw [hs]; simp [hg'], hgt⟩)

theorem run_secInv (evs : List Ev) : ∀ (st s : St), SecInv st → runEvs st evs = some s → SecInv s := by
  induction evs with
  | nil =>
    intro st s hi h
    simp only [runEvs, Option.some.injEq] at h
    subst h
    exact hi
  | cons e es ih =>
    intro st s hi h
    simp only [runEvs] at h
    cases h1 : stepEv st e with
    | none => simp [h1] at h
    | some x =>
      simp only [h1] at h
      exact ih x s (step_secInv st x e hi h1) h

theorem secInv_init : SecInv {} := by
  intro h
  obtain ⟨f, hf, _⟩ := h
  simp at hf

theorem inSection_of_ptag (st : St) (hi : SecInv st) (h : ptagOf st.stack = "section") : st.inSection = true := by
  apply hi
  cases hs : st.stack with
  | nil => simp [ptagOf, hs] at h
  | cons f r =>
    simp [ptagOf, hs] at h
    exact ⟨f, by simp, h⟩

end C19S
