/-
Helper lemmas for the C19 theorems about the STRUCTURE of an MEI document (`Props/C19Sections.lean`):
how the same measures are cut into sibling / nested `<section>` elements, and where the `<tie>` elements stand.

The state machine of `Model/Mei.lean` is not changed.  Its two step functions are shown equal to functions
(`openCore`, `closeCore`) that see the stack of open elements only through a small context
(`Ctx`: tag and attributes of the innermost open element, the enclosing tuplets, "inside a layer");
everything about sections then follows from list reasoning on the stack.
-/
import PartituraModel.Model.Mei

set_option linter.unusedSimpArgs false
set_option linter.unusedVariables false

namespace C19S
open Model Model.Mei

/-! ## what a step sees of the stack -/

structure Ctx where
  ptag : String
  pattrs : List (String × String)
  tups : List (Nat × Nat)
  lay : Bool
  deriving DecidableEq

def ctxOf (s : List Frame) : Ctx :=
  ⟨(s.head?.map (·.tag)).getD "", (s.head?.map (·.attrs)).getD [], tupletsOf s, inLayer s⟩

/-- what a child element writes into the frame of its parent (`staffDef` / `scoreDef`) -/
inductive TopMod where
  | keep
  | meter (m : Option (Nat × Nat))
  | key (k : Option (Int × Option String))
  | clef (c : Option (Nat × String × Nat × Int))

def applyTop : TopMod → List Frame → List Frame
  | .keep, s => s
  | .meter m, s => setTop s fun f => { f with cMeter := m }
  | .key k, s => setTop s fun f => { f with cKey := k }
  | .clef c, s => setTop s fun f => { f with cClef := c }

def durOfT (tups : List (Nat × Nat)) (as : List (String × String)) : Option Rat :=
  match (attr as "dur").bind durNumber with
  | none => none
  | some v =>
    let dots := (natAttr as "dots").getD 0
    match tups with
    | [] => some (meiValue v dots none)
    | [(a, b)] => if a = 0 then none else some (meiValue v dots (some (a, b)))
    | _ => none

def recordDurElT (tups : List (Nat × Nat)) (st : St) (as : List (String × String)) : Option St :=
  match attr as "dur" with
  | none => some st
  | some d =>
    match durNumber d with
    | none => none
    | some v =>
      match tups with
      | [] => some { st with durEls := ⟨v, (natAttr as "dots").getD 0, none, natAttr as "dur.ppq"⟩ :: st.durEls }
      | [t] => some { st with durEls := ⟨v, (natAttr as "dots").getD 0, some t, natAttr as "dur.ppq"⟩ :: st.durEls }
      | _ => none

/-- `openEv` without the stack: the new state (stack untouched) and what is written into the parent's frame -/
def coreBody (c : Ctx) (st : St) (tag : String) (as : List (String × String)) : Option (St × TopMod) := do
  let parentTag := c.ptag
  if tag = "section" then
    pure ({ st with inSection := true }, .keep)
  else if tag = "scoreDef" then
    if st.inSection then pure (st, .keep)
    else pure ({ st with sdMeter := meterOfAttrs as "meter.count" "meter.unit",
                         sdKey := keyOfAttrs as "key.sig" "key.mode" }, .keep)
  else if tag = "meterSig" then
    if parentTag = "staffDef" || parentTag = "scoreDef" then
      pure (st, .meter (meterOfAttrs as "count" "unit"))
    else pure (st, .keep)
  else if tag = "keySig" then
    if parentTag = "staffDef" || parentTag = "scoreDef" then
      pure (st, .key (keyOfAttrs as "sig" "mode"))
    else pure (st, .keep)
  else if tag = "clef" then
    if (attr as "sameas").isSome then pure (st, .keep)
    else
      match attr as "shape", natAttr as "line" with
      | some sh, some ln =>
        if parentTag = "staffDef" then
          let num := (natAttr c.pattrs "n").getD 1
          pure (st, .clef (some (num, sh, ln, clefOctave as)))
        else if c.lay then
          pure ({ st with clefs := (st.staffIdx, st.cursor, st.staffN, sh, ln, clefOctave as) :: st.clefs }, .keep)
        else pure (st, .keep)
      | _, _ => none
  else if tag = "measure" then
    let st ← ensureStarted st
    pure ({ st with measName := attr as "n", staffIdx := 0, staffEnds := [] }, .keep)
  else if tag = "staff" && parentTag = "measure" then
    pure ({ st with staffN := (natAttr as "n").getD (st.staffIdx + 1), layerIdx := 0, layerEnds := [] }, .keep)
  else if tag = "layer" && parentTag = "staff" then
    pure ({ st with voice := (natAttr as "n").getD (st.layerIdx + 1), cursor := st.pos }, .keep)
  else if tag = "tie" then
    match attr as "startid", attr as "endid" with
    | some a, some b => pure ({ st with ties := (String.ofList (a.toList.drop 1), String.ofList (b.toList.drop 1)) :: st.ties }, .keep)
    | _, _ => pure (st, .keep)
  else if !c.lay then pure (st, .keep)
  else if tag = "chord" then
    let d ← durOfT c.tups as
    pure ({ st with chord := some (d, natAttr as "staff") }, .keep)
  else if tag = "note" then
    if parentTag = "chord" then
      match st.chord with
      | none => none
      | some (d, cstaff) =>
        let staff := (natAttr as "staff").getD (cstaff.getD st.staffN)
        let step ← attr as "pname"
        let oct ← (attr as "oct").bind natOfString
        pure ({ st with notes := ⟨st.staffIdx, (attr as "xml:id").getD "", st.cursor, d, 0, upperStep step,
                                  (noteAlter as).getD 0, oct, st.voice, staff⟩ :: st.notes }, .keep)
    else
      let grace := (attr as "grace").isSome
      let d ← if grace then some 0 else durOfT c.tups as
      let staff := (natAttr as "staff").getD st.staffN
      let step ← attr as "pname"
      let oct ← (attr as "oct").bind natOfString
      pure ({ st with notes := ⟨st.staffIdx, (attr as "xml:id").getD "", st.cursor, d, if grace then 1 else 0,
                                upperStep step, (noteAlter as).getD 0, oct, st.voice, staff⟩ :: st.notes,
                      cursor := st.cursor + d }, .keep)
  else if tag = "accid" && parentTag = "note" then
    let pattrs := c.pattrs
    if (attr pattrs "accid").isSome || (attr pattrs "accid.ges").isSome then pure (st, .keep)
    else
      match st.notes with
      | n :: rest =>
        match noteAlter as with
        | some a => pure ({ st with notes := { n with alter := a } :: rest }, .keep)
        | none => pure (st, .keep)
      | [] => pure (st, .keep)
  else if tag = "rest" then
    let d ← durOfT c.tups as
    let staff := (natAttr as "staff").getD st.staffN
    pure ({ st with notes := ⟨st.staffIdx, (attr as "xml:id").getD "", st.cursor, d, 2, "", 0, 0, st.voice, staff⟩ :: st.notes,
                    cursor := st.cursor + d }, .keep)
  else if tag = "mRest" || tag = "multiRest" then
    if tag = "multiRest" && (natAttr as "num").getD 1 > 1 then none
    else
      let d ← measureLen st
      let staff := (natAttr as "staff").getD st.staffN
      pure ({ st with notes := ⟨st.staffIdx, (attr as "xml:id").getD "", st.cursor, d, 2, "", 0, 0, st.voice, staff⟩ :: st.notes,
                      cursor := st.cursor + d }, .keep)
  else if tag = "space" then
    match attr as "dur" with
    | some _ =>
      let d ← durOfT c.tups as
      pure ({ st with cursor := st.cursor + d }, .keep)
    | none =>
      let d ← measureLen st
      pure ({ st with cursor := st.pos + d }, .keep)
  else if tag = "tuplet" then
    match c.tups with
    | [] => pure (st, .keep)
    | _ => none
  else pure (st, .keep)

def openCore (c : Ctx) (st : St) (tag : String) (as : List (String × String)) : Option (St × TopMod) :=
  (recordDurElT c.tups (recordUnits st tag as) as).bind fun st => coreBody c st tag as

/-- the if-chain of `openEv` (verbatim copy), after the durations have been recorded -/
def openBody (st : St) (tag : String) (as : List (String × String)) : Option St := do
  let parentTag := (st.stack.head?.map (·.tag)).getD ""
  let push (s : St) : St := { s with stack := { tag := tag, attrs := as } :: s.stack }
  if tag = "section" then
    pure (push { st with inSection := true })
  else if tag = "scoreDef" then
    if st.inSection then pure (push st)
    else pure (push { st with sdMeter := meterOfAttrs as "meter.count" "meter.unit",
                              sdKey := keyOfAttrs as "key.sig" "key.mode" })
  else if tag = "meterSig" then
    if parentTag = "staffDef" || parentTag = "scoreDef" then
      pure (push { st with stack := setTop st.stack fun f => { f with cMeter := meterOfAttrs as "count" "unit" } })
    else pure (push st)
  else if tag = "keySig" then
    if parentTag = "staffDef" || parentTag = "scoreDef" then
      pure (push { st with stack := setTop st.stack fun f => { f with cKey := keyOfAttrs as "sig" "mode" } })
    else pure (push st)
  else if tag = "clef" then
    if (attr as "sameas").isSome then pure (push st)
    else
      match attr as "shape", natAttr as "line" with
      | some sh, some ln =>
        if parentTag = "staffDef" then
          let num := (st.stack.head?.bind fun f => natAttr f.attrs "n").getD 1
          pure (push { st with stack := setTop st.stack fun f => { f with cClef := some (num, sh, ln, clefOctave as) } })
        else if inLayer st.stack then
          pure (push { st with clefs := (st.staffIdx, st.cursor, st.staffN, sh, ln, clefOctave as) :: st.clefs })
        else pure (push st)
      | _, _ => none
  else if tag = "measure" then
    let st ← ensureStarted st
    pure (push { st with measName := attr as "n", staffIdx := 0, staffEnds := [] })
  else if tag = "staff" && parentTag = "measure" then
    pure (push { st with staffN := (natAttr as "n").getD (st.staffIdx + 1), layerIdx := 0, layerEnds := [] })
  else if tag = "layer" && parentTag = "staff" then
    pure (push { st with voice := (natAttr as "n").getD (st.layerIdx + 1), cursor := st.pos })
  else if tag = "tie" then
    match attr as "startid", attr as "endid" with
    | some a, some b => pure (push { st with ties := (String.ofList (a.toList.drop 1), String.ofList (b.toList.drop 1)) :: st.ties })
    | _, _ => pure (push st)
  else if !(inLayer st.stack) then pure (push st)
  else if tag = "chord" then
    let d ← durOfAttrs st as
    pure (push { st with chord := some (d, natAttr as "staff") })
  else if tag = "note" then
    if parentTag = "chord" then
      match st.chord with
      | none => none
      | some (d, cstaff) =>
        let staff := (natAttr as "staff").getD (cstaff.getD st.staffN)
        let step ← attr as "pname"
        let oct ← (attr as "oct").bind natOfString
        pure (push { st with notes := ⟨st.staffIdx, (attr as "xml:id").getD "", st.cursor, d, 0, upperStep step,
                                       (noteAlter as).getD 0, oct, st.voice, staff⟩ :: st.notes })
    else
      let grace := (attr as "grace").isSome
      let d ← if grace then some 0 else durOfAttrs st as
      let staff := (natAttr as "staff").getD st.staffN
      let step ← attr as "pname"
      let oct ← (attr as "oct").bind natOfString
      pure (push { st with notes := ⟨st.staffIdx, (attr as "xml:id").getD "", st.cursor, d, if grace then 1 else 0,
                                     upperStep step, (noteAlter as).getD 0, oct, st.voice, staff⟩ :: st.notes,
                           cursor := st.cursor + d })
  else if tag = "accid" && parentTag = "note" then
    -- child accidental: used when the note itself carries neither @accid nor @accid.ges
    let pattrs := (st.stack.head?.map (·.attrs)).getD []
    if (attr pattrs "accid").isSome || (attr pattrs "accid.ges").isSome then pure (push st)
    else
      match st.notes with
      | n :: rest =>
        match noteAlter as with
        | some a => pure (push { st with notes := { n with alter := a } :: rest })
        | none => pure (push st)
      | [] => pure (push st)
  else if tag = "rest" then
    let d ← durOfAttrs st as
    let staff := (natAttr as "staff").getD st.staffN
    pure (push { st with notes := ⟨st.staffIdx, (attr as "xml:id").getD "", st.cursor, d, 2, "", 0, 0, st.voice, staff⟩ :: st.notes,
                         cursor := st.cursor + d })
  else if tag = "mRest" || tag = "multiRest" then
    if tag = "multiRest" && (natAttr as "num").getD 1 > 1 then none
    else
      let d ← measureLen st
      let staff := (natAttr as "staff").getD st.staffN
      pure (push { st with notes := ⟨st.staffIdx, (attr as "xml:id").getD "", st.cursor, d, 2, "", 0, 0, st.voice, staff⟩ :: st.notes,
                           cursor := st.cursor + d })
  else if tag = "space" then
    match attr as "dur" with
    | some _ =>
      let d ← durOfAttrs st as
      pure (push { st with cursor := st.cursor + d })
    | none =>
      -- a space without duration fills the rest of the measure
      let d ← measureLen st
      pure (push { st with cursor := st.pos + d })
  else if tag = "tuplet" then
    match tupletsOf st.stack with
    | [] => pure (push st)
    | _ => none                                   -- nested tuplets: outside the supported subset
  else pure (push st)

theorem openEv_body (st : St) (tag : String) (as : List (String × String)) :
    openEv st tag as = (recordDurEl (recordUnits st tag as) as).bind fun st => openBody st tag as := rfl

/-- the state with its stack replaced -/
def withStack (st : St) (s : List Frame) : St := { st with stack := s }

def newFrame (tag : String) (as : List (String × String)) : Frame := { tag := tag, attrs := as }

theorem durOfAttrs_eq (st : St) (as : List (String × String)) : durOfAttrs st as = durOfT (tupletsOf st.stack) as := rfl

theorem recordDurEl_eq (st : St) (as : List (String × String)) :
    recordDurEl st as = (recordDurElT (tupletsOf st.stack) (withStack st []) as).map fun s => withStack s st.stack := by
  unfold recordDurEl recordDurElT withStack
  cases h1 : attr as "dur" with
  | none => simp
  | some d =>
    cases h2 : durNumber d with
    | none => simp [h2]
    | some v =>
      cases h3 : tupletsOf st.stack with
      | nil => simp [h2]
      | cons t ts =>
        cases ts with
        | nil => simp [h2]
        | cons t2 ts2 => simp [h2]

theorem recordUnits_stack (st : St) (tag : String) (as : List (String × String)) (s : List Frame) :
    recordUnits (withStack st s) tag as = withStack (recordUnits st tag as) s := by
  unfold recordUnits withStack
  cases natAttr as "meter.unit" <;> by_cases h : tag = "meterSig" <;> cases natAttr as "unit" <;> simp [h]

theorem recordUnits_stack' (st : St) (tag : String) (as : List (String × String)) :
    (recordUnits st tag as).stack = st.stack := by
  unfold recordUnits
  cases natAttr as "meter.unit" <;> by_cases h : tag = "meterSig" <;> cases natAttr as "unit" <;> simp [h]

@[simp] theorem applyTop_keep (s : List Frame) : applyTop .keep s = s := rfl
@[simp] theorem applyTop_meter_cons (m) (f : Frame) (r : List Frame) :
    applyTop (.meter m) (f :: r) = { f with cMeter := m } :: r := rfl
@[simp] theorem applyTop_key_cons (k) (f : Frame) (r : List Frame) :
    applyTop (.key k) (f :: r) = { f with cKey := k } :: r := rfl
@[simp] theorem applyTop_clef_cons (c) (f : Frame) (r : List Frame) :
    applyTop (.clef c) (f :: r) = { f with cClef := c } :: r := rfl
@[simp] theorem applyTop_nil (t : TopMod) : applyTop t [] = [] := by cases t <;> rfl

theorem ensureStarted_stack (st : St) (s : List Frame) :
    ensureStarted (withStack st s) = (ensureStarted st).map fun x => withStack x s := by
  unfold ensureStarted withStack
  by_cases h : st.started = true
  · simp [h]
  · simp only [h]
    show (match (partsInOrder st).mapM (resolveMeter st) with | some ms => _ | none => _) = _
    cases (partsInOrder st).mapM (resolveMeter st) <;> simp

theorem measureLen_stack (st : St) (s : List Frame) : measureLen (withStack st s) = measureLen st := rfl

theorem durOfAttrs_stack (st : St) (s : List Frame) (as : List (String × String)) :
    durOfAttrs (withStack st s) as = durOfT (tupletsOf s) as := rfl

theorem bind_ext {α β : Type} (x : Option α) (f g : α → Option β) (h : ∀ a, f a = g a) : x.bind f = x.bind g := by
  cases x <;> simp [h]

macro "fin" : tactic => `(tactic|
  (simp [openBody, coreBody, newFrame, ctxOf, durOfAttrs_stack, ensureStarted_stack, measureLen_stack, setTop, Option.bind_map, *]
   all_goals (try (repeat' split))
   all_goals (try (simp_all [withStack, newFrame, ctxOf, setTop]))
   all_goals (try (refine bind_ext _ _ _ (fun _ => ?_)))
   all_goals (try (simp [withStack, Function.comp]))
   all_goals (try (refine bind_ext _ _ _ (fun _ => ?_)))
   all_goals (try (simp [withStack, Function.comp]))
   all_goals (try (refine bind_ext _ _ _ (fun _ => ?_)))
   all_goals (try (simp [withStack, Function.comp]))))

theorem openBody_eq (s0 : St) (stack : List Frame) (tag : String) (as : List (String × String)) :
    openBody (withStack s0 stack) tag as = (coreBody (ctxOf stack) s0 tag as).map fun r =>
      withStack r.1 (newFrame tag as :: applyTop r.2 stack) := by
  cases stack with
  | nil =>
    by_cases h0 : tag = "section"
    · subst h0
      fin
    by_cases h1 : tag = "scoreDef"
    · subst h1
      fin
    by_cases h2 : tag = "meterSig"
    · subst h2
      fin
    by_cases h3 : tag = "keySig"
    · subst h3
      fin
    by_cases h4 : tag = "clef"
    · subst h4
      fin
    by_cases h5 : tag = "measure"
    · subst h5
      fin
    by_cases h6 : tag = "staff"
    · subst h6
      fin
    by_cases h7 : tag = "layer"
    · subst h7
      fin
    by_cases h8 : tag = "tie"
    · subst h8
      fin
    by_cases h9 : tag = "chord"
    · subst h9
      fin
    by_cases h10 : tag = "note"
    · subst h10
      fin
    by_cases h11 : tag = "accid"
    · subst h11
      fin
    by_cases h12 : tag = "rest"
    · subst h12
      fin
    by_cases h13 : tag = "mRest"
    · subst h13
      fin
    by_cases h14 : tag = "multiRest"
    · subst h14
      fin
    by_cases h15 : tag = "space"
    · subst h15
      fin
    by_cases h16 : tag = "tuplet"
    · subst h16
      fin
    fin
  | cons f rest =>
    by_cases h0 : tag = "section"
    · subst h0
      fin
    by_cases h1 : tag = "scoreDef"
    · subst h1
      fin
    by_cases h2 : tag = "meterSig"
    · subst h2
      fin
    by_cases h3 : tag = "keySig"
    · subst h3
      fin
    by_cases h4 : tag = "clef"
    · subst h4
      fin
    by_cases h5 : tag = "measure"
    · subst h5
      fin
    by_cases h6 : tag = "staff"
    · subst h6
      fin
    by_cases h7 : tag = "layer"
    · subst h7
      fin
    by_cases h8 : tag = "tie"
    · subst h8
      fin
    by_cases h9 : tag = "chord"
    · subst h9
      fin
    by_cases h10 : tag = "note"
    · subst h10
      fin
    by_cases h11 : tag = "accid"
    · subst h11
      fin
    by_cases h12 : tag = "rest"
    · subst h12
      fin
    by_cases h13 : tag = "mRest"
    · subst h13
      fin
    by_cases h14 : tag = "multiRest"
    · subst h14
      fin
    by_cases h15 : tag = "space"
    · subst h15
      fin
    by_cases h16 : tag = "tuplet"
    · subst h16
      fin
    fin

/-- `closeEv` after the innermost element `f` has been taken off the stack (`below`: tag of the element that is
    innermost now); the stack itself is not touched -/
def closeCore (f : Frame) (below : Option String) (st : St) : Option St :=
  if f.tag = "scoreDef" then
    if st.inSection then
      match ensureStarted st with
      | some st => some (applySdChange st f)
      | none => none
    else some { st with sdMeterChild := f.cMeter, sdKeyChild := f.cKey }
  else if f.tag = "staffDef" && !st.inSection then
    let own : PartDef := {
      xmlid := (attr f.attrs "xml:id").getD "", n := (natAttr f.attrs "n").getD 1, ppq := natAttr f.attrs "ppq",
      meter := (match f.cMeter with | some m => some m | none => meterOfAttrs f.attrs "meter.count" "meter.unit"),
      key := (match f.cKey with | some k => some k | none => keyOfAttrs f.attrs "key.sig" "key.mode"),
      clef := (match f.cClef with
        | some c => some c
        | none => match natAttr f.attrs "n", attr f.attrs "clef.shape", natAttr f.attrs "clef.line" with
          | some n, some sh, some ln => some (n, sh, ln, clefOctave f.attrs)
          | _, _, _ => none) }
    some { st with defs := own :: st.defs }
  else if f.tag = "layer" && below = some "staff" then
    some { st with layerEnds := st.cursor :: st.layerEnds, layerIdx := st.layerIdx + 1 }
  else if f.tag = "staff" && below = some "measure" then
    let e := ratMaxFrom st.pos st.layerEnds
    some { st with measures := (st.staffIdx, st.measNo, st.measName, st.pos, e) :: st.measures,
                   staffEnds := e :: st.staffEnds, staffIdx := st.staffIdx + 1 }
  else if f.tag = "measure" then
    if st.staffIdx ≠ st.defs.length then none
    else some { st with pos := ratMaxFrom st.pos st.staffEnds, measNo := st.measNo + 1 }
  else if f.tag = "chord" then
    match st.chord with
    | some (d, _) => some { st with cursor := st.cursor + d, chord := none }
    | none => some st
  else some st

theorem applySdChange_stack (st : St) (f : Frame) (s : List Frame) :
    applySdChange (withStack st s) f = withStack (applySdChange st f) s := by
  unfold applySdChange withStack
  simp only []
  split <;> split <;> rfl

/-- the body of `closeEv` (verbatim copy): `st` is the state with the innermost frame `f` already taken off -/
def closeBody (st : St) (f : Frame) (rest : List Frame) : Option St :=
  if f.tag = "scoreDef" then
    if st.inSection then
      match ensureStarted st with
      | some st => some (applySdChange st f)
      | none => none
    else some { st with sdMeterChild := f.cMeter, sdKeyChild := f.cKey }
  else if f.tag = "staffDef" && !st.inSection then
    let own : PartDef := {
      xmlid := (attr f.attrs "xml:id").getD "", n := (natAttr f.attrs "n").getD 1, ppq := natAttr f.attrs "ppq",
      meter := (match f.cMeter with | some m => some m | none => meterOfAttrs f.attrs "meter.count" "meter.unit"),
      key := (match f.cKey with | some k => some k | none => keyOfAttrs f.attrs "key.sig" "key.mode"),
      clef := (match f.cClef with
        | some c => some c
        | none => match natAttr f.attrs "n", attr f.attrs "clef.shape", natAttr f.attrs "clef.line" with
          | some n, some sh, some ln => some (n, sh, ln, clefOctave f.attrs)
          | _, _, _ => none) }
    some { st with defs := own :: st.defs }
  else if f.tag = "layer" && (rest.head?.map (·.tag)) = some "staff" then
    some { st with layerEnds := st.cursor :: st.layerEnds, layerIdx := st.layerIdx + 1 }
  else if f.tag = "staff" && (rest.head?.map (·.tag)) = some "measure" then
    let e := ratMaxFrom st.pos st.layerEnds
    some { st with measures := (st.staffIdx, st.measNo, st.measName, st.pos, e) :: st.measures,
                   staffEnds := e :: st.staffEnds, staffIdx := st.staffIdx + 1 }
  else if f.tag = "measure" then
    if st.staffIdx ≠ st.defs.length then none
    else some { st with pos := ratMaxFrom st.pos st.staffEnds, measNo := st.measNo + 1 }
  else if f.tag = "chord" then
    match st.chord with
    | some (d, _) => some { st with cursor := st.cursor + d, chord := none }
    | none => some st
  else some st

theorem closeEv_body (st : St) :
    closeEv st = match st.stack with
      | [] => none
      | f :: rest => closeBody { st with stack := rest } f rest := rfl

set_option maxHeartbeats 1000000 in
theorem closeBody_eq (s0 : St) (f : Frame) (rest : List Frame) :
    closeBody (withStack s0 rest) f rest = (closeCore f (rest.head?.map (·.tag)) s0).map fun x => withStack x rest := by
  unfold closeBody closeCore
  by_cases h1 : f.tag = "scoreDef"
  · simp only [h1, if_true]
    by_cases h2 : s0.inSection = true
    · have h2' : (withStack s0 rest).inSection = true := h2
      simp only [h2, h2', if_true, ensureStarted_stack]
      cases ensureStarted s0 with
      | none => rfl
      | some x => simp [applySdChange_stack]
    · have h2' : ¬ (withStack s0 rest).inSection = true := h2
      simp [h2, h2', withStack]
  simp only [h1, if_false]
  by_cases h2 : f.tag = "staffDef"
  · by_cases h3 : s0.inSection = true
    · have h3' : (withStack s0 rest).inSection = true := h3
      simp [h2, h3, h3', withStack]
    · have h3' : ¬ (withStack s0 rest).inSection = true := h3
      simp [h2, h3, h3', withStack]
  by_cases h3 : f.tag = "layer"
  · simp only [h3]
    cases hb : rest.head? <;> simp [hb, withStack]
    all_goals (try (repeat' split))
    all_goals (try (simp_all [withStack]))
  by_cases h4 : f.tag = "staff"
  · simp only [h4]
    cases hb : rest.head? <;> simp [hb, withStack]
    all_goals (try (repeat' split))
    all_goals (try (simp_all [withStack]))
  by_cases h5 : f.tag = "measure"
  · simp only [h5]
    cases hb : rest.head? <;> simp [hb, withStack]
    all_goals (try (repeat' split))
    all_goals (try (simp_all [withStack]))
  by_cases h6 : f.tag = "chord"
  · simp only [h6]
    cases hb : rest.head? <;> simp [hb, withStack]
    all_goals (try (repeat' split))
    all_goals (try (simp_all [withStack]))
  simp [h2, h3, h4, h5, h6, withStack]

theorem closeEv_eq (st : St) :
    closeEv st = match st.stack with
      | [] => none
      | f :: rest => (closeCore f (rest.head?.map (·.tag)) (withStack st [])).map fun x => withStack x rest := by
  rw [closeEv_body]
  cases st.stack with
  | nil => rfl
  | cons f rest => exact closeBody_eq (withStack st []) f rest

theorem openEv_eq (st : St) (tag : String) (as : List (String × String)) :
    openEv st tag as = (openCore (ctxOf st.stack) (withStack st []) tag as).map fun r =>
      withStack r.1 (newFrame tag as :: applyTop r.2 st.stack) := by
  rw [openEv_body, recordDurEl_eq, recordUnits_stack', ← recordUnits_stack]
  unfold openCore
  show _ = Option.map _ ((recordDurElT (tupletsOf st.stack) (recordUnits (withStack st []) tag as) as).bind _)
  cases recordDurElT (tupletsOf st.stack) (recordUnits (withStack st []) tag as) as with
  | none => rfl
  | some s0 =>
    simp only [Option.map_some, Option.bind_some]
    exact openBody_eq s0 st.stack tag as

end C19S
