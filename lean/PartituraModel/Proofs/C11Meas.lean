/-
C11 — the loop of `add_measures` (Model/Measures.lean: `segLoop`, `runStretches`) tiles the timeline,
keeps the existing measures and numbers everything consecutively.
-/
import PartituraModel.Model.Measures
import PartituraModel.Proofs.Round
import Mathlib.Tactic.Linarith
import Mathlib.Algebra.Order.Field.Rat

namespace C11Meas
open Model Model.Dur Model.Meas

/-- extent of a measure -/
def ext (m : Measure) : Nat × Nat := (m.start, m.stop)

/-- `ms` tiles `[a, b)` with non-empty measures numbered `k, k+1, …, k' - 1` in time order -/
def TN : Nat → Int → List Measure → Nat → Int → Prop
  | a, k, [], b, k' => a = b ∧ k = k'
  | a, k, m :: rest, b, k' => m.start = a ∧ m.start < m.stop ∧ m.number = some k ∧ TN m.stop (k + 1) rest b k'

theorem tn_nil (a b : Nat) (k k' : Int) : TN a k [] b k' ↔ (a = b ∧ k = k') := Iff.rfl
theorem tn_cons (a b : Nat) (k k' : Int) (m : Measure) (rest : List Measure) :
    TN a k (m :: rest) b k' ↔ (m.start = a ∧ m.start < m.stop ∧ m.number = some k ∧ TN m.stop (k + 1) rest b k') :=
  Iff.rfl

theorem tn_le : ∀ (l : List Measure) (a b : Nat) (k k' : Int), TN a k l b k' → a ≤ b := by
  intro l
  induction l with
  | nil => intro a b k k' h; exact Nat.le_of_eq h.1
  | cons m rest ih =>
    intro a b k k' h
    obtain ⟨h1, h2, _, h4⟩ := (tn_cons ..).mp h
    have := ih _ _ _ _ h4
    omega

theorem tn_start_lt : ∀ (l : List Measure) (a b : Nat) (k k' : Int), TN a k l b k' → ∀ m ∈ l, m.start < b := by
  intro l
  induction l with
  | nil => intro a b k k' _ m hm; simp at hm
  | cons m0 rest ih =>
    intro a b k k' h m hm
    obtain ⟨h1, h2, _, h4⟩ := (tn_cons ..).mp h
    rcases List.mem_cons.mp hm with hm | hm
    · subst hm
      have := tn_le _ _ _ _ _ h4
      omega
    · exact ih _ _ _ _ h4 m hm

theorem tn_append : ∀ (l1 l2 : List Measure) (a b c : Nat) (k k' k'' : Int),
    TN a k l1 b k' → TN b k' l2 c k'' → TN a k (l1 ++ l2) c k'' := by
  intro l1
  induction l1 with
  | nil =>
    intro l2 a b c k k' k'' h1 h2
    obtain ⟨rfl, rfl⟩ := h1
    exact h2
  | cons m rest ih =>
    intro l2 a b c k k' k'' h1 h2
    obtain ⟨e1, e2, e3, e4⟩ := (tn_cons ..).mp h1
    exact (tn_cons ..).mpr ⟨e1, e2, e3, ih _ _ _ _ _ _ _ e4 h2⟩

/-- the remaining existing measures: in time order, non-empty, pairwise disjoint, none before `n` -/
def TD : Nat → List Measure → Prop
  | _, [] => True
  | n, m :: rest => n ≤ m.start ∧ m.start < m.stop ∧ TD m.stop rest

theorem td_cons (n : Nat) (m : Measure) (rest : List Measure) :
    TD n (m :: rest) ↔ (n ≤ m.start ∧ m.start < m.stop ∧ TD m.stop rest) := Iff.rfl

theorem td_mono : ∀ (l : List Measure) (n n' : Nat), n' ≤ n → TD n l → TD n' l := by
  intro l n n' h hd
  cases l with
  | nil => trivial
  | cons m rest =>
    obtain ⟨h1, h2, h3⟩ := (td_cons ..).mp hd
    exact (td_cons ..).mpr ⟨by omega, h2, h3⟩

theorem td_start_ge : ∀ (l : List Measure) (n : Nat), TD n l → ∀ m ∈ l, n ≤ m.start := by
  intro l
  induction l with
  | nil => intro n _ m hm; simp at hm
  | cons m0 rest ih =>
    intro n h m hm
    obtain ⟨h1, h2, h3⟩ := (td_cons ..).mp h
    rcases List.mem_cons.mp hm with hm | hm
    · subst hm; exact h1
    · have := ih _ h3 m hm; omega

-- ------------------------------------------------------------------ the list operations of the loop

theorem firstInWindow_cons_neg (lo hi : Rat) (m : Measure) (ms : List Measure)
    (h : ¬ (lo ≤ (m.start : Rat) ∧ (m.start : Rat) < hi)) :
    firstInWindow lo hi (m :: ms) = (firstInWindow lo hi ms).map fun (i, x) => (i + 1, x) := by
  show (if lo ≤ (m.start : Rat) ∧ (m.start : Rat) < hi then some (0, m)
    else (firstInWindow lo hi ms).map fun (i, x) => (i + 1, x)) = _
  rw [if_neg h]

theorem firstInWindow_cons_pos (lo hi : Rat) (m : Measure) (ms : List Measure)
    (h : lo ≤ (m.start : Rat) ∧ (m.start : Rat) < hi) :
    firstInWindow lo hi (m :: ms) = some (0, m) := by
  show (if lo ≤ (m.start : Rat) ∧ (m.start : Rat) < hi then some (0, m)
    else (firstInWindow lo hi ms).map fun (i, x) => (i + 1, x)) = _
  rw [if_pos h]

theorem firstInWindow_none_of (lo hi : Rat) : ∀ (l : List Measure),
    (∀ m ∈ l, ¬ (lo ≤ (m.start : Rat) ∧ (m.start : Rat) < hi)) → firstInWindow lo hi l = none := by
  intro l
  induction l with
  | nil => intro _; rfl
  | cons m rest ih =>
    intro h
    rw [firstInWindow_cons_neg _ _ _ _ (h m List.mem_cons_self),
      ih (fun x hx => h x (List.mem_cons_of_mem _ hx))]
    rfl

theorem firstInWindow_append (lo hi : Rat) : ∀ (l1 l2 : List Measure),
    (∀ m ∈ l1, ¬ (lo ≤ (m.start : Rat) ∧ (m.start : Rat) < hi)) →
    firstInWindow lo hi (l1 ++ l2) = (firstInWindow lo hi l2).map fun (i, x) => (i + l1.length, x) := by
  intro l1
  induction l1 with
  | nil =>
    intro l2 _
    cases h : firstInWindow lo hi l2 with
    | none => simp [h]
    | some p => simp [h]
  | cons m rest ih =>
    intro l2 h
    have e : (m :: rest) ++ l2 = m :: (rest ++ l2) := rfl
    rw [e, firstInWindow_cons_neg _ _ _ _ (h m List.mem_cons_self),
      ih l2 (fun x hx => h x (List.mem_cons_of_mem _ hx))]
    cases firstInWindow lo hi l2 with
    | none => rfl
    | some p =>
      obtain ⟨i, x⟩ := p
      simp only [Option.map_some, List.length_cons]
      congr 2

theorem setNumber_append (l1 : List Measure) (m : Measure) (rest : List Measure) (k : Int) :
    setNumber (0 + l1.length) k (l1 ++ m :: rest) = l1 ++ { m with number := some k } :: rest := by
  unfold setNumber
  induction l1 with
  | nil => simp [List.modify]
  | cons a l1 ih =>
    simp only [List.length_cons, List.cons_append]
    have : 0 + (l1.length + 1) = (0 + l1.length) + 1 := by omega
    rw [this, List.modify_succ_cons, ih]

theorem insertMeasure_append (x : Measure) : ∀ (l1 l2 : List Measure),
    (∀ a ∈ l1, a.start ≤ x.start) → (∀ a, l2.head? = some a → x.start < a.start) →
    insertMeasure x (l1 ++ l2) = l1 ++ x :: l2 := by
  intro l1
  induction l1 with
  | nil =>
    intro l2 _ h2
    cases l2 with
    | nil => rfl
    | cons a as =>
      simp only [List.nil_append]
      unfold insertMeasure
      rw [if_pos (h2 a rfl)]
  | cons a l1 ih =>
    intro l2 h1 h2
    have e : (a :: l1) ++ l2 = a :: (l1 ++ l2) := rfl
    rw [e]
    unfold insertMeasure
    have : ¬ (x.start < a.start) := by have := h1 a List.mem_cons_self; omega
    rw [if_neg this, ih l2 (fun b hb => h1 b (List.mem_cons_of_mem _ hb)) h2]
    rfl

end C11Meas
