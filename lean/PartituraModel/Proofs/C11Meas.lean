/-
C11 — the loop of `add_measures` (Model/Measures.lean: `segLoop`, `runStretches`) tiles the timeline,
keeps the existing measures and numbers everything consecutively.
-/
import PartituraModel.Model.Measures
import PartituraModel.Proofs.Round
import Mathlib.Tactic.Linarith
import Mathlib.Algebra.Order.Field.Rat

namespace C11Meas
open Model Model.Dur Model.Meas

/-- extent of a measure -/
def ext (m : Measure) : Nat × Nat := (m.start, m.stop)

/-- `ms` tiles `[a, b)` with non-empty measures numbered `k, k+1, …, k' - 1` in time order -/
def TN : Nat → Int → List Measure → Nat → Int → Prop
  | a, k, [], b, k' => a = b ∧ k = k'
  | a, k, m :: rest, b, k' => m.start = a ∧ m.start < m.stop ∧ m.number = some k ∧ TN m.stop (k + 1) rest b k'

theorem tn_nil (a b : Nat) (k k' : Int) : TN a k [] b k' ↔ (a = b ∧ k = k') := Iff.rfl
theorem tn_cons (a b : Nat) (k k' : Int) (m : Measure) (rest : List Measure) :
    TN a k (m :: rest) b k' ↔ (m.start = a ∧ m.start < m.stop ∧ m.number = some k ∧ TN m.stop (k + 1) rest b k') :=
  Iff.rfl

theorem tn_le : ∀ (l : List Measure) (a b : Nat) (k k' : Int), TN a k l b k' → a ≤ b := by
  intro l
  induction l with
  | nil => intro a b k k' h; exact Nat.le_of_eq h.1
  | cons m rest ih =>
    intro a b k k' h
    obtain ⟨h1, h2, _, h4⟩ := (tn_cons ..).mp h
    have := ih _ _ _ _ h4
    omega

theorem tn_start_lt : ∀ (l : List Measure) (a b : Nat) (k k' : Int), TN a k l b k' → ∀ m ∈ l, m.start < b := by
  intro l
  induction l with
  | nil => intro a b k k' _ m hm; simp at hm
  | cons m0 rest ih =>
    intro a b k k' h m hm
    obtain ⟨h1, h2, _, h4⟩ := (tn_cons ..).mp h
    rcases List.mem_cons.mp hm with hm | hm
    · subst hm
      have := tn_le _ _ _ _ _ h4
      omega
    · exact ih _ _ _ _ h4 m hm

theorem tn_append : ∀ (l1 l2 : List Measure) (a b c : Nat) (k k' k'' : Int),
    TN a k l1 b k' → TN b k' l2 c k'' → TN a k (l1 ++ l2) c k'' := by
  intro l1
  induction l1 with
  | nil =>
    intro l2 a b c k k' k'' h1 h2
    obtain ⟨rfl, rfl⟩ := h1
    exact h2
  | cons m rest ih =>
    intro l2 a b c k k' k'' h1 h2
    obtain ⟨e1, e2, e3, e4⟩ := (tn_cons ..).mp h1
    exact (tn_cons ..).mpr ⟨e1, e2, e3, ih _ _ _ _ _ _ _ e4 h2⟩

/-- the remaining existing measures: in time order, non-empty, pairwise disjoint, none before `n` -/
def TD : Nat → List Measure → Prop
  | _, [] => True
  | n, m :: rest => n ≤ m.start ∧ m.start < m.stop ∧ TD m.stop rest

theorem td_cons (n : Nat) (m : Measure) (rest : List Measure) :
    TD n (m :: rest) ↔ (n ≤ m.start ∧ m.start < m.stop ∧ TD m.stop rest) := Iff.rfl

theorem td_mono : ∀ (l : List Measure) (n n' : Nat), n' ≤ n → TD n l → TD n' l := by
  intro l n n' h hd
  cases l with
  | nil => trivial
  | cons m rest =>
    obtain ⟨h1, h2, h3⟩ := (td_cons ..).mp hd
    exact (td_cons ..).mpr ⟨by omega, h2, h3⟩

theorem td_start_ge : ∀ (l : List Measure) (n : Nat), TD n l → ∀ m ∈ l, n ≤ m.start := by
  intro l
  induction l with
  | nil => intro n _ m hm; simp at hm
  | cons m0 rest ih =>
    intro n h m hm
    obtain ⟨h1, h2, h3⟩ := (td_cons ..).mp h
    rcases List.mem_cons.mp hm with hm | hm
    · subst hm; exact h1
    · have := ih _ h3 m hm; omega

-- ------------------------------------------------------------------ the list operations of the loop

theorem firstInWindow_cons_neg (lo hi : Rat) (m : Measure) (ms : List Measure)
    (h : ¬ (lo ≤ (m.start : Rat) ∧ (m.start : Rat) < hi)) :
    firstInWindow lo hi (m :: ms) = (firstInWindow lo hi ms).map fun (i, x) => (i + 1, x) := by
  show (if lo ≤ (m.start : Rat) ∧ (m.start : Rat) < hi then some (0, m)
    else (firstInWindow lo hi ms).map fun (i, x) => (i + 1, x)) = _
  rw [if_neg h]

theorem firstInWindow_cons_pos (lo hi : Rat) (m : Measure) (ms : List Measure)
    (h : lo ≤ (m.start : Rat) ∧ (m.start : Rat) < hi) :
    firstInWindow lo hi (m :: ms) = some (0, m) := by
  show (if lo ≤ (m.start : Rat) ∧ (m.start : Rat) < hi then some (0, m)
    else (firstInWindow lo hi ms).map fun (i, x) => (i + 1, x)) = _
  rw [if_pos h]

theorem firstInWindow_none_of (lo hi : Rat) : ∀ (l : List Measure),
    (∀ m ∈ l, ¬ (lo ≤ (m.start : Rat) ∧ (m.start : Rat) < hi)) → firstInWindow lo hi l = none := by
  intro l
  induction l with
  | nil => intro _; rfl
  | cons m rest ih =>
    intro h
    rw [firstInWindow_cons_neg _ _ _ _ (h m List.mem_cons_self),
      ih (fun x hx => h x (List.mem_cons_of_mem _ hx))]
    rfl

theorem firstInWindow_append (lo hi : Rat) : ∀ (l1 l2 : List Measure),
    (∀ m ∈ l1, ¬ (lo ≤ (m.start : Rat) ∧ (m.start : Rat) < hi)) →
    firstInWindow lo hi (l1 ++ l2) = (firstInWindow lo hi l2).map fun (i, x) => (i + l1.length, x) := by
  intro l1
  induction l1 with
  | nil =>
    intro l2 _
    cases h : firstInWindow lo hi l2 with
    | none => simp [h]
    | some p => simp [h]
  | cons m rest ih =>
    intro l2 h
    have e : (m :: rest) ++ l2 = m :: (rest ++ l2) := rfl
    rw [e, firstInWindow_cons_neg _ _ _ _ (h m List.mem_cons_self),
      ih l2 (fun x hx => h x (List.mem_cons_of_mem _ hx))]
    cases firstInWindow lo hi l2 with
    | none => rfl
    | some p =>
      obtain ⟨i, x⟩ := p
      simp only [Option.map_some, List.length_cons]
      congr 2

theorem setNumber_append (l1 : List Measure) (m : Measure) (rest : List Measure) (k : Int) :
    setNumber (0 + l1.length) k (l1 ++ m :: rest) = l1 ++ { m with number := some k } :: rest := by
  unfold setNumber
  induction l1 with
  | nil => simp [List.modify]
  | cons a l1 ih =>
    simp only [List.length_cons, List.cons_append]
    have : 0 + (l1.length + 1) = (0 + l1.length) + 1 := by omega
    rw [this, List.modify_succ_cons, ih]

theorem insertMeasure_append (x : Measure) : ∀ (l1 l2 : List Measure),
    (∀ a ∈ l1, a.start ≤ x.start) → (∀ a, l2.head? = some a → x.start < a.start) →
    insertMeasure x (l1 ++ l2) = l1 ++ x :: l2 := by
  intro l1
  induction l1 with
  | nil =>
    intro l2 _ h2
    cases l2 with
    | nil => rfl
    | cons a as =>
      simp only [List.nil_append]
      unfold insertMeasure
      rw [if_pos (h2 a rfl)]
  | cons a l1 ih =>
    intro l2 h1 h2
    have e : (a :: l1) ++ l2 = a :: (l1 ++ l2) := rfl
    rw [e]
    unfold insertMeasure
    have : ¬ (x.start < a.start) := by have := h1 a List.mem_cons_self; omega
    rw [if_neg this, ih l2 (fun b hb => h1 b (List.mem_cons_of_mem _ hb)) h2]
    rfl

-- ------------------------------------------------------------------ one iteration


theorem snap_nat (k : Nat) : snap (k : Rat) = (k : Rat) := by
  unfold snap
  have e : ((k : Nat) : Rat) = ((k : Int) : Rat) := by simp
  simp only
  rw [e, Round.roundHalfEven_int]
  simp [absR]

theorem pyMin_nat (a b : Nat) : pyMin (a : Rat) (b : Rat) = ((min a b : Nat) : Rat) := by
  unfold pyMin
  split
  · rename_i h
    have : b < a := by exact_mod_cast h
    rw [Nat.min_eq_right (le_of_lt this)]
  · rename_i h
    have : ¬ (b < a) := by intro hc; apply h; exact_mod_cast hc
    rw [Nat.min_eq_left (by omega)]

theorem floor_nat (k : Nat) : ((k : Rat).floor).toNat = k := by
  have e : ((k : Nat) : Rat) = ((k : Int) : Rat) := by simp
  rw [e, Rat.floor_intCast]
  simp

theorem seg_eq (f : Rat → Nat → Option Rat) (tsEnd beats fuel : Nat) (s : St) :
    segLoop f tsEnd beats (fuel + 1) s =
    (if ¬ (s.pos < (tsEnd : Rat)) then .ok s
    else
      match f s.pos beats with
      | none => .error "nan"
      | some be =>
        let measureEnd := snap (pyMin (tsEnd : Rat) be)
        match firstInWindow s.pos measureEnd s.ms with
        | some (i, ex) =>
          if (ex.start : Rat) = s.pos then
            if ¬ ((ex.stop : Rat) > s.pos) then .error "assert"
            else segLoop f tsEnd beats fuel ⟨(ex.stop : Rat), setNumber i s.mc s.ms, s.mc + 1⟩
          else
            let new : Measure := ⟨s.pos.floor.toNat, ex.start, some s.mc⟩
            let ms := insertMeasure new (setNumber i (s.mc + 1) s.ms)
            segLoop f tsEnd beats fuel ⟨(ex.stop : Rat), ms, s.mc + 2⟩
        | none =>
          let new : Measure := ⟨s.pos.floor.toNat, measureEnd.floor.toNat, some s.mc⟩
          segLoop f tsEnd beats fuel ⟨measureEnd, insertMeasure new s.ms, s.mc + 1⟩) := rfl

/-- one iteration, existing measure right at the position -/
theorem seg_at (f : Rat → Nat → Option Rat) (tsEnd beats fuel : Nat) (s : St) (be : Rat) (i : Nat) (ex : Measure)
    (h1 : s.pos < (tsEnd : Rat)) (h2 : f s.pos beats = some be)
    (h3 : firstInWindow s.pos (snap (pyMin (tsEnd : Rat) be)) s.ms = some (i, ex))
    (h4 : (ex.start : Rat) = s.pos) (h5 : (ex.stop : Rat) > s.pos) :
    segLoop f tsEnd beats (fuel + 1) s =
      segLoop f tsEnd beats fuel ⟨(ex.stop : Rat), setNumber i s.mc s.ms, s.mc + 1⟩ := by
  rw [seg_eq, if_neg (not_not.mpr h1)]
  simp only [h2, h3, h4, if_true, not_not.mpr h5, if_false]

theorem seg_filler (f : Rat → Nat → Option Rat) (tsEnd beats fuel : Nat) (s : St) (be : Rat) (i : Nat) (ex : Measure)
    (h1 : s.pos < (tsEnd : Rat)) (h2 : f s.pos beats = some be)
    (h3 : firstInWindow s.pos (snap (pyMin (tsEnd : Rat) be)) s.ms = some (i, ex))
    (h4 : ¬ ((ex.start : Rat) = s.pos)) :
    segLoop f tsEnd beats (fuel + 1) s =
      segLoop f tsEnd beats fuel ⟨(ex.stop : Rat),
        insertMeasure ⟨s.pos.floor.toNat, ex.start, some s.mc⟩ (setNumber i (s.mc + 1) s.ms), s.mc + 2⟩ := by
  rw [seg_eq, if_neg (not_not.mpr h1)]
  simp only [h2, h3, h4, if_false]

theorem seg_new (f : Rat → Nat → Option Rat) (tsEnd beats fuel : Nat) (s : St) (be : Rat)
    (h1 : s.pos < (tsEnd : Rat)) (h2 : f s.pos beats = some be)
    (h3 : firstInWindow s.pos (snap (pyMin (tsEnd : Rat) be)) s.ms = none) :
    segLoop f tsEnd beats (fuel + 1) s =
      segLoop f tsEnd beats fuel ⟨snap (pyMin (tsEnd : Rat) be),
        insertMeasure ⟨s.pos.floor.toNat, (snap (pyMin (tsEnd : Rat) be)).floor.toNat, some s.mc⟩ s.ms, s.mc + 1⟩ := by
  rw [seg_eq, if_neg (not_not.mpr h1)]
  simp only [h2, h3]

theorem seg_stop (f : Rat → Nat → Option Rat) (tsEnd beats fuel : Nat) (s : St)
    (h1 : ¬ (s.pos < (tsEnd : Rat))) : segLoop f tsEnd beats (fuel + 1) s = .ok s := by
  show (if ¬ (s.pos < (tsEnd : Rat)) then Except.ok s else _) = _
  rw [if_pos h1]

/-- on integer positions the bar-end map answers with a later integer position -/
def Integral (f : Rat → Nat → Option Rat) : Prop :=
  ∀ (n beats : Nat) (v : Rat), f (n : Rat) beats = some v → ∃ w : Nat, v = (w : Rat) ∧ n < w

/-- the loop invariant: `done` tiles `[first, n)` numbered from 1, `todo` are the untouched existing
    measures from `n` on, the existing ones already passed are among `done` with their extents -/
def Inv (Q : Measure → Prop) (first : Nat) (orig : List Measure) (lo tsEnd : Nat) (s : St) : Prop :=
  ∃ (n : Nat) (done todo consumed : List Measure),
    s.pos = (n : Rat) ∧ lo ≤ n ∧ n ≤ tsEnd ∧ s.ms = done ++ todo ∧ TN first 1 done n s.mc ∧ TD n todo ∧
    orig = consumed ++ todo ∧ (consumed.map ext).Sublist (done.map ext) ∧
    ∀ m ∈ done, (∃ x ∈ orig, ext x = ext m) ∨ Q m

/-- why an added measure `[start, stop)` of a stretch ending at `tsEnd` with `beats` beats per bar has the
    extent it has: it starts inside the stretch, ends where the bar-end map says a full bar from `start` ends, or earlier because the stretch
    ends (next signature change / end of the part) or an existing measure starts there -/
def JSeg (f : Rat → Nat → Option Rat) (orig : List Measure) (lo tsEnd beats : Nat) (m : Measure) : Prop :=
  ∃ w : Nat, f (m.start : Rat) beats = some (w : Rat) ∧ lo ≤ m.start ∧ m.start < tsEnd ∧ m.stop ≤ w ∧ m.stop ≤ tsEnd ∧
    (m.stop = w ∨ m.stop = tsEnd ∨ ∃ x ∈ orig, x.start = m.stop)

theorem seg_inv (f : Rat → Nat → Option Rat) (hf : Integral f) (Q : Measure → Prop) (first : Nat) (orig : List Measure)
    (lo tsEnd beats : Nat) (hQ : ∀ m, JSeg f orig lo tsEnd beats m → Q m)
    (hns : ∀ m ∈ orig, ¬ (m.start < tsEnd ∧ tsEnd < m.stop)) :
    ∀ (fuel : Nat) (s s' : St), Inv Q first orig lo tsEnd s → segLoop f tsEnd beats fuel s = .ok s' →
      Inv Q first orig lo tsEnd s' ∧ s'.pos = (tsEnd : Rat) := by
  intro fuel
  induction fuel with
  | zero => intro s s' _ h; simp [segLoop] at h
  | succ fuel ih =>
    intro s s' hinv h
    obtain ⟨n, done, todo, consumed, hpos, hlo, hle, hms, htn, htd, horig, hsub, hq⟩ := hinv
    by_cases hlt : s.pos < (tsEnd : Rat)
    swap
    · rw [seg_stop _ _ _ _ _ hlt] at h
      simp only [Except.ok.injEq] at h
      subst h
      have : ¬ (n < tsEnd) := by intro hc; apply hlt; rw [hpos]; exact_mod_cast hc
      have hn : n = tsEnd := by omega
      exact ⟨⟨n, done, todo, consumed, hpos, hlo, hle, hms, htn, htd, horig, hsub, hq⟩, by rw [hpos, hn]⟩
    · have hnlt : n < tsEnd := by rw [hpos] at hlt; exact_mod_cast hlt
      cases hfv : f s.pos beats with
      | none =>
        rw [seg_eq, if_neg (not_not.mpr hlt)] at h
        simp only [hfv] at h
        cases h
      | some be =>
        obtain ⟨w, hw, hnw⟩ := hf n beats be (by rw [← hpos]; exact hfv)
        have hfw : f (n : Rat) beats = some (w : Rat) := by rw [← hpos, ← hw]; exact hfv
        have hme : snap (pyMin (tsEnd : Rat) be) = ((min tsEnd w : Nat) : Rat) := by
          rw [hw, pyMin_nat, snap_nat]
        have hnh : n < min tsEnd w := by omega
        have hhle : min tsEnd w ≤ tsEnd := Nat.min_le_left _ _
        -- nothing of `done` is in the window
        have hdone : ∀ m ∈ done, ¬ ((n : Rat) ≤ (m.start : Rat) ∧ (m.start : Rat) < ((min tsEnd w : Nat) : Rat)) := by
          intro m hm hc
          have h1 := tn_start_lt _ _ _ _ _ htn m hm
          have h2 : n ≤ m.start := by exact_mod_cast hc.1
          omega
        have hdle : ∀ a ∈ done, a.start ≤ n := fun a ha => le_of_lt (tn_start_lt _ _ _ _ _ htn a ha)
        have hwin : firstInWindow s.pos (snap (pyMin (tsEnd : Rat) be)) s.ms =
            (firstInWindow (n : Rat) ((min tsEnd w : Nat) : Rat) todo).map fun (i, x) => (i + done.length, x) := by
          rw [hme, hpos, hms]; exact firstInWindow_append _ _ _ _ hdone
        -- the case "a new measure up to the bar end"
        have caseNew : firstInWindow (n : Rat) ((min tsEnd w : Nat) : Rat) todo = none →
            (∀ a, todo.head? = some a → min tsEnd w ≤ a.start) →
            Inv Q first orig lo tsEnd s' ∧ s'.pos = (tsEnd : Rat) := by
          intro hnone hhead
          rw [hnone] at hwin
          rw [seg_new _ _ _ _ _ _ hlt hfv hwin, hme, hpos, floor_nat, floor_nat, hms] at h
          rw [insertMeasure_append _ _ _ (by intro a ha; exact hdle a ha)
            (by intro a ha; have := hhead a ha; show n < a.start; omega)] at h
          apply ih _ s' _ h
          refine ⟨min tsEnd w, done ++ [⟨n, min tsEnd w, some s.mc⟩], todo, consumed, rfl, by omega, hhle, by simp, ?_, ?_, horig, ?_, ?_⟩
          · apply tn_append _ _ _ _ _ _ _ _ htn
            exact (tn_cons ..).mpr ⟨rfl, hnh, rfl, (tn_nil ..).mpr ⟨rfl, rfl⟩⟩
          · cases todo with
            | nil => trivial
            | cons m rest =>
              obtain ⟨_, t2, t3⟩ := (td_cons ..).mp htd
              exact (td_cons ..).mpr ⟨hhead m rfl, t2, t3⟩
          · rw [List.map_append]
            exact hsub.trans (List.sublist_append_left _ _)
          · intro m hm
            rcases List.mem_append.mp hm with hm | hm
            · exact hq m hm
            · simp only [List.mem_singleton] at hm
              subst hm
              right
              apply hQ
              refine ⟨w, hfw, hlo, hnlt, Nat.min_le_right _ _, hhle, ?_⟩
              rcases Nat.le_total tsEnd w with hc | hc
              · right; left; exact Nat.min_eq_left hc
              · left; exact Nat.min_eq_right hc
        cases todo with
        | nil => exact caseNew rfl (by intro a ha; simp at ha)
        | cons m rest =>
          obtain ⟨t1, t2, t3⟩ := (td_cons ..).mp htd
          have hmorig : m ∈ orig := by rw [horig]; simp
          by_cases hmw : m.start < min tsEnd w
          · -- an existing measure in the window
            have hcond : (n : Rat) ≤ (m.start : Rat) ∧ (m.start : Rat) < ((min tsEnd w : Nat) : Rat) :=
              ⟨by exact_mod_cast t1, by exact_mod_cast hmw⟩
            rw [firstInWindow_cons_pos _ _ _ _ hcond] at hwin
            simp only [Option.map_some] at hwin
            have hstop : m.stop ≤ tsEnd := by
              have := hns m hmorig
              omega
            by_cases hat : m.start = n
            · have h4 : (m.start : Rat) = s.pos := by rw [hpos, hat]
              have h5 : (m.stop : Rat) > s.pos := by rw [hpos]; exact_mod_cast (by omega : n < m.stop)
              rw [seg_at _ _ _ _ _ _ _ _ hlt hfv hwin h4 h5, hms, setNumber_append] at h
              apply ih _ s' _ h
              refine ⟨m.stop, done ++ [{ m with number := some s.mc }], rest, consumed ++ [m], rfl, by omega, hstop, by simp, ?_, t3,
                by rw [horig]; simp, ?_, ?_⟩
              · apply tn_append _ _ _ _ _ _ _ _ htn
                exact (tn_cons ..).mpr ⟨hat, t2, rfl, (tn_nil ..).mpr ⟨rfl, rfl⟩⟩
              · rw [List.map_append, List.map_append]
                exact hsub.append (List.Sublist.refl _)
              · intro x hx
                rcases List.mem_append.mp hx with hx | hx
                · exact hq x hx
                · simp only [List.mem_singleton] at hx
                  subst hx
                  left; exact ⟨m, hmorig, rfl⟩
            · have h4 : ¬ ((m.start : Rat) = s.pos) := by
                rw [hpos]; intro hc; apply hat; exact_mod_cast hc
              have hgt : n < m.start := by omega
              rw [seg_filler _ _ _ _ _ _ _ _ hlt hfv hwin h4, hms, setNumber_append, hpos, floor_nat] at h
              rw [insertMeasure_append _ _ _ (by intro a ha; exact hdle a ha)
                (by intro a ha; simp only [List.head?_cons, Option.some.injEq] at ha; subst ha; exact hgt)] at h
              apply ih _ s' _ h
              refine ⟨m.stop, done ++ [⟨n, m.start, some s.mc⟩, { m with number := some (s.mc + 1) }], rest, consumed ++ [m],
                rfl, by omega, hstop, by simp, ?_, t3, by rw [horig]; simp, ?_, ?_⟩
              · apply tn_append _ _ _ _ _ _ _ _ htn
                refine (tn_cons ..).mpr ⟨rfl, hgt, rfl, (tn_cons ..).mpr ⟨rfl, t2, rfl, (tn_nil ..).mpr ⟨rfl, ?_⟩⟩⟩
                show s.mc + 1 + 1 = s.mc + 2
                omega
              · rw [List.map_append, List.map_append]
                apply hsub.append
                exact List.Sublist.cons _ (List.Sublist.refl _)
              · intro x hx
                rcases List.mem_append.mp hx with hx | hx
                · exact hq x hx
                · simp only [List.mem_cons, List.not_mem_nil, or_false] at hx
                  rcases hx with hx | hx
                  · subst hx
                    right
                    apply hQ
                    exact ⟨w, hfw, hlo, hnlt, by show m.start ≤ w; omega, by show m.start ≤ tsEnd; omega,
                      Or.inr (Or.inr ⟨m, hmorig, rfl⟩)⟩
                  · subst hx
                    left; exact ⟨m, hmorig, rfl⟩
          · -- the first remaining measure starts at or after the bar end: nothing in the window
            apply caseNew
            · apply firstInWindow_none_of
              intro x hx hc
              have hxs : m.start ≤ x.start := by
                rcases List.mem_cons.mp hx with hx | hx
                · subst hx; exact Nat.le_refl _
                · have := td_start_ge _ _ t3 x hx; omega
              have : x.start < min tsEnd w := by exact_mod_cast hc.2
              omega
            · intro a ha
              simp only [List.head?_cons, Option.some.injEq] at ha
              subst ha; omega

-- ------------------------------------------------------------------ all stretches


/-- the invariant between stretches, at time `n` -/
def InvAt (Q : Measure → Prop) (first : Nat) (orig : List Measure) (n : Nat) (ms : List Measure) (mc : Int) : Prop :=
  ∃ (done todo consumed : List Measure),
    ms = done ++ todo ∧ TN first 1 done n mc ∧ TD n todo ∧
    orig = consumed ++ todo ∧ (consumed.map ext).Sublist (done.map ext) ∧
    ∀ m ∈ done, (∃ x ∈ orig, ext x = ext m) ∨ Q m

/-- the stretches chain from `a` to `z` -/
def SC : Nat → Nat → List (Nat × Nat × Nat) → Prop
  | a, z, [] => a = z
  | a, z, (s, e, _) :: rest => s = a ∧ s ≤ e ∧ SC e z rest

theorem sc_cons (a z s e b : Nat) (rest : List (Nat × Nat × Nat)) :
    SC a z ((s, e, b) :: rest) ↔ (s = a ∧ s ≤ e ∧ SC e z rest) := Iff.rfl

theorem run_inv (f : Rat → Nat → Option Rat) (hf : Integral f) (Q : Measure → Prop) (first : Nat) (orig : List Measure)
    (fuel : Nat) :
    ∀ (l : List (Nat × Nat × Nat)) (a z : Nat) (ms : List Measure) (mc : Int) (ms' : List Measure) (mc' : Int),
      SC a z l → (∀ m ∈ orig, ∀ x ∈ l, ¬ (m.start < x.2.1 ∧ x.2.1 < m.stop)) →
      (∀ x ∈ l, ∀ m, JSeg f orig x.1 x.2.1 x.2.2 m → Q m) →
      InvAt Q first orig a ms mc → runStretches f fuel l ms mc = .ok (ms', mc') → InvAt Q first orig z ms' mc' := by
  intro l
  induction l with
  | nil =>
    intro a z ms mc ms' mc' hsc _ _ hinv h
    have : a = z := hsc
    subst this
    simp only [runStretches, Except.ok.injEq, Prod.mk.injEq] at h
    obtain ⟨rfl, rfl⟩ := h
    exact hinv
  | cons x rest ih =>
    intro a z ms mc ms' mc' hsc hns hQl hinv h
    obtain ⟨s, e, b⟩ := x
    obtain ⟨hs, hse, hrest⟩ := (sc_cons ..).mp hsc
    subst hs
    unfold runStretches at h
    split at h
    · cases h
    · rename_i st hst
      obtain ⟨done, todo, consumed, h1, h2, h3, h4, h5, h6⟩ := hinv
      have hi : Inv Q first orig s e ⟨(s : Rat), ms, mc⟩ := ⟨s, done, todo, consumed, rfl, le_refl _, hse, h1, h2, h3, h4, h5, h6⟩
      obtain ⟨⟨n, done', todo', consumed', g0, _, _, g1, g2, g3, g4, g5, g6⟩, hpos⟩ :=
        seg_inv f hf Q first orig s e b (hQl (s, e, b) List.mem_cons_self)
          (fun m hm => hns m hm (s, e, b) List.mem_cons_self) fuel _ st hi hst
      have hn : n = e := by
        have : (n : Rat) = (e : Rat) := by rw [← g0, hpos]
        exact_mod_cast this
      subst hn
      exact ih n z st.ms st.mc ms' mc' hrest (fun m hm x hx => hns m hm x (List.mem_cons_of_mem _ hx))
        (fun x hx => hQl x (List.mem_cons_of_mem _ hx))
        ⟨done', todo', consumed', g1, g2, g3, g4, g5, g6⟩ h

/-- numbers of a numbered tiling: the `i`-th measure in time order has number `k + i` -/
theorem tn_numbers : ∀ (l : List Measure) (a b : Nat) (k k' : Int), TN a k l b k' →
    (∀ (i : Nat) (h : i < l.length), (l[i]).number = some (k + (i : Int))) ∧ k' = k + (l.length : Int) := by
  intro l
  induction l with
  | nil => intro a b k k' h; exact ⟨by intro i hi; simp at hi, by have := h.2; simp [this]⟩
  | cons m rest ih =>
    intro a b k k' h
    obtain ⟨_, _, h3, h4⟩ := (tn_cons ..).mp h
    obtain ⟨i1, i2⟩ := ih _ _ _ _ h4
    refine ⟨?_, by rw [i2]; simp only [List.length_cons]; push_cast; omega⟩
    intro i hi
    cases i with
    | zero => simp [h3]
    | succ j =>
      simp only [List.getElem_cons_succ]
      rw [i1 j (by simpa using hi)]
      push_cast
      congr 1
      omega

/-- a numbered tiling covers `[a, b)` -/
theorem tn_cover : ∀ (l : List Measure) (a b : Nat) (k k' : Int), TN a k l b k' →
    ∀ t, a ≤ t → t < b → ∃ m ∈ l, m.start ≤ t ∧ t < m.stop := by
  intro l
  induction l with
  | nil => intro a b k k' h t h1 h2; have := h.1; omega
  | cons m rest ih =>
    intro a b k k' h t h1 h2
    obtain ⟨e1, e2, _, e4⟩ := (tn_cons ..).mp h
    by_cases ht : t < m.stop
    · exact ⟨m, List.mem_cons_self, by omega, ht⟩
    · obtain ⟨m', hm', c⟩ := ih _ _ _ _ e4 t (by omega) h2
      exact ⟨m', List.mem_cons_of_mem _ hm', c⟩

/-- the measures of a numbered tiling are pairwise disjoint, in time order -/
theorem tn_disjoint : ∀ (l : List Measure) (a b : Nat) (k k' : Int), TN a k l b k' →
    l.Pairwise (fun m m' => m.stop ≤ m'.start) ∧ ∀ m ∈ l, a ≤ m.start ∧ m.stop ≤ b := by
  intro l
  induction l with
  | nil => intro a b k k' _; exact ⟨List.Pairwise.nil, by intro m hm; simp at hm⟩
  | cons m rest ih =>
    intro a b k k' h
    obtain ⟨e1, e2, _, e4⟩ := (tn_cons ..).mp h
    obtain ⟨p1, p2⟩ := ih _ _ _ _ e4
    have hle := tn_le _ _ _ _ _ e4
    refine ⟨List.pairwise_cons.mpr ⟨fun m' hm' => (p2 m' hm').1, p1⟩, ?_⟩
    intro x hx
    rcases List.mem_cons.mp hx with hx | hx
    · subst hx; omega
    · have := p2 x hx; omega

-- ------------------------------------------------------------------ the stretches chain


theorem chain_zip : ∀ (tsl : List (Int × Nat)) (z : Int), (tsl.map (·.1)).Pairwise (· ≤ ·) →
    (∀ x ∈ tsl, x.1 ≤ z) → ∀ (t0 : Int) (b0 : Nat), tsl.head? = some (t0, b0) →
    SC t0.toNat z.toNat ((tsl.zip ((tsl.map (·.1)).tail ++ [z])).map mkStretch) := by
  intro tsl
  induction tsl with
  | nil => intro z _ _ t0 b0 h; simp at h
  | cons x rest ih =>
    intro z hs hr t0 b0 hh
    simp only [List.head?_cons, Option.some.injEq] at hh
    subst hh
    cases rest with
    | nil =>
      have e : ([(t0, b0)].zip (([(t0, b0)].map (·.1)).tail ++ [z])).map mkStretch = [(t0.toNat, z.toNat, b0)] := rfl
      rw [e]
      have := hr (t0, b0) List.mem_cons_self
      exact (sc_cons ..).mpr ⟨rfl, Int.toNat_le_toNat this, rfl⟩
    | cons y rest' =>
      obtain ⟨t1, b1⟩ := y
      have e : (((t0, b0) :: (t1, b1) :: rest').zip ((((t0, b0) :: (t1, b1) :: rest').map (·.1)).tail ++ [z])).map mkStretch
          = (t0.toNat, t1.toNat, b0) ::
            ((((t1, b1) :: rest').zip ((((t1, b1) :: rest').map (·.1)).tail ++ [z])).map mkStretch) := rfl
      rw [e]
      have hs' := List.pairwise_cons.mp hs
      have h01 : t0 ≤ t1 := hs'.1 t1 (by simp)
      refine (sc_cons ..).mpr ⟨rfl, Int.toNat_le_toNat h01, ?_⟩
      exact ih z hs'.2 (fun x hx => hr x (List.mem_cons_of_mem _ hx)) t1 b1 rfl

theorem tsEnds_eq (last : Nat) (starts : List Int) (h : starts.length = (tsEnds last starts).length) :
    tsEnds last starts = starts.tail ++ [(last : Int)] := by
  unfold tsEnds at h ⊢
  split
  · rfl
  · rename_i e he
    split
    · rfl
    · rename_i hlt
      rw [he] at h
      simp only [hlt, if_false] at h
      cases starts with
      | nil => simp at he
      | cons a as => simp at h

/-- the input the Reading allows: signatures in time order inside `[first, last]`, a non-empty timeline -/
structure TsOK (p : PartM) : Prop where
  sorted : (p.ts.map (·.t)).Pairwise (· ≤ ·)
  range : ∀ s ∈ p.ts, (p.first : Int) ≤ s.t ∧ s.t ≤ (p.last : Int)
  lt : p.first < p.last
  nonempty : p.ts ≠ []

theorem prepend_spec (first : Nat) (z : Int) (hfz : (first : Int) ≤ z) : ∀ (tsl : List (Int × Nat)), tsl ≠ [] →
    (tsl.map (·.1)).Pairwise (· ≤ ·) → (∀ x ∈ tsl, (first : Int) ≤ x.1 ∧ x.1 ≤ z) →
    ((tsPrepend first tsl).map (·.1)).Pairwise (· ≤ ·) ∧ (∀ x ∈ tsPrepend first tsl, (first : Int) ≤ x.1 ∧ x.1 ≤ z) ∧
    ∃ b rest, tsPrepend first tsl = ((first : Int), b) :: rest := by
  intro tsl hne hs hr
  cases tsl with
  | nil => exact absurd rfl hne
  | cons x rest =>
    obtain ⟨t0, b0⟩ := x
    have e : tsPrepend first ((t0, b0) :: rest) =
        if t0 > (first : Int) then ((first : Int), 4) :: (t0, b0) :: rest else (t0, b0) :: rest := rfl
    by_cases hgt : t0 > (first : Int)
    · rw [e, if_pos hgt]
      refine ⟨?_, ?_, 4, _, rfl⟩
      · simp only [List.map_cons]
        refine List.pairwise_cons.mpr ⟨?_, by simpa using hs⟩
        intro a ha
        simp only [List.mem_cons, List.mem_map] at ha
        rcases ha with rfl | ⟨y, hy, rfl⟩
        · exact le_of_lt hgt
        · exact (hr y (List.mem_cons_of_mem _ hy)).1
      · intro y hy
        rcases List.mem_cons.mp hy with rfl | hy
        · exact ⟨le_refl _, hfz⟩
        · exact hr y hy
    · rw [e, if_neg hgt]
      have h0 := hr (t0, b0) List.mem_cons_self
      have : t0 = (first : Int) := by simp only at h0; omega
      subst this
      exact ⟨hs, hr, b0, rest, rfl⟩

theorem dropLast_spec (first last : Nat) (hlt : first < last) (b : Nat) (rest : List (Int × Nat))
    (hs : ((((first : Int), b) :: rest).map (·.1)).Pairwise (· ≤ ·))
    (hr : ∀ x ∈ ((first : Int), b) :: rest, x.1 ≤ (last : Int)) :
    ∃ rest', tsDropLast last (((first : Int), b) :: rest) = ((first : Int), b) :: rest' ∧
      ((((first : Int), b) :: rest').map (·.1)).Pairwise (· ≤ ·) ∧
      ∀ x ∈ ((first : Int), b) :: rest', x.1 ≤ (last : Int) := by
  unfold tsDropLast
  split
  · rename_i t b' hl
    split
    · rename_i hge
      cases rest with
      | nil =>
        exfalso
        simp only [List.getLast?_singleton, Option.some.injEq, Prod.mk.injEq] at hl
        have : (first : Int) < (last : Int) := by exact_mod_cast hlt
        omega
      | cons y ys =>
        refine ⟨(y :: ys).dropLast, List.dropLast_cons_of_ne_nil (by simp), ?_, ?_⟩
        · have hsub : (((first : Int), b) :: (y :: ys).dropLast).Sublist (((first : Int), b) :: y :: ys) :=
            (List.dropLast_sublist _).cons_cons _
          exact hs.sublist (hsub.map _)
        · intro x hx
          rcases List.mem_cons.mp hx with rfl | hx
          · exact hr _ List.mem_cons_self
          · exact hr x (List.mem_cons_of_mem _ (List.dropLast_subset _ hx))
    · exact ⟨rest, rfl, hs, hr⟩
  · exact ⟨rest, rfl, hs, hr⟩

theorem stretches_chain (p : PartM) (hok : TsOK p) (l : List (Nat × Nat × Nat)) (h : stretches p = some l) :
    SC p.first p.last l := by
  have hfl : (p.first : Int) ≤ (p.last : Int) := by exact_mod_cast le_of_lt hok.lt
  have h0s : ((p.ts.map fun s => (s.t, s.beats)).map (·.1)).Pairwise (· ≤ ·) := by
    rw [List.map_map]; exact hok.sorted
  have h0r : ∀ x ∈ (p.ts.map fun s => (s.t, s.beats)), (p.first : Int) ≤ x.1 ∧ x.1 ≤ (p.last : Int) := by
    intro x hx
    obtain ⟨s, hs, rfl⟩ := List.mem_map.mp hx
    exact hok.range s hs
  obtain ⟨p1, p2, b, rest, p3⟩ := prepend_spec p.first (p.last : Int) hfl _ (by simpa using hok.nonempty) h0s h0r
  rw [p3] at p1 p2
  obtain ⟨rest', d1, d2, d3⟩ := dropLast_spec p.first p.last hok.lt b rest p1 (fun x hx => (p2 x hx).2)
  unfold stretches at h
  simp only [p3, d1] at h
  split at h
  · cases h
  · rename_i hlen
    simp only [Option.some.injEq] at h
    have hlen' := not_not.mp hlen
    rw [tsEnds_eq _ _ hlen'] at h
    rw [← h]
    have := chain_zip (((p.first : Int), b) :: rest') (p.last : Int) d2 d3 (p.first : Int) b rfl
    simpa using this

-- ------------------------------------------------------------------ add_measures


/-- what the Reading asks of the measures already present: in time order, non-empty, pairwise disjoint,
    inside `[first, last]`, none straddling the end of a stretch -/
structure ExistingOK (p : PartM) (l : List (Nat × Nat × Nat)) : Prop where
  ordered : TD p.first p.measures
  inside : ∀ m ∈ p.measures, m.stop ≤ p.last
  noStraddle : ∀ m ∈ p.measures, ∀ x ∈ l, ¬ (m.start < x.2.1 ∧ x.2.1 < m.stop)

theorem add_measures_sound (f : Rat → Nat → Option Rat) (hf : Integral f) (p : PartM) (fuel : Nat)
    (l : List (Nat × Nat × Nat)) (ms' : List Measure)
    (hts : p.ts.isEmpty = false) (hne : p.first ≠ p.last)
    (hl : stretches p = some l) (hsc : SC p.first p.last l) (hex : ExistingOK p l)
    (h : addMeasuresWith f p fuel = .ok ms') :
    TN p.first 1 ms' p.last (1 + (ms'.length : Int)) ∧ (p.measures.map ext).Sublist (ms'.map ext) ∧
    ∀ m ∈ ms', (∃ x ∈ p.measures, ext x = ext m) ∨ ∃ x ∈ l, JSeg f p.measures x.1 x.2.1 x.2.2 m := by
  unfold addMeasuresWith at h
  rw [hts] at h
  simp only [Bool.false_eq_true, if_false, hne, hl] at h
  cases hr : runStretches f fuel l p.measures 1 with
  | error e => rw [hr] at h; cases h
  | ok r =>
    obtain ⟨msr, mcr⟩ := r
    rw [hr] at h
    simp only [Except.map, Except.ok.injEq] at h
    subst h
    have h0 : InvAt (fun m => ∃ x ∈ l, JSeg f p.measures x.1 x.2.1 x.2.2 m) p.first p.measures p.first p.measures 1 :=
      ⟨[], p.measures, [], rfl, (tn_nil ..).mpr ⟨rfl, rfl⟩, hex.ordered, rfl, List.Sublist.refl _,
        by intro m hm; simp at hm⟩
    obtain ⟨done, todo, consumed, g1, g2, g3, g4, g5, g6⟩ :=
      run_inv f hf _ p.first p.measures fuel l p.first p.last p.measures 1 msr mcr hsc hex.noStraddle
        (fun x hx m hj => ⟨x, hx, hj⟩) h0 hr
    -- nothing can be left after the last point
    have htodo : todo = [] := by
      cases todo with
      | nil => rfl
      | cons m rest =>
        exfalso
        obtain ⟨t1, t2, _⟩ := (td_cons ..).mp g3
        have := hex.inside m (by rw [g4]; simp)
        omega
    subst htodo
    simp only [List.append_nil] at g1 g4
    subst g1 g4
    refine ⟨?_, g5, g6⟩
    have := (tn_numbers _ _ _ _ _ g2).2
    rw [← this]; exact g2

/-- `add_measures_sound` with the chain of stretches derived from the input -/
theorem add_measures_sound' (f : Rat → Nat → Option Rat) (hf : Integral f) (p : PartM) (fuel : Nat)
    (l : List (Nat × Nat × Nat)) (ms' : List Measure) (hok : TsOK p)
    (hl : stretches p = some l) (hex : ExistingOK p l) (h : addMeasuresWith f p fuel = .ok ms') :
    TN p.first 1 ms' p.last (1 + (ms'.length : Int)) ∧ (p.measures.map ext).Sublist (ms'.map ext) ∧
    ∀ m ∈ ms', (∃ x ∈ p.measures, ext x = ext m) ∨ ∃ x ∈ l, JSeg f p.measures x.1 x.2.1 x.2.2 m :=
  add_measures_sound f hf p fuel l ms' (by
      cases hts : p.ts with
      | nil => exact absurd hts hok.nonempty
      | cons a as => rfl)
    (Nat.ne_of_lt hok.lt) hl (stretches_chain p hok l hl) hex h

end C11Meas
