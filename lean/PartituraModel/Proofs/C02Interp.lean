/-
C02 helper lemmas, part 1: linear interpolation through a strictly increasing knot list
(`Model.TimeMap.interp` / `interpAux`): definedness, bounds, strict monotonicity, the
segment formula, the inverse, and invariance under a vertical shift.
-/
import PartituraModel.Model.TimeMap
import Mathlib.Tactic.Linarith
import Mathlib.Tactic.FieldSimp
import Mathlib.Tactic.Ring
import Mathlib.Algebra.Order.Field.Rat

namespace C02Proofs
open Model.TimeMap

/-- knots to the right of `(x0, y0)` have strictly increasing abscissae and ordinates -/
def Chain (x0 y0 : Rat) : List (Rat × Rat) → Prop
  | [] => True
  | (x1, y1) :: rest => x0 < x1 ∧ y0 < y1 ∧ Chain x1 y1 rest

def lastX (x0 : Rat) : List (Rat × Rat) → Rat
  | [] => x0
  | (x1, _) :: rest => lastX x1 rest

/-- a knot list the interpolator is well defined on: at least two knots, strictly increasing -/
def KnotsOK : List (Rat × Rat) → Prop
  | [] => False
  | (x0, y0) :: rest => rest ≠ [] ∧ Chain x0 y0 rest

theorem le_lastX : ∀ (rest : List (Rat × Rat)) (x0 y0 : Rat), Chain x0 y0 rest → x0 ≤ lastX x0 rest
  | [], _, _, _ => le_refl _
  | (x1, y1) :: rest, _, _, h => by
    have := le_lastX rest x1 y1 h.2.2
    simp only [lastX]
    linarith [h.1]

theorem chain_swap : ∀ (rest : List (Rat × Rat)) (x0 y0 : Rat), Chain x0 y0 rest → Chain y0 x0 (swap rest)
  | [], _, _, _ => trivial
  | (x1, y1) :: rest, x0, y0, h => ⟨h.2.1, h.1, chain_swap rest x1 y1 h.2.2⟩

theorem swap_swap (ks : List (Rat × Rat)) : swap (swap ks) = ks := by
  induction ks with
  | nil => rfl
  | cons a t ih =>
    obtain ⟨a1, a2⟩ := a
    simp only [swap, List.map_cons, List.map_map] at ih ⊢
    rw [ih]

theorem knotsOK_swap : ∀ ks, KnotsOK ks → KnotsOK (swap ks)
  | [], h => h
  | (x0, y0) :: rest, h => by
    refine ⟨?_, chain_swap rest x0 y0 h.2⟩
    intro h0
    apply h.1
    cases rest with
    | nil => rfl
    | cons a t => simp at h0

theorem chain_shift (s : Rat) : ∀ (rest : List (Rat × Rat)) (x0 y0 : Rat),
    Chain x0 y0 rest → Chain x0 (y0 - s) (shiftBy s rest)
  | [], _, _, _ => trivial
  | (x1, y1) :: rest, x0, y0, h =>
    ⟨h.1, by linarith [h.2.1], chain_shift s rest x1 y1 h.2.2⟩

theorem knotsOK_shift (s : Rat) : ∀ ks, KnotsOK ks → KnotsOK (shiftBy s ks)
  | [], h => h
  | (x0, y0) :: rest, h => by
    refine ⟨?_, chain_shift s rest x0 y0 h.2⟩
    intro h0
    apply h.1
    cases rest with
    | nil => rfl
    | cons a t => simp at h0

-- ------------------------------------------------------------------ one segment

theorem seg_ge {x0 y0 x1 y1 x : Rat} (hx : x0 < x1) (hy : y0 < y1) (h0 : x0 ≤ x) :
    y0 ≤ (y1 - y0) / (x1 - x0) * (x - x0) + y0 := by
  have hs : 0 < (y1 - y0) / (x1 - x0) := div_pos (by linarith) (by linarith)
  have : 0 ≤ (y1 - y0) / (x1 - x0) * (x - x0) := mul_nonneg hs.le (by linarith)
  linarith

theorem seg_gt {x0 y0 x1 y1 x : Rat} (hx : x0 < x1) (hy : y0 < y1) (h0 : x0 < x) :
    y0 < (y1 - y0) / (x1 - x0) * (x - x0) + y0 := by
  have hs : 0 < (y1 - y0) / (x1 - x0) := div_pos (by linarith) (by linarith)
  have : 0 < (y1 - y0) / (x1 - x0) * (x - x0) := mul_pos hs (by linarith)
  linarith

theorem seg_le {x0 y0 x1 y1 x : Rat} (hx : x0 < x1) (hy : y0 < y1) (h1 : x ≤ x1) :
    (y1 - y0) / (x1 - x0) * (x - x0) + y0 ≤ y1 := by
  have hs : 0 < (y1 - y0) / (x1 - x0) := div_pos (by linarith) (by linarith)
  have h2 : (y1 - y0) / (x1 - x0) * (x - x0) ≤ (y1 - y0) / (x1 - x0) * (x1 - x0) :=
    mul_le_mul_of_nonneg_left (by linarith) hs.le
  have h3 : (y1 - y0) / (x1 - x0) * (x1 - x0) = y1 - y0 := by
    have : x1 - x0 ≠ 0 := by linarith
    field_simp
  linarith

theorem seg_mono {x0 y0 x1 y1 a b : Rat} (hx : x0 < x1) (hy : y0 < y1) (hab : a < b) :
    (y1 - y0) / (x1 - x0) * (a - x0) + y0 < (y1 - y0) / (x1 - x0) * (b - x0) + y0 := by
  have hs : 0 < (y1 - y0) / (x1 - x0) := div_pos (by linarith) (by linarith)
  have : (y1 - y0) / (x1 - x0) * (a - x0) < (y1 - y0) / (x1 - x0) * (b - x0) :=
    mul_lt_mul_of_pos_left (by linarith) hs
  linarith

theorem seg_inv {x0 y0 x1 y1 x : Rat} (hx : x0 < x1) (hy : y0 < y1) :
    (x1 - x0) / (y1 - y0) * (((y1 - y0) / (x1 - x0) * (x - x0) + y0) - y0) + x0 = x := by
  have h1 : x1 - x0 ≠ 0 := by linarith
  have h2 : y1 - y0 ≠ 0 := by linarith
  field_simp
  ring

-- ------------------------------------------------------------------ interpAux

/-- a defined value lies at or above the left knot, strictly above it to its right, and the
    interpolator through the swapped knots maps it back -/
theorem interpAux_inv : ∀ (rest : List (Rat × Rat)) (x0 y0 x y : Rat),
    Chain x0 y0 rest → x0 ≤ x → interpAux x0 y0 rest x = some y →
    y0 ≤ y ∧ (x0 < x → y0 < y) ∧ interpAux y0 x0 (swap rest) y = some x
  | [], _, _, _, _, _, _, h => by simp [interpAux] at h
  | (x1, y1) :: rest, x0, y0, x, y, hc, h0, h => by
    obtain ⟨hx, hy, hc'⟩ := hc
    unfold interpAux at h
    by_cases hle : x ≤ x1
    · rw [if_pos hle] at h
      have hy' : y = (y1 - y0) / (x1 - x0) * (x - x0) + y0 := by
        injection h with h; exact h.symm
      subst hy'
      refine ⟨seg_ge hx hy h0, fun hlt => seg_gt hx hy hlt, ?_⟩
      simp only [swap, List.map_cons]
      unfold interpAux
      rw [if_pos (seg_le hx hy hle), seg_inv hx hy]
    · rw [if_neg hle] at h
      have hgt : x1 < x := lt_of_not_ge hle
      obtain ⟨_, h2, h3⟩ := interpAux_inv rest x1 y1 x y hc' hgt.le h
      have hyy : y1 < y := h2 hgt
      refine ⟨by linarith, fun _ => by linarith, ?_⟩
      simp only [swap, List.map_cons]
      unfold interpAux
      rw [if_neg (not_le.mpr hyy)]
      exact h3

theorem interpAux_le_lastX : ∀ (rest : List (Rat × Rat)) (x0 y0 x y : Rat),
    Chain x0 y0 rest → interpAux x0 y0 rest x = some y → x ≤ lastX x0 rest
  | [], _, _, _, _, _, h => by simp [interpAux] at h
  | (x1, y1) :: rest, x0, y0, x, y, hc, h => by
    unfold interpAux at h
    simp only [lastX]
    by_cases hle : x ≤ x1
    · exact le_trans hle (le_lastX rest x1 y1 hc.2.2)
    · rw [if_neg hle] at h
      exact interpAux_le_lastX rest x1 y1 x y hc.2.2 h

/-- defined on the whole knot range -/
theorem interpAux_defined : ∀ (rest : List (Rat × Rat)) (x0 y0 x : Rat),
    rest ≠ [] → x ≤ lastX x0 rest → ∃ y, interpAux x0 y0 rest x = some y
  | [], _, _, _, h, _ => absurd rfl h
  | (x1, y1) :: rest, x0, y0, x, _, h1 => by
    unfold interpAux
    by_cases hle : x ≤ x1
    · exact ⟨_, by rw [if_pos hle]⟩
    · rw [if_neg hle]
      simp only [lastX] at h1
      have hne : rest ≠ [] := by
        intro h0
        subst h0
        simp only [lastX] at h1
        exact hle h1
      exact interpAux_defined rest x1 y1 x hne h1

theorem interpAux_strictMono : ∀ (rest : List (Rat × Rat)) (x0 y0 a b ya yb : Rat),
    Chain x0 y0 rest → x0 ≤ a → a < b →
    interpAux x0 y0 rest a = some ya → interpAux x0 y0 rest b = some yb → ya < yb
  | [], _, _, _, _, _, _, _, _, _, h, _ => by simp [interpAux] at h
  | (x1, y1) :: rest, x0, y0, a, b, ya, yb, hc, h0, hab, ha, hb => by
    obtain ⟨hx, hy, hc'⟩ := hc
    unfold interpAux at ha hb
    by_cases hale : a ≤ x1
    · rw [if_pos hale] at ha
      have hya : ya = (y1 - y0) / (x1 - x0) * (a - x0) + y0 := by
        injection ha with ha; exact ha.symm
      by_cases hble : b ≤ x1
      · rw [if_pos hble] at hb
        have hyb : yb = (y1 - y0) / (x1 - x0) * (b - x0) + y0 := by
          injection hb with hb; exact hb.symm
        rw [hya, hyb]
        exact seg_mono hx hy hab
      · rw [if_neg hble] at hb
        have hgt : x1 < b := lt_of_not_ge hble
        have := (interpAux_inv rest x1 y1 b yb hc' hgt.le hb).2.1 hgt
        have h2 : ya ≤ y1 := by rw [hya]; exact seg_le hx hy hale
        linarith
    · rw [if_neg hale] at ha
      have hagt : x1 < a := lt_of_not_ge hale
      have hble : ¬ b ≤ x1 := by
        intro h; linarith
      rw [if_neg hble] at hb
      exact interpAux_strictMono rest x1 y1 a b ya yb hc' hagt.le hab ha hb

/-- a vertical shift of all knots shifts every value -/
theorem interpAux_shift (s : Rat) : ∀ (rest : List (Rat × Rat)) (x0 y0 x : Rat),
    interpAux x0 (y0 - s) (shiftBy s rest) x = (interpAux x0 y0 rest x).map (· - s)
  | [], _, _, _ => rfl
  | (x1, y1) :: rest, x0, y0, x => by
    simp only [shiftBy, List.map_cons]
    unfold interpAux
    by_cases hle : x ≤ x1
    · rw [if_pos hle, if_pos hle]
      simp only [Option.map_some]
      congr 1
      ring
    · rw [if_neg hle, if_neg hle]
      exact interpAux_shift s rest x1 y1 x

/-- segment formula: between two adjacent knots the value is the left knot's value plus the
    slope times the distance, whatever precedes the segment -/
theorem interpAux_segment : ∀ (pre : List (Rat × Rat)) (x0 y0 u yu v yv : Rat) (post : List (Rat × Rat)) (x : Rat),
    Chain x0 y0 (pre ++ (u, yu) :: (v, yv) :: post) → u ≤ x → x ≤ v →
    interpAux x0 y0 (pre ++ (u, yu) :: (v, yv) :: post) x = some ((yv - yu) / (v - u) * (x - u) + yu)
  | [], x0, y0, u, yu, v, yv, post, x, hc, hu, hv => by
    obtain ⟨hx, hy, hx2, hy2, _⟩ := hc
    simp only [List.nil_append]
    unfold interpAux
    by_cases hle : x ≤ u
    · have hxu : x = u := le_antisymm hle hu
      subst hxu
      rw [if_pos hle]
      congr 1
      have : x - x0 ≠ 0 := by linarith
      field_simp
      ring
    · rw [if_neg hle]
      unfold interpAux
      rw [if_pos hv]
  | (x1, y1) :: pre, x0, y0, u, yu, v, yv, post, x, hc, hu, hv => by
    obtain ⟨hx, hy, hc'⟩ := hc
    simp only [List.cons_append]
    unfold interpAux
    have hx1u : x1 ≤ u := by
      clear hv hu
      cases pre with
      | nil => exact hc'.1.le
      | cons p pre' =>
        -- x1 < p.1 ≤ ... ≤ u : use the recursive bound below
        have : ∀ (l : List (Rat × Rat)) (a b : Rat), Chain a b (l ++ (u, yu) :: (v, yv) :: post) → a < u := by
          intro l
          induction l with
          | nil => intro a b h; exact h.1
          | cons q l ih =>
            intro a b h
            obtain ⟨q1, q2⟩ := q
            have := ih q1 q2 h.2.2
            linarith [h.1]
        exact (this (p :: pre') x1 y1 hc').le
    by_cases hle : x ≤ x1
    · -- then x = x1 = u, impossible unless pre = [] and ... ; in fact x1 < u ≤ x
      have hlt : x1 < u := by
        have : ∀ (l : List (Rat × Rat)) (a b : Rat), Chain a b (l ++ (u, yu) :: (v, yv) :: post) → a < u := by
          intro l
          induction l with
          | nil => intro a b h; exact h.1
          | cons q l ih =>
            intro a b h
            obtain ⟨q1, q2⟩ := q
            have := ih q1 q2 h.2.2
            linarith [h.1]
        exact this pre x1 y1 hc'
      exfalso
      linarith
    · rw [if_neg hle]
      exact interpAux_segment pre x1 y1 u yu v yv post x hc' hu hv

-- ------------------------------------------------------------------ interp

theorem interp_cons2 (x0 y0 : Rat) (k : Rat × Rat) (rest : List (Rat × Rat)) (x : Rat) :
    interp ((x0, y0) :: k :: rest) x = if x < x0 then none else interpAux x0 y0 (k :: rest) x := rfl

/-- range of a well-formed knot list -/
def firstX : List (Rat × Rat) → Rat
  | [] => 0
  | (x0, _) :: _ => x0

def endX : List (Rat × Rat) → Rat
  | [] => 0
  | (x0, _) :: rest => lastX x0 rest

def firstY : List (Rat × Rat) → Rat
  | [] => 0
  | (_, y0) :: _ => y0

theorem interp_defined (ks : List (Rat × Rat)) (hk : KnotsOK ks) (x : Rat)
    (h0 : firstX ks ≤ x) (h1 : x ≤ endX ks) : ∃ y, interp ks x = some y := by
  match ks, hk with
  | (x0, y0) :: k :: rest, hk =>
    have h0' : x0 ≤ x := h0
    rw [interp_cons2, if_neg (not_lt.mpr h0')]
    exact interpAux_defined (k :: rest) x0 y0 x (by simp) h1

theorem interp_range (ks : List (Rat × Rat)) (hk : KnotsOK ks) (x y : Rat)
    (h : interp ks x = some y) : firstX ks ≤ x ∧ x ≤ endX ks := by
  match ks, hk with
  | (x0, y0) :: k :: rest, hk =>
    rw [interp_cons2] at h
    by_cases hlt : x < x0
    · rw [if_pos hlt] at h; cases h
    · rw [if_neg hlt] at h
      exact ⟨not_lt.mp hlt, interpAux_le_lastX (k :: rest) x0 y0 x y hk.2 h⟩

theorem interp_strictMono (ks : List (Rat × Rat)) (hk : KnotsOK ks) (a b ya yb : Rat)
    (hab : a < b) (ha : interp ks a = some ya) (hb : interp ks b = some yb) : ya < yb := by
  match ks, hk with
  | (x0, y0) :: k :: rest, hk =>
    rw [interp_cons2] at ha hb
    by_cases hlt : a < x0
    · rw [if_pos hlt] at ha; cases ha
    · rw [if_neg hlt] at ha
      have hb0 : ¬ b < x0 := by
        intro h; exact hlt (lt_trans hab h)
      rw [if_neg hb0] at hb
      exact interpAux_strictMono (k :: rest) x0 y0 a b ya yb hk.2 (not_lt.mp hlt) hab ha hb

theorem interp_inv (ks : List (Rat × Rat)) (hk : KnotsOK ks) (x y : Rat)
    (h : interp ks x = some y) : interp (swap ks) y = some x := by
  match ks, hk with
  | (x0, y0) :: (x1, y1) :: rest, hk =>
    rw [interp_cons2] at h
    by_cases hlt : x < x0
    · rw [if_pos hlt] at h; cases h
    · rw [if_neg hlt] at h
      obtain ⟨h1, _, h3⟩ := interpAux_inv ((x1, y1) :: rest) x0 y0 x y hk.2 (not_lt.mp hlt) h
      show interp ((y0, x0) :: (y1, x1) :: swap rest) y = some x
      rw [interp_cons2, if_neg (not_lt.mpr h1)]
      exact h3

theorem interp_shift (s : Rat) (ks : List (Rat × Rat)) (hk : KnotsOK ks) (x : Rat) :
    interp (shiftBy s ks) x = (interp ks x).map (· - s) := by
  match ks, hk with
  | (x0, y0) :: (x1, y1) :: rest, hk =>
    show interp ((x0, y0 - s) :: (x1, y1 - s) :: shiftBy s rest) x = _
    rw [interp_cons2, interp_cons2]
    by_cases hlt : x < x0
    · rw [if_pos hlt, if_pos hlt]; rfl
    · rw [if_neg hlt, if_neg hlt]
      exact interpAux_shift s ((x1, y1) :: rest) x0 y0 x

/-- the value at the first knot is the first ordinate -/
theorem interp_first (ks : List (Rat × Rat)) (hk : KnotsOK ks) :
    interp ks (firstX ks) = some (firstY ks) := by
  match ks, hk with
  | (x0, y0) :: (x1, y1) :: rest, hk =>
    show interp ((x0, y0) :: (x1, y1) :: rest) x0 = some y0
    rw [interp_cons2, if_neg (lt_irrefl _)]
    unfold interpAux
    rw [if_pos hk.2.1.le]
    congr 1
    ring

end C02Proofs
