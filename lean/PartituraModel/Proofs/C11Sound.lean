/-
C11 (round 5) — the executable, fuel-bounded `sounding` of Model/Measures.lean IS the recursion `Walk` of
`duration_tied` / `end_tied`: a walk visits every key at most once (it is deterministic and finite), so it is at most
as long as the list and the fuel `ns.length` never runs out.  With the row and walk theorems of C11Rows / C11Walk this
gives the note array of the model, as a list, before and after stage 1 of `tie_notes`.
-/
import PartituraModel.Proofs.C11Rows
import PartituraModel.Model.Sanitize

namespace C11Sound
open Model Model.Dur Model.Meas C11Tie C11Walk C11Rows

/-- `Walk` with the keys it visits -/
inductive WalkP (ns : List Note) : Nat → Nat → Nat → List Nat → Prop
  | last (x : Nat) (n : Note) : lk ns x = some n → n.tieNext = none → WalkP ns x (n.stop - n.start) n.stop [x]
  | step (x : Nat) (n : Note) (t d e : Nat) (p : List Nat) : lk ns x = some n → n.tieNext = some t → WalkP ns t d e p →
      WalkP ns x ((n.stop - n.start) + d) e (x :: p)

theorem walk_path (ns : List Note) : ∀ x d e, Walk ns x d e → ∃ p, WalkP ns x d e p := by
  intro x d e h
  induction h with
  | last x n hn hnone => exact ⟨[x], .last x n hn hnone⟩
  | step x n t d e hn hsome _ ih =>
    obtain ⟨p, hp⟩ := ih
    exact ⟨x :: p, .step x n t d e p hn hsome hp⟩

theorem walkP_walk (ns : List Note) : ∀ x d e p, WalkP ns x d e p → Walk ns x d e := by
  intro x d e p h
  induction h with
  | last x n hn hnone => exact .last x n hn hnone
  | step x n t d e p hn hsome _ ih => exact .step x n t d e hn hsome ih

theorem walkP_unique (ns : List Note) : ∀ x d e p, WalkP ns x d e p → ∀ d' e' p', WalkP ns x d' e' p' → p = p' := by
  intro x d e p h
  induction h with
  | last x n hn hnone =>
    intro d' e' p' h'
    cases h' with
    | last _ n' hn' _ => rfl
    | step _ n' t _ _ _ hn' hsome _ => rw [hn] at hn'; cases hn'; rw [hnone] at hsome; cases hsome
  | step x n t d e p hn hsome _ ih =>
    intro d' e' p' h'
    cases h' with
    | last _ n' hn' hnone => rw [hn] at hn'; cases hn'; rw [hsome] at hnone; cases hnone
    | step _ n' t' d'' _ p'' hn' hsome' hw' =>
      rw [hn] at hn'; cases hn'
      rw [hsome] at hsome'; cases hsome'
      rw [ih _ _ _ hw']

theorem walkP_head (ns : List Note) : ∀ x d e p, WalkP ns x d e p → ∃ t, p = x :: t := by
  intro x d e p h
  cases h with
  | last => exact ⟨[], rfl⟩
  | step _ _ _ _ _ p => exact ⟨p, rfl⟩

/-- from every key on the path the rest of the path is a walk -/
theorem walkP_suffix (ns : List Note) : ∀ x d e p, WalkP ns x d e p →
    ∀ y ∈ p, ∃ d' e' p', WalkP ns y d' e' p' ∧ p' <:+ p := by
  intro x d e p h
  induction h with
  | last x n hn hnone =>
    intro y hy
    simp only [List.mem_singleton] at hy
    subst hy
    exact ⟨_, _, [y], .last y n hn hnone, List.suffix_refl _⟩
  | step x n t d e p hn hsome hw ih =>
    intro y hy
    rcases List.mem_cons.mp hy with rfl | hy
    · exact ⟨_, _, y :: p, .step y n t d e p hn hsome hw, List.suffix_refl _⟩
    · obtain ⟨d', e', p', hp', hs⟩ := ih y hy
      exact ⟨d', e', p', hp', hs.trans (List.suffix_cons x p)⟩

/-- a walk visits no key twice -/
theorem walkP_nodup (ns : List Note) : ∀ x d e p, WalkP ns x d e p → p.Nodup := by
  intro x d e p h
  induction h with
  | last x n hn hnone => simp
  | step x n t d e p hn hsome hw ih =>
    refine List.nodup_cons.mpr ⟨?_, ih⟩
    intro hx
    obtain ⟨d', e', p', hp', hs⟩ := walkP_suffix ns t d e p hw x hx
    have := walkP_unique ns x _ _ _ (.step x n t d e p hn hsome hw) d' e' p' hp'
    rw [← this] at hs
    have := hs.length_le
    simp at this

theorem walkP_keys (ns : List Note) : ∀ x d e p, WalkP ns x d e p → p ⊆ ns.map (·.key) := by
  intro x d e p h
  induction h with
  | last x n hn hnone =>
    intro y hy
    simp only [List.mem_singleton] at hy
    subst hy
    obtain ⟨h1, h2⟩ := lk_some ns y n hn
    exact List.mem_map.mpr ⟨n, h2, h1⟩
  | step x n t d e p hn hsome hw ih =>
    intro y hy
    rcases List.mem_cons.mp hy with rfl | hy
    · obtain ⟨h1, h2⟩ := lk_some ns y n hn
      exact List.mem_map.mpr ⟨n, h2, h1⟩
    · exact ih hy

theorem walkP_length (ns : List Note) (x d e : Nat) (p : List Nat) (h : WalkP ns x d e p) : p.length ≤ ns.length := by
  have := List.Nodup.length_le_of_subset (walkP_nodup ns x d e p h) (walkP_keys ns x d e p h)
  simpa using this

/-- with fuel for the whole path the fuel-bounded recursion returns the end and the summed duration of the walk -/
theorem chainEndDur_walkP (ns : List Note) : ∀ x d e p, WalkP ns x d e p →
    ∀ (fuel : Nat) (n : Note), lk ns x = some n → p.length ≤ fuel + 1 → chainEndDur ns fuel n = (e, d) := by
  intro x d e p h
  induction h with
  | last x n hn hnone =>
    intro fuel n' hn' _
    rw [hn] at hn'; cases hn'
    cases fuel with
    | zero => rfl
    | succ f => unfold chainEndDur; rw [hnone]; rfl
  | step x n t d e p hn hsome hw ih =>
    intro fuel n' hn' hlen
    rw [hn] at hn'; cases hn'
    obtain ⟨tl, hp⟩ := walkP_head ns t d e p hw
    cases fuel with
    | zero => rw [hp] at hlen; simp at hlen
    | succ f =>
      have hnx : ∃ nx, lk ns t = some nx := by
        cases hw with
        | last _ nx h _ => exact ⟨nx, h⟩
        | step _ nx _ _ _ _ h _ _ => exact ⟨nx, h⟩
      obtain ⟨nx, hnx⟩ := hnx
      have hrec := ih f nx hnx (by simp only [List.length_cons] at hlen; omega)
      unfold chainEndDur
      have hb : (n.tieNext.bind fun k => ns.find? (·.key = k)) = some nx := by
        rw [hsome]; exact hnx
      rw [hb]
      simp only [hrec]

/-- `duration_tied` of the note with key `x` as the model's `sounding` computes it (0 when there is no such note) -/
def durOf (ns : List Note) (x : Nat) : Nat :=
  match lk ns x with
  | some n => (chainEndDur ns ns.length n).2
  | none => 0

/-- `end_tied` likewise -/
def endOf (ns : List Note) (x : Nat) : Nat :=
  match lk ns x with
  | some n => (chainEndDur ns ns.length n).1
  | none => 0

/-- **the executable recursion is `Walk`**: wherever `duration_tied` / `end_tied` terminate, the fuel `ns.length` of the
    model suffices and `chainEndDur` returns exactly their values -/
theorem chainEndDur_walk (ns : List Note) (x d e : Nat) (n : Note) (hn : lk ns x = some n) (h : Walk ns x d e) :
    chainEndDur ns ns.length n = (e, d) := by
  obtain ⟨p, hp⟩ := walk_path ns x d e h
  exact chainEndDur_walkP ns x d e p hp ns.length n hn (Nat.le_succ_of_le (walkP_length ns x d e p hp))

theorem durOf_walk (ns : List Note) (x d e : Nat) (h : Walk ns x d e) : durOf ns x = d ∧ endOf ns x = e := by
  have hn : ∃ n, lk ns x = some n := by
    cases h with
    | last _ n h _ => exact ⟨n, h⟩
    | step _ n _ _ _ h _ _ => exact ⟨n, h⟩
  obtain ⟨n, hn⟩ := hn
  unfold durOf endOf
  rw [hn]
  simp only [chainEndDur_walk ns x d e n hn h, and_self]

/-- the row of the note array that belongs to a row of `rowsOf`, given the tied duration of its key -/
def rowWith (dur : Nat → Nat) (f : Fields) : Nat × Nat × String × Option Int × Option String :=
  (f.2.1, dur f.1, f.2.2.1, f.2.2.2.1, f.2.2.2.2)

/-- `sounding` is `rowsOf` with the tied duration of every row filled in -/
theorem sounding_eq_rows (ns : List Note) (hkeys : KeysOK ns) : sounding ns = (rowsOf ns).map (rowWith (durOf ns)) := by
  unfold sounding rowsOf
  rw [List.map_map]
  have hf : (ns.filter fun n => n.tiePrev.isNone) = ns.filter isRow := rfl
  rw [hf]
  apply List.map_congr_left
  intro n hn
  have hmem : n ∈ ns := (List.mem_filter.mp hn).1
  simp only [Function.comp, rowWith, fields, durOf, lk_self ns hkeys n hmem]

/-- every row's chain can be walked: `duration_tied` terminates on every note of the note array -/
def Walkable (ns : List Note) : Prop := ∀ n ∈ ns, n.tiePrev = none → ∃ d e, Walk ns n.key d e

/-- two lists with the same rows, the second keeping every walk of the first, have the same note array -/
theorem sounding_congr (ns ns' : List Note) (hk : KeysOK ns) (hk' : KeysOK ns') (hrows : rowsOf ns' = rowsOf ns)
    (hw : Walkable ns) (hkeep : ∀ x d e, Walk ns x d e → Walk ns' x d e) : sounding ns' = sounding ns := by
  rw [sounding_eq_rows ns hk, sounding_eq_rows ns' hk', hrows]
  apply List.map_congr_left
  intro f hf
  unfold rowsOf at hf
  obtain ⟨n, hn, rfl⟩ := List.mem_map.mp hf
  obtain ⟨hmem, hrow⟩ := List.mem_filter.mp hn
  have hnone : n.tiePrev = none := by
    unfold isRow at hrow
    cases h : n.tiePrev with
    | none => rfl
    | some _ => rw [h] at hrow; cases hrow
  obtain ⟨d, e, hwalk⟩ := hw n hmem hnone
  have h1 := (durOf_walk ns n.key d e hwalk).1
  have h2 := (durOf_walk ns' n.key d e (hkeep _ _ _ hwalk)).1
  simp only [rowWith, fields, h1, h2]

/-- **stage 1 of `tie_notes` leaves the note array of the model as it was** — the list `sounding`, row by row in
    iteration order: onset, tied duration, pitch, voice, id -/
theorem sounding_tieStage1 (qd : List (Int × Nat)) (ms : List Nat) (ns : List Note) (hkeys : KeysOK ns)
    (hlinks : LinksOK ns) (hw : Walkable ns) : sounding (tieStage1 qd ms ns) = sounding ns := by
  obtain ⟨hrows, hk', _⟩ := tieStage1_rows qd ms ns hkeys hlinks
  exact sounding_congr ns _ hkeys hk' hrows hw (tieStage1_sound qd ms ns).1

/-- walks are kept as a property of the list: what could be walked before can be walked afterwards -/
theorem walkable_tieStage1 (qd : List (Int × Nat)) (ms : List Nat) (ns : List Note) (hkeys : KeysOK ns)
    (hlinks : LinksOK ns) (hw : Walkable ns) : Walkable (tieStage1 qd ms ns) := by
  obtain ⟨hrows, hk', _⟩ := tieStage1_rows qd ms ns hkeys hlinks
  intro n' hn' hnone
  have hrow : fields n' ∈ rowsOf (tieStage1 qd ms ns) := by
    unfold rowsOf
    exact List.mem_map.mpr ⟨n', List.mem_filter.mpr ⟨hn', by unfold isRow; rw [hnone]; rfl⟩, rfl⟩
  rw [hrows] at hrow
  unfold rowsOf at hrow
  obtain ⟨n, hn, hf⟩ := List.mem_map.mp hrow
  obtain ⟨hmem, hr⟩ := List.mem_filter.mp hn
  have hnone' : n.tiePrev = none := by
    unfold isRow at hr
    cases h : n.tiePrev with
    | none => rfl
    | some _ => rw [h] at hr; cases hr
  obtain ⟨d, e, hwalk⟩ := hw n hmem hnone'
  have hkey : n.key = n'.key := by
    have := congrArg (·.1) hf
    simpa [fields] using this
  rw [← hkey]
  exact ⟨d, e, (tieStage1_sound qd ms ns).1 _ _ _ hwalk⟩

end C11Sound
