/-
C04 (round 5) — lemmas about `Model.ScoreEdit`: what `Part.set_quarter_duration` does to the table the exporter
reads, that the edits keep the table well formed, and that reads leave the score object as it is.
-/
import PartituraModel.Model.ScoreEdit
import PartituraModel.Proofs.C04Ticks

namespace C04Ed
open Model Model.Ticks Model.MidiModes Model.ScoreMidi Model.ScoreEdit

-- ------------------------------------------------------------------ the table after set_quarter_duration

/-- change times strictly ascend from `t0` (what `searchsorted` + "insert unless stored" maintains) -/
def SAsc : Nat → List (Nat × Nat) → Prop
  | _, [] => True
  | t0, (t1, _) :: rest => t0 < t1 ∧ SAsc t1 rest

theorem SAsc.gt {t0 : Nat} {l : List (Nat × Nat)} (h : SAsc t0 l) : ∀ e ∈ l, t0 < e.1 := by
  induction l generalizing t0 with
  | nil => intro e he; cases he
  | cons a rest ih =>
    obtain ⟨t1, q1⟩ := a
    intro e he
    rcases List.mem_cons.mp he with rfl | he
    · exact h.1
    · exact Nat.lt_trans h.1 (ih h.2 e he)

theorem SAsc.asc {t0 : Nat} {l : List (Nat × Nat)} (h : SAsc t0 l) : C04T.Asc t0 (qRates l) := by
  induction l generalizing t0 with
  | nil => trivial
  | cons a rest ih =>
    obtain ⟨t1, q1⟩ := a
    exact ⟨Nat.le_of_lt h.1, ih h.2⟩

/-- the table as the exporter sees it after the call: the entry at time 0 is replaced, any other time goes
    through the walk with the value in force before -/
theorem setQuarterDuration_eq (b : TimeBase) (t q : Nat) :
    setQuarterDuration b t q =
      if t = 0 then { b with d0 := q } else { b with qd := setQdGo (some b.d0) b.qd t q } := by
  unfold setQuarterDuration qdTable
  by_cases ht : t = 0
  · subst ht
    simp [setQdGo]
  · have : 0 < t := Nat.pos_of_ne_zero ht
    simp [setQdGo, this, ht]

theorem setQdGo_mem (prev : Option Nat) (l : List (Nat × Nat)) (t q : Nat) :
    ∀ e ∈ setQdGo prev l t q, e ∈ l ∨ e = (t, q) := by
  induction l generalizing prev with
  | nil =>
    intro e he
    unfold setQdGo at he
    split at he
    · cases he
    · right; simpa using he
  | cons a rest ih =>
    obtain ⟨t1, q1⟩ := a
    intro e he
    unfold setQdGo at he
    split at he
    · rcases List.mem_cons.mp he with rfl | he
      · left; exact List.mem_cons_self
      · rcases ih _ e he with h | h
        · left; exact List.mem_cons_of_mem _ h
        · right; exact h
    · split at he
      · rename_i h1
        rcases List.mem_cons.mp he with rfl | he
        · right; rw [h1]
        · left; exact List.mem_cons_of_mem _ he
      · split at he
        · left; exact he
        · rcases List.mem_cons.mp he with rfl | he
          · right; rfl
          · left; exact he

theorem setQdGo_sasc (prev : Option Nat) (l : List (Nat × Nat)) (t0 t q : Nat) (h : SAsc t0 l) (ht : t0 < t) :
    SAsc t0 (setQdGo prev l t q) := by
  induction l generalizing prev t0 with
  | nil =>
    unfold setQdGo
    split
    · trivial
    · exact ⟨ht, trivial⟩
  | cons a rest ih =>
    obtain ⟨t1, q1⟩ := a
    unfold setQdGo
    split
    · rename_i h1
      exact ⟨h.1, ih _ _ h.2 h1⟩
    · split
      · exact ⟨h.1, h.2⟩
      · split
        · exact h
        · rename_i h1 h2 _
          exact ⟨ht, by omega, h.2⟩

/-- the value is among the quarter durations afterwards (stored at `t`, or already in force there) -/
theorem setQdGo_has (d : Nat) (l : List (Nat × Nat)) (t q : Nat) :
    q = d ∨ q ∈ (setQdGo (some d) l t q).map (·.2) := by
  induction l generalizing d with
  | nil =>
    unfold setQdGo
    by_cases h : d = q
    · left; exact h.symm
    · right; simp [h]
  | cons a rest ih =>
    obtain ⟨t1, q1⟩ := a
    unfold setQdGo
    split
    · right
      rcases ih q1 with h | h
      · simp [h]
      · simp only [List.map_cons, List.mem_cons]; right; exact h
    · split
      · right; simp
      · by_cases h : d = q
        · left; exact h.symm
        · right; simp [h]

-- ------------------------------------------------------------------ the value in force

/-- `divAt` on a bare table -/
def valAt (d : Nat) (l : List (Nat × Nat)) (t : Nat) : Nat := l.foldl (fun cur e => if e.1 ≤ t then e.2 else cur) d

theorem divAt_eq (b : TimeBase) (t : Nat) : divAt b t = valAt b.d0 b.qd t := rfl

theorem valAt_later (d : Nat) (l : List (Nat × Nat)) (t : Nat) (h : ∀ e ∈ l, t < e.1) : valAt d l t = d := by
  induction l generalizing d with
  | nil => rfl
  | cons a rest ih =>
    have ha : ¬ a.1 ≤ t := by have := h a List.mem_cons_self; omega
    simp only [valAt, List.foldl_cons, ha, if_false]
    exact ih d (fun e he => h e (List.mem_cons_of_mem _ he))

theorem valAt_cons (d : Nat) (a : Nat × Nat) (rest : List (Nat × Nat)) (t : Nat) :
    valAt d (a :: rest) t = valAt (if a.1 ≤ t then a.2 else d) rest t := rfl

/-- the call takes effect at `t` -/
theorem setQdGo_at (d : Nat) (l : List (Nat × Nat)) (t0 t q : Nat) (h : SAsc t0 l) :
    valAt d (setQdGo (some d) l t q) t = q := by
  induction l generalizing d t0 with
  | nil =>
    unfold setQdGo
    by_cases hd : d = q
    · simp [hd, valAt]
    · simp [hd, valAt]
  | cons a rest ih =>
    obtain ⟨t1, q1⟩ := a
    unfold setQdGo
    split
    · rename_i h1
      rw [valAt_cons]
      simp only [Nat.le_of_lt h1, if_true]
      exact ih q1 t1 h.2
    · split
      · rename_i h1
        rw [valAt_cons]
        simp only [h1, Nat.le_refl, if_true]
        apply valAt_later
        intro e he
        have := h.2.gt e he
        omega
      · rename_i h1 h2
        by_cases hd : d = q
        · simp only [hd, if_true]
          apply valAt_later
          intro e he
          rcases List.mem_cons.mp he with rfl | he
          · simp only; omega
          · have := h.2.gt e he
            omega
        · have hd' : ¬ (some d = some q) := by simpa using hd
          simp only [hd', if_false]
          rw [valAt_cons]
          simp only [Nat.le_refl, if_true]
          apply valAt_later
          intro e he
          rcases List.mem_cons.mp he with rfl | he
          · simp only; omega
          · have := h.2.gt e he
            omega

/-- and leaves every earlier position as it was -/
theorem setQdGo_before (prev : Option Nat) (d : Nat) (l : List (Nat × Nat)) (t q t' : Nat) (ht : t' < t) :
    valAt d (setQdGo prev l t q) t' = valAt d l t' := by
  induction l generalizing prev d with
  | nil =>
    unfold setQdGo
    split
    · rfl
    · have : ¬ t ≤ t' := by omega
      simp [valAt, this]
  | cons a rest ih =>
    obtain ⟨t1, q1⟩ := a
    unfold setQdGo
    split
    · rw [valAt_cons, valAt_cons]
      exact ih _ _
    · split
      · rename_i h1
        have : ¬ t ≤ t' := by omega
        rw [valAt_cons, valAt_cons]
        simp [h1, this]
      · split
        · rfl
        · have : ¬ t ≤ t' := by omega
          rw [valAt_cons]
          simp [this]

-- ------------------------------------------------------------------ the quarter map on the changed stretch

theorem integ_before_first (tb : List (Nat × Rat)) (t0 : Nat) (r : Rat) (y : Nat) (h : ∀ e ∈ tb, y ≤ e.1) :
    integ tb t0 r y = r * (((y : Int) : Rat) - ((t0 : Int) : Rat)) := by
  cases tb with
  | nil => rfl
  | cons a rest =>
    obtain ⟨t1, r1⟩ := a
    have : y ≤ t1 := h (t1, r1) List.mem_cons_self
    simp [integ, this]

theorem qRates_mem_ge (l : List (Nat × Nat)) (y : Nat) (h : ∀ e ∈ l, y ≤ e.1) : ∀ e ∈ qRates l, y ≤ e.1 := by
  intro e he
  simp only [qRates, List.mem_map] at he
  obtain ⟨z, hz, rfl⟩ := he
  exact h z hz

/-- between `t` and the next stored change the quarter map advances by `1 / q` per division -/
theorem setQdGo_rate (d : Nat) (l : List (Nat × Nat)) (t0 t q x y : Nat) (r0 : Rat) (hr : r0 = 1 / (d : Rat))
    (h : SAsc t0 l) (hnext : ∀ e ∈ l, t < e.1 → y ≤ e.1) (htx : t ≤ x) (hxy : x ≤ y) :
    integ (qRates (setQdGo (some d) l t q)) t0 r0 y - integ (qRates (setQdGo (some d) l t q)) t0 r0 x
      = (1 / (q : Rat)) * (((y : Int) : Rat) - ((x : Int) : Rat)) := by
  induction l generalizing d t0 r0 with
  | nil =>
    unfold setQdGo
    by_cases hd : d = q
    · simp only [hd, if_true, qRates, List.map_nil, integ]
      rw [hr, hd]; ring
    · have hd' : ¬ (some d = some q) := by simpa using hd
      simp only [hd', if_false, qRates, List.map_cons, List.map_nil, integ]
      by_cases hy : y ≤ t
      · have hx : x ≤ t := by omega
        have : x = y := by omega
        subst this
        simp [hy]
      · by_cases hx : x ≤ t
        · have : x = t := by omega
          subst this
          simp only [hy, hx, if_false, if_true]
          ring
        · simp only [hy, hx, if_false]
          ring
  | cons a rest ih =>
    obtain ⟨t1, q1⟩ := a
    unfold setQdGo
    split
    · rename_i h1
      have hy : ¬ y ≤ t1 := by omega
      have hx : ¬ x ≤ t1 := by omega
      simp only [qRates, List.map_cons, integ, hy, hx, if_false]
      have := ih q1 t1 (1 / (q1 : Rat)) rfl h.2 (fun e he => hnext e (List.mem_cons_of_mem _ he))
      simp only [qRates] at this
      linarith
    · have tail_ge : ∀ e ∈ rest, y ≤ e.1 := by
        intro e he
        have h3 := h.2.gt e he
        exact hnext e (List.mem_cons_of_mem _ he) (by omega)
      split
      · rename_i h1 h2
        subst h2
        simp only [qRates, List.map_cons, integ]
        have hi : ∀ z, integ (List.map (fun e : Nat × Nat => (e.1, 1 / (e.2 : Rat))) rest) t1 (1 / (q : Rat)) z
            = integ (qRates rest) t1 (1 / (q : Rat)) z := fun z => rfl
        by_cases hy : y ≤ t1
        · have : x = y := by omega
          subst this
          simp [hy]
        · by_cases hx : x ≤ t1
          · have : x = t1 := by omega
            subst this
            simp only [hy, hx, if_false, if_true, hi]
            rw [integ_before_first _ _ _ _ (qRates_mem_ge _ _ tail_ge)]
            ring
          · simp only [hy, hx, if_false, hi]
            rw [integ_before_first _ _ _ _ (qRates_mem_ge _ _ tail_ge),
                integ_before_first _ _ _ _ (qRates_mem_ge _ _ (fun e he => Nat.le_trans hxy (tail_ge e he)))]
            ring
      · rename_i h1 h2
        have all_ge : ∀ e ∈ (t1, q1) :: rest, y ≤ e.1 := by
          intro e he
          rcases List.mem_cons.mp he with rfl | he
          · exact hnext _ List.mem_cons_self (by simp only; omega)
          · exact tail_ge e he
        by_cases hd : d = q
        · simp only [hd, if_true]
          rw [integ_before_first _ _ _ _ (qRates_mem_ge _ _ all_ge),
              integ_before_first _ _ _ _ (qRates_mem_ge _ _ (fun e he => Nat.le_trans hxy (all_ge e he)))]
          rw [hr, hd]; ring
        · have hd' : ¬ (some d = some q) := by simpa using hd
          simp only [hd', if_false]
          have hi : ∀ z, integ (qRates ((t, q) :: (t1, q1) :: rest)) t0 r0 z =
              if z ≤ t then r0 * (((z : Int) : Rat) - ((t0 : Int) : Rat))
              else r0 * (((t : Int) : Rat) - ((t0 : Int) : Rat)) + integ (qRates ((t1, q1) :: rest)) t (1 / (q : Rat)) z := fun z => rfl
          rw [hi, hi]
          by_cases hy : y ≤ t
          · have : x = y := by omega
            subst this
            simp [hy]
          · by_cases hx : x ≤ t
            · have : x = t := by omega
              subst this
              simp only [hy, hx, if_false, if_true]
              rw [integ_before_first _ _ _ _ (qRates_mem_ge _ _ all_ge)]
              ring
            · simp only [hy, hx, if_false]
              rw [integ_before_first _ _ _ _ (qRates_mem_ge _ _ all_ge),
                  integ_before_first _ _ _ _ (qRates_mem_ge _ _ (fun e he => Nat.le_trans hxy (all_ge e he)))]
              ring

-- ------------------------------------------------------------------ well-formedness is kept

/-- the table of a part as `set_quarter_duration` maintains it: positive values, strictly ascending times after 0 -/
def Table (b : TimeBase) : Prop := 0 < b.d0 ∧ (∀ e ∈ b.qd, 0 < e.2) ∧ SAsc 0 b.qd

theorem Table.wf {b : TimeBase} (h : Table b) : C04T.WellFormed b := ⟨h.1, h.2.1, h.2.2.asc⟩

theorem setQuarterDuration_table (b : TimeBase) (t q : Nat) (h : Table b) (hq : 0 < q) :
    Table (setQuarterDuration b t q) := by
  rw [setQuarterDuration_eq]
  by_cases ht : t = 0
  · simp only [ht, if_true]
    exact ⟨hq, h.2.1, h.2.2⟩
  · simp only [ht, if_false]
    refine ⟨h.1, ?_, setQdGo_sasc _ _ _ _ _ h.2.2 (Nat.pos_of_ne_zero ht)⟩
    intro e he
    rcases setQdGo_mem _ _ _ _ e he with h1 | h1
    · exact h.2.1 e h1
    · rw [h1]; exact hq

/-- an edit is admissible when a quarter duration it sets is positive -/
def EditOk : Edit → Prop
  | .setQd _ _ q => 0 < q
  | _ => True

theorem editPart_table (x : PartIn) (e : Edit) (h : Table x.base) (he : EditOk e) : Table (editPart x e).base := by
  cases e with
  | setQd i t q => exact setQuarterDuration_table _ _ _ h he
  | addNote i r => exact h
  | removeNote i k => exact h
  | setTS i t beats bt => exact h

theorem applyEdit_table (ps : List PartIn) (e : Edit) (h : ∀ x ∈ ps, Table x.base) (he : EditOk e) :
    ∀ x ∈ applyEdit ps e, Table x.base := by
  intro x hx
  unfold applyEdit at hx
  obtain ⟨xi, hxi, rfl⟩ := List.mem_map.mp hx
  have hmem : xi.1 ∈ ps := by
    obtain ⟨a, i⟩ := xi
    exact (List.mem_zipIdx hxi).2.2 ▸ List.getElem_mem _
  split
  · exact editPart_table _ _ (h _ hmem) he
  · exact h _ hmem

theorem applyEdits_table (ps : List PartIn) (es : List Edit) (h : ∀ x ∈ ps, Table x.base) (he : ∀ e ∈ es, EditOk e) :
    ∀ x ∈ es.foldl applyEdit ps, Table x.base := by
  induction es generalizing ps with
  | nil => exact h
  | cons e rest ih =>
    simp only [List.foldl_cons]
    exact ih _ (applyEdit_table ps e h (he e List.mem_cons_self)) (fun e' he' => he e' (List.mem_cons_of_mem _ he'))

theorem applyEdit_length (ps : List PartIn) (e : Edit) : (applyEdit ps e).length = ps.length := by
  simp [applyEdit]

theorem applyEdit_get (ps : List PartIn) (e : Edit) (i : Nat) (x : PartIn) (hx : ps[i]? = some x) :
    (applyEdit ps e)[i]? = some (if i = e.part then editPart x e else x) := by
  unfold applyEdit
  rw [List.getElem?_map, List.getElem?_zipIdx, hx]
  simp

-- ------------------------------------------------------------------ histories

theorem run_state (ps : List PartIn) (ops : List Op) : (run ps ops).1 = (editsOf ops).foldl applyEdit ps := by
  induction ops generalizing ps with
  | nil => rfl
  | cons op rest ih =>
    cases op with
    | edit e => simp only [run, step, editsOf, List.foldl_cons]; exact ih _
    | save c => simp only [run, step, editsOf]; exact ih _
    | view => simp only [run, step, editsOf]; exact ih _

theorem run_out (ps : List PartIn) (ops : List Op) (i : Nat) (op : Op) (hop : ops[i]? = some op) :
    (run ps ops).2[i]? = some (step ((editsOf (ops.take i)).foldl applyEdit ps) op).2 := by
  induction ops generalizing ps i with
  | nil => simp at hop
  | cons o rest ih =>
    cases i with
    | zero =>
      simp only [List.getElem?_cons_zero, Option.some.injEq] at hop
      subst hop
      simp [run, editsOf]
    | succ j =>
      simp only [List.getElem?_cons_succ] at hop
      simp only [run, List.getElem?_cons_succ, List.take_succ_cons]
      rw [ih _ j hop]
      cases o with
      | edit e => simp [step, editsOf]
      | save c => simp [step, editsOf]
      | view => simp [step, editsOf]

end C04Ed
