/-
Helper lemmas for C17 (key estimation): the exact argmax is invariant under octave shifts and
positive scaling of the durations and rotates with transposition.
-/
import PartituraModel.Model.KeyEst
import Mathlib.Algebra.Order.Field.Rat
import Mathlib.Tactic.Ring
import Mathlib.Tactic.Linarith
import Mathlib.Tactic.IntervalCases
import Mathlib.Tactic.NormNum

namespace C17K
open Model Model.KeyEst

theorem sum12_eq (f : Nat → Rat) :
    sum12 f = f 0 + (f 1 + (f 2 + (f 3 + (f 4 + (f 5 + (f 6 + (f 7 + (f 8 + (f 9 + (f 10 + (f 11 + 0))))))))))) := by
  rfl

theorem sum12_congr (f g : Nat → Rat) (h : ∀ j, j < 12 → f j = g j) : sum12 f = sum12 g := by
  rw [sum12_eq, sum12_eq]
  rw [h 0 (by omega), h 1 (by omega), h 2 (by omega), h 3 (by omega), h 4 (by omega), h 5 (by omega),
    h 6 (by omega), h 7 (by omega), h 8 (by omega), h 9 (by omega), h 10 (by omega), h 11 (by omega)]

theorem sum12_mul (k : Rat) (f : Nat → Rat) : sum12 (fun j => k * f j) = k * sum12 f := by
  rw [sum12_eq, sum12_eq]; ring

/-- rotation of a 12-vector to the right by `t` places -/
def rotL (t : Nat) (f : Nat → Rat) : Nat → Rat := fun j => f ((j + 12 - t) % 12)

theorem sum12_rot2 (F G : Nat → Rat) (t : Nat) (ht : t < 12) :
    sum12 (fun j => F ((j + 12 - t) % 12) * G j) = sum12 (fun k => F k * G ((k + t) % 12)) := by
  rw [sum12_eq, sum12_eq]
  interval_cases t <;> norm_num <;> ring


theorem sum12_rot1 (F : Nat → Rat) (t : Nat) (ht : t < 12) : sum12 (rotL t F) = sum12 F := by
  have := sum12_rot2 F (fun _ => 1) t ht
  simp only [mul_one] at this
  exact this

-- ------------------------------------------------------------------ histogram

theorem hist_cons (n : KNote) (rest : List KNote) (pc : Nat) :
    hist (n :: rest) pc = (if n.1 % 12 = (pc : Int) then n.2 else 0) + hist rest pc := by
  simp only [hist, List.filter_cons]
  split <;> simp_all

/-- octave shifts do not change the histogram -/
theorem hist_octave : ∀ (notes : List KNote) (shifts : List Int) (pc : Nat),
    hist (List.zipWith (fun n k => (n.1 + 12 * k, n.2)) notes shifts) pc =
    hist (notes.take shifts.length) pc := by
  intro notes
  induction notes with
  | nil => intro shifts pc; simp
  | cons n rest ih =>
    intro shifts pc
    cases shifts with
    | nil => simp
    | cons k ks =>
      simp only [List.zipWith_cons_cons, List.length_cons, List.take_succ_cons, hist_cons, ih]
      have : (n.1 + 12 * k) % 12 = n.1 % 12 := by omega
      rw [this]

/-- scaling the durations scales the histogram -/
theorem hist_scale (k : Rat) : ∀ (notes : List KNote) (pc : Nat),
    hist (notes.map fun n => (n.1, n.2 * k)) pc = k * hist notes pc := by
  intro notes
  induction notes with
  | nil => intro pc; simp [hist]
  | cons n rest ih =>
    intro pc
    simp only [List.map_cons, hist_cons, ih]
    split <;> ring

/-- transposition rotates the histogram (on the twelve pitch classes) -/
theorem hist_transpose (s : Int) : ∀ (notes : List KNote) (pc : Nat), pc < 12 →
    hist (notes.map fun n => (n.1 + s, n.2)) pc = rotL (s % 12).toNat (hist notes) pc := by
  intro notes
  induction notes with
  | nil => intro pc _; simp [hist, rotL]
  | cons n rest ih =>
    intro pc hpc
    simp only [List.map_cons, hist_cons, ih pc hpc, rotL]
    have : ((n.1 + s) % 12 = (pc : Int)) ↔ (n.1 % 12 = (((pc + 12 - (s % 12).toNat) % 12 : Nat) : Int)) := by
      omega
    by_cases h : (n.1 + s) % 12 = (pc : Int)
    · rw [if_pos h, if_pos (this.mp h)]
    · rw [if_neg h, if_neg (fun e => h (this.mpr e))]

end C17K

namespace C17K
open Model Model.KeyEst

-- ------------------------------------------------------------------ argBest

theorem argBestAux_map {α β : Type} (f : α → β) (b : α → α → Bool) (b' : β → β → Bool)
    (hb : ∀ x y, b' (f x) (f y) = b x y) :
    ∀ (l : List α) (i bi : Nat) (bv : α),
      argBestAux b' (l.map f) i bi (f bv) = argBestAux b l i bi bv := by
  intro l
  induction l with
  | nil => intro i bi bv; rfl
  | cons x xs ih =>
    intro i bi bv
    simp only [List.map_cons, argBestAux, hb]
    split
    · exact ih _ _ _
    · exact ih _ _ _

/-- an element that strictly beats every other one is the one `argBest` returns -/
theorem argBestAux_unique {α : Type} (b : α → α → Bool) (hasym : ∀ x y, b x y = true → b y x = false)
    (L : List α) (r : Nat) (hr : r < L.length)
    (hbest : ∀ i (hi : i < L.length), i ≠ r → b L[r] L[i] = true) :
    ∀ (rest : List α) (i bi : Nat) (bv : α), L.drop i = rest → bi < i → L[bi]? = some bv →
      (bi = r ∨ i ≤ r) → argBestAux b rest i bi bv = r := by
  intro rest
  induction rest with
  | nil =>
    intro i bi bv hd hbi _ hor
    simp only [argBestAux]
    have : L.length ≤ i := by
      have := congrArg List.length hd; simp at this; omega
    omega
  | cons x rest' ih =>
    intro i bi bv hd hbi hbv hor
    have hi : i < L.length := by
      by_contra hc
      rw [List.drop_eq_nil_of_le (by omega)] at hd
      cases hd
    have hx : L[i] = x := by
      rw [List.drop_eq_getElem_cons hi] at hd; exact (List.cons.inj hd).1
    have hd' : L.drop (i + 1) = rest' := by
      rw [List.drop_eq_getElem_cons hi] at hd; exact (List.cons.inj hd).2
    have hbil : bi < L.length := by omega
    have hbv' : L[bi] = bv := by
      rw [List.getElem?_eq_getElem hbil] at hbv; exact Option.some.inj hbv
    simp only [argBestAux]
    split
    · rename_i hb
      apply ih (i + 1) i x hd' (by omega) (by rw [List.getElem?_eq_getElem hi, hx])
      by_cases hir : i = r
      · exact Or.inl hir
      · right
        rcases hor with h | h
        · subst h
          have h1 := hbest i hi hir
          rw [hx, hbv'] at h1
          rw [hasym _ _ h1] at hb
          cases hb
        · omega
    · rename_i hb
      apply ih (i + 1) bi bv hd' (by omega) hbv
      rcases hor with h | h
      · exact Or.inl h
      · right
        by_cases hir : i = r
        · subst hir
          have h1 := hbest bi hbil (by omega)
          rw [hx, hbv'] at h1
          exact absurd h1 hb
        · omega

theorem argBestNE_unique {α : Type} (b : α → α → Bool) (hasym : ∀ x y, b x y = true → b y x = false)
    (x : α) (xs : List α) (r : Nat) (hr : r < (x :: xs).length)
    (hbest : ∀ i (hi : i < (x :: xs).length), i ≠ r → b (x :: xs)[r] (x :: xs)[i] = true) :
    argBestNE b x xs = r := by
  unfold argBestNE
  apply argBestAux_unique b hasym (x :: xs) r hr hbest xs 1 0 x (by simp) (by omega) (by simp)
  omega

theorem better_asymm (x y : Rat × Rat) : better x y = true → better y x = false := by
  simp only [better, decide_eq_true_eq, decide_eq_false_iff_not, not_lt]
  intro h; exact le_of_lt h

-- ------------------------------------------------------------------ scaling

theorem mean12_scale (k : Rat) (h : Nat → Rat) : mean12 (fun j => k * h j) = k * mean12 h := by
  simp only [mean12, sum12_mul]; ring

theorem cov12_scale_left (k : Rat) (h g : Nat → Rat) :
    cov12 (fun j => k * h j) g = k * cov12 h g := by
  simp only [cov12, mean12_scale]
  rw [← sum12_mul]
  apply sum12_congr
  intro j _; ring

theorem cov12_scale_both (k : Rat) (h : Nat → Rat) :
    cov12 (fun j => k * h j) (fun j => k * h j) = k * k * cov12 h h := by
  simp only [cov12, mean12_scale]
  rw [← sum12_mul]
  apply sum12_congr
  intro j _; ring

theorem sgnSq_scale (k c : Rat) (hk : 0 < k) : sgnSq (k * c) = k * k * sgnSq c := by
  simp only [sgnSq]
  have : k * c < 0 ↔ c < 0 := by
    constructor
    · intro h; by_contra hc; rw [not_lt] at hc; nlinarith [mul_nonneg (le_of_lt hk) hc]
    · intro h; exact mul_neg_of_pos_of_neg hk h
  by_cases hc : c < 0
  · rw [if_pos hc, if_pos (this.mpr hc)]; ring
  · rw [if_neg hc, if_neg (fun e => hc (this.mp e))]; ring

theorem keyIndexOfHist_scale (ps : ProfileSet) (h : Nat → Rat) (k : Rat) (hk : 0 < k) :
    keyIndexOfHist ps (fun j => k * h j) = keyIndexOfHist ps h := by
  have hkk : 0 < k * k := mul_pos hk hk
  unfold keyIndexOfHist
  rw [cov12_scale_both]
  have hz : k * k * cov12 h h = 0 ↔ cov12 h h = 0 := by
    constructor
    · intro e; rcases mul_eq_zero.mp e with e | e
      · exact absurd e (ne_of_gt hkk)
      · exact e
    · intro e; rw [e]; ring
  by_cases h0 : cov12 h h = 0
  · rw [if_pos h0, if_pos (hz.mpr h0)]
  · rw [if_neg h0, if_neg (fun e => h0 (hz.mp e))]
    have hscore : ∀ i, keyScore ps (fun j => k * h j) i =
        (fun a : Rat × Rat => (k * k * a.1, a.2)) (keyScore ps h i) := by
      intro i
      simp only [keyScore, cov12_scale_left, sgnSq_scale _ _ hk]
    have hb : ∀ x y : Rat × Rat,
        better ((fun a : Rat × Rat => (k * k * a.1, a.2)) x) ((fun a : Rat × Rat => (k * k * a.1, a.2)) y) = better x y := by
      intro x y
      simp only [better]
      congr 1
      apply propext
      constructor
      · intro hh; nlinarith
      · intro hh; nlinarith
    unfold argBestNE
    rw [hscore 0]
    have : (List.range' 1 23).map (keyScore ps fun j => k * h j) =
        ((List.range' 1 23).map (keyScore ps h)).map (fun a : Rat × Rat => (k * k * a.1, a.2)) := by
      rw [List.map_map]; apply List.map_congr_left; intro i _; exact hscore i
    rw [this]
    exact argBestAux_map _ better better hb _ _ _ _

end C17K

namespace C17K
open Model Model.KeyEst

-- ------------------------------------------------------------------ transposition

/-- `keyIndexOfHist` reads its histogram only at the twelve pitch classes -/
theorem mean12_congr (f g : Nat → Rat) (h : ∀ j, j < 12 → f j = g j) : mean12 f = mean12 g := by
  simp only [mean12, sum12_congr f g h]

theorem cov12_congr_left (f g p : Nat → Rat) (h : ∀ j, j < 12 → f j = g j) : cov12 f p = cov12 g p := by
  simp only [cov12, mean12_congr f g h]
  apply sum12_congr
  intro j hj; rw [h j hj]

theorem cov12_congr_both (f g : Nat → Rat) (h : ∀ j, j < 12 → f j = g j) : cov12 f f = cov12 g g := by
  simp only [cov12, mean12_congr f g h]
  apply sum12_congr
  intro j hj; rw [h j hj]

theorem cov12_congr_right (f p q : Nat → Rat) (h : ∀ j, j < 12 → p j = q j) : cov12 f p = cov12 f q := by
  simp only [cov12, mean12_congr p q h]
  apply sum12_congr
  intro j hj; rw [h j hj]

theorem rotL_zero (g : Nat → Rat) (j : Nat) (hj : j < 12) : rotL 0 g j = g j := by
  simp only [rotL]
  have : (j + 12 - 0) % 12 = j := by omega
  rw [this]

theorem baseProfile_mod (ps : ProfileSet) (b : Bool) (k : Nat) : baseProfile ps b (k % 12) = baseProfile ps b k := by
  simp only [baseProfile, Nat.mod_mod]

/-- a key profile is the mode's base profile rotated to the tonic -/
theorem keyProfile_eq (ps : ProfileSet) (i : Nat) :
    keyProfile ps i = rotL (i % 12) (baseProfile ps (decide (12 ≤ i))) := by
  funext j
  simp only [keyProfile, rotL, baseProfile_mod]

/-- the key whose tonic is `t` semitones below that of key `i`, same mode -/
def tau (t i : Nat) : Nat := (i / 12) * 12 + (i % 12 + 12 - t) % 12

theorem mean12_rot (t : Nat) (ht : t < 12) (f : Nat → Rat) : mean12 (rotL t f) = mean12 f := by
  simp only [mean12, sum12_rot1 f t ht]

theorem cov12_rot (t a : Nat) (ht : t < 12) (ha : a < 12) (h B : Nat → Rat) :
    cov12 (rotL t h) (rotL a B) = cov12 h (rotL ((a + 12 - t) % 12) B) := by
  have ha' : (a + 12 - t) % 12 < 12 := Nat.mod_lt _ (by omega)
  simp only [cov12, mean12_rot t ht, mean12_rot a ha, mean12_rot _ ha']
  have := sum12_rot2 (fun k => h k - mean12 h) (fun j => rotL a B j - mean12 B) t ht
  simp only [rotL] at this ⊢
  rw [this]
  apply sum12_congr
  intro k _
  have e : ((k + t) % 12 + 12 - a) % 12 = (k + 12 - (a + 12 - t) % 12) % 12 := by omega
  rw [e]

theorem keyScore_transpose (ps : ProfileSet) (h h' : Nat → Rat) (t : Nat) (ht : t < 12)
    (hh : ∀ j, j < 12 → h' j = rotL t h j) (i : Nat) :
    keyScore ps h' i = keyScore ps h (tau t i) := by
  have hmode : decide (12 ≤ tau t i) = decide (12 ≤ i) := by
    simp only [tau]; congr 1; apply propext; omega
  have htm : tau t i % 12 = (i % 12 + 12 - t) % 12 := by simp only [tau]; omega
  simp only [keyScore]
  rw [cov12_congr_left h' (rotL t h) _ hh, keyProfile_eq ps i, keyProfile_eq ps (tau t i), hmode, htm,
    cov12_rot t (i % 12) ht (Nat.mod_lt _ (by omega))]
  congr 1
  -- the variance of a profile does not depend on the rotation
  have hv : ∀ a, a < 12 → cov12 (rotL a (baseProfile ps (decide (12 ≤ i)))) (rotL a (baseProfile ps (decide (12 ≤ i)))) =
      cov12 (baseProfile ps (decide (12 ≤ i))) (baseProfile ps (decide (12 ≤ i))) := by
    intro a ha
    rw [cov12_rot a a ha ha]
    have : (a + 12 - a) % 12 = 0 := by omega
    rw [this]
    exact cov12_congr_right _ _ _ (rotL_zero _)
  rw [hv _ (Nat.mod_lt _ (by omega)), hv _ (Nat.mod_lt _ (by omega))]

/-- key `m` has the strictly greatest correlation (and the correlations are defined) -/
def UniqueMaxH (ps : ProfileSet) (h : Nat → Rat) (m : Nat) : Prop :=
  cov12 h h ≠ 0 ∧ m < 24 ∧ ∀ i, i < 24 → i ≠ m → better (keyScore ps h m) (keyScore ps h i) = true

theorem keyIndexOfHist_unique (ps : ProfileSet) (h : Nat → Rat) (m : Nat) (hu : UniqueMaxH ps h m) :
    keyIndexOfHist ps h = m := by
  obtain ⟨h0, hm, hbest⟩ := hu
  unfold keyIndexOfHist
  rw [if_neg h0]
  have hL : (keyScore ps h 0 :: (List.range' 1 23).map (keyScore ps h)) = (List.range 24).map (keyScore ps h) := by
    rfl
  apply argBestNE_unique better better_asymm _ _ m (by simpa using hm)
  intro i hi hne
  simp only [hL, List.getElem_map, List.getElem_range]
  exact hbest i (by simpa using hi) hne

/-- the key `s` semitones above key `m`, same mode -/
def transposeKey (s : Int) (m : Nat) : Nat := (m / 12) * 12 + (m % 12 + (s % 12).toNat) % 12

theorem keyIndexOfHist_transpose (ps : ProfileSet) (h h' : Nat → Rat) (t : Nat) (ht : t < 12)
    (hh : ∀ j, j < 12 → h' j = rotL t h j) (m : Nat) (hu : UniqueMaxH ps h m) :
    keyIndexOfHist ps h' = (m / 12) * 12 + (m % 12 + t) % 12 := by
  obtain ⟨h0, hm, hbest⟩ := hu
  apply keyIndexOfHist_unique
  refine ⟨?_, by omega, ?_⟩
  · rw [cov12_congr_both h' (rotL t h) hh, cov12_rot t t ht ht]
    have : (t + 12 - t) % 12 = 0 := by omega
    rw [this]
    have e : cov12 h (rotL 0 h) = cov12 h h := cov12_congr_right _ _ _ (rotL_zero _)
    rw [e]; exact h0
  · intro i hi hne
    rw [keyScore_transpose ps h h' t ht hh, keyScore_transpose ps h h' t ht hh]
    have e1 : tau t ((m / 12) * 12 + (m % 12 + t) % 12) = m := by simp only [tau]; omega
    rw [e1]
    apply hbest
    · simp only [tau]; omega
    · simp only [tau]; omega

end C17K

namespace C17K
open Model Model.KeyEst

theorem argBestAux_lt {α : Type} (b : α → α → Bool) : ∀ (rest : List α) (i bi : Nat) (bv : α),
    bi < i → argBestAux b rest i bi bv < i + rest.length := by
  intro rest
  induction rest with
  | nil => intro i bi bv h; simpa [argBestAux] using h
  | cons x xs ih =>
    intro i bi bv h
    simp only [argBestAux, List.length_cons]
    split
    · have := ih (i + 1) i x (by omega); omega
    · have := ih (i + 1) bi bv (by omega); omega

/-- the argmax ranges over the 24 rows of the profile matrix -/
theorem keyIndexOfHist_lt (ps : ProfileSet) (h : Nat → Rat) : keyIndexOfHist ps h < 24 := by
  unfold keyIndexOfHist
  split
  · omega
  · have := argBestAux_lt better ((List.range' 1 23).map (keyScore ps h)) 1 0 (keyScore ps h 0) (by omega)
    simpa [argBestNE] using this

end C17K
