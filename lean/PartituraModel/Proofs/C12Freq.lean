/-
C12 — frequency ↔ pitch over ℝ for formulas of the SHAPE the source uses, with the constants as parameters:

  freq  = a4 / D · B ^ ((p − R) / O)            midi_pitch_to_frequency
  pitch = round (O · log₂ (M · f / a4) + R')     frequency_to_midi_pitch

under  B = 2,  M = D · 2^k,  k · O = R − R'   (what `C12.freq_consts` decides for the regenerated constants).
-/
import Mathlib.Analysis.SpecialFunctions.Log.Base

namespace C12Freq

theorem scaled (D M O R R' : ℝ) (k : ℕ) (hD : D ≠ 0) (hO : O ≠ 0) (hM : M = D * 2 ^ k) (hk : (k : ℝ) * O = R - R')
    (p a4 f : ℝ) (h : 0 < a4) :
    M * f / a4 = (f / (a4 / D * (2 : ℝ) ^ ((p - R) / O))) * (2 : ℝ) ^ ((p - R') / O) := by
  have h2 : (0 : ℝ) < 2 := by norm_num
  have hx : (0 : ℝ) < (2 : ℝ) ^ ((p - R) / O) := Real.rpow_pos_of_pos h2 _
  have e : (p - R') / O = (k : ℝ) + (p - R) / O := by
    field_simp
    linarith
  rw [e, Real.rpow_add h2, Real.rpow_natCast, hM]
  field_simp

/-- exact inversion -/
theorem inverse (D M O R R' : ℝ) (k : ℕ) (hD : D ≠ 0) (hO : O ≠ 0) (hM : M = D * 2 ^ k) (hk : (k : ℝ) * O = R - R')
    (p : ℤ) (a4 : ℝ) (h : 0 < a4) :
    round (O * Real.logb 2 (M * (a4 / D * (2 : ℝ) ^ (((p : ℝ) - R) / O)) / a4) + R') = p := by
  have h2 : (0 : ℝ) < 2 := by norm_num
  have hF : (0 : ℝ) < a4 / D * (2 : ℝ) ^ (((p : ℝ) - R) / O) ∨ a4 / D * (2 : ℝ) ^ (((p : ℝ) - R) / O) ≠ 0 := by
    right
    have := Real.rpow_pos_of_pos h2 (((p : ℝ) - R) / O)
    have ha : a4 ≠ 0 := ne_of_gt h
    positivity
  have hne : a4 / D * (2 : ℝ) ^ (((p : ℝ) - R) / O) ≠ 0 := by
    rcases hF with h' | h'
    · exact ne_of_gt h'
    · exact h'
  rw [scaled D M O R R' k hD hO hM hk (p : ℝ) a4 _ h, div_self hne, one_mul,
    Real.logb_rpow (by norm_num) (by norm_num)]
  have : O * (((p : ℝ) - R') / O) + R' = (p : ℝ) := by field_simp; ring
  rw [this, round_intCast]

theorem log_small (r : ℝ) (h1 : 99 / 100 ≤ r) (h2 : r ≤ 101 / 100) : |Real.logb 2 r| ≤ 1 / 40 := by
  have hr : 0 < r := by linarith
  have hb : (1 : ℝ) < 2 := by norm_num
  have hn : ((40 : ℕ) : ℝ)⁻¹ = (1 / 40 : ℝ) := by norm_num
  -- 101/100 ≤ 2^(1/40) and 100/99 ≤ 2^(1/40)
  have up : (101 / 100 : ℝ) ≤ (2 : ℝ) ^ (1 / 40 : ℝ) := by
    have e : (101 / 100 : ℝ) = ((101 / 100 : ℝ) ^ (40 : ℕ)) ^ (((40 : ℕ) : ℝ)⁻¹) :=
      (Real.pow_rpow_inv_natCast (by norm_num) (by norm_num)).symm
    rw [e, hn]
    exact Real.rpow_le_rpow (by positivity) (by norm_num) (by norm_num)
  have lo : (100 / 99 : ℝ) ≤ (2 : ℝ) ^ (1 / 40 : ℝ) := by
    have e : (100 / 99 : ℝ) = ((100 / 99 : ℝ) ^ (40 : ℕ)) ^ (((40 : ℕ) : ℝ)⁻¹) :=
      (Real.pow_rpow_inv_natCast (by norm_num) (by norm_num)).symm
    rw [e, hn]
    exact Real.rpow_le_rpow (by positivity) (by norm_num) (by norm_num)
  rw [abs_le]
  constructor
  · rw [Real.le_logb_iff_rpow_le hb hr]
    have hpos : (0 : ℝ) < (2 : ℝ) ^ (1 / 40 : ℝ) := Real.rpow_pos_of_pos (by norm_num) _
    have e : (2 : ℝ) ^ (-(1 / 40) : ℝ) = ((2 : ℝ) ^ (1 / 40 : ℝ))⁻¹ := Real.rpow_neg (by norm_num) _
    rw [e]
    calc ((2 : ℝ) ^ (1 / 40 : ℝ))⁻¹ ≤ (100 / 99 : ℝ)⁻¹ := inv_anti₀ (by norm_num) lo
      _ = 99 / 100 := by norm_num
      _ ≤ r := h1
  · rw [Real.logb_le_iff_le_rpow hb hr]
    exact le_trans h2 up

/-- inversion under perturbation: a frequency within 1 % of the exact one and a logarithm off by at most 0.01
    still round to the pitch (octave size 12: the margin is 12 · (1/40 + 1/100) = 0.42 < 1/2) -/
theorem stable (D M R R' : ℝ) (k : ℕ) (hD : D ≠ 0) (hM : M = D * 2 ^ k) (hk : (k : ℝ) * 12 = R - R')
    (p : ℤ) (a4 f d : ℝ) (h : 0 < a4) (hD0 : 0 < D)
    (hf1 : 99 / 100 * (a4 / D * (2 : ℝ) ^ (((p : ℝ) - R) / 12)) ≤ f)
    (hf2 : f ≤ 101 / 100 * (a4 / D * (2 : ℝ) ^ (((p : ℝ) - R) / 12)))
    (hd : |d| ≤ 1 / 100) :
    round (12 * (Real.logb 2 (M * f / a4) + d) + R') = p := by
  have h2 : (0 : ℝ) < 2 := by norm_num
  set F : ℝ := a4 / D * (2 : ℝ) ^ (((p : ℝ) - R) / 12) with hF
  have hFpos : 0 < F := by
    have := Real.rpow_pos_of_pos h2 (((p : ℝ) - R) / 12)
    positivity
  have hfpos : 0 < f := lt_of_lt_of_le (by positivity) hf1
  rw [scaled D M 12 R R' k hD (by norm_num) hM hk (p : ℝ) a4 f h]
  have hr1 : 99 / 100 ≤ f / F := by rw [le_div_iff₀ hFpos]; exact hf1
  have hr2 : f / F ≤ 101 / 100 := by rw [div_le_iff₀ hFpos]; exact hf2
  have hrpos : 0 < f / F := by positivity
  have hxpos : (0 : ℝ) < (2 : ℝ) ^ (((p : ℝ) - R') / 12) := Real.rpow_pos_of_pos h2 _
  rw [Real.logb_mul (ne_of_gt hrpos) (ne_of_gt hxpos), Real.logb_rpow (by norm_num) (by norm_num)]
  have hε := log_small (f / F) hr1 hr2
  set ε := Real.logb 2 (f / F)
  rw [abs_le] at hε hd
  have e : 12 * (ε + ((p : ℝ) - R') / 12 + d) + R' = (p : ℝ) + 12 * (ε + d) := by ring
  rw [e, round_eq, Int.floor_eq_iff]
  constructor <;> [linarith [hε.1, hd.1]; linarith [hε.2, hd.2]]

end C12Freq
