/-
C03 helper lemmas: range numbers (Model/RangeNumbers.lean): the number handed out is free, open ranges
of one label always carry distinct numbers, and pairing by number recovers the ranges.
-/
import PartituraModel.Model.RangeNumbers
import Mathlib.Data.List.Perm.Basic
import Mathlib.Data.List.Nodup

namespace C03.Ranges
open Model.Ranges

/-! ### the smallest free number -/

theorem freeFrom_spec : ∀ (fuel : Nat) (used : List Nat) (n : Nat), used.length ≤ fuel →
    freeFrom fuel used n ∉ used ∧ n ≤ freeFrom fuel used n ∧ ∀ m, n ≤ m → m < freeFrom fuel used n → m ∈ used := by
  intro fuel
  induction fuel with
  | zero =>
    intro used n h
    have : used = [] := List.length_eq_zero_iff.mp (Nat.le_zero.mp h)
    subst this
    exact ⟨by simp, Nat.le_refl _, fun m h1 h2 => by simp [freeFrom] at h2; omega⟩
  | succ fuel ih =>
    intro used n h
    unfold freeFrom
    by_cases hn : n ∈ used
    · rw [if_pos hn]
      have hlen : (used.erase n).length ≤ fuel := by
        rw [List.length_erase_of_mem hn]; omega
      obtain ⟨h1, h2, h3⟩ := ih (used.erase n) (n + 1) hlen
      refine ⟨?_, by omega, ?_⟩
      · intro hmem
        exact h1 ((List.mem_erase_of_ne (by omega)).mpr hmem)
      · intro m hm1 hm2
        by_cases hmn : m = n
        · subst hmn; exact hn
        · exact List.mem_of_mem_erase (h3 m (by omega) hm2)
    · rw [if_neg hn]
      exact ⟨hn, Nat.le_refl _, fun m h1 h2 => by omega⟩

/-- `smallestFree used` is not in use, is positive, and every smaller positive number is in use -/
theorem smallestFree_spec (used : List Nat) :
    smallestFree used ∉ used ∧ 1 ≤ smallestFree used ∧ ∀ m, 1 ≤ m → m < smallestFree used → m ∈ used :=
  freeFrom_spec used.length used 1 (Nat.le_refl _)

/-! ### open ranges carry distinct numbers -/

/-- the keys of the counter are distinct, and so are the (label, number) pairs -/
structure CInv (c : Counter) : Prop where
  keys : (c.map (·.1)).Nodup
  numbers : (c.map fun e => (e.1.1, e.2)).Nodup

theorem find_none {k : Key} {c : Counter} (h : find k c = none) : k ∉ c.map (·.1) := by
  induction c with
  | nil => simp
  | cons e rest ih =>
    obtain ⟨k', n⟩ := e
    unfold find at h
    by_cases hk : k' = k
    · simp [hk] at h
    · simp only [hk, if_false] at h
      simp only [List.map_cons, List.mem_cons, not_or]
      exact ⟨fun h' => hk h'.symm, ih h⟩

theorem find_some {k : Key} {c : Counter} {n : Nat} (h : find k c = some n) : (k, n) ∈ c := by
  induction c with
  | nil => simp [find] at h
  | cons e rest ih =>
    obtain ⟨k', n'⟩ := e
    unfold find at h
    by_cases hk : k' = k
    · simp only [hk, if_true, Option.some.injEq] at h
      subst h; subst hk; exact List.mem_cons_self ..
    · simp only [hk, if_false] at h
      exact List.mem_cons_of_mem _ (ih h)

theorem erase_sublist (k : Key) (c : Counter) : (erase k c).Sublist c := by
  induction c with
  | nil => exact List.Sublist.refl _
  | cons e rest ih =>
    obtain ⟨k', n⟩ := e
    unfold erase
    by_cases hk : k' = k
    · simp only [hk, if_true]; exact List.sublist_cons_self _ _
    · simp only [hk, if_false]; exact ih.cons_cons _

theorem mem_usedBy {label n : Nat} {c : Counter} : n ∈ usedBy label c ↔ ∃ r, ((label, r), n) ∈ c := by
  unfold usedBy
  simp only [List.mem_map, List.mem_filter]
  constructor
  · rintro ⟨e, ⟨he, hl⟩, rfl⟩
    obtain ⟨⟨l, r⟩, n⟩ := e
    simp at hl; subst hl
    exact ⟨r, he⟩
  · rintro ⟨r, h⟩
    exact ⟨((label, r), n), ⟨h, by simp⟩, rfl⟩

theorem cinv_toggle {c : Counter} (h : CInv c) (k : Key) : CInv (toggle c k).1 := by
  unfold toggle
  cases hf : find k c with
  | some n =>
    simp only
    exact ⟨h.keys.sublist ((erase_sublist k c).map _), h.numbers.sublist ((erase_sublist k c).map _)⟩
  | none =>
    simp only
    have hfree := (smallestFree_spec (usedBy k.1 c)).1
    refine ⟨?_, ?_⟩
    · rw [List.map_append, List.nodup_append]
      refine ⟨h.keys, by simp, ?_⟩
      intro a ha b hb
      simp at hb; subst hb
      intro hab; subst hab
      exact find_none hf ha
    · rw [List.map_append, List.nodup_append]
      refine ⟨h.numbers, by simp, ?_⟩
      intro a ha b hb
      simp at hb; subst hb
      intro hab; subst hab
      obtain ⟨e, he, heq⟩ := List.mem_map.mp ha
      obtain ⟨⟨l, r⟩, n⟩ := e
      simp only [Prod.mk.injEq] at heq
      obtain ⟨hl, hn⟩ := heq
      subst hl; subst hn
      exact hfree (mem_usedBy.mpr ⟨r, he⟩)

theorem cinv_counterAfter (ks : List Key) {c : Counter} (h : CInv c) : CInv (counterAfter c ks) := by
  induction ks generalizing c with
  | nil => exact h
  | cons k rest ih => exact ih (cinv_toggle h k)

theorem cinv_nil : CInv [] := ⟨by simp, by simp⟩

/-- two different open ranges of one label never share a number -/
theorem distinct_of_cinv {c : Counter} (h : CInv c) {l r1 r2 n1 n2 : Nat}
    (h1 : ((l, r1), n1) ∈ c) (h2 : ((l, r2), n2) ∈ c) (hr : r1 ≠ r2) : n1 ≠ n2 := by
  intro hn
  subst hn
  -- the two entries are different elements of `c` with the same (label, number)
  have hinj := List.inj_on_of_nodup_map h.numbers h1 h2 rfl
  simp at hinj
  exact hr hinj

/-! ### pairing by number recovers the ranges (document order) -/

/-- a range: its start note and that note's time, its stop note and that note's time -/
structure Rng where
  sN : Nat
  sT : Nat
  eN : Nat
  eT : Nat

/-- an element of the document: range `r` starts (`true`) or stops (`false`) here -/
abbrev REv := Nat × Bool

section
variable (label : Nat) (tbl : Nat → Rng)

def markOf (e : REv) (n : Nat) : Mark :=
  { note := if e.2 then (tbl e.1).sN else (tbl e.1).eN,
    time := if e.2 then (tbl e.1).sT else (tbl e.1).eT,
    isStart := e.2, number := n }

/-- the `<slur>`/`<tuplet>` elements the exporter writes for a sequence of starts and stops -/
def marksOf (c : Counter) : List REv → List Mark
  | [] => []
  | e :: rest => markOf tbl e (toggle c (label, e.1)).2 :: marksOf (toggle c (label, e.1)).1 rest

/-- the open ranges: identity, which end was met first, number -/
abbrev Open := List (Nat × Bool × Nat)

def cOf (S : Open) : Counter := S.map fun x => ((label, x.1), x.2.2)

def lookupS (r : Nat) : Open → Option (Bool × Nat)
  | [] => none
  | x :: rest => if x.1 = r then some x.2 else lookupS r rest

def eraseS (r : Nat) : Open → Open
  | [] => []
  | x :: rest => if x.1 = r then rest else x :: eraseS r rest

def pendingOf (r : Nat) (isStart : Bool) : Pending :=
  if isStart then { startNote := some ((tbl r).sN, (tbl r).sT), stopNote := none }
  else { startNote := none, stopNote := some ((tbl r).eN, (tbl r).eT) }

/-- the importer's `ongoing` when the open ranges are `S` -/
def ongoingOf (S : Open) : Ongoing := fun k =>
  (S.find? fun x => x.2.1 = k.1 ∧ x.2.2 = k.2).map fun x => pendingOf tbl x.1 x.2.1

theorem find_cOf (S : Open) (r : Nat) : find (label, r) (cOf label S) = (lookupS r S).map (·.2) := by
  induction S with
  | nil => rfl
  | cons x rest ih =>
    simp only [cOf, List.map_cons, find, lookupS]
    by_cases h : x.1 = r
    · simp [h]
    · have : ¬ ((label, x.1) = (label, r)) := by simp [h]
      simp only [this, h, if_false]
      exact ih

theorem erase_cOf (S : Open) (r : Nat) : erase (label, r) (cOf label S) = cOf label (eraseS r S) := by
  induction S with
  | nil => rfl
  | cons x rest ih =>
    simp only [cOf, List.map_cons, erase, eraseS]
    by_cases h : x.1 = r
    · simp [h]
    · have : ¬ ((label, x.1) = (label, r)) := by simp [h]
      simp only [this, h, if_false, List.map_cons]
      congr 1

theorem usedBy_cOf (S : Open) : usedBy label (cOf label S) = S.map (·.2.2) := by
  unfold usedBy cOf
  rw [List.filter_eq_self.mpr]
  · simp [List.map_map, Function.comp_def]
  · intro e he
    obtain ⟨x, _, rfl⟩ := List.mem_map.mp he
    simp

/-- one element of the document on the open ranges: the new open ranges, the number written, the range closed -/
def stepS (S : Open) (e : REv) : Open × Nat × Option Nat :=
  match lookupS e.1 S with
  | some tn => (eraseS e.1 S, tn.2, some e.1)
  | none => (S ++ [(e.1, e.2, smallestFree (S.map (·.2.2)))], smallestFree (S.map (·.2.2)), none)

theorem toggle_cOf (S : Open) (e : REv) :
    toggle (cOf label S) (label, e.1) = (cOf label (stepS S e).1, (stepS S e).2.1) := by
  unfold toggle stepS
  rw [find_cOf]
  cases h : lookupS e.1 S with
  | some tn => simp [erase_cOf]
  | none =>
    have hu := usedBy_cOf label S
    simp only [Option.map_none, hu]
    simp [cOf]

/-- the elements come in a sensible order: a range is met at most twice, once as a start and once as a stop -/
def WFEvs : Open → List Nat → List REv → Prop
  | _, _, [] => True
  | S, closed, e :: rest =>
    (match lookupS e.1 S with
      | some tn => tn.1 ≠ e.2
      | none => e.1 ∉ closed) ∧
    WFEvs (stepS S e).1 (match (stepS S e).2.2 with | some r => r :: closed | none => closed) rest

/-- the ranges closed by a sequence of elements, in the order they are closed -/
def closedBy : Open → List REv → List Nat
  | _, [] => []
  | S, e :: rest =>
    (match (stepS S e).2.2 with | some r => [r] | none => []) ++ closedBy (stepS S e).1 rest

def finalS : Open → List REv → Open
  | S, [] => S
  | S, e :: rest => finalS (stepS S e).1 rest

/-- the open ranges have distinct identities and distinct numbers -/
structure SInv (S : Open) : Prop where
  ids : (S.map (·.1)).Nodup
  nums : (S.map (·.2.2)).Nodup

theorem lookupS_mem {r : Nat} {S : Open} {tn : Bool × Nat} (h : lookupS r S = some tn) : (r, tn) ∈ S := by
  induction S with
  | nil => simp [lookupS] at h
  | cons x rest ih =>
    unfold lookupS at h
    by_cases hx : x.1 = r
    · simp only [hx, if_true, Option.some.injEq] at h
      subst h; subst hx; exact List.mem_cons_self ..
    · simp only [hx, if_false] at h
      exact List.mem_cons_of_mem _ (ih h)

theorem lookupS_none {r : Nat} {S : Open} (h : lookupS r S = none) : r ∉ S.map (·.1) := by
  induction S with
  | nil => simp
  | cons x rest ih =>
    unfold lookupS at h
    by_cases hx : x.1 = r
    · simp [hx] at h
    · simp only [hx, if_false] at h
      simp only [List.map_cons, List.mem_cons, not_or]
      exact ⟨fun h' => hx h'.symm, ih h⟩

theorem eraseS_sublist (r : Nat) (S : Open) : (eraseS r S).Sublist S := by
  induction S with
  | nil => exact List.Sublist.refl _
  | cons x rest ih =>
    unfold eraseS
    by_cases hx : x.1 = r
    · simp only [hx, if_true]; exact List.sublist_cons_self _ _
    · simp only [hx, if_false]; exact ih.cons_cons _

theorem sinv_step {S : Open} (h : SInv S) (e : REv) : SInv (stepS S e).1 := by
  unfold stepS
  cases hl : lookupS e.1 S with
  | some tn =>
    exact ⟨h.ids.sublist ((eraseS_sublist e.1 S).map _), h.nums.sublist ((eraseS_sublist e.1 S).map _)⟩
  | none =>
    simp only
    have hfree := (smallestFree_spec (S.map (·.2.2))).1
    refine ⟨?_, ?_⟩
    · rw [List.map_append, List.nodup_append]
      refine ⟨h.ids, by simp, ?_⟩
      intro a ha b hb hab
      simp at hb; subst hb; subst hab
      exact lookupS_none hl ha
    · rw [List.map_append, List.nodup_append]
      refine ⟨h.nums, by simp, ?_⟩
      intro a ha b hb hab
      simp at hb; subst hb; subst hab
      exact hfree ha

/-- `ongoing` has the entry of an open range under its key -/
theorem ongoingOf_mem {S : Open} (h : SInv S) {r : Nat} {t : Bool} {n : Nat} (hm : (r, t, n) ∈ S) :
    ongoingOf tbl S (t, n) = some (pendingOf tbl r t) := by
  unfold ongoingOf
  have : S.find? (fun x => x.2.1 = (t, n).1 ∧ x.2.2 = (t, n).2) = some (r, t, n) := by
    induction S with
    | nil => cases hm
    | cons x rest ih =>
      have hnums : ∀ y ∈ rest, y.2.2 ≠ x.2.2 := by
        have := h.nums
        simp only [List.map_cons, List.nodup_cons, List.mem_map, not_exists, not_and] at this
        intro y hy heq
        exact this.1 y hy heq
      rcases List.mem_cons.mp hm with hx | hx
      · subst hx; simp
      · have hne : ¬ (x.2.1 = t ∧ x.2.2 = n) := by
          intro hxe
          exact hnums (r, t, n) hx hxe.2.symm
        rw [List.find?_cons_of_neg (by simpa using hne)]
        exact ih ⟨(List.nodup_cons.mp h.ids).2, (List.nodup_cons.mp h.nums).2⟩ hx
  rw [this]; rfl

/-- `ongoing` has nothing under a number that no open range carries -/
theorem ongoingOf_none {S : Open} {n : Nat} (hn : n ∉ S.map (·.2.2)) (t : Bool) : ongoingOf tbl S (t, n) = none := by
  unfold ongoingOf
  rw [Option.map_eq_none_iff, List.find?_eq_none]
  intro x hx hxe
  simp at hxe
  exact hn (List.mem_map.mpr ⟨x, hx, hxe.2⟩)

theorem ongoingOf_erase {S : Open} (h : SInv S) {r : Nat} {t : Bool} {n : Nat} (hm : (r, t, n) ∈ S) :
    oerase (t, n) (ongoingOf tbl S) = ongoingOf tbl (eraseS r S) := by
  funext k
  unfold oerase ongoingOf
  induction S with
  | nil => cases hm
  | cons x rest ih =>
    have hids : ∀ y ∈ rest, y.1 ≠ x.1 := by
      have := h.ids
      simp only [List.map_cons, List.nodup_cons, List.mem_map, not_exists, not_and] at this
      intro y hy heq; exact this.1 y hy heq
    have hnums : ∀ y ∈ rest, y.2.2 ≠ x.2.2 := by
      have := h.nums
      simp only [List.map_cons, List.nodup_cons, List.mem_map, not_exists, not_and] at this
      intro y hy heq; exact this.1 y hy heq
    have hrest : SInv rest := ⟨(List.nodup_cons.mp h.ids).2, (List.nodup_cons.mp h.nums).2⟩
    rcases List.mem_cons.mp hm with hx | hx
    · -- the head is the range that goes
      subst hx
      simp only [eraseS, if_true]
      by_cases hk : k = (t, n)
      · subst hk
        simp only [if_true]
        symm
        rw [Option.map_eq_none_iff, List.find?_eq_none]
        intro y hy hye
        simp at hye
        exact hnums y hy hye.2
      · simp only [hk, if_false]
        have : ¬ (t = k.1 ∧ n = k.2) := by
          intro hc; apply hk; ext <;> simp [hc.1, hc.2]
        rw [List.find?_cons_of_neg (by simpa using this)]
    · have hxr : x.1 ≠ r := fun hc => hids (r, t, n) hx hc.symm
      simp only [eraseS, hxr, if_false]
      by_cases hk : k = (t, n)
      · subst hk
        simp only [if_true]
        have hne : ¬ (x.2.1 = t ∧ x.2.2 = n) := fun hc => hnums (r, t, n) hx hc.2.symm
        rw [List.find?_cons_of_neg (by simpa using hne)]
        have := ih hrest hx
        simp only [if_true] at this
        exact this
      · simp only [hk, if_false]
        by_cases hxk : x.2.1 = k.1 ∧ x.2.2 = k.2
        · rw [List.find?_cons_of_pos (by simpa using hxk), List.find?_cons_of_pos (by simpa using hxk)]
        · rw [List.find?_cons_of_neg (by simpa using hxk), List.find?_cons_of_neg (by simpa using hxk)]
          have := ih hrest hx
          simp only [hk, if_false] at this
          exact this

theorem ongoingOf_append {S : Open} {r : Nat} {t : Bool} {n : Nat} (hn : n ∉ S.map (·.2.2)) :
    oset (t, n) (pendingOf tbl r t) (ongoingOf tbl S) = ongoingOf tbl (S ++ [(r, t, n)]) := by
  funext k
  unfold oset ongoingOf
  rw [List.find?_append]
  by_cases hk : k = (t, n)
  · subst hk
    simp only [if_true]
    have : S.find? (fun x => x.2.1 = (t, n).1 ∧ x.2.2 = (t, n).2) = none := by
      rw [List.find?_eq_none]
      intro x hx hxe
      simp at hxe
      exact hn (List.mem_map.mpr ⟨x, hx, hxe.2⟩)
    rw [this]
    simp
  · simp only [hk, if_false]
    have : ¬ (t = k.1 ∧ n = k.2) := by
      intro hc; apply hk; ext <;> simp [hc.1, hc.2]
    cases hfind : S.find? (fun x => x.2.1 = k.1 ∧ x.2.2 = k.2) with
    | some x => simp
    | none => simp [this]

/-- every range spans time forwards -/
def TimeOK : Prop := ∀ r, (tbl r).sT ≤ (tbl r).eT

/-- Reading, in document order, what the exporter wrote: every range that was closed comes back with its own two
    notes, in the order of closing; nothing is lost; what is still open is what the exporter still has open. -/
theorem pairAll_marksOf (checkTime : Bool) (htime : TimeOK tbl) :
    ∀ (evs : List REv) (S : Open) (closed : List Nat) (st : PState),
      SInv S → st.ongoing = ongoingOf tbl S → WFEvs S closed evs →
      (pairAll checkTime st (marksOf label tbl (cOf label S) evs)).done =
          st.done ++ (closedBy S evs).map (fun r => ((tbl r).sN, (tbl r).eN)) ∧
        (pairAll checkTime st (marksOf label tbl (cOf label S) evs)).lost = st.lost ∧
        (pairAll checkTime st (marksOf label tbl (cOf label S) evs)).ongoing = ongoingOf tbl (finalS S evs) := by
  intro evs
  induction evs with
  | nil =>
    intro S closed st _ hong _
    simp [marksOf, pairAll, closedBy, finalS, hong]
  | cons e rest ih =>
    intro S closed st hS hong hwf
    obtain ⟨hhead, hrest⟩ := hwf
    simp only [marksOf, pairAll, List.foldl_cons]
    rw [toggle_cOf]
    simp only
    have hS' := sinv_step hS e
    -- one step of the reader
    have hstep : ∃ st1 : PState, pairStep checkTime st (markOf tbl e (stepS S e).2.1) = st1 ∧
        st1.ongoing = ongoingOf tbl (stepS S e).1 ∧ st1.lost = st.lost ∧
        st1.done = st.done ++ (match (stepS S e).2.2 with | some r => [r] | none => []).map
          (fun r => ((tbl r).sN, (tbl r).eN)) := by
      obtain ⟨r, isStart⟩ := e
      unfold stepS
      simp only at hhead ⊢
      cases hl : lookupS r S with
      | some tn =>
        obtain ⟨t, n⟩ := tn
        simp only [hl] at hhead
        have hm := lookupS_mem hl
        have htm := htime r
        have hnr : ¬ ((tbl r).eT < (tbl r).sT) := by omega
        cases isStart with
        | true =>
          -- the stop came first and waits under (false, n)
          have ht : t = false := by cases t <;> simp_all
          subst ht
          have hfound := ongoingOf_mem tbl hS hm
          have herase := ongoingOf_erase tbl hS hm
          refine ⟨_, rfl, ?_, ?_, ?_⟩ <;>
            simp [pairStep, pairCore, markOf, ofind, hong, hfound, pendingOf, hnr, herase]
        | false =>
          have ht : t = true := by cases t <;> simp_all
          subst ht
          have hfound := ongoingOf_mem tbl hS hm
          have herase := ongoingOf_erase tbl hS hm
          refine ⟨_, rfl, ?_, ?_, ?_⟩ <;>
            simp [pairStep, pairCore, markOf, ofind, hong, hfound, pendingOf, hnr, herase]
      | none =>
        have hfree := (smallestFree_spec (S.map (·.2.2))).1
        have hn1 := ongoingOf_none tbl hfree true
        have hn2 := ongoingOf_none tbl hfree false
        have happ := ongoingOf_append tbl (r := r) (t := isStart) hfree
        cases isStart with
        | true =>
          refine ⟨_, rfl, ?_, ?_, ?_⟩ <;>
            simp [pairStep, pairCore, markOf, ofind, hong, hn1, hn2, ← happ, pendingOf]
        | false =>
          refine ⟨_, rfl, ?_, ?_, ?_⟩ <;>
            simp [pairStep, pairCore, markOf, ofind, hong, hn1, hn2, ← happ, pendingOf]
    obtain ⟨st1, hst1, hong1, hlost1, hdone1⟩ := hstep
    rw [hst1]
    obtain ⟨ihd, ihl, iho⟩ := ih (stepS S e).1 _ st1 hS' hong1 hrest
    refine ⟨?_, by rw [show pairAll checkTime st1 _ = List.foldl _ st1 _ from rfl] at ihl; rw [ihl, hlost1], ?_⟩
    · rw [show List.foldl (pairStep checkTime) st1 _ = pairAll checkTime st1 _ from rfl, ihd, hdone1]
      simp [closedBy, List.append_assoc]
    · rw [show List.foldl (pairStep checkTime) st1 _ = pairAll checkTime st1 _ from rfl, iho]
      rfl
end

end C03.Ranges
