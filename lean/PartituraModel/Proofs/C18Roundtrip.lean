/-
C18 — assembly: `decodeTime` applied to the output of `encode` reproduces performed onsets
(shifted to start at 0) and durations, for the flat (note-order) model functions.
-/
import PartituraModel.Proofs.C18Timing

namespace C18P
open Model Model.Codec

theorem scale_length (n : Norm) (sd : Rat) (bp : List Rat) : (scale n sd bp).length = bp.length := by
  cases n <;> simp [scale]

theorem mem_enumFrom_snd {α : Type} (i : Nat) (l : List α) (p : Nat × α) (h : p ∈ enumFrom i l) : p.2 ∈ l := by
  induction l generalizing i with
  | nil => simp [enumFrom] at h
  | cons a as ih =>
    simp only [enumFrom, List.mem_cons] at h
    rcases h with rfl | h
    · simp
    · exact List.mem_cons_of_mem _ (ih (i + 1) h)

theorem lastTime_some {α : Type} (l : List α) (f g : α → Rat) (h : l ≠ []) :
    ∃ t, lastTime (l.map f) (l.map g) = some t := by
  cases l with
  | nil => exact absurd rfl h
  | cons a as => exact ⟨_, rfl⟩

/-- `encode` then `decodeTime`: every note comes back at its performed onset minus the earliest
    performed onset, with its performed duration (0 for a note without score duration) -/
theorem codec_roundtrip (n : Norm) (sd : Rat) (ns : List MNote) (bp : List Rat)
    (hne : ns ≠ []) (hlen : bp.length = (encGroups ns).length)
    (hpos : ∀ b ∈ bp, 0 < b) (hsd : ∀ x ∈ ns, 0 ≤ x.sd)
    (hinv : List.Forall₂ (fun c b => rescale n c = some b) (scale n sd bp) bp) :
    ∃ ps, encode (.given bp) n sd ns = some ps ∧ ps.length = ns.length ∧
      decodeTime n (List.zipWith toDRow ns ps) =
        some (ns.map fun x => (x.po - minPo ns, if x.sd = 0 then 0 else x.pd)) := by
  -- the encoder's groups
  have hgperm : (encGroups ns).flatten.Perm (enumFrom 0 ns) := groupsBy_flatten_perm _ ns
  have hgne : ∀ g ∈ encGroups ns, g ≠ [] := groupsBy_ne_nil _ ns
  have hgs0 : encGroups ns ≠ [] := groupsBy_ne_nil_of_ne_nil _ ns hne
  obtain ⟨gs, hgs⟩ : ∃ gs, encGroups ns = gs := ⟨_, rfl⟩
  rw [hgs] at hgperm hgne hgs0 hlen
  obtain ⟨cols, hcols⟩ : ∃ cols, scale n sd bp = cols := ⟨_, rfl⟩
  have hcl : cols.length = bp.length := by rw [← hcols]; exact scale_length n sd bp
  rw [hcols] at hinv
  obtain ⟨us, hus⟩ : ∃ us, groupMeans (·.so) gs = us := ⟨_, rfl⟩
  have husl : us.length = gs.length := by rw [← hus]; simp [groupMeans]
  have husne : us ≠ [] := by
    intro h0; rw [h0] at husl; exact hgs0 (List.length_eq_zero_iff.mp husl.symm)
  obtain ⟨e0, he0⟩ : ∃ e0, firstMean gs = e0 := ⟨_, rfl⟩
  have hEl : (eqOnsets e0 bp us).length = gs.length := by
    rw [eqOnsets_length e0 bp us (by omega) husne]; exact husl
  obtain ⟨E, hE⟩ : ∃ E, eqOnsets e0 bp us = E := ⟨_, rfl⟩
  rw [hE] at hEl
  obtain ⟨L, hL⟩ : ∃ L, bp.zip cols = L := ⟨_, rfl⟩
  have hLl : L.length = gs.length := by rw [← hL, List.length_zip]; omega
  have hencG : encodeG bp cols gs = zipWith3 (fun g bc e => g.map (encNote e bc)) gs L E := by
    unfold encodeG; simp only [hus, he0, hE, hL]
  -- groups tagged with their context
  obtain ⟨C, hC⟩ : ∃ C, ctxG gs L E = C := ⟨_, rfl⟩
  have hC1 : C.map (List.map (·.1)) = gs := by rw [← hC]; exact ctxG_fst gs L E (by omega) (by omega)
  have hEnc : encodeG bp cols gs = C.map (List.map (fun c => encNote c.2.2 c.2.1 c.1)) := by
    rw [hencG, ← hC]; exact zipWith3_ctx (fun e bc p => encNote e bc p) gs L E
  have hRows : zipWith3 (fun g bc e => g.map (rowOf e bc)) gs L E
      = C.map (List.map (fun c => rowOf c.2.2 c.2.1 c.1)) := by
    rw [← hC]; exact zipWith3_ctx (fun e bc p => rowOf e bc p) gs L E
  have hT : (encodeG bp cols gs).flatten = C.flatten.map (fun c => encNote c.2.2 c.2.1 c.1) := by
    rw [hEnc, List.map_flatten]
  have hgf : gs.flatten = C.flatten.map (·.1) := by rw [← hC1, List.map_flatten]
  have hTperm : ((encodeG bp cols gs).flatten.map Prod.fst).Perm (List.range ns.length) := by
    have e : (encodeG bp cols gs).flatten.map Prod.fst = gs.flatten.map Prod.fst := by
      rw [hT, hgf, List.map_map, List.map_map]
      apply List.map_congr_left
      intro c _
      rfl
    rw [e]
    have := hgperm.map Prod.fst
    rw [enumFrom_map_fst] at this
    simpa [List.range_eq_range'] using this
  obtain ⟨ps, hsc, hpslen, hps⟩ := scatter_exists ns.length _ hTperm
  refine ⟨ps, ?_, hpslen, ?_⟩
  · -- the encoder
    unfold encode
    simp only [hgs, hlen, if_true, hcols]
    exact hsc
  · -- the decoder's input, as a re-labelling of the tagged notes
    let G : Nat → TParam := fun i => ps[i]?.getD ⟨0, 0, 0, []⟩
    let φ : Nat × MNote → Nat × DRow := fun p => (p.1, toDRow p.2 (G p.1))
    have hrowsE : enumFrom 0 (List.zipWith toDRow ns ps) = (enumFrom 0 ns).map φ :=
      enumFrom_zipWith toDRow 0 ns ps G hpslen.symm (by
        intro k hk
        simp [G, List.getElem?_eq_getElem hk])
    have hdg : decGroups (List.zipWith toDRow ns ps) = gs.map (List.map φ) := by
      rw [← hgs]
      exact groupsBy_tagged (fun (x : MNote) => encKey x.so) (fun (r : DRow) => encKey r.so) ns _ φ hrowsE
        (by intro p; rfl)
    have hφ : gs.map (List.map φ) = zipWith3 (fun g bc e => g.map (rowOf e bc)) gs L E := by
      rw [hRows]
      conv_lhs => rw [← hC1]
      rw [List.map_map]
      apply List.map_congr_left
      intro l hl
      simp only [Function.comp, List.map_map]
      apply List.map_congr_left
      intro c hc
      have hcT : encNote c.2.2 c.2.1 c.1 ∈ (encodeG bp cols gs).flatten := by
        rw [hT]
        exact List.mem_map.mpr ⟨c, List.mem_flatten.mpr ⟨l, hl, hc⟩, rfl⟩
      have := hps (encNote c.2.2 c.2.1 c.1).1 (encNote c.2.2 c.2.1 c.1).2 hcT
      have hG : G c.1.1 = (encNote c.2.2 c.2.1 c.1).2 := by
        have e1 : (encNote c.2.2 c.2.1 c.1).1 = c.1.1 := rfl
        rw [e1] at this
        simp [G, this]
      show (c.1.1, toDRow c.1.2 (G c.1.1)) = (c.1.1, toDRow c.1.2 (encNote c.2.2 c.2.1 c.1).2)
      rw [hG]
    obtain ⟨last, hlast⟩ := lastTime_some (List.zipWith toDRow ns ps) (·.so) (fun r => r.so + r.sd) (by
      intro h0
      have := congrArg List.length h0
      simp [hpslen] at this
      exact hne this)
    have hbps : allSome ((zipWith3 (fun g bc e => g.map (rowOf e bc)) gs L E).map (groupBp n)) = some bp := by
      rw [allSome_eq_some, ← hL]
      exact groupBp_rows n gs bp cols E hgne hinv hlen.symm (by omega)
    have hmeans : groupMeans (·.so) (zipWith3 (fun g bc e => g.map (rowOf e bc)) gs L E) = us := by
      rw [← hus]; exact groupMeans_rows gs L E (by omega) (by omega)
    -- decoding group by group
    have hdec : decodeG bp us last (zipWith3 (fun g bc e => g.map (rowOf e bc)) gs L E)
        = gs.map (List.map fun p => (p.1, (p.2.po - e0, if p.2.sd = 0 then 0 else p.2.pd))) := by
      unfold decodeG
      simp only []
      have h := decode_encode_groups gs us bp cols 0 e0 last husl
      rw [zero_add] at h
      have hE' : cumFrom e0 (List.zipWith (· * ·) bp (diffs us)) = E := by rw [← hE]; rfl
      rw [hE', hL] at h
      rw [h]
      apply zipWith3_const _ _ gs L E _ (by omega) (by omega)
      intro g hg bc hbc e
      apply List.map_congr_left
      intro p hp
      have hb : 0 < bc.1 := by
        rw [← hL] at hbc
        exact hpos _ (List.of_mem_zip hbc).1
      have hp2 : 0 ≤ p.2.sd := by
        have : p ∈ gs.flatten := List.mem_flatten.mpr ⟨g, hg, hp⟩
        exact hsd _ (mem_enumFrom_snd 0 ns p (hgperm.mem_iff.mp this))
      simp only [decodedOf, dur_simp bc.1 p.2.sd p.2.pd hb hp2]
    -- back to note order
    have hflat : (gs.map (List.map fun (p : Nat × MNote) => (p.1, (p.2.po - e0, if p.2.sd = 0 then 0 else p.2.pd)))).flatten.Perm
        (enumFrom 0 (ns.map fun x => (x.po - e0, if x.sd = 0 then 0 else x.pd))) := by
      rw [← List.map_flatten, enumFrom_map]
      exact hgperm.map _
    have hscat := scatter_perm _ _ hflat
    rw [List.length_map] at hscat
    have hrl : (List.zipWith toDRow ns ps).length = ns.length := by simp [hpslen]
    unfold decodeTime
    simp only [hdg, hφ, hlast, hbps, hmeans, hdec, hrl, hscat]
    rw [shiftMin_map ns e0 (fun x => if x.sd = 0 then 0 else x.pd)]

end C18P
