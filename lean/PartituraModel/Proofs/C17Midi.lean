/-
Helper lemmas for Props/C17Midi.lean: the dictionaries of Model/C17Midi.lean, the whole-table check of `note_hash`,
the pairing of note-on and note-off messages, the grouping of `notes_by_part`.
-/
import PartituraModel.Model.C17Midi

namespace C17M
open Model Model.C17Midi Gen

-- ------------------------------------------------------------------ note_hash: whole table

/-- entry `i` of the 16 × 128 table of `note_hash`, channel-major -/
def hashAt (i : Nat) : Nat := noteHash (i / 128) (i % 128)

def incrUpTo (f : Nat → Nat) : Nat → Bool
  | 0 => true
  | n + 1 => incrUpTo f n && (n == 0 || decide (f (n - 1) < f n))

theorem incr_spec (f : Nat → Nat) : ∀ N, incrUpTo f N = true → ∀ i j, i < j → j < N → f i < f j := by
  intro N
  induction N with
  | zero => intro _ i j _ h; omega
  | succ n ih =>
    intro h i j hij hj
    simp only [incrUpTo, Bool.and_eq_true, Bool.or_eq_true, beq_iff_eq, decide_eq_true_eq] at h
    obtain ⟨h1, h2⟩ := h
    by_cases hjn : j < n
    · exact ih h1 i j hij hjn
    · have hj' : j = n := by omega
      subst hj'
      rcases h2 with h2 | h2
      · omega
      · by_cases hi : i = j - 1
        · subst hi; exact h2
        · have := ih h1 i (j - 1) (by omega) (by omega)
          omega

/-- the WHOLE table of the regenerated `note_hash` is strictly increasing (kernel-evaluated) -/
theorem hash_incr : incrUpTo hashAt 2048 = true := by decide +kernel

theorem hash_inj {c n c' n' : Nat} (hc : c < 16) (hn : n < 128) (hc' : c' < 16) (hn' : n' < 128)
    (h : noteHash c n = noteHash c' n') : c = c' ∧ n = n' := by
  have e1 : hashAt (c * 128 + n) = noteHash c n := by
    unfold hashAt; congr 1 <;> omega
  have e2 : hashAt (c' * 128 + n') = noteHash c' n' := by
    unfold hashAt; congr 1 <;> omega
  have key := incr_spec hashAt 2048 hash_incr
  rcases Nat.lt_trichotomy (c * 128 + n) (c' * 128 + n') with hlt | heq | hgt
  · have := key _ _ hlt (by omega); omega
  · omega
  · have := key _ _ hgt (by omega); omega

-- ------------------------------------------------------------------ dictionaries

theorem lookup_filter_ne {β : Type} (k k' : Nat) (d : List (Nat × β)) :
    lookup k' (d.filter fun e => e.1 ≠ k) = if k' = k then none else lookup k' d := by
  induction d with
  | nil => simp [lookup]
  | cons e rest ih =>
    obtain ⟨a, b⟩ := e
    by_cases hak : a = k
    · subst hak
      simp only [List.filter, ne_eq, not_true_eq_false, decide_false, lookup]
      rw [ih]
      by_cases h : k' = a
      · simp [h]
      · have : ¬ a = k' := fun x => h x.symm
        simp [h, this]
    · simp only [List.filter, ne_eq, hak, not_false_eq_true, decide_true, lookup]
      rw [ih]
      by_cases h : k' = k
      · subst h; simp [hak]
      · simp [h]

theorem lookup_dictSet (d : List (Nat × Int)) (k k' : Nat) (v : Int) :
    lookup k' (dictSet d k v) = if k' = k then some v else lookup k' d := by
  unfold dictSet
  simp only [lookup]
  rw [lookup_filter_ne]
  by_cases h : k' = k
  · simp [h]
  · have : ¬ k = k' := fun x => h x.symm
    simp [h, this]

theorem lookup_dictDel (d : List (Nat × Int)) (k k' : Nat) :
    lookup k' (dictDel d k) = if k' = k then none else lookup k' d := lookup_filter_ne k k' d

/-- appending to one list of a `defaultdict(list)` adds exactly that element to the union of the lists -/
theorem appendAt_flat {κ α : Type} [DecidableEq κ] (d : List (κ × List α)) (k : κ) (x : α) :
    ((appendAt d k x).flatMap (·.2)).Perm (d.flatMap (·.2) ++ [x]) := by
  induction d with
  | nil => simp [appendAt]
  | cons e rest ih =>
    obtain ⟨a, l⟩ := e
    unfold appendAt
    by_cases h : a = k
    · simp only [h, if_true, List.flatMap_cons, List.append_assoc]
      exact List.Perm.append_left l List.perm_append_comm
    · simp only [h, if_false, List.flatMap_cons, List.append_assoc]
      exact List.Perm.append_left l ih

-- ------------------------------------------------------------------ pairing of note-on and note-off messages

/-- a message that starts a note / that ends one (MIDI: a note-on with velocity 0 is a note-off) -/
def startsNote (m : Msg) : Prop := m.type = "note_on" ∧ 0 < m.vel
def endsNote (m : Msg) : Prop := m.type = "note_off" ∨ (m.type = "note_on" ∧ m.vel = 0)

instance (m : Msg) : Decidable (startsNote m) := by unfold startsNote; infer_instance
instance (m : Msg) : Decidable (endsNote m) := by unfold endsNote; infer_instance

/-- the messages of a track form complete notes: with `S` the keys (channel, note) sounding before the first message,
    every note-on finds its key silent, every note-off finds it sounding, nothing sounds after the last message; data
    bytes are valid (channel < 16, note < 128).  Any other message may stand anywhere. -/
inductive WellPaired : List (Nat × Nat) → List Msg → Prop
  | nil : WellPaired [] []
  | skip (S : List (Nat × Nat)) (m : Msg) (ms : List Msg) :
      ¬ startsNote m → ¬ endsNote m → WellPaired S ms → WellPaired S (m :: ms)
  | on (S : List (Nat × Nat)) (m : Msg) (ms : List Msg) :
      startsNote m → (m.ch, m.note) ∉ S → m.ch < 16 → m.note < 128 →
      WellPaired ((m.ch, m.note) :: S) ms → WellPaired S (m :: ms)
  | off (S : List (Nat × Nat)) (m : Msg) (ms : List Msg) :
      endsNote m → (m.ch, m.note) ∈ S → WellPaired (S.erase (m.ch, m.note)) ms → WellPaired S (m :: ms)

/-- the pitches of the note-on messages that start a note, in file order -/
def onPitches (ms : List Msg) : List Int := (ms.filter fun m => decide (startsNote m)).map fun m => (m.note : Int)

/-- all notes a track state has completed, and their pitches -/
def flatNotes (st : TrackSt) : List Note3 := st.notes.flatMap (·.2)
def pitches (l : List Note3) : List Int := l.map (·.2.1)

theorem relevant_on : "note_on" ∈ MIDI_RELEVANT := by decide
theorem relevant_off : "note_off" ∈ MIDI_RELEVANT := by decide

theorem step_skip (qu : Option Nat) (st : TrackSt) (m : Msg) (h1 : ¬ startsNote m) (h2 : ¬ endsNote m) :
    (step qu st m).sounding = st.sounding ∧ (step qu st m).notes = st.notes := by
  unfold startsNote at h1
  unfold endsNote at h2
  unfold step
  by_cases hon : m.type = "note_on"
  · exfalso
    by_cases hv : 0 < m.vel
    · exact h1 ⟨hon, hv⟩
    · exact h2 (Or.inr ⟨hon, by omega⟩)
  · by_cases hoff : m.type = "note_off"
    · exact absurd (Or.inl hoff) h2
    · simp only [hon, hoff, decide_false, Bool.or_self, Bool.false_eq_true, not_false_eq_true, if_true]
      split <;> (try split) <;> simp

theorem step_on (qu : Option Nat) (st : TrackSt) (m : Msg) (h : startsNote m) :
    (step qu st m).sounding = dictSet st.sounding (noteHash m.ch m.note) (quantT qu (st.t + m.dt)) ∧
    (step qu st m).notes = st.notes := by
  obtain ⟨hon, hv⟩ := h
  unfold step
  simp [hon, hv, relevant_on]

theorem step_off (qu : Option Nat) (st : TrackSt) (m : Msg) (h : endsNote m) (t0 : Int)
    (hl : lookup (noteHash m.ch m.note) st.sounding = some t0) :
    (step qu st m).sounding = dictDel st.sounding (noteHash m.ch m.note) ∧
    (step qu st m).notes = appendAt st.notes m.ch (t0, (m.note : Int), quantT qu (st.t + m.dt) - t0) := by
  unfold step
  rcases h with hoff | ⟨hon, hv⟩
  · simp [hoff, relevant_off, hl]
  · simp [hon, hv, relevant_on, hl]

/-- what the dictionary `sounding_notes` knows is exactly the set `S` of sounding keys -/
def Inv (st : TrackSt) (S : List (Nat × Nat)) : Prop :=
  S.Nodup ∧ (∀ k ∈ S, k.1 < 16 ∧ k.2 < 128) ∧
  ∀ c n, c < 16 → n < 128 → ((lookup (noteHash c n) st.sounding).isSome ↔ (c, n) ∈ S)

theorem pitches_append (a b : List Note3) : pitches (a ++ b) = pitches a ++ pitches b := by simp [pitches]

theorem run_pitches (qu : Option Nat) (S : List (Nat × Nat)) (ms : List Msg) (hw : WellPaired S ms) :
    ∀ st, Inv st S →
      (pitches (flatNotes (ms.foldl (step qu) st))).Perm
        (pitches (flatNotes st) ++ (S.map fun k => (k.2 : Int)) ++ onPitches ms) := by
  induction hw with
  | nil => intro st _; simp [onPitches]
  | skip S m ms h1 h2 _ ih =>
    intro st hinv
    obtain ⟨e1, e2⟩ := step_skip qu st m h1 h2
    have hinv' : Inv (step qu st m) S := by
      obtain ⟨a, b, c⟩ := hinv
      exact ⟨a, b, by rw [e1]; exact c⟩
    have := ih (step qu st m) hinv'
    simp only [List.foldl_cons]
    have hp : onPitches (m :: ms) = onPitches ms := by simp [onPitches, List.filter, h1]
    rw [hp]
    simpa [flatNotes, e2] using this
  | on S m ms h1 hnot hc hn _ ih =>
    intro st hinv
    obtain ⟨e1, e2⟩ := step_on qu st m h1
    obtain ⟨ia, ib, ic⟩ := hinv
    have hinv' : Inv (step qu st m) ((m.ch, m.note) :: S) := by
      refine ⟨List.nodup_cons.mpr ⟨hnot, ia⟩, ?_, ?_⟩
      · intro k hk
        rcases List.mem_cons.mp hk with rfl | hk
        · exact ⟨hc, hn⟩
        · exact ib k hk
      · intro c n hc' hn'
        rw [e1, lookup_dictSet]
        by_cases hh : noteHash c n = noteHash m.ch m.note
        · obtain ⟨rfl, rfl⟩ := hash_inj hc' hn' hc hn hh
          simp
        · simp only [hh, if_false, List.mem_cons]
          rw [ic c n hc' hn']
          constructor
          · intro x; exact Or.inr x
          · rintro (x | x)
            · exfalso; apply hh; injection x with x1 x2; rw [x1, x2]
            · exact x
    have := ih (step qu st m) hinv'
    simp only [List.foldl_cons]
    have hp : onPitches (m :: ms) = (m.note : Int) :: onPitches ms := by simp [onPitches, List.filter, h1]
    rw [hp]
    refine this.trans ?_
    simp only [flatNotes, e2, List.map_cons, List.append_assoc, List.cons_append]
    exact List.Perm.append_left _ (List.perm_middle.symm)
  | off S m ms h1 hmem _ ih =>
    intro st hinv
    obtain ⟨ia, ib, ic⟩ := hinv
    obtain ⟨hc, hn⟩ := ib _ hmem
    have hsome := (ic m.ch m.note hc hn).mpr hmem
    obtain ⟨t0, ht0⟩ := Option.isSome_iff_exists.mp hsome
    obtain ⟨e1, e2⟩ := step_off qu st m h1 t0 ht0
    have hinv' : Inv (step qu st m) (S.erase (m.ch, m.note)) := by
      refine ⟨ia.erase _, fun k hk => ib k (List.mem_of_mem_erase hk), ?_⟩
      intro c n hc' hn'
      rw [e1, lookup_dictDel]
      by_cases hh : noteHash c n = noteHash m.ch m.note
      · obtain ⟨rfl, rfl⟩ := hash_inj hc' hn' hc hn hh
        simp only [if_true, Option.isSome_none, Bool.false_eq_true, false_iff]
        exact fun x => (List.Nodup.not_mem_erase ia) x
      · simp only [hh, if_false]
        rw [ic c n hc' hn']
        have hne : (c, n) ≠ (m.ch, m.note) := by
          intro x; apply hh; injection x with x1 x2; rw [x1, x2]
        exact (List.mem_erase_of_ne hne).symm
    have := ih (step qu st m) hinv'
    simp only [List.foldl_cons]
    have hp : onPitches (m :: ms) = onPitches ms := by
      have : ¬ startsNote m := by
        unfold startsNote; unfold endsNote at h1
        rcases h1 with x | ⟨_, x⟩
        · intro y; rw [x] at y; exact absurd y.1 (by decide)
        · intro y; omega
      simp [onPitches, List.filter, this]
    rw [hp]
    refine this.trans ?_
    have hfl : (pitches (flatNotes (step qu st m))).Perm (pitches (flatNotes st) ++ [(m.note : Int)]) := by
      unfold flatNotes
      rw [e2]
      have := (appendAt_flat st.notes m.ch (t0, (m.note : Int), quantT qu (st.t + m.dt) - t0)).map (fun x : Note3 => x.2.1)
      simpa [pitches] using this
    have hS : (S.map fun k => (k.2 : Int)).Perm ((m.note : Int) :: (S.erase (m.ch, m.note)).map fun k => (k.2 : Int)) := by
      have := (List.perm_cons_erase hmem).map (fun k : Nat × Nat => (k.2 : Int))
      simpa using this
    refine ((hfl.append_right _).append_right _).trans ?_
    simp only [List.append_assoc, List.cons_append, List.nil_append]
    refine List.Perm.append_left _ ?_
    refine List.Perm.trans ?_ ((hS.symm).append_right _)
    simp

/-- a track whose messages form complete notes yields exactly one note per note-on, with its pitch -/
theorem track_pitches (qu : Option Nat) (ms : List Msg) (hw : WellPaired [] ms) :
    (pitches (flatNotes (runTrack qu ms))).Perm (onPitches ms) := by
  have := run_pitches qu [] ms hw {} ⟨List.nodup_nil, by simp, by intro c n _ _; simp [lookup]⟩
  simpa [runTrack, flatNotes, pitches] using this

/-- dropping the empty lists of a dict of lists does not change the union -/
theorem filter_nonempty_flat {κ α : Type} (d : List (κ × List α)) :
    (d.filter fun e => 0 < e.2.length).flatMap (·.2) = d.flatMap (·.2) := by
  induction d with
  | nil => rfl
  | cons e rest ih =>
    by_cases h : 0 < e.2.length
    · simp [List.filter, h, ih]
    · have : e.2 = [] := by
        cases hh : e.2 with
        | nil => rfl
        | cons a b => rw [hh] at h; simp at h
      simp [List.filter, ih, this]

/-- the keys of a `defaultdict(list)` filled with `appendAt` stay distinct -/
theorem appendAt_keys {κ α : Type} [DecidableEq κ] (d : List (κ × List α)) (k : κ) (x : α) :
    (appendAt d k x).map (·.1) = if k ∈ d.map (·.1) then d.map (·.1) else d.map (·.1) ++ [k] := by
  induction d with
  | nil => simp [appendAt]
  | cons e rest ih =>
    obtain ⟨a, l⟩ := e
    unfold appendAt
    by_cases h : a = k
    · simp [h]
    · have h' : ¬ k = a := fun x => h x.symm
      simp only [h, if_false, List.map_cons, ih, List.mem_cons, h', false_or]
      split <;> simp

theorem appendAt_nodup {κ α : Type} [DecidableEq κ] (d : List (κ × List α)) (k : κ) (x : α)
    (h : (d.map (·.1)).Nodup) : ((appendAt d k x).map (·.1)).Nodup := by
  rw [appendAt_keys]
  split
  · exact h
  · rename_i hk
    exact List.nodup_append.mpr ⟨h, by simp, by intro a ha b hb; simp at hb; subst hb; intro e; subst e; exact hk ha⟩


-- ------------------------------------------------------------------ notes_by_track_ch and note_list

theorem step_notes (qu : Option Nat) (st : TrackSt) (m : Msg) :
    (step qu st m).notes = st.notes ∨ ∃ x, (step qu st m).notes = appendAt st.notes m.ch x := by
  unfold step
  dsimp only
  repeat' split
  all_goals first | exact Or.inl rfl | exact Or.inr ⟨_, rfl⟩

theorem runTrack_nodup (qu : Option Nat) (ms : List Msg) : ((runTrack qu ms).notes.map (·.1)).Nodup := by
  unfold runTrack
  suffices h : ∀ st : TrackSt, (st.notes.map (·.1)).Nodup → ((ms.foldl (step qu) st).notes.map (·.1)).Nodup from
    h {} (by simp)
  induction ms with
  | nil => intro st h; exact h
  | cons m ms ih =>
    intro st h
    simp only [List.foldl_cons]
    apply ih
    rcases step_notes qu st m with e | ⟨x, e⟩
    · rw [e]; exact h
    · rw [e]; exact appendAt_nodup _ _ _ h

/-- the entries one track contributes to `notes_by_track_ch` -/
def trackEntries (qu : Option Nat) (tr : List Msg) (i : Nat) : List (Key × List Note3) :=
  ((runTrack qu tr).notes.filter fun e => 0 < e.2.length).map fun e => ((i, e.1), e.2)

def entriesFrom (qu : Option Nat) (tracks : List (List Msg)) (k : Nat) : List (Key × List Note3) :=
  (tracks.zipIdx k).flatMap fun x => trackEntries qu x.1 x.2

theorem notesByTrackCh_eq (qu : Option Nat) (tracks : List (List Msg)) :
    notesByTrackCh qu tracks = entriesFrom qu tracks 0 := rfl

theorem trackEntries_flat (qu : Option Nat) (tr : List Msg) (i : Nat) :
    (trackEntries qu tr i).flatMap (·.2) = flatNotes (runTrack qu tr) := by
  unfold trackEntries flatNotes
  rw [← filter_nonempty_flat (runTrack qu tr).notes]
  simp [List.flatMap_map]

theorem entriesFrom_flat (qu : Option Nat) (tracks : List (List Msg)) (k : Nat) :
    (entriesFrom qu tracks k).flatMap (·.2) = tracks.flatMap fun tr => flatNotes (runTrack qu tr) := by
  induction tracks generalizing k with
  | nil => rfl
  | cons tr rest ih =>
    have := ih (k + 1)
    unfold entriesFrom at this ⊢
    simp only [List.zipIdx_cons, List.flatMap_cons, List.flatMap_append, trackEntries_flat, this]

theorem trackEntries_keys (qu : Option Nat) (tr : List Msg) (i : Nat) :
    ((trackEntries qu tr i).map (·.1)).Nodup ∧ ∀ k ∈ (trackEntries qu tr i).map (·.1), k.1 = i := by
  unfold trackEntries
  constructor
  · have h := (runTrack_nodup qu tr)
    have h2 : (((runTrack qu tr).notes.filter fun e => 0 < e.2.length).map (·.1)).Nodup :=
      (List.filter_sublist.map _).nodup h
    have : ((((runTrack qu tr).notes.filter fun e => 0 < e.2.length).map (·.1)).map fun c : Nat => ((i, c) : Key)).Nodup :=
      List.Pairwise.map _ (fun a b e x => e (by injection x)) h2
    simpa [List.map_map, Function.comp_def] using this
  · intro k hk
    simp only [List.map_map, List.mem_map, Function.comp] at hk
    obtain ⟨e, _, rfl⟩ := hk
    rfl

theorem entriesFrom_keys (qu : Option Nat) (tracks : List (List Msg)) (k : Nat) :
    ((entriesFrom qu tracks k).map (·.1)).Nodup ∧ ∀ x ∈ (entriesFrom qu tracks k).map (·.1), k ≤ x.1 := by
  induction tracks generalizing k with
  | nil => simp [entriesFrom]
  | cons tr rest ih =>
    obtain ⟨h1, h2⟩ := ih (k + 1)
    obtain ⟨t1, t2⟩ := trackEntries_keys qu tr k
    have e : entriesFrom qu (tr :: rest) k = trackEntries qu tr k ++ entriesFrom qu rest (k + 1) := by
      simp [entriesFrom, List.zipIdx_cons]
    rw [e, List.map_append]
    constructor
    · refine List.nodup_append.mpr ⟨t1, h1, ?_⟩
      intro a ha b hb hab
      subst hab
      have := t2 a ha
      have := h2 a hb
      omega
    · intro x hx
      rcases List.mem_append.mp hx with hx | hx
      · have := t2 x hx; omega
      · have := h2 x hx; omega

/-- reading a dict with distinct keys through a permutation of its keys gives a permutation of its values -/
theorem lookup_self {κ ν : Type} [DecidableEq κ] (d : List (κ × ν)) (h : (d.map (·.1)).Nodup) :
    (d.map (·.1)).map (fun k => lookup k d) = d.map (fun e => some e.2) := by
  induction d with
  | nil => rfl
  | cons e rest ih =>
    obtain ⟨a, b⟩ := e
    have hn := List.nodup_cons.mp h
    simp only [List.map_cons, lookup, if_true, List.cons.injEq, true_and]
    rw [← ih hn.2]
    apply List.map_congr_left
    intro k hk
    have : ¬ a = k := by intro x; subst x; exact hn.1 hk
    simp [this]

theorem mapM_lookup {κ ν : Type} [DecidableEq κ] (d : List (κ × ν)) (ks : List κ) (vs : List ν)
    (h : ks.mapM (fun k => lookup k d) = some vs) : ks.map (fun k => lookup k d) = vs.map some := by
  induction ks generalizing vs with
  | nil => simp at h; subst h; rfl
  | cons k ks ih =>
    simp only [List.mapM_cons, Option.bind_eq_bind] at h
    cases hk : lookup k d with
    | none => simp [hk] at h
    | some v =>
      cases hr : ks.mapM (fun k => lookup k d) with
      | none => simp [hk, hr] at h
      | some r =>
        simp [hk, hr] at h
        subst h
        simp [hk, ih r hr]

theorem perKey_perm (nb : List (Key × List Note3)) (hn : (nb.map (·.1)).Nodup) (perKey : List (List Note3))
    (h : perKeyNotes nb = some perKey) : perKey.Perm (nb.map (·.2)) := by
  unfold perKeyNotes at h
  have h1 := mapM_lookup nb _ _ h
  have hp : (sortedKeys nb).Perm (nb.map (·.1)) := List.mergeSort_perm _ _
  have h2 := hp.map (fun k => lookup k nb)
  rw [h1, lookup_self nb hn] at h2
  have h3 := h2.map (fun o : Option (List Note3) => o.getD [])
  simpa [List.map_map, Function.comp_def] using h3

theorem perKey_total (nb : List (Key × List Note3)) : ∃ perKey, perKeyNotes nb = some perKey := by
  unfold perKeyNotes
  have hsub : ∀ k ∈ sortedKeys nb, k ∈ nb.map (·.1) := fun k hk => (List.mergeSort_perm _ _).subset hk
  generalize sortedKeys nb = ks at hsub
  induction ks with
  | nil => exact ⟨[], rfl⟩
  | cons k ks ih =>
    obtain ⟨r, hr⟩ := ih (fun x hx => hsub x (List.mem_cons_of_mem _ hx))
    have hk := hsub k List.mem_cons_self
    have : ∃ v, lookup k nb = some v := by
      clear hr ih hsub
      induction nb with
      | nil => simp at hk
      | cons e rest ih2 =>
        obtain ⟨a, b⟩ := e
        by_cases hak : a = k
        · exact ⟨b, by simp [lookup, hak]⟩
        · have : k ∈ rest.map (·.1) := by
            simp only [List.map_cons, List.mem_cons] at hk
            rcases hk with x | x
            · exact absurd x.symm hak
            · exact x
          obtain ⟨v, hv⟩ := ih2 this
          exact ⟨v, by simp [lookup, hak, hv]⟩
    obtain ⟨v, hv⟩ := this
    exact ⟨v :: r, by simp [List.mapM_cons, hv, hr]⟩

/-- the concatenated `note_list` holds exactly the notes the tracks completed -/
theorem noteList_perm (qu : Option Nat) (tracks : List (List Msg)) (perKey : List (List Note3))
    (h : perKeyNotes (notesByTrackCh qu tracks) = some perKey) :
    (noteList perKey).Perm (tracks.flatMap fun tr => flatNotes (runTrack qu tr)) := by
  have hk := (entriesFrom_keys qu tracks 0).1
  rw [← notesByTrackCh_eq] at hk
  have hp := perKey_perm _ hk perKey h
  have := hp.flatten
  rw [notesByTrackCh_eq] at this
  unfold noteList
  refine this.trans ?_
  rw [← entriesFrom_flat qu tracks 0]
  simp [List.flatMap_def]


-- ------------------------------------------------------------------ notes_by_part, part groups, Score.parts

theorem notesByPart_flat (items : List Item) :
    ((notesByPart items).flatMap (·.2)).Perm (items.map (·.note)) := by
  unfold notesByPart
  suffices h : ∀ d0 : List (Nat × List NoteOut),
      ((items.foldl (fun d it => appendAt d it.part it.note) d0).flatMap (·.2)).Perm
        (d0.flatMap (·.2) ++ items.map (·.note)) by simpa using h []
  induction items with
  | nil => intro d0; simp
  | cons it rest ih =>
    intro d0
    simp only [List.foldl_cons, List.map_cons]
    refine (ih _).trans ?_
    refine ((appendAt_flat d0 it.part it.note).append_right _).trans ?_
    simp

theorem addPart_flat {π : Type} (pl : List (Option Nat × List π)) (pg : Option Nat) (p : π) :
    ((addPart pl pg p).flatMap (·.2)).Perm (pl.flatMap (·.2) ++ [p]) := by
  cases pg with
  | none => simp [addPart]
  | some g => exact appendAt_flat pl (some g) p

/-- every note handed to the routing ends up in exactly one part of the score -/
theorem routeParts_perm (gpv : List (Option Nat × Option Nat × Option Nat)) (key : Option String) (items : List Item)
    (parts : List PartOut) (h : routeParts gpv key items = some parts) :
    (parts.flatMap (·.notes)).Perm (items.map (·.note)) := by
  unfold routeParts at h
  simp only [Option.bind_eq_bind, Option.pure_def, Option.bind_eq_some_iff, Option.some.injEq] at h
  obtain ⟨pl, hpl, rfl⟩ := h
  refine List.Perm.trans ?_ (notesByPart_flat items)
  generalize notesByPart items = es at hpl
  suffices hs : ∀ (es : List (Nat × List NoteOut)) (pl0 pl : List (Option Nat × List PartOut)),
      es.foldlM (fun (pl : List (Option Nat × List PartOut)) e =>
        (lookup (some e.1) (gpv.map fun g => (g.2.1, g.1)).reverse).bind fun pg =>
          some (addPart pl pg { id := fmt1 MIDI_PART_ID_FORMAT (e.1 + MIDI_PART_ID_OFFSET), key := key, notes := e.2 })) pl0 = some pl →
      ((pl.flatMap (·.2)).flatMap (·.notes)).Perm ((pl0.flatMap (·.2)).flatMap (·.notes) ++ es.flatMap (·.2)) by
    simpa using hs es [] pl hpl
  intro es
  induction es with
  | nil => intro pl0 pl h; simp at h; subst h; simp
  | cons e rest ih =>
    intro pl0 pl h
    simp only [List.foldlM_cons, Option.bind_eq_bind, Option.bind_eq_some_iff] at h
    obtain ⟨pl1, ⟨pg, _, hpl1⟩, hrest⟩ := h
    have := ih pl1 pl hrest
    refine this.trans ?_
    simp only [Option.some.injEq] at hpl1
    subst hpl1
    have hf := (addPart_flat pl0 pg ({ id := fmt1 MIDI_PART_ID_FORMAT (e.1 + MIDI_PART_ID_OFFSET), key := key, notes := e.2 } : PartOut)).flatMap_right (·.notes)
    refine (hf.append_right _).trans ?_
    simp


-- ------------------------------------------------------------------ assign_group_part_voice

theorem lookup_isSome_iff {κ ν : Type} [DecidableEq κ] (d : List (κ × ν)) (k : κ) :
    (lookup k d).isSome ↔ k ∈ d.map (·.1) := by
  induction d with
  | nil => simp [lookup]
  | cons e rest ih =>
    obtain ⟨a, b⟩ := e
    by_cases h : a = k
    · simp [lookup, h]
    · have h' : ¬ k = a := fun x => h x.symm
      simp [lookup, h, h', ih]

theorem keys_setItem {κ ν : Type} [DecidableEq κ] (d : List (κ × ν)) (k : κ) (v : ν) (k' : κ) :
    k' ∈ (setItem d k v).map (·.1) ↔ k' ∈ d.map (·.1) ∨ k' = k := by
  unfold setItem
  split
  · rename_i hs
    have hk : k ∈ d.map (·.1) := (lookup_isSome_iff d k).mp hs
    have : (d.map fun e => if e.1 = k then (k, v) else e).map (·.1) = d.map (·.1) := by
      rw [List.map_map]
      apply List.map_congr_left
      intro e _
      by_cases h : e.1 = k <;> simp [h]
    rw [this]
    constructor
    · exact Or.inl
    · rintro (x | x)
      · exact x
      · subst x; exact hk
  · simp

theorem keys_setDefault {κ ν : Type} [DecidableEq κ] (d : List (κ × ν)) (k : κ) (v : ν) (k' : κ) :
    k' ∈ (setDefault d k v).1.map (·.1) ↔ k' ∈ d.map (·.1) ∨ k' = k := by
  unfold setDefault
  cases hl : lookup k d with
  | none => simp
  | some x =>
    have hk : k ∈ d.map (·.1) := (lookup_isSome_iff d k).mp (by simp [hl])
    simp only
    constructor
    · exact Or.inl
    · rintro (y | y)
      · exact y
      · subst y; exact hk

theorem assignStep_part (mode : Nat) (hm : mode ≤ 5) (st : AssignSt) (k k' : Key) :
    k' ∈ (assignStep mode st k).part.map (·.1) ↔ k' ∈ st.part.map (·.1) ∨ k' = k := by
  have : mode = 0 ∨ mode = 1 ∨ mode = 2 ∨ mode = 3 ∨ mode = 4 ∨ mode = 5 := by omega
  rcases this with h | h | h | h | h | h <;> subst h <;>
    simp only [assignStep, if_true, Nat.reduceEqDiff, if_false, keys_setItem, keys_setDefault]

theorem assign_fold_part (mode : Nat) (hm : mode ≤ 5) (keys : List Key) (st : AssignSt) (k' : Key) :
    k' ∈ (keys.foldl (assignStep mode) st).part.map (·.1) ↔ k' ∈ st.part.map (·.1) ∨ k' ∈ keys := by
  induction keys generalizing st with
  | nil => simp
  | cons k rest ih =>
    simp only [List.foldl_cons, ih, assignStep_part mode hm, List.mem_cons]
    constructor
    · rintro ((x | x) | x)
      · exact Or.inl x
      · exact Or.inr (Or.inl x)
      · exact Or.inr (Or.inr x)
    · rintro (x | x | x)
      · exact Or.inl (Or.inl x)
      · exact Or.inl (Or.inr x)
      · exact Or.inr x

/-- for each of the six documented modes every (track, channel) key is given a part -/
theorem assign_part_some (mode : Nat) (hm : mode ≤ 5) (keys : List Key) :
    ∀ g ∈ assign mode keys, g.2.1.isSome := by
  intro g hg
  unfold assign at hg
  simp only [List.mem_map] at hg
  obtain ⟨k, hk, rfl⟩ := hg
  simp only
  rw [lookup_isSome_iff, assign_fold_part mode hm]
  exact Or.inr hk

theorem assign_length (mode : Nat) (keys : List Key) : (assign mode keys).length = keys.length := by
  simp [assign]


-- ------------------------------------------------------------------ the zip of part_voice_list, note_list, spellings, ids

theorem mapM_length {α β : Type} (f : α → Option β) (l : List α) (r : List β) (h : l.mapM f = some r) :
    r.length = l.length := by
  induction l generalizing r with
  | nil => simp at h; subst h; rfl
  | cons a l ih =>
    simp only [List.mapM_cons, Option.bind_eq_bind, Option.bind_eq_some_iff, Option.pure_def, Option.some.injEq] at h
    obtain ⟨b, _, r', hr', rfl⟩ := h
    simp [ih r' hr']

theorem pvl_length : ∀ (gpv : List (Option Nat × Option Nat × Option Nat)) (perKey : List (List Note3)),
    gpv.length = perKey.length → (partVoiceList gpv perKey).length = (noteList perKey).length := by
  intro gpv
  induction gpv with
  | nil => intro perKey h; cases perKey with
    | nil => rfl
    | cons _ _ => simp at h
  | cons g gs ih =>
    intro perKey h
    cases perKey with
    | nil => simp at h
    | cons l ls =>
      have := ih ls (by simpa using h)
      simp only [partVoiceList, noteList, List.zip_cons_cons, List.flatMap_cons, List.length_append, List.length_map,
        List.flatten_cons] at this ⊢
      omega

theorem zip4 {α β γ δ : Type} : ∀ (nl : List β) (ps : List α) (vs : List γ) (sp : List δ),
    ps.length = nl.length → vs.length = nl.length → sp.length = nl.length →
    ((ps.zip nl).zip (vs.zip sp)).map (fun x => (x.1.2, x.2.2)) = nl.zip sp := by
  intro nl
  induction nl with
  | nil => intro ps vs sp h1 h2 h3; cases ps <;> simp_all
  | cons n nl ih =>
    intro ps vs sp h1 h2 h3
    cases ps with
    | nil => simp at h1
    | cons p ps =>
      cases vs with
      | nil => simp at h2
      | cons v vs =>
        cases sp with
        | nil => simp at h3
        | cons s sp =>
          simp only [List.zip_cons_cons, List.map_cons, List.cons.injEq, true_and]
          exact ih ps vs sp (by simpa using h1) (by simpa using h2) (by simpa using h3)

theorem mkItems_core (ids : Bool) (parts : List Nat) (nl : List Note3) (voices : List (Option Int))
    (sp : List (String × Int × Int)) (h1 : parts.length = nl.length) (h2 : voices.length = nl.length)
    (h3 : sp.length = nl.length) :
    (mkItems ids parts nl voices sp).map (fun it => (it.note.pitch, it.note.step, it.note.alter, it.note.octave)) =
      (nl.zip sp).map fun x => (x.1.2.1, x.2.1, x.2.2.1, x.2.2.2) := by
  rw [← zip4 nl parts voices sp h1 h2 h3]
  unfold mkItems
  simp only [List.map_map]
  generalize (parts.zip nl).zip (voices.zip sp) = Z
  have : ∀ k, (Z.zipIdx k).map ((fun it : Item => (it.note.pitch, it.note.step, it.note.alter, it.note.octave)) ∘
      fun x : ((Nat × Note3) × (Option Int × (String × Int × Int))) × Nat =>
        ({ part := x.1.1.1,
           note := { onset := x.1.1.2.1, pitch := x.1.1.2.2.1, dur := x.1.1.2.2.2, voice := x.1.2.1.getD 0, step := x.1.2.2.1,
                     alter := x.1.2.2.2.1, octave := x.1.2.2.2.2, idx := x.2,
                     id := if ids then some (fmt1 MIDI_NOTE_ID_FORMAT x.2) else none } } : Item)) =
      Z.map ((fun x : Note3 × (String × Int × Int) => (x.1.2.1, x.2.1, x.2.2.1, x.2.2.2)) ∘
        fun x : (Nat × Note3) × (Option Int × (String × Int × Int)) => (x.1.2, x.2.2)) := by
    induction Z with
    | nil => intro k; rfl
    | cons z Z ih => intro k; simp [List.zipIdx_cons, ih (k + 1)]
  exact this 0

theorem wellPaired_range (S : List (Nat × Nat)) (ms : List Msg) (h : WellPaired S ms) :
    ∀ p ∈ onPitches ms, 0 ≤ p ∧ p ≤ 127 := by
  induction h with
  | nil => simp [onPitches]
  | skip S m ms h1 _ _ ih => simpa [onPitches, List.filter, h1] using ih
  | on S m ms h1 _ _ hn _ ih =>
    intro p hp
    have e : onPitches (m :: ms) = (m.note : Int) :: onPitches ms := by simp [onPitches, List.filter, h1]
    rw [e] at hp
    rcases List.mem_cons.mp hp with rfl | hp
    · omega
    · exact ih p hp
  | off S m ms h1 _ _ ih =>
    have : ¬ startsNote m := by
      unfold startsNote; unfold endsNote at h1
      rcases h1 with x | ⟨_, x⟩
      · intro y; rw [x] at y; exact absurd y.1 (by decide)
      · intro y; omega
    simpa [onPitches, List.filter, this] using ih

theorem voicesOf_length (e : Bool) (pvl : List (Option Nat × Option Nat)) (nl : List Note3) (v : List (Option Int))
    (h : voicesOf e pvl nl = some v) : v.length = pvl.length := by
  unfold voicesOf at h
  cases e with
  | false => simp at h; subst h; simp
  | true =>
    simp only [if_true, Option.bind_eq_some_iff] at h
    obtain ⟨est, _, h⟩ := h
    split at h
    · simp at h
    · rename_i hl
      simp only [Option.some.injEq] at h
      subst h
      simp only [List.length_map, List.length_zip]
      simp only [ne_eq, Decidable.not_not] at hl
      omega


-- ------------------------------------------------------------------ totality

theorem mapM_mem {α β : Type} (f : α → Option β) (l : List α) (r : List β) (h : l.mapM f = some r) :
    ∀ b ∈ r, ∃ a ∈ l, f a = some b := by
  induction l generalizing r with
  | nil => simp at h; subst h; simp
  | cons a l ih =>
    simp only [List.mapM_cons, Option.bind_eq_bind, Option.bind_eq_some_iff, Option.pure_def, Option.some.injEq] at h
    obtain ⟨b, hb, r', hr', rfl⟩ := h
    intro x hx
    rcases List.mem_cons.mp hx with rfl | hx
    · exact ⟨a, List.mem_cons_self, hb⟩
    · obtain ⟨a', ha', hf⟩ := ih r' hr' x hx
      exact ⟨a', List.mem_cons_of_mem _ ha', hf⟩

theorem mapM_total {α β : Type} (f : α → Option β) (l : List α) (h : ∀ a ∈ l, (f a).isSome) :
    ∃ r, l.mapM f = some r := by
  induction l with
  | nil => exact ⟨[], rfl⟩
  | cons a l ih =>
    obtain ⟨r, hr⟩ := ih (fun x hx => h x (List.mem_cons_of_mem _ hx))
    obtain ⟨b, hb⟩ := Option.isSome_iff_exists.mp (h a List.mem_cons_self)
    exact ⟨b :: r, by simp [List.mapM_cons, hb, hr]⟩

theorem pvl_parts (gpv : List (Option Nat × Option Nat × Option Nat)) (perKey : List (List Note3)) :
    ∀ x ∈ partVoiceList gpv perKey, x.1 ∈ gpv.map (·.2.1) := by
  intro x hx
  unfold partVoiceList at hx
  obtain ⟨y, hy, hx⟩ := List.mem_flatMap.mp hx
  obtain ⟨_, _, rfl⟩ := List.mem_map.mp hx
  exact List.mem_map.mpr ⟨y.1, (List.of_mem_zip hy).1, rfl⟩

theorem notesByPart_keys (items : List Item) : ∀ k ∈ (notesByPart items).map (·.1), k ∈ items.map (·.part) := by
  unfold notesByPart
  suffices h : ∀ d0 : List (Nat × List NoteOut), ∀ k ∈ (items.foldl (fun d it => appendAt d it.part it.note) d0).map (·.1),
      k ∈ d0.map (·.1) ∨ k ∈ items.map (·.part) by
    intro k hk
    rcases h [] k hk with x | x
    · simp at x
    · exact x
  induction items with
  | nil => intro d0 k hk; exact Or.inl hk
  | cons it rest ih =>
    intro d0 k hk
    simp only [List.foldl_cons] at hk
    rcases ih _ k hk with x | x
    · rw [appendAt_keys] at x
      split at x
      · exact Or.inl x
      · rcases List.mem_append.mp x with y | y
        · exact Or.inl y
        · simp at y; subst y; exact Or.inr (by simp)
    · exact Or.inr (by simp [x])

theorem mkItems_parts (ids : Bool) (parts : List Nat) (nl : List Note3) (voices : List (Option Int))
    (sp : List (String × Int × Int)) : ∀ k ∈ (mkItems ids parts nl voices sp).map (·.part), k ∈ parts := by
  intro k hk
  unfold mkItems at hk
  simp only [List.map_map, List.mem_map, Function.comp] at hk
  obtain ⟨x, hx, rfl⟩ := hk
  have h1 : x.1 ∈ (parts.zip nl).zip (voices.zip sp) := by
    obtain ⟨i, hi, hxi⟩ := List.mem_iff_getElem.mp hx
    rw [← hxi]
    simp only [List.getElem_zipIdx]
    exact List.getElem_mem _
  exact (List.of_mem_zip (List.of_mem_zip h1).1).1

theorem routeParts_total (gpv : List (Option Nat × Option Nat × Option Nat)) (key : Option String) (items : List Item)
    (h : ∀ it ∈ items, some it.part ∈ gpv.map (·.2.1)) : ∃ parts, routeParts gpv key items = some parts := by
  unfold routeParts
  have hk : ∀ e ∈ notesByPart items, (lookup (some e.1) (gpv.map fun g => (g.2.1, g.1)).reverse).isSome := by
    intro e he
    rw [lookup_isSome_iff]
    have : e.1 ∈ items.map (·.part) := notesByPart_keys items e.1 (List.mem_map.mpr ⟨e, he, rfl⟩)
    obtain ⟨it, hit, hpe⟩ := List.mem_map.mp this
    have := h it hit
    rw [hpe] at this
    simpa [List.map_reverse, List.map_map, Function.comp_def] using this
  generalize notesByPart items = es at hk
  suffices hs : ∀ pl0 : List (Option Nat × List PartOut), ∃ pl,
      es.foldlM (fun (pl : List (Option Nat × List PartOut)) e =>
        (lookup (some e.1) (gpv.map fun g => (g.2.1, g.1)).reverse).bind fun pg =>
          some (addPart pl pg { id := fmt1 MIDI_PART_ID_FORMAT (e.1 + MIDI_PART_ID_OFFSET), key := key, notes := e.2 })) pl0 = some pl by
    obtain ⟨pl, hpl⟩ := hs []
    exact ⟨pl.flatMap (·.2), by simp [hpl]⟩
  induction es with
  | nil => intro pl0; exact ⟨pl0, rfl⟩
  | cons e rest ih =>
    intro pl0
    obtain ⟨pg, hpg⟩ := Option.isSome_iff_exists.mp (hk e List.mem_cons_self)
    obtain ⟨pl, hpl⟩ := ih (fun x hx => hk x (List.mem_cons_of_mem _ hx))
      (addPart pl0 pg { id := fmt1 MIDI_PART_ID_FORMAT (e.1 + MIDI_PART_ID_OFFSET), key := key, notes := e.2 })
    exact ⟨pl, by simp [List.foldlM_cons, hpg, hpl]⟩


end C17M
