/-
C07 — the pitch post-processing of score notes and pre-1.0 performed notes
(`ensure_pitch_spelling_format` on the three interpreted fields NoteName / Modifier / Octave):
the texts the template writes for a spelled pitch are post-processed back to that pitch.
-/
import PartituraModel.Model.MatchLine
import PartituraModel.Proofs.C07Codec
import PartituraModel.Proofs.C07Full

namespace C07Line
open Model Model.Template Model.MatchCodec Model.MatchLine Gen

/-- an optional integer as a field value (`None` / int) -/
def optInt : Option Int → Val
  | none => .none
  | some i => .int i

/-- what `ensurePitch` makes of the Modifier text -/
def alterOf (a : Str) : Option Val :=
  match lookup (String.ofList a) SIGN_TO_ALTER with
  | some (some i) => some (Val.int i)
  | some none => some Val.none
  | none => none

def stepOK (s : Str) : Bool := midiBaseHas (lowerS s) || lowerS s == ['r']

theorem ensurePitch_int (s a : Str) (A : Val) (o : Int) (hs : stepOK s = true) (ha : alterOf a = some A) :
    ensurePitch (.str s) (.str a) (.int o) = .ok (.str (upperS s), A, .int o) := by
  unfold stepOK at hs
  unfold alterOf at ha
  unfold ensurePitch
  simp only [hs, if_true, bind, Except.bind, pure, Except.pure]
  split at ha
  · rename_i i hi; injection ha with ha; subst ha; first | rfl | simp [hi]
  · rename_i hi; injection ha with ha; subst ha; first | rfl | simp [hi]
  · simp at ha

theorem showNatS_ne_dash (n : Nat) : showNatS n ≠ ['-'] := by
  intro h
  have := C07Codec.showNatS_isDigit n '-' (by rw [h]; simp)
  exact absurd this (by decide)

theorem showIntS_ne_dash (i : Int) : showIntS i ≠ ['-'] := by
  unfold showIntS
  split
  · intro h
    injection h with _ h2
    exact C07Codec.showNatS_ne_nil _ h2
  · exact showNatS_ne_dash _

/-- the Octave of a score note is kept as text by the field table and interpreted by the post-processing:
    `-` is None, a numeral is its integer -/
theorem ensurePitch_str (s a : Str) (A : Val) (o : Option Int) (hs : stepOK s = true) (ha : alterOf a = some A) :
    ensurePitch (.str s) (.str a) (.str (encInt o)) = .ok (.str (upperS s), A, optInt o) := by
  unfold stepOK at hs
  unfold alterOf at ha
  unfold ensurePitch
  simp only [hs, if_true, bind, Except.bind, pure, Except.pure]
  have hA : (match lookup (String.ofList a) SIGN_TO_ALTER with
      | some (some i) => (Except.ok (Val.int i) : Except Err Val)
      | some none => Except.ok Val.none
      | none => Except.error Err.value) = Except.ok A := by
    split at ha
    · rename_i i hi; injection ha with ha; subst ha; simp only [hi]
    · rename_i hi; injection ha with ha; subst ha; simp only [hi]
    · simp at ha
  cases o with
  | none =>
    simp only [encInt, optInt]
    split at ha
    · rename_i i hi; injection ha with ha; subst ha; simp [hi]
    · rename_i hi; injection ha with ha; subst ha; simp [hi]
    · simp at ha
  | some i =>
    have hne : (showIntS i == ['-']) = false := by
      simpa using showIntS_ne_dash i
    simp only [encInt, optInt, hne, C07Codec.parseInt_showIntS]
    split at ha
    · rename_i j hj; injection ha with ha; subst ha; simp [hj]
    · rename_i hj; injection ha with ha; subst ha; simp [hj]
    · simp at ha

-- ---------------------------------------------------------------- the table-level part (decidable)

def pitchNames : List String := ["NoteName", "Modifier", "Octave"]

/-- the steps a class stores: an upper-case letter, or `R` for a rest (score notes only) -/
def stepsOf : Post → List Str
  | .pitchSpelling => ["C", "D", "E", "F", "G", "A", "B", "R"].map String.toList
  | .pitchSpellingNote => ["C", "D", "E", "F", "G", "A", "B"].map String.toList
  | .none => []

def alters : List (Option Int) := [none, some (-2), some (-1), some 0, some 1, some 2]

/-- layout of a template with pitch post-processing (decidable): the fields are
    `x, NoteName, Modifier, Octave, rest…`; the three pitch fields are read as text (the Octave of a
    pre-1.0 performed note as an integer) and the Octave is written by `format_int`; all other fields
    are independent of each other and of the pitch -/
def pitchLayout (t : Template) : Bool :=
  match t.fields with
  | f0 :: fN :: fM :: fO :: fr =>
    !pitchNames.contains f0.1 && plainField f0
      && fN.1 == "NoteName" && fN.2.2 == Dec.str && plainField fN
      && fM.1 == "Modifier" && fM.2.2 == Dec.str && plainField fM
      && fO.1 == "Octave" && fO.2.1 == Enc.int
      && fO.2.2 == (if t.post == Post.pitchSpelling then Dec.str else Dec.int)
      && fr.all (fun f => !pitchNames.contains f.1 && plainField f)
  | _ => false

/-- the texts written for a step and an accidental are read back by the post-processing (decidable) -/
def pitchTextOK (t : Template) (step : Str) (alter : Option Int) : Bool :=
  match t.fields with
  | _ :: fN :: fM :: _ =>
    (match encode fN.2.1 (.str step), encode fM.2.1 (optInt alter) with
     | some x1, some x2 => stepOK x1 && upperS x1 == step && alterOf x2 == some (optInt alter)
     | _, _ => false)
  | _ => false

/-- a pre-1.0 performed note computes its MIDI pitch when it is built: every step with every accidental does -/
def midiOK (step : Str) (_alter : Option Int) : Bool :=
  (lookup (lower (String.ofList step)) MIDI_BASE_CLASS).isSome

theorem spellingToMidi_isSome (step : Str) (alter : Option Int) (o : Int) (h : midiOK step alter = true) :
    (spellingToMidi (String.ofList step) alter o).isSome = true := by
  unfold midiOK at h
  unfold spellingToMidi
  cases hl : lookup (lower (String.ofList step)) MIDI_BASE_CLASS with
  | none => rw [hl] at h; simp at h
  | some b => simp

/-- the alteration as `pitch_spelling_to_midi_pitch` receives it -/
def alterInt : Val → Option Int
  | .int i => some i
  | _ => none

theorem setField_notin (names : List String) (n : String) (v : Val) : ∀ (vals : List Val),
    names.length = vals.length → n ∉ names → setField names vals n v = vals := by
  induction names with
  | nil => intro vals hl _; cases vals with
    | nil => rfl
    | cons a b => simp at hl
  | cons m ms ih =>
    intro vals hl hn
    cases vals with
    | nil => simp at hl
    | cons x xs =>
      simp only [List.mem_cons, not_or] at hn
      have hmn : (m == n) = false := by
        have : m ≠ n := fun e => hn.1 e.symm
        simpa using this
      have := ih xs (by simpa using hl) hn.2
      unfold setField at this ⊢
      simp only [List.zip_cons_cons, List.map_cons, hmn, Bool.false_eq_true, if_false, this]

/-- **the post-processing of a pitch line**: for a template of the pitch layout, the interpreted fields
    `x, text₁, text₂, octave, rest…` become `x, step, alter, octave, rest…` -/
theorem applyPost_pitch (t : Template) (hp : t.post ≠ Post.none) (hl : pitchLayout t = true)
    (v0 : Val) (x1 x2 : Str) (r3 : Val) (rest : List Val) (S : Str) (A O : Val)
    (hlen : rest.length + 4 = t.fields.length)
    (he : ensurePitch (.str x1) (.str x2) r3 = .ok (.str S, A, O))
    (hm : t.post = Post.pitchSpellingNote → ∃ o : Int, O = .int o ∧
      (spellingToMidi (String.ofList S) (alterInt A) o).isSome = true) :
    applyPost t (v0 :: .str x1 :: .str x2 :: r3 :: rest) = .ok (v0 :: .str S :: A :: O :: rest) := by
  unfold pitchLayout at hl
  split at hl
  · rename_i f0 fN fM fO fr hf
    simp only [Bool.and_eq_true, Bool.not_eq_true', beq_iff_eq] at hl
    obtain ⟨⟨⟨⟨⟨⟨⟨⟨⟨⟨⟨h0, _⟩, hN⟩, _⟩, _⟩, hM⟩, _⟩, _⟩, hO⟩, _⟩, _⟩, hr⟩ := hl
    have h0N : (f0.1 == "NoteName") = false := by
      cases h : f0.1 == "NoteName" with
      | false => rfl
      | true => rw [beq_iff_eq] at h; rw [h] at h0; simp [pitchNames] at h0
    have h0M : (f0.1 == "Modifier") = false := by
      cases h : f0.1 == "Modifier" with
      | false => rfl
      | true => rw [beq_iff_eq] at h; rw [h] at h0; simp [pitchNames] at h0
    have h0O : (f0.1 == "Octave") = false := by
      cases h : f0.1 == "Octave" with
      | false => rfl
      | true => rw [beq_iff_eq] at h; rw [h] at h0; simp [pitchNames] at h0
    have hrn : ∀ n ∈ pitchNames, n ∉ fr.map (·.1) := by
      intro n hn hmem
      rw [List.mem_map] at hmem
      obtain ⟨f, hf1, hf2⟩ := hmem
      rw [List.all_eq_true] at hr
      have := hr f hf1
      simp only [Bool.and_eq_true, Bool.not_eq_true'] at this
      rw [hf2] at this
      have hc : pitchNames.contains n = true := by simpa using hn
      rw [hc] at this
      exact absurd this.1 (by simp)
    have hlr : (fr.map (·.1)).length = rest.length := by
      rw [hf] at hlen
      simp only [List.length_cons, List.length_map] at hlen ⊢
      omega
    have hnames : t.fields.map (·.1) = f0.1 :: "NoteName" :: "Modifier" :: "Octave" :: fr.map (·.1) := by
      rw [hf]; simp [hN, hM, hO]
    unfold applyPost
    have hpost : ∀ p, t.post = p → p ≠ Post.none := fun p e => e ▸ hp
    have gN : getField (t.fields.map (·.1)) (v0 :: .str x1 :: .str x2 :: r3 :: rest) "NoteName" = .str x1 := by
      rw [hnames]; simp [getField, List.find?, h0N]
    have gM : getField (t.fields.map (·.1)) (v0 :: .str x1 :: .str x2 :: r3 :: rest) "Modifier" = .str x2 := by
      rw [hnames]; simp [getField, List.find?, h0M]
    have gO : getField (t.fields.map (·.1)) (v0 :: .str x1 :: .str x2 :: r3 :: rest) "Octave" = r3 := by
      rw [hnames]; simp [getField, List.find?, h0O]
    have hset : setField (t.fields.map (·.1))
        (setField (t.fields.map (·.1))
          (setField (t.fields.map (·.1)) (v0 :: .str x1 :: .str x2 :: r3 :: rest) "NoteName" (.str S)) "Modifier" A) "Octave" O
        = v0 :: .str S :: A :: O :: rest := by
      rw [hnames]
      have e1 := setField_notin (fr.map (·.1)) "NoteName" (.str S) rest hlr (hrn _ (by simp [pitchNames]))
      have e2 := setField_notin (fr.map (·.1)) "Modifier" A rest hlr (hrn _ (by simp [pitchNames]))
      have e3 := setField_notin (fr.map (·.1)) "Octave" O rest hlr (hrn _ (by simp [pitchNames]))
      unfold setField at e1 e2 e3 ⊢
      simp only [List.zip_cons_cons, List.map_cons, h0N, h0M, h0O, Bool.false_eq_true, if_false,
        beq_self_eq_true, if_true, e1, e2, e3]
      try simp
    cases hpp : t.post with
    | none => exact absurd hpp hp
    | pitchSpelling =>
      simp only [gN, gM, gO, he, bind, Except.bind, pure, Except.pure]
      simp only [hset]
      simp
    | pitchSpellingNote =>
      obtain ⟨o, hOo, hmid⟩ := hm hpp
      subst hOo
      simp only [gN, gM, gO, he, bind, Except.bind, pure, Except.pure]
      simp only [hset]
      simp
      intro h
      have h2 : spellingToMidi (String.ofList S) (alterInt A) o = none := by
        cases A <;> exact h
      rw [h2] at hmid
      simp at hmid
  · simp at hl

-- ---------------------------------------------------------------- the whole pitch line

/-- field by field: the value is written as the text; every field but the three pitch fields is read
    back from its text by its own interpreter (the pitch fields are read back by the post-processing) -/
def RTP : List (String × Enc × Dec) → List Val → List (String × Str) → Prop
  | [], [], [] => True
  | f :: fs, v :: vs, e :: es =>
    e.1 = f.1 ∧ encode f.2.1 v = some e.2 ∧ (f.1 ∈ pitchNames ∨ decode f.2.2 e.2 = .ok v) ∧ RTP fs vs es
  | _, _, _ => False

theorem RTA_of_RTP (t : Template) (a : Option Str) : ∀ (fs : List (String × Enc × Dec)) (vs : List Val)
    (es : List (String × Str)), (fs.all fun f => !pitchNames.contains f.1 && plainField f) = true →
    RTP fs vs es → RTA t a fs vs vs es := by
  intro fs
  induction fs with
  | nil => intro vs es _ h; cases vs <;> cases es <;> simp_all [RTP, RTA]
  | cons f fs ih =>
    intro vs es hp h
    cases vs with
    | nil => simp [RTP] at h
    | cons v vs =>
      cases es with
      | nil => simp [RTP] at h
      | cons e es =>
        simp only [List.all_cons, Bool.and_eq_true, Bool.not_eq_true'] at hp
        obtain ⟨⟨hnp, hpl⟩, hrest⟩ := hp
        obtain ⟨hn, he, hd, hr⟩ := h
        refine ⟨hn, ⟨f.2, codecFor_plain t a f hpl, he, ?_⟩, ih vs es (by simpa using hrest) hr⟩
        rcases hd with hd | hd
        · have : pitchNames.contains f.1 = true := by simpa using hd
          rw [this] at hnp; exact absurd hnp (by simp)
        · exact hd

theorem length_of_RTP : ∀ (fs : List (String × Enc × Dec)) (vs : List Val) (es : List (String × Str)),
    RTP fs vs es → vs.length = fs.length := by
  intro fs
  induction fs with
  | nil => intro vs es h; cases vs <;> cases es <;> simp_all [RTP]
  | cons f fs ih =>
    intro vs es h
    cases vs with
    | nil => simp [RTP] at h
    | cons v vs =>
      cases es with
      | nil => simp [RTP] at h
      | cons e es =>
        obtain ⟨_, _, _, hr⟩ := h
        simp [ih vs es hr]

theorem alterInt_optInt (a : Option Int) : alterInt (optInt a) = a := by
  cases a <;> rfl

/-- **a line with pitch post-processing** (score note, pre-1.0 performed note) of the pitch layout whose
    step / accidental texts are read back (`pitchTextOK`): written, searched behind `pre` and before
    `tail`, interpreted and post-processed, it gives back `x, step, alter, octave, rest…` -/
theorem pitch_line (t : Template) (ht : templateOK t = true) (hp : t.post ≠ Post.none) (hl : pitchLayout t = true)
    (v0 : Val) (step : Str) (alter octave : Option Int) (rest : List Val)
    (es : List (String × Str)) (pre tail : List Char)
    (htext : pitchTextOK t step alter = true)
    (hoct : t.post = Post.pitchSpellingNote → octave.isSome = true ∧ midiOK step alter = true)
    (hrt : RTP t.fields (v0 :: .str step :: optInt alter :: optInt octave :: rest) es)
    (hv : fieldsOKGen t.out t.pat (textOf es) tail = true)
    (hpre : noEarly t.pat pre (render t.out (textOf es) ++ tail) = true) :
    formatT t (v0 :: .str step :: optInt alter :: optInt octave :: rest) = some (render t.out (textOf es)) ∧
      parseT t (pre ++ (render t.out (textOf es) ++ tail))
        = .ok (v0 :: .str step :: optInt alter :: optInt octave :: rest) := by
  have hlen := length_of_RTP _ _ _ hrt
  have hl' := hl
  unfold pitchLayout at hl
  split at hl
  · rename_i f0 fN fM fO fr hf
    simp only [Bool.and_eq_true, Bool.not_eq_true', beq_iff_eq] at hl
    obtain ⟨⟨⟨⟨⟨⟨⟨⟨⟨⟨⟨h0, hp0⟩, hN⟩, hNd⟩, hpN⟩, hM⟩, hMd⟩, hpM⟩, hO⟩, hOe⟩, hOd⟩, hr⟩ := hl
    unfold pitchTextOK at htext
    rw [hf] at htext hrt
    simp only at htext
    -- the four leading texts
    cases es with
    | nil => simp [RTP] at hrt
    | cons e0 es =>
    cases es with
    | nil => simp [RTP] at hrt
    | cons eN es =>
    cases es with
    | nil => simp [RTP] at hrt
    | cons eM es =>
    cases es with
    | nil => simp [RTP] at hrt
    | cons eO er =>
    obtain ⟨hn0, he0, hd0, hn1, heN, _, hn2, heM, _, hn3, heO, _, hrr⟩ := hrt
    rw [heN, heM] at htext
    simp only [Bool.and_eq_true, beq_iff_eq] at htext
    obtain ⟨⟨hstepOK, hup⟩, halt⟩ := htext
    have hd0' : decode f0.2.2 e0.2 = .ok v0 := by
      rcases hd0 with h | h
      · have : pitchNames.contains f0.1 = true := by simpa using h
        rw [this] at h0; exact absurd h0 (by simp)
      · exact h
    have heO' : eO.2 = encInt octave := by
      rw [hOe] at heO
      cases octave with
      | none => simp only [optInt, encode] at heO; injection heO with heO; exact heO.symm
      | some o => simp only [optInt, encode] at heO; injection heO with heO; exact heO.symm
    -- the Octave as its interpreter returns it, and the post-processing
    have hraw : ∃ r3, decode fO.2.2 eO.2 = .ok r3 ∧
        ensurePitch (.str eN.2) (.str eM.2) r3 = .ok (.str step, optInt alter, optInt octave) := by
      by_cases hps : t.post = Post.pitchSpelling
      · rw [if_pos hps] at hOd
        refine ⟨.str eO.2, by rw [hOd]; rfl, ?_⟩
        rw [heO', ← hup]
        exact ensurePitch_str eN.2 eM.2 _ octave hstepOK halt
      · rw [if_neg hps] at hOd
        have hnote : t.post = Post.pitchSpellingNote := by
          cases hpp : t.post with
          | none => exact absurd hpp hp
          | pitchSpelling => exact absurd hpp hps
          | pitchSpellingNote => rfl
        obtain ⟨hsome, _⟩ := hoct hnote
        cases octave with
        | none => simp at hsome
        | some o =>
          refine ⟨.int o, ?_, ?_⟩
          · rw [hOd, heO']
            simp only [decode, encInt, C07Codec.parseInt_showIntS, liftO, Except.map]
          · rw [← hup]
            exact ensurePitch_int eN.2 eM.2 _ o hstepOK halt
    obtain ⟨r3, hdO, hens⟩ := hraw
    have hrest : rest.length + 4 = t.fields.length := by
      rw [hf] at hlen ⊢
      simp only [List.length_cons] at hlen ⊢
      omega
    have hpost := applyPost_pitch t hp hl' v0 eN.2 eM.2 r3 rest step (optInt alter) (optInt octave) hrest hens
      (by
        intro hnote
        obtain ⟨hsome, hmid⟩ := hoct hnote
        cases octave with
        | none => simp at hsome
        | some o =>
          refine ⟨o, rfl, ?_⟩
          rw [alterInt_optInt]
          exact spellingToMidi_isSome step alter o hmid)
    have hdeps : depsOK t = true := by
      unfold depsOK
      rw [hf]
      have : (fr.all plainField) = true := by
        rw [List.all_eq_true] at hr ⊢
        intro f hfm
        have := hr f hfm
        simp only [Bool.and_eq_true] at this
        exact this.2
      have hpO : plainField fO = true := by
        unfold plainField; rw [hOe]; decide
      simp [hp0, hpN, hpM, hpO, this]
    have hrta : RTA t (attrOf t (v0 :: .str step :: optInt alter :: optInt octave :: rest)) t.fields
        (v0 :: .str step :: optInt alter :: optInt octave :: rest)
        (v0 :: .str eN.2 :: .str eM.2 :: r3 :: rest) (e0 :: eN :: eM :: eO :: er) := by
      rw [hf]
      refine ⟨hn0, ⟨f0.2, codecFor_plain t _ f0 hp0, he0, hd0'⟩,
        hn1, ⟨fN.2, codecFor_plain t _ fN hpN, heN, by rw [hNd]; rfl⟩,
        hn2, ⟨fM.2, codecFor_plain t _ fM hpM, heM, by rw [hMd]; rfl⟩,
        hn3, ⟨fO.2, codecFor_plain t _ fO (by unfold plainField; rw [hOe]; decide), heO, hdO⟩,
        RTA_of_RTP t _ fr rest er hr hrr⟩
    exact line_roundtrip_gen t _ _ _ pre tail ht hdeps hrta hpost hv hpre
  · simp at hl

end C07Line
