/-
C03 — saving the loaded note again gives the same element (the element-level part of the byte fixpoint).
-/
import PartituraModel.Proofs.C03Notations

namespace C03.Fix
open Model Model.XmlNote C03.Text C03.Note

theorem intOr_ne_zero {v : Int} (h : v ≠ 0) (d : Int) : intOr (some v) d = v := by simp [intOr, h]

theorem canonNumber_ne_zero (n : NoteAttrs) {k : Nat} (h : k ≠ 0) : canonNumber n k = k := by
  unfold canonNumber
  exact intOr_ne_zero (by exact_mod_cast h) _

/-! ### the pieces -/

theorem graceEl_map (g : Option GraceType) :
    graceEl (g.map fun g => if g = .acciaccatura then GraceType.acciaccatura else .grace) = graceEl g := by
  cases g with
  | none => rfl
  | some g => cases g <;> rfl

theorem alterEl_truthy (a : Option Int) : alterEl (truthy a) = alterEl a := by
  cases a with
  | none => rfl
  | some a => by_cases h : a = 0 <;> simp [truthy, alterEl, h]

theorem body_fix (b : Body) (h : b ≠ .rest true) : bodyEls (reexportBody (canonBody b)) = bodyEls b := by
  cases b with
  | pitched step alter octave grace =>
    simp only [canonBody, reexportBody, bodyEls, graceEl_map, alterEl_truthy]
  | unpitched step octave nh =>
    cases nh with
    | none => rfl
    | some p => rfl
  | rest hidden =>
    cases hidden with
    | true => exact absurd rfl h
    | false => rfl

theorem isGrace_fix (b : Body) : (reexportBody (canonBody b)).isGrace = b.isGrace := by
  cases b with
  | pitched step alter octave grace => cases grace <;> rfl
  | unpitched step octave nh => rfl
  | rest hidden => rfl

theorem articEls_fix (arts : List ArtName) : articEls ((artsOf arts).map .known) = articEls arts := by
  induction arts with
  | nil => rfl
  | cons a r ih =>
    cases a with
    | known k => rw [artsOf_cons_k, List.map_cons, articEls_cons_k, articEls_cons_k, ih]
    | unknown => rw [artsOf_cons_u, articEls_cons_u, ih]

theorem fingeringEls_fix (ts : List Tech) : fingeringEls ((fingsOf ts).map .fingering) = fingeringEls ts := by
  induction ts with
  | nil => rfl
  | cons a r ih =>
    cases a with
    | fingering f => rw [fingsOf_cons_f, List.map_cons, fingeringEls_cons_f, fingeringEls_cons_f, ih]
    | otherNotation => rw [fingsOf_cons_o, fingeringEls_cons_o, ih]

theorem filter_marks {α β : Type} (f : α → Bool × β) (g : α → Bool × β) (l1 l2 : List α)
    (h1 : ∀ a, (f a).1 = false) (h2 : ∀ a, (g a).1 = true) :
    ((l1.map f ++ l2.map g).filter fun m => !m.1) = l1.map f ∧ ((l1.map f ++ l2.map g).filter fun m => m.1) = l2.map g := by
  constructor
  · rw [List.filter_append, List.filter_eq_self.mpr, List.filter_eq_nil_iff.mpr, List.append_nil]
    · intro m hm; obtain ⟨a, _, rfl⟩ := List.mem_map.mp hm; simp [h2 a]
    · intro m hm; obtain ⟨a, _, rfl⟩ := List.mem_map.mp hm; simp [h1 a]
  · rw [List.filter_append, List.filter_eq_nil_iff.mpr, List.filter_eq_self.mpr, List.nil_append]
    · intro m hm; obtain ⟨a, _, rfl⟩ := List.mem_map.mp hm; simp [h2 a]
    · intro m hm; obtain ⟨a, _, rfl⟩ := List.mem_map.mp hm; simp [h1 a]

theorem map_id_of_ne_zero (n : NoteAttrs) (l : List Nat) (h : ∀ k ∈ l, k ≠ 0) :
    l.map (fun k => (canonNumber n k).toNat) = l := by
  induction l with
  | nil => rfl
  | cons a r ih =>
    rw [List.map_cons, canonNumber_ne_zero n (h a (by simp)), ih fun k hk => h k (List.mem_cons_of_mem _ hk)]
    simp

theorem slurs_fix (n : NoteAttrs) (h0 : ∀ k ∈ n.slurStops, k ≠ 0) (h1 : ∀ k ∈ n.slurStarts, k ≠ 0) :
    (((canon n).slurs.filter fun m => !m.1).map fun m => m.2.toNat) = n.slurStops ∧
    (((canon n).slurs.filter fun m => m.1).map fun m => m.2.toNat) = n.slurStarts := by
  have := filter_marks (canonSlur n false) (canonSlur n true) n.slurStops n.slurStarts (fun _ => rfl) (fun _ => rfl)
  simp only [canon]
  rw [this.1, this.2, List.map_map, List.map_map]
  exact ⟨map_id_of_ne_zero n _ h0, map_id_of_ne_zero n _ h1⟩

theorem tupletStart_fix (n : NoteAttrs) (t : TupletStart) (hk : t.number ≠ 0)
    (hi : t.info = none → canonTupletInfo n t = none) :
    tupletStartEl (reexportTuplet (canonTupletStart n t)) = tupletStartEl t := by
  unfold tupletStartEl
  have hnum : (reexportTuplet (canonTupletStart n t)).number = t.number := by
    unfold reexportTuplet canonTupletStart
    split <;> simp [canonNumber_ne_zero n hk]
  have hinfo : (reexportTuplet (canonTupletStart n t)).info = t.info := by
    cases hti : t.info with
    | none =>
      have : canonTupletInfo n t = none := hi hti
      simp only [reexportTuplet, canonTupletStart, this]
      rfl
    | some i =>
      have : canonTupletInfo n t = some i := by unfold canonTupletInfo; rw [hti]
      simp only [reexportTuplet, canonTupletStart, this]
      cases i; rfl
  rw [hnum, hinfo]

theorem filter_tmarks {α β : Type} (f : α → TupletMark) (g : β → TupletMark) (l1 : List α) (l2 : List β)
    (h1 : ∀ a, (f a).isStart = false) (h2 : ∀ a, (g a).isStart = true) :
    ((l1.map f ++ l2.map g).filter fun m => !m.isStart) = l1.map f ∧
      ((l1.map f ++ l2.map g).filter fun m => m.isStart) = l2.map g := by
  constructor
  · rw [List.filter_append, List.filter_eq_self.mpr, List.filter_eq_nil_iff.mpr, List.append_nil]
    · intro m hm; obtain ⟨a, _, rfl⟩ := List.mem_map.mp hm; simp [h2 a]
    · intro m hm; obtain ⟨a, _, rfl⟩ := List.mem_map.mp hm; simp [h1 a]
  · rw [List.filter_append, List.filter_eq_nil_iff.mpr, List.filter_eq_self.mpr, List.nil_append]
    · intro m hm; obtain ⟨a, _, rfl⟩ := List.mem_map.mp hm; simp [h2 a]
    · intro m hm; obtain ⟨a, _, rfl⟩ := List.mem_map.mp hm; simp [h1 a]

theorem tuplets_fix (n : NoteAttrs) (h0 : ∀ k ∈ n.tupletStops, k ≠ 0)
    (h1 : ∀ t ∈ n.tupletStarts, t.number ≠ 0 ∧ (t.info = none → canonTupletInfo n t = none)) :
    (((canon n).tuplets.filter fun m => !m.isStart).map fun m => m.number.toNat) = n.tupletStops ∧
    (((canon n).tuplets.filter fun m => m.isStart).map reexportTuplet).map tupletStartEl = n.tupletStarts.map tupletStartEl := by
  have := filter_tmarks (canonTupletStop n) (canonTupletStart n) n.tupletStops n.tupletStarts (fun _ => rfl) (fun _ => rfl)
  simp only [canon]
  rw [this.1, this.2, List.map_map, List.map_map, List.map_map]
  refine ⟨map_id_of_ne_zero n _ h0, ?_⟩
  apply List.map_congr_left
  intro t ht
  exact tupletStart_fix n t (h1 t ht).1 (h1 t ht).2

end C03.Fix
