/-
C18 (round 5) — lemmas about Model/CodecX.lean, third part: `monotonize_times(s)`, `encode_tempo` on arrays,
`decode_performance` without `snote_ids`, the onset-wise / note-wise helpers, monotone time maps, the velocity through
two single-precision roundings.
-/
import PartituraModel.Proofs.C18Ext2

namespace C18P
open Model Model.Codec

-- ------------------------------------------------------------------ monotonize_times(s)

theorem monoKnots_zip_ne_nil (xs ss : List Rat) (hx : xs ≠ []) (hs : ss ≠ []) : monoKnots (xs.zip ss) ≠ [] := by
  apply monoKnots_ne_nil
  cases xs with
  | nil => exact absurd rfl hx
  | cons a t =>
    cases ss with
    | nil => exact absurd rfl hs
    | cons b u => simp

theorem monotonizeDefault_spec (ss : List Rat) (hne : ss ≠ []) :
    ∃ mono, monotonizeDefault ss = some (mono, arange ss.length) ∧
    (monoKnots ((arange ss.length).zip ss)).Sublist ((arange ss.length).zip ss) ∧
    IncY (monoKnots ((arange ss.length).zip ss)) ∧
    (ss.Pairwise (· < ·) → mono = ss) ∧
    (2 ≤ (monoKnots ((arange ss.length).zip ss)).length → mono.length = ss.length ∧ mono.Pairwise (· < ·) ∧
        List.Forall₂ (fun (k : Rat × Rat) y => k ∈ monoKnots ((arange ss.length).zip ss) → y = k.2)
          ((arange ss.length).zip ss) mono) ∧
    (∀ k0, monoKnots ((arange ss.length).zip ss) = [k0] → mono = ss.map fun _ => k0.2) := by
  have hx := arange_strict ss.length
  have hlen : (arange ss.length).length = ss.length := arange_length _
  have hxne : arange ss.length ≠ [] := by
    intro h0
    have := congrArg List.length h0
    rw [hlen] at this
    exact hne (List.length_eq_zero_iff.mp this)
  have hkne := monoKnots_zip_ne_nil _ _ hxne hne
  -- the call returns
  obtain ⟨mono, hmono⟩ : ∃ mono, monotonize (arange ss.length) ss = some mono := by
    by_cases h2 : 2 ≤ (monoKnots ((arange ss.length).zip ss)).length
    · obtain ⟨mono, h, _⟩ := monotonize_strict _ _ hx hlen h2
      exact ⟨mono, h⟩
    · obtain ⟨k0, hk0⟩ : ∃ k0, monoKnots ((arange ss.length).zip ss) = [k0] := by
        cases hk : monoKnots ((arange ss.length).zip ss) with
        | nil => exact absurd hk hkne
        | cons k0 t =>
          cases t with
          | nil => exact ⟨k0, rfl⟩
          | cons k1 t' => rw [hk] at h2; simp at h2
      exact ⟨_, monotonize_const _ _ k0 hk0⟩
  refine ⟨mono, ?_, monoKnots_sublist _, monoKnots_incY _, ?_, ?_, ?_⟩
  · cases ss with
    | nil => exact absurd rfl hne
    | cons a t => simp only [monotonizeDefault, hmono, Option.map_some]
  · intro hs
    have := monotonize_id _ _ hx hs hlen
    rw [hmono] at this
    exact Option.some.inj this
  · intro h2
    obtain ⟨mono', h, h3, h4, h5⟩ := monotonize_strict _ _ hx hlen h2
    rw [hmono] at h
    cases h
    exact ⟨by rw [h3, hlen], h4, h5⟩
  · intro k0 hk0
    have := monotonize_const _ _ k0 hk0
    rw [hmono] at this
    rw [Option.some.inj this, List.map_const', List.map_const', hlen]

-- ------------------------------------------------------------------ encode_tempo on arrays

theorem zip4_length (a b c d : List Rat) (h1 : a.length = b.length) (h2 : a.length = c.length) (h3 : a.length = d.length) :
    (zip4 a b c d).length = a.length := by
  induction a generalizing b c d with
  | nil => simp [zip4]
  | cons x xs ih =>
    cases b with
    | nil => simp at h1
    | cons y ys =>
      cases c with
      | nil => simp at h2
      | cons z zs =>
        cases d with
        | nil => simp at h3
        | cons u us =>
          simp only [zip4, List.length_cons, Nat.add_right_cancel_iff]
          exact ih ys zs us (by simpa using h1) (by simpa using h2) (by simpa using h3)

theorem encodeTempoArrays_spec (m : Method) (n : Norm) (sdv : Rat) (so po sd pd : List Rat) :
    (¬ (so.length = po.length ∧ so.length = sd.length ∧ po.length = pd.length) →
      encodeTempoArrays m n sdv so po sd pd = none) ∧
    (so.length = po.length ∧ so.length = sd.length ∧ po.length = pd.length →
      encodeTempoArrays m n sdv so po sd pd = encode m n sdv (zip4 so sd po pd) ∧ (zip4 so sd po pd).length = so.length) := by
  unfold encodeTempoArrays
  constructor
  · intro h
    rw [if_pos (by omega)]
  · rintro ⟨h1, h2, h3⟩
    rw [if_neg (by omega)]
    exact ⟨rfl, zip4_length so sd po pd h2 h1 (by omega)⟩

-- ------------------------------------------------------------------ decode_performance without snote_ids

theorem selectRows_self (ss : List SRow) (hnd : (ss.map (·.id)).Nodup) : selectRows ss (ss.map (·.id)) = some ss := by
  unfold selectRows
  rw [allSome_eq_some]
  apply List.ext_getElem
  · simp
  · intro k h1 h2
    have hk : k < ss.length := by simpa using h2
    simp only [List.getElem_map]
    have : lastIndexOf (ss[k]).id (ss.map (·.id)) = some k := by
      apply lastIndexOf_nodup _ _ _ hnd
      simp [List.getElem?_eq_getElem hk]
    rw [this]
    simp [List.getElem?_eq_getElem hk]

theorem decodeFull_none (n : Norm) (ss : List SRow) (ps : List ParamRow) (hnd : (ss.map (·.id)).Nodup) :
    decodeFull n ss none ps = decodeFull n ss (some (ss.map (·.id))) ps := by
  unfold decodeFull
  simp only [Option.getD_none, Option.getD_some, selectRows_self ss hnd]

-- ------------------------------------------------------------------ onset-wise / note-wise

/-- the assignments of `onsetwise_to_notewise`, group by group -/
def asgOf (gs : List (List Nat)) (w : List Rat) : List (Nat × Rat) :=
  (List.zipWith (fun (g : List Nat) (x : Rat) => g.map fun i => (i, x)) gs w).flatten

theorem assignments_eq (w : List Rat) (gs : List (List Nat)) (hlen : w.length = gs.length) :
    assignments w gs = some (asgOf gs w) := by
  induction gs generalizing w with
  | nil => cases w <;> simp [assignments, asgOf]
  | cons g gs ih =>
    cases w with
    | nil => simp at hlen
    | cons x ws =>
      simp only [assignments, ih ws (by simpa using hlen), Option.map_some, asgOf, List.zipWith_cons_cons,
        List.flatten_cons]

theorem asgOf_fst (gs : List (List Nat)) (w : List Rat) (hlen : w.length = gs.length) :
    (asgOf gs w).map Prod.fst = gs.flatten := by
  induction gs generalizing w with
  | nil => simp [asgOf]
  | cons g gs ih =>
    cases w with
    | nil => simp at hlen
    | cons x ws =>
      have := ih ws (by simpa using hlen)
      simp only [asgOf, List.zipWith_cons_cons, List.flatten_cons, List.map_append, List.map_map] at this ⊢
      rw [this]
      congr 1
      simp [Function.comp_def]

theorem asgOf_groups (gs : List (List Nat)) (w : List Rat) (hlen : w.length = gs.length) :
    List.Forall₂ (fun g x => ∀ i ∈ g, (i, x) ∈ asgOf gs w) gs w := by
  induction gs generalizing w with
  | nil => cases w with
    | nil => exact List.Forall₂.nil
    | cons _ _ => simp at hlen
  | cons g gs ih =>
    cases w with
    | nil => simp at hlen
    | cons x ws =>
      have hrest := ih ws (by simpa using hlen)
      have hE : asgOf (g :: gs) (x :: ws) = (g.map fun i => (i, x)) ++ asgOf gs ws := by
        simp [asgOf]
      refine List.Forall₂.cons ?_ ?_
      · intro i hi
        rw [hE]
        exact List.mem_append_left _ (List.mem_map.mpr ⟨i, hi, rfl⟩)
      · refine hrest.imp ?_
        intro g' x' h i hi
        rw [hE]
        exact List.mem_append_right _ (h i hi)

theorem forall₂_map_some {α β : Type} (f : α → Option β) (l : List α) (m : List β)
    (h : List.Forall₂ (fun a b => f a = some b) l m) : l.map f = m.map some := by
  induction h with
  | nil => rfl
  | cons h1 _ ih => simp [h1, ih]

theorem onsetwise_roundtrip' (n : Nat) (gs : List (List Nat)) (w : List Rat) (hperm : gs.flatten.Perm (List.range n))
    (hne : ∀ g ∈ gs, g ≠ []) (hlen : w.length = gs.length) :
    ∃ v, toNotewise w gs = some v ∧ v.length = n ∧ toOnsetwise v gs = some w := by
  have hn : (gs.map List.length).sum = n := by
    rw [← List.length_flatten, hperm.length_eq, List.length_range]
  have hkeys := asgOf_fst gs w hlen
  have hnd : ((asgOf gs w).reverse.map Prod.fst).Nodup := by
    rw [List.map_reverse, List.nodup_reverse, hkeys]
    exact hperm.nodup_iff.mpr List.nodup_range
  have hlt : ∀ p ∈ asgOf gs w, p.1 < n := by
    intro p hp
    have : p.1 ∈ gs.flatten := by rw [← hkeys]; exact List.mem_map.mpr ⟨p, hp, rfl⟩
    exact List.mem_range.mp (hperm.mem_iff.mp this)
  refine ⟨(List.range n).map fun i => (lookup i (asgOf gs w).reverse).getD 0, ?_, by simp, ?_⟩
  · unfold toNotewise
    rw [assignments_eq w gs hlen, hn]
    simp only
    rw [if_pos]
    rw [List.all_eq_true]
    intro p hp
    simpa using hlt p hp
  · -- every assigned cell holds its value
    have hcell : ∀ i x, (i, x) ∈ asgOf gs w →
        ((List.range n).map fun i => (lookup i (asgOf gs w).reverse).getD 0)[i]? = some x := by
      intro i x hix
      have hi : i < n := hlt (i, x) hix
      rw [List.getElem?_map, List.getElem?_range hi]
      simp only [Option.map_some]
      rw [lookup_mem_nodup _ hnd i x (List.mem_reverse.mpr hix)]
      rfl
    unfold toOnsetwise
    rw [allSome_eq_some]
    apply forall₂_map_some
    have hg := asgOf_groups gs w hlen
    have hg' : List.Forall₂ (fun g x => g ≠ [] ∧ ∀ i ∈ g, (i, x) ∈ asgOf gs w) gs w := by
      rw [List.forall₂_iff_get] at hg ⊢
      refine ⟨hg.1, ?_⟩
      intro k h1 h2
      exact ⟨hne _ (List.get_mem gs ⟨k, h1⟩), hg.2 k h1 h2⟩
    refine hg'.imp ?_
    intro g x ⟨hgne, hmem⟩
    have hget : getAll ((List.range n).map fun i => (lookup i (asgOf gs w).reverse).getD 0) g
        = some (g.map fun _ => x) := by
      unfold getAll
      rw [allSome_eq_some, List.map_map]
      apply List.map_congr_left
      intro i hi
      exact hcell i x (hmem i hi)
    rw [hget]
    simp only [Option.bind_some]
    cases g with
    | nil => exact absurd rfl hgne
    | cons a t =>
      simp only [List.map_cons]
      congr 1
      exact mean_const (a :: t) x (by simp)

-- ------------------------------------------------------------------ monotone time maps

theorem timeMaps_strictMono (ks : List (Rat × Rat)) (hx : IncX ks) (hy : IncY ks) (h2 : 2 ≤ ks.length) :
    (∀ s t, s < t → ∃ p q, stimeToPtime ks s = some p ∧ stimeToPtime ks t = some q ∧ p < q) ∧
    (∀ p q, p < q → ∃ s t, ptimeToStime ks p = some s ∧ ptimeToStime ks q = some t ∧ s < t) := by
  obtain ⟨k0, k1, kt, hk⟩ := exists_two_of_length ks h2
  constructor
  · unfold stimeToPtime
    rw [hk] at hx hy ⊢
    exact interpExt_strictMono kt k0 k1 hx hy
  · unfold ptimeToStime
    rw [swapKnots_eq ks hy]
    have hxs : IncX (swapK ks) := by
      show List.Pairwise _ (List.map _ ks)
      rw [List.pairwise_map]; exact hy
    have hys : IncY (swapK ks) := by
      show List.Pairwise _ (List.map _ ks)
      rw [List.pairwise_map]; exact hx
    rw [hk] at hxs hys ⊢
    have e : swapK (k0 :: k1 :: kt) = (k0.2, k0.1) :: (k1.2, k1.1) :: swapK kt := by simp [swapK]
    rw [e] at hxs hys ⊢
    exact interpExt_strictMono (swapK kt) _ _ hxs hys

-- ------------------------------------------------------------------ velocity through two roundings

theorem velocity_two_roundings (v : Int) (h1 : 1 ≤ v) (h2 : v ≤ 127) (x y : Rat)
    (hx : |x - encodeVel v| ≤ encodeVel v / 16777216) (hy : |y - x * 127| ≤ |x * 127| / 16777216) :
    clipInt 1 127 (roundHalfEven y) = v := by
  unfold encodeVel at hx
  have hv1 : (1 : Rat) ≤ (v : Rat) := by exact_mod_cast h1
  have hv2 : (v : Rat) ≤ 127 := by exact_mod_cast h2
  obtain ⟨hx1, hx2⟩ := abs_le.mp hx
  have ha : |x * 127 - (v : Rat)| ≤ 127 / 16777216 := by
    rw [abs_le]
    constructor <;> linarith
  obtain ⟨ha1, ha2⟩ := abs_le.mp ha
  have hb : |x * 127| ≤ 128 := by
    rw [abs_le]
    constructor <;> linarith
  obtain ⟨hy1, hy2⟩ := abs_le.mp hy
  have h : |y - (v : Rat)| < 1 / 2 := by
    rw [abs_lt]
    constructor <;> linarith
  rw [roundHalfEven_near v y h]
  unfold clipInt
  rw [if_neg (by omega), if_neg (by omega)]

-- ------------------------------------------------------------------ decode_performance with snote_ids in any order

theorem mem_enumFrom_fst_lt {α : Type} (i : Nat) (l : List α) (p : Nat × α) (h : p ∈ enumFrom i l) :
    i ≤ p.1 ∧ p.1 < i + l.length := by
  have : p.1 ∈ (enumFrom i l).map Prod.fst := List.mem_map.mpr ⟨p, h, rfl⟩
  rw [enumFrom_map_fst] at this
  have := List.mem_range'_1.mp this
  omega

/-- `decode_performance` for `snote_ids` in ANY order: the selected rows are sorted stably by (onset_div, pitch)
    together with their parameter rows, decoded in that order — and the k-th decoded note is labelled `snote_ids[k]`,
    the k-th id in the GIVEN order -/
theorem decodePerformance_any_order (n : Norm) (ss : List SRow) (ids : List String) (ps : List ParamRow)
    (info : List SRow) (hinfo : selectRows ss ids = some info) (hlen : info.length = ps.length) :
    ∃ (order : List (Nat × SRow)) (ps' : List ParamRow),
      order.Perm (enumFrom 0 info) ∧
      order.Pairwise (fun a b => lexLe (a.2.odiv, a.2.pitch) (b.2.odiv, b.2.pitch) = true) ∧
      getAll ps (order.map (·.1)) = some ps' ∧
      decodePerformance n ss ids ps =
        (decodeTime n (List.zipWith (fun (s : Nat × SRow) (p : ParamRow) => mkDRow s.2 p) order ps')).map fun od =>
          zipWith3 (fun id (x : Rat × Rat) (p : ParamRow) => (id, x.1, x.2, decodeVel p.vel)) ids od ps' := by
  obtain ⟨order, horder⟩ : ∃ order, isort (fun (a b : Nat × SRow) => lexLe (a.2.odiv, a.2.pitch) (b.2.odiv, b.2.pitch))
      (enumFrom 0 info) = order := ⟨_, rfl⟩
  have hperm : order.Perm (enumFrom 0 info) := by rw [← horder]; exact perm_isort _ _
  have hsorted : order.Pairwise (fun a b => lexLe (a.2.odiv, a.2.pitch) (b.2.odiv, b.2.pitch) = true) := by
    rw [← horder]
    exact pairwise_isort (fun (a b : Nat × SRow) => lexLe (a.2.odiv, a.2.pitch) (b.2.odiv, b.2.pitch))
      (fun a b => lexLe_total (a.2.odiv, a.2.pitch) (b.2.odiv, b.2.pitch))
      (fun a b c => lexLe_trans (a.2.odiv, a.2.pitch) (b.2.odiv, b.2.pitch) (c.2.odiv, c.2.pitch)) _
  obtain ⟨ps', hps'⟩ : ∃ ps', getAll ps (order.map (·.1)) = some ps' := by
    unfold getAll
    apply allSome_isSome_of
    intro o ho
    obtain ⟨i, hi, rfl⟩ := List.mem_map.mp ho
    obtain ⟨p, hp, rfl⟩ := List.mem_map.mp hi
    have := mem_enumFrom_fst_lt 0 info p (hperm.mem_iff.mp hp)
    rw [List.getElem?_eq_getElem (by omega)]
    rfl
  refine ⟨order, ps', hperm, hsorted, hps', ?_⟩
  unfold decodePerformance
  rw [hinfo]
  simp only [hlen, ne_eq, not_true_eq_false, if_false, horder, hps']
  cases decodeTime n (List.zipWith (fun (s : Nat × SRow) (p : ParamRow) => mkDRow s.2 p) order ps') <;> rfl

end C18P
