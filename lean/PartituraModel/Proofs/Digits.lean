/-
Decimal printing and parsing of naturals invert each other (used by the note-name round trip).
-/
import PartituraModel.Model.Basic
import Mathlib.Tactic.IntervalCases
import Mathlib.Tactic.Ring

namespace Digits
open Model

def digitVal (c : Char) : Nat := c.toNat - '0'.toNat

/-- value of a digit list given least-significant first -/
def valRev : List Char → Nat
  | [] => 0
  | c :: cs => digitVal c + 10 * valRev cs

theorem digitChar_facts (d : Nat) (h : d < 10) :
    digitVal (digitChar d) = d ∧ (digitChar d).isDigit = true ∧
    (digitChar d != 'x' && digitChar d != 'b' && digitChar d != '#') = true := by
  interval_cases d <;> decide

theorem valRev_natDigitsRev (fuel n : Nat) (h : n < fuel) : valRev (natDigitsRev fuel n) = n := by
  induction fuel generalizing n with
  | zero => omega
  | succ fuel ih =>
    unfold natDigitsRev
    split
    · rename_i hlt
      simp [valRev, (digitChar_facts n hlt).1]
    · rename_i hge
      have h10 : n / 10 < fuel := by omega
      simp only [valRev, ih _ h10, (digitChar_facts (n % 10) (Nat.mod_lt _ (by decide))).1]
      omega

theorem foldl_digits (cs : List Char) (acc : Nat) :
    cs.foldl (fun n c => 10 * n + (c.toNat - '0'.toNat)) acc = acc * 10 ^ cs.length + valRev cs.reverse := by
  induction cs generalizing acc with
  | nil => simp [valRev]
  | cons c cs ih =>
    rw [List.foldl_cons, ih]
    have hv : ∀ (l : List Char) (c : Char), valRev (l ++ [c]) = valRev l + 10 ^ l.length * digitVal c := by
      intro l c
      induction l with
      | nil => simp [valRev]
      | cons d l ihl => simp only [List.cons_append, valRev, ihl, List.length_cons, Nat.pow_succ]; ring
    rw [List.reverse_cons, hv, List.length_reverse, List.length_cons, Nat.pow_succ]
    unfold digitVal
    ring

theorem digitsToNat_natDigits (n : Nat) : digitsToNat (natDigits n) = n := by
  unfold digitsToNat natDigits
  rw [foldl_digits]
  simp [valRev_natDigitsRev (n + 1) n (by omega)]

theorem natDigitsRev_ne_nil (fuel n : Nat) (h : n < fuel) : natDigitsRev fuel n ≠ [] := by
  cases fuel with
  | zero => omega
  | succ f => unfold natDigitsRev; split <;> simp

theorem natDigitsRev_all (fuel n : Nat) :
    ∀ c ∈ natDigitsRev fuel n, c.isDigit = true ∧ (c != 'x' && c != 'b' && c != '#') = true := by
  induction fuel generalizing n with
  | zero => simp [natDigitsRev]
  | succ fuel ih =>
    unfold natDigitsRev
    split
    · rename_i hlt
      intro c hc
      simp only [List.mem_singleton] at hc
      subst hc
      exact (digitChar_facts n hlt).2
    · intro c hc
      simp only [List.mem_cons] at hc
      rcases hc with rfl | hc
      · exact (digitChar_facts (n % 10) (Nat.mod_lt _ (by decide))).2
      · exact ih _ c hc

theorem natDigits_ne_nil (n : Nat) : natDigits n ≠ [] := by
  unfold natDigits
  simpa using natDigitsRev_ne_nil (n + 1) n (by omega)

theorem natDigits_all (n : Nat) :
    ∀ c ∈ natDigits n, c.isDigit = true ∧ (c != 'x' && c != 'b' && c != '#') = true := by
  unfold natDigits
  intro c hc
  exact natDigitsRev_all _ _ c (List.mem_reverse.mp hc)

end Digits
