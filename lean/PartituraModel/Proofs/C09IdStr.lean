/-
C09 helper lemmas, part 13 (round 3): the numeric order the model puts on segments is the order of
the id strings `chr(65 + i)` in Python, for every number of segments; the sort keys
`"<n>_Volta_<ID>"`; the classification of raw destination strings by substring.
-/
import PartituraModel.Model.UnfoldIds

namespace C09
open Model.Unfold

/-! ### Python string order on one-character ids -/

theorem pyLt_single (a b : Nat) : pyLt [a] [b] = decide (a < b) := by
  simp [pyLt]

theorem pyLt_cons (a b : Nat) (as bs : PyStr) :
    pyLt (a :: as) (b :: bs) = (decide (a < b) || (a == b && pyLt as bs)) := rfl

theorem pyLt_irrefl : ∀ s : PyStr, pyLt s s = false := by
  intro s
  induction s with
  | nil => rfl
  | cons a as ih => simp [pyLt, ih]

theorem pyLt_append_left (p : PyStr) (x y : PyStr) : pyLt (p ++ x) (p ++ y) = pyLt x y := by
  induction p with
  | nil => rfl
  | cons a as ih => simp [pyLt, ih]

theorem segId_lt_iff (i j : Nat) : pyLt (segId i) (segId j) = true ↔ i < j := by
  simp [segId, pyLt]

theorem segId_le_iff (i j : Nat) : pyLe (segId i) (segId j) = true ↔ i ≤ j := by
  simp [pyLe, segId, pyLt]

theorem segId_injective (i j : Nat) (h : segId i = segId j) : i = j := by
  simp [segId] at h
  exact h

theorem segId_ne_end (i : Nat) : segId i ≠ endId := by
  simp [segId, endId]

theorem end_le_segId_iff (i : Nat) : pyLe endId (segId i) = true ↔ 5 ≤ i := by
  simp [pyLe, segId, endId, pyLt]
  omega

theorem segId_lt_end_iff (i : Nat) : pyLt (segId i) endId = true ↔ i ≤ 4 := by
  simp [segId, endId, pyLt]
  omega

/-! ### the model's comparisons are the string comparisons -/

theorem lePast_eq (d : Dest) (i : Nat) : d.lePast i = pyLe d.str (segId i) := by
  cases d with
  | seg j =>
    have := segId_le_iff j i
    simp only [Dest.lePast, Dest.str]
    cases h : pyLe (segId j) (segId i) <;> simp_all
  | fin =>
    have := end_le_segId_iff i
    simp only [Dest.lePast, Dest.str]
    cases h : pyLe endId (segId i) <;> simp_all

theorem ahead_eq (own j : Nat) : (Dest.seg j).ahead own = pyLt (segId own) (segId j) := by
  have := segId_lt_iff own j
  simp only [Dest.ahead]
  cases h : pyLt (segId own) (segId j) <;> simp_all

theorem not_ahead_eq (own j : Nat) : (!(Dest.seg j).ahead own) = pyLe (segId j) (segId own) := by
  rw [ahead_eq]
  rfl

/-! ### `"<n>_Volta_<ID>"` -/

theorem labelChar_lt (a b : Nat) (ha : a ≤ 10) (hb : b ≤ 10) : labelChar a < labelChar b ↔ a < b := by
  unfold labelChar
  split <;> split <;> omega

theorem labelChar_inj (a b : Nat) (ha : a ≤ 10) (hb : b ≤ 10) : labelChar a = labelChar b ↔ a = b := by
  unfold labelChar
  split <;> split <;> omega

theorem volta_key_lt (a b : Nat × Nat) (ha : a.1 ≤ 10) (hb : b.1 ≤ 10) :
    pyLt (rawStr (.volta a.1) (.seg a.2)) (rawStr (.volta b.1) (.seg b.2)) = true ↔
      a.1 < b.1 ∨ (a.1 = b.1 ∧ a.2 < b.2) := by
  have h1 := labelChar_lt a.1 b.1 ha hb
  have h2 := labelChar_inj a.1 b.1 ha hb
  simp only [rawStr, Dest.str, List.cons_append, pyLt_cons, pyLt_append_left, Bool.or_eq_true, decide_eq_true_eq, Bool.and_eq_true,
    beq_iff_eq, segId_lt_iff, h1, h2]

theorem volta_key_le (a b : Nat × Nat) (ha : a.1 ≤ 10) (hb : b.1 ≤ 10) :
    pyLe (rawStr (.volta a.1) (.seg a.2)) (rawStr (.volta b.1) (.seg b.2)) = voltaLe a b := by
  have h := volta_key_lt b a hb ha
  unfold pyLe voltaLe
  cases hlt : pyLt (rawStr (.volta b.1) (.seg b.2)) (rawStr (.volta a.1) (.seg a.2))
  · have : ¬ (b.1 < a.1 ∨ (b.1 = a.1 ∧ b.2 < a.2)) := by
      intro hh
      rw [h.mpr hh] at hlt
      cases hlt
    simp only [Bool.not_false, Bool.true_eq, Bool.or_eq_true, decide_eq_true_eq, Bool.and_eq_true]
    omega
  · have := h.mp hlt
    simp only [Bool.not_true, Bool.false_eq, Bool.or_eq_false_iff, decide_eq_false_iff_not, Bool.and_eq_false_iff]
    omega

theorem volta_key_cut (lb : Nat) (d : Dest) : (rawStr (.volta lb) d).drop 8 = d.str := by
  simp [rawStr, voltaMark]

theorem nav_key_cut (n : Nat) (d : Dest) : (navMark n ++ d.str).drop 12 = d.str := by
  simp [navMark, navSub]

/-! ### sorted numbers are sorted ids -/

theorem mem_insSorted (x y : Nat) : ∀ l : List Nat, y ∈ insSorted x l ↔ y = x ∨ y ∈ l := by
  intro l
  induction l with
  | nil => simp [insSorted]
  | cons z zs ih =>
    unfold insSorted
    split
    · simp
    · split
      · rename_i h1 h2
        subst h2
        simp
      · simp only [List.mem_cons, ih]
        constructor
        · rintro (h | h | h) <;> simp [h]
        · rintro (h | h | h) <;> simp [h]

theorem insSorted_pairwise (x : Nat) : ∀ l : List Nat, l.Pairwise (· < ·) → (insSorted x l).Pairwise (· < ·) := by
  intro l
  induction l with
  | nil => intro _; simp [insSorted]
  | cons z zs ih =>
    intro h
    have hz := (List.pairwise_cons.mp h)
    unfold insSorted
    split
    · rename_i hxz
      refine List.pairwise_cons.mpr ⟨?_, h⟩
      intro y hy
      rcases List.mem_cons.mp hy with rfl | hy
      · exact hxz
      · exact Nat.lt_trans hxz (hz.1 y hy)
    · split
      · exact h
      · rename_i h1 h2
        refine List.pairwise_cons.mpr ⟨?_, ih hz.2⟩
        intro y hy
        rcases (mem_insSorted x y zs).mp hy with rfl | hy
        · omega
        · exact hz.1 y hy

theorem foldl_insSorted_pairwise (l : List Nat) : ∀ acc : List Nat, acc.Pairwise (· < ·) →
    (l.foldl (fun acc j => insSorted j acc) acc).Pairwise (· < ·) := by
  induction l with
  | nil => intro acc h; exact h
  | cons a as ih => intro acc h; exact ih _ (insSorted_pairwise a acc h)

theorem sorted_ids (l : List Nat) (h : l.Pairwise (· < ·)) :
    (l.map segId).Pairwise (fun a b => pyLt a b = true) := by
  rw [List.pairwise_map]
  exact h.imp fun {a b} hab => (segId_lt_iff a b).mpr hab

/-! ### classification of the raw strings by substring -/

theorem class_plain (d : Dest) :
    pyContains voltaSub (rawStr .plain d) = false ∧ pyContains navSub (rawStr .plain d) = false := by
  cases d <;> simp [rawStr, Dest.str, segId, endId, pyContains, voltaSub, navSub, List.isPrefixOf]

theorem class_volta (lb : Nat) (d : Dest) :
    pyContains voltaSub (rawStr (.volta lb) d) = true ∧ pyContains navSub (rawStr (.volta lb) d) = false := by
  cases d <;> simp [rawStr, Dest.str, segId, endId, pyContains, voltaSub, voltaMark, navSub, List.isPrefixOf]

theorem class_nav1 (d : Dest) :
    pyContains voltaSub (rawStr .nav1 d) = false ∧ pyContains (navMark 1) (rawStr .nav1 d) = true ∧
      pyContains (navMark 2) (rawStr .nav1 d) = false := by
  cases d <;> simp [rawStr, Dest.str, segId, endId, pyContains, voltaSub, navMark, navSub, List.isPrefixOf]

theorem class_nav2 (d : Dest) :
    pyContains voltaSub (rawStr .nav2 d) = false ∧ pyContains (navMark 2) (rawStr .nav2 d) = true ∧
      pyContains (navMark 1) (rawStr .nav2 d) = false := by
  cases d <;> simp [rawStr, Dest.str, segId, endId, pyContains, voltaSub, navMark, navSub, List.isPrefixOf]

theorem class_volta_not_nav (lb : Nat) (d : Dest) (n : Nat) :
    pyContains (navMark n) (rawStr (.volta lb) d) = false := by
  cases d <;> simp [rawStr, Dest.str, segId, endId, pyContains, voltaMark, navMark, navSub, List.isPrefixOf]

theorem class_plain_not_nav (d : Dest) (n : Nat) : pyContains (navMark n) (rawStr .plain d) = false := by
  cases d <;> simp [rawStr, Dest.str, segId, endId, pyContains, navMark, navSub, List.isPrefixOf]

/-! ### ids counted like spreadsheet columns are not ordered by time -/

theorem alphaId_25_26 : alphaId 4 25 = [90] ∧ alphaId 4 26 = [65, 65] := by decide

theorem alphaId_small (i : Nat) (h : i < 26) (fuel : Nat) : alphaId (fuel + 1) i = segId i := by
  simp [alphaId, h, segId]

end C09
