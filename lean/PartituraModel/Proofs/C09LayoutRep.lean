/-
C09 helper lemmas, part 12: ANY layout whose only structure is repeats (nested, disjoint, overlapping, any
number): `add_segments` succeeds and the table is in the class `RepForm` on which the enumeration terminates.
-/
import PartituraModel.Proofs.C09Term

namespace C09
open Model.Unfold

/-- only repeats, each inside the part and of positive length; the part has positive length -/
structure RepeatsOnly (L : Layout) : Prop where
  endings : L.endings = []
  codas : L.codas = []
  tocodas : L.tocodas = []
  dacapos : L.dacapos = []
  fines : L.fines = []
  segnos : L.segnos = []
  dalsegnos : L.dalsegnos = []
  pos : L.first < L.last
  inside : ∀ r ∈ L.repeats, L.first ≤ r.1 ∧ r.1 < r.2 ∧ r.2 ≤ L.last

section rep
variable (L : Layout) (hL : RepeatsOnly L)

include hL in
theorem rep_infoAt (t : Int) : RepeatOnly (infoAt L t) := by
  simp [RepeatOnly, infoAt, hL.endings, hL.codas, hL.tocodas, hL.dacapos, hL.fines, hL.segnos, hL.dalsegnos,
    volS, volE, lastSome]

include hL in
theorem rep_isKey (t : Int) : isKey L t = (repA L.repeats t || (repE L.repeats t).isSome ||
    decide (t = L.last) || decide (t = L.first)) := by
  simp [isKey, hL.endings, hL.codas, hL.tocodas, hL.dacapos, hL.fines, hL.segnos, hL.dalsegnos, volS, volE, lastSome]

theorem repE_some (reps : List (Int × Int)) (t rs : Int) (h : repE reps t = some rs) : (rs, t) ∈ reps := by
  unfold repE at h
  induction reps with
  | nil => simp [lastSome] at h
  | cons r rest ih =>
    simp only [lastSome] at h
    cases hl : lastSome (fun r : Int × Int => if r.2 = t then some r.1 else none) rest with
    | some x =>
      rw [hl] at h
      simp only [Option.some.injEq] at h
      subst h
      exact List.mem_cons_of_mem _ (ih hl)
    | none =>
      rw [hl] at h
      simp only at h
      split at h
      · rename_i he
        simp only [Option.some.injEq] at h
        have : r = (rs, t) := Prod.ext h he
        rw [this]; exact List.mem_cons_self
      · simp at h

include hL in
theorem rep_key_bounds (t : Int) (h : isKey L t = true) : L.first ≤ t ∧ t ≤ L.last := by
  rw [rep_isKey L hL] at h
  simp only [Bool.or_eq_true, decide_eq_true_eq] at h
  have hp := hL.pos
  rcases h with ((h | h) | h) | h
  · unfold repA at h
    rw [List.any_eq_true] at h
    obtain ⟨r, hr, he⟩ := h
    simp only [decide_eq_true_eq] at he
    have := hL.inside r hr
    omega
  · cases he : repE L.repeats t with
    | none => rw [he] at h; simp at h
    | some rs =>
      have := hL.inside _ (repE_some _ _ _ he)
      simp only at this
      omega
  · omega
  · omega

end rep

/-- the generic run of `add_segments` over boundaries that carry only repeat information -/
theorem repOnly_mkSegments (L : Layout) (ts : List Int) (n : Nat)
    (hkeys : (mkTable L).map (·.1) = ts) (hs : StrictSorted ts) (hlen : ts.length = n + 1)
    (hsup : L.supported = true)
    (back : Nat → Option Dest)
    (hseg : ∀ i, i < n → ∀ se, ts[i + 1]? = some se →
      RepeatOnly (infoAt L se) ∧
      (match (infoAt L se).repeatEnd with
        | none => back i = none
        | some rs => ∃ d, idOf ts rs = some d ∧ back i = some d) ∧
      (∀ d, back i = some d → ∃ j, d = .seg j ∧ j ≤ i) ∧
      ((infoAt L se).repeatStart = true ∨ (back i).isSome = true ∨ (infoAt L se).isEnd = true)) :
    ∃ g, mkSegments L = some g ∧ g.length = n ∧
      ∀ i, i < n → ∃ s, g[i]? = some s ∧ s.to = (back i).toList ++ [nextDest n i] ∧ s.await = [] ∧
        s.ty = tyAt ts i := by
  have hmem : ∀ t, t ∈ ts → tblGet t (mkTable L) = some (infoAt L t) := by
    intro t ht
    rw [mkTable_get]
    have : isKey L t = true := by rw [← mkTable_mem_keys, hkeys]; exact ht
    rw [this]; rfl
  let fin : Nat → SegInfo := fun j =>
    { to := repRaw (infoAt L (ts.getD (j + 1) 0)) (nextDest n j) (back j), ty := tyAt ts j }
  let sts : Nat → BState := fun k => { info := (List.range n).map fun j => if j < k then fin j else {} }
  have hstep : ∀ i, i < n → ∀ ss se, ts[i]? = some ss → ts[i + 1]? = some se →
      procSeg L (mkTable L) ts i ss se (sts i) = some (sts (i + 1)) := by
    intro i hi ss se hss hse
    obtain ⟨g1, g2, _, _⟩ := hseg i hi se hse
    have hid : idOf ts se = some (nextDest n i) := by
      rw [idOf_sorted ts hs (i + 1) se hse, hlen]
      unfold nextDest
      by_cases h : i + 1 = n
      · rw [if_pos (by omega), if_pos h]
      · rw [if_neg (by omega), if_neg h]
    rw [procSeg_repeatOnly L _ ts i ss se _ _ _ (hmem se (List.mem_of_getElem? hse)) hid g1 (back i) g2]
    simp only [sts, Option.some.injEq]
    congr 1
    apply List.ext_getElem?
    intro j
    rw [modAt_get]
    simp only [List.getElem?_map]
    by_cases hj : j < n
    · rw [List.getElem?_range hj]
      simp only [Option.map_some]
      by_cases hji : j = i
      · subst hji
        have e1 : ts.getD (j + 1) 0 = se := by rw [List.getD_eq_getElem?_getD, hse]; rfl
        have e2 : ts.getD j 0 = ss := by rw [List.getD_eq_getElem?_getD, hss]; rfl
        have hlt : j < j + 1 := Nat.lt_succ_self j
        simp only [Nat.lt_irrefl, if_false, hlt, if_true, fin, tyAt, e1, e2, Option.some.injEq]
        rfl
      · simp only [hji, if_false]
        by_cases h1 : j < i
        · have : j < i + 1 := by omega
          simp [h1, this]
        · have : ¬ j < i + 1 := by omega
          simp [h1, this]
    · have : (List.range n)[j]? = none := by simp; omega
      simp [this]
  have hproc := procAll_seq L (mkTable L) ts ts sts n hlen hstep
  have hinit : sts 0 = { info := List.replicate n {} } := by
    simp only [sts, Nat.not_lt_zero, if_false]
    rw [range_map_const]
  let segs : List Seg := (List.range n).map fun i =>
    { start := ts.getD i 0, stp := ts.getD (i + 1) 0, to := (back i).toList ++ [nextDest n i], await := [],
      ty := tyAt ts i }
  have hbuild : buildSegs ts (sts n).info 0 ts (sts n).info = some segs := by
    apply buildSegs_eq
    · simp [sts, hlen]
    · simp [sts, segs]
    · intro i inf hinf
      simp only [sts, List.getElem?_map] at hinf
      have hi : i < n := by
        by_cases h : i < n
        · exact h
        · have : (List.range n)[i]? = none := by simp; omega
          simp [this] at hinf
      rw [List.getElem?_range hi] at hinf
      simp only [Option.map_some, hi, if_true, Option.some.injEq] at hinf
      subst hinf
      have h0 : i < ts.length := by omega
      have h1 : i + 1 < ts.length := by omega
      have hss : ts[i]? = some (ts.getD i 0) := by rw [List.getD_eq_getElem?_getD, List.getElem?_eq_getElem h0]; rfl
      have hse : ts[i + 1]? = some (ts.getD (i + 1) 0) := by
        rw [List.getD_eq_getElem?_getD, List.getElem?_eq_getElem h1]; rfl
      obtain ⟨_, _, g3, g4⟩ := hseg i hi _ hse
      refine ⟨_, _, (back i).toList ++ [nextDest n i], [], hss, hse, ?_, ?_⟩
      · simp only [Nat.zero_add]
        rw [cleanTo_noNav _ _ (nav1Of_repRaw _ _ _)]
        apply cleanTo_repRaw _ _ _ i g4
        · unfold nextDest
          by_cases h : i + 1 = n <;> simp [h]
        · exact g3
      · simp only [segs, List.getElem?_map, List.getElem?_range hi, Option.map_some, fin]
  refine ⟨segs, ?_, by simp [segs], ?_⟩
  · unfold mkSegments
    simp only [hsup, Bool.not_true, Bool.false_eq_true, if_false, hkeys]
    have hnn : ts.length - 1 = n := by omega
    rw [hnn, ← hinit, hproc]
    exact hbuild
  · intro i hi
    have hget : segs[i]? = some
        { start := ts.getD i 0, stp := ts.getD (i + 1) 0, to := (back i).toList ++ [nextDest n i],
          await := [], ty := tyAt ts i } := by
      simp only [segs, List.getElem?_map, List.getElem?_range hi, Option.map_some]
    exact ⟨_, hget, rfl, rfl, rfl⟩

/-- ANY repeats (nested, disjoint, sharing ends, …): `add_segments` succeeds with a table of the class `RepForm` -/
theorem repeats_repForm (L : Layout) (hL : RepeatsOnly L) :
    ∃ g, mkSegments L = some g ∧ g ≠ [] ∧ RepForm g := by
  let ts := (mkTable L).map (·.1)
  have hs : StrictSorted ts := mkTable_sorted L
  have hkey : ∀ t, t ∈ ts ↔ isKey L t = true := fun t => mkTable_mem_keys L t
  have hfirst : L.first ∈ ts := (hkey _).mpr (by rw [rep_isKey L hL]; simp)
  have hlast : L.last ∈ ts := (hkey _).mpr (by rw [rep_isKey L hL]; simp)
  have hp := hL.pos
  -- at least two boundaries
  have hlen2 : 2 ≤ ts.length := by
    obtain ⟨a, ha⟩ := List.getElem?_of_mem hfirst
    obtain ⟨b, hb⟩ := List.getElem?_of_mem hlast
    have hab : a ≠ b := by
      intro h; subst h
      rw [ha] at hb
      simp only [Option.some.injEq] at hb
      omega
    have := (List.getElem?_eq_some_iff.mp ha).1
    have := (List.getElem?_eq_some_iff.mp hb).1
    omega
  obtain ⟨n, hn⟩ : ∃ n, ts.length = n + 1 := ⟨ts.length - 1, by omega⟩
  have hn1 : 1 ≤ n := by omega
  -- the backward destination of segment i
  let back : Nat → Option Dest := fun i =>
    match (infoAt L (ts.getD (i + 1) 0)).repeatEnd with
    | none => none
    | some rs => idOf ts rs
  have hsup : L.supported = true := by simp [Layout.supported, hL.endings]
  have hseg : ∀ i, i < n → ∀ se, ts[i + 1]? = some se →
      RepeatOnly (infoAt L se) ∧
      (match (infoAt L se).repeatEnd with
        | none => back i = none
        | some rs => ∃ d, idOf ts rs = some d ∧ back i = some d) ∧
      (∀ d, back i = some d → ∃ j, d = .seg j ∧ j ≤ i) ∧
      ((infoAt L se).repeatStart = true ∨ (back i).isSome = true ∨ (infoAt L se).isEnd = true) := by
    intro i hi se hse
    have e1 : ts.getD (i + 1) 0 = se := by rw [List.getD_eq_getElem?_getD, hse]; rfl
    have hsem : se ∈ ts := List.mem_of_getElem? hse
    -- a repeat that ends here starts at an earlier boundary
    have hrs : ∀ rs, (infoAt L se).repeatEnd = some rs → ∃ j, j ≤ i ∧ idOf ts rs = some (.seg j) := by
      intro rs hre
      have hm : (rs, se) ∈ L.repeats := repE_some _ _ _ hre
      have hin := hL.inside _ hm
      simp only at hin
      have hk : rs ∈ ts := (hkey rs).mpr (by
        rw [rep_isKey L hL]
        have : repA L.repeats rs = true := by
          unfold repA; rw [List.any_eq_true]; exact ⟨_, hm, by simp⟩
        simp [this])
      obtain ⟨j, hj⟩ := List.getElem?_of_mem hk
      have hji : j ≤ i := by
        rcases Nat.lt_or_ge i j with h | h
        · exfalso
          rcases Nat.lt_or_ge (i + 1) j with h' | h'
          · have := sorted_get_lt ts hs (i + 1) j se rs h' hse hj; omega
          · have : j = i + 1 := by omega
            subst this
            rw [hse] at hj
            simp only [Option.some.injEq] at hj
            omega
        · exact h
      refine ⟨j, hji, ?_⟩
      rw [idOf_sorted ts hs j rs hj, hn]
      have : ¬ j + 1 = n + 1 := by omega
      rw [if_neg this]
    refine ⟨rep_infoAt L hL se, ?_, ?_, ?_⟩
    · cases hre : (infoAt L se).repeatEnd with
      | none => simp only [back, e1, hre]
      | some rs =>
        obtain ⟨j, _, hid⟩ := hrs rs hre
        exact ⟨_, hid, by simp only [back, e1, hre]; exact hid⟩
    · intro d hd
      cases hre : (infoAt L se).repeatEnd with
      | none => simp only [back, e1, hre] at hd; exact absurd hd (by simp)
      | some rs =>
        obtain ⟨j, hji, hid⟩ := hrs rs hre
        simp only [back, e1, hre, hid, Option.some.injEq] at hd
        exact ⟨j, hd.symm, hji⟩
    · -- something is registered at `se`, and it is not only "start of the part"
      have hk := (hkey se).mp hsem
      rw [rep_isKey L hL] at hk
      simp only [Bool.or_eq_true, decide_eq_true_eq] at hk
      rcases hk with ((h | h) | h) | h
      · left; exact h
      · right; left
        cases hre : repE L.repeats se with
        | none => rw [hre] at h; simp at h
        | some rs =>
          have hre' : (infoAt L se).repeatEnd = some rs := hre
          obtain ⟨j, _, hid⟩ := hrs rs hre'
          simp only [back, e1, hre', hid, Option.isSome_some]
      · right; right
        show decide (se = L.last) = true
        exact decide_eq_true h
      · exfalso
        -- `se` is not the first boundary
        obtain ⟨a, ha⟩ := List.getElem?_of_mem hfirst
        have h0 : 0 < ts.length := by omega
        have hb := (rep_key_bounds L hL (ts[0]) ((hkey _).mp (List.getElem_mem h0))).1
        have hlt := sorted_get_lt ts hs 0 (i + 1) ts[0] se (by omega) (List.getElem?_eq_getElem h0) hse
        omega
  obtain ⟨g, hg, hgl, hgi⟩ := repOnly_mkSegments L ts n rfl hs hn hsup back hseg
  refine ⟨g, hg, ?_, ?_⟩
  · intro h; rw [h] at hgl; simp at hgl; omega
  · intro i s hs'
    have hi : i < n := by
      have := (List.getElem?_eq_some_iff.mp hs').1
      omega
    obtain ⟨s', hs'', hto, haw, hty⟩ := hgi i hi
    rw [hs'] at hs''
    simp only [Option.some.injEq] at hs''
    subst hs''
    refine ⟨haw, by rw [hty]; unfold tyAt; split <;> simp, ?_⟩
    rw [hgl]
    cases hb : back i with
    | none => left; rw [hto, hb]; rfl
    | some d =>
      right
      have hse : ts[i + 1]? = some (ts.getD (i + 1) 0) := by
        rw [List.getD_eq_getElem?_getD, List.getElem?_eq_getElem (by omega)]; rfl
      obtain ⟨_, _, g3, _⟩ := hseg i hi _ hse
      obtain ⟨j, rfl, hji⟩ := g3 d hb
      exact ⟨j, hji, by rw [hto, hb]; rfl⟩

end C09
