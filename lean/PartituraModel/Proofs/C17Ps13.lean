/-
Helper lemmas for C17 (ps13): p2pn sounds the chromatic pitch; elementwise facts about stage 1.
-/
import PartituraModel.Model.Ps13
import Mathlib.Algebra.Order.Field.Rat
import Mathlib.Tactic.Linarith

namespace C17P
open Model Model.Ps13 Gen

/-- whole-table fact (7 morphs): the step of morph r has a MIDI base class b with
    b − UND_CHROMA[r] + (12 if r > 1) = 9, i.e. the ASA octave convention of p2pn and the
    MIDI octave convention of `pitch_spelling_to_midi_pitch` differ by exactly 21 semitones -/
theorem morph_table : ∀ r : Fin 7, ∃ b,
    lookup (lower (PS13_STEPS[r.val]'(by have := steps_len; omega))) MIDI_BASE_CLASS = some b ∧
    b - PS13_UND_CHROMA[r.val]'(by have := und_len; omega) + (if (r.val : Int) > 1 then 12 else 0) = 9 := by
  decide

theorem p2pn_sounds (c mp : Int) :
    spellingToMidi (p2pn c mp).1 (some (p2pn c mp).2.1) (p2pn c mp).2.2 = some (c + 21) := by
  have hlt : ((mp % 7) % 7).toNat < 7 := by omega
  obtain ⟨b, hb, hsum⟩ := morph_table ⟨((mp % 7) % 7).toNat, hlt⟩
  simp only [p2pn, spellingToMidi, stepName, undChroma] at *
  rw [hb]
  simp only [Option.map_some, Option.getD_some]
  have hcast : (((mp % 7) % 7).toNat : Int) = mp % 7 := by omega
  rw [hcast] at hsum
  congr 1
  split at hsum <;> rename_i h <;> simp only [h, if_true, if_false] <;> omega

end C17P

namespace C17P
open Model Model.Ps13 Gen

theorem vecLoop_length (ch : List Nat) (a b : Nat) :
    ∀ (fuel i : Nat) (v : CVec), (vecLoop ch a b fuel i v).length = fuel := by
  intro fuel
  induction fuel with
  | zero => intro i v; rfl
  | succ n ih => intro i v; simp [vecLoop, ih]

theorem chromaVectors_length (ch : List Nat) (a b : Nat) :
    (chromaVectors ch a b).length = ch.length - 1 + 1 := by
  simp [chromaVectors, vecLoop_length]

theorem morphArray_length (c0 : Nat) (ch : List Nat) (vecs : List CVec) :
    (morphArray c0 ch vecs).length = min ch.length vecs.length := by
  simp [morphArray]

theorem stage1_length (a b : Nat) (sorted : List Row) :
    (stage1 a b sorted).length = sorted.length := by
  simp only [stage1, List.length_zipWith, morphArray_length, chromaVectors_length, List.length_map]
  omega

/-- every spelling produced by stage 1 is `p2pn` of the row's chromatic pitch and SOME morphetic
    pitch: enough for "sounds its pitch", whatever the morph heuristic decided -/
theorem stage1_getElem (a b : Nat) (sorted : List Row) (k : Nat) (h : k < sorted.length) :
    ∃ mp, (stage1 a b sorted)[k]'(by rw [stage1_length]; exact h) = p2pn (sorted[k].2 - 21) mp := by
  simp only [stage1, List.getElem_zipWith, List.getElem_map]
  exact ⟨_, rfl⟩

end C17P

namespace C17P
open Model Model.Ps13 Gen

theorem idxLe_trans {α : Type} (a b c : Nat × α) : idxLe a b = true → idxLe b c = true → idxLe a c = true := by
  simp only [idxLe, decide_eq_true_eq]; omega

theorem idxLe_total {α : Type} (a b : Nat × α) : (idxLe a b || idxLe b a) = true := by
  simp only [idxLe, Bool.or_eq_true, decide_eq_true_eq]; omega

/-- sorting (index, value) pairs back by index, when the indices are a permutation of `0..n-1`:
    position `i` holds the value that was paired with index `i` -/
theorem sortBack {α : Type} (idxs : List Nat) (vals : List α) (n : Nat)
    (hlen : vals.length = idxs.length) (hperm : idxs.Perm (List.range n)) :
    (((idxs.zip vals).mergeSort idxLe).map (·.2)).length = n ∧
    ∀ i, i < n → ∃ (k : Nat) (hk : k < idxs.length) (hk' : k < vals.length),
      idxs[k] = i ∧ (((idxs.zip vals).mergeSort idxLe).map (·.2))[i]? = some vals[k] := by
  have hp := List.mergeSort_perm (idxs.zip vals) idxLe
  have hfst : (((idxs.zip vals).mergeSort idxLe).map (·.1)) = List.range n := by
    apply List.Perm.eq_of_pairwise (le := fun a b => a ≤ b)
    · intro a b _ _ h1 h2; omega
    · have := List.pairwise_mergeSort (le := idxLe (α := α)) idxLe_trans idxLe_total (idxs.zip vals)
      rw [List.pairwise_map]
      exact this.imp (fun h => by simpa [idxLe] using h)
    · exact List.pairwise_lt_range.imp (fun h => Nat.le_of_lt h)
    · refine ((hp.map (·.1)).trans ?_).trans hperm
      rw [List.map_fst_zip (by omega)]
  have hlen' : ((idxs.zip vals).mergeSort idxLe).length = n := by
    have := congrArg List.length hfst
    simpa using this
  refine ⟨by simpa using hlen', ?_⟩
  intro i hi
  have hi' : i < ((idxs.zip vals).mergeSort idxLe).length := by omega
  have hmem : ((idxs.zip vals).mergeSort idxLe)[i] ∈ idxs.zip vals :=
    hp.subset (List.getElem_mem hi')
  obtain ⟨k, hk, hkeq⟩ := List.getElem_of_mem hmem
  have hk1 : k < idxs.length := by simp at hk; omega
  have hk2 : k < vals.length := by simp at hk; omega
  refine ⟨k, hk1, hk2, ?_, ?_⟩
  · have h1 : (((idxs.zip vals).mergeSort idxLe).map (·.1))[i]'(by simpa using hi') = i := by
      simp only [hfst, List.getElem_range]
    rw [List.getElem_map] at h1
    rw [← hkeq] at h1
    simpa using h1
  · rw [List.getElem?_map, List.getElem?_eq_getElem hi', ← hkeq]
    simp

theorem rowLe_trans (a b c : Row × Nat) : rowLe a b = true → rowLe b c = true → rowLe a c = true := by
  simp only [rowLe, Bool.or_eq_true, Bool.and_eq_true, decide_eq_true_eq]
  intro h1 h2
  rcases h1 with h1 | ⟨h1, h1'⟩ <;> rcases h2 with h2 | ⟨h2, h2'⟩
  · exact Or.inl (lt_trans h1 h2)
  · exact Or.inl (h2 ▸ h1)
  · exact Or.inl (h1 ▸ h2)
  · exact Or.inr ⟨h1.trans h2, Int.le_trans h1' h2'⟩

theorem rowLe_total (a b : Row × Nat) : (rowLe a b || rowLe b a) = true := by
  simp only [rowLe, Bool.or_eq_true, Bool.and_eq_true, decide_eq_true_eq]
  rcases lt_trichotomy a.1.1 b.1.1 with h | h | h
  · exact Or.inl (Or.inl h)
  · rcases Int.le_total a.1.2 b.1.2 with h' | h'
    · exact Or.inl (Or.inr ⟨h, h'⟩)
    · exact Or.inr (Or.inr ⟨h.symm, h'⟩)
  · exact Or.inr (Or.inl h)

theorem sortRows_perm (notes : List Row) : (sortRows notes).Perm notes.zipIdx :=
  List.mergeSort_perm _ _

/-- the full specification of `ps13` needed for "sounds its pitch": one spelling per row, and the
    spelling of row `i` is `p2pn` of that row's chromatic pitch with some morphetic pitch -/
theorem ps13_spec (a b : Nat) (notes : List Row) (sp : List (String × Int × Int))
    (h : ps13 a b notes = some sp) :
    sp.length = notes.length ∧
    ∀ i (hi : i < notes.length), ∃ mp, sp[i]? = some (p2pn (notes[i].2 - 21) mp) := by
  unfold ps13 at h
  split at h
  · cases h
  · simp only [Option.some.injEq] at h
    subst h
    have hperm : ((sortRows notes).map (·.2)).Perm (List.range notes.length) := by
      have := (sortRows_perm notes).map (·.2)
      simpa [List.range_eq_range'] using this
    have hlen : (stage1 a b ((sortRows notes).map (·.1))).length = ((sortRows notes).map (·.2)).length := by
      simp [stage1_length]
    obtain ⟨h1, h2⟩ := sortBack _ _ _ hlen hperm
    refine ⟨h1, ?_⟩
    intro i hi
    obtain ⟨k, hk, hk', hidx, hout⟩ := h2 i hi
    have hk2 : k < (sortRows notes).length := by simpa using hk
    have hmem : (sortRows notes)[k] ∈ notes.zipIdx := (sortRows_perm notes).subset (List.getElem_mem hk2)
    rw [List.mem_zipIdx_iff_getElem?] at hmem
    have hidx' : (sortRows notes)[k].2 = i := by simpa using hidx
    rw [hidx', List.getElem?_eq_getElem hi, Option.some.injEq] at hmem
    obtain ⟨mp, hmp⟩ := stage1_getElem a b ((sortRows notes).map (·.1)) k (by simpa using hk2)
    refine ⟨mp, ?_⟩
    rw [hout, hmp]
    simp only [List.getElem_map, hmem]

end C17P

namespace C17P
open Model Model.Ps13 Gen

/-- the order on rows that `rowLe` implements -/
def rowKeyLe (r r' : Row) : Prop := r.1 < r'.1 ∨ (r.1 = r'.1 ∧ r.2 ≤ r'.2)

theorem rowKeyLe_antisymm (a b : Row) : rowKeyLe a b → rowKeyLe b a → a = b := by
  intro h1 h2
  rcases h1 with h1 | ⟨h1, h1'⟩ <;> rcases h2 with h2 | ⟨h2, h2'⟩
  · exact absurd h2 (lt_asymm h1)
  · rw [h2] at h1; exact absurd h1 (lt_irrefl _)
  · rw [h1] at h2; exact absurd h2 (lt_irrefl _)
  · exact Prod.ext h1 (Int.le_antisymm h1' h2')

theorem sortedRows_pairwise (notes : List Row) :
    ((sortRows notes).map (·.1)).Pairwise rowKeyLe := by
  rw [List.pairwise_map]
  have := List.pairwise_mergeSort (le := rowLe) rowLe_trans rowLe_total notes.zipIdx
  exact this.imp (fun h => by
    simpa [rowLe, rowKeyLe, Bool.or_eq_true, Bool.and_eq_true, decide_eq_true_eq] using h)

theorem sortedRows_perm (notes : List Row) : ((sortRows notes).map (·.1)).Perm notes := by
  have := (sortRows_perm notes).map (·.1)
  simpa using this

/-- the sorted row sequence depends only on the multiset of rows -/
theorem sortedRows_eq_of_perm (notes notes' : List Row) (h : notes.Perm notes') :
    (sortRows notes).map (·.1) = (sortRows notes').map (·.1) := by
  apply List.Perm.eq_of_pairwise (le := rowKeyLe)
  · intro a b _ _; exact rowKeyLe_antisymm a b
  · exact sortedRows_pairwise notes
  · exact sortedRows_pairwise notes'
  · exact ((sortedRows_perm notes).trans h).trans (sortedRows_perm notes').symm

theorem sortBack_fst {α : Type} (idxs : List Nat) (vals : List α) (n : Nat)
    (hlen : vals.length = idxs.length) (hperm : idxs.Perm (List.range n)) :
    (((idxs.zip vals).mergeSort idxLe).map (·.1)) = List.range n := by
  have hp := List.mergeSort_perm (idxs.zip vals) idxLe
  apply List.Perm.eq_of_pairwise (le := fun a b => a ≤ b)
  · intro a b _ _ h1 h2; omega
  · have := List.pairwise_mergeSort (le := idxLe (α := α)) idxLe_trans idxLe_total (idxs.zip vals)
    rw [List.pairwise_map]
    exact this.imp (fun h => by simpa [idxLe] using h)
  · exact List.pairwise_lt_range.imp (fun h => Nat.le_of_lt h)
  · refine ((hp.map (·.1)).trans ?_).trans hperm
    rw [List.map_fst_zip (by omega)]

/-- pairing the rows with a list of (index, value) pairs whose indices are exactly 0..n-1 -/
theorem zip_eq_map_of_fst_range {β : Type} (notes : List Row) (l : List (Nat × β))
    (hfst : l.map (·.1) = List.range notes.length) :
    notes.zip (l.map (·.2)) = l.map (fun p => ((notes[p.1]?).getD (0, 0), p.2)) := by
  have hlen : l.length = notes.length := by
    have := congrArg List.length hfst; simpa using this
  apply List.ext_getElem
  · simp [hlen]
  · intro i h1 h2
    have hi : i < l.length := by simpa using h2
    have hi' : i < notes.length := by omega
    have : (l.map (·.1))[i]'(by simpa using hi) = i := by simp only [hfst, List.getElem_range]
    rw [List.getElem_map] at this
    simp [this, hi']

theorem zip_map_fst {α β γ : Type} (f : α → γ) : ∀ (l : List α) (vals : List β),
    (l.zip vals).map (fun p => (f p.1, p.2)) = (l.map f).zip vals
  | [], _ => by simp
  | _ :: _, [] => by simp
  | x :: xs, v :: vs => by simp [zip_map_fst f xs vs]

/-- the (row, spelling) pairs of `ps13`, as a multiset, are the sorted rows paired with stage 1 -/
theorem ps13_zip_perm (a b : Nat) (notes : List Row) (sp : List (String × Int × Int))
    (h : ps13 a b notes = some sp) :
    (notes.zip sp).Perm (((sortRows notes).map (·.1)).zip (stage1 a b ((sortRows notes).map (·.1)))) := by
  unfold ps13 at h
  split at h
  · cases h
  · simp only [Option.some.injEq] at h
    subst h
    have hperm : ((sortRows notes).map (·.2)).Perm (List.range notes.length) := by
      have := (sortRows_perm notes).map (·.2)
      simpa [List.range_eq_range'] using this
    have hlen : (stage1 a b ((sortRows notes).map (·.1))).length = ((sortRows notes).map (·.2)).length := by
      simp [stage1_length]
    have hfst := sortBack_fst _ _ _ hlen hperm
    rw [zip_eq_map_of_fst_range notes _ hfst]
    have hp := List.mergeSort_perm (((sortRows notes).map (·.2)).zip (stage1 a b ((sortRows notes).map (·.1)))) idxLe
    refine (hp.map _).trans ?_
    have hmap : ((sortRows notes).map (·.2)).map (fun i => (notes[i]?).getD (0, 0)) = (sortRows notes).map (·.1) := by
      rw [List.map_map]
      apply List.map_congr_left
      intro x hx
      have hmem : x ∈ notes.zipIdx := (sortRows_perm notes).subset hx
      rw [List.mem_zipIdx_iff_getElem?] at hmem
      simp [hmem]
    rw [zip_map_fst (fun i => (notes[i]?).getD (0, 0)), hmap]

end C17P
