/-
C03 helper lemmas: what the reader returns (`measureOut`) is a permutation of the notes of the measure,
each with its onset, duration (none for grace notes), staff, and the voice `remove_voice_polyphony` left it in.
-/
import PartituraModel.Proofs.C03Main

namespace C03.Perm
open Model.Xml C03.Sort C03.Reader C03.Voices C03.Main

variable {α β : Type}

theorem flatMap_split [DecidableEq β] (l : List α) (p : α → Bool) (f : α → List β) :
    (l.flatMap f).Perm ((l.filter p).flatMap f ++ (l.filter (fun a => !p a)).flatMap f) := by
  induction l with
  | nil => simp
  | cons a rest ih =>
    by_cases h : p a = true
    · simp only [List.flatMap_cons, List.filter_cons_of_pos h, h, Bool.not_true, Bool.false_eq_true,
        not_false_eq_true, List.filter_cons_of_neg, List.append_assoc]
      exact List.Perm.append_left _ ih
    · have h' : p a = false := by simpa using h
      simp only [List.flatMap_cons, h', Bool.false_eq_true, not_false_eq_true, List.filter_cons_of_neg,
        Bool.not_false, List.filter_cons_of_pos]
      refine (List.Perm.append_left _ ih).trans ?_
      rw [List.perm_iff_count]; intro x; simp only [List.count_append]; omega

theorem orOne_staffWritten (nStaves st : Nat) : orOne (staffWritten nStaves st) = orOne st := by
  unfold staffWritten orOne
  by_cases h0 : st = 0
  · simp [h0]
  · by_cases h1 : st = 1
    · subst h1; by_cases h : 1 < nStaves <;> simp [h]
    · simp [h0, h1]

/-- a member of a grace sequence as it should be read in voice `v` -/
def refOut (v : Nat) (g : GraceRef) : NoteOut :=
  { idx := g.idx, onset := g.onset, dur := 0, voice := orOne v, staff := orOne g.staff }

theorem emitOne_out (nStaves v : Nat) (n : NoteIn) :
    (emitOne nStaves v n).map Placed.out =
      if n.grace then (if n.gracePrev then [] else n.seq.map (refOut v)) else [n.out v] := by
  unfold emitOne
  by_cases hg : n.grace = true
  · by_cases hp : n.gracePrev = true
    · simp [hg, hp]
    · simp [hg, hp, Placed.out, refOut, orOne_staffWritten]
  · simp [hg, Placed.out, NoteIn.out, orOne_staffWritten]

theorem emitVoice_out (nStaves v : Nat) (ns : List NoteIn) :
    (emitVoice nStaves v ns).map Placed.out =
      ns.flatMap fun n => if n.grace then (if n.gracePrev then [] else n.seq.map (refOut v)) else [n.out v] := by
  induction ns with
  | nil => rfl
  | cons n rest ih => simp only [emitVoice, List.map_append, emitOne_out, ih, List.flatMap_cons]

/-- one voice: what is emitted is a permutation of its notes -/
theorem voice_perm (nStaves v : Nat) (ns : List NoteIn)
    (hg : ((ns.filter fun n => n.grace && !n.gracePrev).flatMap (·.seq)).Perm ((ns.filter (·.grace)).map NoteIn.ref)) :
    ((emitVoice nStaves v ns).map Placed.out).Perm (ns.map (NoteIn.out v)) := by
  rw [emitVoice_out]
  refine (flatMap_split ns (·.grace) _).trans ?_
  -- the grace notes
  have h1 : ((ns.filter (·.grace)).flatMap fun n =>
      if n.grace then (if n.gracePrev then [] else n.seq.map (refOut v)) else [n.out v]).Perm
      ((ns.filter (·.grace)).map (NoteIn.out v)) := by
    have e1 : ((ns.filter (·.grace)).flatMap fun n =>
        if n.grace then (if n.gracePrev then [] else n.seq.map (refOut v)) else [n.out v]) =
        (((ns.filter fun n => n.grace && !n.gracePrev).flatMap (·.seq)).map (refOut v)) := by
      rw [List.map_flatMap]
      clear hg
      induction ns with
      | nil => rfl
      | cons n rest ih =>
        by_cases hgr : n.grace = true
        · by_cases hp : n.gracePrev = true
          · simp [List.filter_cons, hgr, hp, ih]
          · simp [List.filter_cons, hgr, hp, ih]
        · simp [List.filter_cons, hgr, ih]
    rw [e1]
    refine (hg.map _).trans ?_
    rw [List.map_map]
    apply List.Perm.of_eq
    apply List.map_congr_left
    intro n hn
    have : n.grace = true := (List.mem_filter.mp hn).2
    simp [refOut, NoteIn.ref, NoteIn.out, this]
  -- the other notes
  have h2 : ((ns.filter fun n => !n.grace).flatMap fun n =>
      if n.grace then (if n.gracePrev then [] else n.seq.map (refOut v)) else [n.out v]) =
      (ns.filter fun n => !n.grace).map (NoteIn.out v) := by
    clear hg h1
    induction ns with
    | nil => rfl
    | cons n rest ih =>
      by_cases hgr : n.grace = true
      · simp [List.filter_cons, hgr, ih]
      · simp [List.filter_cons, hgr, ih]
  rw [h2]
  refine (h1.append_right _).trans ?_
  rw [← List.map_append]
  apply List.Perm.map
  have := List.filter_append_perm (fun n : NoteIn => n.grace) ns
  simpa using this

/-- the condition on grace sequences does not depend on the order of the notes -/
theorem graceOK_perm {ns ns' : List NoteIn} (h : ns'.Perm ns)
    (hg : ((ns.filter fun n => n.grace && !n.gracePrev).flatMap (·.seq)).Perm ((ns.filter (·.grace)).map NoteIn.ref)) :
    ((ns'.filter fun n => n.grace && !n.gracePrev).flatMap (·.seq)).Perm ((ns'.filter (·.grace)).map NoteIn.ref) :=
  (((h.filter _).flatMap_right _).trans hg).trans ((h.filter _).map _).symm

/-- what the notes of a segment should read back as, voice by voice as `remove_voice_polyphony` leaves them -/
def segExpected (s : Segment) : List NoteOut :=
  (assignVoices s.notes).flatMap fun vn => vn.2.map (NoteIn.out vn.1)

theorem segOut_perm (mstart nStaves : Nat) (s : Segment) (hwf : SegWF mstart s) :
    (segOut nStaves s).Perm (segExpected s) := by
  obtain ⟨_, _, _, _, hvoices⟩ := hwf
  unfold segOut segPlaced segExpected
  rw [List.flatMap_map, List.map_flatMap]
  -- voice by voice
  have hper : ∀ vn ∈ segVoices s,
      ((tagChords none (emitVoice nStaves vn.1 (sortVoice vn.2))).map Placed.out).Perm (vn.2.map (NoteIn.out vn.1)) := by
    intro vn hvn
    rw [tagChords_out]
    have hvwf : VoiceWF s vn.2 := by
      rcases mem_segVoices hvn with h | h
      · exact hvoices vn h
      · rw [h]; exact voiceWF_nil s
    refine (voice_perm nStaves vn.1 (sortVoice vn.2) (graceOK_perm (sortVoice_perm vn.2) hvwf.2)).trans ?_
    exact (sortVoice_perm vn.2).map _
  have h1 : ((segVoices s).flatMap fun vn =>
      (tagChords none (emitVoice nStaves vn.1 (sortVoice vn.2))).map Placed.out).Perm
      ((segVoices s).flatMap fun vn => vn.2.map (NoteIn.out vn.1)) := by
    generalize segVoices s = l at hper
    induction l with
    | nil => simp
    | cons a rest ih =>
      simp only [List.flatMap_cons]
      exact (hper a (List.mem_cons_self ..)).append (ih fun vn h => hper vn (List.mem_cons_of_mem _ h))
  refine h1.trans ?_
  unfold segVoices
  simp only
  split
  · rename_i hempty
    have : assignVoices s.notes = [] := by
      have := (isortBy_perm voiceLt (assignVoices s.notes)).length_eq
      rw [List.isEmpty_iff] at hempty
      rw [hempty] at this
      exact List.length_eq_zero_iff.mp this.symm
    simp [this]
  · exact (isortBy_perm voiceLt _).flatMap_right _

/-- what the notes of a measure should read back as -/
def measureExpected (m : MeasureContent) : List NoteOut := m.segs.flatMap segExpected

theorem measureOut_perm (m : MeasureContent) (hwf : MeasureWF m) : (measureOut m).Perm (measureExpected m) := by
  obtain ⟨_, _, hsegs⟩ := hwf
  unfold measureOut measureExpected
  generalize m.segs = l at hsegs
  induction l with
  | nil => simp
  | cons a rest ih =>
    simp only [List.flatMap_cons]
    exact (segOut_perm m.start m.nStaves a (hsegs a (List.mem_cons_self ..))).append
      (ih fun s h => hsegs s (List.mem_cons_of_mem _ h))

end C03.Perm
