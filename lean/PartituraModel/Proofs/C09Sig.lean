/-
C09 helper lemmas (round 6): time signatures, key signatures and clefs in the unfolded part.  `create_variant_part`
copies such an object only when it differs from the previous one of its class (`sigSkip` / `prevSig`); here: whatever
is left out is in force anyway.
-/
import PartituraModel.Proofs.C09Variant

namespace C09
open Model.Unfold

/-- what matters of a copy for the signature maps: class, time, compared fields -/
def sv (c : OObj) : Kind × Int × List Int := (c.kind, c.start, c.payload)

/-- among `views` some entry of kind `k` lies strictly before `t`, the latest such entries include one that says `pay` -/
def InForceBefore (views : List (Kind × Int × List Int)) (k : Kind) (pay : List Int) (t : Int) : Prop :=
  ∃ c ∈ views, c.1 = k ∧ c.2.2 = pay ∧ c.2.1 < t ∧ ∀ q ∈ views, q.1 = k → q.2.1 < t → q.2.1 ≤ c.2.1

/-- the object list of a part is read off its timeline: time points in order (harness `ordered_objects`, the order in
which `create_variant_part` meets the objects) -/
def TimeOrdered (objs : List Obj) : Prop := objs.Pairwise (fun a b => a.start ≤ b.start)

theorem isSig_not_dropped (k : Kind) (h : k.isSig = true) : k.dropped = false := by
  cases k <;> simp_all [Kind.isSig, Kind.dropped]

/-- appending entries that do not lie before `t` (or are of another kind) changes nothing -/
theorem inForce_append (views extra : List (Kind × Int × List Int)) (k : Kind) (pay : List Int) (t : Int)
    (h : InForceBefore views k pay t) (hex : ∀ q ∈ extra, q.1 = k → t ≤ q.2.1) :
    InForceBefore (views ++ extra) k pay t := by
  obtain ⟨c, hc, h1, h2, h3, h4⟩ := h
  refine ⟨c, List.mem_append_left _ hc, h1, h2, h3, ?_⟩
  intro q hq hk hlt
  rcases List.mem_append.mp hq with hq | hq
  · exact h4 q hq hk hlt
  · have := hex q hq hk; omega

/-- the step of the fold in `prevSig` -/
def later (best : Option OObj) (o : OObj) : Option OObj :=
  match best with
  | none => some o
  | some b => if b.start < o.start then some o else some b

theorem foldl_later (l : List OObj) : ∀ (best : Option OObj) (p : OObj), l.foldl later best = some p →
    (p ∈ l ∨ best = some p) ∧ (∀ q ∈ l, q.start ≤ p.start) ∧ (∀ b, best = some b → b.start ≤ p.start) := by
  induction l with
  | nil =>
    intro best p h
    simp only [List.foldl_nil] at h
    refine ⟨Or.inr h, by simp, ?_⟩
    intro b hb
    rw [h] at hb
    simp only [Option.some.injEq] at hb
    subst hb; exact Int.le_refl _
  | cons x xs ih =>
    intro best p h
    simp only [List.foldl_cons] at h
    obtain ⟨h1, h2, h3⟩ := ih (later best x) p h
    cases best with
    | none =>
      have hx := h3 x rfl
      refine ⟨Or.inl ?_, ?_, by simp⟩
      · rcases h1 with h1 | h1
        · exact List.mem_cons_of_mem _ h1
        · simp only [later, Option.some.injEq] at h1
          subst h1; exact List.mem_cons_self
      · intro q hq
        rcases List.mem_cons.mp hq with rfl | hq
        · exact hx
        · exact h2 q hq
    | some b =>
      by_cases hb : b.start < x.start
      · have e : later (some b) x = some x := by simp [later, hb]
        rw [e] at h1 h3
        have hx := h3 x rfl
        refine ⟨Or.inl ?_, ?_, ?_⟩
        · rcases h1 with h1 | h1
          · exact List.mem_cons_of_mem _ h1
          · simp only [Option.some.injEq] at h1
            subst h1; exact List.mem_cons_self
        · intro q hq
          rcases List.mem_cons.mp hq with rfl | hq
          · exact hx
          · exact h2 q hq
        · intro b' hb'
          simp only [Option.some.injEq] at hb'
          subst hb'; omega
      · have e : later (some b) x = some b := by simp [later, hb]
        rw [e] at h1 h3
        have hbp := h3 b rfl
        refine ⟨?_, ?_, ?_⟩
        · rcases h1 with h1 | h1
          · exact Or.inl (List.mem_cons_of_mem _ h1)
          · exact Or.inr h1
        · intro q hq
          rcases List.mem_cons.mp hq with rfl | hq
          · omega
          · exact h2 q hq
        · intro b' hb'
          simp only [Option.some.injEq] at hb'
          subst hb'; exact hbp

/-- `prevSig`: the previous object of the class — one of the copies made so far, of that kind, strictly before `t`, and
no copy of that kind made so far lies between it and `t` -/
theorem prevSig_spec (out : List OObj) (k : Kind) (t : Int) (p : OObj) (h : prevSig out k t = some p) :
    p ∈ out ∧ p.kind = k ∧ p.start < t ∧ ∀ q ∈ out, q.kind = k → q.start < t → q.start ≤ p.start := by
  have h' : (out.filter fun o => o.kind = k && o.start < t).foldl later none = some p := h
  obtain ⟨h1, h2, _⟩ := foldl_later _ none p h'
  rcases h1 with h1 | h1
  · rw [List.mem_filter] at h1
    obtain ⟨m1, m2⟩ := h1
    simp only [Bool.and_eq_true, decide_eq_true_eq] at m2
    refine ⟨m1, m2.1, m2.2, ?_⟩
    intro q hq hk hlt
    exact h2 q (List.mem_filter.mpr ⟨hq, by simp [hk, hlt]⟩)
  · cases h1

theorem sigSkip_spec (seen : List OObj) (o : Obj) (t : Int) (h : sigSkip seen o t = true) :
    ∃ p, prevSig seen o.kind t = some p ∧ p.payload = o.payload := by
  unfold sigSkip at h
  simp only [Bool.and_eq_true] at h
  obtain ⟨_, h2⟩ := h
  cases hp : prevSig seen o.kind t with
  | none => simp [hp] at h2
  | some p =>
    simp only [hp, decide_eq_true_eq] at h2
    exact ⟨p, rfl, h2⟩

/-- one visit, first pass: a signature / clef of the window is copied, or the latest copy of its class made so far
(before its shifted time) says the same -/
theorem copyPass_sig (v : Visit) (k : Nat) : ∀ (l : List (Nat × Obj)) (seen : List OObj),
    l.Pairwise (fun a b => a.2.start ≤ b.2.start) →
    ∀ (i : Nat) (o : Obj), (i, o) ∈ l → inWin v o = true → o.kind.isSig = true →
      mkCopy i k o (v.off - v.s) ∈ copyPass v k l seen ∨
      InForceBefore ((seen ++ copyPass v k l seen).map sv) o.kind o.payload (o.start + (v.off - v.s)) := by
  intro l
  induction l with
  | nil => intro seen _ i o h; simp at h
  | cons q rest ih =>
    intro seen hp i o hmem hw hs
    obtain ⟨j, x⟩ := q
    rw [List.pairwise_cons] at hp
    obtain ⟨hx, hrest⟩ := hp
    have tail : ∀ seen', (i, o) ∈ rest →
        mkCopy i k o (v.off - v.s) ∈ copyPass v k rest seen' ∨
        InForceBefore ((seen' ++ copyPass v k rest seen').map sv) o.kind o.payload (o.start + (v.off - v.s)) :=
      fun seen' h => ih seen' hrest i o h hw hs
    simp only [copyPass]
    by_cases hwx : v.s ≤ x.start ∧ x.start < v.e
    · simp only [hwx, and_self, if_true]
      cases hd : x.kind.dropped with
      | true =>
        simp only [if_true]
        rcases List.mem_cons.mp hmem with he | he
        · simp only [Prod.mk.injEq] at he
          obtain ⟨rfl, rfl⟩ := he
          rw [isSig_not_dropped _ hs] at hd; cases hd
        · exact tail seen he
      | false =>
        simp only [Bool.false_eq_true, if_false]
        cases hsk : sigSkip seen x (x.start + (v.off - v.s)) with
        | true =>
          simp only [if_true]
          rcases List.mem_cons.mp hmem with he | he
          · simp only [Prod.mk.injEq] at he
            obtain ⟨rfl, rfl⟩ := he
            obtain ⟨p, hp1, hp2⟩ := sigSkip_spec seen o _ hsk
            obtain ⟨m1, m2, m3, m4⟩ := prevSig_spec seen o.kind _ p hp1
            refine Or.inr ⟨sv p, List.mem_map.mpr ⟨p, List.mem_append_left _ m1, rfl⟩, m2, hp2, m3, ?_⟩
            intro q hq hk hlt
            obtain ⟨q', hq', rfl⟩ := List.mem_map.mp hq
            rcases List.mem_append.mp hq' with hq' | hq'
            · exact m4 q' hq' hk hlt
            · obtain ⟨q0, hq0, _, _, rfl⟩ := copyPass_mem v k rest seen q' hq'
              have hge : o.start ≤ q0.2.start := hx q0 hq0
              simp only [sv, mkCopy] at hlt
              exfalso; omega
          · exact tail seen he
        | false =>
          simp only [Bool.false_eq_true, if_false]
          rcases List.mem_cons.mp hmem with he | he
          · simp only [Prod.mk.injEq] at he
            obtain ⟨rfl, rfl⟩ := he
            exact Or.inl List.mem_cons_self
          · rcases tail (seen ++ [mkCopy j k x (v.off - v.s)]) he with h | h
            · exact Or.inl (List.mem_cons_of_mem _ h)
            · right
              have e : seen ++ [mkCopy j k x (v.off - v.s)] ++ copyPass v k rest (seen ++ [mkCopy j k x (v.off - v.s)]) =
                  seen ++ mkCopy j k x (v.off - v.s) :: copyPass v k rest (seen ++ [mkCopy j k x (v.off - v.s)]) := by simp
              rw [e] at h
              exact h
    · simp only [hwx, if_false]
      rcases List.mem_cons.mp hmem with he | he
      · simp only [Prod.mk.injEq] at he
        obtain ⟨rfl, rfl⟩ := he
        simp only [inWin, Bool.and_eq_true, decide_eq_true_eq] at hw
        exact absurd hw hwx
      · exact tail seen he

theorem enum_pairwise (objs : List Obj) (h : objs.Pairwise (fun a b => a.start ≤ b.start)) :
    ∀ k, (enum k objs).Pairwise (fun a b => a.2.start ≤ b.2.start) := by
  induction objs with
  | nil => intro k; simp [enum]
  | cons a rest ih =>
    intro k
    rw [List.pairwise_cons] at h
    simp only [enum, List.pairwise_cons]
    refine ⟨?_, ih h.2 (k + 1)⟩
    intro b hb
    obtain ⟨j, y⟩ := b
    have := (enum_mem rest (k + 1) j y).mp hb
    exact h.1 y (List.mem_of_getElem? this.2)

theorem resolve_sv (news : List OObj) : (resolve news).map sv = news.map sv := by
  unfold resolve
  rw [List.map_map]
  rfl

/-- one visit: the same for everything the visit adds (the extra fermatas are no signatures) -/
theorem visitCopies_sig (objs : List Obj) (hsorted : objs.Pairwise (fun a b => a.start ≤ b.start)) (v : Visit) (k : Nat)
    (out : List OObj) (i : Nat) (o : Obj) (hio : objs[i]? = some o) (hw : inWin v o = true) (hs : o.kind.isSig = true) :
    (∃ c ∈ visitCopies objs v k out, core c = core (mkCopy i k o (v.off - v.s))) ∨
    InForceBefore ((out ++ visitCopies objs v k out).map sv) o.kind o.payload (o.start + (v.off - v.s)) := by
  have hm : (i, o) ∈ enum 0 objs := (enum_mem objs 0 i o).mpr ⟨Nat.zero_le _, by simpa using hio⟩
  rcases copyPass_sig v k (enum 0 objs) out (enum_pairwise objs hsorted 0) i o hm hw hs with h | h
  · left
    have hr : ∀ c ∈ copyPass v k (enum 0 objs) out, ∃ c' ∈ resolve (copyPass v k (enum 0 objs) out), core c' = core c := by
      intro c hc
      unfold resolve
      exact ⟨_, List.mem_map.mpr ⟨c, hc, rfl⟩, rfl⟩
    obtain ⟨c', hc', hcore⟩ := hr _ h
    refine ⟨c', ?_, hcore⟩
    unfold visitCopies
    exact List.mem_append_left _ hc'
  · right
    have e : (out ++ visitCopies objs v k out).map sv =
        (out ++ copyPass v k (enum 0 objs) out).map sv ++ (fermataPass v k (enum 0 objs)).map sv := by
      unfold visitCopies
      simp only [List.map_append, resolve_sv, List.append_assoc]
    rw [e]
    apply inForce_append _ _ _ _ _ h
    intro q hq hk
    obtain ⟨q', hq', rfl⟩ := List.mem_map.mp hq
    have hf := (fermataPass_extra v k _ q' hq').2.1
    simp only [sv] at hk
    rw [hf] at hk
    rw [← hk] at hs
    cases hs

/-- everything that is added from some visit on starts at or after that visit's offset -/
theorem variantObjs_later (objs : List Obj) : ∀ (vs : List Visit) (k : Nat) (out : List OObj) (off : Int),
    OffsetsOK off vs → (∀ v ∈ vs, v.s < v.e) →
    ∃ X, variantObjs objs k vs out = out ++ X ∧ ∀ q ∈ X, off ≤ q.start := by
  intro vs
  induction vs with
  | nil => intro k out off _ _; exact ⟨[], by simp [variantObjs], by simp⟩
  | cons w ws ih =>
    intro k out off hok hpos
    obtain ⟨h0, hrest⟩ := hok
    have hw := hpos w List.mem_cons_self
    obtain ⟨X, hX, hXs⟩ := ih (k + 1) (out ++ visitCopies objs w k out) (off + (w.e - w.s)) hrest
      (fun v hv => hpos v (List.mem_cons_of_mem _ hv))
    refine ⟨visitCopies objs w k out ++ X, by simp only [variantObjs, hX, List.append_assoc], ?_⟩
    intro q hq
    rcases List.mem_append.mp hq with hq | hq
    · obtain ⟨_, hkind⟩ := visitCopies_mem objs w k out q hq
      rcases hkind with ⟨_, _, _, hst⟩ | ⟨_, i, o, _, hwin, _, hcore, _⟩
      · rw [hst]; omega
      · simp only [core, mkCopy, Prod.mk.injEq] at hcore
        have hst := hcore.2.2.2.1
        simp only [inWin, Bool.and_eq_true, decide_eq_true_eq] at hwin
        omega
    · have := hXs q hq; omega

/-- the whole unfolded part -/
theorem variantObjs_sig (objs : List Obj) (hsorted : objs.Pairwise (fun a b => a.start ≤ b.start)) :
    ∀ (vs : List Visit) (k : Nat) (out : List OObj) (off : Int), OffsetsOK off vs → (∀ v ∈ vs, v.s < v.e) →
    ∀ (n : Nat) (v : Visit), vs[n]? = some v → ∀ (i : Nat) (o : Obj), objs[i]? = some o → inWin v o = true →
      o.kind.isSig = true →
      (∃ c ∈ variantObjs objs k vs out, core c = core (mkCopy i (k + n) o (v.off - v.s))) ∨
      InForceBefore ((variantObjs objs k vs out).map sv) o.kind o.payload (o.start + (v.off - v.s)) := by
  intro vs
  induction vs with
  | nil => intro k out off _ _ n v h; simp at h
  | cons w ws ih =>
    intro k out off hok hpos n v hv i o hio hw hs
    obtain ⟨h0, hrest⟩ := hok
    have hposw := hpos w List.mem_cons_self
    have hpos' : ∀ v ∈ ws, v.s < v.e := fun v hv => hpos v (List.mem_cons_of_mem _ hv)
    cases n with
    | zero =>
      simp only [List.getElem?_cons_zero, Option.some.injEq] at hv
      subst hv
      simp only [variantObjs, Nat.add_zero]
      obtain ⟨X, hX, hXs⟩ := variantObjs_later objs ws (k + 1) (out ++ visitCopies objs w k out) (off + (w.e - w.s)) hrest hpos'
      rcases visitCopies_sig objs hsorted w k out i o hio hw hs with ⟨c, hc, hcore⟩ | h
      · exact Or.inl ⟨c, variantObjs_sub objs ws _ _ c (List.mem_append_right _ hc), hcore⟩
      · right
        rw [hX, List.map_append]
        apply inForce_append _ _ _ _ _ h
        intro q hq _
        obtain ⟨q', hq', rfl⟩ := List.mem_map.mp hq
        have := hXs q' hq'
        simp only [inWin, Bool.and_eq_true, decide_eq_true_eq] at hw
        simp only [sv]
        omega
    | succ n =>
      simp only [List.getElem?_cons_succ] at hv
      have e : k + (n + 1) = k + 1 + n := by omega
      simp only [variantObjs]
      rw [e]
      exact ih (k + 1) _ (off + (w.e - w.s)) hrest hpos' n v hv i o hio hw hs

end C09
