/-
C01 helper lemmas, round 2: every operation of the state machine on ANY reachable state (`WGood`),
without the hypothesis `Valid` — what `add` / `remove` do to the registration records and to the listings
when a side is registered twice or the object is not registered at all — and histories.
-/
import PartituraModel.Proofs.C01Weak

namespace TL

/-- `which in ("start", "both")` / `which in ("end", "both")` -/
def Which.has : Which → Side → Prop
  | w, .start => w = .start ∨ w = .both
  | w, .stop => w = .stop ∨ w = .both

instance (w : Which) (sd : Side) : Decidable (w.has sd) := by
  cases sd <;> simp only [Which.has] <;> infer_instance

-- ------------------------------------------------------------------ add

theorem add_wspec {s : Part} (h : WGood s) {o : ObjRef} {st en : Option Int}
    (hn : (Op.add o st en).negTime = false) :
    ∃ s', step s (.add o st en) = .ok (s', .unit) ∧ WGood s' ∧ s'.qtab = s.qtab ∧ s'.requested = s.requested
      ∧ (getObj s'.objs o).start = (if st.isSome then st else (getObj s.objs o).start)
      ∧ (getObj s'.objs o).stop = (if en.isSome then en else (getObj s.objs o).stop)
      ∧ (∀ o', o' ≠ o → getObj s'.objs o' = getObj s.objs o')
      ∧ (∀ x, x ∈ s'.times ↔ x ∈ s.times ∨ some x = st ∨ some x = en)
      ∧ (∀ sd x o', Listed s' sd x o' ↔
          Listed s sd x o' ∨ (o' = o ∧ ((sd = .start ∧ st = some x) ∨ (sd = .stop ∧ en = some x)))) := by
  simp only [Op.negTime, Bool.or_eq_false_iff] at hn
  obtain ⟨hn1, hn2⟩ := hn
  simp only [step, stepAdd, hn1, hn2, Bool.or_self, Bool.false_eq_true, if_false]
  -- the start side
  have hA : ∃ s1, addSideOpt s .start st o = .ok s1 ∧ WGood s1
      ∧ s1.qtab = s.qtab ∧ s1.requested = s.requested
      ∧ (getObj s1.objs o).start = (if st.isSome then st else (getObj s.objs o).start)
      ∧ (getObj s1.objs o).stop = (getObj s.objs o).stop
      ∧ (∀ o', o' ≠ o → getObj s1.objs o' = getObj s.objs o')
      ∧ (∀ x, x ∈ s1.times ↔ x ∈ s.times ∨ some x = st)
      ∧ (∀ sd x o', Listed s1 sd x o' ↔ Listed s sd x o' ∨ (o' = o ∧ sd = .start ∧ st = some x)) := by
    cases st with
    | none => exact ⟨s, rfl, h, rfl, rfl, by simp, rfl, fun _ _ => rfl, by simp, by simp⟩
    | some a =>
      have ha : 0 ≤ a := isNeg_false_some hn1
      obtain ⟨s1, he, hg, hq, hobjs, hr, ht, hlist⟩ := addSide_wspec h (sd := .start) (o := o) ha
      have hrefs : ∀ e : ObjSt, (e.setAt .start (some a)).ref = e.ref := fun e => by simp
      refine ⟨s1, he, hg, hq, hr, ?_, ?_, ?_, ?_, ?_⟩
      · rw [hobjs, getObj_setObj_same h.1.objsNodup hrefs]; rfl
      · rw [hobjs, getObj_setObj_same h.1.objsNodup hrefs]; rfl
      · intro o' hne
        rw [hobjs, getObj_setObj_other h.1.objsNodup hrefs hne]
      · intro x
        rw [ht x]
        simp [eq_comm]
      · intro sd x o'
        rw [hlist]
        simp [eq_comm]
  obtain ⟨s1, he1, hg1, hq1, hr1, hs1, hp1, ho1, ht1, hl1⟩ := hA
  rw [he1]
  simp only [Except.bind]
  have hB : ∃ s2, addSideOpt s1 .stop en o = .ok s2 ∧ WGood s2
      ∧ s2.qtab = s1.qtab ∧ s2.requested = s1.requested
      ∧ (getObj s2.objs o).start = (getObj s1.objs o).start
      ∧ (getObj s2.objs o).stop = (if en.isSome then en else (getObj s1.objs o).stop)
      ∧ (∀ o', o' ≠ o → getObj s2.objs o' = getObj s1.objs o')
      ∧ (∀ x, x ∈ s2.times ↔ x ∈ s1.times ∨ some x = en)
      ∧ (∀ sd x o', Listed s2 sd x o' ↔ Listed s1 sd x o' ∨ (o' = o ∧ sd = .stop ∧ en = some x)) := by
    cases en with
    | none => exact ⟨s1, rfl, hg1, rfl, rfl, rfl, by simp, fun _ _ => rfl, by simp, by simp⟩
    | some b =>
      have hb : 0 ≤ b := isNeg_false_some hn2
      obtain ⟨s2, he, hg, hq, hobjs, hr, ht, hlist⟩ := addSide_wspec hg1 (sd := .stop) (o := o) hb
      have hrefs : ∀ e : ObjSt, (e.setAt .stop (some b)).ref = e.ref := fun e => by simp
      refine ⟨s2, he, hg, hq, hr, ?_, ?_, ?_, ?_, ?_⟩
      · rw [hobjs, getObj_setObj_same hg1.1.objsNodup hrefs]; rfl
      · rw [hobjs, getObj_setObj_same hg1.1.objsNodup hrefs]; rfl
      · intro o' hne
        rw [hobjs, getObj_setObj_other hg1.1.objsNodup hrefs hne]
      · intro x
        rw [ht x]
        simp [eq_comm]
      · intro sd x o'
        rw [hlist]
        simp [eq_comm]
  obtain ⟨s2, he2, hg2, hq2, hr2, hs2, hp2, ho2, ht2, hl2⟩ := hB
  rw [he2]
  refine ⟨s2, rfl, hg2, by rw [hq2, hq1], by rw [hr2, hr1], by rw [hs2, hs1], by rw [hp2, hp1], ?_, ?_, ?_⟩
  · intro o' hne; rw [ho2 o' hne, ho1 o' hne]
  · intro x; rw [ht2 x, ht1 x]; exact or_assoc
  · intro sd x o'
    rw [hl2, hl1]
    constructor
    · rintro ((a | ⟨a, b, c⟩) | ⟨a, b, c⟩)
      · exact Or.inl a
      · exact Or.inr ⟨a, Or.inl ⟨b, c⟩⟩
      · exact Or.inr ⟨a, Or.inr ⟨b, c⟩⟩
    · rintro (a | ⟨a, ⟨b, c⟩ | ⟨b, c⟩⟩)
      · exact Or.inl (Or.inl a)
      · exact Or.inl (Or.inr ⟨a, b, c⟩)
      · exact Or.inr ⟨a, b, c⟩

-- ------------------------------------------------------------------ remove

theorem removeSide_weffect {s : Part} (h : WGood s) (sd : Side) (o : ObjRef) :
    ∃ s', removeSide s sd o = .ok s' ∧ WGood s' ∧ s'.qtab = s.qtab
      ∧ (getObj s'.objs o).at sd = none
      ∧ (∀ sd', sd' ≠ sd → (getObj s'.objs o).at sd' = (getObj s.objs o).at sd')
      ∧ (∀ o', o' ≠ o → getObj s'.objs o' = getObj s.objs o')
      ∧ (∀ sd' x o', Listed s' sd' x o' ↔
          Listed s sd' x o' ∧ ¬ (o' = o ∧ sd' = sd ∧ (getObj s.objs o).at sd = some x)) := by
  obtain ⟨s', he, hg, hq, hobjs, hlist⟩ := removeSide_wspec h sd o
  have hrefs : ∀ e : ObjSt, (e.setAt sd none).ref = e.ref := fun e => by simp
  refine ⟨s', he, hg, hq, ?_, ?_, ?_, hlist⟩
  · rw [hobjs]
    cases hat : (getObj s.objs o).at sd with
    | none => simpa using hat
    | some t => simp only; rw [getObj_setObj_same h.1.objsNodup hrefs]; simp
  · intro sd' hne
    rw [hobjs]
    cases hat : (getObj s.objs o).at sd with
    | none => rfl
    | some t => simp only; rw [getObj_setObj_same h.1.objsNodup hrefs, setAt_at_other _ hne]
  · intro o' hne
    rw [hobjs]
    cases hat : (getObj s.objs o).at sd with
    | none => rfl
    | some t => simp only; rw [getObj_setObj_other h.1.objsNodup hrefs hne]

theorem remove_wspec {s : Part} (h : WGood s) (o : ObjRef) (w : Which) :
    ∃ s', step s (.remove o w) = .ok (s', .unit) ∧ WGood s' ∧ s'.qtab = s.qtab
      ∧ (getObj s'.objs o).start = (if w = .start ∨ w = .both then none else (getObj s.objs o).start)
      ∧ (getObj s'.objs o).stop = (if w = .stop ∨ w = .both then none else (getObj s.objs o).stop)
      ∧ (∀ o', o' ≠ o → getObj s'.objs o' = getObj s.objs o')
      ∧ (∀ sd x o', Listed s' sd x o' ↔
          Listed s sd x o' ∧ ¬ (o' = o ∧ w.has sd ∧ (getObj s.objs o).at sd = some x)) := by
  simp only [step, stepRemove]
  have hA : ∃ s1, (if w = .start ∨ w = .both then removeSide s .start o else .ok s) = .ok s1 ∧ WGood s1
      ∧ s1.qtab = s.qtab
      ∧ (getObj s1.objs o).start = (if w = .start ∨ w = .both then none else (getObj s.objs o).start)
      ∧ (getObj s1.objs o).stop = (getObj s.objs o).stop
      ∧ (∀ o', o' ≠ o → getObj s1.objs o' = getObj s.objs o')
      ∧ (∀ sd x o', Listed s1 sd x o' ↔
          Listed s sd x o' ∧ ¬ (o' = o ∧ sd = .start ∧ w.has .start ∧ (getObj s.objs o).at .start = some x)) := by
    by_cases hw : w = .start ∨ w = .both
    · obtain ⟨s1, he, hg, hq, h1, h2, h3, h4⟩ := removeSide_weffect h .start o
      refine ⟨s1, by simp [hw, he], hg, hq, by simp only [hw, if_true]; exact h1, h2 .stop (by decide), h3, ?_⟩
      intro sd x o'
      rw [h4]
      have : w.has .start := hw
      constructor
      · rintro ⟨a, b⟩; exact ⟨a, fun hc => b ⟨hc.1, hc.2.1, hc.2.2.2⟩⟩
      · rintro ⟨a, b⟩; exact ⟨a, fun hc => b ⟨hc.1, hc.2.1, this, hc.2.2⟩⟩
    · refine ⟨s, by simp [hw], h, rfl, by simp [hw], rfl, fun _ _ => rfl, ?_⟩
      intro sd x o'
      have : ¬ w.has .start := hw
      simp [this]
  obtain ⟨s1, he1, hg1, hq1, hs1, hp1, ho1, hl1⟩ := hA
  rw [he1]
  simp only [Except.bind]
  have hB : ∃ s2, (if w = .stop ∨ w = .both then removeSide s1 .stop o else .ok s1) = .ok s2 ∧ WGood s2
      ∧ s2.qtab = s1.qtab
      ∧ (getObj s2.objs o).start = (getObj s1.objs o).start
      ∧ (getObj s2.objs o).stop = (if w = .stop ∨ w = .both then none else (getObj s1.objs o).stop)
      ∧ (∀ o', o' ≠ o → getObj s2.objs o' = getObj s1.objs o')
      ∧ (∀ sd x o', Listed s2 sd x o' ↔
          Listed s1 sd x o' ∧ ¬ (o' = o ∧ sd = .stop ∧ w.has .stop ∧ (getObj s.objs o).at .stop = some x)) := by
    by_cases hw : w = .stop ∨ w = .both
    · obtain ⟨s2, he, hg, hq, h1, h2, h3, h4⟩ := removeSide_weffect hg1 .stop o
      refine ⟨s2, by simp [hw, he], hg, hq, h2 .start (by decide), by simp only [hw, if_true]; exact h1, h3, ?_⟩
      intro sd x o'
      rw [h4]
      have : w.has .stop := hw
      have e : (getObj s1.objs o).at .stop = (getObj s.objs o).at .stop := hp1
      rw [e]
      constructor
      · rintro ⟨a, b⟩; exact ⟨a, fun hc => b ⟨hc.1, hc.2.1, hc.2.2.2⟩⟩
      · rintro ⟨a, b⟩; exact ⟨a, fun hc => b ⟨hc.1, hc.2.1, this, hc.2.2⟩⟩
    · refine ⟨s1, by simp [hw], hg1, rfl, rfl, by simp [hw], fun _ _ => rfl, ?_⟩
      intro sd x o'
      have : ¬ w.has .stop := hw
      simp [this]
  obtain ⟨s2, he2, hg2, hq2, hs2, hp2, ho2, hl2⟩ := hB
  rw [he2]
  refine ⟨s2, rfl, hg2, by rw [hq2, hq1], by rw [hs2, hs1], by rw [hp2, hp1], ?_, ?_⟩
  · intro o' hne; rw [ho2 o' hne, ho1 o' hne]
  · intro sd x o'
    rw [hl2, hl1]
    cases sd with
    | start =>
      constructor
      · rintro ⟨⟨a, b⟩, -⟩; exact ⟨a, fun hc => b ⟨hc.1, rfl, hc.2.1, hc.2.2⟩⟩
      · rintro ⟨a, b⟩
        exact ⟨⟨a, fun hc => b ⟨hc.1, hc.2.2.1, hc.2.2.2⟩⟩, fun hc => by cases hc.2.1⟩
    | stop =>
      constructor
      · rintro ⟨⟨a, -⟩, b⟩; exact ⟨a, fun hc => b ⟨hc.1, rfl, hc.2.1, hc.2.2⟩⟩
      · rintro ⟨a, b⟩
        exact ⟨⟨a, fun hc => by cases hc.2.1⟩, fun hc => b ⟨hc.1, hc.2.2.1, hc.2.2.2⟩⟩

-- ------------------------------------------------------------------ get_or_add_point

theorem getOrAdd_wspec {s : Part} (h : WGood s) {t : Int} (ht : 0 ≤ t) :
    ∃ s', step s (.getOrAdd t) = .ok (s', .point (some t)) ∧ WGood s' ∧ s'.qtab = s.qtab ∧ s'.objs = s.objs
      ∧ t ∈ s'.times ∧ (∀ x, x ∈ s'.times ↔ x ∈ s.times ∨ x = t)
      ∧ (∀ sd x o, Listed s' sd x o ↔ Listed s sd x o) := by
  obtain ⟨s1, he, hc, hl, hmem, hobjs, hq, hr, htimes, hlist⟩ := ensurePoint_wspec h.1 h.2 ht
  simp only [step, stepGetOrAdd, he, Except.map]
  refine ⟨_, rfl, ⟨?_, hl⟩, hq, hobjs, hmem, htimes, hlist⟩
  have hreq : ∀ x, x ∈ (if t ∈ s1.requested then s1.requested else s1.requested ++ [t])
      ↔ x ∈ s1.requested ∨ x = t := by
    intro x
    split
    · rename_i hin
      constructor
      · exact Or.inl
      · rintro (hx | rfl)
        · exact hx
        · exact hin
    · simp
  refine { hc with nonempty := ?_, requestedOn := ?_ }
  · intro p hp
    rcases hc.nonempty p hp with a | a | a | a
    · exact Or.inl a
    · exact Or.inr (Or.inl a)
    · exact Or.inr (Or.inr (Or.inl ((hreq _).mpr (Or.inl a))))
    · simp only [Option.some.injEq] at a
      exact Or.inr (Or.inr (Or.inl ((hreq _).mpr (Or.inr a))))
  · intro x hx
    rcases (hreq x).mp hx with hx | rfl
    · exact hc.requestedOn x hx
    · exact hmem

-- ------------------------------------------------------------------ one step, histories

/-- every operation with non-negative time arguments succeeds on any reachable state and keeps `WInv`:
no hypothesis on what is registered -/
theorem wstep_ok {s : Part} (hW : WInv s) {op : Op} (hq : QDNonneg op) (hn : op.negTime = false) :
    ∃ s' out, step s op = .ok (s', out) ∧ WInv s' := by
  have hg : WGood s := (wgood_iff_winv s).mpr hW
  cases op with
  | add o st en =>
    obtain ⟨s', he, hg', -⟩ := add_wspec hg hn
    exact ⟨s', _, he, (wgood_iff_winv s').mp hg'⟩
  | remove o w =>
    obtain ⟨s', he, hg', -⟩ := remove_wspec hg o w
    exact ⟨s', _, he, (wgood_iff_winv s').mp hg'⟩
  | setQD t q =>
    exact ⟨_, _, rfl, (wgood_iff_winv _).mp (setQD_wgood hg hq q).1⟩
  | getOrAdd t =>
    simp only [Op.negTime, decide_eq_false_iff_not] at hn
    obtain ⟨s', he, hg', -⟩ := getOrAdd_wspec hg (t := t) (by omega)
    exact ⟨s', _, he, (wgood_iff_winv s').mp hg'⟩
  | iterAll cls a b incl mode => exact ⟨s, _, rfl, hW⟩
  | iterPrev t cls eq incl =>
    simp only [Op.negTime, decide_eq_false_iff_not] at hn
    exact ⟨s, _, by simp only [step, iterPrev_spec' hW.sorted hW.links (t := t) (by omega), Except.map]; rfl, hW⟩
  | iterNext t cls eq incl =>
    simp only [Op.negTime, decide_eq_false_iff_not] at hn
    exact ⟨s, _, by simp only [step, iterNext_spec' hW.sorted hW.links (t := t) (by omega), Except.map]; rfl, hW⟩
  | first => exact ⟨s, _, rfl, hW⟩
  | last => exact ⟨s, _, rfl, hW⟩
  | getPoint t =>
    simp only [Op.negTime, decide_eq_false_iff_not] at hn
    exact ⟨s, .point ((getPoint s.points t).map (·.t)), by simp [step, hn], hW⟩
  | quarterDurations a b => exact ⟨s, _, rfl, hW⟩

theorem wstep_preserves {s s' : Part} {out : Out} (hW : WInv s) {op : Op} (hq : QDNonneg op)
    (h : step s op = .ok (s', out)) : WInv s' := by
  cases hn : op.negTime with
  | true => rw [negTime_rejected s op hn] at h; cases h
  | false =>
    obtain ⟨s'', out', he, hW'⟩ := wstep_ok hW hq hn
    rw [he] at h
    cases h
    exact hW'

theorem next_winv {s : Part} (hW : WInv s) {op : Op} (hq : QDNonneg op) : WInv (next s op) := by
  unfold next
  cases h : step s op with
  | error e => exact hW
  | ok r =>
    obtain ⟨s', out⟩ := r
    exact wstep_preserves hW hq h

theorem run_winv {s : Part} (hW : WInv s) (ops : List Op) (hq : ∀ op ∈ ops, QDNonneg op) :
    WInv (run s ops) := by
  induction ops generalizing s with
  | nil => exact hW
  | cons op ops ih =>
    rw [run_cons]
    exact ih (next_winv hW (hq op (by simp))) (fun op' h' => hq op' (by simp [h']))

theorem init_winv (q : Nat) : WInv (Part.init q) := ((inv_iff_winv_strict _).mp (init_inv q)).1

-- ------------------------------------------------------------------ class ids of the registered objects

/-- every object record belongs to a class of the generated table -/
def ClsOk (s : Part) : Prop := ∀ e ∈ s.objs, e.ref.cls < Gen.numClasses

/-- the objects handed to `add` are instances of timed classes -/
def Op.clsOk : Op → Prop
  | .add o _ _ => o.cls < Gen.numClasses
  | _ => True

instance (op : Op) : Decidable op.clsOk := by
  cases op <;> simp only [Op.clsOk] <;> infer_instance

theorem clsOk_setObj {objs : List ObjSt} {o : ObjRef} {f : ObjSt → ObjSt} (hf : ∀ e, (f e).ref = e.ref)
    (h : ∀ e ∈ objs, e.ref.cls < Gen.numClasses) (ho : o.cls < Gen.numClasses) :
    ∀ e ∈ setObj objs o f, e.ref.cls < Gen.numClasses := by
  intro e he
  have : e.ref ∈ (setObj objs o f).map (·.ref) := List.mem_map_of_mem he
  rcases (mem_refs_setObj hf).mp this with h' | h'
  · obtain ⟨e0, he0, hr⟩ := List.mem_map.mp h'
    rw [← hr]; exact h e0 he0
  · rw [h']; exact ho

theorem ensurePoint_objs {s s' : Part} {t : Int} (h : ensurePoint s t = .ok s') : s'.objs = s.objs := by
  unfold ensurePoint at h
  split at h
  · cases h
  · split at h
    · simp only [pure, Except.pure, Except.ok.injEq] at h; subst h; rfl
    · split at h
      · cases h
      · simp only [bind, Except.bind] at h
        split at h
        · cases h
        · simp only [pure, Except.pure, Except.ok.injEq] at h; subst h; rfl

theorem addSide_clsOk {s s' : Part} {sd : Side} {t : Int} {o : ObjRef} (hc : ClsOk s) (ho : o.cls < Gen.numClasses)
    (h : addSide s sd t o = .ok s') : ClsOk s' := by
  rw [addSide_eq] at h
  cases he : ensurePoint s t with
  | error e => simp [he, Except.map] at h
  | ok s1 =>
    simp only [he, Except.map, Except.ok.injEq] at h
    subst h
    have := ensurePoint_objs he
    unfold ClsOk register
    simp only [this]
    exact clsOk_setObj (fun e => by simp) hc ho

theorem removeSide_clsOk {s s' : Part} {sd : Side} {o : ObjRef} (hc : ClsOk s)
    (h : removeSide s sd o = .ok s') : ClsOk s' := by
  unfold removeSide at h
  split at h
  · simp only [pure, Except.pure, Except.ok.injEq] at h; subst h; exact hc
  · rename_i t hat
    cases hcl : cleanupPoint
        { s with points := modifyPoint s.points t (fun p => p.setReg sd (regRemove (p.reg sd) o)) } t with
    | error e => simp [hcl, bind, Except.bind] at h
    | ok s2 =>
      simp only [hcl, bind, Except.bind, pure, Except.pure, Except.ok.injEq] at h
      subst h
      have h2 := cleanupPoint_preserves_objs hcl
      unfold ClsOk
      simp only [h2]
      -- the record of `o` exists already (its side is set), so `o`'s class is known
      have ho : o.cls < Gen.numClasses := by
        rcases getObj_mem_or_blank s.objs o with ⟨hm, _⟩ | ⟨hb, _⟩
        · have := hc _ hm
          simpa using this
        · rw [hb] at hat
          cases sd <;> simp [blank, ObjSt.at] at hat
      exact clsOk_setObj (fun e => by simp) hc ho

theorem step_clsOk {s s' : Part} {out : Out} {op : Op} (hc : ClsOk s) (ho : op.clsOk)
    (h : step s op = .ok (s', out)) : ClsOk s' := by
  cases op with
  | add o st en =>
    simp only [step, stepAdd] at h
    split at h
    · simp [Except.map] at h
    · cases h1 : addSideOpt s .start st o with
      | error e => simp [h1, Except.bind, Except.map] at h
      | ok s1 =>
        have hc1 : ClsOk s1 := by
          cases st with
          | none => simp only [addSideOpt, Except.ok.injEq] at h1; subst h1; exact hc
          | some a => exact addSide_clsOk hc ho h1
        cases h2 : addSideOpt s1 .stop en o with
        | error e => simp [h1, h2, Except.bind, Except.map] at h
        | ok s2 =>
          simp only [h1, h2, Except.bind, Except.map, Except.ok.injEq, Prod.mk.injEq] at h
          obtain ⟨rfl, -⟩ := h
          cases en with
          | none => simp only [addSideOpt, Except.ok.injEq] at h2; subst h2; exact hc1
          | some b => exact addSide_clsOk hc1 ho h2
  | remove o w =>
    simp only [step, stepRemove] at h
    cases h1 : (if w = .start ∨ w = .both then removeSide s .start o else .ok s) with
    | error e => simp [h1, Except.bind, Except.map] at h
    | ok s1 =>
      have hc1 : ClsOk s1 := by
        split at h1
        · exact removeSide_clsOk hc h1
        · simp only [Except.ok.injEq] at h1; subst h1; exact hc
      cases h2 : (if w = .stop ∨ w = .both then removeSide s1 .stop o else .ok s1) with
      | error e => simp [h1, h2, Except.bind, Except.map] at h
      | ok s2 =>
        simp only [h1, h2, Except.bind, Except.map, Except.ok.injEq, Prod.mk.injEq] at h
        obtain ⟨rfl, -⟩ := h
        split at h2
        · exact removeSide_clsOk hc1 h2
        · simp only [Except.ok.injEq] at h2; subst h2; exact hc1
  | setQD t q =>
    simp only [step, Except.ok.injEq, Prod.mk.injEq] at h
    obtain ⟨rfl, -⟩ := h
    unfold ClsOk setQD
    split
    · exact hc
    · exact hc
  | getOrAdd t =>
    simp only [step, stepGetOrAdd] at h
    cases he : ensurePoint s t with
    | error e => simp [he, Except.map] at h
    | ok s1 =>
      simp only [he, Except.map, Except.ok.injEq, Prod.mk.injEq] at h
      obtain ⟨rfl, -⟩ := h
      have := ensurePoint_objs he
      unfold ClsOk
      simp only [this]
      exact hc
  | iterAll cls a b incl mode => rw [query_state (op := .iterAll cls a b incl mode) rfl h]; exact hc
  | iterPrev t cls eq incl => rw [query_state (op := .iterPrev t cls eq incl) rfl h]; exact hc
  | iterNext t cls eq incl => rw [query_state (op := .iterNext t cls eq incl) rfl h]; exact hc
  | first => rw [query_state (op := .first) rfl h]; exact hc
  | last => rw [query_state (op := .last) rfl h]; exact hc
  | getPoint t => rw [query_state (op := .getPoint t) rfl h]; exact hc
  | quarterDurations a b => rw [query_state (op := .quarterDurations a b) rfl h]; exact hc

theorem run_clsOk {s : Part} (hc : ClsOk s) (ops : List Op) (ho : ∀ op ∈ ops, op.clsOk) : ClsOk (run s ops) := by
  induction ops generalizing s with
  | nil => exact hc
  | cons op ops ih =>
    rw [run_cons]
    refine ih ?_ (fun op' h' => ho op' (by simp [h']))
    unfold next
    cases h : step s op with
    | error e => exact hc
    | ok r =>
      obtain ⟨s', out⟩ := r
      exact step_clsOk hc (ho op (by simp)) h

theorem init_clsOk (q : Nat) : ClsOk (Part.init q) := by
  intro e he
  simp [Part.init] at he

end TL
