/-
C02 helper lemmas (round 5): the index-based scipy / numpy interpolation of `Model/TimeMapScipy.lean`
equals the recursive `interp` on every strictly increasing knot list.
-/
import PartituraModel.Model.TimeMapScipy
import PartituraModel.Proofs.C02Args

namespace C02Proofs
open Model.TimeMap

/-! ### the stable sort does nothing on sorted knots -/

theorem sortKnots_of_pairwise_le : ∀ (ks : List Knot), (ks.map (·.1)).Pairwise (· ≤ ·) → sortKnots ks = ks
  | [], _ => rfl
  | k :: rest, h => by
    have hr : sortKnots rest = rest := sortKnots_of_pairwise_le rest (List.Pairwise.of_cons h)
    show insertKnot k (sortKnots rest) = k :: rest
    rw [hr]
    cases rest with
    | nil => rfl
    | cons a as =>
      have : k.1 ≤ a.1 := by
        have := (List.pairwise_cons.mp h).1 a.1 (by simp)
        exact this
      simp [insertKnot, this]

theorem chain_xs_lt : ∀ (rest : List Knot) (x0 y0 : Rat), Chain x0 y0 rest → ∀ k ∈ rest, x0 < k.1
  | [], _, _, _, k, hk => by simp at hk
  | (x1, y1) :: r, x0, y0, h, k, hk => by
    rcases List.mem_cons.mp hk with rfl | hk
    · exact h.1
    · exact lt_trans h.1 (chain_xs_lt r x1 y1 h.2.2 k hk)

theorem chain_pairwise : ∀ (rest : List Knot) (x0 y0 : Rat), Chain x0 y0 rest →
    (((x0, y0) :: rest).map (·.1)).Pairwise (· < ·)
  | [], _, _, _ => by simp
  | (x1, y1) :: r, x0, y0, h => by
    have ih := chain_pairwise r x1 y1 h.2.2
    rw [List.map_cons, List.pairwise_cons]
    refine ⟨?_, ih⟩
    intro a ha
    obtain ⟨k, hk, rfl⟩ := List.mem_map.mp ha
    exact chain_xs_lt _ x0 y0 h k hk

theorem knotsOK_pairwise (ks : List Knot) (hk : KnotsOK ks) : (ks.map (·.1)).Pairwise (· < ·) := by
  cases ks with
  | nil => exact absurd hk (by simp [KnotsOK])
  | cons k rest =>
    obtain ⟨x0, y0⟩ := k
    exact chain_pairwise rest x0 y0 hk.2

theorem sortKnots_knotsOK (ks : List Knot) (hk : KnotsOK ks) : sortKnots ks = ks :=
  sortKnots_of_pairwise_le ks ((knotsOK_pairwise ks hk).imp le_of_lt)

theorem knotsOK_length (ks : List Knot) (hk : KnotsOK ks) : 1 < ks.length := by
  cases ks with
  | nil => exact absurd hk (by simp [KnotsOK])
  | cons k rest =>
    obtain ⟨x0, y0⟩ := k
    cases rest with
    | nil => exact absurd rfl hk.1
    | cons a as => simp

/-! ### first / last knot -/

theorem firstKnotX_eq (ks : List Knot) (hk : KnotsOK ks) : firstKnotX ks = some (firstX ks) := by
  cases ks with
  | nil => exact absurd hk (by simp [KnotsOK])
  | cons k rest => obtain ⟨x0, y0⟩ := k; rfl

theorem lastKnot_cons_ne : ∀ (rest : List Knot) (k : Knot), rest ≠ [] → lastKnot (k :: rest) = lastKnot rest
  | [], _, h => absurd rfl h
  | _ :: _, _, _ => rfl

theorem lastKnot_fst : ∀ (rest : List Knot) (x0 y0 : Rat), ∃ kl, lastKnot ((x0, y0) :: rest) = some kl ∧ kl.1 = lastX x0 rest
  | [], x0, y0 => ⟨(x0, y0), rfl, rfl⟩
  | (x1, y1) :: r, x0, y0 => by
    obtain ⟨kl, h1, h2⟩ := lastKnot_fst r x1 y1
    exact ⟨kl, by rw [lastKnot_cons_ne _ _ (by simp)]; exact h1, by simpa [lastX] using h2⟩

theorem lastKnot_endX (ks : List Knot) (hk : KnotsOK ks) : ∃ kl, lastKnot ks = some kl ∧ kl.1 = endX ks := by
  cases ks with
  | nil => exact absurd hk (by simp [KnotsOK])
  | cons k rest => obtain ⟨x0, y0⟩ := k; exact lastKnot_fst rest x0 y0

theorem lastKnot_append (pre : List Knot) (k : Knot) : lastKnot (pre ++ [k]) = some k := by
  induction pre with
  | nil => rfl
  | cons a as ih =>
    rw [List.cons_append, lastKnot_cons_ne _ _ (by simp)]
    exact ih

/-! ### the segment that holds `x` -/

/-- all abscissae of a prefix are smaller than the first abscissa after it -/
theorem chain_prefix_lt : ∀ (l : List Knot) (a b : Rat) (u : Knot) (rest : List Knot),
    Chain a b (l ++ u :: rest) → a < u.1 ∧ ∀ k ∈ l, k.1 < u.1
  | [], a, b, u, rest, h => ⟨h.1, by simp⟩
  | (q1, q2) :: l, a, b, u, rest, h => by
    obtain ⟨h1, h2⟩ := chain_prefix_lt l q1 q2 u rest h.2.2
    refine ⟨lt_trans h.1 h1, ?_⟩
    intro k hk
    rcases List.mem_cons.mp hk with rfl | hk
    · exact h1
    · exact h2 k hk

theorem knotsOK_prefix_lt (pre : List Knot) (u : Knot) (rest : List Knot) (hk : KnotsOK (pre ++ u :: rest)) :
    ∀ k ∈ pre, k.1 < u.1 := by
  cases pre with
  | nil => simp
  | cons p pre' =>
    obtain ⟨x0, y0⟩ := p
    have hc : Chain x0 y0 (pre' ++ u :: rest) := hk.2
    obtain ⟨h1, h2⟩ := chain_prefix_lt pre' x0 y0 u rest hc
    intro k hk'
    rcases List.mem_cons.mp hk' with rfl | hk'
    · exact h1
    · exact h2 k hk'

/-- the segment `_call_linear` picks: `u < x ≤ v`, or the first segment when `x` is the first knot -/
theorem segment_left : ∀ (rest : List Knot) (x0 y0 x : Rat), rest ≠ [] → Chain x0 y0 rest → x0 ≤ x → x ≤ lastX x0 rest →
    ∃ pre u v post, (x0, y0) :: rest = pre ++ u :: v :: post ∧ x ≤ v.1 ∧ (u.1 < x ∨ (pre = [] ∧ u.1 = x))
  | [], _, _, _, hne, _, _, _ => absurd rfl hne
  | (x1, y1) :: r, x0, y0, x, _, hc, h0, h1 => by
    by_cases hx : x ≤ x1
    · refine ⟨[], (x0, y0), (x1, y1), r, rfl, hx, ?_⟩
      rcases lt_or_eq_of_le h0 with h | h
      · exact Or.inl h
      · exact Or.inr ⟨rfl, h⟩
    · have hx' : x1 < x := not_le.mp hx
      have hne : r ≠ [] := by
        intro hr
        subst hr
        simp only [lastX] at h1
        exact hx h1
      obtain ⟨pre, u, v, post, he, hv, hu⟩ := segment_left r x1 y1 x hne hc.2.2 (le_of_lt hx') (by simpa [lastX] using h1)
      refine ⟨(x0, y0) :: pre, u, v, post, by rw [he]; rfl, hv, ?_⟩
      rcases hu with hu | ⟨hp, hu⟩
      · exact Or.inl hu
      · subst hp
        simp only [List.nil_append, List.cons.injEq] at he
        have : u.1 = x1 := by rw [← he.1]
        exact absurd (this ▸ hu) (ne_of_lt hx')

/-- the segment `np.interp` picks: `u ≤ x < v`, or the last segment when `x` is the last knot -/
theorem segment_right : ∀ (rest : List Knot) (x0 y0 x : Rat), rest ≠ [] → Chain x0 y0 rest → x0 ≤ x → x ≤ lastX x0 rest →
    ∃ pre u v post, (x0, y0) :: rest = pre ++ u :: v :: post ∧ u.1 ≤ x ∧ (x < v.1 ∨ (post = [] ∧ x = v.1))
  | [], _, _, _, hne, _, _, _ => absurd rfl hne
  | (x1, y1) :: r, x0, y0, x, _, hc, h0, h1 => by
    by_cases hx : x < x1
    · exact ⟨[], (x0, y0), (x1, y1), r, rfl, h0, Or.inl hx⟩
    · have hx' : x1 ≤ x := not_lt.mp hx
      cases r with
      | nil =>
        simp only [lastX] at h1
        exact ⟨[], (x0, y0), (x1, y1), [], rfl, h0, Or.inr ⟨rfl, le_antisymm h1 hx'⟩⟩
      | cons a as =>
        obtain ⟨pre, u, v, post, he, hu, hv⟩ := segment_right (a :: as) x1 y1 x (by simp) hc.2.2 hx' (by simpa [lastX] using h1)
        exact ⟨(x0, y0) :: pre, u, v, post, by rw [he]; rfl, hu, hv⟩

/-! ### searches on a decomposed sorted list -/

theorem takeWhile_length_split (p : Rat → Bool) (pre : List Rat) (rest : List Rat) (hp : ∀ a ∈ pre, p a = true) :
    ((pre ++ rest).takeWhile p).length = pre.length + (rest.takeWhile p).length := by
  induction pre with
  | nil => simp
  | cons a as ih =>
    have ha : p a = true := hp a (by simp)
    rw [List.cons_append, List.takeWhile_cons, if_pos ha, List.length_cons, List.length_cons,
      ih (fun b hb => hp b (List.mem_cons_of_mem _ hb))]
    omega

theorem getElem?_split0 (pre : List Knot) (u : Knot) (rest : List Knot) : (pre ++ u :: rest)[pre.length]? = some u := by
  simp

theorem getElem?_split1 (pre : List Knot) (u v : Knot) (rest : List Knot) :
    (pre ++ u :: v :: rest)[pre.length + 1]? = some v := by
  have : pre ++ u :: v :: rest = (pre ++ [u]) ++ v :: rest := by simp
  rw [this]
  have hl : (pre ++ [u]).length = pre.length + 1 := by simp
  rw [← hl]
  exact getElem?_split0 (pre ++ [u]) v rest

/-! ### `_call_linear` and `np.interp` against `interp` -/

theorem line_forms {u yu v yv x : Rat} (h : u < v) :
    (x - u) / (v - u) * yv + (v - x) / (v - u) * yu = (yv - yu) / (v - u) * (x - u) + yu := by
  have : v - u ≠ 0 := by linarith [sub_pos.mpr h] |> ne_of_gt
  field_simp
  ring

theorem callLinear_eq_interp (ks : List Knot) (hk : KnotsOK ks) (x : Rat) (h0 : firstX ks ≤ x) (h1 : x ≤ endX ks) :
    callLinear ks x = interp ks x := by
  cases ks with
  | nil => exact absurd hk (by simp [KnotsOK])
  | cons k rest =>
    obtain ⟨x0, y0⟩ := k
    obtain ⟨pre, u, v, post, he, hv, hu⟩ := segment_left rest x0 y0 x hk.1 hk.2 h0 h1
    obtain ⟨u1, u2⟩ := u
    obtain ⟨v1, v2⟩ := v
    dsimp only at hu hv
    rw [he] at hk ⊢
    have hpre := knotsOK_prefix_lt pre (u1, u2) ((v1, v2) :: post) hk
    have huv : u1 < v1 := (knotsOK_adjacent pre u1 u2 v1 v2 post hk).1
    have hux : u1 ≤ x := by
      rcases hu with h | ⟨_, h⟩
      · exact le_of_lt h
      · exact le_of_eq h
    rw [interp_segment pre u1 u2 v1 v2 post x hk hux hv]
    -- the index
    have hs : searchLeft ((pre ++ (u1, u2) :: (v1, v2) :: post).map (·.1)) x = pre.length + (if u1 < x then 1 else 0) := by
      unfold searchLeft
      rw [List.map_append, takeWhile_length_split _ _ _ (by
        intro a ha
        obtain ⟨k, hk', rfl⟩ := List.mem_map.mp ha
        exact decide_eq_true (lt_of_lt_of_le (hpre k hk') hux)), List.length_map]
      simp only [List.map_cons]
      by_cases hlt : u1 < x
      · have hnv : ¬ v1 < x := not_lt.mpr hv
        simp [hlt, hnv]
      · simp [hlt]
    have hidx : clip (searchLeft ((pre ++ (u1, u2) :: (v1, v2) :: post).map (·.1)) x) 1
        ((pre ++ (u1, u2) :: (v1, v2) :: post).length - 1) = pre.length + 1 := by
      rw [hs]
      have hl : (pre ++ (u1, u2) :: (v1, v2) :: post).length = pre.length + 2 + post.length := by simp; omega
      rw [hl]
      unfold clip
      rcases hu with h | ⟨hp, h⟩
      · rw [if_pos h]; omega
      · subst hp
        have : ¬ u1 < x := by rw [h]; exact lt_irrefl _
        rw [if_neg this]
        simp
    unfold callLinear
    simp only [hidx, Nat.add_sub_cancel, getElem?_split0, getElem?_split1]
    rw [line_forms huv]

theorem npInterpCall_eq_interp (ks : List Knot) (hk : KnotsOK ks) (x : Rat) (h0 : firstX ks ≤ x) (h1 : x ≤ endX ks) :
    npInterpCall ks x = interp ks x := by
  obtain ⟨kl, hkl, hkl1⟩ := lastKnot_endX ks hk
  have hfx := firstKnotX_eq ks hk
  cases ks with
  | nil => exact absurd hk (by simp [KnotsOK])
  | cons k rest =>
    obtain ⟨x0, y0⟩ := k
    obtain ⟨pre, u, v, post, he, hu, hv⟩ := segment_right rest x0 y0 x hk.1 hk.2 h0 h1
    obtain ⟨u1, u2⟩ := u
    obtain ⟨v1, v2⟩ := v
    dsimp only at hu hv
    rw [he] at hk hkl hfx h0 h1 hkl1 ⊢
    have hpre := knotsOK_prefix_lt pre (u1, u2) ((v1, v2) :: post) hk
    have huv : u1 < v1 := (knotsOK_adjacent pre u1 u2 v1 v2 post hk).1
    have hxv : x ≤ v1 := by
      rcases hv with h | ⟨_, h⟩
      · exact le_of_lt h
      · exact le_of_eq h
    rw [interp_segment pre u1 u2 v1 v2 post x hk hu hxv]
    have hl : (pre ++ (u1, u2) :: (v1, v2) :: post).length = pre.length + 2 + post.length := by simp; omega
    have hs : searchRight ((pre ++ (u1, u2) :: (v1, v2) :: post).map (·.1)) x
        = pre.length + 1 + (if x < v1 then 0 else 1) := by
      unfold searchRight
      rw [List.map_append, takeWhile_length_split _ _ _ (by
        intro a ha
        obtain ⟨k, hk', rfl⟩ := List.mem_map.mp ha
        exact decide_eq_true (le_of_lt (lt_of_lt_of_le (hpre k hk') hu))), List.length_map]
      simp only [List.map_cons]
      rcases hv with h | ⟨hp, h⟩
      · have hnv : ¬ v1 ≤ x := not_le.mpr h
        simp [hu, hnv, h]
      · subst hp
        have : ¬ x < v1 := by rw [h]; exact lt_irrefl _
        have hvx : v1 ≤ x := le_of_eq h.symm
        simp [hu, hvx, this]
    have hnb : ¬ x < firstX (pre ++ (u1, u2) :: (v1, v2) :: post) := not_lt.mpr h0
    have hna : ¬ kl.1 < x := by rw [hkl1]; exact not_lt.mpr h1
    unfold npInterpCall npBranch
    rw [hfx, hkl]
    simp only [hnb, hna, if_false, hs, hl]
    rcases hv with h | ⟨hp, h⟩
    · rw [if_pos h]
      have hj : pre.length + 1 + 0 - 1 = pre.length := by omega
      have hne : ¬ pre.length = pre.length + 2 + post.length - 1 := by omega
      simp only [hj, hne, if_false, getElem?_split0]
      by_cases hux : u1 = x
      · simp only [hux, if_true, getElem?_split0, Option.map_some]
        subst hux
        simp
      · simp only [hux, if_false, getElem?_split0, getElem?_split1]
    · subst hp
      have hnlt : ¬ x < v1 := by rw [h]; exact lt_irrefl _
      rw [if_neg hnlt]
      have hj : pre.length + 1 + 1 - 1 = pre.length + 2 + ([] : List Knot).length - 1 := by simp
      simp only [hj, if_true]
      have hj' : pre.length + 2 + ([] : List Knot).length - 1 = pre.length + 1 := by simp
      rw [hj']
      simp only [getElem?_split1, Option.map_some]
      subst h
      have : x - u1 ≠ 0 := by linarith [sub_pos.mpr huv] |> ne_of_gt
      congr 1
      field_simp
      ring

/-! ### the whole wrapper -/

theorem scipyEvaluate_linear (ks : List Knot) (hk : KnotsOK ks) (np : Bool) (x : Rat) :
    scipyEvaluate { npPath := np } ks x = interp ks x := by
  obtain ⟨kl, hkl, hkl1⟩ := lastKnot_endX ks hk
  unfold scipyEvaluate
  rw [firstKnotX_eq ks hk, hkl]
  simp only
  by_cases hb : x < firstX ks
  · rw [if_pos hb]
    cases hi : interp ks x with
    | none => rfl
    | some y => exact absurd (interp_range ks hk x y hi).1 (not_le.mpr hb)
  · rw [if_neg hb]
    by_cases ha : kl.1 < x
    · rw [if_pos ha]
      cases hi : interp ks x with
      | none => rfl
      | some y =>
        have := (interp_range ks hk x y hi).2
        rw [hkl1] at ha
        exact absurd this (not_le.mpr ha)
    · rw [if_neg ha]
      rw [hkl1] at ha
      cases np with
      | true => exact npInterpCall_eq_interp ks hk x (not_lt.mp hb) (not_lt.mp ha)
      | false => exact callLinear_eq_interp ks hk x (not_lt.mp hb) (not_lt.mp ha)

theorem genericInterp1d_linear (ks : List Knot) (hk : KnotsOK ks) (np : Bool) (x : Rat) :
    genericInterp1d { npPath := np } ks x = interp ks x := by
  unfold genericInterp1d scipyInterp1d
  rw [if_pos (knotsOK_length ks hk), sortKnots_knotsOK ks hk]
  exact scipyEvaluate_linear ks hk np x

theorem linearS_eq_interp (ks : List Knot) (hk : KnotsOK ks) (x : Rat) : linearS ks x = interp ks x :=
  genericInterp1d_linear ks hk true x

/-! ### `previous` against `prevValue` -/

/-- length of the leading run of change times `<= t` -/
def runLE (t : Rat) (rest : List (Int × Nat)) : Nat := (rest.takeWhile (fun e => decide ((e.1 : Rat) ≤ t))).length

theorem runLE_le (t : Rat) (rest : List (Int × Nat)) : runLE t rest ≤ rest.length :=
  (List.takeWhile_sublist _).length_le

/-- `prevValue` is the value of the last entry of the leading run of change times `<= t` -/
theorem prevValue_index (t : Rat) : ∀ (rest : List (Int × Nat)) (d : Int × Nat),
    ((d :: rest)[runLE t rest]?).map (·.2) = some (prevValue d.2 rest t)
  | [], d => by simp [runLE, prevValue]
  | (t1, q1) :: r, d => by
    by_cases h : (t1 : Rat) ≤ t
    · have hr : runLE t ((t1, q1) :: r) = runLE t r + 1 := by
        unfold runLE
        rw [List.takeWhile_cons, if_pos (by simpa using h)]
        rfl
      rw [hr, List.getElem?_cons_succ]
      have := prevValue_index t r (t1, q1)
      rw [this]
      simp [prevValue, h]
    · have hr : runLE t ((t1, q1) :: r) = 0 := by
        unfold runLE
        rw [List.takeWhile_cons, if_neg (by simpa using h)]
        rfl
      rw [hr]
      simp [prevValue, h]

theorem searchRight_qdKnots (t : Rat) (l : List (Int × Nat)) :
    searchRight ((qdKnots l).map (·.1)) t = runLE t l := by
  unfold searchRight runLE qdKnots
  rw [List.map_map]
  induction l with
  | nil => rfl
  | cons e r ih =>
    simp only [List.map_cons, List.takeWhile_cons, Function.comp]
    by_cases h : (e.1 : Rat) ≤ t
    · simp only [h, decide_true, if_true, List.length_cons]
      rw [ih]
    · simp [h]

theorem qdKnots_getElem? (l : List (Int × Nat)) (i : Nat) :
    ((qdKnots l)[i]?).map (·.2) = (l[i]?).map (fun e => (e.2 : Rat)) := by
  unfold qdKnots
  rw [List.getElem?_map]
  cases l[i]? <;> rfl

/-- the call itself, for `t` at or after the first change time -/
theorem callPrevious_qd (t : Rat) (t0 : Int) (q0 : Nat) (rest : List (Int × Nat)) (h0 : (t0 : Rat) ≤ t) :
    callPrevious (qdKnots ((t0, q0) :: rest)) t = some ((prevValue q0 rest t : Nat) : Rat) := by
  simp only [callPrevious]
  rw [searchRight_qdKnots]
  have hr : runLE t ((t0, q0) :: rest) = runLE t rest + 1 := by
    unfold runLE
    rw [List.takeWhile_cons, if_pos (by simpa using h0)]
    rfl
  have hle := runLE_le t rest
  have hlen : (qdKnots ((t0, q0) :: rest)).length = rest.length + 1 := by simp [qdKnots]
  have hidx : clip (runLE t ((t0, q0) :: rest)) 1 (qdKnots ((t0, q0) :: rest)).length - 1 = runLE t rest := by
    rw [hr, hlen]; unfold clip; omega
  rw [hidx, qdKnots_getElem?]
  have := prevValue_index t rest (t0, q0)
  cases hg : ((t0, q0) :: rest)[runLE t rest]? with
  | none => rw [hg] at this; simp at this
  | some e =>
    rw [hg] at this
    simp only [Option.map_some, Option.some.injEq] at this ⊢
    rw [this]

theorem pairwise_le_lastKnot : ∀ (ks : List Knot), (ks.map (·.1)).Pairwise (· < ·) → ∀ kl, lastKnot ks = some kl →
    ∀ k ∈ ks, k.1 ≤ kl.1
  | [], _, _, _, k, hk => by simp at hk
  | [a], _, kl, hl, k, hk => by
    simp only [lastKnot, Option.some.injEq] at hl
    simp only [List.mem_singleton] at hk
    rw [hk, hl]
  | a :: b :: r, hp, kl, hl, k, hk => by
    have hl' : lastKnot (b :: r) = some kl := hl
    have hp' : ((b :: r).map (·.1)).Pairwise (· < ·) := List.Pairwise.of_cons hp
    have ih := pairwise_le_lastKnot (b :: r) hp' kl hl'
    rcases List.mem_cons.mp hk with rfl | hk
    · have h1 : k.1 < b.1 := (List.pairwise_cons.mp hp).1 b.1 (by simp)
      exact le_trans (le_of_lt h1) (ih b (by simp))
    · exact ih k hk

theorem lastKnot_qdKnots_snd : ∀ (rest : List (Int × Nat)) (d : Int × Nat) (t : Rat),
    (∀ e ∈ rest, (e.1 : Rat) ≤ t) →
    (lastKnot (qdKnots (d :: rest))).map (·.2) = some ((prevValue d.2 rest t : Nat) : Rat)
  | [], d, t, _ => by simp [qdKnots, lastKnot, prevValue]
  | (t1, q1) :: r, d, t, h => by
    have h1 : (t1 : Rat) ≤ t := h (t1, q1) (by simp)
    have ih := lastKnot_qdKnots_snd r (t1, q1) t (fun e he => h e (List.mem_cons_of_mem _ he))
    have : lastKnot (qdKnots (d :: (t1, q1) :: r)) = lastKnot (qdKnots ((t1, q1) :: r)) := by
      simp [qdKnots, lastKnot]
    rw [this, ih]
    simp [prevValue, h1]

/-- **`quarter_duration_map` as written (wrapper, duplication of a single entry, scipy `previous`, fill values)
is the recursive `qdMap`** for every strictly increasing list of change times -/
theorem qdMapS_eq (qd : List (Int × Nat)) (hs : (qd.map (·.1)).Pairwise (· < ·)) (t : Rat) :
    qdMapS qd t = Option.map (fun (n : Nat) => (n : Rat)) (qdMap qd t) := by
  cases qd with
  | nil => simp [qdMapS, qdKnots, qdMap]
  | cons d rest =>
    obtain ⟨t0, q0⟩ := d
    cases rest with
    | nil =>
      -- one entry: `x + x`, `y + y`
      have hk : qdKnots [(t0, q0)] = [((t0 : Rat), (q0 : Rat))] := rfl
      have hq : Option.map (fun (n : Nat) => (n : Rat)) (qdMap [(t0, q0)] t) = some (q0 : Rat) := rfl
      rw [hq]
      unfold qdMapS
      simp only [hk, List.length_singleton, if_true, List.singleton_append, List.head?_cons, lastKnot]
      unfold genericInterp1d scipyInterp1d
      have hsrt : sortKnots [((t0 : Rat), (q0 : Rat)), ((t0 : Rat), (q0 : Rat))] = [((t0 : Rat), (q0 : Rat)), ((t0 : Rat), (q0 : Rat))] :=
        sortKnots_of_pairwise_le _ (by simp)
      rw [if_pos (by simp), hsrt]
      unfold scipyEvaluate
      simp only [firstKnotX, lastKnot]
      by_cases hb : t < (t0 : Rat)
      · rw [if_pos hb]
      · rw [if_neg hb]
        by_cases ha : (t0 : Rat) < t
        · rw [if_pos ha]
        · rw [if_neg ha]
          simp only [callPrevious]
          have : clip (searchRight (List.map (·.1) [((t0 : Rat), (q0 : Rat)), ((t0 : Rat), (q0 : Rat))]) t) 1
              [((t0 : Rat), (q0 : Rat)), ((t0 : Rat), (q0 : Rat))].length - 1 = 0 ∨
              clip (searchRight (List.map (·.1) [((t0 : Rat), (q0 : Rat)), ((t0 : Rat), (q0 : Rat))]) t) 1
              [((t0 : Rat), (q0 : Rat)), ((t0 : Rat), (q0 : Rat))].length - 1 = 1 := by
            simp only [List.length_cons, List.length_nil]; unfold clip; omega
          rcases this with h | h <;> rw [h] <;> rfl
    | cons e r =>
      have hlen : ¬ (qdKnots ((t0, q0) :: e :: r)).length = 1 := by simp [qdKnots]
      have hlen2 : 1 < (qdKnots ((t0, q0) :: e :: r)).length := by simp [qdKnots]
      have hp : ((qdKnots ((t0, q0) :: e :: r)).map (·.1)).Pairwise (· < ·) := by
        unfold qdKnots
        rw [List.map_map]
        have : ((fun (k : Knot) => k.1) ∘ fun (e : Int × Nat) => ((e.1 : Rat), (e.2 : Rat))) = fun e => ((e.1 : Int) : Rat) := rfl
        rw [this]
        have := List.Pairwise.map (fun (a : Int) => (a : Rat)) (fun a b (h : a < b) => (Int.cast_lt (R := Rat)).mpr h) hs
        rwa [List.map_map] at this
      obtain ⟨kl, hkl⟩ : ∃ kl, lastKnot (qdKnots ((t0, q0) :: e :: r)) = some kl := by
        cases h : lastKnot (qdKnots ((t0, q0) :: e :: r)) with
        | some kl => exact ⟨kl, rfl⟩
        | none =>
          exfalso
          have : ∀ (l : List Knot), l ≠ [] → lastKnot l ≠ none := by
            intro l
            induction l with
            | nil => intro h; exact absurd rfl h
            | cons a as ih =>
              intro _
              cases as with
              | nil => simp [lastKnot]
              | cons b bs => simpa [lastKnot] using ih (by simp)
          exact this _ (by simp [qdKnots]) h
      have hle := pairwise_le_lastKnot _ hp kl hkl
      unfold qdMapS
      simp only [hlen, if_false]
      have hhead : (qdKnots ((t0, q0) :: e :: r)).head? = some ((t0 : Rat), (q0 : Rat)) := rfl
      rw [hhead, hkl]
      simp only
      unfold genericInterp1d scipyInterp1d
      rw [if_pos hlen2, sortKnots_of_pairwise_le _ (hp.imp le_of_lt)]
      unfold scipyEvaluate
      have hf : firstKnotX (qdKnots ((t0, q0) :: e :: r)) = some (t0 : Rat) := rfl
      rw [hf, hkl]
      simp only [qdMap, Option.map_some]
      by_cases hb : t < (t0 : Rat)
      · rw [if_pos hb]
        -- before the first change: the first value
        have : prevValue q0 (e :: r) t = q0 := by
          have hlt : ∀ x ∈ (e :: r), t < (x.1 : Rat) := by
            intro x hx
            have h1 : t0 < x.1 := (List.pairwise_cons.mp hs).1 x.1 (List.mem_map_of_mem hx)
            exact lt_trans hb ((Int.cast_lt (R := Rat)).mpr h1)
          obtain ⟨e1, e2⟩ := e
          have := hlt (e1, e2) (by simp)
          simp [prevValue, not_le.mpr this]
        rw [this]
      · rw [if_neg hb]
        have h0 : (t0 : Rat) ≤ t := not_lt.mp hb
        by_cases ha : kl.1 < t
        · rw [if_pos ha]
          have hall : ∀ x ∈ (e :: r), (x.1 : Rat) ≤ t := by
            intro x hx
            have hm : ((x.1 : Rat), (x.2 : Rat)) ∈ qdKnots ((t0, q0) :: e :: r) := by
              unfold qdKnots
              exact List.mem_map.mpr ⟨x, List.mem_cons_of_mem _ hx, rfl⟩
            exact le_trans (hle _ hm) (le_of_lt ha)
          have := lastKnot_qdKnots_snd (e :: r) (t0, q0) t hall
          rw [hkl] at this
          simpa using this
        · rw [if_neg ha]
          exact callPrevious_qd t t0 q0 (e :: r) h0

/-! ### `np.interp` copies the ordinate at a knot -/

/-- at the abscissa of a knot numpy's `arr_interp` takes one of the two branches that COPY the stored ordinate
(`dx[j] == x_val` resp. `j == lenxp - 1`): no arithmetic is performed there -/
theorem npBranch_at_knot (pre post : List Knot) (k : Knot) (hk : KnotsOK (pre ++ k :: post)) :
    npBranch (pre ++ k :: post) k.1 = some (if post = [] then .lastKnot pre.length else .knot pre.length) ∧
    (pre ++ k :: post)[pre.length]? = some k := by
  refine ⟨?_, getElem?_split0 pre k post⟩
  have hp := knotsOK_pairwise _ hk
  obtain ⟨kl, hkl, hkl1⟩ := lastKnot_endX _ hk
  have hr := knot_mem_range _ hk k.1 (by simp)
  have hpre : ∀ a ∈ pre, a.1 < k.1 := knotsOK_prefix_lt pre k post hk
  have hpost : ∀ a ∈ post, k.1 < a.1 := by
    rw [List.map_append, List.pairwise_append] at hp
    have := (List.pairwise_cons.mp hp.2.1).1
    intro a ha
    exact this a.1 (List.mem_map_of_mem ha)
  have hs : searchRight ((pre ++ k :: post).map (·.1)) k.1 = pre.length + 1 := by
    unfold searchRight
    rw [List.map_append, takeWhile_length_split _ _ _ (by
      intro a ha
      obtain ⟨b, hb, rfl⟩ := List.mem_map.mp ha
      exact decide_eq_true (le_of_lt (hpre b hb))), List.length_map]
    cases post with
    | nil => simp
    | cons b bs =>
      have : ¬ b.1 ≤ k.1 := not_le.mpr (hpost b (by simp))
      simp [this]
  unfold npBranch
  rw [firstKnotX_eq _ hk, hkl]
  simp only [not_lt.mpr hr.1, hkl1, not_lt.mpr hr.2, if_false, hs, Nat.add_sub_cancel]
  cases post with
  | nil => simp
  | cons b bs =>
    simp

theorem npInterpCall_at_knot (pre post : List Knot) (k : Knot) (hk : KnotsOK (pre ++ k :: post)) :
    npInterpCall (pre ++ k :: post) k.1 = some k.2 := by
  obtain ⟨hb, hg⟩ := npBranch_at_knot pre post k hk
  unfold npInterpCall
  rw [hb]
  cases post with
  | nil => simp
  | cons b bs => simp

end C02Proofs
