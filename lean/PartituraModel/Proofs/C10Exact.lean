/-
Helper lemma for Props/C10Exact.lean (round 3).
-/
import PartituraModel.Proofs.Round

namespace C10

/-- the floor of a rational between `n` and `n + 1` -/
theorem floor_eq_of_bounds (r : Rat) (n : Int) (h1 : (n : Rat) ≤ r) (h2 : r < (n : Rat) + 1) : r.floor = n := by
  have a : (r.floor : Rat) ≤ r := Rat.floor_le r
  have b : r < ((r.floor + 1 : Int) : Rat) := Rat.lt_floor_add_one r
  push_cast at b
  have c1 : ((n : Int) : Rat) < ((r.floor + 1 : Int) : Rat) := by push_cast; linarith
  have c2 : ((r.floor : Int) : Rat) < ((n + 1 : Int) : Rat) := by push_cast; linarith
  have d1 : n < r.floor + 1 := by exact_mod_cast c1
  have d2 : r.floor < n + 1 := by exact_mod_cast c2
  omega

end C10
