/-
Re-strike clipping: the position arithmetic of the repaired loop (searchsorted among the same-pitch notes
sorted by onset, stepping over the note itself) computes the minimum with the onsets of the *other* notes of
the same pitch at or after the release — for every way of ordering simultaneous onsets.
-/
import PartituraModel.Proofs.C14Sort

namespace C14P
open Model Model.Pedal

abbrev NI := Note × Nat

/-- the onsets the note `i` can be cut at, among an arbitrary list of indexed notes -/
def cutsIn (S : List NI) (i : Nat) (off : Rat) : List Rat :=
  (S.filter (fun m => decide (m.2 ≠ i) && decide (off ≤ m.1.on))).map (fun m => m.1.on)

theorem findPos_notin (S : List NI) (i : Nat) (h : ∀ m ∈ S, m.2 ≠ i) :
    findPos (fun m : NI => decide (m.2 = i)) S = S.length := by
  induction S with
  | nil => rfl
  | cons m S' ih =>
    have h1 := h m List.mem_cons_self
    have h2 := ih (fun a ha => h a (List.mem_cons_of_mem _ ha))
    simp [findPos, h1, h2]

theorem ssLeft_le (l : List Rat) (x : Rat) : searchsortedLeft l x ≤ l.length := by
  unfold searchsortedLeft
  exact (List.takeWhile_sublist _).length_le

/-- without the note itself in the list: plain lookup at the searchsorted position -/
theorem clipIn_notin (S : List NI) (i : Nat) (n : Note) (x : Rat) (h : ∀ m ∈ S, m.2 ≠ i) :
    restrikeClipIn S i n x =
      cutAt (S.map (fun m => m.1.on)) (searchsortedLeft (S.map (fun m => m.1.on)) n.off) x := by
  unfold restrikeClipIn
  simp only [findPos_notin S i h]
  have hle := ssLeft_le (S.map (fun m => m.1.on)) n.off
  simp only [List.length_map] at hle
  by_cases hj : searchsortedLeft (S.map (fun m => m.1.on)) n.off = S.length
  · simp [hj, cutAt]
  · simp [hj]

theorem cuts_ge_head (m : NI) (S : List NI) (i : Nat) (off : Rat)
    (hs : ∀ a ∈ S, m.1.on ≤ a.1.on) : ∀ y ∈ cutsIn S i off, m.1.on ≤ y := by
  intro y hy
  obtain ⟨a, ha, rfl⟩ := List.mem_map.mp hy
  exact hs a (List.mem_filter.mp ha).1

theorem clip_noself (S : List NI) (i : Nat) (n : Note) (x : Rat) (hS : SortedBy (fun m : NI => m.1.on) S)
    (h : ∀ m ∈ S, m.2 ≠ i) :
    cutAt (S.map (fun m => m.1.on)) (searchsortedLeft (S.map (fun m => m.1.on)) n.off) x
      = (cutsIn S i n.off).foldl min x := by
  induction S with
  | nil => simp [cutsIn, searchsortedLeft, cutAt]
  | cons m S' ih =>
    have hs := List.pairwise_cons.mp hS
    have hm := h m List.mem_cons_self
    have ih' := ih hs.2 (fun a ha => h a (List.mem_cons_of_mem _ ha))
    by_cases hlt : m.1.on < n.off
    · have hnle : ¬ n.off ≤ m.1.on := not_le.mpr hlt
      have : cutsIn (m :: S') i n.off = cutsIn S' i n.off := by
        simp [cutsIn, hnle]
      rw [this, ← ih']
      simp [searchsortedLeft, hlt, cutAt]
    · have hle : n.off ≤ m.1.on := not_lt.mp hlt
      have : cutsIn (m :: S') i n.off = m.1.on :: cutsIn S' i n.off := by
        simp [cutsIn, hle, hm]
      rw [this]
      simp only [searchsortedLeft, List.map_cons, List.takeWhile_cons, hlt, decide_false,
        Bool.false_eq_true, if_false, List.length_nil, List.getElem?_cons_zero, List.foldl_cons, cutAt]
      symm
      apply foldl_min_eq_init
      intro y hy
      exact le_trans (min_le_right _ _) (cuts_ge_head m S' i n.off hs.1 y hy)

theorem clipIn_cons_lt (m : NI) (S : List NI) (i : Nat) (n : Note) (x : Rat)
    (hlt : m.1.on < n.off) (hm : m.2 ≠ i) :
    restrikeClipIn (m :: S) i n x = restrikeClipIn S i n x := by
  unfold restrikeClipIn
  simp only [List.map_cons, findPos, hm, decide_false, Bool.false_eq_true, if_false, searchsortedLeft,
    List.takeWhile_cons, hlt, decide_true, if_true, List.length_cons, Nat.add_right_cancel_iff]
  by_cases h : (List.takeWhile (fun t => decide (t < n.off)) (List.map (fun m => m.1.on) S)).length
      = findPos (fun m : NI => decide (m.2 = i)) S
  · simp [h, cutAt]
  · simp [h, cutAt]

/-- the position arithmetic computes the minimum over the cut candidates -/
theorem clipIn_spec (S : List NI) (i : Nat) (n : Note) (x : Rat) (hS : SortedBy (fun m : NI => m.1.on) S)
    (hnd : (S.map (·.2)).Nodup) :
    restrikeClipIn S i n x = (cutsIn S i n.off).foldl min x := by
  induction S with
  | nil => simp [restrikeClipIn, cutsIn, searchsortedLeft, findPos, cutAt]
  | cons m S' ih =>
    have hs := List.pairwise_cons.mp hS
    rw [List.map_cons] at hnd
    have hnd' := List.nodup_cons.mp hnd
    have hS'nd : (S'.map (·.2)).Nodup := hnd'.2
    have hnotin : m.2 = i → ∀ a ∈ S', a.2 ≠ i := by
      intro hmi a ha hai
      apply hnd'.1
      rw [hmi, ← hai]
      exact List.mem_map.mpr ⟨a, ha, rfl⟩
    by_cases hlt : m.1.on < n.off
    · have hnle : ¬ n.off ≤ m.1.on := not_le.mpr hlt
      have hcut : cutsIn (m :: S') i n.off = cutsIn S' i n.off := by
        simp [cutsIn, hnle]
      rw [hcut]
      by_cases hm : m.2 = i
      · -- the note itself, strictly inside: it is not in the rest
        have hni := hnotin hm
        rw [← clip_noself S' i n x hs.2 hni]
        unfold restrikeClipIn
        simp only [List.map_cons, findPos, hm, decide_true, if_true, searchsortedLeft,
          List.takeWhile_cons, hlt, List.length_cons]
        simp [cutAt]
      · rw [clipIn_cons_lt m S' i n x hlt hm]
        exact ih hs.2 hS'nd
    · have hle : n.off ≤ m.1.on := not_lt.mp hlt
      by_cases hm : m.2 = i
      · -- the note itself is the first candidate position: step over it
        have hni := hnotin hm
        have hcut : cutsIn (m :: S') i n.off = S'.map (fun a => a.1.on) := by
          unfold cutsIn
          rw [List.filter_cons]
          simp only [hm, ne_eq, not_true_eq_false, decide_false, Bool.false_and, Bool.false_eq_true, if_false]
          congr 1
          apply List.filter_eq_self.mpr
          intro a ha
          have h1 : a.2 ≠ i := hni a ha
          have h2 : n.off ≤ a.1.on := le_trans hle (hs.1 a ha)
          simp [h1, h2]
        rw [hcut]
        unfold restrikeClipIn
        simp only [List.map_cons, findPos, hm, decide_true, if_true, searchsortedLeft,
          List.takeWhile_cons, hlt, decide_false, Bool.false_eq_true, if_false, List.length_nil, cutAt]
        cases S' with
        | nil => simp
        | cons m' S'' =>
          simp only [List.map_cons, zero_add, List.getElem?_cons_succ, List.getElem?_cons_zero, List.foldl_cons]
          symm
          apply foldl_min_eq_init
          intro y hy
          obtain ⟨a, ha, rfl⟩ := List.mem_map.mp hy
          have := (List.pairwise_cons.mp hs.2).1 a ha
          exact le_trans (min_le_right _ _) this
      · have hcut : cutsIn (m :: S') i n.off = m.1.on :: cutsIn S' i n.off := by
          simp [cutsIn, hle, hm]
        rw [hcut]
        unfold restrikeClipIn
        simp only [List.map_cons, findPos, hm, decide_false, Bool.false_eq_true, if_false, searchsortedLeft,
          List.takeWhile_cons, hlt, List.length_nil]
        simp only [List.foldl_cons]
        have h0 : (0 : Nat) ≠ findPos (fun m : NI => decide (m.2 = i)) S' + 1 := by omega
        simp only [h0, if_false, List.getElem?_cons_zero, cutAt]
        symm
        apply foldl_min_eq_init
        intro y hy
        exact le_trans (min_le_right _ _) (cuts_ge_head m S' i n.off hs.1 y hy)

-- ------------------------------------------------------------------ from the sorted group to the note list

theorem nodup_zipIdx_snd {α : Type} (l : List α) (k : Nat) : ((l.zipIdx k).map (·.2)).Nodup := by
  induction l generalizing k with
  | nil => simp
  | cons a rest ih =>
    simp only [List.zipIdx_cons, List.map_cons, List.nodup_cons]
    refine ⟨?_, ih (k + 1)⟩
    intro h
    obtain ⟨b, hb, hbk⟩ := List.mem_map.mp h
    have := List.mem_zipIdx (x := b.1) (i := b.2) (xs := rest) (k := k + 1) (by simpa using hb)
    omega

theorem cuts_samePitch (ns : List Note) (i : Nat) (n : Note) :
    cutsIn (samePitch ns n.pitch) i n.off = restrikes ns i n := by
  unfold cutsIn samePitch restrikes
  rw [List.filter_filter]
  congr 1
  apply List.filter_congr
  intro m _
  by_cases h1 : m.2 = i <;> by_cases h2 : m.1.pitch = n.pitch <;> by_cases h3 : n.off ≤ m.1.on <;> simp [h1, h2, h3]

/-- `restrikeClip` cuts at the first onset of another note of the same pitch at or after the release -/
theorem restrikeClip_spec (ns : List Note) (i : Nat) (n : Note) (x : Rat) :
    restrikeClip ns i n x = minOf x (restrikes ns i n) := by
  unfold restrikeClip
  have hperm := perm_sortBy (fun m : NI => m.1.on) (samePitch ns n.pitch)
  rw [clipIn_spec _ i n x (sorted_sortBy _ _)]
  · rw [← cuts_samePitch]
    unfold minOf cutsIn
    exact foldl_min_perm x ((hperm.filter _).map _)
  · have : ((samePitch ns n.pitch).map (·.2)).Nodup := by
      unfold samePitch
      exact (nodup_zipIdx_snd ns 0).sublist ((List.filter_sublist).map _)
    exact (hperm.map (·.2)).nodup_iff.mpr this

/-- … and the same value is obtained from *any* onset-sorted arrangement of the same-pitch notes
    (an unstable `argsort` may order simultaneous onsets differently) -/
theorem restrikeClipIn_any_order (ns : List Note) (i : Nat) (n : Note) (x : Rat) (S : List NI)
    (hp : S.Perm (samePitch ns n.pitch)) (hS : SortedBy (fun m : NI => m.1.on) S) :
    restrikeClipIn S i n x = restrikeClip ns i n x := by
  rw [restrikeClip_spec, clipIn_spec S i n x hS]
  · rw [← cuts_samePitch]
    unfold minOf cutsIn
    exact foldl_min_perm x ((hp.filter _).map _)
  · have : ((samePitch ns n.pitch).map (·.2)).Nodup := by
      unfold samePitch
      exact (nodup_zipIdx_snd ns 0).sublist ((List.filter_sublist).map _)
    exact (hp.map (·.2)).nodup_iff.mpr this

end C14P
