/-
Round 6: the sounding ends do not depend on the ORDER of the note list.

`soundOffSpec ns cs thr i n` (Proofs/C14Main.lean) mentions the list `ns` in two places: the closing sentinel
(`max` of the releases) and the re-strikes (onsets of the notes at the OTHER positions).  Both are invariant under
permutation of the list; the second because "a note at another position" is membership in the list with ONE copy of
the note erased.
-/
import PartituraModel.Proofs.C14Aux
import PartituraModel.Proofs.C14Dict
import PartituraModel.Model.PedalOrder

namespace C14P
open Model Model.Pedal

-- ------------------------------------------------------------------ the closing sentinel

theorem foldl_max_le (x : Rat) (l : List Rat) (b : Rat) (hx : x ≤ b) (hl : ∀ y ∈ l, y ≤ b) : l.foldl max x ≤ b := by
  induction l generalizing x with
  | nil => exact hx
  | cons y ys ih =>
    simp only [List.foldl_cons]
    exact ih _ (max_le hx (hl y (List.mem_cons_self ..))) (fun z hz => hl z (List.mem_cons_of_mem _ hz))

theorem maxOf_le_of_subset (n0 : Note) (rest : List Note) (m0 : Note) (rest' : List Note)
    (h : ∀ n ∈ n0 :: rest, n ∈ m0 :: rest') :
    maxOf n0.off (rest.map (·.off)) ≤ maxOf m0.off (rest'.map (·.off)) := by
  unfold maxOf
  apply foldl_max_le
  · exact off_le_maxOf m0 rest' n0 (h n0 (List.mem_cons_self ..))
  · intro y hy
    obtain ⟨n, hn, rfl⟩ := List.mem_map.mp hy
    exact off_le_maxOf m0 rest' n (h n (List.mem_cons_of_mem _ hn))

/-- the closing sentinel depends on the notes as a set only -/
theorem closing_perm (ns ns' : List Note) (E : List Ev) (hp : ns.Perm ns') : closing ns E = closing ns' E := by
  cases ns with
  | nil => rw [List.nil_perm.mp hp]
  | cons n0 rest =>
    cases ns' with
    | nil => exact absurd (List.perm_nil.mp hp) (by simp)
    | cons m0 rest' =>
      unfold closing
      cases E.getLast? with
      | none => rfl
      | some pl =>
        simp only
        have h1 := maxOf_le_of_subset n0 rest m0 rest' (fun n hn => hp.mem_iff.mp hn)
        have h2 := maxOf_le_of_subset m0 rest' n0 rest (fun n hn => hp.mem_iff.mpr hn)
        rw [le_antisymm h1 h2]

-- ------------------------------------------------------------------ the notes at the other positions

/-- a note stands at a position other than `i` iff it is in the list with one copy of `ns[i]` erased -/
theorem other_position_iff (ns : List Note) (i : Nat) (n : Note) (hi : ns[i]? = some n) (m : Note) :
    (∃ j, ns[j]? = some m ∧ j ≠ i) ↔ m ∈ ns.erase n := by
  obtain ⟨hlt, hget⟩ := List.getElem?_eq_some_iff.mp hi
  have hmem : n ∈ ns := List.mem_of_getElem? hi
  have hperm : (ns.eraseIdx i).Perm (ns.erase n) := by
    have h1 : (n :: ns.eraseIdx i).Perm ns := by
      have := List.getElem_cons_eraseIdx_perm hlt
      rwa [hget] at this
    exact (h1.trans (List.perm_cons_erase hmem)).cons_inv
  rw [← hperm.mem_iff, List.mem_eraseIdx_iff_getElem?]
  constructor
  · rintro ⟨j, h1, h2⟩; exact ⟨j, h2, h1⟩
  · rintro ⟨j, h1, h2⟩; exact ⟨j, h2, h1⟩

theorem other_position_perm (ns ns' : List Note) (hp : ns.Perm ns') (i i' : Nat) (n : Note)
    (hi : ns[i]? = some n) (hi' : ns'[i']? = some n) (m : Note) :
    (∃ j, ns[j]? = some m ∧ j ≠ i) ↔ (∃ j, ns'[j]? = some m ∧ j ≠ i') := by
  rw [other_position_iff ns i n hi, other_position_iff ns' i' n hi', (hp.erase n).mem_iff]

theorem mem_restrikes_perm (ns ns' : List Note) (hp : ns.Perm ns') (i i' : Nat) (n : Note)
    (hi : ns[i]? = some n) (hi' : ns'[i']? = some n) (t : Rat) :
    t ∈ restrikes ns i n ↔ t ∈ restrikes ns' i' n := by
  rw [mem_restrikes, mem_restrikes]
  constructor
  · rintro ⟨h, j, m, h1, h2, h3, h4⟩
    obtain ⟨j', g1, g2⟩ := (other_position_perm ns ns' hp i i' n hi hi' m).mp ⟨j, h1, h2⟩
    exact ⟨h, j', m, g1, g2, h3, h4⟩
  · rintro ⟨h, j, m, h1, h2, h3, h4⟩
    obtain ⟨j', g1, g2⟩ := (other_position_perm ns ns' hp i i' n hi hi' m).mpr ⟨j, h1, h2⟩
    exact ⟨h, j', m, g1, g2, h3, h4⟩

theorem foldl_min_congr_mem (x : Rat) (l₁ l₂ : List Rat) (h : ∀ y, y ∈ l₁ ↔ y ∈ l₂) :
    l₁.foldl min x = l₂.foldl min x :=
  le_antisymm (foldl_min_anti x l₁ l₂ (fun y hy => ⟨y, (h y).mpr hy, le_refl _⟩))
    (foldl_min_anti x l₂ l₁ (fun y hy => ⟨y, (h y).mp hy, le_refl _⟩))

/-- the sounding end of a note is the same wherever it (and every other note) stands in the list -/
theorem spec_perm (ns ns' : List Note) (cs : List Control) (thr : Int) (hp : ns.Perm ns') (i i' : Nat) (n : Note)
    (hi : ns[i]? = some n) (hi' : ns'[i']? = some n) :
    soundOffSpec ns cs thr i n = soundOffSpec ns' cs thr i' n := by
  unfold soundOffSpec
  rw [closing_perm ns ns' _ hp]
  split
  · unfold minOf
    apply foldl_min_congr_mem
    intro y
    simp only [List.mem_append]
    rw [mem_restrikes_perm ns ns' hp i i' n hi hi' y]
  · rfl

-- ------------------------------------------------------------------ an index-free form

/-- the sounding end of the note `n` of the list `ns` (at its first position; `spec_perm`: at any) -/
def specOf (ns : List Note) (cs : List Control) (thr : Int) (n : Note) : Rat :=
  soundOffSpec ns cs thr (ns.idxOf n) n

theorem spec_eq_specOf (ns : List Note) (cs : List Control) (thr : Int) (i : Nat) (n : Note) (hi : ns[i]? = some n) :
    soundOffSpec ns cs thr i n = specOf ns cs thr n :=
  spec_perm ns ns cs thr (List.Perm.refl _) i _ n hi (List.getElem?_idxOf (List.mem_of_getElem? hi))

theorem specOf_perm (ns ns' : List Note) (cs : List Control) (thr : Int) (hp : ns.Perm ns') (n : Note) (hn : n ∈ ns) :
    specOf ns cs thr n = specOf ns' cs thr n :=
  spec_perm ns ns' cs thr hp _ _ n (List.getElem?_idxOf hn) (List.getElem?_idxOf (hp.mem_iff.mp hn))

theorem soundOffs_eq_map (ns : List Note) (cs : List Control) (thr : Int) :
    soundOffs ns cs thr = some (ns.map (specOf ns cs thr)) := by
  rw [soundOffs_eq]
  congr 1
  rw [← map_zipIdx_fst (specOf ns cs thr) ns 0]
  apply List.map_congr_left
  intro m hm
  exact spec_eq_specOf ns cs thr m.2 m.1 (List.mem_zipIdx_iff_getElem?.mp hm)

-- ------------------------------------------------------------------ the part of PerformedNote objects

theorem storeSound_map (f : PNote → Rat) (l : List PNote) :
    storeSound l (l.map f) = l.map (fun n => { n with soundOff := f n }) := by
  induction l with
  | nil => rfl
  | cons a rest ih => simp only [List.map_cons, storeSound, ih]

/-- the note after an assignment of the threshold to a part holding the notes `L` -/
def resound (L : List PNote) (cs : List Control) (t : Int) (n : PNote) : PNote :=
  { n with soundOff := specOf (L.map PNote.toNote) cs t n.toNote }

theorem assignThr_eq_map (p : PPart) (t : Int) :
    assignThr p t = some { p with notes := p.notes.map (resound p.notes p.controls t), thr := t } := by
  unfold assignThr
  rw [soundOffs_eq_map]
  simp only
  rw [List.map_map, storeSound_map (specOf (p.notes.map PNote.toNote) p.controls t ∘ PNote.toNote) p.notes]
  rfl

theorem resound_perm (L L' : List PNote) (cs : List Control) (t : Int) (hp : L.Perm L') (n : PNote) (hn : n ∈ L) :
    resound L cs t n = resound L' cs t n := by
  unfold resound
  rw [specOf_perm (L.map PNote.toNote) (L'.map PNote.toNote) cs t (hp.map _) n.toNote (List.mem_map_of_mem hn)]

end C14P
