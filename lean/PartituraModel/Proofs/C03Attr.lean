/-
C03 — the `<attributes>` codec read back.
-/
import PartituraModel.Proofs.C03Dir
import PartituraModel.Proofs.C03Note

namespace C03.Attr
open Model Model.XmlNote Model.XmlDir C03.Text

def stavesPart (staves : Option Nat) (post : List AttrItem) : List Xml :=
  match staves, post with
  | some k, _ :: _ => [leaf .staves (natDigits k)]
  | _, _ => []

theorem tag_stavesPart (staves : Option Nat) (post : List AttrItem) : ∀ x ∈ stavesPart staves post, x.tag = .staves := by
  unfold stavesPart
  split <;> simp [leaf, Xml.tag]

theorem kids_write (items : List AttrItem) (staves : Option Nat) :
    (writeAttributes items staves).kids =
      (items.takeWhile (!·.isClef)).flatMap itemEls ++ stavesPart staves (items.dropWhile (!·.isClef)) ++
        (items.dropWhile (!·.isClef)).flatMap itemEls := rfl

/-- `<staves>` aside, the children are the elements of the items in order -/
theorem findall_kids (t : Tag) (ht : t ≠ .staves) (items : List AttrItem) (staves : Option Nat) :
    findall t (writeAttributes items staves).kids = findall t (items.flatMap itemEls) := by
  rw [kids_write, findall_append, findall_append, C03.Note.one (tag_stavesPart _ _) ht, List.append_nil,
    ← findall_append, ← List.flatMap_append, List.takeWhile_append_dropWhile]

theorem findall_flatMap (t : Tag) (items : List AttrItem) :
    findall t (items.flatMap itemEls) = items.flatMap fun i => findall t (itemEls i) := by
  unfold findall
  rw [List.filter_flatMap]

/-! ### time -/

theorem read_beats (items : List AttrItem) :
    tagInt (findPath .time .beats (items.flatMap itemEls)) = some ((firstTime items).map (·.1)) ∧
    tagInt (findPath .time .beatType (items.flatMap itemEls)) = some ((firstTime items).map (·.2)) := by
  unfold findPath
  rw [findall_flatMap]
  induction items with
  | nil => simp [firstTime, tagInt]
  | cons i r ih =>
    cases i with
    | time a b =>
      simp [itemEls, findall, leaf, Xml.tag, Xml.kids, firstTime, tagInt, Xml.text, showIntC_ne_nil, parseIntC_showIntC]
    | divisions q => simpa [itemEls, findall, leaf, Xml.tag, firstTime] using ih
    | key f m => simpa [itemEls, findall, Xml.tag, firstTime] using ih
    | staffDetails l => simpa [itemEls, findall, Xml.tag, firstTime] using ih
    | clef st sg l oc => simpa [itemEls, findall, Xml.tag, firstTime] using ih

/-! ### key -/

theorem read_fifths (items : List AttrItem) :
    tagInt (findPath .key .fifths (items.flatMap itemEls)) = some ((firstKey items).map (·.1)) := by
  unfold findPath
  rw [findall_flatMap]
  induction items with
  | nil => simp [firstKey, tagInt]
  | cons i r ih =>
    cases i with
    | key f m =>
      simp [itemEls, findall, leaf, Xml.tag, Xml.kids, firstKey, tagInt, Xml.text, showIntC_ne_nil, parseIntC_showIntC]
    | divisions q => simpa [itemEls, findall, leaf, Xml.tag, firstKey] using ih
    | time a b => simpa [itemEls, findall, Xml.tag, firstKey] using ih
    | staffDetails l => simpa [itemEls, findall, Xml.tag, firstKey] using ih
    | clef st sg l oc => simpa [itemEls, findall, Xml.tag, firstKey] using ih

theorem read_mode (items : List AttrItem) :
    tagStr (findPath .key .mode (items.flatMap itemEls)) = firstMode items := by
  unfold findPath
  rw [findall_flatMap]
  induction items with
  | nil => simp [firstMode, tagStr]
  | cons i r ih =>
    cases i with
    | key f m =>
      cases m with
      | none => simpa [itemEls, findall, leaf, Xml.tag, Xml.kids, firstMode] using ih
      | some m =>
        by_cases hm : m = []
        · simpa [itemEls, findall, leaf, Xml.tag, Xml.kids, firstMode, hm] using ih
        · simp [itemEls, findall, leaf, Xml.tag, Xml.kids, firstMode, hm, tagStr, Xml.text, pyStr]
    | divisions q => simpa [itemEls, findall, leaf, Xml.tag, firstMode] using ih
    | time a b => simpa [itemEls, findall, Xml.tag, firstMode] using ih
    | staffDetails l => simpa [itemEls, findall, Xml.tag, firstMode] using ih
    | clef st sg l oc => simpa [itemEls, findall, Xml.tag, firstMode] using ih

theorem firstMode_some (items : List AttrItem) (h : (firstMode items).isSome) : (firstKey items).isSome := by
  induction items with
  | nil => simp [firstMode] at h
  | cons i r ih =>
    cases i with
    | key f m => simp [firstKey]
    | divisions q => simpa [firstKey] using ih (by simpa [firstMode] using h)
    | time a b => simpa [firstKey] using ih (by simpa [firstMode] using h)
    | staffDetails l => simpa [firstKey] using ih (by simpa [firstMode] using h)
    | clef st sg l oc => simpa [firstKey] using ih (by simpa [firstMode] using h)

/-! ### divisions -/

theorem read_divisions (items : List AttrItem) :
    tagInt (find .divisions (items.flatMap itemEls)) = some (firstDivisions items) := by
  unfold find
  rw [findall_flatMap]
  induction items with
  | nil => simp [firstDivisions, tagInt]
  | cons i r ih =>
    cases i with
    | divisions q =>
      simp [itemEls, findall, leaf, Xml.tag, firstDivisions, tagInt, Xml.text, showIntC_ne_nil, parseIntC_showIntC]
    | key f m => simpa [itemEls, findall, Xml.tag, firstDivisions] using ih
    | time a b => simpa [itemEls, findall, Xml.tag, firstDivisions] using ih
    | staffDetails l => simpa [itemEls, findall, Xml.tag, firstDivisions] using ih
    | clef st sg l oc => simpa [itemEls, findall, Xml.tag, firstDivisions] using ih

/-! ### clefs -/

theorem parseIntC_None : parseIntC sNone = none := by decide

theorem tag_ocEls (oc : Option Int) : ∀ x ∈ ocEls oc, x.tag = .clefOctaveChange := by
  unfold ocEls
  split
  · split <;> simp [leaf, Xml.tag]
  · simp

theorem read_clef (st : Option Int) (sg : Str) (l oc : Option Int) (hs : TextOK sg) :
    readClef (.el .clef (clefAttrs st) [] ([leaf .sign sg, leaf .line (lineText l)] ++ ocEls oc)) =
      some { staff := (match st with | some s => if s = 0 then 1 else s | none => 1), sign := some sg, line := l,
             octaveChange := truthy oc } := by
  have hsg : pyStr sg = sg := C03.Note.pyStr_ok hs
  have hline : tagInt (some (leaf .line (lineText l))) = some l := by
    cases l with
    | none => simp [lineText, tagInt, leaf, Xml.text, sNone, parseIntC_None]; decide
    | some l => simp [lineText, tagInt, leaf, Xml.text, showIntC_ne_nil, parseIntC_showIntC]
  have hstaff : ∀ kids, intOr (attrInt (.el .clef (clefAttrs st) [] kids) .number) 1 =
      (match st with | some s => if s = 0 then 1 else s | none => 1) := by
    intro kids
    cases st with
    | none => simp [clefAttrs, attrInt, Xml.get, Xml.attrs, Model.lookup, intOr]
    | some s =>
      by_cases h0 : s = 0
      · simp [clefAttrs, h0, attrInt, Xml.get, Xml.attrs, Model.lookup, intOr]
      · by_cases h1 : s = 1
        · simp [clefAttrs, h1, attrInt, Xml.get, Xml.attrs, Model.lookup, intOr]
        · simp [clefAttrs, h0, h1, attrInt, Xml.get, Xml.attrs, Model.lookup, intOr, parseIntC_showIntC]
  have hfl : find .line ([leaf .sign sg, leaf .line (lineText l)] ++ ocEls oc) = some (leaf .line (lineText l)) := by
    unfold find
    rw [findall_append, C03.Note.one (tag_ocEls oc) (by decide)]
    simp [findall, leaf, Xml.tag]
  have hfs : find .sign ([leaf .sign sg, leaf .line (lineText l)] ++ ocEls oc) = some (leaf .sign sg) := by
    unfold find
    rw [findall_append, C03.Note.one (tag_ocEls oc) (by decide)]
    simp [findall, leaf, Xml.tag]
  have hfo : tagInt (find .clefOctaveChange ([leaf .sign sg, leaf .line (lineText l)] ++ ocEls oc)) = some (truthy oc) := by
    unfold find
    rw [findall_append, findall_all (tag_ocEls oc)]
    cases oc with
    | none => simp [ocEls, findall, leaf, Xml.tag, tagInt, truthy]
    | some c =>
      by_cases hc : c = 0
      · simp [ocEls, hc, findall, leaf, Xml.tag, tagInt, truthy]
      · simp [ocEls, hc, findall, leaf, Xml.tag, tagInt, truthy, Xml.text, showIntC_ne_nil, parseIntC_showIntC]
  unfold readClef
  simp only [Xml.kids, hfl, hfs, hfo, hline, hstaff, Option.bind_eq_bind, Option.bind_some, Option.pure_def]
  simp [tagStr, leaf, Xml.text, hsg]

theorem read_clefs (items : List AttrItem) (h : WellFormedAttrs items) :
    (findall .clef (items.flatMap itemEls)).mapM readClef = some (canonClefs items) := by
  rw [findall_flatMap]
  induction items with
  | nil => rfl
  | cons i r ih =>
    have hr : WellFormedAttrs r := fun j hj => h j (List.mem_cons_of_mem _ hj)
    cases i with
    | clef st sg l oc =>
      have hs : TextOK sg := h (.clef st sg l oc) (by simp)
      have hall : findall .clef (itemEls (.clef st sg l oc)) = itemEls (.clef st sg l oc) := by
        simp [itemEls, findall, Xml.tag]
      have hcl : itemEls (.clef st sg l oc) =
          [.el .clef (clefAttrs st) [] ([leaf .sign sg, leaf .line (lineText l)] ++ ocEls oc)] := rfl
      rw [List.flatMap_cons, hall, hcl, List.singleton_append, List.mapM_cons, read_clef st sg l oc hs, ih hr]
      rfl
    | divisions q => simpa [itemEls, findall, leaf, Xml.tag, canonClefs] using ih hr
    | key f m => simpa [itemEls, findall, Xml.tag, canonClefs] using ih hr
    | time a b => simpa [itemEls, findall, Xml.tag, canonClefs] using ih hr
    | staffDetails l => simpa [itemEls, findall, Xml.tag, canonClefs] using ih hr

end C03.Attr
