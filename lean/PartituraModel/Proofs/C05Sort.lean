/-
Helper lemmas for C05: the insertion sort of Model/NoteArray.lean is a permutation, sorts, and is
stable (which is what makes "sort by pitch, then stably by onset" a lexicographic sort).
-/
import PartituraModel.Model.NoteArray
import Mathlib.Data.List.Perm.Basic
import Mathlib.Algebra.Order.Field.Rat

namespace NoteArray

open List

theorem insertBy_perm {α : Type} (le : α → α → Bool) (a : α) (l : List α) :
    insertBy le a l ~ a :: l := by
  induction l with
  | nil => exact Perm.refl _
  | cons b l ih =>
    unfold insertBy
    split
    · exact Perm.refl _
    · exact (Perm.cons b ih).trans (Perm.swap a b l)

theorem isort_perm {α : Type} (le : α → α → Bool) (l : List α) : isort le l ~ l := by
  induction l with
  | nil => exact Perm.refl _
  | cons a l ih =>
    unfold isort
    exact (insertBy_perm le a _).trans (Perm.cons a ih)

theorem mem_insertBy {α : Type} (le : α → α → Bool) (a x : α) (l : List α) :
    x ∈ insertBy le a l ↔ x = a ∨ x ∈ l := by
  rw [(insertBy_perm le a l).mem_iff]; simp

theorem mem_isort {α : Type} (le : α → α → Bool) (x : α) (l : List α) :
    x ∈ isort le l ↔ x ∈ l := (isort_perm le l).mem_iff

/-- Lexicographic order by a key in a linear order, then by a second relation. -/
def Lex {α K : Type} [LinearOrder K] (key : α → K) (R : α → α → Prop) (a b : α) : Prop :=
  key a < key b ∨ (key a = key b ∧ R a b)

theorem Lex.key_le {α K : Type} [LinearOrder K] {key : α → K} {R : α → α → Prop} {a b : α}
    (h : Lex key R a b) : key a ≤ key b := by
  rcases h with h | ⟨h, _⟩
  · exact le_of_lt h
  · exact le_of_eq h

/-- inserting in front of the first element with a key not smaller keeps a lexicographically
    sorted list sorted, provided the new element is `R`-before everything in the list -/
theorem insertBy_lex {α K : Type} [LinearOrder K] (key : α → K) (R : α → α → Prop)
    (le : α → α → Bool) (hle : ∀ a b, le a b = true ↔ key a ≤ key b)
    (a : α) (S : List α) (hS : S.Pairwise (Lex key R)) (hR : ∀ b ∈ S, R a b) :
    (insertBy le a S).Pairwise (Lex key R) := by
  induction S with
  | nil => simp [insertBy]
  | cons b S ih =>
    rw [pairwise_cons] at hS
    unfold insertBy
    split
    · rename_i hab
      have hab' : key a ≤ key b := (hle a b).mp hab
      rw [pairwise_cons]
      refine ⟨?_, pairwise_cons.mpr hS⟩
      intro x hx
      have hax : key a ≤ key x := by
        rcases mem_cons.mp hx with rfl | hx'
        · exact hab'
        · exact le_trans hab' (hS.1 x hx').key_le
      rcases lt_or_eq_of_le hax with h | h
      · exact Or.inl h
      · exact Or.inr ⟨h, hR x hx⟩
    · rename_i hab
      have hba : key b < key a := by
        rcases lt_or_ge (key b) (key a) with h | h
        · exact h
        · exact absurd ((hle a b).mpr h) hab
      rw [pairwise_cons]
      refine ⟨?_, ih hS.2 (fun x hx => hR x (mem_cons_of_mem _ hx))⟩
      intro x hx
      rcases (mem_insertBy le a x S).mp hx with rfl | hx'
      · exact Or.inl hba
      · exact hS.1 x hx'

/-- stability: sorting an `R`-sorted list by a key gives a list sorted by (key, R) -/
theorem isort_lex {α K : Type} [LinearOrder K] (key : α → K) (R : α → α → Prop)
    (le : α → α → Bool) (hle : ∀ a b, le a b = true ↔ key a ≤ key b)
    (l : List α) (hl : l.Pairwise R) : (isort le l).Pairwise (Lex key R) := by
  induction l with
  | nil => simp [isort]
  | cons a l ih =>
    rw [pairwise_cons] at hl
    unfold isort
    apply insertBy_lex key R le hle a _ (ih hl.2)
    intro b hb
    exact hl.1 b ((mem_isort le b l).mp hb)

/-- plain sortedness (the special case `R = True`) -/
theorem isort_sorted {α K : Type} [LinearOrder K] (key : α → K)
    (le : α → α → Bool) (hle : ∀ a b, le a b = true ↔ key a ≤ key b)
    (l : List α) : (isort le l).Pairwise (fun a b => key a ≤ key b) := by
  have h := isort_lex key (fun _ _ => True) le hle l (by
    induction l with
    | nil => exact Pairwise.nil
    | cons a l ih => exact pairwise_cons.mpr ⟨fun _ _ => trivial, ih⟩)
  exact h.imp (fun h => h.key_le)

end NoteArray
