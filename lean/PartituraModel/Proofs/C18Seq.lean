/-
C18 (round 6) — lemmas about Model/CodecSeq.lean: `get_unique_seq` on its own, the helpers on 2-D / structured inputs.
-/
import PartituraModel.Model.CodecSeq
import PartituraModel.Proofs.C18Groups
import PartituraModel.Proofs.C18Ext3

namespace C18P
open Model Model.Codec

theorem minL_mem (a : Rat) (l : List Rat) : minL a l ∈ a :: l := by
  induction l generalizing a with
  | nil => simp [minL]
  | cons b bs ih =>
    simp only [minL]
    split
    · exact List.mem_cons_of_mem _ (ih b)
    · rcases List.mem_cons.mp (ih a) with h | h
      · rw [h]; simp
      · exact List.mem_cons_of_mem _ (List.mem_cons_of_mem _ h)

/-- what `get_unique_seq` returns on a grouping into non-empty groups of cells of the table whose mean onsets
    increase: `u_onset` strictly increasing and one longer than the groups, a positive total duration, positive
    differences on request -/
theorem uniqueSeq_of_groups {α : Type} (l : List α) (f g : α → Rat) (hne : l ≠ []) (hfg : ∀ x ∈ l, f x ≤ g x)
    (idx : Option (List (List Nat))) (gs : List (Grp Rat))
    (hgs : (match idx with | none => some (groupsBy (fun x => x) (l.map f)) | some ix => pickGroups (l.map f) ix) = some gs)
    (hgne : ∀ g ∈ gs, g ≠ []) (hmem : ∀ g ∈ gs, ∀ p ∈ g, p.2 ∈ l.map f)
    (hinc : (groupMeans (fun x => x) gs).Pairwise (· < ·)) (rd : Bool) :
    ∃ u, uniqueSeq (l.map f) (l.map g) idx rd = some u ∧ u.groups = gs.map (·.map (·.1)) ∧
      (∃ last, u.uOnset = groupMeans (fun x => x) gs ++ [last] ∧ lastTime (l.map f) (l.map g) = some last) ∧
      u.uOnset.Pairwise (· < ·) ∧ u.uOnset.length = u.groups.length + 1 ∧ 0 < u.totalDur ∧
      u.diff = (if rd then some (diffs u.uOnset) else none) ∧
      (∀ d ∈ diffs u.uOnset, 0 < d) ∧ (diffs u.uOnset).length = u.groups.length := by
  obtain ⟨last, hlast⟩ := lastTime_some l f g hne
  have hlt : ∀ x ∈ l, f x < last := lastTime_gt l f g hfg last hlast
  cases l with
  | nil => exact absurd rfl hne
  | cons a as =>
    have hany : gs.any (·.isEmpty) = false := by
      rw [Bool.eq_false_iff]
      intro h
      obtain ⟨g0, hg0, he⟩ := List.any_eq_true.mp h
      exact hgne g0 hg0 (List.isEmpty_iff.mp he)
    have hmlt : ∀ m ∈ groupMeans (fun x => x) gs, m < last := by
      intro m hm
      unfold groupMeans at hm
      obtain ⟨g0, hg0, rfl⟩ := List.mem_map.mp hm
      apply mean_lt _ _ (by simpa using hgne g0 hg0)
      intro x hx
      obtain ⟨p, hp, rfl⟩ := List.mem_map.mp hx
      obtain ⟨y, hy, hye⟩ := List.mem_map.mp (hmem g0 hg0 p hp)
      rw [← hye]; exact hlt y hy
    have hu : (groupMeans (fun x => x) gs ++ [last]).Pairwise (· < ·) := pairwise_append_last _ last hinc hmlt
    have hfirst : minL (f a) (as.map f) < last := by
      have := minL_mem (f a) (as.map f)
      rw [← List.map_cons] at this
      obtain ⟨y, hy, hye⟩ := List.mem_map.mp this
      rw [← hye]; exact hlt y hy
    refine ⟨⟨groupMeans (fun x => x) gs ++ [last], last - minL (f a) (as.map f), gs.map (·.map (·.1)),
      if rd then some (diffs (groupMeans (fun x => x) gs ++ [last])) else none⟩, ?_, rfl, ⟨last, rfl, hlast⟩, hu, ?_, ?_, rfl,
      diffs_pos _ hu, ?_⟩
    · unfold uniqueSeq
      simp only [List.map_cons] at hlast hgs ⊢
      rw [hlast]
      cases idx with
      | none =>
        simp only [Option.some.injEq] at hgs
        simp [hgs]
        exact fun h => hgne [] h rfl
      | some ix =>
        simp only at hgs
        simp [hgs]
        exact fun h => hgne [] h rfl
    · simp [groupMeans]
    · simp only; linarith
    · rw [diffs_length]; simp [groupMeans]

/-- the groups `get_unique_seq` infers itself -/
theorem uniqueSeq_default_groups (ons : List Rat) :
    (∀ g ∈ groupsBy (fun x => x) ons, g ≠ []) ∧ (∀ g ∈ groupsBy (fun x => x) ons, ∀ p ∈ g, p.2 ∈ ons) ∧
    (groupMeans (fun x => x) (groupsBy (fun x => x) ons)).Pairwise (· < ·) ∧
    (groupsBy (fun x => x) ons).flatten.Perm (enumFrom 0 ons) := by
  obtain ⟨h1, h2, h3, _⟩ := groupsByEps_spec eps (by unfold eps; norm_num) (fun (x : Rat) => x) ons
  refine ⟨h2, ?_, groupMeans_strict_of_separated (fun (x : Rat) => x) _ h2 h3, h1⟩
  intro g hg p hp
  have : p ∈ (groupsByEps eps (fun (x : Rat) => x) ons).flatten := List.mem_flatten.mpr ⟨g, hg, hp⟩
  exact mem_enumFrom_snd 0 ons p (h1.mem_iff.mp this)

-- ------------------------------------------------------------------ 2-D / structured helpers

theorem onsetwise_roundtrip2' (n : Nat) (gs : List (List Nat)) (cols : List (List Rat))
    (hperm : gs.flatten.Perm (List.range n)) (hne : ∀ g ∈ gs, g ≠ []) (hlen : ∀ c ∈ cols, c.length = gs.length) :
    ∃ v, toNotewise2 cols gs = some v ∧ (∀ c ∈ v, c.length = n) ∧ v.length = cols.length ∧ toOnsetwise2 v gs = some cols := by
  induction cols with
  | nil => exact ⟨[], rfl, by simp, rfl, rfl⟩
  | cons c rest ih =>
    obtain ⟨v, h1, h2, h3, h4⟩ := ih (fun c' hc' => hlen c' (by simp [hc']))
    obtain ⟨w, hw1, hw2, hw3⟩ := onsetwise_roundtrip' n gs c hperm hne (hlen c (by simp))
    refine ⟨w :: v, ?_, ?_, by simp [h3], ?_⟩
    · unfold toNotewise2 at h1 ⊢
      simp only [List.map_cons, allSome, hw1, h1, Option.map_some]
    · intro c' hc'
      rcases List.mem_cons.mp hc' with rfl | hc'
      · exact hw2
      · exact h2 c' hc'
    · unfold toOnsetwise2 at h4 ⊢
      simp only [List.map_cons, allSome, hw3, h4, Option.map_some]

end C18P
