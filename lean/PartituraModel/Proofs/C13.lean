/-
Helper lemmas for C13 (piano rolls): extrema, the stable sort and its inverse permutation,
`max(fill_dict[key])`, membership in the fill list, sort-free forms of the whole-array quantities,
permutation invariance.
-/
import PartituraModel.Model.PianoRoll
import PartituraModel.Proofs.Round
import Mathlib.Data.List.Perm.Basic
import Mathlib.Algebra.Order.Field.Rat
import Mathlib.Tactic.Linarith

namespace C13
open Model Model.PianoRoll
open List

/-! ### `best?` : the extremum of a list under a total preorder -/

/-- a Boolean relation that is a total preorder whose equivalence is equality -/
structure LinearLe {α : Type} (le : α → α → Bool) : Prop where
  total : ∀ a b, le a b = true ∨ le b a = true
  trans : ∀ a b c, le a b = true → le b c = true → le a c = true
  antisymm : ∀ a b, le a b = true → le b a = true → a = b

theorem best?_eq_none {α : Type} (le : α → α → Bool) (l : List α) : best? le l = none ↔ l = [] := by
  cases l with
  | nil => simp [best?]
  | cons a l =>
    simp only [best?]
    cases best? le l <;> simp

theorem best?_spec {α : Type} {le : α → α → Bool} (h : LinearLe le) :
    ∀ (l : List α) (m : α), best? le l = some m → m ∈ l ∧ ∀ x ∈ l, le m x = true := by
  intro l
  induction l with
  | nil => intro m hm; simp [best?] at hm
  | cons a l ih =>
    intro m hm
    simp only [best?] at hm
    cases hb : best? le l with
    | none =>
      rw [hb] at hm
      have hl : l = [] := (best?_eq_none le l).mp hb
      subst hl
      simp only [Option.some.injEq] at hm
      subst hm
      refine ⟨by simp, ?_⟩
      intro x hx
      simp only [mem_singleton] at hx
      subst hx
      rcases h.total x x with h1 | h1 <;> exact h1
    | some m' =>
      rw [hb] at hm
      obtain ⟨hmem, hall⟩ := ih m' hb
      simp only [Option.some.injEq] at hm
      by_cases hle : le a m' = true
      · rw [if_pos hle] at hm
        subst hm
        refine ⟨by simp, ?_⟩
        intro x hx
        simp only [mem_cons] at hx
        rcases hx with rfl | hx
        · rcases h.total x x with h1 | h1 <;> exact h1
        · exact h.trans _ _ _ hle (hall x hx)
      · rw [if_neg hle] at hm
        subst hm
        refine ⟨by simp [hmem], ?_⟩
        intro x hx
        simp only [mem_cons] at hx
        rcases hx with rfl | hx
        · rcases h.total m' x with h1 | h1
          · exact h1
          · exact absurd h1 hle
        · exact hall x hx

theorem best?_some_iff {α : Type} {le : α → α → Bool} (h : LinearLe le) (l : List α) (m : α) :
    best? le l = some m ↔ m ∈ l ∧ ∀ x ∈ l, le m x = true := by
  constructor
  · exact best?_spec h l m
  · rintro ⟨hmem, hall⟩
    cases hb : best? le l with
    | none =>
      have := (best?_eq_none le l).mp hb
      subst this
      simp at hmem
    | some m' =>
      obtain ⟨hmem', hall'⟩ := best?_spec h l m' hb
      rw [h.antisymm m' m (hall' m hmem) (hall m' hmem')]

theorem best?_perm {α : Type} {le : α → α → Bool} (h : LinearLe le) {l l' : List α} (hp : l ~ l') :
    best? le l = best? le l' := by
  cases hb : best? le l with
  | none =>
    have := (best?_eq_none le l).mp hb
    subst this
    have : l' = [] := hp.symm.eq_nil
    subst this
    rfl
  | some m =>
    obtain ⟨hmem, hall⟩ := best?_spec h l m hb
    symm
    rw [best?_some_iff h]
    exact ⟨hp.mem_iff.mp hmem, fun x hx => hall x (hp.mem_iff.mpr hx)⟩

theorem linearLe_ratLe : LinearLe (fun a b : Rat => decide (a ≤ b)) where
  total a b := by
    rcases le_total a b with h | h
    · left; simpa using h
    · right; simpa using h
  trans a b c h1 h2 := by
    simp only [decide_eq_true_eq] at *
    exact le_trans h1 h2
  antisymm a b h1 h2 := by
    simp only [decide_eq_true_eq] at *
    exact le_antisymm h1 h2

theorem linearLe_intLe : LinearLe (fun a b : Int => decide (a ≤ b)) where
  total a b := by simp only [decide_eq_true_eq]; omega
  trans a b c h1 h2 := by simp only [decide_eq_true_eq] at *; omega
  antisymm a b h1 h2 := by simp only [decide_eq_true_eq] at *; omega

theorem linearLe_intGe : LinearLe (fun a b : Int => decide (b ≤ a)) where
  total a b := by simp only [decide_eq_true_eq]; omega
  trans a b c h1 h2 := by simp only [decide_eq_true_eq] at *; omega
  antisymm a b h1 h2 := by simp only [decide_eq_true_eq] at *; omega

theorem minRat?_some_iff (l : List Rat) (m : Rat) :
    minRat? l = some m ↔ m ∈ l ∧ ∀ x ∈ l, m ≤ x := by
  unfold minRat?
  rw [best?_some_iff linearLe_ratLe]
  simp

theorem minInt?_some_iff (l : List Int) (m : Int) :
    minInt? l = some m ↔ m ∈ l ∧ ∀ x ∈ l, m ≤ x := by
  unfold minInt?
  rw [best?_some_iff linearLe_intLe]
  simp

theorem maxInt?_some_iff (l : List Int) (m : Int) :
    maxInt? l = some m ↔ m ∈ l ∧ ∀ x ∈ l, x ≤ m := by
  unfold maxInt?
  rw [best?_some_iff linearLe_intGe]
  simp

theorem best?_isSome_of_ne_nil {α : Type} (le : α → α → Bool) {l : List α} (h : l ≠ []) :
    ∃ m, best? le l = some m := by
  cases hb : best? le l with
  | none => exact absurd ((best?_eq_none le l).mp hb) h
  | some m => exact ⟨m, rfl⟩

/-! ### `sortBy` : stable insertion sort -/

theorem insertBy_perm {α : Type} (le : α → α → Bool) (x : α) (l : List α) : insertBy le x l ~ x :: l := by
  induction l with
  | nil => simp [insertBy]
  | cons y ys ih =>
    simp only [insertBy]
    split
    · exact Perm.refl _
    · exact (Perm.cons y ih).trans (Perm.swap x y ys)

theorem sortBy_perm {α : Type} (le : α → α → Bool) (l : List α) : sortBy le l ~ l := by
  induction l with
  | nil => simp [sortBy]
  | cons x xs ih =>
    simp only [sortBy]
    exact (insertBy_perm le x _).trans (Perm.cons x ih)

/-- totality and transitivity suffice for sortedness -/
structure TotalPre {α : Type} (le : α → α → Bool) : Prop where
  total : ∀ a b, le a b = true ∨ le b a = true
  trans : ∀ a b c, le a b = true → le b c = true → le a c = true

theorem insertBy_pairwise {α : Type} {le : α → α → Bool} (h : TotalPre le) (x : α) (l : List α)
    (hl : l.Pairwise (fun a b => le a b = true)) : (insertBy le x l).Pairwise (fun a b => le a b = true) := by
  induction l with
  | nil => simp [insertBy]
  | cons y ys ih =>
    simp only [insertBy]
    rw [pairwise_cons] at hl
    by_cases hxy : le x y = true
    · rw [if_pos hxy]
      rw [pairwise_cons]
      refine ⟨?_, pairwise_cons.mpr hl⟩
      intro z hz
      simp only [mem_cons] at hz
      rcases hz with rfl | hz
      · exact hxy
      · exact h.trans _ _ _ hxy (hl.1 z hz)
    · rw [if_neg hxy]
      rw [pairwise_cons]
      refine ⟨?_, ih hl.2⟩
      intro z hz
      have hz' : z ∈ x :: ys := (insertBy_perm le x ys).mem_iff.mp hz
      simp only [mem_cons] at hz'
      rcases hz' with rfl | hz'
      · rcases h.total z y with h1 | h1
        · exact absurd h1 hxy
        · exact h1
      · exact hl.1 z hz'

theorem sortBy_pairwise {α : Type} {le : α → α → Bool} (h : TotalPre le) (l : List α) :
    (sortBy le l).Pairwise (fun a b => le a b = true) := by
  induction l with
  | nil => simp [sortBy]
  | cons x xs ih => exact insertBy_pairwise h x _ ih

theorem totalPre_leOnset : TotalPre leOnset where
  total a b := by
    unfold leOnset
    rcases le_total a.2.onset b.2.onset with h | h
    · left; simpa using h
    · right; simpa using h
  trans a b c h1 h2 := by
    unfold leOnset at *
    simp only [decide_eq_true_eq] at *
    exact le_trans h1 h2

theorem totalPre_leIdx {α : Type} : TotalPre (leIdx (α := α)) where
  total a b := by unfold leIdx; simp only [decide_eq_true_eq]; omega
  trans a b c h1 h2 := by unfold leIdx at *; simp only [decide_eq_true_eq] at *; omega

/-! ### the sorted working copies -/

theorem enumFrom_map_snd (i : Nat) (l : List Note) : (enumFrom i l).map (·.2) = l := by
  induction l generalizing i with
  | nil => rfl
  | cons a l ih => simp [enumFrom, ih]

theorem sortedNotes_perm (notes : List Note) : sortedNotes notes ~ notes := by
  unfold sortedNotes sorted
  have h := (sortBy_perm leOnset (enumFrom 0 notes)).map (·.2)
  rwa [enumFrom_map_snd] at h

theorem mem_sortedNotes {notes : List Note} {n : Note} : n ∈ sortedNotes notes ↔ n ∈ notes :=
  (sortedNotes_perm notes).mem_iff

theorem sortedNotes_pairwise (notes : List Note) :
    (sortedNotes notes).Pairwise (fun a b => a.onset ≤ b.onset) := by
  unfold sortedNotes sorted
  have h := sortBy_pairwise totalPre_leOnset (enumFrom 0 notes)
  rw [pairwise_map]
  refine h.imp ?_
  intro a b hab
  simpa [leOnset] using hab

/-- `onset[0]` of the sorted onsets is `min(onset)` -/
theorem head_sortedNotes (notes : List Note) :
    (sortedNotes notes).head?.map (·.onset) = minRat? (notes.map (·.onset)) := by
  have hp := sortedNotes_perm notes
  have hs := sortedNotes_pairwise notes
  cases hS : sortedNotes notes with
  | nil =>
    rw [hS] at hp
    have : notes = [] := hp.symm.eq_nil
    subst this
    rfl
  | cons a S =>
    rw [hS] at hp hs
    simp only [head?_cons, Option.map_some]
    symm
    rw [minRat?_some_iff]
    constructor
    · exact mem_map.mpr ⟨a, hp.mem_iff.mp (by simp), rfl⟩
    · intro x hx
      obtain ⟨n, hn, rfl⟩ := mem_map.mp hx
      have hn' : n ∈ a :: S := hp.mem_iff.mpr hn
      simp only [mem_cons] at hn'
      rcases hn' with rfl | hn'
      · exact le_refl _
      · exact (pairwise_cons.mp hs).1 n hn'

/-! ### `unsort` puts the rows back in input order -/

theorem mem_enumFrom {i : Nat} {l : List Note} {x : Nat × Note} (h : x ∈ enumFrom i l) :
    i ≤ x.1 ∧ l[x.1 - i]? = some x.2 := by
  induction l generalizing i with
  | nil => simp [enumFrom] at h
  | cons a l ih =>
    simp only [enumFrom, mem_cons] at h
    rcases h with rfl | h
    · simp
    · obtain ⟨h1, h2⟩ := ih h
      refine ⟨by omega, ?_⟩
      have : x.1 - i = (x.1 - (i + 1)) + 1 := by omega
      rw [this, getElem?_cons_succ]
      exact h2

theorem enumFrom_pairwise (i : Nat) (l : List Note) :
    (enumFrom i l).Pairwise (fun a b => a.1 < b.1) := by
  induction l generalizing i with
  | nil => simp [enumFrom]
  | cons a l ih =>
    simp only [enumFrom, pairwise_cons]
    refine ⟨?_, ih (i + 1)⟩
    intro x hx
    have := (mem_enumFrom hx).1
    omega

theorem unsort_sorted {β : Type} (f : Note → β) (notes : List Note) :
    unsort ((sorted notes).map fun x => (x.1, f x.2)) = notes.map f := by
  unfold unsort sorted
  set L := enumFrom 0 notes with hL
  set g : Nat × Note → Nat × β := fun x => (x.1, f x.2) with hg
  have hperm : sortBy leIdx ((sortBy leOnset L).map g) ~ L.map g :=
    (sortBy_perm leIdx _).trans ((sortBy_perm leOnset L).map g)
  have hpw1 : (sortBy leIdx ((sortBy leOnset L).map g)).Pairwise (fun a b => leIdx a b = true) :=
    sortBy_pairwise totalPre_leIdx _
  have hpw2 : (L.map g).Pairwise (fun a b => leIdx a b = true) := by
    rw [pairwise_map]
    refine (enumFrom_pairwise 0 notes).imp ?_
    intro a b hab
    simp only [leIdx, hg, decide_eq_true_eq]
    omega
  have heq : sortBy leIdx ((sortBy leOnset L).map g) = L.map g := by
    refine Perm.eq_of_pairwise ?_ hpw1 hpw2 hperm
    intro a b ha hb hab hba
    have ha' : a ∈ L.map g := hperm.mem_iff.mp ha
    obtain ⟨x, hx, rfl⟩ := mem_map.mp ha'
    obtain ⟨y, hy, rfl⟩ := mem_map.mp hb
    simp only [leIdx, hg, decide_eq_true_eq] at hab hba
    have hxy : x.1 = y.1 := by omega
    have h1 := (mem_enumFrom hx).2
    have h2 := (mem_enumFrom hy).2
    rw [hxy] at h1
    rw [h1] at h2
    simp only [Option.some.injEq] at h2
    have hxy' : x = y := Prod.ext hxy h2
    rw [hxy']
  rw [heq, map_map]
  have : ((fun x : Nat × β => x.2) ∘ g) = f ∘ (fun x : Nat × Note => x.2) := by
    funext x; simp [hg]
  rw [this, ← map_map, hL, enumFrom_map_snd]

/-! ### `max(fill_dict[key])` -/

theorem keyMax_some_iff (fill : List Entry) (p j v : Int) :
    keyMax fill p j = some v ↔ (p, j, v) ∈ fill ∧ ∀ e ∈ fill, e.1 = p → e.2.1 = j → e.2.2 ≤ v := by
  unfold keyMax
  rw [maxInt?_some_iff]
  constructor
  · rintro ⟨hmem, hall⟩
    obtain ⟨e, he, rfl⟩ := mem_map.mp hmem
    rw [mem_filter] at he
    obtain ⟨he1, he2⟩ := he
    simp only [Bool.and_eq_true, beq_iff_eq] at he2
    refine ⟨?_, ?_⟩
    · have : e = (p, j, e.2.2) := by
        obtain ⟨a, b, c⟩ := e
        simp only at he2
        simp [he2.1, he2.2]
      rw [← this]; exact he1
    · intro e' he' h1 h2
      apply hall
      refine mem_map.mpr ⟨e', mem_filter.mpr ⟨he', ?_⟩, rfl⟩
      simp [h1, h2]
  · rintro ⟨hmem, hall⟩
    refine ⟨mem_map.mpr ⟨(p, j, v), mem_filter.mpr ⟨hmem, by simp⟩, rfl⟩, ?_⟩
    intro x hx
    obtain ⟨e, he, rfl⟩ := mem_map.mp hx
    rw [mem_filter] at he
    obtain ⟨he1, he2⟩ := he
    simp only [Bool.and_eq_true, beq_iff_eq] at he2
    exact hall e he1 he2.1 he2.2

theorem keyMax_none_iff (fill : List Entry) (p j : Int) :
    keyMax fill p j = none ↔ ∀ e ∈ fill, ¬ (e.1 = p ∧ e.2.1 = j) := by
  unfold keyMax maxInt?
  rw [best?_eq_none, map_eq_nil_iff, filter_eq_nil_iff]
  simp only [Bool.and_eq_true, beq_iff_eq]

theorem keyMax_perm {fill fill' : List Entry} (h : fill ~ fill') (p j : Int) :
    keyMax fill p j = keyMax fill' p j := by
  unfold keyMax maxInt?
  exact best?_perm linearLe_intGe ((h.filter _).map _)

/-! ### frames of one note -/

theorem durFrames_pos (o : Opts) (n : Note) : 1 ≤ durFrames o n := by
  unfold durFrames
  simp only
  split <;> omega

theorem onFrame_lt_offFull (o : Opts) (t0 : Rat) (n : Note) : onFrame o t0 n < offFull o t0 n := by
  unfold offFull
  have := durFrames_pos o n
  omega

theorem onFrame_lt_offIdx (o : Opts) (t0 : Rat) (n : Note) : onFrame o t0 n < offIdx o t0 n := by
  unfold offIdx
  have := onFrame_lt_offFull o t0 n
  simp only
  split
  · exact this
  · split <;> omega

theorem onFrame_lt_offCell (o : Opts) (t0 : Rat) (n : Note) : onFrame o t0 n < offCell o t0 n := by
  unfold offCell
  have := onFrame_lt_offIdx o t0 n
  split <;> omega

theorem offCell_le_offFull (o : Opts) (t0 : Rat) (n : Note) : offCell o t0 n ≤ offFull o t0 n := by
  unfold offCell offIdx
  have := onFrame_lt_offFull o t0 n
  simp only
  split
  · omega
  · split <;> split <;> omega

theorem mem_noteCells (o : Opts) (lowest : Int) (t0 : Rat) (n : Note) (p j v : Int) :
    (p, j, v) ∈ noteCells o lowest t0 n ↔
      p = rowOf o lowest n ∧ v = n.vel ∧ onFrame o t0 n ≤ j ∧ j < offCell o t0 n := by
  unfold noteCells offCell
  simp only
  by_cases h : o.onsetOnly = true
  · simp only [h, if_true, mem_singleton, Prod.mk.injEq]
    constructor
    · rintro ⟨h1, h2, h3⟩; exact ⟨h1, h3, by omega, by omega⟩
    · rintro ⟨h1, h2, h3, h4⟩; exact ⟨h1, by omega, h2⟩
  · have h' : o.onsetOnly = false := by simpa using h
    simp only [h', Bool.false_eq_true, ↓reduceIte, mem_map, mem_range, Prod.mk.injEq]
    constructor
    · rintro ⟨k, hk, h1, h2, h3⟩
      exact ⟨h1.symm, h3.symm, by omega, by omega⟩
    · rintro ⟨h1, h2, h3, h4⟩
      exact ⟨(j - onFrame o t0 n).toNat, by omega, h1.symm, by omega, h2.symm⟩

theorem mem_fillOf (o : Opts) (notes : List Note) (p j v : Int) :
    (p, j, v) ∈ fillOf o notes ↔
      ∃ n ∈ notes, rowOf o (lowestOf o notes) n = p ∧ n.vel = v ∧
        onFrame o (t0Of o notes) n ≤ j ∧ j < offCell o (t0Of o notes) n := by
  unfold fillOf
  rw [mem_flatMap]
  constructor
  · rintro ⟨n, hn, hc⟩
    rw [mem_noteCells] at hc
    exact ⟨n, mem_sortedNotes.mp hn, hc.1.symm, hc.2.1.symm, hc.2.2.1, hc.2.2.2⟩
  · rintro ⟨n, hn, h1, h2, h3, h4⟩
    exact ⟨n, mem_sortedNotes.mpr hn, (mem_noteCells ..).mpr ⟨h1.symm, h2.symm, h3, h4⟩⟩

/-! ### sort-free forms and permutation invariance of the whole-array quantities -/

theorem minRat?_sortedNotes (notes : List Note) :
    minRat? ((sortedNotes notes).map (·.onset)) = minRat? (notes.map (·.onset)) :=
  best?_perm linearLe_ratLe ((sortedNotes_perm notes).map _)

/-- `min_time` without the sort -/
theorem t0Of_eq (o : Opts) (notes : List Note) :
    t0Of o notes =
      (let m := (minRat? (notes.map (·.onset))).getD 0
       if o.removeSilence then m else if 0 ≤ m then 0 else m) := by
  unfold t0Of
  rw [head_sortedNotes, minRat?_sortedNotes]

theorem maxOffOf_eq (o : Opts) (notes : List Note) :
    maxOffOf o notes = (maxInt? (notes.map (offFull o (t0Of o notes)))).getD 0 := by
  unfold maxOffOf maxInt?
  rw [best?_perm linearLe_intGe ((sortedNotes_perm notes).map _)]

section perm
variable (o : Opts) {notes notes' : List Note} (hp : notes ~ notes')
include hp

theorem lowestOf_perm : lowestOf o notes = lowestOf o notes' := by
  unfold lowestOf minInt?
  rw [best?_perm linearLe_intLe (hp.map _)]

theorem highestOf_perm : highestOf o notes = highestOf o notes' := by
  unfold highestOf maxInt?
  rw [best?_perm linearLe_intGe (hp.map _)]

theorem rowsFull_perm : rowsFull o notes = rowsFull o notes' := by
  unfold rowsFull
  rw [lowestOf_perm o hp, highestOf_perm o hp]

theorem t0Of_perm : t0Of o notes = t0Of o notes' := by
  rw [t0Of_eq, t0Of_eq]
  unfold minRat?
  rw [best?_perm linearLe_ratLe (hp.map _)]

theorem maxOffOf_perm : maxOffOf o notes = maxOffOf o notes' := by
  rw [maxOffOf_eq, maxOffOf_eq, t0Of_perm o hp]
  unfold maxInt?
  rw [best?_perm linearLe_intGe (hp.map _)]

theorem colsOf_perm : colsOf o notes = colsOf o notes' := by
  unfold colsOf
  rw [maxOffOf_perm o hp, t0Of_perm o hp]

theorem fillOf_perm : fillOf o notes ~ fillOf o notes' := by
  unfold fillOf
  rw [lowestOf_perm o hp, t0Of_perm o hp]
  exact Perm.flatMap_right _ (((sortedNotes_perm notes).trans hp).trans (sortedNotes_perm notes').symm)

end perm

theorem all_perm {α : Type} (f : α → Bool) {l l' : List α} (h : l ~ l') : l.all f = l'.all f := by
  rw [Bool.eq_iff_iff, all_eq_true, all_eq_true]
  exact ⟨fun H x hx => H x (h.mem_iff.mpr hx), fun H x hx => H x (h.mem_iff.mp hx)⟩

theorem any_perm {α : Type} (f : α → Bool) {l l' : List α} (h : l ~ l') : l.any f = l'.any f := by
  rw [Bool.eq_iff_iff, any_eq_true, any_eq_true]
  exact ⟨fun ⟨x, hx, hf⟩ => ⟨x, h.mem_iff.mp hx, hf⟩, fun ⟨x, hx, hf⟩ => ⟨x, h.mem_iff.mpr hx, hf⟩⟩

/-! ### the structure of a successful `_make_pianoroll` -/

/-- the roll assembled when no check fails -/
def rollOf (o : Opts) (notes : List Note) (N : Int) : Roll :=
  { rows := if o.pianoRange then slicedRows (rowsFull o notes) else rowsFull o notes
    cols := N
    rowStart := rowStartOf o
    binary := o.binary
    fill := fillOf o notes
    idx := idxOf o notes }

theorem makePianoroll_eq_some (o : Opts) (notes : List Note) (r : Roll) :
    makePianoroll o notes = some r ↔
      notes ≠ [] ∧ (∀ n ∈ notes, 0 ≤ n.dur) ∧
      ∃ N, colsOf o notes = some N ∧
        (∀ e ∈ fillOf o notes, inBounds (rowsFull o notes) N e = true) ∧ r = rollOf o notes N := by
  unfold makePianoroll rollOf
  by_cases h1 : notes.isEmpty = true
  · have : notes = [] := isEmpty_iff.mp h1
    simp [this]
  · have hne : notes ≠ [] := fun h => h1 (isEmpty_iff.mpr h)
    rw [if_neg h1]
    by_cases h2 : (notes.any fun n => decide (n.dur < 0)) = true
    · rw [if_pos h2]
      simp only [reduceCtorEq, false_iff, not_and]
      intro _ hall
      rw [any_eq_true] at h2
      obtain ⟨n, hn, hd⟩ := h2
      have := hall n hn
      simp only [decide_eq_true_eq] at hd
      exact absurd this (not_le.mpr hd)
    · rw [if_neg h2]
      have hdur : ∀ n ∈ notes, 0 ≤ n.dur := by
        intro n hn
        by_contra hc
        apply h2
        rw [any_eq_true]
        exact ⟨n, hn, by simpa using hc⟩
      cases hc : colsOf o notes with
      | none => simp
      | some N =>
        simp only
        by_cases h3 : (fillOf o notes).all (inBounds (rowsFull o notes) N) = true
        · rw [if_pos h3]
          rw [all_eq_true] at h3
          constructor
          · intro h; exact ⟨hne, hdur, N, rfl, h3, (Option.some.inj h).symm⟩
          · rintro ⟨_, _, N', hN', _, hr⟩
            rw [Option.some.injEq] at hN'
            subst hN'
            rw [hr]
        · rw [if_neg h3]
          simp only [reduceCtorEq, false_iff, not_and, not_exists]
          intro _ _ N' hN' hb
          rw [Option.some.injEq] at hN'
          subst hN'
          exact absurd (all_eq_true.mpr hb) h3

theorem cell_congr (r r' : Roll) (h1 : r.rows = r'.rows) (h2 : r.cols = r'.cols)
    (h3 : r.rowStart = r'.rowStart) (h4 : r.binary = r'.binary)
    (h5 : ∀ p j, keyMax r.fill p j = keyMax r'.fill p j) : ∀ p j, r.cell p j = r'.cell p j := by
  intro p j
  unfold Roll.cell
  rw [h1, h2, h3, h4, h5]

/-- `pr_idx[idx.argsort()]` is the table of index rows in input order -/
theorem idxOf_eq (o : Opts) (notes : List Note) :
    PianoRoll.idxOf o notes = notes.map (idxRow o (lowestOf o notes) (t0Of o notes) (idxStartOf o)) := by
  unfold PianoRoll.idxOf
  exact unsort_sorted (idxRow o (lowestOf o notes) (t0Of o notes) (idxStartOf o)) notes

/-! ### the generated constants (Gen/C13Tables.lean) have the documented values -/

theorem tbl_lowest : Gen.C13_LOWEST_PITCH = 0 := by decide
theorem tbl_highest : Gen.C13_HIGHEST_PITCH = 127 := by decide
theorem tbl_piano_lo : Gen.C13_PIANO_LO = 21 := by decide
theorem tbl_piano_hi : Gen.C13_PIANO_HI = 109 := by decide
theorem tbl_idx_start : Gen.C13_IDX_START = 0 := by decide
theorem tbl_idx_start_piano : Gen.C13_IDX_START_PIANO = 21 := by decide
theorem tbl_drum : Gen.C13_DRUM_CHANNEL = 9 := by decide
theorem tbl_dec_shapes : Gen.C13_DEC_SHAPES = [(88, 21), (128, 0)] := by decide
theorem tbl_pc_rows : Gen.C13_PC_ROWS = 12 := by decide
theorem tbl_pc_span : Gen.C13_PC_SPAN = 128 := by decide
theorem tbl_pc_step : Gen.C13_PC_STEP = 12 := by decide
theorem tbl_pc_mod : Gen.C13_PC_MOD = 12 := by decide
theorem tbl_pc_slices : pcSlices = 11 := by decide

/-- the index rows are offset by the first row of the slice -/
theorem idxStartOf_eq (o : Opts) : idxStartOf o = rowStartOf o := by
  unfold idxStartOf rowStartOf
  rw [tbl_idx_start, tbl_idx_start_piano, tbl_piano_lo]

theorem slicedRows_eq (M : Int) : slicedRows M = (if M < 109 then M else 109) - (if M < 21 then M else 21) := by
  unfold slicedRows
  rw [tbl_piano_lo, tbl_piano_hi]

end C13
