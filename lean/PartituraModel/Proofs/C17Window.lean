/-
C17: the incremental chroma vectors of compute_chroma_vector_array are the pitch-class counts of
the window [j - K_pre, j + K_post) — hence non-negative and ≥ 1 at the note's own chroma when
K_post ≥ 1 — and the morph chosen by compute_morph_array is the morph some tonic chroma assigns.
-/
import PartituraModel.Proofs.C17Acc
import Mathlib.Data.List.Count
import Mathlib.Tactic.Linarith

namespace C17P
open Model Model.Ps13 Gen

/-- number of notes of chroma `c` among the first `k` -/
def cnt (ch : List Nat) (c k : Nat) : Int := ((ch.take k).count c : Int)

/-- count of chroma `c` in the window of note `j` -/
def win (ch : List Nat) (a b j c : Nat) : Int := cnt ch c (j + b) - cnt ch c (j - a)

theorem cnt_zero (ch : List Nat) (c : Nat) : cnt ch c 0 = 0 := by simp [cnt]

theorem cnt_succ (ch : List Nat) (c k : Nat) (hk : k < ch.length) :
    cnt ch c (k + 1) = cnt ch c k + (if ch[k] = c then 1 else 0) := by
  simp only [cnt, List.take_add_one, List.getElem?_eq_getElem hk, Option.toList_some, List.count_append,
    List.count_singleton]
  split <;> simp_all

theorem cnt_ge (ch : List Nat) (c k k' : Nat) (hk : ch.length ≤ k) (hk' : ch.length ≤ k') :
    cnt ch c k = cnt ch c k' := by
  simp only [cnt, List.take_of_length_le hk, List.take_of_length_le hk']

theorem cnt_mono (ch : List Nat) (c k k' : Nat) (h : k ≤ k') : cnt ch c k ≤ cnt ch c k' := by
  simp only [cnt]
  have : (ch.take k).Sublist (ch.take k') := by
    have e : ch.take k = (ch.take k').take k := by rw [List.take_take]; congr 1; omega
    rw [e]; exact List.take_sublist _ _
  exact_mod_cast this.count_le c

theorem foldl_bump (l : List Nat) : ∀ (v : CVec) (c : Nat),
    (l.foldl (fun v x => v.bump x 1) v).get c = v.get c + (l.count c : Int) := by
  induction l with
  | nil => intro v c; simp
  | cons x xs ih =>
    intro v c
    rw [List.foldl_cons, ih]
    simp only [CVec.bump, List.count_cons]
    by_cases h : c = x
    · subst h; simp; ring
    · have h' : ¬ (x == c) = true := by simpa using fun e => h e.symm
      simp [h, h']

theorem initVec_eq (ch : List Nat) (a b c : Nat) : (initVec ch b).get c = win ch a b 0 c := by
  simp only [initVec, foldl_bump, CVec.zero, win, cnt, Nat.zero_add, Nat.zero_sub, List.take_zero,
    List.count_nil]
  simp

theorem bumpAt_eq (ch : List Nat) (v : CVec) (k : Nat) (d : Int) (c : Nat) (hk : k < ch.length) :
    (bumpAt ch v k d).get c = v.get c + (if ch[k] = c then d else 0) := by
  simp only [bumpAt, List.getElem?_eq_getElem hk, CVec.bump]
  by_cases h : ch[k] = c
  · simp [h]
  · have : ¬ c = ch[k] := fun e => h e.symm
    simp [h, this]

theorem stepVec_eq (ch : List Nat) (a b : Nat) (v : CVec) (i : Nat) (hi1 : 1 ≤ i) (hin : i < ch.length)
    (hv : ∀ c, v.get c = win ch a b (i - 1) c) : ∀ c, (stepVec ch a b v i).get c = win ch a b i c := by
  intro c
  simp only [stepVec, win]
  have e1 : (if i + b ≤ ch.length then bumpAt ch v (i + b - 1) 1 else v).get c =
      cnt ch c (i + b) - cnt ch c (i - 1 - a) := by
    split
    · rename_i h
      rw [bumpAt_eq ch v _ 1 c (by omega), hv c]
      simp only [win]
      have := cnt_succ ch c (i + b - 1) (by omega)
      rw [show i + b - 1 + 1 = i + b by omega] at this
      rw [this, show i - 1 + b = i + b - 1 by omega]
      ring
    · rename_i h
      rw [hv c]
      simp only [win]
      rw [cnt_ge ch c (i - 1 + b) (i + b) (by omega) (by omega)]
  split
  · rename_i h
    rw [bumpAt_eq ch _ _ (-1) c (by omega), e1]
    have := cnt_succ ch c (i - a - 1) (by omega)
    rw [show i - a - 1 + 1 = i - a by omega] at this
    rw [this, show i - 1 - a = i - a - 1 by omega]
    split <;> ring
  · rename_i h
    rw [e1, show i - 1 - a = 0 by omega, show i - a = 0 by omega]

theorem vecLoop_eq (ch : List Nat) (a b : Nat) : ∀ (fuel i : Nat) (v : CVec), 1 ≤ i → i + fuel ≤ ch.length →
    (∀ c, v.get c = win ch a b (i - 1) c) →
    ∀ p, p < fuel → ∃ w, (vecLoop ch a b fuel i v)[p]? = some w ∧ ∀ c, w.get c = win ch a b (i + p) c := by
  intro fuel
  induction fuel with
  | zero => intro i v _ _ _ p hp; omega
  | succ n ih =>
    intro i v hi1 hin hv p hp
    have hstep := stepVec_eq ch a b v i hi1 (by omega) hv
    cases p with
    | zero => exact ⟨stepVec ch a b v i, by simp [vecLoop], by simpa using hstep⟩
    | succ q =>
      obtain ⟨w, hw, hc⟩ := ih (i + 1) (stepVec ch a b v i) (by omega) (by omega) (by simpa using hstep) q (by omega)
      refine ⟨w, by simpa [vecLoop] using hw, ?_⟩
      intro c; rw [hc c]; congr 1; omega

/-- `chroma_vector_array[j][c]` is the number of notes of chroma `c` in the window of note `j` -/
theorem chromaVectors_eq (ch : List Nat) (a b j : Nat) (hj : j < ch.length) :
    ∃ w, (chromaVectors ch a b)[j]? = some w ∧ ∀ c, w.get c = win ch a b j c := by
  cases j with
  | zero => exact ⟨initVec ch b, by simp [chromaVectors], fun c => initVec_eq ch a b c⟩
  | succ q =>
    obtain ⟨w, hw, hc⟩ := vecLoop_eq ch a b (ch.length - 1) 1 (initVec ch b) (by omega) (by omega)
      (fun c => by simpa using initVec_eq ch a b c) q (by omega)
    refine ⟨w, by simpa [chromaVectors] using hw, ?_⟩
    intro c; rw [hc c]; congr 1; omega

theorem win_nonneg (ch : List Nat) (a b j c : Nat) : 0 ≤ win ch a b j c := by
  have := cnt_mono ch c (j - a) (j + b) (by omega)
  simp only [win]; omega

theorem win_self (ch : List Nat) (a b j : Nat) (hb : 1 ≤ b) (hj : j < ch.length) :
    1 ≤ win ch a b j ch[j] := by
  have h1 := cnt_mono ch ch[j] (j - a) j (by omega)
  have h2 := cnt_mono ch ch[j] (j + 1) (j + b) (by omega)
  have h3 := cnt_succ ch ch[j] j hj
  simp only [if_true] at h3
  simp only [win]; omega

end C17P

namespace C17P
open Model Model.Ps13 Gen

-- ------------------------------------------------------------------ argmax of the morph strengths

theorem argBestAux_max (L : List Int) :
    ∀ (rest : List Int) (i bi : Nat) (bv : Int), L.drop i = rest → bi < i → L[bi]? = some bv →
      (∀ (k : Nat) (x : Int), k < i → L[k]? = some x → x ≤ bv) →
      ∃ m, L[argBestAux (fun a b => decide (a > b)) rest i bi bv]? = some m ∧ ∀ (k : Nat) (x : Int), L[k]? = some x → x ≤ m := by
  intro rest
  induction rest with
  | nil =>
    intro i bi bv hd _ hbv hle
    simp only [argBestAux]
    refine ⟨bv, hbv, ?_⟩
    intro k x hx
    have hlen : L.length ≤ i := by
      have := congrArg List.length hd; simp at this; omega
    have hk : k < L.length := by
      by_contra hc
      rw [List.getElem?_eq_none (by omega)] at hx; cases hx
    exact hle k x (by omega) hx
  | cons y rest' ih =>
    intro i bi bv hd hbi hbv hle
    have hi : i < L.length := by
      by_contra hc
      rw [List.drop_eq_nil_of_le (by omega)] at hd
      cases hd
    have hy : L[i]? = some y := by
      rw [List.drop_eq_getElem_cons hi] at hd
      rw [List.getElem?_eq_getElem hi, (List.cons.inj hd).1]
    have hd' : L.drop (i + 1) = rest' := by
      rw [List.drop_eq_getElem_cons hi] at hd; exact (List.cons.inj hd).2
    simp only [argBestAux]
    split
    · rename_i hb
      simp only [gt_iff_lt, decide_eq_true_eq] at hb
      apply ih (i + 1) i y hd' (by omega) hy
      intro k x hk hx
      rcases Nat.lt_succ_iff_lt_or_eq.mp hk with hk | hk
      · have := hle k x hk hx; omega
      · subst hk; rw [hy] at hx; cases hx; exact le_refl _
    · rename_i hb
      simp only [gt_iff_lt, decide_eq_true_eq, not_lt] at hb
      apply ih (i + 1) bi bv hd' (by omega) hbv
      intro k x hk hx
      rcases Nat.lt_succ_iff_lt_or_eq.mp hk with hk | hk
      · exact hle k x hk hx
      · subst hk; rw [hy] at hx; cases hx; exact hb

theorem sum_map_nonneg (v : Nat → Int) (hv : ∀ c, 0 ≤ v c) : ∀ l : List Nat, 0 ≤ (l.map v).sum := by
  intro l
  induction l with
  | nil => simp
  | cons a rest ih => simp only [List.map_cons, List.sum_cons]; have := hv a; omega

theorem sum_ge_of_mem (v : Nat → Int) (hv : ∀ c, 0 ≤ v c) : ∀ (l : List Nat) (x : Nat), x ∈ l → v x ≤ (l.map v).sum := by
  intro l
  induction l with
  | nil => intro x hx; simp at hx
  | cons a rest ih =>
    intro x hx
    simp only [List.map_cons, List.sum_cons]
    have hnn := sum_map_nonneg v hv rest
    rcases List.mem_cons.mp hx with h | h
    · subst h; omega
    · have := ih x h; have := hv a; omega

/-- the morph chosen for a note is the morph that SOME tonic chroma assigns to it, provided the
    note's own chroma is counted in its window -/
theorem morphOf_spec (c0 cj : Nat) (v : CVec) (hv : ∀ c, 0 ≤ v.get c) (hcj : cj < 12) (hself : 1 ≤ v.get cj) :
    ∃ ct : Nat, ct < 12 ∧ morphForTonic c0 cj ct = ((morphOf c0 cj v : Nat) : Int) := by
  let S : List Int := (List.range 7).map (strength c0 cj v)
  have hS : (strength c0 cj v 0 :: (List.range' 1 6).map (strength c0 cj v)) = S := rfl
  obtain ⟨m, hm, hmax⟩ := argBestAux_max S ((List.range' 1 6).map (strength c0 cj v)) 1 0 (strength c0 cj v 0)
    (by rw [← hS]; rfl) (by omega) (by rw [← hS]; rfl)
    (by
      intro k x hk hx
      have : k = 0 := by omega
      subst this
      rw [← hS] at hx
      simp only [List.getElem?_cons_zero, Option.some.injEq] at hx
      omega)
  have hr : morphOf c0 cj v = argBestAux (fun a b => decide (a > b)) ((List.range' 1 6).map (strength c0 cj v)) 1 0 (strength c0 cj v 0) := rfl
  rw [← hr] at hm
  have hrlt : morphOf c0 cj v < 7 := by
    by_contra hc
    rw [List.getElem?_eq_none (by simp [S]; omega)] at hm; cases hm
  have hmval : m = strength c0 cj v (morphOf c0 cj v) := by
    simp only [S, List.getElem?_map, List.getElem?_range hrlt, Option.map_some, Option.some.injEq] at hm
    exact hm.symm
  -- the morph that the note's own chroma, taken as tonic, assigns
  have hmj0 : 0 ≤ morphForTonic c0 cj cj := by simp only [morphForTonic]; omega
  have hmj7 : morphForTonic c0 cj cj < 7 := by simp only [morphForTonic]; omega
  have hmjmem : cj ∈ tonicSet c0 cj (morphForTonic c0 cj cj).toNat := by
    simp only [tonicSet, List.mem_filter, List.mem_range, decide_eq_true_eq]
    exact ⟨hcj, by omega⟩
  have h1 : v.get cj ≤ strength c0 cj v (morphForTonic c0 cj cj).toNat := sum_ge_of_mem v.get hv _ _ hmjmem
  have h2 : strength c0 cj v (morphForTonic c0 cj cj).toNat ≤ m := by
    apply hmax (morphForTonic c0 cj cj).toNat
    simp only [S, List.getElem?_map, List.getElem?_range (show (morphForTonic c0 cj cj).toNat < 7 by omega), Option.map_some]
  have hpos : 0 < strength c0 cj v (morphOf c0 cj v) := by rw [← hmval]; omega
  have hne : tonicSet c0 cj (morphOf c0 cj v) ≠ [] := by
    intro e
    simp only [strength, e, List.map_nil, List.sum_nil] at hpos
    omega
  obtain ⟨ct, hct⟩ := List.exists_mem_of_ne_nil _ hne
  simp only [tonicSet, List.mem_filter, List.mem_range, decide_eq_true_eq] at hct
  exact ⟨ct, hct.1, hct.2⟩

theorem alter_bound_core (c0 cj : Nat) (hc0 : c0 < 12) (hcj : cj < 12) (cp : Int) (hcp : cp % 12 = (cj : Int))
    (v : CVec) (hv : ∀ c, 0 ≤ v.get c) (hself : 1 ≤ v.get cj) :
    -2 ≤ (p2pn cp (morpheticPitch cp ((morphOf c0 cj v : Nat) : Int))).2.1 ∧
    (p2pn cp (morpheticPitch cp ((morphOf c0 cj v : Nat) : Int))).2.1 ≤ 2 := by
  obtain ⟨ct, hct, hmorph⟩ := morphOf_spec c0 cj v hv hcj hself
  have htab := acc_table ⟨c0, hc0⟩ ⟨cj, hcj⟩ ⟨ct, hct⟩
  simp only [] at htab
  rw [hmorph] at htab
  have hal := alterOf_shift cp ((morphOf c0 cj v : Nat) : Int)
  rw [hcp] at hal
  rw [← hal] at htab
  exact htab

/-- `compute_chroma_array` of the sorted rows -/
def chromaOf (sorted : List Row) : List Nat :=
  List.map (fun c : Int => (c % 12).toNat) (List.map (fun r : Row => r.2 - 21) sorted)

theorem chromaOf_length (sorted : List Row) : (chromaOf sorted).length = sorted.length := by
  simp [chromaOf]

theorem chromaOf_getElem (sorted : List Row) (k : Nat) (hk : k < sorted.length) :
    (chromaOf sorted)[k]'(by rw [chromaOf_length]; exact hk) = ((sorted[k].2 - 21) % 12).toNat := by
  simp [chromaOf]

theorem chromaOf_head (sorted : List Row) : (chromaOf sorted).headD 0 < 12 := by
  cases hch' : chromaOf sorted with
  | nil => simp
  | cons x xs =>
    simp only [List.headD_cons]
    have : x ∈ chromaOf sorted := by rw [hch']; exact List.mem_cons_self
    simp only [chromaOf, List.mem_map] at this
    obtain ⟨c, _, rfl⟩ := this
    omega

/-- K_post ≥ 1: every spelling of stage 1 carries at most a double accidental -/
theorem stage1_alter_bound (a b : Nat) (hb : 1 ≤ b) (sorted : List Row) :
    ∀ s ∈ stage1 a b sorted, -2 ≤ s.2.1 ∧ s.2.1 ≤ 2 := by
  intro s hs
  obtain ⟨k, hk, rfl⟩ := List.getElem_of_mem hs
  have hkn : k < sorted.length := by rw [stage1_length] at hk; exact hk
  have hkc : k < (chromaOf sorted).length := by rw [chromaOf_length]; exact hkn
  have hkv : k < (chromaVectors (chromaOf sorted) a b).length := by rw [chromaVectors_length]; omega
  have hform : (stage1 a b sorted)[k] =
      p2pn (sorted[k].2 - 21) (morpheticPitch (sorted[k].2 - 21)
        ((morphOf ((chromaOf sorted).headD 0) (((sorted[k].2 - 21) % 12).toNat)
          ((chromaVectors (chromaOf sorted) a b)[k]'hkv) : Nat) : Int)) := by
    simp only [stage1, morphArray, List.getElem_zipWith, List.getElem_map, chromaOf]
  rw [hform]
  obtain ⟨w, hw, hwin⟩ := chromaVectors_eq (chromaOf sorted) a b k hkc
  have hwk : (chromaVectors (chromaOf sorted) a b)[k]'hkv = w := by
    rw [List.getElem?_eq_getElem hkv] at hw
    exact Option.some.inj hw
  rw [hwk]
  have hself := win_self (chromaOf sorted) a b k hb hkc
  rw [chromaOf_getElem sorted k hkn, ← hwin] at hself
  exact alter_bound_core _ _ (chromaOf_head sorted) (by omega) (sorted[k].2 - 21) (by omega) w
    (fun c => by rw [hwin]; exact win_nonneg _ a b k c) hself

theorem ps13_mem_stage1 (a b : Nat) (notes : List Row) (sp : List (String × Int × Int))
    (h : ps13 a b notes = some sp) : ∀ s ∈ sp, s ∈ stage1 a b ((sortRows notes).map (·.1)) := by
  intro s hs
  have := (ps13_zip_perm a b notes sp h)
  have hlen := (ps13_spec a b notes sp h).1
  obtain ⟨k, hk, rfl⟩ := List.getElem_of_mem hs
  have hmem : (notes[k]'(by omega), sp[k]) ∈ notes.zip sp := by
    rw [List.mem_iff_getElem]
    exact ⟨k, by simp; omega, by simp⟩
  exact (List.of_mem_zip (this.subset hmem)).2

end C17P
