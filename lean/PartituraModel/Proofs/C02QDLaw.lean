/-
C02 helper lemmas (round 2): what `set_quarter_duration(t, q)` does to `quarter_duration_map`.
-/
import PartituraModel.Proofs.C02Hist

namespace C02Proofs
open Model.TimeMap

/-- when some change lies at or before `x`, the carried value does not matter -/
theorem prevValue_indep (c c' : Nat) (x : Rat) : ∀ (l : List (Int × Nat)), (l.map (·.1)).Pairwise (· < ·) →
    (∃ e ∈ l, (e.1 : Rat) ≤ x) → prevValue c l x = prevValue c' l x
  | [], _, h => by obtain ⟨e, he, _⟩ := h; simp at he
  | (t1, q1) :: r, hp, h => by
    have hp' := List.pairwise_cons.mp (by simpa using hp : (t1 :: r.map (·.1)).Pairwise (· < ·))
    have h1 : (t1 : Rat) ≤ x := by
      obtain ⟨e, he, hx⟩ := h
      rcases List.mem_cons.mp he with he | he
      · rw [he] at hx; exact hx
      · have : t1 < e.1 := hp'.1 e.1 (List.mem_map.mpr ⟨e, he, rfl⟩)
        have : (t1 : Rat) < (e.1 : Rat) := by exact_mod_cast this
        linarith
    simp only [prevValue, if_pos h1]

/-- the law below the head entry: `cur` is the value stored just before `l` -/
theorem setQDAux_law (t : Int) (q : Nat) (x : Rat) : ∀ (l : List (Int × Nat)) (cur : Nat),
    (l.map (·.1)).Pairwise (· < ·) →
    prevValue cur (setQDAux t q (some cur) l) x =
      if (t : Rat) ≤ x ∧ (∀ e ∈ l, t < e.1 → x < (e.1 : Rat)) then q else prevValue cur l x
  | [], cur, _ => by
    unfold setQDAux
    by_cases hc : cur = q
    · subst hc
      simp [prevValue]
    · have : ¬ (some cur = some q) := by simpa using hc
      rw [if_neg this]
      simp only [prevValue, List.not_mem_nil, false_imp_iff, implies_true, and_true]
  | (t0, q0) :: rest, cur, hp => by
    have hp' := List.pairwise_cons.mp (by simpa using hp : (t0 :: rest.map (·.1)).Pairwise (· < ·))
    have hgt : ∀ e ∈ rest, t0 < e.1 := fun e he => hp'.1 e.1 (List.mem_map.mpr ⟨e, he, rfl⟩)
    unfold setQDAux
    by_cases h1 : t0 < t
    · rw [if_pos h1]
      simp only [prevValue]
      have ih := setQDAux_law t q x rest q0 hp'.2
      by_cases hx : (t0 : Rat) ≤ x
      · rw [if_pos hx, if_pos hx, ih]
        have : (∀ e ∈ (t0, q0) :: rest, t < e.1 → x < (e.1 : Rat)) ↔ (∀ e ∈ rest, t < e.1 → x < (e.1 : Rat)) := by
          constructor
          · intro h e he; exact h e (List.mem_cons_of_mem _ he)
          · intro h e he
            rcases List.mem_cons.mp he with he | he
            · intro hlt; rw [he] at hlt; simp only at hlt; omega
            · exact h e he
        simp only [this]
      · rw [if_neg hx, if_neg hx]
        have : ¬ ((t : Rat) ≤ x) := by
          have : (t0 : Rat) < (t : Rat) := by exact_mod_cast h1
          intro h; linarith
        rw [if_neg (fun h => this h.1)]
    · rw [if_neg h1]
      by_cases h2 : t0 = t
      · rw [if_pos h2]
        subst h2
        simp only [prevValue]
        by_cases hx : (t0 : Rat) ≤ x
        · rw [if_pos hx, if_pos hx]
          by_cases hall : ∀ e ∈ rest, x < (e.1 : Rat)
          · have hc : (t0 : Rat) ≤ x ∧ (∀ e ∈ (t0, q0) :: rest, t0 < e.1 → x < (e.1 : Rat)) := by
              refine ⟨hx, ?_⟩
              intro e he hlt
              rcases List.mem_cons.mp he with he | he
              · rw [he] at hlt; simp at hlt
              · exact hall e he
            rw [if_pos hc, prevValue_before q x rest hall]
          · have hc : ¬ ((t0 : Rat) ≤ x ∧ (∀ e ∈ (t0, q0) :: rest, t0 < e.1 → x < (e.1 : Rat))) := by
              intro h
              apply hall
              intro e he
              exact h.2 e (List.mem_cons_of_mem _ he) (hgt e he)
            rw [if_neg hc]
            apply prevValue_indep q q0 x rest hp'.2
            by_contra hne
            apply hall
            intro e he
            by_contra hnl
            exact hne ⟨e, he, not_lt.mp hnl⟩
        · rw [if_neg hx, if_neg hx, if_neg (fun h => hx h.1)]
      · rw [if_neg h2]
        have h3 : t < t0 := by omega
        have h3' : (t : Rat) < (t0 : Rat) := by exact_mod_cast h3
        have hall_gt : ∀ e ∈ (t0, q0) :: rest, t < e.1 := by
          intro e he
          rcases List.mem_cons.mp he with he | he
          · rw [he]; exact h3
          · have := hgt e he; omega
        by_cases hc : cur = q
        · subst hc
          rw [if_pos rfl]
          by_cases hcond : (t : Rat) ≤ x ∧ (∀ e ∈ (t0, q0) :: rest, t < e.1 → x < (e.1 : Rat))
          · rw [if_pos hcond]
            exact prevValue_before cur x _ (fun e he => hcond.2 e he (hall_gt e he))
          · rw [if_neg hcond]
        · have : ¬ (some cur = some q) := by simpa using hc
          rw [if_neg this]
          by_cases hx : (t : Rat) ≤ x
          · have e1 : prevValue cur ((t, q) :: (t0, q0) :: rest) x = prevValue q ((t0, q0) :: rest) x := by
              conv_lhs => unfold prevValue
              rw [if_pos hx]
            rw [e1]
            by_cases hall : ∀ e ∈ (t0, q0) :: rest, x < (e.1 : Rat)
            · rw [if_pos ⟨hx, fun e he _ => hall e he⟩, prevValue_before q x _ hall]
            · have hcond : ¬ ((t : Rat) ≤ x ∧ (∀ e ∈ (t0, q0) :: rest, t < e.1 → x < (e.1 : Rat))) := by
                intro h
                exact hall (fun e he => h.2 e he (hall_gt e he))
              rw [if_neg hcond]
              apply prevValue_indep q cur x _ hp
              by_contra hne
              apply hall
              intro e he
              by_contra hnl
              exact hne ⟨e, he, not_lt.mp hnl⟩
          · have e1 : prevValue cur ((t, q) :: (t0, q0) :: rest) x = cur := by
              conv_lhs => unfold prevValue
              rw [if_neg hx]
            rw [e1, if_neg (fun h => hx h.1)]
            have hx0 : ¬ ((t0 : Rat) ≤ x) := by intro h; linarith [not_le.mp hx]
            simp only [prevValue, if_neg hx0]

end C02Proofs
