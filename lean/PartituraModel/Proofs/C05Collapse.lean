/-
Helper lemmas for C05 (round 2): `collapse_rests` / `rec_collapse_rests` (Model/NoteArray.lean:
`absorbS`, `absorbAll`, `visitRow`, `passS`, `collapsePass`, `recCollapse`).
-/
import PartituraModel.Model.NoteArray
import Mathlib.Algebra.Order.Field.Rat
import Mathlib.Algebra.BigOperators.Group.List.Basic
import Mathlib.Tactic.Linarith

namespace NoteArray
open List

/-- a row without its three durations -/
def core (r : Row) : Row := { r with durBeat := 0, durDiv := 0, durQuarter := 0 }

/-- the key rows are absorbed by -/
def rkey (r : Row) : Int × Int := (r.onsetDiv, r.voice)

theorem hits_iff (t : Int) (v : Int) (x : Row) : hits t v x = true ↔ rkey x = (t, v) := by
  unfold hits rkey
  simp only [Bool.and_eq_true, decide_eq_true_eq, Prod.mk.injEq]

theorem core_absorbS (store : Rat → Rat) (acc x : Row) : core (absorbS store acc x) = core acc := rfl

theorem absorbS_onset (store : Rat → Rat) (acc x : Row) : (absorbS store acc x).onsetDiv = acc.onsetDiv := rfl
theorem absorbS_voice (store : Rat → Rat) (acc x : Row) : (absorbS store acc x).voice = acc.voice := rfl

theorem core_absorbAll (store : Rat → Rat) (t : Int) (v : Int) : ∀ (l : List Row) (acc : Row),
    core (absorbAll store t v acc l) = core acc := by
  intro l
  induction l with
  | nil => intro acc; rfl
  | cons x l ih =>
    intro acc
    rw [absorbAll, ih]
    split
    · rfl
    · rfl

theorem core_visitRow (store : Rat → Rat) (pre : List (Row × Bool)) (c : Row) (post : List Row) :
    core (visitRow store pre c post).1 = core c := by
  unfold visitRow
  simp only
  rw [core_absorbAll]
  split
  · rw [core_absorbS, core_absorbAll]
  · rw [core_absorbAll]

theorem core_onset (a b : Row) (h : core a = core b) : a.onsetDiv = b.onsetDiv ∧ a.voice = b.voice ∧ a.id = b.id := by
  have h1 := congrArg Row.onsetDiv h
  have h2 := congrArg Row.voice h
  have h3 := congrArg Row.id h
  exact ⟨h1, h2, h3⟩

/-- a pass keeps every row's place and everything but its durations -/
theorem passS_core (store : Rat → Rat) : ∀ (post : List Row) (pre : List (Row × Bool)) (tg : List (Int × Int)),
    (passS store pre tg post).1.map (fun x => core x.1) = pre.map (fun x => core x.1) ++ post.map core := by
  intro post
  induction post with
  | nil => intro pre tg; simp [passS]
  | cons c post ih =>
    intro pre tg
    rw [passS]
    split
    · rw [ih]; simp
    · simp only
      rw [ih]
      simp [core_visitRow]

theorem collapsePass_sublist (store : Rat → Rat) (rows : List Row) :
    ((collapsePass store rows).1.map core).Sublist (rows.map core) := by
  unfold collapsePass
  simp only
  have h := passS_core store rows [] []
  simp only [map_nil, nil_append] at h
  rw [← h, map_map]
  have : (map (core ∘ fun x => x.1) (filter (fun x => x.2) (passS store [] [] rows).1)) =
      (filter (fun x => x.2) (passS store [] [] rows).1).map (fun x => core x.1) := rfl
  rw [this]
  exact (filter_sublist).map _

theorem recCollapse_sublist (store : Rat → Rat) : ∀ (fuel : Nat) (rows : List Row),
    ((recCollapse store fuel rows).map core).Sublist (rows.map core) := by
  intro fuel
  induction fuel with
  | zero => intro rows; exact Sublist.refl _
  | succ n ih =>
    intro rows
    rw [recCollapse]
    split
    · exact (ih _).trans (collapsePass_sublist store rows)
    · exact collapsePass_sublist store rows

-- ------------------------------------------------------------------ what a pass does to the durations

theorem absorbAll_onset (store : Rat → Rat) (t : Int) (v : Int) (l : List Row) (acc : Row) :
    (absorbAll store t v acc l).onsetDiv = acc.onsetDiv :=
  (core_onset _ _ (core_absorbAll store t v l acc)).1

theorem absorbAll_voice (store : Rat → Rat) (t : Int) (v : Int) (l : List Row) (acc : Row) :
    (absorbAll store t v acc l).voice = acc.voice :=
  (core_onset _ _ (core_absorbAll store t v l acc)).2.1

section Measure
variable {A : Type} [AddCommMonoid A]

/-- the measure of an absorbed row is the measure of the row plus the measures of what it absorbed -/
theorem absorbAll_measure (store : Rat → Rat) (μ : Row → A)
    (hμ : ∀ acc x, μ (absorbS store acc x) = μ acc + μ x) (t : Int) (v : Int) :
    ∀ (l : List Row) (acc : Row),
      μ (absorbAll store t v acc l) = μ acc + ((l.filter (hits t v)).map μ).sum := by
  intro l
  induction l with
  | nil => intro acc; simp [absorbAll]
  | cons x l ih =>
    intro acc
    rw [absorbAll, ih]
    by_cases hx : hits t v x = true
    · rw [if_pos hx, filter_cons_of_pos hx, map_cons, sum_cons, hμ, add_assoc]
    · rw [if_neg hx, filter_cons_of_neg hx]

theorem absorbAll_none (store : Rat → Rat) (t : Int) (v : Int) : ∀ (l : List Row) (acc : Row),
    (∀ x ∈ l, hits t v x = false) → absorbAll store t v acc l = acc := by
  intro l
  induction l with
  | nil => intro acc _; rfl
  | cons x l ih =>
    intro acc h
    rw [absorbAll, h x mem_cons_self]
    simp only [Bool.false_eq_true, if_false]
    exact ih acc (fun y hy => h y (mem_cons_of_mem _ hy))

/-- the part of a measure that belongs to voice `v` -/
def wv (μ : Row → A) (v : Int) (r : Row) : A := if r.voice = v then μ r else 0

def sumW (μ : Row → A) (v : Int) (l : List Row) : A := (l.map (wv μ v)).sum

/-- not yet absorbed: the key has not been looked for and found -/
def alive (tg : List (Int × Int)) (r : Row) : Bool := !(tg.contains (rkey r))

/-- the rows a pass has put into its output so far -/
def emitted (pre : List (Row × Bool)) : List Row := (pre.filter (·.2)).map (·.1)

theorem emitted_append (pre : List (Row × Bool)) (x : Row × Bool) :
    emitted (pre ++ [x]) = emitted pre ++ (if x.2 then [x.1] else []) := by
  unfold emitted
  rw [filter_append, map_append]
  congr 1
  cases hx : x.2 <;> simp [hx]

theorem sumW_append (μ : Row → A) (v : Int) (a b : List Row) : sumW μ v (a ++ b) = sumW μ v a + sumW μ v b := by
  unfold sumW; rw [map_append, sum_append]

theorem sumW_nil (μ : Row → A) (v : Int) : sumW μ v [] = 0 := rfl
theorem sumW_single (μ : Row → A) (v : Int) (r : Row) : sumW μ v [r] = wv μ v r := by
  unfold sumW; simp

/-- the conditions under which a pass is a plain left-to-right scan: rows ordered by (stored) onset, every
    row ends (stored) after it starts, rows of one voice do not overlap; `pre` / `tg` relate to what is left -/
structure Clean (pre : List (Row × Bool)) (tg : List (Int × Int)) (post : List Row) : Prop where
  pre_le : ∀ x ∈ pre, ∀ c ∈ post, x.1.onsetDiv ≤ c.onsetDiv
  sorted : post.Pairwise (fun a b => a.onsetDiv ≤ b.onsetDiv)
  pos : ∀ c ∈ post, c.onsetDiv < c.onsetDiv + c.durDiv
  apart : post.Pairwise (fun a b => a.voice = b.voice → a.onsetDiv + a.durDiv ≤ b.onsetDiv)
  tg_le : ∀ k ∈ tg, ∀ c ∈ post, c.voice = k.2 → k.1 ≤ c.onsetDiv

theorem Clean.fresh {pre : List (Row × Bool)} {tg : List (Int × Int)} {c : Row} {post : List Row}
    (h : Clean pre tg (c :: post)) : (c.onsetDiv + c.durDiv, c.voice) ∉ tg := by
  intro hk
  have h1 := h.tg_le _ hk c mem_cons_self rfl
  have h2 := h.pos c mem_cons_self
  exact absurd h1 (not_le.mpr h2)

/-- under `Clean` nothing before the row and not the row itself starts where it ends -/
theorem visitRow_clean {pre : List (Row × Bool)} {tg : List (Int × Int)} {c : Row} {post : List Row}
    (h : Clean pre tg (c :: post)) :
    visitRow store pre c post =
      (absorbAll store (c.onsetDiv + c.durDiv) c.voice c post,
       post.any (hits (c.onsetDiv + c.durDiv) c.voice)) := by
  have hpos := h.pos c mem_cons_self
  have hpre : ∀ x ∈ pre.map (·.1), hits (c.onsetDiv + c.durDiv) c.voice x = false := by
    intro x hx
    obtain ⟨y, hy, rfl⟩ := mem_map.mp hx
    have := h.pre_le y hy c mem_cons_self
    unfold hits
    have hne : y.1.onsetDiv ≠ c.onsetDiv + c.durDiv := ne_of_lt (lt_of_le_of_lt this hpos)
    simp [hne]
  have hself : hits (c.onsetDiv + c.durDiv) c.voice c = false := by
    unfold hits
    simp [ne_of_lt hpos]
  have hany : (pre.any fun x => hits (c.onsetDiv + c.durDiv) c.voice x.1) = false := by
    rw [any_eq_false]
    intro x hx
    rw [hpre x.1 (mem_map_of_mem hx)]
    simp
  unfold visitRow
  simp only [absorbAll_none store _ _ _ c hpre, hself, hany, Bool.false_eq_true, if_false, Bool.false_or]

theorem Clean.skip {pre : List (Row × Bool)} {tg : List (Int × Int)} {c : Row} {post : List Row}
    (h : Clean pre tg (c :: post)) (x : Row × Bool) (hx : x.1.onsetDiv = c.onsetDiv) :
    Clean (pre ++ [x]) tg post where
  pre_le := by
    intro y hy d hd
    rcases mem_append.mp hy with hy | hy
    · exact h.pre_le y hy d (mem_cons_of_mem _ hd)
    · rw [mem_singleton.mp hy, hx]
      exact (pairwise_cons.mp h.sorted).1 d hd
  sorted := (pairwise_cons.mp h.sorted).2
  pos := fun d hd => h.pos d (mem_cons_of_mem _ hd)
  apart := (pairwise_cons.mp h.apart).2
  tg_le := fun k hk d hd => h.tg_le k hk d (mem_cons_of_mem _ hd)

theorem Clean.visit {pre : List (Row × Bool)} {tg : List (Int × Int)} {c : Row} {post : List Row}
    (h : Clean pre tg (c :: post)) (x : Row × Bool) (hx : x.1.onsetDiv = c.onsetDiv) :
    Clean (pre ++ [x]) ((c.onsetDiv + c.durDiv, c.voice) :: tg) post :=
  { h.skip x hx with
    tg_le := by
      intro k hk d hd hv
      rcases mem_cons.mp hk with rfl | hk
      · exact (pairwise_cons.mp h.apart).1 d hd hv.symm
      · exact h.tg_le k hk d (mem_cons_of_mem _ hd) hv }

/-- adding a key that was not there: the rows with that key leave the living ones -/
theorem alive_split (μ : Row → A) (v : Int) (tg : List (Int × Int)) (k : Int × Int) (hk : k ∉ tg) :
    ∀ post : List Row,
      sumW μ v (post.filter (alive (k :: tg))) + sumW μ v (post.filter (fun x => hits k.1 k.2 x)) =
        sumW μ v (post.filter (alive tg)) := by
  intro post
  induction post with
  | nil => simp [sumW_nil]
  | cons x post ih =>
    by_cases hx : rkey x = k
    · have h1 : alive (k :: tg) x = false := by
        unfold alive; simp [hx]
      have h2 : alive tg x = true := by
        unfold alive; rw [hx]; simpa using hk
      have h3 : hits k.1 k.2 x = true := (hits_iff _ _ _).mpr hx
      have e1 : filter (alive (k :: tg)) (x :: post) = filter (alive (k :: tg)) post :=
        filter_cons_of_neg (by rw [h1]; simp)
      have e2 : filter (alive tg) (x :: post) = [x] ++ filter (alive tg) post := filter_cons_of_pos h2
      have e3 : filter (fun x => hits k.1 k.2 x) (x :: post) = [x] ++ filter (fun x => hits k.1 k.2 x) post :=
        filter_cons_of_pos h3
      rw [e1, e2, e3, sumW_append, sumW_append, ← ih]
      rw [add_left_comm]
    · have h3 : hits k.1 k.2 x = false := by
        cases hh : hits k.1 k.2 x
        · rfl
        · exact absurd ((hits_iff _ _ _).mp hh) hx
      have h12 : alive (k :: tg) x = alive tg x := by
        unfold alive
        have : (rkey x == k) = false := by simpa using hx
        rw [List.contains_cons, this, Bool.false_or]
      have e3 : filter (fun x => hits k.1 k.2 x) (x :: post) = filter (fun x => hits k.1 k.2 x) post :=
        filter_cons_of_neg (by rw [h3]; simp)
      rw [e3]
      cases ha : alive tg x
      · have e1 : filter (alive (k :: tg)) (x :: post) = filter (alive (k :: tg)) post :=
          filter_cons_of_neg (by rw [h12, ha]; simp)
        have e2 : filter (alive tg) (x :: post) = filter (alive tg) post :=
          filter_cons_of_neg (by rw [ha]; simp)
        rw [e1, e2]
        exact ih
      · have e1 : filter (alive (k :: tg)) (x :: post) = [x] ++ filter (alive (k :: tg)) post :=
          filter_cons_of_pos (by rw [h12, ha])
        have e2 : filter (alive tg) (x :: post) = [x] ++ filter (alive tg) post :=
          filter_cons_of_pos ha
        rw [e1, e2, sumW_append, sumW_append, add_assoc, ih]

theorem sumW_hits (μ : Row → A) (v : Int) (t : Int) (vc : Int) (l : List Row) :
    sumW μ v (l.filter (hits t vc)) = if vc = v then ((l.filter (hits t vc)).map μ).sum else 0 := by
  induction l with
  | nil => simp [sumW_nil]
  | cons x l ih =>
    by_cases hx : hits t vc x = true
    · rw [filter_cons_of_pos hx, show x :: filter (hits t vc) l = [x] ++ filter (hits t vc) l from rfl,
        sumW_append, ih, sumW_single]
      have hv : x.voice = vc := by
        have := (hits_iff _ _ _).mp hx
        exact (Prod.mk.inj this).2
      unfold wv
      rw [hv]
      split
      · simp
      · simp
    · rw [filter_cons_of_neg hx]
      exact ih

/-- **one clean pass moves durations, it does not create or lose any**: what is in the output plus what
    is still waiting (and alive) is constant -/
theorem passS_total (store : Rat → Rat) (μ : Row → A) (hμ : ∀ acc x, μ (absorbS store acc x) = μ acc + μ x)
    (v : Int) : ∀ (post : List Row) (pre : List (Row × Bool)) (tg : List (Int × Int)),
      Clean pre tg post →
      sumW μ v (emitted (passS store pre tg post).1) =
        sumW μ v (emitted pre) + sumW μ v (post.filter (alive tg)) := by
  intro post
  induction post with
  | nil => intro pre tg _; simp [passS, sumW_nil]
  | cons c post ih =>
    intro pre tg h
    rw [passS]
    by_cases hd : tg.contains (c.onsetDiv, c.voice) = true
    · rw [if_pos hd, ih _ _ (h.skip (c, false) rfl), emitted_append]
      have : alive tg c = false := by unfold alive rkey; rw [hd]; rfl
      rw [filter_cons_of_neg (by simp [this])]
      simp
    · rw [if_neg hd]
      simp only
      rw [visitRow_clean h]
      simp only
      have hal : alive tg c = true := by
        unfold alive rkey
        simpa using hd
      rw [filter_cons_of_pos hal]
      have hfresh := h.fresh
      have honset : (absorbAll store (c.onsetDiv + c.durDiv) c.voice c post).onsetDiv = c.onsetDiv :=
        absorbAll_onset ..
      have hacc : wv μ v (absorbAll store (c.onsetDiv + c.durDiv) c.voice c post) =
          wv μ v c + sumW μ v (post.filter (hits (c.onsetDiv + c.durDiv) c.voice)) := by
        unfold wv
        rw [absorbAll_voice, sumW_hits, absorbAll_measure store μ hμ]
        split
        · rfl
        · simp
      by_cases hany : post.any (hits (c.onsetDiv + c.durDiv) c.voice) = true
      · rw [if_pos hany, ih _ _ (h.visit (_, true) honset), emitted_append]
        simp only [if_true]
        rw [sumW_append, sumW_single, hacc]
        have hs := alive_split μ v tg _ hfresh post
        simp only at hs
        rw [show c :: filter (alive tg) post = [c] ++ filter (alive tg) post from rfl, sumW_append, sumW_single, ← hs]
        simp only [add_assoc]
        congr 1
        congr 1
        rw [add_comm]
      · rw [if_neg hany, ih _ _ (h.skip (_, true) honset), emitted_append]
        simp only [if_true]
        rw [sumW_append, sumW_single, hacc]
        have hnone : post.filter (hits (c.onsetDiv + c.durDiv) c.voice) = [] := by
          rw [filter_eq_nil_iff]
          intro x hx hh
          exact hany (any_eq_true.mpr ⟨x, hx, hh⟩)
        rw [hnone, sumW_nil, add_zero]
        rw [show c :: filter (alive tg) post = [c] ++ filter (alive tg) post from rfl, sumW_append, sumW_single]
        rw [add_assoc]

theorem filter_alive_nil (l : List Row) : l.filter (alive []) = l := by
  rw [filter_eq_self]
  intro x _
  rfl

/-- a table on which a pass is a plain scan -/
def CleanTable (rows : List Row) : Prop := Clean [] [] rows

theorem collapsePass_total (store : Rat → Rat) (μ : Row → A) (hμ : ∀ acc x, μ (absorbS store acc x) = μ acc + μ x)
    (v : Int) (rows : List Row) (h : CleanTable rows) :
    sumW μ v (collapsePass store rows).1 = sumW μ v rows := by
  have := passS_total store μ hμ v rows [] [] h
  rw [filter_alive_nil] at this
  unfold collapsePass
  simp only
  rw [show (filter (fun x => x.2) (passS store [] [] rows).1).map (fun x => x.1) = emitted (passS store [] [] rows).1 from rfl,
    this]
  simp [emitted, sumW_nil]

end Measure

-- ------------------------------------------------------------------ a clean table stays clean (whatever the float rounding)

theorem mem_emitted {pre : List (Row × Bool)} {a : Row} (h : a ∈ emitted pre) : (a, true) ∈ pre := by
  unfold emitted at h
  obtain ⟨x, hx, rfl⟩ := mem_map.mp h
  obtain ⟨hx1, hx2⟩ := mem_filter.mp hx
  have : x = (x.1, true) := by
    cases x with
    | mk r b => simp at hx2; simp [hx2]
  rw [← this]; exact hx1

theorem absorbAll_durDiv (store : Rat → Rat) (t : Int) (v : Int) (l : List Row) (acc : Row) :
    (absorbAll store t v acc l).durDiv = acc.durDiv + ((l.filter (hits t v)).map (·.durDiv)).sum :=
  absorbAll_measure store (·.durDiv) (fun _ _ => rfl) t v l acc

/-- under `Clean` at most one of the waiting rows starts where the row ends -/
theorem hits_unique {pre : List (Row × Bool)} {tg : List (Int × Int)} {c : Row} {post : List Row}
    (h : Clean pre tg (c :: post)) :
    post.filter (hits (c.onsetDiv + c.durDiv) c.voice) = [] ∨
    ∃ x ∈ post, hits (c.onsetDiv + c.durDiv) c.voice x = true ∧
      post.filter (hits (c.onsetDiv + c.durDiv) c.voice) = [x] := by
  have hap : (post.filter (hits (c.onsetDiv + c.durDiv) c.voice)).Pairwise
      (fun a b => a.voice = b.voice → a.onsetDiv + a.durDiv ≤ b.onsetDiv) :=
    (pairwise_cons.mp h.apart).2.sublist filter_sublist
  cases hf : post.filter (hits (c.onsetDiv + c.durDiv) c.voice) with
  | nil => exact Or.inl rfl
  | cons x rest =>
    have hx : x ∈ post.filter (hits (c.onsetDiv + c.durDiv) c.voice) := by rw [hf]; exact mem_cons_self
    obtain ⟨hxp, hxh⟩ := mem_filter.mp hx
    cases rest with
    | nil => exact Or.inr ⟨x, hxp, hxh, rfl⟩
    | cons y rest =>
      exfalso
      have hy : y ∈ post.filter (hits (c.onsetDiv + c.durDiv) c.voice) := by
        rw [hf]; exact mem_cons_of_mem _ mem_cons_self
      obtain ⟨hyp, hyh⟩ := mem_filter.mp hy
      rw [hf] at hap
      have hxy := (pairwise_cons.mp hap).1 y mem_cons_self
      have kx := (hits_iff _ _ _).mp hxh
      have ky := (hits_iff _ _ _).mp hyh
      unfold rkey at kx ky
      obtain ⟨kx1, kx2⟩ := Prod.mk.inj kx
      obtain ⟨ky1, ky2⟩ := Prod.mk.inj ky
      have := hxy (by rw [kx2, ky2])
      have hpos := h.pos x (mem_cons_of_mem _ hxp)
      rw [ky1, ← kx1] at this
      exact absurd this (not_le.mpr hpos)

/-- two different rows of a list with a pairwise relation are related one way or the other -/
theorem pairwise_either {α : Type} {R : α → α → Prop} {l : List α} (h : l.Pairwise R) {a b : α}
    (ha : a ∈ l) (hb : b ∈ l) (hne : a ≠ b) : R a b ∨ R b a := by
  induction l with
  | nil => cases ha
  | cons x l ih =>
    obtain ⟨hx, hl⟩ := pairwise_cons.mp h
    rcases mem_cons.mp ha with rfl | ha' <;> rcases mem_cons.mp hb with rfl | hb'
    · exact absurd rfl hne
    · exact Or.inl (hx b hb')
    · exact Or.inr (hx a ha')
    · exact ih hl ha' hb'

/-- what a pass has put out so far is itself clean, and ends before whatever is still alive in its voice -/
structure Good (pre : List (Row × Bool)) (tg : List (Int × Int)) (post : List Row) : Prop where
  clean : Clean pre tg post
  k1 : (emitted pre).Pairwise (fun a b => a.onsetDiv ≤ b.onsetDiv)
  k2 : ∀ a ∈ emitted pre, a.onsetDiv < a.onsetDiv + a.durDiv
  k3 : (emitted pre).Pairwise (fun a b => a.voice = b.voice → a.onsetDiv + a.durDiv ≤ b.onsetDiv)
  j : ∀ a ∈ emitted pre, ∀ b ∈ post, alive tg b = true → a.voice = b.voice → a.onsetDiv + a.durDiv ≤ b.onsetDiv

theorem alive_of_alive_cons {k : Int × Int} {tg : List (Int × Int)} {b : Row} (h : alive (k :: tg) b = true) :
    alive tg b = true ∧ rkey b ≠ k := by
  unfold alive at h ⊢
  rw [List.contains_cons] at h
  simp only [Bool.not_eq_true', Bool.or_eq_false_iff, beq_eq_false_iff_ne, ne_eq] at h
  exact ⟨by rw [h.2]; rfl, h.1⟩

theorem passS_good (store : Rat → Rat) : ∀ (post : List Row) (pre : List (Row × Bool)) (tg : List (Int × Int)),
    Good pre tg post → Good (passS store pre tg post).1 (passS store pre tg post).2 [] := by
  intro post
  induction post with
  | nil => intro pre tg h; simpa [passS] using h
  | cons c post ih =>
    intro pre tg h
    rw [passS]
    by_cases hd : tg.contains (c.onsetDiv, c.voice) = true
    · rw [if_pos hd]
      apply ih
      have he : emitted (pre ++ [(c, false)]) = emitted pre := by rw [emitted_append]; simp
      exact { clean := h.clean.skip (c, false) rfl
              k1 := by rw [he]; exact h.k1
              k2 := by rw [he]; exact h.k2
              k3 := by rw [he]; exact h.k3
              j := by rw [he]; exact fun a ha b hb => h.j a ha b (mem_cons_of_mem _ hb) }
    · rw [if_neg hd]
      simp only
      rw [visitRow_clean h.clean]
      have hal : alive tg c = true := by
        unfold alive rkey
        simpa using hd
      -- the new row
      have honset : (absorbAll store (c.onsetDiv + c.durDiv) c.voice c post).onsetDiv = c.onsetDiv :=
        absorbAll_onset ..
      have hvoice : (absorbAll store (c.onsetDiv + c.durDiv) c.voice c post).voice = c.voice :=
        absorbAll_voice ..
      have hdur := absorbAll_durDiv store (c.onsetDiv + c.durDiv) c.voice post c
      have hcpos : c.onsetDiv < c.onsetDiv + c.durDiv := h.clean.pos c mem_cons_self
      have hhead := pairwise_cons.mp h.clean.apart
      have hsorted := pairwise_cons.mp h.clean.sorted
      have he : emitted (pre ++ [(absorbAll store (c.onsetDiv + c.durDiv) c.voice c post, true)]) =
          emitted pre ++ [absorbAll store (c.onsetDiv + c.durDiv) c.voice c post] := by
        rw [emitted_append]; simp
      -- its end, by the number of absorbed rows
      have hend : (post.filter (hits (c.onsetDiv + c.durDiv) c.voice) = [] ∧
            (absorbAll store (c.onsetDiv + c.durDiv) c.voice c post).durDiv = c.durDiv) ∨
          (∃ x ∈ post, hits (c.onsetDiv + c.durDiv) c.voice x = true ∧
            (absorbAll store (c.onsetDiv + c.durDiv) c.voice c post).durDiv = c.durDiv + x.durDiv) := by
        rcases hits_unique h.clean with hn | ⟨x, hx, hxh, hf⟩
        · left; refine ⟨hn, ?_⟩; rw [hdur, hn]; simp
        · right; refine ⟨x, hx, hxh, ?_⟩; rw [hdur, hf]; simp
      have hdurpos : c.durDiv ≤ (absorbAll store (c.onsetDiv + c.durDiv) c.voice c post).durDiv := by
        rcases hend with ⟨_, e⟩ | ⟨x, hx, _, e⟩
        · rw [e]
        · rw [e]
          have := h.clean.pos x (mem_cons_of_mem _ hx)
          omega
      have hk1 : (emitted pre ++ [absorbAll store (c.onsetDiv + c.durDiv) c.voice c post]).Pairwise
          (fun a b => a.onsetDiv ≤ b.onsetDiv) := by
        rw [pairwise_append]
        refine ⟨h.k1, pairwise_singleton _ _, ?_⟩
        intro a ha b hb
        rw [mem_singleton.mp hb, honset]
        exact h.clean.pre_le _ (mem_emitted ha) c mem_cons_self
      have hk2 : ∀ a ∈ emitted pre ++ [absorbAll store (c.onsetDiv + c.durDiv) c.voice c post],
          a.onsetDiv < a.onsetDiv + a.durDiv := by
        intro a ha
        rcases mem_append.mp ha with ha | ha
        · exact h.k2 a ha
        · rw [mem_singleton.mp ha, honset]
          omega
      have hk3 : (emitted pre ++ [absorbAll store (c.onsetDiv + c.durDiv) c.voice c post]).Pairwise
          (fun a b => a.voice = b.voice → a.onsetDiv + a.durDiv ≤ b.onsetDiv) := by
        rw [pairwise_append]
        refine ⟨h.k3, pairwise_singleton _ _, ?_⟩
        intro a ha b hb
        rw [mem_singleton.mp hb, honset, hvoice]
        exact h.j a ha c mem_cons_self hal
      -- the new row ends before every row of its voice that is still waiting and not absorbed by it
      have hjnew : ∀ b ∈ post, hits (c.onsetDiv + c.durDiv) c.voice b = false → c.voice = b.voice →
          c.onsetDiv + (absorbAll store (c.onsetDiv + c.durDiv) c.voice c post).durDiv ≤ b.onsetDiv := by
        intro b hb hnb hv
        have hcb : c.onsetDiv + c.durDiv ≤ b.onsetDiv := by
          have := hhead.1 b hb hv
          simpa only [id] using this
        rcases hend with ⟨_, e⟩ | ⟨x, hx, hxh, e⟩
        · rw [e]; exact hcb
        · rw [e]
          have kx := (hits_iff _ _ _).mp hxh
          unfold rkey at kx
          obtain ⟨kx1, kx2⟩ := Prod.mk.inj kx
          have hne : x ≠ b := by
            intro hxb; rw [hxb] at hxh; rw [hxh] at hnb; cases hnb
          have hR : post.Pairwise (fun a b => a.onsetDiv ≤ b.onsetDiv ∧
              (a.voice = b.voice → a.onsetDiv + a.durDiv ≤ b.onsetDiv)) :=
            hsorted.2.and hhead.2
          rcases pairwise_either hR hx hb hne with hxb | hbx
          · have := hxb.2 (by rw [kx2, hv])
            rw [kx1] at this
            omega
          · exfalso
            have h1 : b.onsetDiv ≤ c.onsetDiv + c.durDiv := by rw [← kx1]; exact hbx.1
            have hbe : b.onsetDiv = c.onsetDiv + c.durDiv := le_antisymm h1 hcb
            have : hits (c.onsetDiv + c.durDiv) c.voice b = true := by
              rw [hits_iff]; unfold rkey; rw [hbe, hv]
            rw [this] at hnb; cases hnb
      by_cases hany : post.any (hits (c.onsetDiv + c.durDiv) c.voice) = true
      · rw [if_pos hany]
        apply ih
        refine { clean := ?_, k1 := by rw [he]; exact hk1, k2 := by rw [he]; exact hk2, k3 := by rw [he]; exact hk3, j := ?_ }
        · have := h.clean.visit (absorbAll store (c.onsetDiv + c.durDiv) c.voice c post, true) honset
          simpa only [id] using this
        · rw [he]
          intro a ha b hb hab hv
          obtain ⟨hab1, hab2⟩ := alive_of_alive_cons hab
          rcases mem_append.mp ha with ha | ha
          · exact h.j a ha b (mem_cons_of_mem _ hb) hab1 hv
          · rw [mem_singleton.mp ha] at hv ⊢
            rw [honset]
            rw [hvoice] at hv
            apply hjnew b hb _ hv
            cases hh : hits (c.onsetDiv + c.durDiv) c.voice b
            · rfl
            · exact absurd ((hits_iff _ _ _).mp hh) hab2
      · rw [if_neg hany]
        apply ih
        refine { clean := ?_, k1 := by rw [he]; exact hk1, k2 := by rw [he]; exact hk2, k3 := by rw [he]; exact hk3, j := ?_ }
        · exact h.clean.skip (absorbAll store (c.onsetDiv + c.durDiv) c.voice c post, true) honset
        · rw [he]
          intro a ha b hb hab hv
          rcases mem_append.mp ha with ha | ha
          · exact h.j a ha b (mem_cons_of_mem _ hb) hab hv
          · rw [mem_singleton.mp ha] at hv ⊢
            rw [honset]
            rw [hvoice] at hv
            apply hjnew b hb _ hv
            cases hh : hits (c.onsetDiv + c.durDiv) c.voice b
            · rfl
            · exact absurd (any_eq_true.mpr ⟨b, hb, hh⟩) hany

/-- in exact arithmetic the output of a pass over a clean table is a clean table -/
theorem collapsePass_clean (store : Rat → Rat) (rows : List Row) (h : CleanTable rows) : CleanTable (collapsePass store rows).1 := by
  have hg : Good [] [] rows :=
    { clean := h, k1 := Pairwise.nil, k2 := (fun a ha => by cases ha), k3 := Pairwise.nil,
      j := (fun a ha => by cases ha) }
  have := passS_good store rows [] [] hg
  unfold collapsePass
  simp only
  exact { pre_le := (fun x hx => by cases hx)
          sorted := this.k1
          pos := this.k2
          apart := this.k3
          tg_le := (fun k hk => by cases hk) }

-- ------------------------------------------------------------------ a pass that merges nothing

theorem passS_tg_grows (store : Rat → Rat) : ∀ (post : List Row) (pre : List (Row × Bool)) (tg : List (Int × Int)),
    tg.length ≤ (passS store pre tg post).2.length := by
  intro post
  induction post with
  | nil => intro pre tg; simp [passS]
  | cons c post ih =>
    intro pre tg
    rw [passS]
    split
    · exact ih _ _
    · simp only
      split
      · exact Nat.le_trans (by simp) (ih _ _)
      · exact ih _ _

/-- no row of `l` starts where `c` ends (as stored) in its voice -/
def NoHit (c : Row) (l : List Row) : Prop :=
  ∀ x ∈ l, hits (c.onsetDiv + c.durDiv) c.voice x = false

theorem visitRow_nohit (store : Rat → Rat) (pre : List (Row × Bool)) (c : Row) (post : List Row)
    (h : (visitRow store pre c post).2 = false) :
    (visitRow store pre c post).1 = c ∧ NoHit c (pre.map (·.1) ++ c :: post) := by
  unfold visitRow at h ⊢
  simp only [Bool.or_eq_false_iff] at h
  obtain ⟨⟨h1, h2⟩, h3⟩ := h
  have hpre : ∀ x ∈ pre.map (·.1), hits (c.onsetDiv + c.durDiv) c.voice x = false := by
    intro x hx
    obtain ⟨y, hy, rfl⟩ := mem_map.mp hx
    exact (any_eq_false.mp h1) y hy |> fun h => by simpa using h
  have hpost : ∀ x ∈ post, hits (c.onsetDiv + c.durDiv) c.voice x = false := by
    intro x hx
    exact (any_eq_false.mp h3) x hx |> fun h => by simpa using h
  refine ⟨?_, ?_⟩
  · simp only [absorbAll_none store _ _ _ c hpre, h2, Bool.false_eq_true, if_false]
    exact absorbAll_none store _ _ _ c hpost
  · intro x hx
    rcases mem_append.mp hx with hx | hx
    · exact hpre x hx
    · rcases mem_cons.mp hx with rfl | hx
      · exact h2
      · exact hpost x hx

theorem passS_nomerge (store : Rat → Rat) : ∀ (post : List Row) (pre : List (Row × Bool)),
    (passS store pre [] post).2 = [] →
      (passS store pre [] post).1 = pre ++ post.map (fun c => (c, true)) ∧
      ∀ c ∈ post, NoHit c (pre.map (·.1) ++ post) := by
  intro post
  induction post with
  | nil => intro pre _; simp [passS]
  | cons c post ih =>
    intro pre h
    rw [passS] at h ⊢
    rw [if_neg (by simp)] at h ⊢
    simp only at h ⊢
    by_cases hv : (visitRow store pre c post).2 = true
    · rw [if_pos hv] at h
      have := passS_tg_grows store post (pre ++ [((visitRow store pre c post).1, true)])
        [(c.onsetDiv + c.durDiv, c.voice)]
      rw [h] at this
      simp at this
    · rw [if_neg hv] at h ⊢
      have hv' : (visitRow store pre c post).2 = false := by simpa using hv
      obtain ⟨e1, e2⟩ := visitRow_nohit store pre c post hv'
      rw [e1] at h ⊢
      obtain ⟨i1, i2⟩ := ih _ h
      refine ⟨by rw [i1]; simp, ?_⟩
      intro d hd
      rcases mem_cons.mp hd with rfl | hd
      · exact e2
      · have := i2 d hd
        simpa using this

/-- a pass that reports no merge returns the table as it is, and no row starts where a row of its voice ends -/
theorem collapsePass_false (store : Rat → Rat) (rows : List Row) (h : (collapsePass store rows).2 = false) :
    (collapsePass store rows).1 = rows ∧ ∀ c ∈ rows, NoHit c rows := by
  unfold collapsePass at h ⊢
  simp only at h ⊢
  have h' : (passS store [] [] rows).2 = [] := by
    cases hh : (passS store [] [] rows).2 with
    | nil => rfl
    | cons a l => rw [hh] at h; simp at h
  obtain ⟨e1, e2⟩ := passS_nomerge store rows [] h'
  refine ⟨?_, by simpa using e2⟩
  rw [e1]
  simp [filter_map, Function.comp_def]

theorem passS_of_nohit (store : Rat → Rat) : ∀ (post : List Row) (pre : List (Row × Bool)),
    (∀ c ∈ post, NoHit c (pre.map (·.1) ++ post)) →
      passS store pre [] post = (pre ++ post.map (fun c => (c, true)), []) := by
  intro post
  induction post with
  | nil => intro pre _; simp [passS]
  | cons c post ih =>
    intro pre h
    have hc := h c mem_cons_self
    have hpre : ∀ x ∈ pre.map (·.1), hits (c.onsetDiv + c.durDiv) c.voice x = false :=
      fun x hx => hc x (mem_append_left _ hx)
    have hself : hits (c.onsetDiv + c.durDiv) c.voice c = false :=
      hc c (mem_append_right _ mem_cons_self)
    have hpost : ∀ x ∈ post, hits (c.onsetDiv + c.durDiv) c.voice x = false :=
      fun x hx => hc x (mem_append_right _ (mem_cons_of_mem _ hx))
    have hv : visitRow store pre c post = (c, false) := by
      unfold visitRow
      simp only [absorbAll_none store _ _ _ c hpre, hself, Bool.false_eq_true, if_false,
        absorbAll_none store _ _ _ c hpost]
      congr 1
      simp only [Bool.or_false, Bool.or_eq_false_iff, any_eq_false]
      exact ⟨fun x hx => by simpa using hpre x.1 (mem_map_of_mem hx), fun x hx => by simpa using hpost x hx⟩
    rw [passS, if_neg (by simp)]
    simp only
    rw [hv]
    simp only [Bool.false_eq_true, if_false]
    rw [ih]
    · simp
    · intro d hd
      have := h d (mem_cons_of_mem _ hd)
      simpa using this

/-- no row starts where a row of its voice ends: the pass returns the table and reports no merge -/
theorem collapsePass_of_nohit (store : Rat → Rat) (rows : List Row) (h : ∀ c ∈ rows, NoHit c rows) :
    collapsePass store rows = (rows, false) := by
  unfold collapsePass
  rw [passS_of_nohit store rows [] (by simpa using h)]
  simp [filter_map, Function.comp_def]

-- ------------------------------------------------------------------ a merging pass shortens a clean table

theorem alive_count_split (tg : List (Int × Int)) (k : Int × Int) (hk : k ∉ tg) : ∀ post : List Row,
    (post.filter (alive (k :: tg))).length + (post.filter (fun x => hits k.1 k.2 x)).length =
      (post.filter (alive tg)).length := by
  intro post
  induction post with
  | nil => rfl
  | cons x post ih =>
    by_cases hx : rkey x = k
    · have h1 : alive (k :: tg) x = false := by unfold alive; simp [hx]
      have h2 : alive tg x = true := by unfold alive; rw [hx]; simpa using hk
      have h3 : hits k.1 k.2 x = true := (hits_iff _ _ _).mpr hx
      have e1 : filter (alive (k :: tg)) (x :: post) = filter (alive (k :: tg)) post :=
        filter_cons_of_neg (by rw [h1]; simp)
      have e2 : filter (alive tg) (x :: post) = x :: filter (alive tg) post := filter_cons_of_pos h2
      have e3 : filter (fun x => hits k.1 k.2 x) (x :: post) = x :: filter (fun x => hits k.1 k.2 x) post :=
        filter_cons_of_pos h3
      rw [e1, e2, e3, length_cons, length_cons, ← ih]
      omega
    · have h3 : hits k.1 k.2 x = false := by
        cases hh : hits k.1 k.2 x
        · rfl
        · exact absurd ((hits_iff _ _ _).mp hh) hx
      have h12 : alive (k :: tg) x = alive tg x := by
        unfold alive
        have : (rkey x == k) = false := by simpa using hx
        rw [List.contains_cons, this, Bool.false_or]
      have e3 : filter (fun x => hits k.1 k.2 x) (x :: post) = filter (fun x => hits k.1 k.2 x) post :=
        filter_cons_of_neg (by rw [h3]; simp)
      rw [e3]
      cases ha : alive tg x
      · have e1 : filter (alive (k :: tg)) (x :: post) = filter (alive (k :: tg)) post :=
          filter_cons_of_neg (by rw [h12, ha]; simp)
        have e2 : filter (alive tg) (x :: post) = filter (alive tg) post :=
          filter_cons_of_neg (by rw [ha]; simp)
        rw [e1, e2]
        exact ih
      · have e1 : filter (alive (k :: tg)) (x :: post) = x :: filter (alive (k :: tg)) post :=
          filter_cons_of_pos (by rw [h12, ha])
        have e2 : filter (alive tg) (x :: post) = x :: filter (alive tg) post :=
          filter_cons_of_pos ha
        rw [e1, e2, length_cons, length_cons, ← ih]
        omega

/-- rows put out + keys found ≤ rows put out before + rows still alive + keys found before -/
theorem passS_count (store : Rat → Rat) : ∀ (post : List Row) (pre : List (Row × Bool)) (tg : List (Int × Int)),
    Clean pre tg post →
    (emitted (passS store pre tg post).1).length + (passS store pre tg post).2.length ≤
      (emitted pre).length + (post.filter (alive tg)).length + tg.length := by
  intro post
  induction post with
  | nil => intro pre tg _; simp [passS]
  | cons c post ih =>
    intro pre tg h
    rw [passS]
    by_cases hd : tg.contains (c.onsetDiv, c.voice) = true
    · rw [if_pos hd]
      have := ih _ _ (h.skip (c, false) rfl)
      rw [emitted_append] at this
      have hdead : alive tg c = false := by unfold alive rkey; rw [hd]; rfl
      have e2 : filter (alive tg) (c :: post) = filter (alive tg) post :=
        filter_cons_of_neg (by rw [hdead]; simp)
      rw [e2]
      simpa using this
    · rw [if_neg hd]
      simp only
      rw [visitRow_clean h]
      simp only
      have hal : alive tg c = true := by
        unfold alive rkey
        simpa using hd
      have e2 : filter (alive tg) (c :: post) = c :: filter (alive tg) post := filter_cons_of_pos hal
      have honset : (absorbAll store (c.onsetDiv + c.durDiv) c.voice c post).onsetDiv = c.onsetDiv :=
        absorbAll_onset ..
      rw [e2, length_cons]
      by_cases hany : post.any (hits (c.onsetDiv + c.durDiv) c.voice) = true
      · rw [if_pos hany]
        have := ih _ _ (h.visit (absorbAll store (c.onsetDiv + c.durDiv) c.voice c post, true) honset)
        rw [emitted_append] at this
        have hs := alive_count_split tg _ h.fresh post
        simp only at hs
        obtain ⟨x, hx, hxh⟩ := any_eq_true.mp hany
        have hpos : 0 < (post.filter (fun x => hits (c.onsetDiv + c.durDiv) c.voice x)).length :=
          length_pos_of_mem (mem_filter.mpr ⟨hx, hxh⟩)
        simp only [if_true, length_append, length_cons, length_nil] at this
        omega
      · rw [if_neg hany]
        have := ih _ _ (h.skip (absorbAll store (c.onsetDiv + c.durDiv) c.voice c post, true) honset)
        rw [emitted_append] at this
        simp only [if_true, length_append, length_cons, length_nil] at this
        omega

/-- on a clean table a pass that merged something returns fewer rows -/
theorem collapsePass_shorter (store : Rat → Rat) (rows : List Row) (h : CleanTable rows)
    (hm : (collapsePass store rows).2 = true) : (collapsePass store rows).1.length < rows.length := by
  have := passS_count store rows [] [] h
  rw [filter_alive_nil] at this
  unfold collapsePass at hm ⊢
  simp only at hm ⊢
  have hne : 0 < (passS store [] [] rows).2.length := by
    cases hh : (passS store [] [] rows).2 with
    | nil => rw [hh] at hm; simp at hm
    | cons a l => simp
  have he : (map (fun x => x.1) (filter (fun x => x.2) (passS store [] [] rows).1)).length =
      (emitted (passS store [] [] rows).1).length := rfl
  rw [he]
  simp only [emitted, filter_nil, map_nil, length_nil] at this
  omega

-- ------------------------------------------------------------------ the repeated pass

/-- every table `rec_collapse_rests` passes over is clean -/
def CleanRun (store : Rat → Rat) : Nat → List Row → Prop
  | 0, _ => True
  | fuel + 1, rows =>
    CleanTable rows ∧ ((collapsePass store rows).2 = true → CleanRun store fuel (collapsePass store rows).1)

theorem cleanRun_of_clean (store : Rat → Rat) : ∀ (fuel : Nat) (rows : List Row), CleanTable rows → CleanRun store fuel rows := by
  intro fuel
  induction fuel with
  | zero => intro _ _; trivial
  | succ n ih => intro rows h; exact ⟨h, fun _ => ih _ (collapsePass_clean store rows h)⟩

theorem recCollapse_total {A : Type} [AddCommMonoid A] (store : Rat → Rat) (μ : Row → A)
    (hμ : ∀ acc x, μ (absorbS store acc x) = μ acc + μ x) (v : Int) :
    ∀ (fuel : Nat) (rows : List Row), CleanRun store fuel rows →
      sumW μ v (recCollapse store fuel rows) = sumW μ v rows := by
  intro fuel
  induction fuel with
  | zero => intro rows _; rfl
  | succ n ih =>
    intro rows h
    rw [recCollapse]
    by_cases hm : (collapsePass store rows).2 = true
    · rw [if_pos hm, ih _ (h.2 hm), collapsePass_total store μ hμ v rows h.1]
    · rw [if_neg hm, collapsePass_total store μ hμ v rows h.1]

theorem recCollapse_clean (store : Rat → Rat) : ∀ (fuel : Nat) (rows : List Row), CleanTable rows →
    CleanTable (recCollapse store fuel rows) := by
  intro fuel
  induction fuel with
  | zero => intro rows h; exact h
  | succ n ih =>
    intro rows h
    rw [recCollapse]
    split
    · exact ih _ (collapsePass_clean store rows h)
    · exact collapsePass_clean store rows h

/-- with enough fuel the repeated pass ends on a table in which a further pass finds nothing to merge -/
theorem recCollapse_stable (store : Rat → Rat) : ∀ (fuel : Nat) (rows : List Row), CleanRun store fuel rows →
    rows.length < fuel → (collapsePass store (recCollapse store fuel rows)).2 = false := by
  intro fuel
  induction fuel with
  | zero => intro rows _ h; cases h
  | succ n ih =>
    intro rows h hl
    rw [recCollapse]
    by_cases hm : (collapsePass store rows).2 = true
    · rw [if_pos hm]
      apply ih _ (h.2 hm)
      have := collapsePass_shorter store rows h.1 hm
      omega
    · rw [if_neg hm]
      have hm' : (collapsePass store rows).2 = false := by simpa using hm
      rw [(collapsePass_false store rows hm').1]
      exact hm'

end NoteArray
