/-
C02 helper lemmas (round 2): signatures in force, `sortTS`, `lastAssoc = none`.
-/
import PartituraModel.Model.TimeMapHist
import PartituraModel.Proofs.C02Part

namespace C02Proofs
open Model.TimeMap

theorem lastAssoc_none_iff {α : Type} : ∀ (l : List (Int × α)) (t : Int),
    lastAssoc l t = none ↔ ∀ e ∈ l, e.1 ≠ t
  | [], _ => by simp [lastAssoc]
  | (k, v) :: rest, t => by
    unfold lastAssoc
    cases hr : lastAssoc rest t with
    | some u =>
      simp only [reduceCtorEq, false_iff]
      intro hall
      have := (lastAssoc_none_iff rest t).mpr (fun e he => hall e (List.mem_cons_of_mem _ he))
      rw [hr] at this
      cases this
    | none =>
      have ih := (lastAssoc_none_iff rest t).mp hr
      by_cases hk : k = t
      · simp only [hk, if_true, reduceCtorEq, false_iff]
        intro hall
        exact hall (t, v) List.mem_cons_self rfl
      · simp only [hk, if_false, true_iff]
        intro e he
        rcases List.mem_cons.mp he with he | he
        · subst he; exact hk
        · exact ih e he

theorem mem_insertTS (x s : TSig) : ∀ l : List TSig, x ∈ insertTS s l ↔ x = s ∨ x ∈ l
  | [] => by simp [insertTS]
  | a :: as => by
    unfold insertTS
    by_cases h : s.t < a.t
    · rw [if_pos h]; simp
    · rw [if_neg h]
      simp only [List.mem_cons]
      rw [mem_insertTS x s as]
      constructor
      · rintro (h | h | h)
        · exact Or.inr (Or.inl h)
        · exact Or.inl h
        · exact Or.inr (Or.inr h)
      · rintro (h | h | h)
        · exact Or.inr (Or.inl h)
        · exact Or.inl h
        · exact Or.inr (Or.inr h)

theorem mem_foldl_insertTS (x : TSig) : ∀ (l acc : List TSig),
    x ∈ l.foldl (fun acc s => insertTS s acc) acc ↔ x ∈ l ∨ x ∈ acc
  | [], acc => by simp
  | s :: l, acc => by
    rw [List.foldl_cons, mem_foldl_insertTS x l, mem_insertTS]
    simp only [List.mem_cons]
    constructor
    · rintro (h | h | h)
      · exact Or.inl (Or.inr h)
      · exact Or.inl (Or.inl h)
      · exact Or.inr h
    · rintro ((h | h) | h)
      · exact Or.inr (Or.inl h)
      · exact Or.inl h
      · exact Or.inr (Or.inr h)

/-- `iter_all(TimeSignature)` yields exactly the signatures that were added -/
theorem mem_sortTS (x : TSig) (l : List TSig) : x ∈ sortTS l ↔ x ∈ l := by
  unfold sortTS
  rw [mem_foldl_insertTS]
  simp

/-- assignments of the beat-factor loop outside quarter mode -/
theorem facAssign_eq (m : Mode) (hm : m ≠ .quarter) (ts : List TSig) :
    facAssign m ts = ts.map fun s => (s.t, factorOf m s) := by
  cases m with
  | quarter => exact absurd rfl hm
  | notated => rfl
  | musical => rfl

end C02Proofs
