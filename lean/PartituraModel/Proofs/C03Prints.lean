/-
C03 — pages and systems: the numbering state machine of `_handle_print` / `_handle_new_page` / `_handle_new_system` in closed
form.
-/
import PartituraModel.Model.XmlBar

namespace C03.Prints
open Model Model.XmlNote Model.XmlBar

/-- the objects made for the starts `ts` (latest first), latest first: the k-th object made has the number k, ends where the
    next one starts; the latest one (whose successor's start is `next`) is open when `next = none` -/
def stackFrom (next : Option Nat) : List Nat → List PageObj
  | [] => []
  | t :: r => { number := r.length + 1, start := t, stop := next } :: stackFrom (some t) r

/-- the positions at which one `<print>` at `pos` makes a new page -/
def pageNews (p : Nat × (Bool × Bool)) : List Nat := if p.2.1 && p.1 != 0 then [p.1] else []

/-- … and a new system: `new-page` makes one, `new-system` makes one (both: two at the same position) -/
def systemNews (p : Nat × (Bool × Bool)) : List Nat :=
  (if p.2.1 && p.1 != 0 then [p.1] else []) ++ (if p.2.2 && p.1 != 0 then [p.1] else [])

theorem newObj_stack (t : Nat) (r : List Nat) (pos : Nat) :
    newObj (stackFrom none (t :: r)) pos = if pos = 0 then stackFrom none (t :: r) else stackFrom none (pos :: t :: r) := by
  by_cases h : pos = 0 <;> simp [newObj, stackFrom, h]

theorem handlePrint_stack (tp : Nat) (rp : List Nat) (ts : Nat) (rs : List Nat) (p : Nat × (Bool × Bool)) :
    handlePrint { pages := stackFrom none (tp :: rp), systems := stackFrom none (ts :: rs) } p.1 p.2 =
      { pages := stackFrom none ((pageNews p).reverse ++ tp :: rp),
        systems := stackFrom none ((systemNews p).reverse ++ ts :: rs) } := by
  obtain ⟨pos, np, ns⟩ := p
  by_cases h : pos = 0 <;> cases np <;> cases ns <;>
    simp [handlePrint, newObj_stack, pageNews, systemNews, h]

theorem foldl_stack (ps : List (Nat × (Bool × Bool))) (tp : Nat) (rp : List Nat) (ts : Nat) (rs : List Nat) :
    ps.foldl (fun st p => handlePrint st p.1 p.2) { pages := stackFrom none (tp :: rp), systems := stackFrom none (ts :: rs) } =
      { pages := stackFrom none ((ps.flatMap pageNews).reverse ++ tp :: rp),
        systems := stackFrom none ((ps.flatMap systemNews).reverse ++ ts :: rs) } := by
  induction ps generalizing tp rp ts rs with
  | nil => rfl
  | cons p rest ih =>
    rw [List.foldl_cons, handlePrint_stack]
    -- the lists stay non-empty: expose their heads
    have hne : ∀ (news : List Nat) (t : Nat) (r : List Nat), ∃ t' r', news.reverse ++ t :: r = t' :: r' := by
      intro news t r
      cases h : news.reverse ++ t :: r with
      | nil => simp at h
      | cons a b => exact ⟨a, b, rfl⟩
    obtain ⟨tp', rp', hp⟩ := hne (pageNews p) tp rp
    obtain ⟨ts', rs', hs⟩ := hne (systemNews p) ts rs
    rw [hp, hs, ih, ← hp, ← hs]
    simp [List.flatMap_cons, List.reverse_append, List.append_assoc]

theorem readPrints_closed (ps : List (Nat × (Bool × Bool))) :
    readPrints ps = { pages := stackFrom none ((ps.flatMap pageNews).reverse ++ [0]),
                      systems := stackFrom none ((ps.flatMap systemNews).reverse ++ [0]) } := by
  unfold readPrints
  have h0 : newObj [] 0 = stackFrom none [0] := rfl
  rw [h0, foldl_stack]

/-! ### what the closed form says -/

theorem stackFrom_numbers (next : Option Nat) (l : List Nat) :
    (stackFrom next l).map (·.number) = (List.range' 1 l.length).reverse := by
  induction l generalizing next with
  | nil => rfl
  | cons t r ih =>
    simp only [stackFrom, List.map_cons, ih, List.length_cons]
    rw [List.range'_1_concat, List.reverse_append]
    simp [Nat.add_comm]

theorem stackFrom_starts (next : Option Nat) (l : List Nat) : (stackFrom next l).map (·.start) = l := by
  induction l generalizing next with
  | nil => rfl
  | cons t r ih => simp [stackFrom, ih]

/-- every object ends where the one made after it starts; the latest one ends at `next` -/
theorem stackFrom_stops (next : Option Nat) (l : List Nat) :
    (stackFrom next l).map (·.stop) = (next :: l.map some).take l.length := by
  induction l generalizing next with
  | nil => rfl
  | cons t r ih => simp [stackFrom, ih]

end C03.Prints
