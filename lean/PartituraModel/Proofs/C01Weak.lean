/-
C01 helper lemmas, round 2: the invariant of ALL histories (`WInv`, Model/TimelineExt.lean).

`WCore` is `InvCore` (Proofs/C01Inv.lean) with the clause `listed` weakened to "the point an object refers
to lists it".  Its preservation needs no freeness hypothesis, so it holds also after double registration;
every lemma additionally tracks the listings (`Listed`), i.e. what the registries contain afterwards.
-/
import PartituraModel.Proofs.C01Main
import PartituraModel.Model.TimelineExt

namespace TL

/-- all clauses of `WInv` except the links; `ex` is a time whose point may (temporarily) be empty -/
structure WCore (ex : Option Int) (s : Part) : Prop where
  sorted : s.times.Pairwise (· < ·)
  nonneg : ∀ p ∈ s.points, 0 ≤ p.t
  regNodup : ∀ sd, ∀ p ∈ s.points, (p.reg sd).Nodup
  objsNodup : (s.objs.map (·.ref)).Nodup
  backListed : ∀ sd, ∀ e ∈ s.objs, ∀ p ∈ s.points, e.at sd = some p.t → e.ref ∈ p.reg sd
  refOn : ∀ sd, ∀ e ∈ s.objs, ∀ t, e.at sd = some t → t ∈ s.times
  listedKnown : ∀ sd, ∀ p ∈ s.points, ∀ o ∈ p.reg sd, o ∈ s.objs.map (·.ref)
  nonempty : ∀ p ∈ s.points, p.starting ≠ [] ∨ p.ending ≠ [] ∨ p.t ∈ s.requested ∨ some p.t = ex
  requestedOn : ∀ t ∈ s.requested, t ∈ s.times
  quarter : ∀ p ∈ s.points, qdAt s.qtab p.t = some p.quarter
  qsorted : (s.qtab.map (·.1)).Pairwise (· < ·)
  qhead : s.qtab.head?.map (·.1) = some 0

theorem winv_iff (s : Part) : WInv s ↔ WCore none s ∧ LinksFrom none s.points := by
  constructor
  · intro h
    exact ⟨⟨h.sorted, h.nonneg, h.regNodup, h.objsNodup, h.backListed, h.refOn, h.listedKnown,
      fun p hp => by rcases h.nonempty p hp with a | a | a <;> simp [a],
      h.requestedOn, h.quarter, h.qsorted, h.qhead⟩, h.links⟩
  · rintro ⟨h, hl⟩
    exact ⟨h.sorted, h.nonneg, hl, h.regNodup, h.objsNodup, h.backListed, h.refOn, h.listedKnown,
      fun p hp => by rcases h.nonempty p hp with a | a | a | a <;> simp_all,
      h.requestedOn, h.quarter, h.qsorted, h.qhead⟩

theorem WCore.weaken {s : Part} (h : WCore none s) (ex : Option Int) : WCore ex s :=
  { h with nonempty := fun p hp => by rcases h.nonempty p hp with a | a | a | a <;> simp_all }

theorem WCore.toQCore {ex : Option Int} {s : Part} (h : WCore ex s) : QCore s :=
  ⟨h.sorted, h.nonneg, h.quarter, h.qsorted, h.qhead⟩

/-- the strong core is the weak core plus strictness -/
theorem InvCore.toWCore {ex : Option Int} {s : Part} (h : InvCore ex s) : WCore ex s :=
  ⟨h.sorted, h.nonneg, h.regNodup, h.objsNodup, fun sd e he p hp => (h.listed sd e he p hp).mpr, h.refOn,
    h.listedKnown, h.nonempty, h.requestedOn, h.quarter, h.qsorted, h.qhead⟩

theorem inv_iff_winv_strict (s : Part) : Inv s ↔ WInv s ∧ Strict s := by
  constructor
  · intro h
    exact ⟨⟨h.sorted, h.nonneg, h.links, h.regNodup, h.objsNodup, fun sd e he p hp => (h.listed sd e he p hp).mpr,
      h.refOn, h.listedKnown, h.nonempty, h.requestedOn, h.quarter, h.qsorted, h.qhead⟩,
      fun sd e he p hp => (h.listed sd e he p hp).mp⟩
  · rintro ⟨h, hs⟩
    exact ⟨h.sorted, h.nonneg, h.links, h.regNodup, h.objsNodup,
      fun sd e he p hp => ⟨hs sd e he p hp, h.backListed sd e he p hp⟩,
      h.refOn, h.listedKnown, h.nonempty, h.requestedOn, h.quarter, h.qsorted, h.qhead⟩

-- ------------------------------------------------------------------ listings

theorem listed_congr {s s' : Part} (hp : s'.points.map Point.unlink = s.points.map Point.unlink)
    (sd : Side) (x : Int) (o : ObjRef) : Listed s' sd x o ↔ Listed s sd x o := by
  constructor
  · rintro ⟨p', hp', ht, ho⟩
    obtain ⟨p, hpm, he⟩ := mem_of_unlink_eq hp hp'
    have u := unlink_eq he
    exact ⟨p, hpm, by rw [u.1]; exact ht, by rw [u.2.2.2.2 sd]; exact ho⟩
  · rintro ⟨p, hpm, ht, ho⟩
    obtain ⟨p', hp', he⟩ := mem_of_unlink_eq hp.symm hpm
    have u := unlink_eq he
    exact ⟨p', hp', by rw [u.1]; exact ht, by rw [u.2.2.2.2 sd]; exact ho⟩

/-- `WCore` does not look at the links -/
theorem WCore.congr {ex : Option Int} {s s' : Part} (h : WCore ex s)
    (hp : s'.points.map Point.unlink = s.points.map Point.unlink)
    (hq : s'.qtab = s.qtab) (ho : s'.objs = s.objs) (hr : s'.requested = s.requested) : WCore ex s' := by
  have ht : s'.times = s.times := times_of_unlink_eq hp
  have tr : ∀ p' ∈ s'.points, ∃ p ∈ s.points, p.unlink = p'.unlink := fun p' h' => mem_of_unlink_eq hp h'
  refine ⟨by rw [ht]; exact h.sorted, ?_, ?_, by rw [ho]; exact h.objsNodup, ?_, ?_, ?_, ?_, ?_, ?_,
    by rw [hq]; exact h.qsorted, by rw [hq]; exact h.qhead⟩
  · intro p' hp'
    obtain ⟨p, hp, he⟩ := tr p' hp'
    have := h.nonneg p hp
    have e : p.t = p'.t := (unlink_eq he).1
    omega
  · intro sd p' hp'
    obtain ⟨p, hp, he⟩ := tr p' hp'
    have := h.regNodup sd p hp
    have e : p.reg sd = p'.reg sd := (unlink_eq he).2.2.2.2 sd
    rwa [e] at this
  · intro sd e he p' hp' hat
    rw [ho] at he
    obtain ⟨p, hp, hu⟩ := tr p' hp'
    have e1 : p.reg sd = p'.reg sd := (unlink_eq hu).2.2.2.2 sd
    have e2 : p.t = p'.t := (unlink_eq hu).1
    rw [← e1]
    exact h.backListed sd e he p hp (by rw [e2]; exact hat)
  · intro sd e he t hat
    rw [ho] at he
    rw [ht]
    exact h.refOn sd e he t hat
  · intro sd p' hp' o hoo
    obtain ⟨p, hp, hu⟩ := tr p' hp'
    have e1 : p.reg sd = p'.reg sd := (unlink_eq hu).2.2.2.2 sd
    rw [ho]
    exact h.listedKnown sd p hp o (by rw [e1]; exact hoo)
  · intro p' hp'
    obtain ⟨p, hp, hu⟩ := tr p' hp'
    have e1 : p.starting = p'.starting := (unlink_eq hu).2.2.1
    have e2 : p.ending = p'.ending := (unlink_eq hu).2.2.2.1
    have e3 : p.t = p'.t := (unlink_eq hu).1
    have := h.nonempty p hp
    rwa [e1, e2, e3, ← hr] at this
  · intro t htr
    rw [hr] at htr
    rw [ht]
    exact h.requestedOn t htr
  · intro p' hp'
    obtain ⟨p, hp, hu⟩ := tr p' hp'
    have e3 : p.t = p'.t := (unlink_eq hu).1
    have e4 : p.quarter = p'.quarter := (unlink_eq hu).2.1
    have := h.quarter p hp
    rwa [e3, e4, ← hq] at this

-- ------------------------------------------------------------------ get_or_add_point

/-- `get_or_add_point` (without the ghost) in any reachable state: the listings are untouched -/
theorem ensurePoint_wspec {s : Part} (h : WCore none s) (hl : LinksFrom none s.points) {t : Int} (ht : 0 ≤ t) :
    ∃ s', ensurePoint s t = .ok s' ∧ WCore (some t) s' ∧ LinksFrom none s'.points ∧ t ∈ s'.times
      ∧ s'.objs = s.objs ∧ s'.qtab = s.qtab ∧ s'.requested = s.requested
      ∧ (∀ x, x ∈ s'.times ↔ x ∈ s.times ∨ x = t)
      ∧ (∀ sd x o, Listed s' sd x o ↔ Listed s sd x o) := by
  obtain ⟨pre, post, hsplit, h1, h2, -⟩ := searchsorted_split s.points t
  have hneg : ¬ t < 0 := by omega
  have hgp := getPoint_split pre post t h1 h2
  rw [← hsplit] at hgp
  unfold ensurePoint
  simp only [hneg, if_false]
  -- is there a point at t?
  by_cases hpres : ∃ b r, post = b :: r ∧ b.t = t
  · obtain ⟨b, r, rfl, hb⟩ := hpres
    simp only [List.head?_cons, Option.bind_some, hb, if_true] at hgp
    simp only [hgp]
    refine ⟨s, rfl, h.weaken _, hl, ?_, rfl, rfl, rfl, ?_, fun _ _ _ => Iff.rfl⟩
    · simp [Part.times, hsplit, hb]
    · intro x
      constructor
      · exact fun hx => Or.inl hx
      · rintro (hx | rfl)
        · exact hx
        · simp [Part.times, hsplit, hb]
  · have h2' : ∀ b ∈ post.head?, t < b.t := by
      intro b hb
      have := h2 b hb
      cases post with
      | nil => simp at hb
      | cons b' r =>
        simp at hb
        subst hb
        have : b'.t ≠ t := fun e => hpres ⟨b', r, rfl, e⟩
        omega
    have hnone : getPoint s.points t = none := by
      rw [hgp]
      cases post with
      | nil => simp
      | cons b r =>
        have := h2' b (by simp)
        simp
        omega
    obtain ⟨q, hq⟩ := qdAt_isSome h.qhead t
    have hadd := addPoint_absent pre post t q h1 h2'
    rw [← hsplit] at hadd
    simp only [hnone, hq]
    change ∃ s', (addPoint s.points (freshPoint t q) >>= fun pts => pure { s with points := pts }) = .ok s' ∧ _
    rw [hadd]
    have hallpost : ∀ p ∈ post, t < p.t := by
      cases post with
      | nil => simp
      | cons b r =>
        intro p hp
        rcases List.mem_cons.mp hp with rfl | hp
        · exact h2' p (by simp)
        · have := h.sorted
          rw [Part.times, hsplit] at this
          have hb := h2' b (by simp)
          have := sorted_post_gt this (Int.le_of_lt hb) p hp
          exact this
    have hnot : t ∉ s.times := by
      rw [Part.times, hsplit]
      simp only [List.map_append, List.mem_append, List.mem_map, not_or, not_exists, not_and]
      exact ⟨fun p hp e => by have := h1 p hp; omega, fun p hp e => by have := hallpost p hp; omega⟩
    have hmem : ∀ p, p ∈ pre ++ freshPoint t q :: post ↔ p ∈ s.points ∨ p = freshPoint t q := by
      intro p
      rw [hsplit]
      simp only [List.mem_append, List.mem_cons]
      grind
    let s0 : Part := { s with points := pre ++ freshPoint t q :: post }
    have hl0 : ∀ sd x o, Listed s0 sd x o ↔ Listed s sd x o := by
      intro sd x o
      constructor
      · rintro ⟨p, hp, hpt, ho⟩
        rcases (hmem p).mp hp with hp | rfl
        · exact ⟨p, hp, hpt, ho⟩
        · cases sd <;> simp [Point.reg, freshPoint] at ho
      · rintro ⟨p, hp, hpt, ho⟩
        exact ⟨p, (hmem p).mpr (Or.inl hp), hpt, ho⟩
    refine ⟨{ s with points := insertLinked pre post t q }, rfl, ?_, ?_, ?_, rfl, rfl, rfl, ?_, ?_⟩
    · -- WCore of the state with the unlinked insertion, then transfer
      have h0 : WCore (some t) s0 := by
        refine ⟨?_, ?_, ?_, h.objsNodup, ?_, ?_, ?_, ?_, ?_, ?_, h.qsorted, h.qhead⟩
        · have hs := h.sorted
          rw [Part.times, hsplit] at hs
          simp only [Part.times, s0, List.map_append, List.map_cons, List.pairwise_append,
            List.pairwise_cons] at hs ⊢
          refine ⟨hs.1, ⟨?_, hs.2.1⟩, ?_⟩
          · intro x hx
            obtain ⟨p, hp, rfl⟩ := List.mem_map.mp hx
            exact hallpost p hp
          · intro a ha b hb
            rcases List.mem_cons.mp hb with rfl | hb
            · obtain ⟨p, hp, rfl⟩ := List.mem_map.mp ha
              exact h1 p hp
            · exact hs.2.2 a ha b hb
        · intro p hp
          rcases (hmem p).mp hp with hp | rfl
          · exact h.nonneg p hp
          · exact ht
        · intro sd p hp
          rcases (hmem p).mp hp with hp | rfl
          · exact h.regNodup sd p hp
          · cases sd <;> simp [Point.reg, freshPoint]
        · intro sd e he p hp hat
          rcases (hmem p).mp hp with hp | rfl
          · exact h.backListed sd e he p hp hat
          · exact absurd (h.refOn sd e he t hat) hnot
        · intro sd e he x hx
          have := h.refOn sd e he x hx
          simp only [Part.times, s0, hsplit, List.map_append, List.map_cons, List.mem_append, List.mem_cons] at this ⊢
          grind
        · intro sd p hp o ho
          rcases (hmem p).mp hp with hp | rfl
          · exact h.listedKnown sd p hp o ho
          · cases sd <;> simp [Point.reg, freshPoint] at ho
        · intro p hp
          rcases (hmem p).mp hp with hp | rfl
          · rcases h.nonempty p hp with a | a | a | a
            · exact Or.inl a
            · exact Or.inr (Or.inl a)
            · exact Or.inr (Or.inr (Or.inl a))
            · simp at a
          · simp [freshPoint]
        · intro x hx
          have := h.requestedOn x hx
          simp only [Part.times, s0, hsplit, List.map_append, List.map_cons, List.mem_append, List.mem_cons] at this ⊢
          grind
        · intro p hp
          rcases (hmem p).mp hp with hp | rfl
          · exact h.quarter p hp
          · exact hq
      exact h0.congr (unlink_insertLinked pre post t q) rfl rfl rfl
    · apply links_insertLinked
      rw [← hsplit]
      exact hl
    · have := times_of_unlink_eq (unlink_insertLinked pre post t q)
      simp only [Part.times, this]
      simp [freshPoint]
    · intro x
      have := times_of_unlink_eq (unlink_insertLinked pre post t q)
      simp only [Part.times, this, hsplit]
      simp only [List.map_append, List.map_cons, List.mem_append, List.mem_cons, freshPoint]
      grind
    · intro sd x o
      rw [← hl0 sd x o]
      exact listed_congr (s := s0) (s' := { s with points := insertLinked pre post t q })
        (unlink_insertLinked pre post t q) sd x o

-- ------------------------------------------------------------------ facts lifted to `getObj`

theorem WCore.getObj_backListed {ex : Option Int} {s : Part} (h : WCore ex s) (sd : Side) (o : ObjRef)
    {p : Point} (hp : p ∈ s.points) (hat : (getObj s.objs o).at sd = some p.t) : o ∈ p.reg sd := by
  rcases getObj_mem_or_blank s.objs o with ⟨hm, _⟩ | ⟨hb, hnm⟩
  · have := h.backListed sd _ hm p hp hat
    simpa using this
  · rw [hb] at hat
    cases sd <;> simp [blank, ObjSt.at] at hat

theorem WCore.getObj_refOn {ex : Option Int} {s : Part} (h : WCore ex s) (sd : Side) (o : ObjRef)
    {t : Int} (ht : (getObj s.objs o).at sd = some t) : t ∈ s.times := by
  rcases getObj_mem_or_blank s.objs o with ⟨hm, _⟩ | ⟨hb, hnm⟩
  · exact h.refOn sd _ hm t ht
  · rw [hb] at ht
    cases sd <;> simp [blank, ObjSt.at] at ht

-- ------------------------------------------------------------------ registration (no freeness needed)

theorem register_winv {s : Part} {sd : Side} {t : Int} {o : ObjRef} (h : WCore (some t) s)
    (ht : t ∈ s.times) : WCore none (register s sd t o) := by
  have hrefs : ∀ e : ObjSt, (e.setAt sd (some t)).ref = e.ref := fun e => by simp
  have htimes := register_times s sd t o
  unfold register at htimes ⊢
  refine ⟨by rw [htimes]; exact h.sorted, ?_, ?_, nodup_refs_setObj h.objsNodup hrefs, ?_, ?_, ?_, ?_, ?_, ?_,
    h.qsorted, h.qhead⟩
  · intro p' hp'
    obtain ⟨p, hp, rfl⟩ := mem_modifyPoint.mp hp'
    have := h.nonneg p hp
    split <;> simpa using this
  · intro sd' p' hp'
    obtain ⟨p, hp, rfl⟩ := mem_modifyPoint.mp hp'
    split
    · rw [setReg_reg]
      split
      · rename_i hsd; subst hsd; exact nodup_regAdd o (h.regNodup _ p hp)
      · exact h.regNodup sd' p hp
    · exact h.regNodup sd' p hp
  · -- backListed
    intro sd' e' he' p' hp'
    obtain ⟨p, hp, rfl⟩ := mem_modifyPoint.mp hp'
    have hpt : (if p.t = t then p.setReg sd (regAdd (p.reg sd) o) else p).t = p.t := by split <;> simp
    rw [hpt]
    have hsup : ∀ x, x ∈ p.reg sd' →
        x ∈ (if p.t = t then p.setReg sd (regAdd (p.reg sd) o) else p).reg sd' := by
      intro x hx
      split
      · rw [setReg_reg]
        split
        · rename_i hsd; subst hsd; exact mem_regAdd.mpr (Or.inl hx)
        · exact hx
      · exact hx
    rcases (mem_setObj (f := fun e => e.setAt sd (some t)) h.objsNodup).mp he' with ⟨he, hne⟩ | rfl
    · intro hat
      exact hsup _ (h.backListed sd' e' he p hp hat)
    · simp only [setAt_ref, getObj_ref]
      by_cases hsd : sd' = sd
      · subst hsd
        simp only [setAt_at_same, Option.some.injEq]
        intro hpt'
        simp [← hpt', mem_regAdd]
      · rw [setAt_at_other _ hsd]
        intro hat
        exact hsup _ (h.getObj_backListed sd' o hp hat)
  · -- refOn
    intro sd' e' he' x hx
    rw [htimes]
    rcases (mem_setObj (f := fun e => e.setAt sd (some t)) h.objsNodup).mp he' with ⟨he, _⟩ | rfl
    · exact h.refOn sd' e' he x hx
    · by_cases hsd : sd' = sd
      · subst hsd
        simp only [setAt_at_same, Option.some.injEq] at hx
        subst hx; exact ht
      · rw [setAt_at_other _ hsd] at hx
        exact h.getObj_refOn sd' o hx
  · -- listedKnown
    intro sd' p' hp' x hx
    obtain ⟨p, hp, rfl⟩ := mem_modifyPoint.mp hp'
    refine (mem_refs_setObj hrefs).mpr ?_
    split at hx
    · rw [setReg_reg] at hx
      split at hx
      · rename_i hsd; subst hsd
        rcases mem_regAdd.mp hx with hx | rfl
        · exact Or.inl (h.listedKnown _ p hp x hx)
        · exact Or.inr rfl
      · exact Or.inl (h.listedKnown sd' p hp x hx)
    · exact Or.inl (h.listedKnown sd' p hp x hx)
  · -- nonempty
    intro p' hp'
    obtain ⟨p, hp, rfl⟩ := mem_modifyPoint.mp hp'
    split
    · have hm : o ∈ (p.setReg sd (regAdd (p.reg sd) o)).reg sd := by simp [mem_regAdd]
      rcases reg_nonempty_of_mem hm with a | a
      · exact Or.inl a
      · exact Or.inr (Or.inl a)
    · rename_i hne
      rcases h.nonempty p hp with a | a | a | a
      · exact Or.inl a
      · exact Or.inr (Or.inl a)
      · exact Or.inr (Or.inr (Or.inl a))
      · simp only [Option.some.injEq] at a
        exact absurd a hne
  · intro x hx
    rw [htimes]; exact h.requestedOn x hx
  · intro p' hp'
    obtain ⟨p, hp, rfl⟩ := mem_modifyPoint.mp hp'
    have := h.quarter p hp
    split <;> simpa using this

/-- the listings after `add_starting_object` / `add_ending_object`: one more (unless already there) -/
theorem register_listed {s : Part} {sd : Side} {t : Int} {o : ObjRef} (ht : t ∈ s.times)
    (sd' : Side) (x : Int) (o' : ObjRef) :
    Listed (register s sd t o) sd' x o' ↔ Listed s sd' x o' ∨ (o' = o ∧ sd' = sd ∧ x = t) := by
  unfold register Listed
  simp only
  constructor
  · rintro ⟨p', hp', hx, ho⟩
    obtain ⟨p, hp, rfl⟩ := mem_modifyPoint.mp hp'
    by_cases hpt : p.t = t
    · simp only [hpt, if_true, setReg_t] at hx ho
      rw [setReg_reg] at ho
      by_cases hsd : sd' = sd
      · subst hsd
        simp only [if_true] at ho
        rcases mem_regAdd.mp ho with ho | rfl
        · exact Or.inl ⟨p, hp, by rw [hpt]; exact hx, ho⟩
        · exact Or.inr ⟨rfl, rfl, hx.symm⟩
      · simp only [hsd, if_false] at ho
        exact Or.inl ⟨p, hp, by rw [hpt]; exact hx, ho⟩
    · simp only [hpt, if_false] at hx ho
      exact Or.inl ⟨p, hp, hx, ho⟩
  · rintro (⟨p, hp, hx, ho⟩ | ⟨rfl, rfl, rfl⟩)
    · refine ⟨_, mem_modifyPoint.mpr ⟨p, hp, rfl⟩, ?_, ?_⟩
      · split <;> simpa using hx
      · split
        · rw [setReg_reg]
          split
          · rename_i hsd; subst hsd; exact mem_regAdd.mpr (Or.inl ho)
          · exact ho
        · exact ho
    · obtain ⟨p, hp, hpt⟩ := List.mem_map.mp ht
      refine ⟨_, mem_modifyPoint.mpr ⟨p, hp, rfl⟩, ?_, ?_⟩
      · simp [hpt]
      · simp [hpt, mem_regAdd]

-- ------------------------------------------------------------------ deregistration

theorem unregister_winv {s : Part} {sd : Side} {t : Int} {o : ObjRef} (h : WCore none s) :
    WCore (some t) (unregister s sd t o) := by
  have hrefs : ∀ e : ObjSt, (e.setAt sd none).ref = e.ref := fun e => by simp
  have htimes := unregister_times s sd t o
  unfold unregister at htimes ⊢
  refine ⟨by rw [htimes]; exact h.sorted, ?_, ?_, nodup_refs_setObj h.objsNodup hrefs, ?_, ?_, ?_, ?_, ?_, ?_,
    h.qsorted, h.qhead⟩
  · intro p' hp'
    obtain ⟨p, hp, rfl⟩ := mem_modifyPoint.mp hp'
    have := h.nonneg p hp
    split <;> simpa using this
  · intro sd' p' hp'
    obtain ⟨p, hp, rfl⟩ := mem_modifyPoint.mp hp'
    split
    · rw [setReg_reg]
      split
      · rename_i hsd; subst hsd; exact nodup_regRemove o (h.regNodup _ p hp)
      · exact h.regNodup sd' p hp
    · exact h.regNodup sd' p hp
  · -- backListed
    intro sd' e' he' p' hp'
    obtain ⟨p, hp, rfl⟩ := mem_modifyPoint.mp hp'
    have hpt : (if p.t = t then p.setReg sd (regRemove (p.reg sd) o) else p).t = p.t := by split <;> simp
    rw [hpt]
    rcases (mem_setObj (f := fun e => e.setAt sd none) h.objsNodup).mp he' with ⟨he, hne⟩ | rfl
    · intro hat
      have hl := h.backListed sd' e' he p hp hat
      split
      · rw [setReg_reg]
        split
        · rename_i hsd; subst hsd; exact mem_regRemove.mpr ⟨hl, hne⟩
        · exact hl
      · exact hl
    · simp only [setAt_ref, getObj_ref]
      by_cases hsd : sd' = sd
      · subst hsd
        simp
      · rw [setAt_at_other _ hsd]
        intro hat
        have hl := h.getObj_backListed sd' o hp hat
        split
        · rw [setReg_reg_other p hsd]; exact hl
        · exact hl
  · intro sd' e' he' x hx
    rw [htimes]
    rcases (mem_setObj (f := fun e => e.setAt sd none) h.objsNodup).mp he' with ⟨he, _⟩ | rfl
    · exact h.refOn sd' e' he x hx
    · by_cases hsd : sd' = sd
      · subst hsd
        simp at hx
      · rw [setAt_at_other _ hsd] at hx
        exact h.getObj_refOn sd' o hx
  · intro sd' p' hp' x hx
    obtain ⟨p, hp, rfl⟩ := mem_modifyPoint.mp hp'
    refine (mem_refs_setObj hrefs).mpr ?_
    split at hx
    · rw [setReg_reg] at hx
      split at hx
      · rename_i hsd; subst hsd
        exact Or.inl (h.listedKnown _ p hp x (mem_regRemove.mp hx).1)
      · exact Or.inl (h.listedKnown sd' p hp x hx)
    · exact Or.inl (h.listedKnown sd' p hp x hx)
  · intro p' hp'
    obtain ⟨p, hp, rfl⟩ := mem_modifyPoint.mp hp'
    split
    · rename_i he
      right; right; right
      simp [he]
    · rcases h.nonempty p hp with a | a | a | a
      · exact Or.inl a
      · exact Or.inr (Or.inl a)
      · exact Or.inr (Or.inr (Or.inl a))
      · simp at a
  · intro x hx
    rw [htimes]; exact h.requestedOn x hx
  · intro p' hp'
    obtain ⟨p, hp, rfl⟩ := mem_modifyPoint.mp hp'
    have := h.quarter p hp
    split <;> simpa using this

/-- the listings after `starting_objects[type(o)].remove(o)`: that one is gone, nothing else -/
theorem unregister_listed (s : Part) (sd : Side) (t : Int) (o : ObjRef) (sd' : Side) (x : Int) (o' : ObjRef) :
    Listed (unregister s sd t o) sd' x o' ↔ Listed s sd' x o' ∧ ¬ (o' = o ∧ sd' = sd ∧ x = t) := by
  unfold unregister Listed
  simp only
  constructor
  · rintro ⟨p', hp', hx, ho⟩
    obtain ⟨p, hp, rfl⟩ := mem_modifyPoint.mp hp'
    by_cases hpt : p.t = t
    · simp only [hpt, if_true, setReg_t] at hx ho
      rw [setReg_reg] at ho
      by_cases hsd : sd' = sd
      · subst hsd
        simp only [if_true] at ho
        obtain ⟨ho1, ho2⟩ := mem_regRemove.mp ho
        exact ⟨⟨p, hp, by rw [hpt]; exact hx, ho1⟩, fun hc => ho2 hc.1⟩
      · simp only [hsd, if_false] at ho
        exact ⟨⟨p, hp, by rw [hpt]; exact hx, ho⟩, fun hc => hsd hc.2.1⟩
    · simp only [hpt, if_false] at hx ho
      exact ⟨⟨p, hp, hx, ho⟩, fun hc => hpt (hx.trans hc.2.2)⟩
  · rintro ⟨⟨p, hp, hx, ho⟩, hn⟩
    refine ⟨_, mem_modifyPoint.mpr ⟨p, hp, rfl⟩, ?_, ?_⟩
    · split <;> simpa using hx
    · split
      · rename_i hpt
        rw [setReg_reg]
        split
        · rename_i hsd; subst hsd
          exact mem_regRemove.mpr ⟨ho, fun hc => hn ⟨hc, rfl, hx.symm.trans hpt⟩⟩
        · exact ho
      · exact ho

-- ------------------------------------------------------------------ _cleanup_point

theorem cleanupPoint_wspec {s : Part} {t : Int} (h : WCore (some t) s) (hl : LinksFrom none s.points)
    (ht : t ∈ s.times) :
    ∃ s', cleanupPoint s t = .ok s' ∧ WCore none s' ∧ LinksFrom none s'.points ∧ s'.objs = s.objs
      ∧ s'.qtab = s.qtab ∧ (∀ sd x o, Listed s' sd x o ↔ Listed s sd x o) := by
  obtain ⟨pre, b, r, hsplit, hbt, h1, h2⟩ := split_at_time h.sorted ht
  have hfind := findPoint_split pre r b t h1 hbt
  rw [← hsplit] at hfind
  unfold cleanupPoint
  simp only [hfind]
  have hbmem : b ∈ s.points := by rw [hsplit]; simp
  by_cases hemp : b.starting.length + b.ending.length = 0
  · -- the point is removed
    simp only [hemp, if_true]
    have hrm := removePoint_present pre r b t h1 hbt
    rw [← hsplit] at hrm
    rw [hrm]
    let s0 : Part := { s with points := pre ++ r, requested := s.requested.filter (· ≠ t) }
    have hsub : ∀ p ∈ pre ++ r, p ∈ s.points ∧ p.t ≠ t := by
      intro p hp
      rw [hsplit]
      rcases List.mem_append.mp hp with hp | hp
      · exact ⟨by simp [hp], by have := h1 p hp; omega⟩
      · exact ⟨by simp [hp], by have := h2 p hp; omega⟩
    have hl0 : ∀ sd x o, Listed s0 sd x o ↔ Listed s sd x o := by
      intro sd x o
      constructor
      · rintro ⟨p, hp, hpt, ho⟩
        exact ⟨p, (hsub p hp).1, hpt, ho⟩
      · rintro ⟨p, hp, hpt, ho⟩
        rw [hsplit] at hp
        simp only [List.mem_append, List.mem_cons] at hp
        rcases hp with hp | rfl | hp
        · exact ⟨p, List.mem_append.mpr (Or.inl hp), hpt, ho⟩
        · rw [reg_eq_nil_of_empty hemp sd] at ho
          cases ho
        · exact ⟨p, List.mem_append.mpr (Or.inr hp), hpt, ho⟩
    refine ⟨{ s with points := eraseLinked pre r, requested := s.requested.filter (· ≠ t) }, rfl, ?_, ?_, rfl, rfl, ?_⟩
    · have htimes0 : ∀ x, x ∈ s0.times ↔ x ∈ s.times ∧ x ≠ t := by
        intro x
        simp only [Part.times, s0, hsplit, List.map_append, List.map_cons, List.mem_append, List.mem_cons,
          List.mem_map]
        constructor
        · rintro (⟨p, hp, rfl⟩ | ⟨p, hp, rfl⟩)
          · exact ⟨Or.inl ⟨p, hp, rfl⟩, by have := h1 p hp; omega⟩
          · exact ⟨Or.inr (Or.inr ⟨p, hp, rfl⟩), by have := h2 p hp; omega⟩
        · rintro ⟨(⟨p, hp, rfl⟩ | rfl | ⟨p, hp, rfl⟩), hne⟩
          · exact Or.inl ⟨p, hp, rfl⟩
          · exact absurd hbt hne
          · exact Or.inr ⟨p, hp, rfl⟩
      have h0 : WCore none s0 := by
        refine ⟨?_, ?_, ?_, h.objsNodup, ?_, ?_, ?_, ?_, ?_, ?_, h.qsorted, h.qhead⟩
        · have hs := h.sorted
          rw [Part.times, hsplit] at hs
          simp only [Part.times, s0, List.map_append, List.map_cons, List.pairwise_append,
            List.pairwise_cons] at hs ⊢
          exact ⟨hs.1, hs.2.1.2, fun a ha c hc => hs.2.2 a ha c (by simp [hc])⟩
        · intro p hp; exact h.nonneg p (hsub p hp).1
        · intro sd p hp; exact h.regNodup sd p (hsub p hp).1
        · intro sd e he p hp; exact h.backListed sd e he p (hsub p hp).1
        · intro sd e he x hx
          rw [htimes0]
          refine ⟨h.refOn sd e he x hx, ?_⟩
          rintro rfl
          have := h.backListed sd e he b hbmem (by rw [hbt]; exact hx)
          rw [reg_eq_nil_of_empty hemp sd] at this
          cases this
        · intro sd p hp o ho; exact h.listedKnown sd p (hsub p hp).1 o ho
        · intro p hp
          obtain ⟨hp1, hp2⟩ := hsub p hp
          rcases h.nonempty p hp1 with a | a | a | a
          · exact Or.inl a
          · exact Or.inr (Or.inl a)
          · refine Or.inr (Or.inr (Or.inl ?_))
            simp only [s0, List.mem_filter]
            exact ⟨a, by simpa using hp2⟩
          · simp only [Option.some.injEq] at a
            exact absurd a hp2
        · intro x hx
          simp only [s0, List.mem_filter, ne_eq, decide_not, Bool.not_eq_eq_eq_not, Bool.not_true,
            decide_eq_false_iff_not] at hx
          rw [htimes0]
          exact ⟨h.requestedOn x hx.1, hx.2⟩
        · intro p hp; exact h.quarter p (hsub p hp).1
      exact h0.congr (unlink_eraseLinked pre r) rfl rfl rfl
    · apply links_eraseLinked pre r b
      rw [← hsplit]; exact hl
    · intro sd x o
      rw [← hl0 sd x o]
      exact listed_congr (s := s0)
        (s' := { s with points := eraseLinked pre r, requested := s.requested.filter (· ≠ t) })
        (unlink_eraseLinked pre r) sd x o
  · -- the point stays
    simp only [hemp, if_false]
    refine ⟨s, rfl, ?_, hl, rfl, rfl, fun _ _ _ => Iff.rfl⟩
    refine { h with nonempty := ?_ }
    intro p hp
    rcases h.nonempty p hp with a | a | a | a
    · exact Or.inl a
    · exact Or.inr (Or.inl a)
    · exact Or.inr (Or.inr (Or.inl a))
    · simp only [Option.some.injEq] at a
      have : p = b := point_unique h.sorted hp hbmem (by rw [a, hbt])
      subst this
      by_cases hs1 : p.starting = []
      · right; left
        intro hs2
        apply hemp
        simp [hs1, hs2]
      · exact Or.inl hs1

-- ------------------------------------------------------------------ the four state-changing operations

/-- the pair "all weak clauses but links" + links -/
def WGood (s : Part) : Prop := WCore none s ∧ LinksFrom none s.points

theorem wgood_iff_winv (s : Part) : WGood s ↔ WInv s := (winv_iff s).symm

theorem addSide_wspec {s : Part} (h : WGood s) {sd : Side} {t : Int} {o : ObjRef} (ht : 0 ≤ t) :
    ∃ s', addSide s sd t o = .ok s' ∧ WGood s' ∧ s'.qtab = s.qtab
      ∧ s'.objs = setObj s.objs o (fun e => e.setAt sd (some t)) ∧ s'.requested = s.requested
      ∧ (∀ x, x ∈ s'.times ↔ x ∈ s.times ∨ x = t)
      ∧ (∀ sd' x o', Listed s' sd' x o' ↔ Listed s sd' x o' ∨ (o' = o ∧ sd' = sd ∧ x = t)) := by
  obtain ⟨s1, he, hc, hl, hmem, hobjs, hq, hr, htimes, hlist⟩ := ensurePoint_wspec h.1 h.2 ht
  rw [addSide_eq, he]
  refine ⟨register s1 sd t o, rfl, ⟨register_winv hc hmem, (register_links s1 sd t o).mpr hl⟩, hq, ?_, hr, ?_, ?_⟩
  · simp [register, hobjs]
  · intro x
    rw [register_times]
    exact htimes x
  · intro sd' x o'
    rw [register_listed hmem, hlist]

theorem removeSide_wspec {s : Part} (h : WGood s) (sd : Side) (o : ObjRef) :
    ∃ s', removeSide s sd o = .ok s' ∧ WGood s' ∧ s'.qtab = s.qtab
      ∧ s'.objs = (match (getObj s.objs o).at sd with
          | none => s.objs
          | some _ => setObj s.objs o (fun e => e.setAt sd none))
      ∧ (∀ sd' x o', Listed s' sd' x o' ↔
          Listed s sd' x o' ∧ ¬ (o' = o ∧ sd' = sd ∧ (getObj s.objs o).at sd = some x)) := by
  cases hat : (getObj s.objs o).at sd with
  | none =>
    refine ⟨s, ?_, h, rfl, rfl, ?_⟩
    · unfold removeSide
      simp [hat, pure, Except.pure]
    · intro sd' x o'
      simp
  | some t =>
    rw [removeSide_eq_cleanup hat]
    have hu : WCore (some t) (unregister s sd t o) := unregister_winv h.1
    have hlu := (unregister_links s sd t o).mpr h.2
    have htu : t ∈ (unregister s sd t o).times := by
      rw [unregister_times]
      exact h.1.getObj_refOn sd o hat
    obtain ⟨s', he, hc, hl, hobjs, hq, hlist⟩ := cleanupPoint_wspec hu hlu htu
    refine ⟨s', he, ⟨hc, hl⟩, by rw [hq]; rfl, by rw [hobjs]; rfl, ?_⟩
    intro sd' x o'
    rw [hlist, unregister_listed]
    simp only [Option.some.injEq]
    constructor
    · rintro ⟨a, b⟩; exact ⟨a, fun hc => b ⟨hc.1, hc.2.1, hc.2.2.symm⟩⟩
    · rintro ⟨a, b⟩; exact ⟨a, fun hc => b ⟨hc.1, hc.2.1, hc.2.2.symm⟩⟩

/-- `set_quarter_duration` keeps the weak invariant and the listings -/
theorem setQD_wgood {s : Part} (h : WGood s) {t : Int} (ht : 0 ≤ t) (q : Nat) :
    WGood (setQD s t q) ∧ (∀ sd x o, Listed (setQD s t q) sd x o ↔ Listed s sd x o) := by
  have r := setQD_result h.1.toQCore ht q
  have hrg : ∀ p' ∈ (setQD s t q).points, ∃ p ∈ s.points,
      p.t = p'.t ∧ p.starting = p'.starting ∧ p.ending = p'.ending := by
    intro p' hp'
    have : (p'.t, p'.prev, p'.next, p'.starting, p'.ending)
        ∈ (setQD s t q).points.map (fun p => (p.t, p.prev, p.next, p.starting, p.ending)) :=
      List.mem_map.mpr ⟨p', hp', rfl⟩
    rw [r.same] at this
    obtain ⟨p, hp, he⟩ := List.mem_map.mp this
    simp only [Prod.mk.injEq] at he
    exact ⟨p, hp, he.1, he.2.2.2.1, he.2.2.2.2⟩
  have hrg' : ∀ p ∈ s.points, ∃ p' ∈ (setQD s t q).points,
      p.t = p'.t ∧ p.starting = p'.starting ∧ p.ending = p'.ending := by
    intro p hp
    have : (p.t, p.prev, p.next, p.starting, p.ending)
        ∈ s.points.map (fun p => (p.t, p.prev, p.next, p.starting, p.ending)) :=
      List.mem_map.mpr ⟨p, hp, rfl⟩
    rw [← r.same] at this
    obtain ⟨p', hp', he⟩ := List.mem_map.mp this
    simp only [Prod.mk.injEq] at he
    exact ⟨p', hp', he.1.symm, he.2.2.2.1.symm, he.2.2.2.2.symm⟩
  have hreg : ∀ (p p' : Point), p.starting = p'.starting → p.ending = p'.ending → ∀ sd, p.reg sd = p'.reg sd := by
    intro p p' h1 h2 sd
    cases sd <;> simp [Point.reg, h1, h2]
  have htimes : (setQD s t q).times = s.times := by
    have := congrArg (List.map (·.1)) r.same
    simpa [Part.times, List.map_map, Function.comp_def] using this
  refine ⟨⟨⟨by rw [htimes]; exact h.1.sorted, ?_, ?_, by rw [r.objs]; exact h.1.objsNodup, ?_, ?_, ?_, ?_, ?_,
    r.quarter, r.qsorted, r.qhead⟩, ?_⟩, ?_⟩
  · intro p' hp'
    obtain ⟨p, hp, e1, -, -⟩ := hrg p' hp'
    rw [← e1]; exact h.1.nonneg p hp
  · intro sd p' hp'
    obtain ⟨p, hp, e1, e2, e3⟩ := hrg p' hp'
    rw [← hreg p p' e2 e3 sd]; exact h.1.regNodup sd p hp
  · intro sd e he p' hp'
    rw [r.objs] at he
    obtain ⟨p, hp, e1, e2, e3⟩ := hrg p' hp'
    rw [← hreg p p' e2 e3 sd, ← e1]; exact h.1.backListed sd e he p hp
  · intro sd e he x hx
    rw [r.objs] at he
    rw [htimes]; exact h.1.refOn sd e he x hx
  · intro sd p' hp' o ho
    obtain ⟨p, hp, e1, e2, e3⟩ := hrg p' hp'
    rw [r.objs]
    exact h.1.listedKnown sd p hp o (by rw [hreg p p' e2 e3 sd]; exact ho)
  · intro p' hp'
    obtain ⟨p, hp, e1, e2, e3⟩ := hrg p' hp'
    rw [← e1, ← e2, ← e3, r.requested]; exact h.1.nonempty p hp
  · intro x hx
    rw [r.requested] at hx
    rw [htimes]; exact h.1.requestedOn x hx
  · apply (linksFrom_congr none s.points (setQD s t q).points ?_).mpr h.2
    have := congrArg (List.map (fun x : Int × Option Int × Option Int × List ObjRef × List ObjRef =>
      (x.1, x.2.1, x.2.2.1))) r.same
    simpa [List.map_map, Function.comp_def] using this
  · intro sd x o
    constructor
    · rintro ⟨p', hp', hx, ho⟩
      obtain ⟨p, hp, e1, e2, e3⟩ := hrg p' hp'
      exact ⟨p, hp, by rw [e1]; exact hx, by rw [hreg p p' e2 e3 sd]; exact ho⟩
    · rintro ⟨p, hp, hx, ho⟩
      obtain ⟨p', hp', e1, e2, e3⟩ := hrg' p hp
      exact ⟨p', hp', by rw [← e1]; exact hx, by rw [← hreg p p' e2 e3 sd]; exact ho⟩

end TL
