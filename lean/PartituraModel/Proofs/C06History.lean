/-
C06 (round 5) helper lemmas for Props/C06History.lean: histories with a step that hands its state back; the loader
does not care about `end_of_track` messages (what mido adds when it writes a file) except in `meta_other`; `fixEot`
is idempotent, so a parsed file is a fixed point of save-and-parse.
-/
import PartituraModel.Model.PerfObject
import PartituraModel.Proofs.C06Lists
import PartituraModel.Proofs.C06Pair
import PartituraModel.Proofs.C06Stable
import PartituraModel.Proofs.C06Ids

namespace C06History
open Model Model.PerfMidi C06Sort C06Lists C06Pair C06Stable C06Ids

-- ------------------------------------------------------------------ histories

/-- a step function that hands the state back unchanged: after every history the state is what it was and the
    i-th result is the result of that use on the ORIGINAL state -/
theorem runWith_pure {σ ι ο : Type} (step : σ → ι → σ × ο) (hstep : ∀ s u, (step s u).1 = s) (s : σ) (us : List ι) :
    runWith step s us = (s, us.map fun u => (step s u).2) := by
  induction us with
  | nil => rfl
  | cons u us ih => simp only [runWith, hstep, ih, List.map_cons]

-- ------------------------------------------------------------------ a track without its `end_of_track`s

/-- the messages of a track that are no `end_of_track` -/
def ne (t : Track) : Track := t.filter (fun m => !isEot m.2)

theorem ne_fixEot (t : Track) : ne (fixEot t) = ne t := filter_fixEot t

theorem ne_cons_eot (k : Int) (t : Track) : ne ((k, Ev.eot) :: t) = ne t := by
  simp [ne, isEot]

theorem ne_cons_other (k : Int) (e : Ev) (t : Track) (h : isEot e = false) : ne ((k, e) :: t) = (k, e) :: ne t := by
  simp [ne, h]

theorem pairFrom_ne (l : Track) : ∀ s, pairFrom s (ne l) = pairFrom s l := by
  induction l with
  | nil => intro s; rfl
  | cons m l ih =>
    intro s
    obtain ⟨k, e⟩ := m
    cases e with
    | eot => rw [ne_cons_eot, ih, pairFrom_skip s k Ev.eot l rfl]
    | noteOn ch p v =>
      rw [ne_cons_other _ _ _ rfl]
      simp only [pairFrom, ih]
    | noteOff ch p v =>
      rw [ne_cons_other _ _ _ rfl]
      simp only [pairFrom, ih]
    | control a b c => rw [ne_cons_other _ _ _ rfl, pairFrom_skip _ _ _ _ rfl, pairFrom_skip _ _ _ _ rfl, ih]
    | program a b => rw [ne_cons_other _ _ _ rfl, pairFrom_skip _ _ _ _ rfl, pairFrom_skip _ _ _ _ rfl, ih]
    | tempo a => rw [ne_cons_other _ _ _ rfl, pairFrom_skip _ _ _ _ rfl, pairFrom_skip _ _ _ _ rfl, ih]
    | timeSig a b => rw [ne_cons_other _ _ _ rfl, pairFrom_skip _ _ _ _ rfl, pairFrom_skip _ _ _ _ rfl, ih]
    | keySig a b => rw [ne_cons_other _ _ _ rfl, pairFrom_skip _ _ _ _ rfl, pairFrom_skip _ _ _ _ rfl, ih]
    | metaMsg a => rw [ne_cons_other _ _ _ rfl, pairFrom_skip _ _ _ _ rfl, pairFrom_skip _ _ _ _ rfl, ih]
    | other a => rw [ne_cons_other _ _ _ rfl, pairFrom_skip _ _ _ _ rfl, pairFrom_skip _ _ _ _ rfl, ih]

theorem pairNotes_ne (l : Track) : pairNotes (ne l) = pairNotes l := pairFrom_ne l _

theorem sel_ne {β : Type} (g : Ev → Option β) (h : g Ev.eot = none) (t : Track) : sel g (ne t) = sel g t :=
  sel_filter_eot g h t

theorem metasOf_ne (t : Track) : metasOf (ne t) = (metasOf t).filter (fun m => m.2.isSome) := by
  induction t with
  | nil => rfl
  | cons m t ih =>
    obtain ⟨k, e⟩ := m
    cases e with
    | eot => rw [ne_cons_eot, ih]; simp [metasOf]
    | metaMsg a => rw [ne_cons_other _ _ _ rfl]; simp [metasOf, ih]
    | noteOn a b c => rw [ne_cons_other _ _ _ rfl]; simp [metasOf, ih]
    | noteOff a b c => rw [ne_cons_other _ _ _ rfl]; simp [metasOf, ih]
    | control a b c => rw [ne_cons_other _ _ _ rfl]; simp [metasOf, ih]
    | program a b => rw [ne_cons_other _ _ _ rfl]; simp [metasOf, ih]
    | tempo a => rw [ne_cons_other _ _ _ rfl]; simp [metasOf, ih]
    | timeSig a b => rw [ne_cons_other _ _ _ rfl]; simp [metasOf, ih]
    | keySig a b => rw [ne_cons_other _ _ _ rfl]; simp [metasOf, ih]
    | other a => rw [ne_cons_other _ _ _ rfl]; simp [metasOf, ih]

/-- a loaded track without the `end_of_track` entries of its `meta_other` -/
def core (t : RTrack) : RTrack := { t with metas := t.metas.filter (fun m => m.2.isSome) }

theorem kept_core (t : RTrack) : (core t).kept = t.kept := rfl

/-- reading a track, up to `end_of_track` entries, is reading the track without its `end_of_track` messages -/
theorem core_readTrack (i : Nat) (t : Track) : core (readTrack i t) = readTrack i (ne t) := by
  unfold core readTrack
  simp only
  rw [pairNotes_ne, metasOf_ne, controlsOf_eq, controlsOf_eq, programsOf_eq, programsOf_eq, timeSigsOf_eq, timeSigsOf_eq,
    keySigsOf_eq, keySigsOf_eq, sel_ne _ rfl, sel_ne _ rfl, sel_ne _ rfl, sel_ne _ rfl]

/-- … so `loadFile`, up to these entries, depends on the tracks without their `end_of_track`s only -/
theorem loadFile_core (m : Bool) (ts : List Track) :
    (loadFile m ts).map core
      = (((loaderTracks m ts).map ne).zipIdx.map fun p => readTrack p.2 p.1).filter RTrack.kept := by
  unfold loadFile
  have hf : ∀ l : List RTrack, (l.filter RTrack.kept).map core = (l.map core).filter RTrack.kept := by
    intro l
    rw [List.filter_map]
    rfl
  rw [hf, List.zipIdx_map, List.map_map, List.map_map]
  congr 1
  apply List.map_congr_left
  intro p _
  exact core_readTrack p.2 p.1

theorem tempoList_ne (d : Nat) (ts : List Track) : tempoList d (ts.map ne) = tempoList d ts := by
  unfold tempoList
  congr 2
  rw [List.flatMap_map]
  apply List.flatMap_congr
  intro t _
  rw [temposOf_eq, temposOf_eq, sel_ne _ rfl]

theorem secondsAt_ne (d : Nat) (ts : List Track) (ppq : Nat) : secondsAt d (ts.map ne) ppq = secondsAt d ts ppq := by
  funext k
  unfold secondsAt
  rw [tempoList_ne]

-- ------------------------------------------------------------------ save-and-parse

theorem ne_sortBy (l : Track) : ne (sortBy tickLe l) = sortBy tickLe (ne l) :=
  filter_sortBy tickLe tickLe_total tickLe_trans _ l

theorem ne_flatten (ts : List Track) : ne ts.flatten = (ts.map ne).flatten := by
  induction ts with
  | nil => rfl
  | cons t ts ih =>
    rw [List.flatten_cons, List.map_cons, List.flatten_cons, ← ih]
    unfold ne
    rw [List.filter_append]

theorem ne_mergeAbs (ts : List Track) : ne (mergeAbs ts) = sortBy tickLe (ts.map ne).flatten := by
  unfold mergeAbs
  rw [ne_fixEot, ne_sortBy, ne_flatten]

theorem map_ne_fixEot (ts : List Track) : (ts.map fixEot).map ne = ts.map ne := by
  rw [List.map_map]
  apply List.map_congr_left
  intro t _
  exact ne_fixEot t

/-- the tracks the loader walks over, for the object and for the file it is saved to: the same up to `end_of_track` -/
theorem loaderTracks_saved_ne (m : Bool) (f : MidiObj) :
    (loaderTracks m f.saved.tracks).map ne = (loaderTracks m f.tracks).map ne := by
  have h1 : f.saved.tracks.map toAbs = (f.tracks.map toAbs).map fixEot := by
    unfold MidiObj.saved
    simp only [List.map_map]
    apply List.map_congr_left
    intro t _
    simp [toAbs_toDelta]
  unfold loaderTracks
  rw [h1]
  cases m with
  | false =>
    simp only [Bool.false_eq_true, if_false]
    exact map_ne_fixEot _
  | true =>
    simp only [if_true, List.map_cons, List.map_nil]
    rw [ne_mergeAbs, ne_mergeAbs, map_ne_fixEot]

theorem lastTick_append_one (l : Track) (k : Int) (e : Ev) : lastTick (l ++ [(k, e)]) = k := by
  induction l with
  | nil => rfl
  | cons a l ih =>
    cases l with
    | nil => obtain ⟨x, y⟩ := a; rfl
    | cons b r =>
      have : lastTick (a :: (b :: r ++ [(k, e)])) = lastTick (b :: r ++ [(k, e)]) := by
        obtain ⟨x, y⟩ := a; rfl
      rw [List.cons_append, this]
      exact ih

theorem fixEot_idem (l : Track) : fixEot (fixEot l) = fixEot l := by
  have h := filter_fixEot l
  have e : fixEot (fixEot l) = (fixEot l).filter (fun m => !isEot m.2) ++ [(lastTick (fixEot l), Ev.eot)] := rfl
  rw [e, h]
  have e2 : lastTick (fixEot l) = lastTick l := by
    unfold fixEot
    rw [lastTick_append_one]
  rw [e2]
  rfl

/-- a file that was written by mido is a fixed point of save-and-parse -/
theorem saved_idem (f : MidiObj) : f.saved.saved = f.saved := by
  unfold MidiObj.saved
  simp only [List.map_map]
  congr 1
  apply List.map_congr_left
  intro t _
  simp [toAbs_toDelta, fixEot_idem]

-- ------------------------------------------------------------------ the `kept` filter loses no note, control, program

theorem flatMap_filter_kept {β : Type} (f : RTrack → List β) (hf : ∀ t, t.kept = false → f t = []) (l : List RTrack) :
    (l.filter RTrack.kept).flatMap f = l.flatMap f := by
  induction l with
  | nil => rfl
  | cons t l ih =>
    by_cases h : t.kept = true
    · rw [List.filter_cons_of_pos h, List.flatMap_cons, List.flatMap_cons, ih]
    · have h' : t.kept = false := by simpa using h
      rw [List.filter_cons_of_neg h, List.flatMap_cons, ih, hf t h', List.nil_append]

theorem not_kept (t : RTrack) (h : t.kept = false) : t.notes = [] ∧ t.controls = [] ∧ t.programs = [] := by
  unfold RTrack.kept at h
  simp only [Bool.not_eq_false', Bool.and_eq_true, List.isEmpty_iff] at h
  exact ⟨h.1.1, h.1.2, h.2⟩

theorem flatMap_zipIdx_read {β : Type} (g : Track → List β) (ts : List Track) (k : Nat) (f : RTrack → List β)
    (h : ∀ i t, f (readTrack i t) = g t) :
    ((ts.zipIdx k).map fun p => readTrack p.2 p.1).flatMap f = ts.flatMap g := by
  rw [List.flatMap_map]
  induction ts generalizing k with
  | nil => rfl
  | cons t ts ih =>
    rw [List.zipIdx_cons, List.flatMap_cons, List.flatMap_cons, h, ih]

/-- all controls of the walked tracks are in the performed parts (a track that makes no part has none) -/
theorem loadFile_controls (m : Bool) (ts : List Track) :
    (loadFile m ts).flatMap (·.controls) = (loaderTracks m ts).flatMap controlsOf := by
  unfold loadFile
  rw [flatMap_filter_kept _ (fun t h => (not_kept t h).2.1)]
  exact flatMap_zipIdx_read controlsOf _ 0 _ (fun _ _ => rfl)

theorem loadFile_programs (m : Bool) (ts : List Track) :
    (loadFile m ts).flatMap (·.programs) = (loaderTracks m ts).flatMap programsOf := by
  unfold loadFile
  rw [flatMap_filter_kept _ (fun t h => (not_kept t h).2.2)]
  exact flatMap_zipIdx_read programsOf _ 0 _ (fun _ _ => rfl)

theorem loadFile_notes (m : Bool) (ts : List Track) :
    (loadFile m ts).flatMap (·.notes) = (loaderTracks m ts).flatMap fun t => sortNotes (pairNotes t) := by
  unfold loadFile
  rw [flatMap_filter_kept _ (fun t h => (not_kept t h).1)]
  exact flatMap_zipIdx_read (fun t => sortNotes (pairNotes t)) _ 0 _ (fun _ _ => rfl)

end C06History
