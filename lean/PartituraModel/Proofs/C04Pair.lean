/-
C04 — soundness of the readers' pairing automaton on the note stream the (repaired) writer
produces: if no two notes of equal channel and pitch overlap, pairing the encoded stream returns
exactly the notes.

The stream is the stable sort by tick of  offs ++ zero-duration on/off pairs ++ ons.  Every event
is tagged with the index of its note; the sorted stream is then strictly ascending in the
lexicographic order (tick, kind, index, on-before-off), and the invariant of the run over a prefix
is: the output is the notes of the offs seen so far, and every note whose on has been seen but
whose off has not is in the dictionary under its (channel, pitch) with its onset and velocity.
-/
import PartituraModel.Proofs.C04Sort

namespace C04P
open Model Model.MidiPair C04S

-- ------------------------------------------------------------------ hypotheses

def keyOf (n : NoteRec) : Nat × Nat := (n.ch, n.pitch)

/-- two notes do not overlap if they share channel and pitch: positive durations are disjoint as
    half-open intervals; a zero-duration note is not strictly inside a positive one -/
def Compat (m n : NoteRec) : Prop :=
  keyOf m = keyOf n →
    ((m.on < m.off ∧ n.on < n.off) → (m.off ≤ n.on ∨ n.off ≤ m.on)) ∧
    ((m.on < m.off ∧ n.on = n.off) → ¬ (m.on < n.on ∧ n.on < m.off)) ∧
    ((n.on < n.off ∧ m.on = m.off) → ¬ (n.on < m.on ∧ m.on < n.off))

instance (m n : NoteRec) : Decidable (Compat m n) := by unfold Compat; infer_instance

theorem Compat.symm {m n : NoteRec} (h : Compat m n) : Compat n m := by
  intro hk
  obtain ⟨a, b, c⟩ := h hk.symm
  exact ⟨fun hh => (a ⟨hh.2, hh.1⟩).symm, c, b⟩

/-- no two notes of equal pitch overlap within the track/channel -/
def NoOverlap (notes : List NoteRec) : Prop := notes.Pairwise Compat

/-- a note the writer can produce: audible velocity, end not before start -/
def Valid (n : NoteRec) : Prop := 0 < n.vel ∧ n.on ≤ n.off

-- ------------------------------------------------------------------ tagged events

structure TEv where
  idx : Nat
  isOff : Bool
  note : NoteRec
  deriving DecidableEq

def TEv.tick (e : TEv) : Int := if e.isOff then e.note.off else e.note.on

def TEv.toMsg (e : TEv) : Msg :=
  if e.isOff then .noteOff e.note.ch e.note.pitch 64 else .noteOn e.note.ch e.note.pitch e.note.vel

/-- kind of an event: 0 off of a sounding note, 1 zero-duration note, 2 on of a sounding note -/
def cls (e : TEv) : Nat := if isZero e.note then 1 else if e.isOff then 0 else 2

def tev (e : TEv) : Int × TEv := (e.tick, e)
def onE (p : Nat × NoteRec) : Int × TEv := tev ⟨p.1, false, p.2⟩
def offE (p : Nat × NoteRec) : Int × TEv := tev ⟨p.1, true, p.2⟩

def qlt (a b : TEv) : Prop :=
  cls a < cls b ∨ (cls a = cls b ∧ (a.idx < b.idx ∨ (a.idx = b.idx ∧ a.isOff = false ∧ b.isOff = true)))

def Qlt (a b : Int × TEv) : Prop := qlt a.2 b.2
abbrev Rlt := Lex Qlt

/-- indexing from `k` -/
def tag : Nat → List NoteRec → List (Nat × NoteRec)
  | _, [] => []
  | k, n :: ns => (k, n) :: tag (k + 1) ns

def offsT (ns : List (Nat × NoteRec)) : List (Int × TEv) := (ns.filter (fun p => !isZero p.2)).map offE
def zerosT (ns : List (Nat × NoteRec)) : List (Int × TEv) := (ns.filter (fun p => isZero p.2)).flatMap fun p => [onE p, offE p]
def onsT (ns : List (Nat × NoteRec)) : List (Int × TEv) := (ns.filter (fun p => !isZero p.2)).map onE
def streamT (ns : List (Nat × NoteRec)) : List (Int × TEv) := sortEv (offsT ns ++ zerosT ns ++ onsT ns)

def toEv (x : Int × TEv) : Int × Msg := (x.1, x.2.toMsg)

-- ------------------------------------------------------------------ tagging

theorem tag_idx_ge (k : Nat) (l : List NoteRec) : ∀ p ∈ tag k l, k ≤ p.1 := by
  induction l generalizing k with
  | nil => intro p hp; cases hp
  | cons n ns ih =>
    intro p hp
    simp only [tag, List.mem_cons] at hp
    rcases hp with rfl | hp
    · exact le_refl _
    · exact Nat.le_of_succ_le (ih (k + 1) p hp)

theorem tag_idx_lt (k : Nat) (l : List NoteRec) : (tag k l).Pairwise (fun p q => p.1 < q.1) := by
  induction l generalizing k with
  | nil => exact List.Pairwise.nil
  | cons n ns ih =>
    simp only [tag]
    exact List.pairwise_cons.mpr ⟨fun q hq => tag_idx_ge (k + 1) ns q hq, ih (k + 1)⟩

theorem tag_compat (k : Nat) (l : List NoteRec) (h : NoOverlap l) :
    (tag k l).Pairwise (fun p q => Compat p.2 q.2) := by
  induction l generalizing k with
  | nil => exact List.Pairwise.nil
  | cons n ns ih =>
    obtain ⟨h1, h2⟩ := List.pairwise_cons.mp h
    simp only [tag]
    refine List.pairwise_cons.mpr ⟨?_, ih (k + 1) h2⟩
    intro q hq
    have : q.2 ∈ ns := by
      clear ih h h1 h2
      induction ns generalizing k with
      | nil => cases hq
      | cons a as ih2 =>
        simp only [tag, List.mem_cons] at hq
        rcases hq with rfl | hq
        · exact List.mem_cons_self
        · exact List.mem_cons_of_mem _ (ih2 (k + 1) hq)
    exact h1 q.2 this

theorem tag_map_snd (k : Nat) (l : List NoteRec) : (tag k l).map (·.2) = l := by
  induction l generalizing k with
  | nil => rfl
  | cons n ns ih => simp [tag, ih]

theorem tag_filter_map {β : Type} (k : Nat) (l : List NoteRec) (p : NoteRec → Bool) (g : NoteRec → β) :
    ((tag k l).filter (fun x => p x.2)).map (fun x => g x.2) = (l.filter p).map g := by
  induction l generalizing k with
  | nil => rfl
  | cons n ns ih =>
    simp only [tag, List.filter_cons]
    split <;> simp [ih]

theorem tag_filter_flatMap {β : Type} (k : Nat) (l : List NoteRec) (p : NoteRec → Bool) (g : NoteRec → List β) :
    ((tag k l).filter (fun x => p x.2)).flatMap (fun x => g x.2) = (l.filter p).flatMap g := by
  induction l generalizing k with
  | nil => rfl
  | cons n ns ih =>
    simp only [tag, List.filter_cons]
    split <;> simp [ih]

/-- a Pairwise list is totally ordered by its relation -/
theorem pairwise_total {β : Type} {R : β → β → Prop} {l : List β} (h : l.Pairwise R) {a b : β}
    (ha : a ∈ l) (hb : b ∈ l) : a = b ∨ R a b ∨ R b a := by
  induction l with
  | nil => cases ha
  | cons x xs ih =>
    obtain ⟨hx, hxs⟩ := List.pairwise_cons.mp h
    rcases List.mem_cons.mp ha with rfl | ha'
    · rcases List.mem_cons.mp hb with rfl | hb'
      · exact Or.inl rfl
      · exact Or.inr (Or.inl (hx b hb'))
    · rcases List.mem_cons.mp hb with rfl | hb'
      · exact Or.inr (Or.inr (hx a ha'))
      · exact ih hxs ha' hb'

-- ------------------------------------------------------------------ the encoded stream, tagged

theorem isZero_iff (n : NoteRec) : isZero n = true ↔ n.on = n.off := by simp [isZero]

theorem encode_eq (notes : List NoteRec) : encode notes = (streamT (tag 0 notes)).map toEv := by
  unfold encode trackOrder noteEvents streamT toEv
  rw [sortEv_map]
  congr 1
  simp only [List.nil_append, List.map_append, offsT, zerosT, onsT, List.map_map, List.map_flatMap]
  have e1 : ((tag 0 notes).filter (fun p => !isZero p.2)).map ((fun x : Int × TEv => (x.1, x.2.toMsg)) ∘ offE)
      = (notes.filter (fun n => !isZero n)).map offMsg :=
    tag_filter_map 0 notes (fun n => !isZero n) offMsg
  have e2 : ((tag 0 notes).filter (fun p => !isZero p.2)).map ((fun x : Int × TEv => (x.1, x.2.toMsg)) ∘ onE)
      = (notes.filter (fun n => !isZero n)).map onMsg :=
    tag_filter_map 0 notes (fun n => !isZero n) onMsg
  have e3 : ((tag 0 notes).filter (fun p => isZero p.2)).flatMap
        (fun p => List.map (fun x : Int × TEv => (x.1, x.2.toMsg)) [onE p, offE p])
      = (notes.filter isZero).flatMap (fun n => [onMsg n, offMsg n]) :=
    tag_filter_flatMap 0 notes isZero (fun n => [onMsg n, offMsg n])
  rw [e1, e2, e3]

theorem onE_ne_offE (p q : Nat × NoteRec) : onE p ≠ offE q := by
  intro h
  have := congrArg (fun x => x.2.isOff) h
  simp [onE, offE, tev] at this

theorem onE_inj {p q : Nat × NoteRec} (h : onE p = onE q) : p = q := by
  have h1 := congrArg (fun x => x.2.idx) h
  have h2 := congrArg (fun x => x.2.note) h
  simp only [onE, tev] at h1 h2
  exact Prod.ext h1 h2

theorem offE_inj {p q : Nat × NoteRec} (h : offE p = offE q) : p = q := by
  have h1 := congrArg (fun x => x.2.idx) h
  have h2 := congrArg (fun x => x.2.note) h
  simp only [offE, tev] at h1 h2
  exact Prod.ext h1 h2

theorem mem_streamT (ns : List (Nat × NoteRec)) (x : Int × TEv) :
    x ∈ streamT ns ↔ ∃ p ∈ ns, x = onE p ∨ x = offE p := by
  unfold streamT
  rw [mem_sortEv]
  simp only [List.mem_append, offsT, zerosT, onsT, List.mem_map, List.mem_filter, List.mem_flatMap,
    List.mem_cons, List.not_mem_nil, or_false]
  constructor
  · rintro ((⟨p, ⟨hp, _⟩, rfl⟩ | ⟨p, ⟨hp, _⟩, h⟩) | ⟨p, ⟨hp, _⟩, rfl⟩)
    · exact ⟨p, hp, Or.inr rfl⟩
    · exact ⟨p, hp, h⟩
    · exact ⟨p, hp, Or.inl rfl⟩
  · rintro ⟨p, hp, h⟩
    cases hz : isZero p.2 with
    | true => exact Or.inl (Or.inr ⟨p, ⟨hp, hz⟩, h⟩)
    | false =>
      rcases h with rfl | rfl
      · exact Or.inr ⟨p, ⟨hp, by simp [hz]⟩, rfl⟩
      · exact Or.inl (Or.inl ⟨p, ⟨hp, by simp [hz]⟩, rfl⟩)

theorem cls_off_pos (p : Nat × NoteRec) (h : isZero p.2 = false) : cls (offE p).2 = 0 := by
  simp [cls, offE, tev, h]
theorem cls_on_pos (p : Nat × NoteRec) (h : isZero p.2 = false) : cls (onE p).2 = 2 := by
  simp [cls, onE, tev, h]
theorem cls_off_zero (p : Nat × NoteRec) (h : isZero p.2 = true) : cls (offE p).2 = 1 := by
  simp [cls, offE, tev, h]
theorem cls_on_zero (p : Nat × NoteRec) (h : isZero p.2 = true) : cls (onE p).2 = 1 := by
  simp [cls, onE, tev, h]

/-- the unsorted concatenation is ascending in (kind, index, on-before-off) -/
theorem concat_pairwise (ns : List (Nat × NoteRec)) (hidx : ns.Pairwise (fun p q => p.1 < q.1)) :
    (offsT ns ++ zerosT ns ++ onsT ns).Pairwise Qlt := by
  have hoffs : (offsT ns).Pairwise Qlt := by
    unfold offsT
    rw [List.pairwise_map]
    refine (hidx.filter _).imp_of_mem ?_
    intro p q hp hq hpq
    have hzp : isZero p.2 = false := by simpa using (List.mem_filter.mp hp).2
    have hzq : isZero q.2 = false := by simpa using (List.mem_filter.mp hq).2
    refine Or.inr ⟨by rw [cls_off_pos p hzp, cls_off_pos q hzq], Or.inl ?_⟩
    simpa [offE, tev] using hpq
  have hons : (onsT ns).Pairwise Qlt := by
    unfold onsT
    rw [List.pairwise_map]
    refine (hidx.filter _).imp_of_mem ?_
    intro p q hp hq hpq
    have hzp : isZero p.2 = false := by simpa using (List.mem_filter.mp hp).2
    have hzq : isZero q.2 = false := by simpa using (List.mem_filter.mp hq).2
    refine Or.inr ⟨by rw [cls_on_pos p hzp, cls_on_pos q hzq], Or.inl ?_⟩
    simpa [onE, tev] using hpq
  have hzeros : (zerosT ns).Pairwise Qlt := by
    unfold zerosT
    rw [List.pairwise_flatMap]
    constructor
    · intro p hp
      have hzp : isZero p.2 = true := (List.mem_filter.mp hp).2
      refine List.pairwise_cons.mpr ⟨?_, List.pairwise_singleton _ _⟩
      intro y hy
      simp only [List.mem_cons, List.not_mem_nil, or_false] at hy
      subst hy
      refine Or.inr ⟨by rw [cls_on_zero p hzp, cls_off_zero p hzp], Or.inr ?_⟩
      simp [onE, offE, tev]
    · refine (hidx.filter _).imp_of_mem ?_
      intro p q hp hq hpq x hx y hy
      have hzp : isZero p.2 = true := (List.mem_filter.mp hp).2
      have hzq : isZero q.2 = true := (List.mem_filter.mp hq).2
      simp only [List.mem_cons, List.not_mem_nil, or_false] at hx hy
      have cx : cls x.2 = 1 := by rcases hx with rfl | rfl; exact cls_on_zero p hzp; exact cls_off_zero p hzp
      have cy : cls y.2 = 1 := by rcases hy with rfl | rfl; exact cls_on_zero q hzq; exact cls_off_zero q hzq
      have ix : x.2.idx = p.1 := by rcases hx with rfl | rfl <;> simp [onE, offE, tev]
      have iy : y.2.idx = q.1 := by rcases hy with rfl | rfl <;> simp [onE, offE, tev]
      exact Or.inr ⟨by rw [cx, cy], Or.inl (by rw [ix, iy]; exact hpq)⟩
  have clsOffs : ∀ a ∈ offsT ns, cls a.2 = 0 := by
    intro a ha
    simp only [offsT, List.mem_map, List.mem_filter] at ha
    obtain ⟨p, ⟨_, hz⟩, rfl⟩ := ha
    exact cls_off_pos p (by simpa using hz)
  have clsOns : ∀ a ∈ onsT ns, cls a.2 = 2 := by
    intro a ha
    simp only [onsT, List.mem_map, List.mem_filter] at ha
    obtain ⟨p, ⟨_, hz⟩, rfl⟩ := ha
    exact cls_on_pos p (by simpa using hz)
  have clsZeros : ∀ a ∈ zerosT ns, cls a.2 = 1 := by
    intro a ha
    simp only [zerosT, List.mem_flatMap, List.mem_filter, List.mem_cons, List.not_mem_nil, or_false] at ha
    obtain ⟨p, ⟨_, hz⟩, h⟩ := ha
    rcases h with rfl | rfl
    · exact cls_on_zero p hz
    · exact cls_off_zero p hz
  rw [List.pairwise_append, List.pairwise_append]
  refine ⟨⟨hoffs, hzeros, ?_⟩, hons, ?_⟩
  · intro a ha b hb
    exact Or.inl (by rw [clsOffs a ha, clsZeros b hb]; exact Nat.zero_lt_one)
  · intro a ha b hb
    rcases List.mem_append.mp ha with ha | ha
    · exact Or.inl (by rw [clsOffs a ha, clsOns b hb]; exact Nat.zero_lt_two)
    · exact Or.inl (by rw [clsZeros a ha, clsOns b hb]; exact Nat.one_lt_two)

theorem streamT_sorted (ns : List (Nat × NoteRec)) (hidx : ns.Pairwise (fun p q => p.1 < q.1)) :
    (streamT ns).Pairwise Rlt :=
  sortEv_pairwise Qlt _ (concat_pairwise ns hidx)

-- ------------------------------------------------------------------ order facts

theorem rlt_irrefl (x : Int × TEv) : ¬ Rlt x x := by
  intro h
  rcases h with h | ⟨_, h⟩
  · exact lt_irrefl _ h
  · rcases h with h | ⟨_, h | ⟨_, h1, h2⟩⟩
    · exact lt_irrefl _ h
    · exact lt_irrefl _ h
    · rw [h1] at h2; cases h2

/-- the off of a note is never before its on -/
theorem off_not_before_on (p : Nat × NoteRec) (hv : Valid p.2) : ¬ Rlt (offE p) (onE p) := by
  intro h
  rcases h with h | ⟨ht, h⟩
  · simp only [offE, onE, tev, TEv.tick] at h
    simp at h
    have := hv.2
    omega
  · simp only [offE, onE, tev, TEv.tick] at ht
    simp at ht
    have hz : isZero p.2 = true := (isZero_iff _).mpr ht.symm
    rcases h with h | ⟨_, h | ⟨_, h1, _⟩⟩
    · rw [cls_off_zero p hz, cls_on_zero p hz] at h; exact lt_irrefl _ h
    · simp [offE, onE, tev] at h
    · simp [offE, tev] at h1

/-- between the on and the off of a note there is no on of another note of its channel and pitch -/
theorem no_nested (p q : Nat × NoteRec) (h1 : Rlt (onE p) (onE q)) (h2 : Rlt (onE q) (offE p))
    (hk : keyOf p.2 = keyOf q.2) (hne : p.1 ≠ q.1) (hc : Compat p.2 q.2) (hvp : Valid p.2) (hvq : Valid q.2) :
    False := by
  obtain ⟨c1, c2, c3⟩ := hc hk
  have t1 : (onE p).1 = p.2.on := by simp [onE, tev, TEv.tick]
  have t2 : (onE q).1 = q.2.on := by simp [onE, tev, TEv.tick]
  have t3 : (offE p).1 = p.2.off := by simp [offE, tev, TEv.tick]
  have i1 : (onE p).2.idx = p.1 := rfl
  have i2 : (onE q).2.idx = q.1 := rfl
  have i3 : (offE p).2.idx = p.1 := rfl
  have f1 : (onE q).2.isOff = false := rfl
  have hpv := hvp.2
  have hqv := hvq.2
  cases hzp : isZero p.2 with
  | false =>
    have hp : p.2.on < p.2.off := by
      have : ¬ p.2.on = p.2.off := fun h => by rw [(isZero_iff _).mpr h] at hzp; cases hzp
      omega
    cases hzq : isZero q.2 with
    | false =>
      have hq : q.2.on < q.2.off := by
        have : ¬ q.2.on = q.2.off := fun h => by rw [(isZero_iff _).mpr h] at hzq; cases hzq
        omega
      have := c1 ⟨hp, hq⟩
      rcases h2 with h2 | ⟨e2, h2⟩
      · rcases h1 with h1 | ⟨e1, _⟩ <;> omega
      · rcases h2 with h2 | ⟨h2, _⟩
        · rw [cls_on_pos q hzq, cls_off_pos p hzp] at h2; omega
        · rw [cls_on_pos q hzq, cls_off_pos p hzp] at h2; omega
    | true =>
      have hq : q.2.on = q.2.off := (isZero_iff _).mp hzq
      have := c2 ⟨hp, hq⟩
      rcases h1 with h1 | ⟨e1, h1⟩
      · rcases h2 with h2 | ⟨e2, h2⟩
        · omega
        · rcases h2 with h2 | ⟨h2, _⟩
          · rw [cls_on_zero q hzq, cls_off_pos p hzp] at h2; omega
          · rw [cls_on_zero q hzq, cls_off_pos p hzp] at h2; omega
      · rcases h1 with h1 | ⟨h1, _⟩
        · rw [cls_on_pos p hzp, cls_on_zero q hzq] at h1; omega
        · rw [cls_on_pos p hzp, cls_on_zero q hzq] at h1; omega
  | true =>
    have hp : p.2.on = p.2.off := (isZero_iff _).mp hzp
    -- all three events share the tick and the kind; the indices must then ascend both ways
    have e1 : p.2.on = q.2.on := by
      rcases h1 with h1 | ⟨e1, _⟩ <;> rcases h2 with h2 | ⟨e2, _⟩ <;> omega
    rcases h1 with h1 | ⟨_, h1⟩
    · omega
    · rcases h2 with h2 | ⟨_, h2⟩
      · omega
      · have cq : cls (onE q).2 = 1 := by
          rcases h1 with h1 | ⟨h1, _⟩ <;> rcases h2 with h2 | ⟨h2, _⟩ <;>
            rw [cls_on_zero p hzp] at h1 <;> rw [cls_off_zero p hzp] at h2 <;> omega
        rcases h1 with h1 | ⟨_, h1⟩
        · rw [cls_on_zero p hzp, cq] at h1; omega
        · rcases h2 with h2 | ⟨_, h2⟩
          · rw [cq, cls_off_zero p hzp] at h2; omega
          · rcases h1 with h1 | ⟨h1, _⟩
            · rcases h2 with h2 | ⟨h2, _⟩
              · rw [i1, i2] at h1; rw [i2, i3] at h2; omega
              · rw [i2, i3] at h2; exact hne h2.symm
            · rw [i1, i2] at h1; exact hne h1

-- ------------------------------------------------------------------ the dictionary

theorem lookup_eraseKey_ne (k k' : Nat × Nat) (s : Sounding) (h : k' ≠ k) :
    lookup k' (eraseKey k s) = lookup k' s := by
  induction s with
  | nil => rfl
  | cons e rest ih =>
    obtain ⟨a, v⟩ := e
    simp only [eraseKey, List.filter_cons]
    by_cases hak : a = k
    · subst hak
      have : ¬ a = k' := fun h' => h h'.symm
      simp only [ne_eq, not_true_eq_false, decide_false, Bool.false_eq_true, if_false]
      simp only [lookup, this, if_false]
      exact ih
    · simp only [ne_eq, hak, not_false_eq_true, decide_true, if_true, lookup]
      split
      · rfl
      · exact ih

theorem lookup_setKey_self (k : Nat × Nat) (v : Int × Nat) (s : Sounding) : lookup k (setKey k v s) = some v := by
  simp [setKey, lookup]

theorem lookup_setKey_ne (k k' : Nat × Nat) (v : Int × Nat) (s : Sounding) (h : k' ≠ k) :
    lookup k' (setKey k v s) = lookup k' s := by
  simp only [setKey, lookup]
  have : ¬ k = k' := fun h' => h h'.symm
  simp only [this, if_false]
  exact lookup_eraseKey_ne k k' s h

-- ------------------------------------------------------------------ the run

/-- the notes of the offs in a stretch of the stream, in order -/
def outOf (l : List (Int × TEv)) : List NoteRec := (l.filter (fun x => x.2.isOff)).map (fun x => x.2.note)

structure Ctx (ns : List (Nat × NoteRec)) : Prop where
  idx : ns.Pairwise (fun p q => p.1 < q.1)
  compat : ns.Pairwise (fun p q => Compat p.2 q.2)
  valid : ∀ p ∈ ns, Valid p.2

theorem Ctx.eq_of_idx {ns} (c : Ctx ns) {p q : Nat × NoteRec} (hp : p ∈ ns) (hq : q ∈ ns) (h : p.1 = q.1) : p = q := by
  rcases pairwise_total c.idx hp hq with h' | h' | h'
  · exact h'
  · omega
  · omega

theorem Ctx.compat_of_ne {ns} (c : Ctx ns) {p q : Nat × NoteRec} (hp : p ∈ ns) (hq : q ∈ ns) (h : p.1 ≠ q.1) :
    Compat p.2 q.2 := by
  rcases pairwise_total c.compat hp hq with h' | h' | h'
  · exact absurd (congrArg Prod.fst h') h
  · exact h'
  · exact h'.symm

def Inv (ns : List (Nat × NoteRec)) (pre : List (Int × TEv)) (st : PState) : Prop :=
  st.out = outOf pre ∧
  ∀ p ∈ ns, onE p ∈ pre → offE p ∉ pre → lookup (keyOf p.2) st.sounding = some (p.2.on, p.2.vel)

theorem step_inv (ns : List (Nat × NoteRec)) (c : Ctx ns) (pre suf : List (Int × TEv)) (x : Int × TEv)
    (hS : pre ++ x :: suf = streamT ns) (st : PState) (hI : Inv ns pre st) :
    Inv ns (pre ++ [x]) (pstep st (toEv x)) := by
  have hsorted : (pre ++ x :: suf).Pairwise Rlt := hS ▸ streamT_sorted ns c.idx
  obtain ⟨hpre, hxs, hcross⟩ := List.pairwise_append.mp hsorted
  obtain ⟨hxsuf, _⟩ := List.pairwise_cons.mp hxs
  have hmem : ∀ y, y ∈ pre ++ x :: suf ↔ ∃ p ∈ ns, y = onE p ∨ y = offE p := fun y => hS ▸ mem_streamT ns y
  have hx_notin_pre : x ∉ pre := fun h => rlt_irrefl x (hcross x h x List.mem_cons_self)
  -- where an event of the stream that is not in `pre` and not `x` lies
  have in_suf : ∀ y, y ∈ pre ++ x :: suf → y ∉ pre → y ≠ x → y ∈ suf := by
    intro y hy h1 h2
    rcases List.mem_append.mp hy with h | h
    · exact absurd h h1
    · rcases List.mem_cons.mp h with h | h
      · exact absurd h h2
      · exact h
  obtain ⟨hout, hsnd⟩ := hI
  obtain ⟨p, hp, hx⟩ := (hmem x).mp (List.mem_append_right _ List.mem_cons_self)
  have hvp := c.valid p hp
  rcases hx with rfl | rfl
  · -- a note on
    have hstep : pstep st (toEv (onE p)) = { st with sounding := setKey (keyOf p.2) (p.2.on, p.2.vel) st.sounding } := by
      simp only [pstep, toEv, onE, tev, TEv.toMsg, TEv.tick, keyOf]
      simp [hvp.1]
    rw [hstep]
    refine ⟨?_, ?_⟩
    · simp only [outOf, List.filter_append, List.map_append] at hout ⊢
      simp [hout, onE, tev]
    · intro q hq hon hoff
      by_cases hqp : q.1 = p.1
      · have := c.eq_of_idx hq hp hqp
        subst this
        exact lookup_setKey_self _ _ _
      · have hon' : onE q ∈ pre := by
          rcases List.mem_append.mp hon with h | h
          · exact h
          · simp only [List.mem_cons, List.not_mem_nil, or_false] at h
            exact absurd (congrArg Prod.fst (onE_inj h)) hqp
        have hoff' : offE q ∉ pre := fun h => hoff (List.mem_append_left _ h)
        have hk : keyOf q.2 ≠ keyOf p.2 := by
          intro hk
          have hoffS : offE q ∈ pre ++ onE p :: suf := (hmem _).mpr ⟨q, hq, Or.inr rfl⟩
          have hoffsuf : offE q ∈ suf := in_suf _ hoffS hoff' (fun h => onE_ne_offE p q h.symm)
          exact no_nested q p (hcross _ hon' _ List.mem_cons_self) (hxsuf _ hoffsuf) hk hqp
            (c.compat_of_ne hq hp hqp) (c.valid q hq) hvp
        rw [lookup_setKey_ne _ _ _ _ hk]
        exact hsnd q hq hon' hoff'
  · -- a note off
    have honS : onE p ∈ pre ++ offE p :: suf := (hmem _).mpr ⟨p, hp, Or.inl rfl⟩
    have hon : onE p ∈ pre := by
      by_contra hnot
      have : onE p ∈ suf := in_suf _ honS hnot (onE_ne_offE p p)
      exact off_not_before_on p hvp (hxsuf _ this)
    have hl := hsnd p hp hon hx_notin_pre
    have hstep : pstep st (toEv (offE p)) =
        { sounding := eraseKey (keyOf p.2) st.sounding, out := st.out ++ [p.2] } := by
      simp only [pstep, toEv, offE, tev, TEv.toMsg, TEv.tick, pOff]
      simp only [keyOf] at hl
      simp [hl, keyOf]
    rw [hstep]
    refine ⟨?_, ?_⟩
    · simp only [outOf, List.filter_append, List.map_append] at hout ⊢
      simp [hout, offE, tev]
    · intro q hq hon2 hoff2
      have hqp : q.1 ≠ p.1 := by
        intro h
        have := c.eq_of_idx hq hp h
        subst this
        exact hoff2 (List.mem_append_right _ List.mem_cons_self)
      have hon' : onE q ∈ pre := by
        rcases List.mem_append.mp hon2 with h | h
        · exact h
        · simp only [List.mem_cons, List.not_mem_nil, or_false] at h
          exact absurd h (onE_ne_offE q p)
      have hoff' : offE q ∉ pre := fun h => hoff2 (List.mem_append_left _ h)
      have hk : keyOf q.2 ≠ keyOf p.2 := by
        intro hk
        have hoffS : offE q ∈ pre ++ offE p :: suf := (hmem _).mpr ⟨q, hq, Or.inr rfl⟩
        have hoffsuf : offE q ∈ suf := in_suf _ hoffS hoff' (fun h => hqp (congrArg Prod.fst (offE_inj h)))
        rcases pairwise_total hpre hon hon' with h | h | h
        · exact hqp (congrArg Prod.fst (onE_inj h)).symm
        · -- on p, on q, off p
          exact no_nested p q h (hcross _ hon' _ List.mem_cons_self) hk.symm (fun h => hqp h.symm)
            (c.compat_of_ne hp hq (fun h => hqp h.symm)) hvp (c.valid q hq)
        · -- on q, on p, off q
          have hpq : Rlt (onE p) (offE q) := by
            have h1 : Rlt (onE p) (offE p) := hcross _ hon _ List.mem_cons_self
            have h2 : Rlt (offE p) (offE q) := hxsuf _ hoffsuf
            -- transitivity through the pairwise list: on p is in `pre`, off q in `suf`
            exact (List.pairwise_append.mp hsorted).2.2 _ hon _ (List.mem_cons_of_mem _ hoffsuf)
          exact no_nested q p h hpq hk hqp (c.compat_of_ne hq hp hqp) (c.valid q hq) hvp
      rw [lookup_eraseKey_ne _ _ _ hk]
      exact hsnd q hq hon' hoff'

theorem run_inv (ns : List (Nat × NoteRec)) (c : Ctx ns) :
    ∀ (suf pre : List (Int × TEv)) (st : PState), pre ++ suf = streamT ns → Inv ns pre st →
      Inv ns (streamT ns) (suf.foldl (fun s x => pstep s (toEv x)) st) := by
  intro suf
  induction suf with
  | nil =>
    intro pre st hS hI
    simp only [List.append_nil] at hS
    simpa [hS] using hI
  | cons x suf ih =>
    intro pre st hS hI
    simp only [List.foldl_cons]
    apply ih (pre ++ [x])
    · simpa using hS
    · exact step_inv ns c pre suf x hS st hI

/-- what the reader returns on the tagged stream: the notes, in the order of their offs -/
theorem pairAbs_stream (ns : List (Nat × NoteRec)) (c : Ctx ns) :
    pairAbs ((streamT ns).map toEv) = outOf (streamT ns) := by
  unfold pairAbs
  rw [List.foldl_map]
  have := run_inv ns c (streamT ns) [] ⟨[], []⟩ (by simp) ⟨by simp [outOf], by intro p _ h; cases h⟩
  exact this.1

theorem outOf_perm (ns : List (Nat × NoteRec)) : (outOf (streamT ns)).Perm (ns.map (·.2)) := by
  have h1 : (outOf (streamT ns)).Perm (outOf (offsT ns ++ zerosT ns ++ onsT ns)) := by
    unfold outOf streamT
    exact ((sortEv_perm _).filter _).map _
  refine h1.trans ?_
  have e1 : outOf (offsT ns) = (ns.filter (fun p => !isZero p.2)).map (·.2) := by
    simp [outOf, offsT, List.filter_map, Function.comp_def, offE, tev]
  have e2 : outOf (onsT ns) = [] := by
    simp [outOf, onsT, List.filter_map, Function.comp_def, onE, tev]
  have e3 : outOf (zerosT ns) = (ns.filter (fun p => isZero p.2)).map (·.2) := by
    unfold outOf zerosT
    induction ns.filter (fun p => isZero p.2) with
    | nil => rfl
    | cons a as ih =>
      simp only [List.flatMap_cons, List.filter_append, List.map_append, ih]
      simp [onE, offE, tev]
  have : outOf (offsT ns ++ zerosT ns ++ onsT ns) = outOf (offsT ns) ++ outOf (zerosT ns) ++ outOf (onsT ns) := by
    simp [outOf, List.filter_append]
  rw [this, e1, e2, e3, List.append_nil, ← List.map_append]
  refine List.Perm.map _ ?_
  have := List.filter_append_perm (fun p : Nat × NoteRec => isZero p.2) ns
  exact (List.perm_append_comm).trans this

-- ------------------------------------------------------------------ tempo and signature events are skipped

def isNoteMsg : Int × Msg → Bool
  | (_, .noteOn _ _ _) => true
  | (_, .noteOff _ _ _) => true
  | _ => false

theorem pstep_skip (s : PState) (e : Int × Msg) (h : isNoteMsg e = false) : pstep s e = s := by
  obtain ⟨t, m⟩ := e
  cases m <;> simp_all [isNoteMsg, pstep]

theorem foldl_pstep_filter (l : List (Int × Msg)) (s : PState) :
    l.foldl pstep s = (l.filter isNoteMsg).foldl pstep s := by
  induction l generalizing s with
  | nil => rfl
  | cons e es ih =>
    by_cases h : isNoteMsg e = true
    · rw [List.filter_cons_of_pos h, List.foldl_cons, List.foldl_cons, ih]
    · have h' : isNoteMsg e = false := by simpa using h
      rw [List.filter_cons_of_neg h, List.foldl_cons, pstep_skip s e h', ih]

/-- the readers skip everything that is not a note message -/
theorem pairAbs_filter (l : List (Int × Msg)) : pairAbs l = pairAbs (l.filter isNoteMsg) := by
  unfold pairAbs
  rw [foldl_pstep_filter]

theorem noteEvents_filter (notes : List NoteRec) :
    (noteEvents notes).offs.filter isNoteMsg = (noteEvents notes).offs ∧
    (noteEvents notes).zeros.filter isNoteMsg = (noteEvents notes).zeros ∧
    (noteEvents notes).ons.filter isNoteMsg = (noteEvents notes).ons := by
  refine ⟨?_, ?_, ?_⟩ <;> rw [List.filter_eq_self] <;> intro x hx
  · simp only [noteEvents, List.mem_map] at hx
    obtain ⟨n, _, rfl⟩ := hx
    rfl
  · simp only [noteEvents, List.mem_flatMap, List.mem_cons, List.not_mem_nil, or_false] at hx
    obtain ⟨n, _, rfl | rfl⟩ := hx <;> rfl
  · simp only [noteEvents, List.mem_map] at hx
    obtain ⟨n, _, rfl⟩ := hx
    rfl

/-- a whole track: tempo / signature events around the note events of `notes` do not disturb the pairing -/
theorem pairAbs_track (tempos metas : List (Int × Msg)) (notes : List NoteRec)
    (ht : ∀ x ∈ tempos, isNoteMsg x = false) (hm : ∀ x ∈ metas, isNoteMsg x = false) :
    pairAbs (trackOrder { noteEvents notes with tempos := tempos, metas := metas }) = pairAbs (encode notes) := by
  rw [pairAbs_filter]
  unfold trackOrder encode
  rw [sortEv_filter]
  obtain ⟨f1, f2, f3⟩ := noteEvents_filter notes
  have e1 : tempos.filter isNoteMsg = [] := List.filter_eq_nil_iff.mpr (fun x hx => by simp [ht x hx])
  have e2 : metas.filter isNoteMsg = [] := List.filter_eq_nil_iff.mpr (fun x hx => by simp [hm x hx])
  simp only [List.filter_append, e1, e2, f1, f2, f3, List.nil_append]
  simp [noteEvents, trackOrder]

end C04P
