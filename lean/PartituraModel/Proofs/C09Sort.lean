/-
C09 helper lemmas, part 9: the sort of the `"<n>_Volta_<ID>"` destinations (`insVolta`), and the
numbers on the brackets of a volta group described by an assignment number ↦ bracket.
-/
import PartituraModel.Proofs.C09Ids

namespace C09
open Model.Unfold

/-! ### insertion sort by (number, segment) -/

def vle (a b : Nat × Nat) : Prop := voltaLe a b = true

theorem vle_iff (a b : Nat × Nat) : vle a b ↔ a.1 < b.1 ∨ (a.1 = b.1 ∧ a.2 ≤ b.2) := by
  simp [vle, voltaLe]

theorem vle_total (a b : Nat × Nat) (h : ¬ vle a b) : vle b a := by
  rw [vle_iff] at *
  omega

theorem vle_trans (a b c : Nat × Nat) (h1 : vle a b) (h2 : vle b c) : vle a c := by
  rw [vle_iff] at *
  omega

theorem vle_antisymm (a b : Nat × Nat) (h1 : vle a b) (h2 : vle b a) : a = b := by
  rw [vle_iff] at *
  apply Prod.ext <;> omega

theorem insVolta_perm (x : Nat × Nat) : ∀ l : List (Nat × Nat), (insVolta x l).Perm (x :: l) := by
  intro l
  induction l with
  | nil => exact List.Perm.refl _
  | cons y ys ih =>
    simp only [insVolta]
    split
    · exact (List.Perm.cons y ih).trans (List.Perm.swap x y ys)
    · exact List.Perm.refl _

theorem insVolta_sorted (x : Nat × Nat) : ∀ l : List (Nat × Nat), l.Pairwise vle → (insVolta x l).Pairwise vle := by
  intro l
  induction l with
  | nil => intro _; simp [insVolta]
  | cons y ys ih =>
    intro h
    rw [List.pairwise_cons] at h
    simp only [insVolta]
    split
    · rename_i hyx
      rw [List.pairwise_cons]
      refine ⟨?_, ih h.2⟩
      intro z hz
      have := (insVolta_perm x ys).subset hz
      simp only [List.mem_cons] at this
      rcases this with rfl | hz'
      · exact hyx
      · exact h.1 z hz'
    · rename_i hyx
      have hxy : vle x y := vle_total y x hyx
      rw [List.pairwise_cons]
      refine ⟨?_, List.pairwise_cons.mpr h⟩
      intro z hz
      simp only [List.mem_cons] at hz
      rcases hz with rfl | hz
      · exact hxy
      · exact vle_trans _ _ _ hxy (h.1 z hz)

theorem sortVolta_spec : ∀ (l acc : List (Nat × Nat)), acc.Pairwise vle →
    (l.foldl (fun acc x => insVolta x acc) acc).Pairwise vle ∧
    (l.foldl (fun acc x => insVolta x acc) acc).Perm (l ++ acc) := by
  intro l
  induction l with
  | nil => intro acc h; exact ⟨h, List.Perm.refl _⟩
  | cons x xs ih =>
    intro acc h
    obtain ⟨i1, i2⟩ := ih (insVolta x acc) (insVolta_sorted x acc h)
    refine ⟨i1, ?_⟩
    simp only [List.foldl_cons, List.cons_append]
    refine i2.trans ?_
    exact (List.Perm.append_left xs (insVolta_perm x acc)).trans List.perm_middle

/-- the sort yields the sorted list with the same elements -/
theorem sortVolta_eq (l target : List (Nat × Nat)) (hp : l.Perm target) (hs : target.Pairwise vle) :
    l.foldl (fun acc x => insVolta x acc) [] = target := by
  obtain ⟨h1, h2⟩ := sortVolta_spec l [] List.Pairwise.nil
  rw [List.append_nil] at h2
  exact List.Perm.eq_of_pairwise (fun a b _ _ => vle_antisymm a b) h1 hs (h2.trans hp)

/-! ### splitting a list by key -/

theorem flatMap_congr' {α β : Type} (F G : α → List β) : ∀ (L : List α), (∀ j ∈ L, F j = G j) →
    L.flatMap F = L.flatMap G := by
  intro L
  induction L with
  | nil => intro _; rfl
  | cons a as ih =>
    intro h
    simp only [List.flatMap_cons]
    rw [h a List.mem_cons_self, ih (fun j hj => h j (List.mem_cons_of_mem _ hj))]

theorem partition_perm {α : Type} (key : α → Nat) : ∀ (k : Nat) (l : List α), (∀ q ∈ l, key q < k) →
    ((List.range k).flatMap fun j => l.filter fun q => decide (key q = j)).Perm l := by
  intro k
  induction k with
  | zero =>
    intro l h
    cases l with
    | nil => simp
    | cons q qs => exact absurd (h q List.mem_cons_self) (by omega)
  | succ k ih =>
    intro l h
    rw [List.range_succ, List.flatMap_append]
    simp only [List.flatMap_cons, List.flatMap_nil, List.append_nil]
    have e1 : (List.range k).flatMap (fun j => l.filter fun q => decide (key q = j)) =
        (List.range k).flatMap (fun j => (l.filter fun q => decide (key q < k)).filter fun q => decide (key q = j)) := by
      apply flatMap_congr'
      intro j hj
      rw [List.filter_filter]
      apply List.filter_congr
      intro q _
      have hjk : j < k := by simpa using hj
      by_cases hq : key q = j
      · subst hq
        simp [hjk]
      · simp [hq]
    rw [e1]
    have i1 := ih (l.filter fun q => decide (key q < k)) (by
      intro q hq
      have := (List.mem_filter.mp hq).2
      simpa using this)
    have e2 : (l.filter fun q => decide (key q = k)) = l.filter (fun q => !decide (key q < k)) := by
      apply List.filter_congr
      intro q hq
      have := h q hq
      by_cases h1 : key q = k
      · have : ¬ key q < k := by omega
        simp [h1]
      · have : key q < k := by omega
        simp [h1, this]
    rw [e2]
    exact (List.Perm.append_right _ i1).trans (List.filter_append_perm _ l)

/-! ### numbers on the brackets -/


/-- `(number, segment)` pairs of the section's volta destinations, in the order the code collects them -/
def voltaPairs (c k : Nat) (asg : List Nat) : List (Nat × Nat) :=
  (List.range k).flatMap fun j => (numsOf asg j).map fun n => (n, c + 1 + j)

def voltaTarget (c : Nat) (asg : List Nat) : List (Nat × Nat) :=
  (enum 0 asg).map fun q => (q.1 + 1, c + 1 + q.2)

theorem voltaPairs_perm (c k : Nat) (asg : List Nat) (h : ∀ x ∈ asg, x < k) :
    (voltaPairs c k asg).Perm (voltaTarget c asg) := by
  have hp := partition_perm (fun q : Nat × Nat => q.2) k (enum 0 asg) (by
    intro q hq
    obtain ⟨i, x⟩ := q
    have := ((enum_mem asg 0 i x).mp hq).2
    exact h x (List.mem_of_getElem? this))
  have := hp.map (fun q : Nat × Nat => (q.1 + 1, c + 1 + q.2))
  refine List.Perm.trans ?_ this
  rw [List.map_flatMap]
  unfold voltaPairs numsOf
  rw [flatMap_congr' _ (fun j => ((enum 0 asg).filter fun q => decide (q.2 = j)).map fun q => (q.1 + 1, c + 1 + q.2))]
  intro j _
  rw [List.map_map]
  apply List.map_congr_left
  intro q hq
  have := (List.mem_filter.mp hq).2
  simp only [decide_eq_true_eq] at this
  simp [this]

theorem voltaTarget_sorted (c : Nat) (asg : List Nat) : (voltaTarget c asg).Pairwise vle := by
  unfold voltaTarget
  have key : ∀ (l : List Nat) (k : Nat), ((enum k l).map fun q => (q.1 + 1, c + 1 + q.2)).Pairwise vle ∧
      ∀ z ∈ (enum k l).map (fun q : Nat × Nat => (q.1 + 1, c + 1 + q.2)), k + 1 ≤ z.1 := by
    intro l
    induction l with
    | nil => intro k; simp [enum]
    | cons a as ih =>
      intro k
      obtain ⟨i1, i2⟩ := ih (k + 1)
      simp only [enum, List.map_cons]
      refine ⟨List.pairwise_cons.mpr ⟨?_, i1⟩, ?_⟩
      · intro z hz
        have := i2 z hz
        rw [vle_iff]
        left
        show k + 1 < z.1
        omega
      · intro z hz
        simp only [List.mem_cons] at hz
        rcases hz with rfl | hz
        · exact Nat.le_refl _
        · have := i2 z hz; omega
  exact (key asg 0).1

/-- sorted by number, the section's volta destinations are the brackets in the order of the numbers -/
theorem voltaPairs_sorted (c k : Nat) (asg : List Nat) (h : ∀ x ∈ asg, x < k) :
    (voltaPairs c k asg).foldl (fun acc x => insVolta x acc) [] = voltaTarget c asg :=
  sortVolta_eq _ _ (voltaPairs_perm c k asg h) (voltaTarget_sorted c asg)

theorem voltaTarget_dests (c : Nat) (asg : List Nat) :
    (voltaTarget c asg).map (fun x => Dest.seg x.2) = asg.map fun j => Dest.seg (c + 1 + j) := by
  unfold voltaTarget
  rw [List.map_map]
  have key : ∀ (l : List Nat) (k : Nat), (enum k l).map ((fun x : Nat × Nat => Dest.seg x.2) ∘ fun q => (q.1 + 1, c + 1 + q.2)) =
      l.map fun j => Dest.seg (c + 1 + j) := by
    intro l
    induction l with
    | nil => intro k; rfl
    | cons a as ih => intro k; simp only [enum, List.map_cons, ih]; rfl
  exact key asg 0

/-- how many numbers other than the last one a bracket carries -/
theorem numsOf_back (asg : List Nat) (j : Nat) :
    ((numsOf asg j).filter fun n => decide (n ≠ asg.length)).length = asg.dropLast.count j := by
  unfold numsOf
  rw [List.filter_map, List.length_map, List.filter_filter]
  have e : ((enum 0 asg).filter fun q => ((fun n => decide (n ≠ asg.length)) ∘ fun q : Nat × Nat => q.1 + 1) q && decide (q.2 = j)) =
      (enum 0 asg).filter fun q => decide (q.1 < 0 + (asg.length - 1)) && decide (q.2 = j) := by
    apply List.filter_congr
    intro q hq
    obtain ⟨i, x⟩ := q
    have := ((enum_mem asg 0 i x).mp hq).2
    have hlt := (List.getElem?_eq_some_iff.mp this).1
    simp only [Nat.sub_zero] at hlt
    simp only [Function.comp, Nat.zero_add]
    by_cases h1 : i + 1 = asg.length
    · have : ¬ i < asg.length - 1 := by omega
      simp [h1, this]
    · have : i < asg.length - 1 := by omega
      simp [h1, this]
  rw [e, enum_take_filter (fun x : Nat => decide (x = j)) asg 0 (asg.length - 1), List.dropLast_eq_take,
    List.count_eq_length_filter]
  congr 1

/-- the last number is on the bracket `asg` ends with -/
theorem numsOf_last (asg : List Nat) (j : Nat) :
    (numsOf asg j).contains asg.length = decide (asg.getLast? = some j) := by
  unfold numsOf
  cases hd : decide (asg.getLast? = some j) with
  | true =>
    have hl : asg.getLast? = some j := of_decide_eq_true hd
    rw [List.contains_iff_mem]
    rw [List.getLast?_eq_getElem?] at hl
    have hlt := (List.getElem?_eq_some_iff.mp hl).1
    rw [List.mem_map]
    refine ⟨(asg.length - 1, j), ?_, by simp; omega⟩
    rw [List.mem_filter]
    exact ⟨(enum_mem asg 0 _ _).mpr ⟨Nat.zero_le _, by simpa using hl⟩, by simp⟩
  | false =>
    have hl : ¬ asg.getLast? = some j := of_decide_eq_false hd
    cases hc : (List.map (fun x : Nat × Nat => x.1 + 1) ((enum 0 asg).filter fun q => decide (q.2 = j))).contains asg.length with
    | false => rfl
    | true =>
      exfalso
      rw [List.contains_iff_mem, List.mem_map] at hc
      obtain ⟨q, hq, hq1⟩ := hc
      obtain ⟨i, x⟩ := q
      rw [List.mem_filter] at hq
      have hm := ((enum_mem asg 0 i x).mp hq.1).2
      simp only [decide_eq_true_eq] at hq
      simp only at hq1
      apply hl
      rw [List.getLast?_eq_getElem?]
      have : asg.length - 1 = i := by omega
      rw [this]
      simp only [Nat.sub_zero] at hm
      rw [hm, hq.2]

/-- every number is one decimal digit when there are at most nine -/
theorem numsOf_small (asg : List Nat) (j : Nat) (h : asg.length ≤ 9) : ∀ n ∈ numsOf asg j, n < 10 := by
  intro n hn
  unfold numsOf at hn
  rw [List.mem_map] at hn
  obtain ⟨q, hq, rfl⟩ := hn
  obtain ⟨i, x⟩ := q
  have hm := ((enum_mem asg 0 i x).mp (List.mem_filter.mp hq).1).2
  have hlt := (List.getElem?_eq_some_iff.mp hm).1
  simp only [Nat.sub_zero] at hlt
  show i + 1 < 10
  omega

/-- one number per bracket -/
theorem numsOf_range (k j : Nat) (hj : j < k) : numsOf (List.range k) j = [j + 1] := by
  unfold numsOf
  have key : ∀ (m s : Nat), ((enum s (List.range' s m)).filter fun q : Nat × Nat => decide (q.2 = j)).map (·.1 + 1) =
      if s ≤ j ∧ j < s + m then [j + 1] else [] := by
    intro m
    induction m with
    | zero => intro s; simp [enum]
    | succ m ih =>
      intro s
      simp only [List.range'_succ, enum, List.filter_cons]
      by_cases hs : s = j
      · subst hs
        have h1 : ¬ (s + 1 ≤ s ∧ s < s + 1 + m) := by omega
        have h2 : s ≤ s ∧ s < s + (m + 1) := by omega
        simp [ih, h1, h2]
      · simp only [hs, decide_false, Bool.false_eq_true, if_false, ih]
        by_cases hc : s + 1 ≤ j ∧ j < s + 1 + m
        · have hc' : s ≤ j ∧ j < s + (m + 1) := by omega
          simp [hc, hc']
        · have hc' : ¬ (s ≤ j ∧ j < s + (m + 1)) := by omega
          simp [hc, hc']
  have := key k 0
  rw [← List.range_eq_range'] at this
  rw [this]
  simp [hj]

end C09
