/-
C15: lemmas about the timeline of the new part (`getOrAddPoint`, `addObject`, `insertFrom`, `newTimeline` of
Model/MergeCall.lean) and about `uniq` / `pointsWith`.
-/
import PartituraModel.Proofs.C15Call
import Mathlib.Data.List.Sort

namespace C15
open Model.Merge

-- ---------------------------------------------------------------- get_or_add_point

/-- `getOrAddPoint` as a scan from the left -/
def insP (L t : Nat) : List TPoint → List TPoint
  | [] => [{ t := t, quarter := L }]
  | p :: ps => if p.t < t then p :: insP L t ps else if p.t = t then p :: ps else { t := t, quarter := L } :: p :: ps

theorem getOrAddPoint_eq_insP (L t : Nat) : ∀ pts : List TPoint, getOrAddPoint L pts t = insP L t pts
  | [] => by simp [getOrAddPoint, searchLeft, insP]
  | p :: ps => by
    have ih := getOrAddPoint_eq_insP L t ps
    by_cases hlt : p.t < t
    · have hs : searchLeft ((p :: ps).map (·.t)) t = searchLeft (ps.map (·.t)) t + 1 := by
        simp [searchLeft, hlt]
      simp only [insP, hlt, if_true, ← ih]
      unfold getOrAddPoint
      simp only [hs, List.getElem?_cons_succ, List.insertIdx_succ_cons]
      cases ps[searchLeft (ps.map (·.t)) t]? with
      | none => rfl
      | some q =>
        simp only
        split <;> rfl
    · have hs : searchLeft ((p :: ps).map (·.t)) t = 0 := by simp [searchLeft, hlt]
      unfold getOrAddPoint
      simp only [hs, List.getElem?_cons_zero, insP, hlt, if_false, List.insertIdx_zero]

theorem mem_insP {L t x : Nat} : ∀ {pts : List TPoint}, x ∈ (insP L t pts).map (·.t) ↔ x = t ∨ x ∈ pts.map (·.t)
  | [] => by simp [insP]
  | p :: ps => by
    have ih := @mem_insP L t x ps
    simp only [insP]
    split
    · simp only [List.map_cons, List.mem_cons, ih]; tauto
    · split
      · rename_i h; simp only [List.map_cons, List.mem_cons]; constructor
        · intro h'; exact Or.inr h'
        · rintro (rfl | h')
          · exact Or.inl h.symm
          · exact h'
      · simp only [List.map_cons, List.mem_cons]

theorem insP_quarter {L t : Nat} : ∀ {pts : List TPoint}, (∀ p ∈ pts, p.quarter = L) → ∀ p ∈ insP L t pts, p.quarter = L
  | [], _ => by simp [insP]
  | q :: qs, h => by
    have ih := @insP_quarter L t qs (fun p hp => h p (List.mem_cons_of_mem _ hp))
    simp only [insP]
    split
    · intro p hp
      rcases List.mem_cons.mp hp with rfl | hp
      · exact h _ List.mem_cons_self
      · exact ih p hp
    · split
      · exact h
      · intro p hp
        rcases List.mem_cons.mp hp with rfl | hp
        · rfl
        · exact h p hp

theorem insP_sorted {L t : Nat} : ∀ {pts : List TPoint}, (pts.map (·.t)).Pairwise (· < ·) →
    ((insP L t pts).map (·.t)).Pairwise (· < ·)
  | [], _ => by simp [insP]
  | q :: qs, h => by
    rw [List.map_cons, List.pairwise_cons] at h
    have ih := @insP_sorted L t qs h.2
    simp only [insP]
    split
    · rename_i hlt
      rw [List.map_cons, List.pairwise_cons]
      refine ⟨fun x hx => ?_, ih⟩
      rcases mem_insP.mp hx with rfl | hx
      · exact hlt
      · exact h.1 x hx
    · split
      · rw [List.map_cons, List.pairwise_cons]; exact h
      · rename_i h1 h2
        have hq : t < q.t := by omega
        simp only [List.map_cons, List.pairwise_cons, List.mem_cons]
        refine ⟨?_, h.1, h.2⟩
        rintro x (rfl | hx)
        · exact hq
        · exact Nat.lt_trans hq (h.1 x hx)

/-- a timeline in good shape: times strictly increasing, every point carries the quarter duration `L` -/
def GoodTL (L : Nat) (pts : List TPoint) : Prop :=
  (pts.map (·.t)).Pairwise (· < ·) ∧ ∀ p ∈ pts, p.quarter = L

theorem getOrAddPoint_good {L : Nat} {pts : List TPoint} (h : GoodTL L pts) (t : Nat) :
    GoodTL L (getOrAddPoint L pts t) := by
  rw [getOrAddPoint_eq_insP]
  exact ⟨insP_sorted h.1, insP_quarter h.2⟩

theorem mem_getOrAddPoint {L t x : Nat} {pts : List TPoint} :
    x ∈ (getOrAddPoint L pts t).map (·.t) ↔ x = t ∨ x ∈ pts.map (·.t) := by
  rw [getOrAddPoint_eq_insP]; exact mem_insP

-- ---------------------------------------------------------------- Part.add and the loop

/-- the times `Part.add` asks for -/
def timesOf (x : Bool × Elem) : List Nat := (if x.1 then [] else [x.2.start]) ++ x.2.stop.toList

theorem addObject_good {L : Nat} {pts : List TPoint} (h : GoodTL L pts) (x : Bool × Elem) :
    GoodTL L (addObject L pts x) := by
  unfold addObject
  have h1 : GoodTL L (if x.1 then pts else getOrAddPoint L pts x.2.start) := by
    split
    · exact h
    · exact getOrAddPoint_good h _
  cases x.2.stop with
  | none => exact h1
  | some s => exact getOrAddPoint_good h1 s

theorem mem_addObject {L y : Nat} {pts : List TPoint} (x : Bool × Elem) :
    y ∈ (addObject L pts x).map (·.t) ↔ y ∈ timesOf x ∨ y ∈ pts.map (·.t) := by
  unfold addObject timesOf
  cases hs : x.2.stop with
  | none =>
    cases hb : x.1 <;> simp [mem_getOrAddPoint]
  | some s =>
    cases hb : x.1 <;> simp [mem_getOrAddPoint]
    tauto

theorem foldl_addObject_good {L : Nat} : ∀ (xs : List (Bool × Elem)) {pts : List TPoint}, GoodTL L pts →
    GoodTL L (xs.foldl (addObject L) pts)
  | [], _, h => h
  | x :: xs, _, h => foldl_addObject_good xs (addObject_good h x)

theorem mem_foldl_addObject {L y : Nat} : ∀ (xs : List (Bool × Elem)) {pts : List TPoint},
    y ∈ (xs.foldl (addObject L) pts).map (·.t) ↔ (∃ x ∈ xs, y ∈ timesOf x) ∨ y ∈ pts.map (·.t)
  | [], _ => by simp
  | x :: xs, pts => by
    rw [List.foldl_cons, mem_foldl_addObject xs, mem_addObject]
    simp only [List.mem_cons, exists_eq_or_imp]
    constructor
    · rintro (h | h | h)
      exacts [Or.inl (Or.inr h), Or.inl (Or.inl h), Or.inr h]
    · rintro ((h | h) | h)
      exacts [Or.inr (Or.inl h), Or.inl h, Or.inr (Or.inr h)]

/-- the insertion order holds the elements of `mergeFrom` (flag false) and the end-only objects of `tailsFrom` (flag
true), nothing else -/
theorem mem_insertFrom {m : Mode} {L : Nat} {b : Bool} {e : Elem} : ∀ {first : Bool} {vo so np : Nat} {ps : List APart},
    (b, e) ∈ insertFrom m L first vo so np ps ↔
      (b = false ∧ e ∈ mergeFrom m L first vo so np ps) ∨ (b = true ∧ e ∈ tailsFrom m L first vo so np ps)
  | _, _, _, _, [] => by simp [insertFrom, mergeFrom, tailsFrom]
  | first, vo, so, np, p :: ps => by
    have ih := @mem_insertFrom m L b e false (vo + maxVoice p) (so + maxStaff p) (np + nStaves p) ps
    simp only [insertFrom, mergeFrom, tailsFrom, List.mem_append, List.mem_map, Prod.mk.injEq, ih]
    cases b <;> simp

-- ---------------------------------------------------------------- uniq

theorem insertU_sorted {x : Nat} : ∀ {l : List Nat}, l.Pairwise (· < ·) → (insertU x l).Pairwise (· < ·)
  | [], _ => by simp [insertU]
  | y :: ys, h => by
    rw [List.pairwise_cons] at h
    have ih := @insertU_sorted x ys h.2
    simp only [insertU]
    split
    · rename_i hlt
      simp only [List.pairwise_cons, List.mem_cons]
      refine ⟨?_, h.1, h.2⟩
      rintro a (rfl | ha)
      · exact hlt
      · exact Nat.lt_trans hlt (h.1 a ha)
    · split
      · rw [List.pairwise_cons]; exact h
      · rename_i h1 h2
        rw [List.pairwise_cons]
        refine ⟨fun a ha => ?_, ih⟩
        rcases mem_insertU.mp ha with rfl | ha
        · omega
        · exact h.1 a ha

theorem uniq_sorted (l : List Nat) : (uniq l).Pairwise (· < ·) := by
  induction l with
  | nil => simp [uniq]
  | cons x xs ih => exact insertU_sorted ih

/-- `uniq` only depends on which values occur -/
theorem uniq_congr {l l' : List Nat} (h : ∀ a, a ∈ l ↔ a ∈ l') : uniq l = uniq l' :=
  (uniq_sorted l).eq_of_mem_iff (uniq_sorted l') (fun a => by rw [mem_uniq, mem_uniq, h])

theorem mem_pointsWith {es tails : List Elem} {y : Nat} :
    y ∈ pointsWith es tails ↔ (∃ e ∈ es, y = e.start ∨ e.stop = some y) ∨ (∃ e ∈ tails, e.stop = some y) := by
  simp only [pointsWith, mem_uniq, List.mem_append, List.mem_map, List.mem_filterMap]
  constructor
  · rintro ((⟨e, he, rfl⟩ | ⟨e, he, hs⟩) | ⟨e, he, hs⟩)
    · exact Or.inl ⟨e, he, Or.inl rfl⟩
    · exact Or.inl ⟨e, he, Or.inr hs⟩
    · exact Or.inr ⟨e, he, hs⟩
  · rintro (⟨e, he, rfl | hs⟩ | ⟨e, he, hs⟩)
    · exact Or.inl (Or.inl ⟨e, he, rfl⟩)
    · exact Or.inl (Or.inr ⟨e, he, hs⟩)
    · exact Or.inr ⟨e, he, hs⟩

theorem pointsWith_perm {es es' tails : List Elem} (h : es.Perm es') : pointsWith es tails = pointsWith es' tails := by
  apply (uniq_sorted _).eq_of_mem_iff (uniq_sorted _)
  intro a
  have := @mem_pointsWith es tails a
  have := @mem_pointsWith es' tails a
  simp only [pointsWith] at *
  simp only [*, h.mem_iff]

-- ---------------------------------------------------------------- the timeline of the new part

theorem newTimeline_good (m : Mode) (ps : List APart) : GoodTL (lcmList (ps.map (·.divs))) (newTimeline m ps) :=
  foldl_addObject_good _ ⟨by simp, by simp⟩

theorem mem_newTimeline (m : Mode) (ps : List APart) (y : Nat) :
    y ∈ (newTimeline m ps).map (·.t) ↔
      y ∈ pointsWith (mergeFrom m (lcmList (ps.map (·.divs))) true 0 0 0 ps) (mergedTails m ps) := by
  rw [mem_pointsWith]
  simp only [newTimeline, mem_foldl_addObject, List.map_nil, List.not_mem_nil, or_false, mergedTails]
  constructor
  · rintro ⟨⟨b, e⟩, hx, hy⟩
    rcases mem_insertFrom.mp hx with ⟨rfl, he⟩ | ⟨rfl, he⟩
    · refine Or.inl ⟨e, he, ?_⟩
      simp only [timesOf, Bool.false_eq_true, if_false, List.mem_append, List.mem_singleton,
        Option.mem_toList] at hy
      exact hy
    · refine Or.inr ⟨e, he, ?_⟩
      simpa [timesOf] using hy
  · rintro (⟨e, he, hy⟩ | ⟨e, he, hy⟩)
    · refine ⟨(false, e), mem_insertFrom.mpr (Or.inl ⟨rfl, he⟩), ?_⟩
      simp only [timesOf, Bool.false_eq_true, if_false, List.mem_append, List.mem_singleton,
        Option.mem_toList]
      exact hy
    · refine ⟨(true, e), mem_insertFrom.mpr (Or.inr ⟨rfl, he⟩), ?_⟩
      simpa [timesOf] using hy

/-- a list of points with constant quarter is determined by its times -/
theorem eq_map_of_quarter {L : Nat} : ∀ {pts : List TPoint}, (∀ p ∈ pts, p.quarter = L) →
    pts = (pts.map (·.t)).map fun t => { t := t, quarter := L }
  | [], _ => rfl
  | p :: ps, h => by
    have ih := @eq_map_of_quarter L ps (fun q hq => h q (List.mem_cons_of_mem _ hq))
    have hp : p.quarter = L := h p List.mem_cons_self
    rw [List.map_cons, List.map_cons, ← ih]
    cases p with
    | mk t q =>
      simp only at hp
      rw [hp]

-- ---------------------------------------------------------------- lcm, untouched attributes, identities

theorem lcmList_dvd {l : List Nat} {M : Nat} (h : ∀ d ∈ l, d ∣ M) : lcmList l ∣ M := by
  induction l with
  | nil => simp [lcmList]
  | cons x xs ih =>
    simp only [lcmList, List.foldr_cons]
    exact Nat.lcm_dvd (h x List.mem_cons_self) (ih fun d hd => h d (List.mem_cons_of_mem _ hd))

theorem xform_extra (m : Mode) (c : Ctx) (e : Elem) : (xform m c e).extra = e.extra := by
  cases m <;> simp only [xform, rescale, renumber] <;> (repeat' split) <;> rfl

/-- every object - by its start or by its end only - occurs once in the inputs -/
def ObjectsDistinct (ps : List APart) : Prop :=
  ((ps.flatMap (·.elems)).map (·.oid) ++ (ps.flatMap (·.tails)).map (·.oid)).Nodup

theorem tail_oids_sublist (m : Mode) (L : Nat) (first : Bool) (vo so np : Nat) (qs : List APart) :
    ((tailsFrom m L first vo so np qs).map (·.oid)).Sublist ((qs.flatMap (·.tails)).map (·.oid)) := by
  induction qs generalizing first vo so np with
  | nil => simp [tailsFrom]
  | cons p qs ih =>
    simp only [tailsFrom, List.map_append, List.flatMap_cons]
    apply List.Sublist.append
    · simp only [tailOut, List.map_map]
      have : ((fun e : Elem => e.oid) ∘ xform m (ctxOf L first vo so np p)) = fun e => e.oid := by
        funext e; exact xform_oid _ _ _
      rw [this]
      exact (List.filter_sublist).map _
    · exact ih _ _ _ _

end C15
