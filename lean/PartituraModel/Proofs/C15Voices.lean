/-
C15 helper lemmas, part 2: what `xform` does to each field, and the order of the renumbered voices / staves
of two different parts.
-/
import PartituraModel.Proofs.C15Basic

namespace C15
open Model.Merge

-- ---------------------------------------------------------------- fields of the image

theorem xform_start (m : Mode) (c : Ctx) (e : Elem) : (xform m c e).start = e.start * c.mult := by
  cases m <;> simp only [xform, rescale, renumber] <;> (repeat' split) <;> rfl

theorem xform_stop (m : Mode) (c : Ctx) (e : Elem) : (xform m c e).stop = e.stop.map (· * c.mult) := by
  cases m <;> simp only [xform, rescale, renumber] <;> (repeat' split) <;> rfl

theorem xform_oid (m : Mode) (c : Ctx) (e : Elem) : (xform m c e).oid = e.oid := by
  cases m <;> simp only [xform, rescale, renumber] <;> (repeat' split) <;> rfl

theorem xform_cls (m : Mode) (c : Ctx) (e : Elem) : (xform m c e).cls = e.cls := by
  cases m <;> simp only [xform, rescale, renumber] <;> (repeat' split) <;> rfl

theorem xform_pitch (m : Mode) (c : Ctx) (e : Elem) : (xform m c e).pitch = e.pitch := by
  cases m <;> simp only [xform, rescale, renumber] <;> (repeat' split) <;> rfl

theorem xform_tiePrev (m : Mode) (c : Ctx) (e : Elem) : (xform m c e).tiePrev = e.tiePrev := by
  cases m <;> simp only [xform, rescale, renumber] <;> (repeat' split) <;> rfl

theorem xform_chain (m : Mode) (c : Ctx) (e : Elem) : (xform m c e).chain = e.chain := by
  cases m <;> simp only [xform, rescale, renumber] <;> (repeat' split) <;> rfl

theorem voice_mode_voice (c : Ctx) (e : Elem) (hg : isGeneric e.cls = true) :
    (xform .voice c e).voice = e.voice.map (· + c.vOff) := by
  simp [xform, rescale, renumber, hg]

theorem voice_mode_voice_other (c : Ctx) (e : Elem) (hg : isGeneric e.cls = false) :
    (xform .voice c e).voice = e.voice := by
  simp [xform, rescale, renumber, hg]

theorem voice_mode_staff (c : Ctx) (e : Elem) : (xform .voice c e).staff = e.staff := by
  simp only [xform, rescale, renumber]; split <;> rfl

theorem staff_mode_staff (c : Ctx) (e : Elem) (hs : withStaff e.cls = true) :
    (xform .staff c e).staff = some (e.staff.getD 1 + c.sOff) := by
  simp [xform, rescale, renumber, hs]

theorem staff_mode_staff_other (c : Ctx) (e : Elem) (hs : withStaff e.cls = false) :
    (xform .staff c e).staff = e.staff := by
  simp [xform, rescale, renumber, hs]

theorem staff_mode_voice (c : Ctx) (e : Elem) : (xform .staff c e).voice = e.voice := by
  simp only [xform, rescale, renumber]; split <;> rfl

theorem auto_mode_voice (c : Ctx) (e : Elem) (hg : isGeneric e.cls = true) :
    (xform .auto c e).voice = e.voice.map fun v => c.nPrev * 4 + rank c.uV v := by
  simp only [xform, rescale, renumber, hg, if_true]; split <;> rfl

theorem auto_mode_staff (c : Ctx) (e : Elem) (hs : withStaff e.cls = true) :
    (xform .auto c e).staff = some (c.nPrev + rank c.uS (e.staff.getD 1)) := by
  simp only [xform, rescale, renumber, hs, if_true]

-- ---------------------------------------------------------------- a later part lies above an earlier one

variable {ps : List APart} {i j : Nat} {p q : APart}

/-- voice mode, `i < j`: every renumbered voice of part `i` is below every renumbered voice of part `j` -/
theorem voice_lt (hij : i < j) (hp : ps[i]? = some p) {a : Elem} (ha : a ∈ allElems p)
    (hga : isGeneric a.cls = true) {va vb : Nat} (hva : a.voice = some va) (hvb : 1 ≤ vb) :
    va + sumBefore maxVoice ps i < vb + sumBefore maxVoice ps j := by
  have h1 := sumBefore_mono maxVoice hij hp
  have h2 := voice_le_maxVoice ha hga hva
  omega

/-- staff mode, `i < j` -/
theorem staff_lt (hij : i < j) (hp : ps[i]? = some p) {a : Elem} (ha : a ∈ allElems p)
    (hsa : withStaff a.cls = true) {sb : Nat} (hsb : 1 ≤ sb) :
    a.staff.getD 1 + sumBefore maxStaff ps i < sb + sumBefore maxStaff ps j := by
  have h1 := sumBefore_mono maxStaff hij hp
  have h2 := staff_le_maxStaff ha hsa
  omega

/-- auto mode, staves, `i < j` -/
theorem auto_staff_lt (hij : i < j) (hp : ps[i]? = some p) {a : Elem} (ha : a ∈ allElems p)
    (hsa : withStaff a.cls = true) (sb : Nat) :
    sumBefore nStaves ps i + rank (uStaves p) (a.staff.getD 1)
      < sumBefore nStaves ps j + rank (uStaves q) sb := by
  have h1 := sumBefore_mono nStaves hij hp
  have h2 := rank_le (staff_mem_uStaves ha hsa)
  have h3 := rank_pos (uStaves q) sb
  simp only [nStaves] at h1
  omega

/-- auto mode, voices, `i < j`, when part `i` has at most 4 voices per staff -/
theorem auto_voice_lt (hij : i < j) (hp : ps[i]? = some p) {a : Elem} (ha : a ∈ allElems p)
    (hga : isGeneric a.cls = true) {va : Nat} (hva : a.voice = some va)
    (h4 : (uVoices p).length ≤ 4 * nStaves p) (vb : Nat) :
    sumBefore nStaves ps i * 4 + rank (uVoices p) va
      < sumBefore nStaves ps j * 4 + rank (uVoices q) vb := by
  have h1 := sumBefore_mono nStaves hij hp
  have h2 := rank_le (voice_mem_uVoices ha hga hva)
  have h3 := rank_pos (uVoices q) vb
  omega

end C15
