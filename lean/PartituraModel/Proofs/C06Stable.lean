/-
C06 helper lemmas (round 2): more about the stable sort `sortBy` — it commutes with filters, it is the
only stable arrangement in order of tick, sorting pieces first changes nothing; `uniqueSorted`.
-/
import PartituraModel.Model.PerfMidi
import PartituraModel.Proofs.C06Sort
import PartituraModel.Proofs.C06Ids

namespace C06Stable
open Model Model.PerfMidi C06Sort C06Ids

variable {α : Type}

theorem insertBy_of_le_all (le : α → α → Bool) (a : α) (r : List α) (h : ∀ x ∈ r, le a x = true) :
    insertBy le a r = a :: r := by
  cases r with
  | nil => rfl
  | cons x r => simp [insertBy, h x (List.mem_cons_self)]

/-- a filter commutes with an insertion into a list in order -/
theorem filter_insertBy (le : α → α → Bool)
    (trans : ∀ a b c, le a b = true → le b c = true → le a c = true)
    (p : α → Bool) (a : α) (l : List α) (hs : l.Pairwise (fun x y => le x y = true)) :
    (insertBy le a l).filter p = if p a then insertBy le a (l.filter p) else l.filter p := by
  induction l with
  | nil => cases h : p a <;> simp [insertBy, h]
  | cons b l ih =>
    rw [List.pairwise_cons] at hs
    by_cases hab : le a b = true
    · have e : insertBy le a (b :: l) = a :: b :: l := by simp [insertBy, hab]
      rw [e]
      by_cases hp : p a = true
      · rw [if_pos hp, List.filter_cons_of_pos hp]
        rw [insertBy_of_le_all]
        intro x hx
        have hx' := (List.mem_filter.mp hx).1
        rcases List.mem_cons.mp hx' with rfl | hx'
        · exact hab
        · exact trans _ _ _ hab (hs.1 x hx')
      · rw [if_neg hp, List.filter_cons_of_neg hp]
    · have e : insertBy le a (b :: l) = b :: insertBy le a l := by simp [insertBy, hab]
      rw [e]
      by_cases hb : p b = true
      · rw [List.filter_cons_of_pos hb, List.filter_cons_of_pos hb, ih hs.2]
        by_cases hp : p a = true
        · rw [if_pos hp, if_pos hp]
          simp [insertBy, hab]
        · rw [if_neg hp, if_neg hp]
      · rw [List.filter_cons_of_neg hb, List.filter_cons_of_neg hb, ih hs.2]

/-- a filter commutes with the stable sort -/
theorem filter_sortBy (le : α → α → Bool)
    (total : ∀ a b, le a b = true ∨ le b a = true)
    (trans : ∀ a b c, le a b = true → le b c = true → le a c = true)
    (p : α → Bool) (l : List α) : (sortBy le l).filter p = sortBy le (l.filter p) := by
  induction l with
  | nil => rfl
  | cons a l ih =>
    have e : sortBy le (a :: l) = insertBy le a (sortBy le l) := rfl
    rw [e, filter_insertBy le trans p a _ (sorted_sortBy le total trans l), ih]
    by_cases hp : p a = true
    · rw [if_pos hp, List.filter_cons_of_pos hp]
      rfl
    · rw [if_neg hp, List.filter_cons_of_neg hp]

-- ------------------------------------------------------------------ tracks in order of tick

/-- the messages of a track at tick `k`, in order -/
def atTick (k : Int) (l : Track) : Track := l.filter (fun m => decide (m.1 = k))

theorem atTick_cons_same (m : TMsg) (l : Track) : atTick m.1 (m :: l) = m :: atTick m.1 l := by
  simp [atTick]

theorem atTick_cons_other (k : Int) (m : TMsg) (l : Track) (h : m.1 ≠ k) : atTick k (m :: l) = atTick k l := by
  simp [atTick, h]

theorem mem_of_atTick (l l' : Track) (h : ∀ k, atTick k l = atTick k l') (m : TMsg) (hm : m ∈ l) : m ∈ l' := by
  have : m ∈ atTick m.1 l := List.mem_filter.mpr ⟨hm, by simp⟩
  rw [h] at this
  exact (List.mem_filter.mp this).1

/-- a track in order of tick is determined by what it holds at every tick -/
theorem sorted_ext (l1 l2 : Track) (h1 : l1.Pairwise (fun a b => a.1 ≤ b.1))
    (h2 : l2.Pairwise (fun a b => a.1 ≤ b.1)) (h : ∀ k, atTick k l1 = atTick k l2) : l1 = l2 := by
  induction l1 generalizing l2 with
  | nil =>
    cases l2 with
    | nil => rfl
    | cons b t2 =>
      have := mem_of_atTick (b :: t2) [] (fun k => (h k).symm) b (List.mem_cons_self)
      cases this
  | cons a t1 ih =>
    cases l2 with
    | nil =>
      have := mem_of_atTick (a :: t1) [] h a (List.mem_cons_self)
      cases this
    | cons b t2 =>
      rw [List.pairwise_cons] at h1 h2
      have hba : b.1 ≤ a.1 := by
        rcases List.mem_cons.mp (mem_of_atTick _ _ h a (List.mem_cons_self)) with rfl | hm
        · exact le_refl _
        · exact h2.1 a hm
      have hab : a.1 ≤ b.1 := by
        rcases List.mem_cons.mp (mem_of_atTick _ _ (fun k => (h k).symm) b (List.mem_cons_self)) with rfl | hm
        · exact le_refl _
        · exact h1.1 b hm
      have hk : a.1 = b.1 := le_antisymm hab hba
      have h0 := h a.1
      rw [atTick_cons_same, hk, atTick_cons_same] at h0
      have hab' : a = b := (List.cons.inj h0).1
      subst hab'
      congr 1
      refine ih t2 h1.2 h2.2 ?_
      intro k
      by_cases hka : a.1 = k
      · subst hka
        exact (List.cons.inj h0).2
      · have := h k
        rwa [atTick_cons_other k a t1 hka, atTick_cons_other k a t2 hka] at this

theorem atTick_sortBy (k : Int) (l : Track) : atTick k (sortBy tickLe l) = atTick k l := by
  unfold atTick
  refine filter_sortBy_eq tickLe _ l ?_
  rw [List.pairwise_iff_forall_sublist]
  intro a b hab
  have ha := hab.subset (List.mem_cons_self)
  have hb := hab.subset (List.mem_cons_of_mem _ List.mem_cons_self)
  have ha' : a.1 = k := by simpa using (List.mem_filter.mp ha).2
  have hb' : b.1 = k := by simpa using (List.mem_filter.mp hb).2
  simp [tickLe, ha', hb']

theorem sorted_sortBy_tick (l : Track) : (sortBy tickLe l).Pairwise (fun a b => a.1 ≤ b.1) :=
  (sorted_sortBy tickLe tickLe_total tickLe_trans l).imp (fun h => by simpa [tickLe] using h)

/-- the stable sort by tick is the only arrangement in order of tick that keeps, at every tick, the
    messages in their order -/
theorem sortBy_unique (l l' : Track) (hs : l'.Pairwise (fun a b => a.1 ≤ b.1))
    (h : ∀ k, atTick k l' = atTick k l) : sortBy tickLe l = l' :=
  sorted_ext _ _ (sorted_sortBy_tick l) hs (fun k => by rw [atTick_sortBy, h])

/-- lists that hold the same messages in the same order at every tick have the same stable sort -/
theorem sortBy_congr (l l' : Track) (h : ∀ k, atTick k l = atTick k l') :
    sortBy tickLe l = sortBy tickLe l' :=
  sortBy_unique l _ (sorted_sortBy_tick l') (fun k => by rw [atTick_sortBy, h])

theorem sortBy_idem (l : Track) : sortBy tickLe (sortBy tickLe l) = sortBy tickLe l :=
  sortBy_congr _ _ (fun k => atTick_sortBy k l)

theorem atTick_flatMap {γ : Type} (k : Int) (ts : List γ) (f : γ → Track) :
    atTick k (ts.flatMap f) = ts.flatMap (fun t => atTick k (f t)) := by
  unfold atTick
  induction ts with
  | nil => rfl
  | cons t ts ih => simp only [List.flatMap_cons, List.filter_append, ih]

/-- sorting the pieces first does not change the sort of the concatenation -/
theorem sortBy_flatMap_sortBy {γ : Type} (ts : List γ) (f : γ → Track) :
    sortBy tickLe (ts.flatMap (fun t => sortBy tickLe (f t))) = sortBy tickLe (ts.flatMap f) := by
  refine sortBy_congr _ _ (fun k => ?_)
  rw [atTick_flatMap, atTick_flatMap]
  congr 1
  funext t
  exact atTick_sortBy k (f t)

-- ------------------------------------------------------------------ uniqueSorted

theorem mem_insertU (a x : Nat) (l : List Nat) : a ∈ insertU x l ↔ a = x ∨ a ∈ l := by
  induction l with
  | nil => simp [insertU]
  | cons b l ih =>
    unfold insertU
    split
    · simp
    · split
      · rename_i h; subst h; simp
      · simp only [List.mem_cons, ih]
        tauto

theorem mem_uniqueSorted (l : List Nat) (a : Nat) : a ∈ uniqueSorted l ↔ a ∈ l := by
  induction l with
  | nil => simp [uniqueSorted]
  | cons x l ih =>
    have : uniqueSorted (x :: l) = insertU x (uniqueSorted l) := rfl
    rw [this, mem_insertU, ih]
    simp

theorem strict_insertU (x : Nat) (l : List Nat) (h : l.Pairwise (· < ·)) : (insertU x l).Pairwise (· < ·) := by
  induction l with
  | nil => simp [insertU]
  | cons b l ih =>
    rw [List.pairwise_cons] at h
    unfold insertU
    split
    · rename_i hxb
      rw [List.pairwise_cons]
      refine ⟨?_, List.pairwise_cons.mpr h⟩
      intro y hy
      rcases List.mem_cons.mp hy with rfl | hy
      · exact hxb
      · exact lt_trans hxb (h.1 y hy)
    · split
      · exact List.pairwise_cons.mpr h
      · rename_i h1 h2
        rw [List.pairwise_cons]
        refine ⟨?_, ih h.2⟩
        intro y hy
        rcases (mem_insertU y x l).mp hy with rfl | hy
        · omega
        · exact h.1 y hy

theorem strict_uniqueSorted (l : List Nat) : (uniqueSorted l).Pairwise (· < ·) := by
  induction l with
  | nil => simp [uniqueSorted]
  | cons x l ih => exact strict_insertU x _ ih

theorem nodup_uniqueSorted (l : List Nat) : (uniqueSorted l).Nodup :=
  (strict_uniqueSorted l).imp (fun h => Nat.ne_of_lt h)

end C06Stable
