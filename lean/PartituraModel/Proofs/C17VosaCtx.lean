/-
C17 (round 2): the context `Vosa.search` builds is well-formed (`C17L.CtxWF`), hence the modelled
search never answers `none` on a non-empty array.
-/
import PartituraModel.Proofs.C17VosaLoop

namespace C17X
open Model Model.Vosa C17T C17L

-- ------------------------------------------------------------------ counting

theorem cnt_perm (l l' : List N) (h : l.Perm l') (t : Rat) : cnt l t = cnt l' t := by
  unfold cnt
  exact (h.filter _).length_eq

theorem cnt_byOnset (l : List N) (t : Rat) : cnt (byOnset l) t = cnt l t :=
  cnt_perm _ _ (C17S.isort_perm _ l) t

theorem mem_timepoints_byOnset (l : List N) (t : Rat) :
    t ∈ timepoints (byOnset l) ↔ (∃ n ∈ l, n.on = t) ∨ (∃ n ∈ l, n.off = t) := by
  rw [mem_timepoints]
  simp only [byOnset, mem_isort]

/-- a contig cut out of the score never has more simultaneous notes than the score -/
theorem cnt_sub (l all : List N) (hnd : l.Nodup) (hsub : ∀ x ∈ l, x ∈ all) (t : Rat) : cnt l t ≤ cnt all t := by
  unfold cnt
  apply List.Subperm.length_le
  apply (hnd.filter _).subperm
  intro x hx
  obtain ⟨h1, h2⟩ := List.mem_filter.mp hx
  exact List.mem_filter.mpr ⟨hsub x h1, h2⟩

theorem maxCnt_le (notes : List N) (B : Nat) (h : ∀ t ∈ timepoints notes, cnt notes t ≤ B) : maxCnt notes ≤ B := by
  unfold maxCnt
  rcases foldl_max_mem ((timepoints notes).map (cnt notes)) 0 with e | e
  · rw [e]; omega
  · obtain ⟨t, ht, e'⟩ := List.mem_map.mp e
    rw [← e']; exact h t ht

theorem maxCnt_sub (l all : List N) (hnd : l.Nodup) (hsub : ∀ x ∈ l, x ∈ all) :
    maxCnt (byOnset l) ≤ maxCnt all := by
  apply maxCnt_le
  intro t ht
  rw [cnt_byOnset]
  refine le_trans (cnt_sub l all hnd hsub t) (cnt_le_max all t ?_)
  rw [mem_timepoints]
  rcases (mem_timepoints_byOnset l t).mp ht with ⟨n, hn, e⟩ | ⟨n, hn, e⟩
  · exact Or.inl ⟨n, hsub n hn, e⟩
  · exact Or.inr ⟨n, hsub n hn, e⟩

/-- notes of a contig that sound together are counted by its number of streams -/
theorem maxCnt_ge (l sn : List N) (tp : Rat) (hnd : sn.Nodup) (hne : sn ≠ [])
    (hs : ∀ x ∈ sn, x ∈ l ∧ x.on ≤ tp ∧ tp < x.off) : sn.length ≤ maxCnt (byOnset l) := by
  obtain ⟨t', ht'⟩ := Option.isSome_iff_exists.mp (maxRat_isSome (sn.map fun n => n.on) (by simpa using hne))
  obtain ⟨n0, hn0, hn0t⟩ := List.mem_map.mp (maxRat_mem _ _ ht')
  have hin : t' ∈ timepoints (byOnset l) :=
    (mem_timepoints_byOnset l t').mpr (Or.inl ⟨n0, (hs n0 hn0).1, hn0t⟩)
  have hle : t' ≤ tp := by rw [← hn0t]; exact (hs n0 hn0).2.1
  have h1 : sn.length ≤ cnt l t' := by
    unfold cnt
    apply List.Subperm.length_le
    apply hnd.subperm
    intro x hx
    obtain ⟨hxl, _, hoff⟩ := hs x hx
    refine List.mem_filter.mpr ⟨hxl, ?_⟩
    simp only [Bool.and_eq_true, decide_eq_true_eq]
    exact ⟨maxRat_ge _ _ ht' x.on (List.mem_map.mpr ⟨x, hx, rfl⟩), lt_of_le_of_lt hle hoff⟩
  have h2 := cnt_le_max (byOnset l) t' hin
  rw [cnt_byOnset] at h2
  omega

-- ------------------------------------------------------------------ the contig lists

/-- what holds of every (notes, number of voices) pair `make_contigs` produces -/
def CL (all : List N) (c : List N × Nat) : Prop :=
  c.1 ≠ [] ∧ c.1.Nodup ∧ (∀ x ∈ c.1, x ∈ all) ∧
  ∃ sn tp, sn.length = c.2 ∧ sn.Nodup ∧ sn ≠ [] ∧ ∀ x ∈ sn, x ∈ c.1 ∧ x.on ≤ tp ∧ tp < x.off

/-- what holds of the sounding notes of every timepoint -/
def SN (all : List N) (sn : List N) : Prop :=
  sn.Nodup ∧ (∀ x ∈ sn, x ∈ all) ∧ ∃ tp : Rat, ∀ x ∈ sn, x.on ≤ tp ∧ tp < x.off

theorem hasIx_false (n : N) (c : List N) (h : hasIx n c = false) : n ∉ c := by
  intro hin
  have : hasIx n c = true := by
    simp only [hasIx, List.any_eq_true]
    exact ⟨n, hin, by simp⟩
  rw [h] at this
  exact absurd this (by simp)

theorem appendNew_spec (all : List N) : ∀ (sn cur : List N), cur.Nodup → (∀ x ∈ cur, x ∈ all) → (∀ x ∈ sn, x ∈ all) →
    (appendNew cur sn).Nodup ∧ (∀ x ∈ appendNew cur sn, x ∈ all) ∧ ∀ x ∈ cur, x ∈ appendNew cur sn := by
  intro sn
  unfold appendNew
  induction sn with
  | nil => intro cur h1 h2 _; exact ⟨h1, h2, fun x h => h⟩
  | cons a r ih =>
    intro cur h1 h2 h3
    simp only [List.foldl_cons]
    by_cases hh : hasIx a cur = true
    · simp only [hh, if_true]
      exact ih cur h1 h2 (fun x hx => h3 x (List.mem_cons_of_mem _ hx))
    · simp only [hh, Bool.false_eq_true, if_false]
      have hnot : a ∉ cur := hasIx_false a cur (by simpa using hh)
      have hnd : (cur ++ [a]).Nodup := by
        rw [List.nodup_append]
        refine ⟨h1, by simp, ?_⟩
        intro x hx y hy
        simp at hy; subst hy
        intro e; subst e; exact hnot hx
      obtain ⟨k1, k2, k3⟩ := ih (cur ++ [a]) hnd
        (by
          intro x hx
          rcases List.mem_append.mp hx with h | h
          · exact h2 x h
          · simp at h; subst h; exact h3 _ (List.mem_cons_self ..))
        (fun x hx => h3 x (List.mem_cons_of_mem _ hx))
      exact ⟨k1, k2, fun x hx => k3 x (List.mem_append_left _ hx)⟩

theorem contigLists_inv (all : List N) : ∀ (L : List (List N × Bool)) (acc cl : List (List N × Nat)),
    contigLists L acc = some cl → (∀ e ∈ L, SN all e.1) → (∀ c ∈ acc, CL all c) → ∀ c ∈ cl, CL all c := by
  intro L
  induction L with
  | nil =>
    intro acc cl h _ hacc c hc
    simp only [contigLists, Option.some.injEq] at h
    subst h
    exact hacc c (List.mem_reverse.mp hc)
  | cons e rest ih =>
    intro acc cl h hL hacc
    obtain ⟨sn, sb⟩ := e
    have hsn := hL (sn, sb) (List.mem_cons_self ..)
    have hrest : ∀ e ∈ rest, SN all e.1 := fun e he => hL e (List.mem_cons_of_mem _ he)
    simp only [contigLists] at h
    by_cases hc : (sb && !sn.isEmpty) = true
    · rw [if_pos hc] at h
      apply ih _ cl h hrest
      intro c hcm
      rcases List.mem_cons.mp hcm with rfl | hcm
      · obtain ⟨h1, h2, tp, h3⟩ := hsn
        have hne : sn ≠ [] := by
          intro e; subst e; simp at hc
        exact ⟨hne, h1, h2, sn, tp, rfl, h1, hne, fun x hx => ⟨hx, h3 x hx⟩⟩
      · exact hacc c hcm
    · rw [if_neg hc] at h
      cases acc with
      | nil =>
        simp only at h
        split at h
        · exact ih [] cl h hrest (by simp)
        · exact absurd h (by simp)
      | cons c0 more =>
        obtain ⟨cur, nv⟩ := c0
        simp only at h
        apply ih _ cl h hrest
        intro c hcm
        rcases List.mem_cons.mp hcm with rfl | hcm
        · obtain ⟨g1, g2, g3, sn0, tp0, g4, g5, g6, g7⟩ := hacc (cur, nv) (List.mem_cons_self ..)
          obtain ⟨k1, k2, k3⟩ := appendNew_spec all sn cur g2 g3 hsn.2.1
          refine ⟨?_, k1, k2, sn0, tp0, g4, g5, g6, fun x hx => ⟨k3 x (g7 x hx).1, (g7 x hx).2⟩⟩
          intro e
          obtain ⟨y, hy⟩ := List.exists_mem_of_ne_nil _ g1
          have hmem : y ∈ appendNew cur sn := k3 y hy
          have e' : appendNew cur sn = [] := e
          rw [e'] at hmem
          exact absurd hmem (by simp)
        · exact hacc c (List.mem_cons_of_mem _ hcm)

theorem sounding_SN (all : List N) (hnd : all.Nodup) (tp : Rat) : SN all (sounding all tp) := by
  have hp : (sounding all tp).Perm (all.filter fun n => decide (n.on ≤ tp) && decide (tp < n.off)) :=
    C17S.isort_perm _ _
  refine ⟨hp.nodup_iff.mpr (hnd.filter _), ?_, tp, ?_⟩
  · intro x hx
    exact (List.mem_filter.mp (hp.subset hx)).1
  · intro x hx
    have := (List.mem_filter.mp (hp.subset hx)).2
    simpa using this

/-- every contig `make_contigs` produces is non-empty, without repetition, part of the score, and
    its number of voices counts notes of it that sound together -/
theorem contigNoteLists_CL (all : List N) (hnd : all.Nodup) (cl : List (List N × Nat)) (nT numV : Nat)
    (h : contigNoteLists all = some (cl, nT, numV)) :
    (∀ c ∈ cl, CL all c) ∧ numV = maxCnt all := by
  simp only [contigNoteLists] at h
  cases hl : ((timepoints all).map (sounding all)).getLast? with
  | none => simp [hl] at h
  | some lastS =>
    simp only [hl, Option.map_eq_some_iff] at h
    obtain ⟨cl', hcl, he⟩ := h
    simp only [Prod.mk.injEq] at he
    obtain ⟨rfl, _, hnv⟩ := he
    constructor
    · apply contigLists_inv all _ [] cl' hcl _ (by simp)
      intro e he
      have := (List.of_mem_zip he).1
      obtain ⟨tp, _, htp⟩ := List.mem_map.mp this
      rw [← htp]
      exact sounding_SN all hnd tp
    · rw [← hnv]
      unfold maxCnt
      congr 1
      simp only [List.map_map]
      exact List.map_congr_left (fun t _ => sounding_length all t)

-- ------------------------------------------------------------------ numbering the streams

theorem forall2_getElem? {α β : Type} (R : α → β → Prop) : ∀ (l : List α) (ys : List β),
    List.Forall₂ R l ys → ∀ (i : Nat) (x : α), l[i]? = some x → ∃ y, ys[i]? = some y ∧ R x y := by
  intro l ys h
  induction h with
  | nil => intro i x hx; simp at hx
  | cons hab _ ih =>
    intro i x hx
    cases i with
    | zero => simp at hx; subst hx; exact ⟨_, by simp, hab⟩
    | succ j => simp at hx; obtain ⟨y, hy, hr⟩ := ih j x hx; exact ⟨y, by simpa using hy, hr⟩

/-- how a numbered contig relates to the `Contig` it comes from -/
def RC (total : Nat) (raw : ContigRaw) (c : Contig) : Prop :=
  c.first = raw.first ∧ c.last = raw.last ∧ c.sids.length = raw.streams.length ∧ ∀ sid ∈ c.sids, sid < total

theorem numberContigs_spec : ∀ (raws : List ContigRaw) (base : Nat),
    (numberContigs raws base).2 = raws.flatMap (·.streams) ∧
    List.Forall₂ (RC (base + (raws.flatMap (·.streams)).length)) raws (numberContigs raws base).1 := by
  intro raws
  induction raws with
  | nil => intro base; simp [numberContigs]
  | cons r rs ih =>
    intro base
    obtain ⟨h1, h2⟩ := ih (base + r.streams.length)
    rcases hn : numberContigs rs (base + r.streams.length) with ⟨cs', ss⟩
    rw [hn] at h1 h2
    simp only at h1 h2
    simp only [numberContigs, hn, List.flatMap_cons, List.length_append]
    refine ⟨by rw [h1], List.Forall₂.cons ⟨rfl, rfl, by simp, ?_⟩ ?_⟩
    · intro sid hsid
      simp only [List.mem_map, List.mem_range] at hsid
      obtain ⟨i, hi, rfl⟩ := hsid
      omega
    · refine h2.imp ?_
      intro raw c hrc
      refine ⟨hrc.1, hrc.2.1, hrc.2.2.1, fun sid hsid => ?_⟩
      have := hrc.2.2.2 sid hsid
      omega

-- ------------------------------------------------------------------ the context of `search`

theorem mkNotes_ix (rows : List Row) : (mkNotes rows).map (·.ix) = List.range rows.length := by
  simp only [mkNotes, List.map_map]
  have : ∀ (l : List Row) (k : Nat), (l.zipIdx k).map (fun x => x.2) = List.range' k l.length := by
    intro l
    induction l with
    | nil => intro k; simp
    | cons a r ih => intro k; simp [List.zipIdx_cons, ih, List.range'_succ]
  have h2 := this rows 0
  rw [List.range_eq_range']
  rw [← h2]
  apply List.map_congr_left
  intro x _
  rfl

theorem mkNotes_facts (rows : List Row) :
    (mkNotes rows).Nodup ∧ (∀ x ∈ mkNotes rows, x.ix < rows.length) ∧ (mkNotes rows).length = rows.length := by
  have h := mkNotes_ix rows
  refine ⟨List.Nodup.of_map (·.ix) (by rw [h]; exact List.nodup_range), ?_, by simp [mkNotes]⟩
  intro x hx
  have : x.ix ∈ (mkNotes rows).map (·.ix) := List.mem_map.mpr ⟨x, hx, rfl⟩
  rw [h] at this
  exact List.mem_range.mp this

/-- the modelled `VoSA(score)` never raises on a non-empty score -/
theorem search_isSome (rows : List Row) (hne : rows ≠ []) : (search rows).isSome := by
  obtain ⟨hnd0, hix0, hlen0⟩ := mkNotes_facts rows
  have hperm : (byOnset (mkNotes rows)).Perm (mkNotes rows) := C17S.isort_perm _ _
  have hnd : (byOnset (mkNotes rows)).Nodup := hperm.nodup_iff.mpr hnd0
  have hix : ∀ x ∈ byOnset (mkNotes rows), x.ix < rows.length := fun x hx => hix0 x (hperm.subset hx)
  have hnotes : byOnset (mkNotes rows) ≠ [] := by
    intro e
    have := hperm.length_eq
    rw [e, hlen0] at this
    exact hne (List.eq_nil_of_length_eq_zero this.symm)
  obtain ⟨links, hlinks⟩ := Option.isSome_iff_exists.mp (graceLinks_isSome (mkNotes rows))
  obtain ⟨⟨cl, nT, numV⟩, hcl⟩ := Option.isSome_iff_exists.mp (contigNoteLists_isSome _ hnotes)
  obtain ⟨hCL, hnumV⟩ := contigNoteLists_CL _ hnd cl nT numV hcl
  obtain ⟨raws, hraws⟩ := Option.isSome_iff_exists.mp
    (mapM_isSome (fun c : List N × Nat => mkContig c.1) cl (fun c hc => mkContig_isSome c.1 (hCL c hc).1))
  have hF := mapM_forall2 _ cl raws hraws
  obtain ⟨hstreams, hRC⟩ := numberContigs_spec raws 0
  rcases hnum : numberContigs raws 0 with ⟨contigs, streams⟩
  rw [hnum] at hstreams hRC
  simp only [Nat.zero_add] at hstreams hRC
  rw [← hstreams] at hRC
  -- facts about one contig
  have hcontig : ∀ (c : List N × Nat) (raw : ContigRaw), c ∈ cl → mkContig c.1 = some raw →
      raw.streams.length = maxCnt (byOnset c.1) ∧ raw.first.length = maxCnt (byOnset c.1) ∧
      raw.last.length ≤ maxCnt (byOnset c.1) ∧ maxCnt (byOnset c.1) ≤ numV ∧ c.2 ≤ maxCnt (byOnset c.1) ∧
      (∀ s ∈ raw.streams, s.first.ix < rows.length ∧ s.last.ix < rows.length) ∧
      (∀ x ∈ raw.first, x.ix < rows.length) ∧ (∀ x ∈ raw.last, x.ix < rows.length) := by
    intro c raw hc hraw
    obtain ⟨g1, g2, g3, sn, tp, g4, g5, g6, g7⟩ := hCL c hc
    obtain ⟨raw', e, k1, k2, k3, k4, k5, k6⟩ := mkContig_spec c.1 g1
    rw [hraw] at e
    cases e
    refine ⟨k1, k2, k3, ?_, ?_, ?_, ?_, ?_⟩
    · rw [hnumV]; exact maxCnt_sub c.1 _ g2 g3
    · rw [← g4]; exact maxCnt_ge c.1 sn tp g5 g6 g7
    · intro s hs
      exact ⟨hix _ (g3 _ (k4 s hs).1), hix _ (g3 _ (k4 s hs).2)⟩
    · intro x hx; exact hix _ (g3 _ (k5 x hx))
    · intro x hx; exact hix _ (g3 _ (k6 x hx))
  let maxIdx := (cl.zipIdx.filter fun (c : (List N × Nat) × Nat) => c.1.2 == numV).map (·.2)
  let ctx : Ctx := { graces := gracesOf (mkNotes rows).length links, streams := streams.toArray, contigs := contigs.toArray,
                     numV := numV, maxIdx := maxIdx, nTimepoints := nT }
  have hctx : CtxWF ctx rows.length := by
    refine ⟨?_, ?_, ?_⟩
    · intro sid s hs
      have hmem : s ∈ streams := by
        have : streams[sid]? = some s := by simpa [ctx] using hs
        exact List.mem_of_getElem? this
      rw [hstreams, List.mem_flatMap] at hmem
      obtain ⟨raw, hraw, hsr⟩ := hmem
      obtain ⟨c, hc, hm⟩ := forall2_mem_right _ cl raws hF raw hraw
      exact (hcontig c raw hc hm).2.2.2.2.2.1 s hsr
    · intro c' hc'
      have hc'' : c' ∈ contigs := by simpa [ctx] using hc'
      obtain ⟨raw, hraw, hrc⟩ := forall2_mem_right _ raws contigs hRC c' hc''
      obtain ⟨c, hc, hm⟩ := forall2_mem_right _ cl raws hF raw hraw
      obtain ⟨k1, k2, k3, k4, _, _, k7, k8⟩ := hcontig c raw hc hm
      obtain ⟨r1, r2, r3, r4⟩ := hrc
      refine ⟨by simpa [ctx] using r4, by rw [r1, r3, k1, k2], by rw [r2, r3, k1]; exact k3,
        by rw [r3, k1]; exact k4, by rw [r1]; exact k7, by rw [r2]; exact k8⟩
    · intro mci hmci
      have hmci' : mci ∈ maxIdx := hmci
      simp only [maxIdx, List.mem_map, List.mem_filter] at hmci'
      obtain ⟨⟨c, i⟩, ⟨hzi, hnv⟩, rfl⟩ := hmci'
      have hget : cl[i]? = some c := by
        rw [List.mem_zipIdx_iff_getElem?] at hzi; simpa using hzi
      obtain ⟨raw, hrawget, hm⟩ := forall2_getElem? _ cl raws hF i c hget
      obtain ⟨c', hc'get, hrc⟩ := forall2_getElem? _ raws contigs hRC i raw hrawget
      refine ⟨c', by simpa [ctx] using hc'get, ?_⟩
      obtain ⟨k1, _, _, k4, k5, _⟩ := hcontig c raw (List.mem_of_getElem? hget) hm
      have : c.2 = numV := by simpa using hnv
      rw [hrc.2.2.1, k1]
      show maxCnt (byOnset c.1) = numV
      omega
  let st0 : St := { voice := Array.replicate (mkNotes rows).length none, skip := Array.replicate (mkNotes rows).length 0,
                    sv := Array.replicate streams.length none,
                    vms := Array.replicate maxIdx.length (Array.replicate numV []), fUn := [], bUn := [] }
  have hst0 : StWF ctx rows.length st0 := by
    refine ⟨by simp [st0, hlen0], by simp [st0, ctx], by simp [st0, ctx], ?_, by simp [st0], by simp [st0]⟩
    intro k vm hk
    have : vm = Array.replicate numV [] := by
      simp only [st0, Array.getElem?_replicate] at hk
      split at hk
      · exact (Option.some.inj hk).symm
      · exact absurd hk (by simp)
    subst this
    refine ⟨by simp [ctx], ?_⟩
    intro es voice hv
    simp only [Array.getElem?_replicate] at hv
    split at hv
    · cases hv; simp
    · exact absurd hv (by simp)
  obtain ⟨st1, e1, hst1, hfull⟩ := initAll_ok ctx rows.length hctx st0 hst0
  obtain ⟨st2, e2⟩ := crystallise_ok ctx rows.length hctx (nT + 1) st1 hst1 hfull
  have : search rows = some (ctx, st2) := by
    simp only [search, Option.bind_eq_bind, hlinks, Option.bind_some, hcl, hraws, hnum]
    rw [show (List.foldlM (initMax ctx) st0 maxIdx.zipIdx) = some st1 from e1]
    simp only [Option.bind_some]
    rw [show crystallise ctx (nT + 1) st1 = some st2 from e2]
    rfl
  rw [this]
  rfl

end C17X
