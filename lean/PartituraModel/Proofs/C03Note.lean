/-
C03 — the note element codec: reading back what `writeNote` wrote, field by field.
-/
import PartituraModel.Proofs.C03Text

namespace C03.Note
open Model Model.XmlNote C03.Text

/-! ### the tags of the pieces of a `<note>` -/

theorem tag_chordEl (n : NoteAttrs) : ∀ x ∈ chordEl n, x.tag = .chord := by
  unfold chordEl; split <;> simp [empty, Xml.tag]

theorem tag_graceEl (g : Option GraceType) : ∀ x ∈ graceEl g, x.tag = .grace := by
  unfold graceEl; split <;> simp [empty, Xml.tag]

theorem tag_bodyEls (b : Body) : ∀ x ∈ bodyEls b, x.tag ∈ [Tag.grace, .pitch, .unpitched, .notehead, .rest] := by
  cases b with
  | pitched step alter octave grace =>
    intro x hx
    simp only [bodyEls, List.mem_append, List.mem_singleton] at hx
    rcases hx with hx | hx
    · simp [tag_graceEl grace x hx]
    · subst hx; simp [Xml.tag]
  | unpitched step octave nh =>
    intro x hx
    simp only [bodyEls, List.mem_append, List.mem_singleton] at hx
    rcases hx with hx | hx
    · subst hx; simp [Xml.tag]
    · cases nh with
      | none => simp [noteheadEl] at hx
      | some p => obtain ⟨t, f⟩ := p; simp only [noteheadEl, List.mem_singleton] at hx; subst hx; simp [Xml.tag]
  | rest hidden =>
    intro x hx
    simp only [bodyEls] at hx
    split at hx
    · simp at hx
    · simp only [List.mem_singleton] at hx; subst hx; simp [empty, Xml.tag]

theorem tag_durEl (n : NoteAttrs) : ∀ x ∈ durEl n, x.tag = .duration := by
  unfold durEl; split <;> simp [leaf, Xml.tag]

theorem tag_tieEls (t : Tag) (n : NoteAttrs) : ∀ x ∈ tieEls t n, x.tag = t := by
  unfold tieEls
  intro x hx
  simp only [List.mem_append] at hx
  rcases hx with hx | hx <;> (split at hx <;> simp at hx; subst hx; rfl)

theorem tag_voiceEl (n : NoteAttrs) : ∀ x ∈ voiceEl n, x.tag = .voice := by
  unfold voiceEl; split
  · split <;> simp [leaf, Xml.tag]
  · simp

theorem tag_stemEl (n : NoteAttrs) : ∀ x ∈ stemEl n, x.tag = .stem := by
  unfold stemEl; split <;> simp [leaf, Xml.tag]

theorem tag_typeEl (n : NoteAttrs) : ∀ x ∈ typeEl n, x.tag = .type := by
  unfold typeEl; split <;> simp [leaf, Xml.tag]

theorem tag_dotEls (n : NoteAttrs) : ∀ x ∈ dotEls n, x.tag = .dot := by
  unfold dotEls; intro x hx; rw [List.eq_of_mem_replicate hx]; rfl

theorem tag_timeModEl (n : NoteAttrs) : ∀ x ∈ timeModEl n, x.tag = .timeModification := by
  unfold timeModEl; split <;> simp [Xml.tag]

theorem tag_staffEl (n : NoteAttrs) : ∀ x ∈ staffEl n, x.tag = .staff := by
  unfold staffEl; split
  · split <;> simp [leaf, Xml.tag]
  · simp

theorem tag_notationsEl (n : NoteAttrs) : ∀ x ∈ notationsEl n, x.tag = .notations := by
  unfold notationsEl; split <;> simp [Xml.tag]

/-- `findall` over the children of a written note, piece by piece -/
theorem findall_noteKids (t : Tag) (n : NoteAttrs) :
    findall t (noteKids n) = findall t (chordEl n) ++ findall t (bodyEls n.body) ++ findall t (durEl n) ++
      findall t (tieEls .tie n) ++ findall t (voiceEl n) ++ findall t (stemEl n) ++ findall t (typeEl n) ++
      findall t (dotEls n) ++ findall t (timeModEl n) ++ findall t (staffEl n) ++ findall t (notationsEl n) := by
  simp [noteKids, findall_append]

theorem one {t u : Tag} {l : List Xml} (h : ∀ x ∈ l, x.tag = u) (hn : t ≠ u) : findall t l = [] :=
  findall_none [u] (fun x hx => by simp [h x hx]) (by simpa using hn)

/-- a tag that occurs in one single-tag piece only -/
theorem findall_single (t : Tag) (n : NoteAttrs)
    (h1 : t ≠ .chord) (h2 : t ∉ [Tag.grace, .pitch, .unpitched, .notehead, .rest]) :
    findall t (noteKids n) = findall t (durEl n) ++
      findall t (tieEls .tie n) ++ findall t (voiceEl n) ++ findall t (stemEl n) ++ findall t (typeEl n) ++
      findall t (dotEls n) ++ findall t (timeModEl n) ++ findall t (staffEl n) ++ findall t (notationsEl n) := by
  rw [findall_noteKids, one (tag_chordEl n) h1, findall_none _ (tag_bodyEls n.body) h2]
  simp

theorem fa_duration (n : NoteAttrs) : findall .duration (noteKids n) = durEl n := by
  rw [findall_single _ _ (by decide) (by decide), findall_all (tag_durEl n), one (tag_tieEls .tie n) (by decide),
    one (tag_voiceEl n) (by decide), one (tag_stemEl n) (by decide), one (tag_typeEl n) (by decide),
    one (tag_dotEls n) (by decide), one (tag_timeModEl n) (by decide), one (tag_staffEl n) (by decide),
    one (tag_notationsEl n) (by decide)]
  simp

theorem fa_tie (n : NoteAttrs) : findall .tie (noteKids n) = tieEls .tie n := by
  rw [findall_single _ _ (by decide) (by decide), findall_all (tag_tieEls .tie n), one (tag_durEl n) (by decide),
    one (tag_voiceEl n) (by decide), one (tag_stemEl n) (by decide), one (tag_typeEl n) (by decide),
    one (tag_dotEls n) (by decide), one (tag_timeModEl n) (by decide), one (tag_staffEl n) (by decide),
    one (tag_notationsEl n) (by decide)]
  simp

theorem fa_voice (n : NoteAttrs) : findall .voice (noteKids n) = voiceEl n := by
  rw [findall_single _ _ (by decide) (by decide), findall_all (tag_voiceEl n), one (tag_durEl n) (by decide),
    one (tag_tieEls .tie n) (by decide), one (tag_stemEl n) (by decide), one (tag_typeEl n) (by decide),
    one (tag_dotEls n) (by decide), one (tag_timeModEl n) (by decide), one (tag_staffEl n) (by decide),
    one (tag_notationsEl n) (by decide)]
  simp

theorem fa_stem (n : NoteAttrs) : findall .stem (noteKids n) = stemEl n := by
  rw [findall_single _ _ (by decide) (by decide), findall_all (tag_stemEl n), one (tag_durEl n) (by decide),
    one (tag_tieEls .tie n) (by decide), one (tag_voiceEl n) (by decide), one (tag_typeEl n) (by decide),
    one (tag_dotEls n) (by decide), one (tag_timeModEl n) (by decide), one (tag_staffEl n) (by decide),
    one (tag_notationsEl n) (by decide)]
  simp

theorem fa_type (n : NoteAttrs) : findall .type (noteKids n) = typeEl n := by
  rw [findall_single _ _ (by decide) (by decide), findall_all (tag_typeEl n), one (tag_durEl n) (by decide),
    one (tag_tieEls .tie n) (by decide), one (tag_voiceEl n) (by decide), one (tag_stemEl n) (by decide),
    one (tag_dotEls n) (by decide), one (tag_timeModEl n) (by decide), one (tag_staffEl n) (by decide),
    one (tag_notationsEl n) (by decide)]
  simp

theorem fa_dot (n : NoteAttrs) : findall .dot (noteKids n) = dotEls n := by
  rw [findall_single _ _ (by decide) (by decide), findall_all (tag_dotEls n), one (tag_durEl n) (by decide),
    one (tag_tieEls .tie n) (by decide), one (tag_voiceEl n) (by decide), one (tag_stemEl n) (by decide),
    one (tag_typeEl n) (by decide), one (tag_timeModEl n) (by decide), one (tag_staffEl n) (by decide),
    one (tag_notationsEl n) (by decide)]
  simp

theorem fa_timeMod (n : NoteAttrs) : findall .timeModification (noteKids n) = timeModEl n := by
  rw [findall_single _ _ (by decide) (by decide), findall_all (tag_timeModEl n), one (tag_durEl n) (by decide),
    one (tag_tieEls .tie n) (by decide), one (tag_voiceEl n) (by decide), one (tag_stemEl n) (by decide),
    one (tag_typeEl n) (by decide), one (tag_dotEls n) (by decide), one (tag_staffEl n) (by decide),
    one (tag_notationsEl n) (by decide)]
  simp

theorem fa_staff (n : NoteAttrs) : findall .staff (noteKids n) = staffEl n := by
  rw [findall_single _ _ (by decide) (by decide), findall_all (tag_staffEl n), one (tag_durEl n) (by decide),
    one (tag_tieEls .tie n) (by decide), one (tag_voiceEl n) (by decide), one (tag_stemEl n) (by decide),
    one (tag_typeEl n) (by decide), one (tag_dotEls n) (by decide), one (tag_timeModEl n) (by decide),
    one (tag_notationsEl n) (by decide)]
  simp

theorem fa_notations (n : NoteAttrs) : findall .notations (noteKids n) = notationsEl n := by
  rw [findall_single _ _ (by decide) (by decide), findall_all (tag_notationsEl n), one (tag_durEl n) (by decide),
    one (tag_tieEls .tie n) (by decide), one (tag_voiceEl n) (by decide), one (tag_stemEl n) (by decide),
    one (tag_typeEl n) (by decide), one (tag_dotEls n) (by decide), one (tag_timeModEl n) (by decide),
    one (tag_staffEl n) (by decide)]
  simp

/-- a tag of the body pieces is found in the body only -/
theorem fa_body (t : Tag) (n : NoteAttrs) (h : t ∈ [Tag.grace, .pitch, .unpitched, .notehead, .rest]) :
    findall t (noteKids n) = findall t (bodyEls n.body) := by
  have hne : ∀ u, u ∉ [Tag.grace, .pitch, .unpitched, .notehead, .rest] → t ≠ u := fun u hu e => hu (e ▸ h)
  rw [findall_noteKids, one (tag_chordEl n) (hne _ (by decide)), one (tag_durEl n) (hne _ (by decide)),
    one (tag_tieEls .tie n) (hne _ (by decide)), one (tag_voiceEl n) (hne _ (by decide)),
    one (tag_stemEl n) (hne _ (by decide)), one (tag_typeEl n) (hne _ (by decide)), one (tag_dotEls n) (hne _ (by decide)),
    one (tag_timeModEl n) (hne _ (by decide)), one (tag_staffEl n) (hne _ (by decide)),
    one (tag_notationsEl n) (hne _ (by decide))]
  simp

theorem fa_chord (n : NoteAttrs) : findall .chord (noteKids n) = chordEl n := by
  rw [findall_noteKids, findall_all (tag_chordEl n), findall_none _ (tag_bodyEls n.body) (by decide),
    one (tag_durEl n) (by decide), one (tag_tieEls .tie n) (by decide), one (tag_voiceEl n) (by decide),
    one (tag_stemEl n) (by decide), one (tag_typeEl n) (by decide), one (tag_dotEls n) (by decide),
    one (tag_timeModEl n) (by decide), one (tag_staffEl n) (by decide), one (tag_notationsEl n) (by decide)]
  simp

/-! ### the scalar fields -/

theorem intOr_natCast_zero (d : Nat) : intOr (some (d : Int)) 0 = d := by
  unfold intOr; split
  · split <;> simp_all
  · simp_all

theorem read_duration (n : NoteAttrs) :
    readDuration (noteKids n) = some (if n.body.isGrace then 0 else (n.dur : Int)) := by
  unfold readDuration find
  rw [fa_duration]
  unfold durEl
  split
  · simp [tagInt, intOr]
  · simp [tagInt, leaf, Xml.text, natDigits_ne_nil, parseIntC_natDigits, intOr_natCast_zero]

theorem read_staff (n : NoteAttrs) : readStaff (noteKids n) = some (intOr n.staff 1) := by
  unfold readStaff find
  rw [fa_staff]
  unfold staffEl
  split
  · rename_i s hs
    split
    · simp [tagInt, leaf, Xml.text, showIntC_ne_nil, parseIntC_showIntC, hs]
    · rename_i hc
      have : s = 1 := by
        by_contra h; exact hc (Or.inl h)
      simp [tagInt, intOr, hs, this]
  · rename_i hs
    simp [tagInt, intOr, hs]

theorem read_voice (n : NoteAttrs) : readVoice (noteKids n) = some (canonVoice n) := by
  unfold readVoice find canonVoice
  rw [fa_voice]
  unfold voiceEl
  split
  · rename_i v hv
    split
    · rename_i h0; simp [tagInt, intOr, hv, h0]
    · simp [tagInt, leaf, Xml.text, showIntC_ne_nil, parseIntC_showIntC, hv]
  · rename_i hv
    simp [tagInt, intOr, hv]

theorem pyStr_ok {s : Str} (h : TextOK s) : pyStr s = s := by
  unfold pyStr; simp [show s ≠ [] from h]

theorem strOrNone_ok {s : Str} (h : TextOK s) : strOrNone (some s) = some s := by
  unfold strOrNone; simp [show s ≠ [] from h]

theorem read_symType (n : NoteAttrs) (h : ∀ s ∈ n.symType, TextOK s) : readSymType (noteKids n) = n.symType := by
  unfold readSymType find
  rw [fa_type]
  unfold typeEl
  split
  · rename_i s hs
    have := h s (by simp [hs])
    simp [tagStr, leaf, Xml.text, pyStr_ok this, strOrNone_ok this, hs]
  · rename_i hs
    simp [tagStr, strOrNone, hs]

theorem read_stem (n : NoteAttrs) (h : ∀ s ∈ n.stem, TextOK s) :
    strOrNone (tagStr (find .stem (noteKids n))) = n.stem := by
  unfold find
  rw [fa_stem]
  unfold stemEl
  split
  · rename_i s hs
    have := h s (by simp [hs])
    simp [tagStr, leaf, Xml.text, pyStr_ok this, strOrNone_ok this, hs]
  · rename_i hs
    simp [tagStr, strOrNone, hs]

theorem read_dots (n : NoteAttrs) : (findall .dot (noteKids n)).length = n.dots := by
  rw [fa_dot]; simp [dotEls]

theorem read_chord (n : NoteAttrs) : (find .chord (noteKids n)).isSome = n.chord := by
  unfold find
  rw [fa_chord]
  unfold chordEl
  split <;> simp_all

theorem read_id (n : NoteAttrs) : strOrNone ((writeNote n).get .id) = strOrNone n.id := by
  unfold writeNote Xml.get Xml.attrs idAttrs
  cases n.id <;> simp [Model.lookup]

theorem findPath_timeMod (t : Tag) (n : NoteAttrs) :
    findPath .timeModification t (noteKids n) = ((timeModEl n).flatMap fun x => findall t x.kids).head? := by
  unfold findPath; rw [fa_timeMod]

theorem read_actual (n : NoteAttrs) : readActual (noteKids n) = some (canonActual n) := by
  unfold readActual canonActual
  rw [findPath_timeMod]
  unfold timeModEl
  split
  · rename_i a b ha hb
    simp [findall, leaf, Xml.tag, Xml.kids, tagInt, Xml.text, showIntC_ne_nil, parseIntC_showIntC]
  · rename_i hno
    cases ha : n.actualNotes <;> cases hb : n.normalNotes <;> simp_all [tagInt, truthy]

theorem read_normal (n : NoteAttrs) : readNormal (noteKids n) = some (canonNormal n) := by
  unfold readNormal canonNormal
  rw [findPath_timeMod]
  unfold timeModEl
  split
  · rename_i a b ha hb
    simp [findall, leaf, Xml.tag, Xml.kids, tagInt, Xml.text, showIntC_ne_nil, parseIntC_showIntC]
  · rename_i hno
    cases ha : n.actualNotes <;> cases hb : n.normalNotes <;> simp_all [tagInt, truthy]

theorem read_ties (n : NoteAttrs) :
    ∃ ts, tieTypes (noteKids n) = some ts ∧ ts.contains ['s', 't', 'o', 'p'] = n.tiePrev ∧
      ts.contains ['s', 't', 'a', 'r', 't'] = n.tieNext := by
  unfold tieTypes
  rw [fa_tie]
  unfold tieEls
  cases n.tiePrev <;> cases n.tieNext <;> simp [Xml.get, Xml.attrs, Model.lookup]

/-! ### the body -/

theorem findall_singleton_same (x : Xml) : findall x.tag [x] = [x] := by simp [findall]

theorem read_body (n : NoteAttrs) (h : BodyOK n.body) : readBody (noteKids n) = some (canonBody n.body) := by
  unfold readBody find
  rw [fa_body .pitch n (by decide), fa_body .unpitched n (by decide), fa_body .grace n (by decide),
    fa_body .notehead n (by decide)]
  cases hb : n.body with
  | pitched step alter octave grace =>
    rw [hb] at h
    have hstep : pyStr step = step := pyStr_ok h
    have hp : findall Tag.pitch (bodyEls (.pitched step alter octave grace)) =
        [.el .pitch [] [] ([leaf .step step] ++ alterEl alter ++ [leaf .octave (showIntC octave)])] := by
      simp only [bodyEls, findall_append, one (tag_graceEl grace) (by decide : Tag.pitch ≠ Tag.grace)]
      simp [findall, Xml.tag]
    have hg : findall Tag.grace (bodyEls (.pitched step alter octave grace)) = graceEl grace := by
      simp only [bodyEls, findall_append, findall_all (tag_graceEl grace)]
      simp [findall, Xml.tag]
    rw [hp, hg]
    have hgr : (graceEl grace).head?.map readGrace =
        grace.map fun g => if g = .acciaccatura then GraceType.acciaccatura else .grace := by
      cases grace with
      | none => rfl
      | some g => cases g <;> simp [graceEl, readGrace, Xml.get, Xml.attrs, Model.lookup, empty]
    simp only [List.head?_cons, Xml.kids]
    cases alter with
    | none =>
      simp [alterEl, findall, leaf, Xml.tag, tagInt, tagStr, Xml.text, showIntC_ne_nil, parseIntC_showIntC, hstep,
        canonBody, truthy, hgr]
    | some a =>
      by_cases ha : a = 0
      · simp [alterEl, ha, findall, leaf, Xml.tag, tagInt, tagStr, Xml.text, showIntC_ne_nil, parseIntC_showIntC, hstep,
          canonBody, truthy, hgr]
      · simp [alterEl, ha, findall, leaf, Xml.tag, tagInt, tagStr, Xml.text, showIntC_ne_nil, parseIntC_showIntC, hstep,
          canonBody, truthy, hgr]
  | unpitched step octave nh =>
    rw [hb] at h
    have hstep : pyStr step = step := pyStr_ok h.1
    cases nh with
    | none =>
      simp [bodyEls, noteheadEl, findall, leaf, Xml.tag, Xml.kids, tagInt, tagStr, Xml.text, showIntC_ne_nil,
        parseIntC_showIntC, hstep, canonBody]
    | some p =>
      obtain ⟨t, f⟩ := p
      have ht : pyStr t = t := pyStr_ok (h.2 (t, f) (by simp))
      cases f <;>
      simp [bodyEls, noteheadEl, findall, leaf, Xml.tag, Xml.kids, tagInt, tagStr, Xml.text, showIntC_ne_nil,
        parseIntC_showIntC, hstep, ht, canonBody, Xml.get, Xml.attrs, Model.lookup]
  | rest hidden =>
    cases hidden <;> simp [bodyEls, findall, empty, Xml.tag, canonBody]

end C03.Note
