/-
C06 helper lemmas: what a selector (controls, programs, signatures, meta, tempo) reads from a track is
unchanged by sorting, `end_of_track` fixing, merging and delta encoding; what the exporter writes into
the track of a given number.
-/
import PartituraModel.Model.PerfMidi
import PartituraModel.Proofs.C06Sort

namespace C06Lists
open Model Model.PerfMidi C06Sort

variable {β : Type}

/-- the messages a selector `g` picks from a track, with their ticks -/
def sel (g : Ev → Option β) (t : Track) : List (Int × β) :=
  t.filterMap (fun m => (g m.2).map (fun b => (m.1, b)))

def gCtl : Ev → Option (Nat × Nat × Nat)
  | .control ch n v => some (n, v, ch)
  | _ => none

def gProg : Ev → Option (Nat × Nat)
  | .program ch g => some (g, ch)
  | _ => none

def gTime : Ev → Option (Nat × Nat)
  | .timeSig n d => some (n, d)
  | _ => none

def gKey : Ev → Option (Int × Bool)
  | .keySig f m => some (f, m)
  | _ => none

/-- meta messages other than `end_of_track` -/
def gMeta : Ev → Option Nat
  | .metaMsg i => some i
  | _ => none

def gTempo : Ev → Option Nat
  | .tempo m => some m
  | _ => none

theorem controlsOf_eq (t : Track) : controlsOf t = sel gCtl t := by
  induction t with
  | nil => rfl
  | cons m t ih => obtain ⟨k, e⟩ := m; cases e <;> simp_all [controlsOf, sel, gCtl]

theorem programsOf_eq (t : Track) : programsOf t = sel gProg t := by
  induction t with
  | nil => rfl
  | cons m t ih => obtain ⟨k, e⟩ := m; cases e <;> simp_all [programsOf, sel, gProg]

theorem timeSigsOf_eq (t : Track) : timeSigsOf t = sel gTime t := by
  induction t with
  | nil => rfl
  | cons m t ih => obtain ⟨k, e⟩ := m; cases e <;> simp_all [timeSigsOf, sel, gTime]

theorem keySigsOf_eq (t : Track) : keySigsOf t = sel gKey t := by
  induction t with
  | nil => rfl
  | cons m t ih => obtain ⟨k, e⟩ := m; cases e <;> simp_all [keySigsOf, sel, gKey]

theorem temposOf_eq (t : Track) : temposOf t = sel gTempo t := by
  induction t with
  | nil => rfl
  | cons m t ih => obtain ⟨k, e⟩ := m; cases e <;> simp_all [temposOf, sel, gTempo]

/-- the loaded meta list without its `end_of_track` entries -/
def realMetas (l : List (Int × Option Nat)) : List (Int × Nat) :=
  l.filterMap (fun m => m.2.map (fun i => (m.1, i)))

theorem realMetas_metasOf (t : Track) : realMetas (metasOf t) = sel gMeta t := by
  induction t with
  | nil => rfl
  | cons m t ih => obtain ⟨k, e⟩ := m; cases e <;> simp_all [metasOf, realMetas, sel, gMeta]

-- ------------------------------------------------------------------ generic facts about `sel`

theorem sel_append (g : Ev → Option β) (a b : Track) : sel g (a ++ b) = sel g a ++ sel g b := by
  simp [sel, List.filterMap_append]

theorem sel_perm (g : Ev → Option β) {a b : Track} (h : a.Perm b) : (sel g a).Perm (sel g b) :=
  h.filterMap _

theorem sel_sortBy (g : Ev → Option β) (le : TMsg → TMsg → Bool) (t : Track) :
    (sel g (sortBy le t)).Perm (sel g t) :=
  sel_perm g (perm_sortBy le t)

theorem sel_cons_none (g : Ev → Option β) (m : TMsg) (t : Track) (h : g m.2 = none) :
    sel g (m :: t) = sel g t := by
  simp [sel, h]

theorem sel_filter_eot (g : Ev → Option β) (h : g Ev.eot = none) (t : Track) :
    sel g (t.filter (fun m => !isEot m.2)) = sel g t := by
  induction t with
  | nil => rfl
  | cons m t ih =>
    obtain ⟨k, e⟩ := m
    by_cases he : isEot e = true
    · have : e = Ev.eot := by cases e <;> simp_all [isEot]
      subst this
      rw [List.filter_cons_of_neg (by simp [isEot]), ih, sel_cons_none g _ _ h]
    · rw [List.filter_cons_of_pos (by simpa using he)]
      unfold sel at ih ⊢
      simp only [List.filterMap_cons]
      rw [ih]

theorem sel_fixEot (g : Ev → Option β) (h : g Ev.eot = none) (t : Track) :
    sel g (fixEot t) = sel g t := by
  unfold fixEot
  rw [sel_append, sel_filter_eot g h]
  simp [sel, h]

theorem sel_flatten (g : Ev → Option β) (ts : List Track) : sel g ts.flatten = ts.flatMap (sel g) := by
  induction ts with
  | nil => rfl
  | cons t ts ih => simp [List.flatten_cons, sel_append, ih, List.flatMap_cons]

theorem sel_mergeAbs (g : Ev → Option β) (h : g Ev.eot = none) (ts : List Track) :
    (sel g (mergeAbs ts)).Perm (ts.flatMap (sel g)) := by
  unfold mergeAbs
  rw [sel_fixEot g h, ← sel_flatten]
  exact sel_sortBy g _ _

theorem flatMap_perm_of_forall₂ {γ δ ε : Type} (f : γ → List ε) (f' : δ → List ε) :
    ∀ (l : List γ) (l' : List δ), List.Forall₂ (fun a b => (f a).Perm (f' b)) l l' →
      (l.flatMap f).Perm (l'.flatMap f')
  | _, _, .nil => List.Perm.refl _
  | _, _, .cons h hs => by
    simp only [List.flatMap_cons]
    exact h.append (flatMap_perm_of_forall₂ f f' _ _ hs)


-- ------------------------------------------------------------------ `fixEot`, `mergeAbs` keep the order

theorem filter_fixEot (l : Track) :
    (fixEot l).filter (fun m => !isEot m.2) = l.filter (fun m => !isEot m.2) := by
  unfold fixEot
  rw [List.filter_append, List.filter_filter]
  simp [isEot]

theorem le_lastTick (l : Track) (h : l.Pairwise (fun a b => a.1 ≤ b.1)) : ∀ m ∈ l, m.1 ≤ lastTick l := by
  induction l with
  | nil => intro m hm; cases hm
  | cons a l ih =>
    cases l with
    | nil =>
      intro m hm
      rcases List.mem_cons.mp hm with rfl | hm
      · obtain ⟨k, e⟩ := m; exact le_refl _
      · cases hm
    | cons b r =>
      rw [List.pairwise_cons] at h
      have hl : lastTick (a :: b :: r) = lastTick (b :: r) := by
        obtain ⟨k, e⟩ := a; rfl
      rw [hl]
      intro m hm
      rcases List.mem_cons.mp hm with rfl | hm
      · exact le_trans (h.1 b (List.mem_cons_self)) (ih h.2 b (List.mem_cons_self))
      · exact ih h.2 m hm

theorem sorted_fixEot (l : Track) (h : l.Pairwise (fun a b => a.1 ≤ b.1)) :
    (fixEot l).Pairwise (fun a b => a.1 ≤ b.1) := by
  unfold fixEot
  rw [List.pairwise_append]
  refine ⟨h.sublist List.filter_sublist, List.pairwise_singleton _ _, ?_⟩
  intro a ha b hb
  rw [List.mem_singleton] at hb
  subst hb
  exact le_lastTick l h a (List.mem_filter.mp ha).1

-- ------------------------------------------------------------------ export: the appends to one track

/-- what `g` selects from the messages appended to track number `tr` -/
def evI (g : Ev → Option β) (tr : Nat) (ins : List Ins) : List (Int × β) :=
  sel g ((ins.filter (fun i => decide (i.1 = tr))).map (fun i => i.2))

theorem evI_append (g : Ev → Option β) (tr : Nat) (a b : List Ins) :
    evI g tr (a ++ b) = evI g tr a ++ evI g tr b := by
  simp [evI, List.filter_append, sel_append]

theorem evI_nil (g : Ev → Option β) (tr : Nat) : evI g tr [] = [] := rfl

theorem sel_trackAbs (g : Ev → Option β) (ins : List Ins) (tr : Nat) :
    (sel g (trackAbs ins tr)).Perm (evI g tr ins) := by
  unfold trackAbs evI
  exact sel_sortBy g _ _

/-- every message of the default program insertion is a `program_change 0` -/
theorem defaultPrograms_all (acc : List Ins) (p : PPart) :
    ∀ i ∈ defaultPrograms acc p, ∃ ch, i.2.2 = Ev.program ch 0 := by
  intro i hi
  unfold defaultPrograms at hi
  split at hi
  · split at hi
    · simp at hi
    · simp only [List.mem_flatMap, List.mem_map] at hi
      obtain ⟨tr, _, ch, _, rfl⟩ := hi
      exact ⟨ch, rfl⟩
  · simp at hi

theorem evI_defaultPrograms (g : Ev → Option β) (hg : ∀ ch pr, g (Ev.program ch pr) = none)
    (tr : Nat) (acc : List Ins) (p : PPart) : evI g tr (defaultPrograms acc p) = [] := by
  unfold evI sel
  rw [List.filterMap_eq_nil_iff]
  intro m hm
  obtain ⟨i, hi, rfl⟩ := List.mem_map.mp hm
  obtain ⟨ch, hch⟩ := defaultPrograms_all acc p i (List.mem_filter.mp hi).1
  simp [hch, hg]

theorem evI_foldl (g : Ev → Option β) (hg : ∀ ch pr, g (Ev.program ch pr) = none) (q : Rat → Int)
    (tr : Nat) (parts : List PPart) (acc : List Ins) :
    evI g tr (parts.foldl (insertPart q) acc)
      = evI g tr acc ++ parts.flatMap (fun p => evI g tr (partEvents q p)) := by
  induction parts generalizing acc with
  | nil => simp
  | cons p parts ih =>
    rw [List.foldl_cons, ih, List.flatMap_cons]
    unfold insertPart
    simp only [evI_append, evI_defaultPrograms g hg, List.append_nil, List.append_assoc]

theorem evI_insertAll (g : Ev → Option β) (hg : ∀ ch pr, g (Ev.program ch pr) = none) (q : Rat → Int)
    (tr : Nat) (parts : List PPart) :
    evI g tr (insertAll q parts) = parts.flatMap (fun p => evI g tr (partEvents q p)) := by
  unfold insertAll
  rw [evI_foldl g hg, evI_nil, List.nil_append]

/-- programs: the default insertions add `program_change 0` only -/
theorem evI_prog_foldl (q : Rat → Int) (tr : Nat) (parts : List PPart) (acc : List Ins) :
    ∃ d : List (Int × Nat × Nat), (∀ x ∈ d, x.2.1 = 0) ∧
      (evI gProg tr (parts.foldl (insertPart q) acc)).Perm
        (evI gProg tr acc ++ parts.flatMap (fun p => evI gProg tr (partEvents q p)) ++ d) := by
  induction parts generalizing acc with
  | nil => exact ⟨[], by simp, by simp⟩
  | cons p parts ih =>
    obtain ⟨d, hd, hp⟩ := ih (insertPart q acc p)
    refine ⟨evI gProg tr (defaultPrograms (acc ++ partEvents q p) p) ++ d, ?_, ?_⟩
    · intro x hx
      rcases List.mem_append.mp hx with hx | hx
      · unfold evI sel at hx
        obtain ⟨m, hm, hmx⟩ := List.mem_filterMap.mp hx
        obtain ⟨i, hi, rfl⟩ := List.mem_map.mp hm
        obtain ⟨ch, hch⟩ := defaultPrograms_all _ p i (List.mem_filter.mp hi).1
        simp [hch, gProg] at hmx
        rw [← hmx]
      · exact hd x hx
    · rw [List.foldl_cons, List.flatMap_cons]
      refine hp.trans ?_
      unfold insertPart
      simp only [evI_append, List.append_assoc]
      refine List.Perm.append_left _ (List.Perm.append_left _ ?_)
      -- dflt ++ (rest ++ d)  ~  rest ++ (dflt ++ d)
      rw [← List.append_assoc, ← List.append_assoc]
      exact List.Perm.append_right _ List.perm_append_comm

-- ------------------------------------------------------------------ export: the appends of one part

theorem evI_map (g : Ev → Option β) (tr : Nat) {γ : Type} (l : List γ) (f : γ → Ins) :
    evI g tr (l.map f) = l.filterMap (fun c =>
      if (f c).1 = tr then (g (f c).2.2).map (fun b => ((f c).2.1, b)) else none) := by
  induction l with
  | nil => rfl
  | cons c l ih =>
    have hh := ih
    unfold evI sel at hh ⊢
    by_cases h : (f c).1 = tr
    · simp only [List.map_cons, List.filter_cons, h, decide_true, if_true, List.filterMap_cons]
      cases g (f c).2.2 <;> simp [hh]
    · simp only [List.map_cons, List.filter_cons, h, decide_false, List.filterMap_cons]
      simp [hh]

theorem evI_map_none (g : Ev → Option β) (tr : Nat) {γ : Type} (l : List γ) (f : γ → Ins)
    (h : ∀ c, g (f c).2.2 = none) : evI g tr (l.map f) = [] := by
  rw [evI_map, List.filterMap_eq_nil_iff]
  intro c _
  simp [h]

theorem evI_notes_none (g : Ev → Option β) (hon : ∀ a b c, g (Ev.noteOn a b c) = none)
    (hoff : ∀ a b c, g (Ev.noteOff a b c) = none) (q : Rat → Int) (tr : Nat) (l : List PNote) :
    evI g tr (l.flatMap (noteIns q)) = [] := by
  induction l with
  | nil => rfl
  | cons n l ih =>
    rw [List.flatMap_cons, evI_append, ih, List.append_nil]
    unfold evI sel noteIns
    by_cases h : n.track = tr <;> simp [h, hon, hoff]

end C06Lists
