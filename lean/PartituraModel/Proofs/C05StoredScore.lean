/-
Helper lemmas for Props/C05StoredScore.lean (round 6): `mergeTables` / `mergeRestTables` COPY the float cells, the sort
key and the pitch of the rows they are given (prefixing touches the id, rescaling the three division columns), and the
dispatch over a given part table (`Tree.tableW`, …) at `rowsC` / `restRowsC` is the dispatch of round 2.
-/
import PartituraModel.Props.C05
import PartituraModel.Model.NoteArrayF64

namespace NoteArray
open List

/-- `r` carries the float cells, the sort key, the pitch and the voice of `r0` -/
def Copied (r r0 : Row) : Prop :=
  r.key = r0.key ∧ r.onsetBeat = r0.onsetBeat ∧ r.durBeat = r0.durBeat ∧ r.onsetQuarter = r0.onsetQuarter ∧
  r.durQuarter = r0.durQuarter ∧ r.pitch = r0.pitch ∧ r.voice = r0.voice

theorem Copied.refl (r : Row) : Copied r r := ⟨rfl, rfl, rfl, rfl, rfl, rfl, rfl⟩

theorem Copied.trans {a b c : Row} (h1 : Copied a b) (h2 : Copied b c) : Copied a c := by
  obtain ⟨a1, a2, a3, a4, a5, a6, a7⟩ := h1
  obtain ⟨b1, b2, b3, b4, b5, b6, b7⟩ := h2
  exact ⟨a1.trans b1, a2.trans b2, a3.trans b3, a4.trans b4, a5.trans b5, a6.trans b6, a7.trans b7⟩

theorem prefixFrom_mem : ∀ (ts : List (List Row)) (i : Nat) (t' : List Row), t' ∈ prefixFrom i ts →
    ∃ t ∈ ts, ∃ j, t' = prefixTable j t := by
  intro ts
  induction ts with
  | nil => intro i t' h; simp [prefixFrom] at h
  | cons t ts ih =>
    intro i t' h
    simp only [prefixFrom, mem_cons] at h
    rcases h with h | h
    · exact ⟨t, mem_cons_self, i, h⟩
    · obtain ⟨t0, ht0, j, hj⟩ := ih (i + 1) t' h
      exact ⟨t0, mem_cons_of_mem _ ht0, j, hj⟩

theorem prefixed_mem (u : Bool) (ts : List (List Row)) (t' : List Row) (h : t' ∈ C05.prefixed u ts) :
    ∃ t ∈ ts, tableDivs t' = tableDivs t ∧
      ∀ r ∈ t', ∃ r0 ∈ t, Copied r r0 ∧ r.onsetDiv = r0.onsetDiv ∧ r.durDiv = r0.durDiv ∧ r.divsPq = r0.divsPq := by
  unfold C05.prefixed at h
  split at h
  · obtain ⟨t, ht, j, rfl⟩ := prefixFrom_mem ts 0 t' h
    refine ⟨t, ht, ?_, ?_⟩
    · cases t <;> rfl
    · intro r hr
      unfold prefixTable at hr
      obtain ⟨r0, hr0, rfl⟩ := mem_map.mp hr
      exact ⟨r0, hr0, Copied.refl _, rfl, rfl, rfl⟩
  · exact ⟨t', h, rfl, fun r hr => ⟨r, hr, Copied.refl r, rfl, rfl, rfl⟩⟩

/-- every row of a merged table is a row of one of the tables with the float cells, key, pitch, voice COPIED and the
    division columns multiplied by that table's multiplier -/
theorem mergeTables_copied (u : Bool) (ts : List (List Row)) (out : List Row) (h : mergeTables u ts = some out) :
    ∀ r ∈ out, ∃ t ∈ ts, ∃ r0 ∈ t, Copied r r0 ∧
      r.onsetDiv = r0.onsetDiv * ((Model.natLcm (ts.map tableDivs) / tableDivs t : Nat) : Int) ∧
      r.durDiv = r0.durDiv * ((Model.natLcm (ts.map tableDivs) / tableDivs t : Nat) : Int) ∧
      r.divsPq = r0.divsPq * ((Model.natLcm (ts.map tableDivs) / tableDivs t : Nat) : Int) := by
  intro r hr
  obtain ⟨hperm, _⟩ := C05.merge_union u ts out h
  have hr' := hperm.mem_iff.mp hr
  obtain ⟨t1, ht1, hr1⟩ := mem_flatten.mp hr'
  obtain ⟨t', ht', rfl⟩ := mem_map.mp ht1
  obtain ⟨t, ht, hdivs, hrows⟩ := prefixed_mem u ts t' ht'
  unfold scaleTable at hr1
  obtain ⟨r1, hr1m, rfl⟩ := mem_map.mp hr1
  obtain ⟨r0, hr0, hc, hon, hdur, hdq⟩ := hrows r1 hr1m
  refine ⟨t, ht, r0, hr0, hc, ?_, ?_, ?_⟩
  · show r1.onsetDiv * _ = _
    rw [hon, hdivs]
  · show r1.durDiv * _ = _
    rw [hdur, hdivs]
  · show r1.divsPq * _ = _
    rw [hdq, hdivs]

/-- rest lists: prefixing only (no rescaling) -/
theorem mergeRestTables_copied (u : Bool) (ts : List (List Row)) :
    ∀ r ∈ mergeRestTables u ts, ∃ t ∈ ts, ∃ r0 ∈ t, Copied r r0 ∧ r.onsetDiv = r0.onsetDiv ∧ r.durDiv = r0.durDiv := by
  intro r hr
  unfold mergeRestTables at hr
  have hr' := (C05.rows_sorted _).2.mem_iff.mp hr
  obtain ⟨t', ht', hrt⟩ := mem_flatten.mp hr'
  by_cases hu : u = true
  · simp only [hu, if_true] at ht'
    obtain ⟨t, ht, j, rfl⟩ := prefixFrom_mem ts 0 t' ht'
    unfold prefixTable at hrt
    obtain ⟨r0, hr0, rfl⟩ := mem_map.mp hrt
    exact ⟨t, ht, r0, hr0, Copied.refl _, rfl, rfl⟩
  · simp only [hu] at ht'
    exact ⟨t', ht', r, hrt, Copied.refl r, rfl, rfl⟩

-- ------------------------------------------------------------------ the dispatch over a part table

mutual
theorem tableW_rowsC (u : Bool) (o : Opts) : ∀ t : Tree, t.tableW rowsC u o = t.table u o
  | .part d ns => by rw [Tree.tableW, Tree.table]
  | .group cs => by rw [Tree.tableW, Tree.table, tablesOfW_rowsC u o cs]
theorem tablesOfW_rowsC (u : Bool) (o : Opts) : ∀ cs : List Tree, tablesOfW rowsC u o cs = tablesOf u o cs
  | [] => by rw [tablesOfW, tablesOf]
  | c :: cs => by
    rw [tablesOfW, tablesOf, tableW_rowsC u o c, tablesOfW_rowsC u o cs]
    cases Tree.table u o c <;> cases tablesOf u o cs <;> rfl
end

mutual
theorem restTableW_restRowsC (u : Bool) (o : Opts) (c : Bool) :
    ∀ t : Tree, t.restTableW restRowsC u o c = t.restTable u o c
  | .part d ns => by rw [Tree.restTableW, Tree.restTable]
  | .group cs => by rw [Tree.restTableW, Tree.restTable, restTablesOfW_restRowsC u o c cs]
theorem restTablesOfW_restRowsC (u : Bool) (o : Opts) (c : Bool) :
    ∀ cs : List Tree, restTablesOfW restRowsC u o c cs = restTablesOf u o c cs
  | [] => by rw [restTablesOfW, restTablesOf]
  | t :: cs => by
    rw [restTablesOfW, restTablesOf, restTableW_restRowsC u o c t, restTablesOfW_restRowsC u o c cs]
    cases Tree.restTable u o c t <;> cases restTablesOf u o c cs <;> rfl
end

theorem tablesOfW_cons_some (pt : PartTable) (u : Bool) (o : Opts) (c : Tree) (cs : List Tree) (ts : List (List Row))
    (h : tablesOfW pt u o (c :: cs) = some ts) :
    ∃ t ts', c.tableW pt u o = some t ∧ tablesOfW pt u o cs = some ts' ∧ ts = t :: ts' := by
  rw [tablesOfW] at h
  split at h
  · rename_i t ts' h1 h2
    exact ⟨t, ts', h1, h2, (Option.some.inj h).symm⟩
  · cases h

theorem restTablesOfW_cons_some (rt : RestTable) (u : Bool) (o : Opts) (cl : Bool) (c : Tree) (cs : List Tree)
    (ts : List (List Row)) (h : restTablesOfW rt u o cl (c :: cs) = some ts) :
    ∃ t ts', c.restTableW rt u o cl = some t ∧ restTablesOfW rt u o cl cs = some ts' ∧ ts = t :: ts' := by
  rw [restTablesOfW] at h
  split at h
  · rename_i t ts' h1 h2
    exact ⟨t, ts', h1, h2, (Option.some.inj h).symm⟩
  · cases h

/-- a row of the table of a tree is a COPY (float cells, key, pitch, voice) of a row of the table of one of its parts -/
def FromPart (pt : PartTable) (o : Opts) (ps : List (Desc × List Note)) (r : Row) : Prop :=
  ∃ p ∈ ps, ∃ tab, pt p.1 p.2 { o with divs := true } = some tab ∧ ∃ r0 ∈ tab, Copied r r0

mutual
theorem tableW_copied (pt : PartTable) (u : Bool) (o : Opts) :
    ∀ (t : Tree) (out : List Row), t.tableW pt u o = some out → ∀ r ∈ out, FromPart pt o t.parts r
  | .part d ns, out, h, r, hr => by
    rw [Tree.tableW] at h
    rw [Tree.parts]
    exact ⟨(d, ns), mem_singleton.mpr rfl, out, h, r, hr, Copied.refl r⟩
  | .group cs, out, h, r, hr => by
    rw [Tree.tableW] at h
    rw [Tree.parts]
    obtain ⟨ts, hts, hm⟩ := Option.bind_eq_some_iff.mp h
    obtain ⟨t, ht, r1, hr1, hc, _⟩ := mergeTables_copied u ts out hm r hr
    obtain ⟨p, hp, tab, htab, r0, hr0, hc0⟩ := tablesOfW_copied pt u o cs ts hts t ht r1 hr1
    exact ⟨p, hp, tab, htab, r0, hr0, hc.trans hc0⟩
theorem tablesOfW_copied (pt : PartTable) (u : Bool) (o : Opts) :
    ∀ (cs : List Tree) (ts : List (List Row)), tablesOfW pt u o cs = some ts →
      ∀ t ∈ ts, ∀ r ∈ t, FromPart pt o (partsOf cs) r
  | [], ts, h, t, ht, r, hr => by
    rw [tablesOfW] at h
    cases h
    cases ht
  | c :: cs, ts, h, t, ht, r, hr => by
    obtain ⟨t0, ts', h1, h2, rfl⟩ := tablesOfW_cons_some pt u o c cs ts h
    rw [partsOf]
    rcases mem_cons.mp ht with rfl | ht'
    · obtain ⟨p, hp, rest⟩ := tableW_copied pt u o c t h1 r hr
      exact ⟨p, mem_append_left _ hp, rest⟩
    · obtain ⟨p, hp, rest⟩ := tablesOfW_copied pt u o cs ts' h2 t ht' r hr
      exact ⟨p, mem_append_right _ hp, rest⟩
end

/-- the same for rest tables -/
def FromPartRests (rt : RestTable) (o : Opts) (cl : Bool) (ps : List (Desc × List Note)) (r : Row) : Prop :=
  ∃ p ∈ ps, ∃ tab, rt p.1 p.2 { o with metr := false, divs := false } cl = some tab ∧ ∃ r0 ∈ tab, Copied r r0

mutual
theorem restTableW_copied (rt : RestTable) (u : Bool) (o : Opts) (cl : Bool) :
    ∀ (t : Tree) (out : List Row), t.restTableW rt u o cl = some out → ∀ r ∈ out, FromPartRests rt o cl t.parts r
  | .part d ns, out, h, r, hr => by
    rw [Tree.restTableW] at h
    rw [Tree.parts]
    exact ⟨(d, ns), mem_singleton.mpr rfl, out, h, r, hr, Copied.refl r⟩
  | .group cs, out, h, r, hr => by
    rw [Tree.restTableW] at h
    rw [Tree.parts]
    obtain ⟨ts, hts, rfl⟩ := Option.map_eq_some_iff.mp h
    obtain ⟨t, ht, r1, hr1, hc, _⟩ := mergeRestTables_copied u ts r hr
    obtain ⟨p, hp, tab, htab, r0, hr0, hc0⟩ := restTablesOfW_copied rt u o cl cs ts hts t ht r1 hr1
    exact ⟨p, hp, tab, htab, r0, hr0, hc.trans hc0⟩
theorem restTablesOfW_copied (rt : RestTable) (u : Bool) (o : Opts) (cl : Bool) :
    ∀ (cs : List Tree) (ts : List (List Row)), restTablesOfW rt u o cl cs = some ts →
      ∀ t ∈ ts, ∀ r ∈ t, FromPartRests rt o cl (partsOf cs) r
  | [], ts, h, t, ht, r, hr => by
    rw [restTablesOfW] at h
    cases h
    cases ht
  | c :: cs, ts, h, t, ht, r, hr => by
    obtain ⟨t0, ts', h1, h2, rfl⟩ := restTablesOfW_cons_some rt u o cl c cs ts h
    rw [partsOf]
    rcases mem_cons.mp ht with rfl | ht'
    · obtain ⟨p, hp, rest⟩ := restTableW_copied rt u o cl c t h1 r hr
      exact ⟨p, mem_append_left _ hp, rest⟩
    · obtain ⟨p, hp, rest⟩ := restTablesOfW_copied rt u o cl cs ts' h2 t ht' r hr
      exact ⟨p, mem_append_right _ hp, rest⟩
end

end NoteArray
