/-
C15, round 6 - lemmas about the model of `int(lcm / d)` (Model/MergeFloat.lean): below 2^53 the double division of a
multiple by its divisor is exact.
-/
import PartituraModel.Model.MergeFloat
import PartituraModel.Model.Merge
import Mathlib.Tactic.Ring

namespace C15
open Model.Merge

theorem rneNat_of_dvd {a b : Nat} (hb : 0 < b) (h : b ∣ a) : rneNat a b = a / b := by
  have hr : a % b = 0 := Nat.mod_eq_zero_of_dvd h
  simp only [rneNat, hr, Nat.mul_zero, hb, if_true]

theorem toDouble_small {n : Nat} (h : n < 2 ^ 53) : toDouble n = n := by
  unfold toDouble
  rw [if_pos h]

theorem flog2From_spec {a d : Nat} (hd : d ≤ a) : ∀ n, d * 2 ^ flog2From n a d ≤ a
  | 0 => by simpa [flog2From] using hd
  | n + 1 => by
    unfold flog2From
    split
    · assumption
    · exact flog2From_spec hd n

theorem flog2_spec {a d : Nat} (hd : d ≤ a) : d * 2 ^ flog2 a d ≤ a := flog2From_spec hd 63

theorem pow_le_lt_exp {e : Nat} {q : Nat} (h1 : 2 ^ e ≤ q) (h2 : q < 2 ^ 53) : e ≤ 52 := by
  have h : 2 ^ e < 2 ^ 53 := Nat.lt_of_le_of_lt h1 h2
  have := (Nat.pow_lt_pow_iff_right (a := 2) (by decide)).mp h
  omega

/-- the double quotient of a multiple `q * d` by `d` is `q` whenever `q` fits 53 bits -/
theorem floatQuot_exact {d q : Nat} (hd : 0 < d) (hq : 0 < q) (hq53 : q < 2 ^ 53) : floatQuot (q * d) d = q := by
  have hle : d ≤ q * d := Nat.le_mul_of_pos_left d hq
  have hs := flog2_spec hle
  show rneNat (q * d * 2 ^ 52) (d * 2 ^ flog2 (q * d) d) * 2 ^ flog2 (q * d) d / 2 ^ 52 = q
  generalize flog2 (q * d) d = e at hs ⊢
  have h2 : 2 ^ e ≤ q := by
    have : 2 ^ e * d ≤ q * d := by rw [Nat.mul_comm]; exact hs
    exact Nat.le_of_mul_le_mul_right this hd
  have he : e ≤ 52 := pow_le_lt_exp h2 hq53
  obtain ⟨k, hk⟩ : ∃ k, 52 = e + k := ⟨52 - e, by omega⟩
  have hpow : (2 : Nat) ^ 52 = 2 ^ e * 2 ^ k := by rw [hk, Nat.pow_add]
  have hb : 0 < d * 2 ^ e := Nat.mul_pos hd (Nat.two_pow_pos _)
  have hfac : q * d * 2 ^ 52 = (d * 2 ^ e) * (q * 2 ^ k) := by rw [hpow]; ring
  have hdvd : d * 2 ^ e ∣ q * d * 2 ^ 52 := ⟨_, hfac⟩
  have hquot : q * d * 2 ^ 52 / (d * 2 ^ e) = q * 2 ^ k := by
    rw [hfac]; exact Nat.mul_div_cancel_left _ hb
  rw [rneNat_of_dvd hb hdvd, hquot]
  have : q * 2 ^ k * 2 ^ e = q * 2 ^ 52 := by rw [hpow]; ring
  rw [this]
  exact Nat.mul_div_cancel _ (Nat.two_pow_pos _)

/-- `int(lcm / d)` is the exact quotient as long as `lcm` is below 2^53 -/
theorem floatMult_exact {L d : Nat} (hd : 0 < d) (hdvd : d ∣ L) (hL : 0 < L) (h53 : L < 2 ^ 53) :
    floatMult L d = L / d := by
  have hdL : d ≤ L := Nat.le_of_dvd hL hdvd
  unfold floatMult
  rw [toDouble_small h53, toDouble_small (Nat.lt_of_le_of_lt hdL h53)]
  obtain ⟨q, rfl⟩ := hdvd
  have hq : 0 < q := by
    rcases Nat.eq_zero_or_pos q with h | h
    · subst h; simp at hL
    · exact h
  have hq53 : q < 2 ^ 53 := by
    have : q ≤ d * q := Nat.le_mul_of_pos_left q hd
    exact Nat.lt_of_le_of_lt this h53
  rw [Nat.mul_div_cancel_left _ hd, Nat.mul_comm d q]
  exact floatQuot_exact hd hq hq53

end C15
