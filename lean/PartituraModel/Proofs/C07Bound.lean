/-
C07 — `FractionalSymbolicDuration.bound_integers` (Model/MatchCodec.lean `boundInts`, `Frac.mkB`, `Frac.addB`,
`fracFromStringB`, `decTsigB`): the total model refines the exact fragment (`Frac.mk?`, `Frac.add?`,
`fracFromString`, `decTsig`), and the structure of the approximation (first minimum over the table).
-/
import PartituraModel.Model.MatchCodec
import PartituraModel.Proofs.C07Frac

open Model.MatchCodec

namespace C07Bound

-- ---------------------------------------------------------------- within the bound nothing changes

theorem boundInts_in (n d : Nat) (t : Option Nat) (hn : n ≤ BOUND) (hd : d ≤ BOUND) :
    boundInts n d t = some (n, d) := by
  unfold boundInts
  have : ¬ (n > BOUND ∨ d > BOUND) := by omega
  simp only [this, if_false]

theorem mkB_of_mk? (n d : Nat) (t : Option Nat) (f : Frac) (h : Frac.mk? n d t = some f) :
    Frac.mkB n d t = some f := by
  unfold Frac.mk? at h
  split at h
  · simp at h
  · rename_i hb
    have hb' : n ≤ BOUND ∧ d ≤ BOUND := by omega
    unfold Frac.mkB
    rw [boundInts_in n d t hb'.1 hb'.2]
    simpa using h

theorem addB_of_add? (a b c : Frac) (h : Frac.add? a b = some c) : Frac.addB a b = some c := by
  unfold Frac.add? at h
  unfold Frac.addB
  simp only at h ⊢
  split at h
  · simp at h
  · rename_i hz
    simp only [hz, if_false]
    split at h
    · simp at h
    · rename_i hb
      have hb' : (Nat.lcm a.fullDen b.fullDen / a.fullDen * a.num + Nat.lcm a.fullDen b.fullDen / b.fullDen * b.num) ≤ BOUND
          ∧ Nat.lcm a.fullDen b.fullDen ≤ BOUND := by omega
      rw [boundInts_in _ _ none hb'.1 hb'.2]
      simpa using h

def stepB (acc p : Frac) : Except DecErr Frac :=
  match Frac.addB acc p with
  | some r => .ok r
  | none => .error .value

theorem fracSumB_eq (ps : List Frac) :
    fracSumB ps = ps.foldlM stepB { num := 0, den := 1, tdiv := none, add := none } := rfl

theorem foldlM_refines : ∀ (ps : List Frac) (acc f : Frac),
    ps.foldlM C07Codec.stepF acc = .ok f → ps.foldlM stepB acc = .ok f := by
  intro ps
  induction ps with
  | nil => intro acc f h; exact h
  | cons p ps ih =>
    intro acc f h
    simp only [List.foldlM_cons, bind, Except.bind] at h ⊢
    unfold C07Codec.stepF at h
    cases ha : Frac.add? acc p with
    | none => simp [ha] at h
    | some r =>
      simp only [ha] at h
      unfold stepB
      simp only [addB_of_add? acc p r ha]
      exact ih r f h

theorem fracSumB_of (ps : List Frac) (f : Frac) (h : fracSum ps = .ok f) : fracSumB ps = .ok f := by
  rw [fracSumB_eq]
  rw [C07Codec.fracSum_eq] at h
  exact foldlM_refines ps _ f h

/-- the interpreter of one `+`-separated part of `fracFromStringB` -/
def oneB (x : List Char) : Except DecErr Frac :=
  match fracSimple x with
  | none => .error .value
  | some (n, d, t) => match Frac.mkB n d t with
    | some f => .ok f
    | none => .error .value

theorem fracFromStringB_eq (s : List Char) : fracFromStringB s =
    match fracSimple s with
    | some (n, d, t) => (match Frac.mkB n d t with | some f => .ok f | none => .error .value)
    | none =>
      if (splitOn '+' s).length > 1 then do
        let ps ← (splitOn '+' s).mapM oneB
        if ps.any (fun p => p.fullDen = 0) then .error .value else fracSumB ps
      else .error .value := rfl

theorem oneB_of (x : List Char) (f : Frac) (h : C07Codec.oneF x = .ok f) : oneB x = .ok f := by
  unfold C07Codec.oneF at h
  unfold oneB
  cases hs : fracSimple x with
  | none => simp [hs] at h
  | some ndt =>
    obtain ⟨n, d, t⟩ := ndt
    simp only [hs] at h ⊢
    cases hm : Frac.mk? n d t with
    | none => simp [hm] at h
    | some g =>
      simp only [hm] at h
      injection h with h
      subst h
      simp only [mkB_of_mk? n d t g hm]

theorem mapM_oneB_of : ∀ (xs : List (List Char)) (ps : List Frac),
    xs.mapM C07Codec.oneF = .ok ps → xs.mapM oneB = .ok ps := by
  intro xs
  induction xs with
  | nil => intro ps h; exact h
  | cons x xs ih =>
    intro ps h
    simp only [List.mapM_cons, bind, Except.bind] at h ⊢
    cases h1 : C07Codec.oneF x with
    | error e => simp [h1] at h
    | ok f =>
      simp only [h1] at h
      cases h2 : xs.mapM C07Codec.oneF with
      | error e => simp [h2] at h
      | ok fs =>
        simp only [h2, pure, Except.pure] at h
        simp only [oneB_of x f h1, ih fs h2, pure, Except.pure]
        exact h

/-- **refinement**: wherever the exact fragment reads a duration, the total model reads the same one -/
theorem fracFromStringB_of_ok (s : List Char) (f : Frac) (h : fracFromString s = .ok f) :
    fracFromStringB s = .ok f := by
  rw [C07Codec.fracFromString_eq] at h
  rw [fracFromStringB_eq]
  cases hs : fracSimple s with
  | some ndt =>
    obtain ⟨n, d, t⟩ := ndt
    simp only [hs] at h ⊢
    cases hm : Frac.mk? n d t with
    | none => simp [hm] at h
    | some g =>
      simp only [hm] at h
      injection h with h
      subst h
      simp only [mkB_of_mk? n d t g hm]
  | none =>
    simp only [hs] at h ⊢
    split at h
    · rename_i hl
      simp only [hl, if_true]
      simp only [bind, Except.bind] at h ⊢
      cases hm : (splitOn '+' s).mapM C07Codec.oneF with
      | error e => simp [hm] at h
      | ok ps =>
        simp only [hm] at h
        simp only [mapM_oneB_of _ ps hm]
        split at h
        · simp at h
        · rename_i hz
          simp only [hz]
          exact fracSumB_of ps f h
    · simp at h

theorem mapM_fracB_of : ∀ (xs : List (List Char)) (fs : List Frac),
    xs.mapM fracFromString = .ok fs → xs.mapM fracFromStringB = .ok fs := by
  intro xs
  induction xs with
  | nil => intro ps h; exact h
  | cons x xs ih =>
    intro ps h
    simp only [List.mapM_cons, bind, Except.bind] at h ⊢
    cases h1 : fracFromString x with
    | error e => simp [h1] at h
    | ok f =>
      simp only [h1] at h
      cases h2 : xs.mapM fracFromString with
      | error e => simp [h2] at h
      | ok fs =>
        simp only [h2, pure, Except.pure] at h
        simp only [fracFromStringB_of_ok x f h1, ih fs h2, pure, Except.pure]
        exact h

theorem decTsigB_of_ok (s : List Char) (t : TimeSig) (h : decTsig s = .ok t) : decTsigB s = .ok t := by
  unfold decTsig at h
  unfold decTsigB
  simp only [bind, Except.bind] at h ⊢
  cases hm : (decList (strip s)).mapM fracFromString with
  | error e => simp [hm] at h
  | ok fs =>
    simp only [hm] at h
    simp only [mapM_fracB_of _ fs hm]
    exact h

-- ---------------------------------------------------------------- the approximation: first minimum over the table

theorem bestDen_mem (val : Rat) : ∀ (l : List Nat) (best : Nat) (bv : Rat),
    bestDen val l best bv = best ∨ bestDen val l best bv ∈ l := by
  intro l
  induction l with
  | nil => intro best bv; left; rfl
  | cons d r ih =>
    intro best bv
    unfold bestDen
    split
    · rcases ih d (boundDif val d) with h | h
      · right; rw [h]; simp
      · right; simp [h]
    · rcases ih best bv with h | h
      · left; exact h
      · right; simp [h]

theorem chooseDen_mem (val : Rat) (l : List Nat) (h : l ≠ []) : chooseDen val l ∈ l := by
  cases l with
  | nil => exact absurd rfl h
  | cons d r =>
    show bestDen val r d (boundDif val d) ∈ d :: r
    rcases bestDen_mem val r d (boundDif val d) with h | h
    · rw [h]; simp
    · simp [h]

/-- the error of the running best never increases, and ends no larger than that of any candidate seen -/
theorem bestDen_min (val : Rat) : ∀ (l : List Nat) (best : Nat) (bv : Rat), bv = boundDif val best →
    boundDif val (bestDen val l best bv) ≤ bv ∧ ∀ d ∈ l, boundDif val (bestDen val l best bv) ≤ boundDif val d := by
  intro l
  induction l with
  | nil => intro best bv hb; subst hb; exact ⟨Rat.le_refl, by simp⟩
  | cons d r ih =>
    intro best bv hb
    unfold bestDen
    split
    · rename_i hlt
      obtain ⟨h1, h2⟩ := ih d (boundDif val d) rfl
      refine ⟨Rat.le_trans h1 (Rat.le_of_lt hlt), ?_⟩
      intro x hx
      rcases List.mem_cons.mp hx with e | hx
      · subst e; exact h1
      · exact h2 x hx
    · rename_i hnl
      obtain ⟨h1, h2⟩ := ih best bv hb
      refine ⟨h1, ?_⟩
      intro x hx
      rcases List.mem_cons.mp hx with e | hx
      · subst e; exact Rat.le_trans h1 (Rat.not_lt.mp hnl)
      · exact h2 x hx

theorem chooseDen_min (val : Rat) (l : List Nat) :
    ∀ d ∈ l, boundDif val (chooseDen val l) ≤ boundDif val d := by
  cases l with
  | nil => intro d hd; simp at hd
  | cons d0 r =>
    intro d hd
    unfold chooseDen
    obtain ⟨h1, h2⟩ := bestDen_min val r d0 (boundDif val d0) rfl
    rcases List.mem_cons.mp hd with e | hd
    · subst e; exact h1
    · exact h2 d hd

theorem bestDen_strict (val : Rat) : ∀ (l : List Nat) (best : Nat) (bv : Rat), bv = boundDif val best →
    bestDen val l best bv ≠ best → boundDif val (bestDen val l best bv) < bv := by
  intro l
  induction l with
  | nil => intro best bv _ h; exact absurd rfl h
  | cons d r ih =>
    intro best bv hb hne
    unfold bestDen at hne ⊢
    split
    · rename_i hlt
      exact lt_of_le_of_lt (bestDen_min val r d (boundDif val d) rfl).1 hlt
    · rename_i hnl
      simp only [hnl, if_false] at hne
      exact ih best bv hb hne

/-- `np.argmin` returns the FIRST minimum: everything that comes before the chosen candidate (the running
    best included) is strictly worse -/
theorem bestDen_first (val : Rat) : ∀ (l : List Nat) (best : Nat) (bv : Rat), bv = boundDif val best →
    ∀ l1 l2 : List Nat, l = l1 ++ bestDen val l best bv :: l2 → bestDen val l best bv ∉ l1 →
      bestDen val l best bv ≠ best →
      ∀ x ∈ l1, boundDif val (bestDen val l best bv) < boundDif val x := by
  intro l
  induction l with
  | nil => intro best bv _ l1 l2 h; simp at h
  | cons d r ih =>
    intro best bv hb l1 l2 hl hnot hne x hx
    by_cases hlt : boundDif val d < bv
    · have hR : bestDen val (d :: r) best bv = bestDen val r d (boundDif val d) := by
        simp only [bestDen, hlt, if_true]
      rw [hR] at hl hnot hne ⊢
      cases l1 with
      | nil => simp at hx
      | cons y l1' =>
        simp only [List.cons_append, List.cons.injEq] at hl
        obtain ⟨hy, hr⟩ := hl
        subst hy
        have hRd : bestDen val r d (boundDif val d) ≠ d := fun e => hnot (by rw [e]; simp)
        rcases List.mem_cons.mp hx with e | hx'
        · subst e
          exact bestDen_strict val r x (boundDif val x) rfl hRd
        · exact ih d (boundDif val d) rfl l1' l2 hr (fun h => hnot (by simp [h])) hRd x hx'
    · have hR : bestDen val (d :: r) best bv = bestDen val r best bv := by
        simp only [bestDen, hlt, if_false]
      rw [hR] at hl hnot hne ⊢
      have hs := bestDen_strict val r best bv hb hne
      cases l1 with
      | nil => simp at hx
      | cons y l1' =>
        simp only [List.cons_append, List.cons.injEq] at hl
        obtain ⟨hy, hr⟩ := hl
        subst hy
        rcases List.mem_cons.mp hx with e | hx'
        · subst e
          exact lt_of_lt_of_le hs (Rat.not_lt.mp hlt)
        · exact ih best bv hb l1' l2 hr (fun h => hnot (by simp [h])) hne x hx'

theorem chooseDen_first (val : Rat) (l l1 l2 : List Nat) (hl : l = l1 ++ chooseDen val l :: l2)
    (hnot : chooseDen val l ∉ l1) : ∀ x ∈ l1, boundDif val (chooseDen val l) < boundDif val x := by
  cases l with
  | nil => simp at hl
  | cons d0 r =>
    intro x hx
    cases l1 with
    | nil => simp at hx
    | cons y l1' =>
      have hc : chooseDen val (d0 :: r) = bestDen val r d0 (boundDif val d0) := rfl
      rw [hc] at hl hnot ⊢
      simp only [List.cons_append, List.cons.injEq] at hl
      obtain ⟨hy, hr⟩ := hl
      subst hy
      have hne : bestDen val r d0 (boundDif val d0) ≠ d0 := fun e => hnot (by rw [e]; simp)
      rcases List.mem_cons.mp hx with e | hx'
      · subst e
        exact bestDen_strict val r x (boundDif val x) rfl hne
      · exact bestDen_first val r d0 (boundDif val d0) rfl l1' l2 hr (fun h => hnot (by simp [h])) hne x hx'

end C07Bound
