/-
C09 helper lemmas (round 6): `argBest` (first maximum / first minimum), the choice `alignPick`, substring test `hasSub`.
-/
import PartituraModel.Proofs.C09Variant
import PartituraModel.Model.UnfoldAlign

namespace C09
open Model.Unfold

/-- `argBest` with "greater is better": the value returned bounds the list and the start value, and is one of them -/
theorem argBest_max (xs : List Nat) : ∀ (i : Nat) (acc : Option (Nat × Nat)) (k b : Nat),
    argBest (fun x y => y < x) xs i acc = some (k, b) →
    (∀ x ∈ xs, x ≤ b) ∧ (∀ j y, acc = some (j, y) → y ≤ b) ∧ (b ∈ xs ∨ ∃ j, acc = some (j, b)) := by
  induction xs with
  | nil =>
    intro i acc k b h
    simp only [argBest] at h
    subst h
    refine ⟨by simp, ?_, Or.inr ⟨k, rfl⟩⟩
    intro j y hy
    simp only [Option.some.injEq, Prod.mk.injEq] at hy
    omega
  | cons x xs ih =>
    intro i acc k b h
    cases acc with
    | none =>
      simp only [argBest] at h
      obtain ⟨h1, h2, h3⟩ := ih (i + 1) _ k b h
      have hx := h2 i x rfl
      refine ⟨?_, by simp, ?_⟩
      · intro z hz
        rcases List.mem_cons.mp hz with rfl | hz
        · exact hx
        · exact h1 z hz
      · rcases h3 with h3 | ⟨j, hj⟩
        · exact Or.inl (List.mem_cons_of_mem _ h3)
        · simp only [Option.some.injEq, Prod.mk.injEq] at hj
          exact Or.inl (by rw [hj.2]; exact List.mem_cons_self)
    | some jy =>
      obtain ⟨j, y⟩ := jy
      simp only [argBest] at h
      by_cases hyx : y < x
      · simp only [hyx, decide_true, if_true] at h
        obtain ⟨h1, h2, h3⟩ := ih (i + 1) _ k b h
        have hx := h2 i x rfl
        refine ⟨?_, ?_, ?_⟩
        · intro z hz
          rcases List.mem_cons.mp hz with rfl | hz
          · exact hx
          · exact h1 z hz
        · intro j' y' hy'
          simp only [Option.some.injEq, Prod.mk.injEq] at hy'
          omega
        · rcases h3 with h3 | ⟨j', hj⟩
          · exact Or.inl (List.mem_cons_of_mem _ h3)
          · simp only [Option.some.injEq, Prod.mk.injEq] at hj
            exact Or.inl (by rw [hj.2]; exact List.mem_cons_self)
      · simp only [hyx, decide_false, Bool.false_eq_true, if_false] at h
        obtain ⟨h1, h2, h3⟩ := ih (i + 1) _ k b h
        have hy := h2 j y rfl
        refine ⟨?_, ?_, ?_⟩
        · intro z hz
          rcases List.mem_cons.mp hz with rfl | hz
          · omega
          · exact h1 z hz
        · intro j' y' hy'
          simp only [Option.some.injEq, Prod.mk.injEq] at hy'
          omega
        · rcases h3 with h3 | ⟨j', hj⟩
          · exact Or.inl (List.mem_cons_of_mem _ h3)
          · exact Or.inr ⟨j', hj⟩

/-- `argBest` with "smaller is better": the FIRST minimum and its index -/
theorem argBest_min (xs : List Nat) : ∀ (i : Nat) (acc : Option (Nat × Nat)) (k b : Nat),
    argBest (fun x y => x < y) xs i acc = some (k, b) →
    (∀ x ∈ xs, b ≤ x) ∧
    (acc = some (k, b) ∨
      (i ≤ k ∧ xs[k - i]? = some b ∧ (∀ j y, acc = some (j, y) → b < y) ∧
        ∀ m x, m < k - i → xs[m]? = some x → b < x)) := by
  induction xs with
  | nil =>
    intro i acc k b h
    simp only [argBest] at h
    exact ⟨by simp, Or.inl h⟩
  | cons x xs ih =>
    intro i acc k b h
    have step : ∀ (acc' : Option (Nat × Nat)), argBest (fun x y => x < y) xs (i + 1) acc' = some (k, b) →
        (acc' = some (i, x) ∧ (∀ j y, acc = some (j, y) → x < y)) ∨ (acc' = acc ∧ ∀ j y, acc = some (j, y) → y ≤ x) →
        (acc' ≠ none) →
        (∀ z ∈ x :: xs, b ≤ z) ∧
        (acc = some (k, b) ∨
          (i ≤ k ∧ (x :: xs)[k - i]? = some b ∧ (∀ j y, acc = some (j, y) → b < y) ∧
            ∀ m z, m < k - i → (x :: xs)[m]? = some z → b < z)) := by
      intro acc' h' hcase hne
      obtain ⟨h1, h2⟩ := ih (i + 1) acc' k b h'
      rcases hcase with ⟨ha, hlt⟩ | ⟨ha, hle⟩
      · -- the new element became the candidate
        subst ha
        rcases h2 with h2 | ⟨g1, g2, g3, g4⟩
        · simp only [Option.some.injEq, Prod.mk.injEq] at h2
          obtain ⟨rfl, rfl⟩ := h2
          refine ⟨?_, Or.inr ⟨Nat.le_refl _, by simp, hlt, ?_⟩⟩
          · intro z hz
            rcases List.mem_cons.mp hz with rfl | hz
            · exact Nat.le_refl _
            · exact h1 z hz
          · intro m z hm; omega
        · have hbx := g3 i x rfl
          refine ⟨?_, Or.inr ⟨by omega, ?_, ?_, ?_⟩⟩
          · intro z hz
            rcases List.mem_cons.mp hz with rfl | hz
            · omega
            · exact h1 z hz
          · have : k - i = (k - (i + 1)) + 1 := by omega
            rw [this, List.getElem?_cons_succ]; exact g2
          · intro j y hy; have := hlt j y hy; omega
          · intro m z hm hz
            cases m with
            | zero => simp only [List.getElem?_cons_zero, Option.some.injEq] at hz; omega
            | succ m' =>
              rw [List.getElem?_cons_succ] at hz
              exact g4 m' z (by omega) hz
      · subst ha
        rcases h2 with h2 | ⟨g1, g2, g3, g4⟩
        · refine ⟨?_, Or.inl h2⟩
          intro z hz
          rcases List.mem_cons.mp hz with rfl | hz
          · have := hle k b h2; omega
          · exact h1 z hz
        · cases hacc : acc' with
          | none => exact absurd hacc hne
          | some jy =>
            obtain ⟨j, y⟩ := jy
            have hby := g3 j y hacc
            have hyx := hle j y hacc
            refine ⟨?_, Or.inr ⟨by omega, ?_, ?_, ?_⟩⟩
            · intro z hz
              rcases List.mem_cons.mp hz with rfl | hz
              · omega
              · exact h1 z hz
            · have : k - i = (k - (i + 1)) + 1 := by omega
              rw [this, List.getElem?_cons_succ]; exact g2
            · intro j' y' hy'; exact g3 j' y' (hacc.trans hy')
            · intro m z hm hz
              cases m with
              | zero => simp only [List.getElem?_cons_zero, Option.some.injEq] at hz; omega
              | succ m' =>
                rw [List.getElem?_cons_succ] at hz
                exact g4 m' z (by omega) hz
    cases acc with
    | none =>
      simp only [argBest] at h
      exact step _ h (Or.inl ⟨rfl, by simp⟩) (by simp)
    | some jy =>
      obtain ⟨j, y⟩ := jy
      simp only [argBest] at h
      by_cases hxy : x < y
      · simp only [hxy, decide_true, if_true] at h
        refine step _ h (Or.inl ⟨rfl, ?_⟩) (by simp)
        intro j' y' hy'
        simp only [Option.some.injEq, Prod.mk.injEq] at hy'
        omega
      · simp only [hxy, decide_false, Bool.false_eq_true, if_false] at h
        refine step _ h (Or.inr ⟨rfl, ?_⟩) (by simp)
        intro j' y' hy'
        simp only [Option.some.injEq, Prod.mk.injEq] at hy'
        omega

/-- from nothing: the index of the first minimum -/
theorem argBest_min_top (xs : List Nat) (k b : Nat) (h : argBest (fun x y => x < y) xs 0 none = some (k, b)) :
    xs[k]? = some b ∧ (∀ x ∈ xs, b ≤ x) ∧ ∀ m x, m < k → xs[m]? = some x → b < x := by
  obtain ⟨h1, h2⟩ := argBest_min xs 0 none k b h
  rcases h2 with h2 | ⟨_, g2, _, g4⟩
  · cases h2
  · exact ⟨by simpa using g2, h1, fun m x hm hx => g4 m x (by simpa using hm) hx⟩

theorem argBest_some (better : Nat → Nat → Bool) (xs : List Nat) : ∀ (i : Nat) (acc : Option (Nat × Nat)),
    (xs ≠ [] ∨ acc ≠ none) → ∃ r, argBest better xs i acc = some r := by
  induction xs with
  | nil =>
    intro i acc h
    rcases h with h | h
    · exact absurd rfl h
    · cases acc with
      | none => exact absurd rfl h
      | some r => exact ⟨r, rfl⟩
  | cons x xs ih =>
    intro i acc _
    cases acc with
    | none => simp only [argBest]; exact ih _ _ (Or.inr (by simp))
    | some jy =>
      obtain ⟨j, y⟩ := jy
      simp only [argBest]
      exact ih _ _ (Or.inr (by split <;> simp))

/-- coverage of a variant: how many of the alignment's ids are ids of its (first-of-a-tie) notes -/
def covOf (ids : List String) (v : Variant) : Nat := (ids.filter fun a => (tiedIds v).contains (some a)).length

/-- its length: the number of those notes -/
def lenOf (v : Variant) : Nat := (tiedIds v).length

theorem zip_map_get {α : Type} (f g : α → Nat) (l : List α) (k : Nat) (c : Nat × Nat)
    (h : ((l.map f).zip (l.map g))[k]? = some c) : ∃ v, l[k]? = some v ∧ c = (f v, g v) := by
  rw [List.getElem?_zip_eq_some] at h
  obtain ⟨h1, h2⟩ := h
  rw [List.getElem?_map] at h1 h2
  cases hv : l[k]? with
  | none => simp [hv] at h1
  | some v =>
    simp only [hv, Option.map_some, Option.some.injEq] at h1 h2
    exact ⟨v, rfl, Prod.ext h1.symm h2.symm⟩

theorem zip_map_get' {α : Type} (f g : α → Nat) (l : List α) (k : Nat) (v : α) (h : l[k]? = some v) :
    ((l.map f).zip (l.map g))[k]? = some (f v, g v) := by
  rw [List.getElem?_zip_eq_some]
  simp [List.getElem?_map, h]

theorem enum_pairwise_idx {α : Type} (l : List α) : ∀ k, (enum k l).Pairwise (fun a b => a.1 < b.1) := by
  induction l with
  | nil => intro k; simp [enum]
  | cons a rest ih =>
    intro k
    simp only [enum, List.pairwise_cons]
    refine ⟨?_, ih (k + 1)⟩
    intro b hb
    obtain ⟨j, y⟩ := b
    have := (enum_mem rest (k + 1) j y).mp hb
    show k < j
    omega

/-- in a list whose first components increase, an element with a smaller first component stands at a smaller position -/
theorem pairwise_pos {β : Type} (l : List (Nat × β)) (h : l.Pairwise (fun a b => a.1 < b.1)) (m r : Nat) (a b : Nat × β)
    (hm : l[m]? = some a) (hr : l[r]? = some b) (hlt : a.1 < b.1) : m < r := by
  by_cases hmr : m < r
  · exact hmr
  · exfalso
    rw [List.pairwise_iff_getElem] at h
    obtain ⟨hm1, hm2⟩ := List.getElem?_eq_some_iff.mp hm
    obtain ⟨hr1, hr2⟩ := List.getElem?_eq_some_iff.mp hr
    by_cases he : m = r
    · subst he
      rw [hm2] at hr2
      subst hr2
      omega
    · have := h r m hr1 hm1 (by omega)
      rw [hm2, hr2] at this
      omega

/-- the choice of `unfold_part_alignment`: an index of a variant with the greatest coverage, among those one with the
fewest notes -/
theorem alignPick_spec (cs : List Variant) (ids : List String) (k : Nat) (h : alignPick cs ids = some k) :
    ids ≠ [] ∧ ∃ v, cs[k]? = some v ∧
      (∀ (j : Nat) v', cs[j]? = some v' → covOf ids v' ≤ covOf ids v) ∧
      (∀ (j : Nat) v', cs[j]? = some v' → covOf ids v' = covOf ids v → lenOf v ≤ lenOf v') ∧
      (∀ (j : Nat) v', cs[j]? = some v' → covOf ids v' = covOf ids v → lenOf v' = lenOf v → k ≤ j) := by
  unfold alignPick at h
  split at h
  · cases h
  · rename_i hne
    have hids : ids ≠ [] := by intro he; rw [he] at hne; simp at hne
    refine ⟨hids, ?_⟩
    simp only at h
    split at h
    · cases h
    · rename_i kk best hbest
      change argBest (fun x y => y < x) (cs.map (covOf ids)) 0 none = some (kk, best) at hbest
      obtain ⟨hb1, _, _⟩ := argBest_max _ 0 none kk best hbest
      cases hr : argBest (fun x y => x < y)
          ((List.filter (fun q => decide (q.2.1 = best)) (enum 0 ((cs.map (covOf ids)).zip (cs.map lenOf)))).map (·.2.2)) 0 none with
      | none =>
        change (argBest (fun x y => x < y) ((List.filter (fun q => decide (q.2.1 = best)) (enum 0 ((cs.map (covOf ids)).zip (cs.map lenOf)))).map (·.2.2)) 0 none).bind _ = some k at h
        rw [hr] at h; cases h
      | some r =>
        change (argBest (fun x y => x < y) ((List.filter (fun q => decide (q.2.1 = best)) (enum 0 ((cs.map (covOf ids)).zip (cs.map lenOf)))).map (·.2.2)) 0 none).bind _ = some k at h
        rw [hr] at h
        obtain ⟨ri, rb⟩ := r
        simp only [Option.bind_some] at h
        change Option.map (fun x => x.1) (List.filter (fun q => decide (q.2.1 = best))
          (enum 0 ((cs.map (covOf ids)).zip (cs.map lenOf))))[ri]? = some k at h
        obtain ⟨m1, m2, m3⟩ := argBest_min_top _ ri rb hr
        cases hq : (List.filter (fun q => decide (q.2.1 = best)) (enum 0 ((cs.map (covOf ids)).zip (cs.map lenOf))))[ri]? with
        | none => rw [hq] at h; cases h
        | some q =>
          rw [hq] at h
          simp only [Option.map_some, Option.some.injEq] at h
          rw [List.getElem?_map, hq] at m1
          simp only [Option.map_some, Option.some.injEq] at m1
          have hqm := List.mem_of_getElem? hq
          rw [List.mem_filter] at hqm
          obtain ⟨hq1, hq2⟩ := hqm
          obtain ⟨qi, qc, ql⟩ := q
          simp only [decide_eq_true_eq] at hq2
          simp only at h m1
          subst h
          obtain ⟨_, hz⟩ := (enum_mem _ 0 qi (qc, ql)).mp hq1
          simp only [Nat.sub_zero] at hz
          obtain ⟨v, hv, hc⟩ := zip_map_get (covOf ids) lenOf cs qi (qc, ql) hz
          simp only [Prod.mk.injEq] at hc
          obtain ⟨hc1, hc2⟩ := hc
          have hmemOf : ∀ (j : Nat) v', cs[j]? = some v' → covOf ids v' = covOf ids v → (j, (covOf ids v', lenOf v')) ∈
              List.filter (fun q => decide (q.2.1 = best)) (enum 0 ((cs.map (covOf ids)).zip (cs.map lenOf))) := by
            intro j v' hv' hcov
            rw [List.mem_filter]
            refine ⟨(enum_mem _ 0 j _).mpr ⟨Nat.zero_le _, ?_⟩, ?_⟩
            · simpa using zip_map_get' (covOf ids) lenOf cs j v' hv'
            · simp only [decide_eq_true_eq]; omega
          refine ⟨v, hv, ?_, ?_, ?_⟩
          rotate_left 2
          · -- the first of the shortest
            intro j v' hv' hcov hlen
            by_cases hjk : qi ≤ j
            · exact hjk
            · exfalso
              obtain ⟨m, hm⟩ := List.getElem?_of_mem (hmemOf j v' hv' hcov)
              have hpw := (enum_pairwise_idx ((cs.map (covOf ids)).zip (cs.map lenOf)) 0).filter (fun q => decide (q.2.1 = best))
              have hmr := pairwise_pos _ hpw m ri _ _ hm hq (by show j < qi; omega)
              have := m3 m (lenOf v') hmr (by rw [List.getElem?_map, hm]; rfl)
              omega
          · intro j v' hv'
            have : covOf ids v' ∈ cs.map (covOf ids) := List.mem_map.mpr ⟨v', List.mem_of_getElem? hv', rfl⟩
            have := hb1 _ this
            omega
          · intro j v' hv' hcov
            have hmem : (j, (covOf ids v', lenOf v')) ∈
                List.filter (fun q => decide (q.2.1 = best)) (enum 0 ((cs.map (covOf ids)).zip (cs.map lenOf))) := by
              rw [List.mem_filter]
              refine ⟨(enum_mem _ 0 j _).mpr ⟨Nat.zero_le _, ?_⟩, ?_⟩
              · simpa using zip_map_get' (covOf ids) lenOf cs j v' hv'
              · simp only [decide_eq_true_eq]; omega
            have := m2 (lenOf v') (List.mem_map.mpr ⟨_, hmem, rfl⟩)
            omega

/-- the choice exists whenever there is an id that counts and a variant -/
theorem alignPick_total (cs : List Variant) (ids : List String) (hi : ids ≠ []) (hc : cs ≠ []) :
    ∃ k, alignPick cs ids = some k := by
  unfold alignPick
  have hne : ids.isEmpty = false := by cases ids with
    | nil => exact absurd rfl hi
    | cons _ _ => rfl
  rw [hne]
  simp only [Bool.false_eq_true, if_false]
  have hcov : cs.map (fun v => (ids.filter fun a => (tiedIds v).contains (some a)).length) ≠ [] := by simpa using hc
  obtain ⟨⟨kk, best⟩, hbest⟩ := argBest_some (fun x y => y < x) _ 0 none (Or.inl hcov)
  rw [hbest]
  simp only
  obtain ⟨_, _, hb3⟩ := argBest_max _ 0 none kk best hbest
  rcases hb3 with hb3 | ⟨_, hb3⟩
  · -- the filtered list is not empty
    obtain ⟨v, hv, hvb⟩ := List.mem_map.mp hb3
    obtain ⟨j, hj⟩ := List.getElem?_of_mem hv
    have hmem : (j, (covOf ids v, lenOf v)) ∈
        List.filter (fun q => decide (q.2.1 = best)) (enum 0 ((cs.map (covOf ids)).zip (cs.map lenOf))) := by
      rw [List.mem_filter]
      refine ⟨(enum_mem _ 0 j _).mpr ⟨Nat.zero_le _, ?_⟩, ?_⟩
      · simpa using zip_map_get' (covOf ids) lenOf cs j v hj
      · simp only [decide_eq_true_eq]; exact hvb
    have hne2 : (List.filter (fun q => decide (q.2.1 = best)) (enum 0 ((cs.map (covOf ids)).zip (cs.map lenOf)))).map (·.2.2) ≠ [] := by
      intro he
      rw [List.map_eq_nil_iff] at he
      rw [he] at hmem
      simp at hmem
    obtain ⟨⟨ri, rb⟩, hr⟩ := argBest_some (fun x y => x < y) _ 0 none (Or.inl hne2)
    obtain ⟨m1, _, _⟩ := argBest_min_top _ ri rb hr
    rw [List.getElem?_map] at m1
    cases hq : (List.filter (fun q => decide (q.2.1 = best)) (enum 0 ((cs.map (covOf ids)).zip (cs.map lenOf))))[ri]? with
    | none => rw [hq] at m1; cases m1
    | some q =>
      refine ⟨q.1, ?_⟩
      change (argBest (fun x y => x < y) ((List.filter (fun q => decide (q.2.1 = best)) (enum 0 ((cs.map (covOf ids)).zip (cs.map lenOf)))).map (·.2.2)) 0 none).bind _ = _
      rw [hr]
      simp only [Option.bind_some]
      exact congrArg (Option.map (·.1)) hq
  · cases hb3

/-! ### the substring test -/

theorem isPrefixOf_append_self (sub rest : List Char) : sub.isPrefixOf (sub ++ rest) = true := by
  induction sub with
  | nil => simp [List.isPrefixOf]
  | cons c cs ih => simp [List.isPrefixOf, ih]

theorem hasSub_append (sub : List Char) : ∀ (l : List Char), hasSub sub (l ++ sub) = true := by
  intro l
  induction l with
  | nil =>
    cases sub with
    | nil => rfl
    | cons c cs =>
      simp only [List.nil_append, hasSub, Bool.or_eq_true]
      exact Or.inl (by simpa using isPrefixOf_append_self (c :: cs) [])
  | cons a l ih =>
    simp only [List.cons_append, hasSub, Bool.or_eq_true]
    exact Or.inr ih

end C09
