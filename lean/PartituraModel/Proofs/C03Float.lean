/-
C03 — correct rounding of a decimal to binary64 (`Model.Binary64.readFloat`, the model of Python's `float(text)`):
the binade found by `binExp` contains the input; a rational strictly inside the rounding interval of a binary64 number is
read as that number; a binary64 number reads as itself; seventeen significant digits are always inside the interval.
-/
import PartituraModel.Model.Binary64
import PartituraModel.Proofs.Round
import PartituraModel.Proofs.C03Dir
import Mathlib.Tactic.Linarith
import Mathlib.Tactic.FieldSimp
import Mathlib.Tactic.Positivity
import Mathlib.Tactic.Push
import Mathlib.Tactic.Ring
import Mathlib.Tactic.NormNum
import Mathlib.Algebra.Order.Ring.Abs
import Mathlib.Algebra.Order.Field.Rat
import Mathlib.Algebra.Order.Field.Power

namespace C03.Float
open Model Model.Binary64

theorem pow2_eq (k : Int) : pow2 k = (2 : ℚ) ^ k := by
  unfold pow2
  split
  · rename_i h
    obtain ⟨n, rfl⟩ := Int.eq_ofNat_of_zero_le h
    simp
  · rename_i h
    obtain ⟨n, hn⟩ := Int.eq_ofNat_of_zero_le (show 0 ≤ -k by omega)
    have hk : k = -(n : Int) := by omega
    subst hk
    simp

theorem pow2_pos (k : Int) : 0 < pow2 k := by rw [pow2_eq]; positivity

theorem pow2_add (a b : Int) : pow2 (a + b) = pow2 a * pow2 b := by
  simp only [pow2_eq]; exact zpow_add₀ two_ne_zero a b

theorem pow2_nat (n : Nat) : pow2 (n : Int) = ((2 ^ n : Nat) : ℚ) := by
  rw [pow2_eq]; simp

/-- the binade found by `binExp` contains `v` -/
theorem binExp_spec (v : ℚ) (hv : 0 < v) : pow2 (binExp v + 52) ≤ v ∧ v < pow2 (binExp v + 53) := by
  have hnum : 0 < v.num := Rat.num_pos.mpr hv
  have hd : 0 < v.den := v.den_pos
  obtain ⟨n, hn⟩ := Int.eq_ofNat_of_zero_le hnum.le
  have hn0 : 0 < n := by omega
  have hvq : v = (n : ℚ) / (v.den : ℚ) := by
    have := Rat.num_div_den v
    rw [hn, Int.cast_natCast] at this
    exact this.symm
  unfold binExp
  simp only [hn, Int.toNat_natCast]
  generalize hs : v.den.log2 + 1 = s
  generalize hw : n * 2 ^ s / v.den = w
  have hds : v.den < 2 ^ s := by rw [← hs]; exact Nat.lt_log2_self
  have hw1 : 1 ≤ w := by
    rw [← hw, Nat.le_div_iff_mul_le hd]
    calc 1 * v.den ≤ 1 * 2 ^ s := by omega
      _ ≤ n * 2 ^ s := Nat.mul_le_mul_right _ hn0
  have hk1 : 2 ^ w.log2 ≤ w := Nat.log2_self_le (by omega)
  have hk2 : w < 2 ^ (w.log2 + 1) := Nat.lt_log2_self
  have hlo : w * v.den ≤ n * 2 ^ s := by rw [← hw]; exact Nat.div_mul_le_self _ _
  have hhi : n * 2 ^ s < v.den * (w + 1) := by rw [← hw]; exact Nat.lt_mul_div_succ _ hd
  have hlo' : 2 ^ w.log2 * v.den ≤ n * 2 ^ s := le_trans (Nat.mul_le_mul_right _ hk1) hlo
  have hhi' : n * 2 ^ s < 2 ^ (w.log2 + 1) * v.den := by
    calc n * 2 ^ s < v.den * (w + 1) := hhi
      _ ≤ v.den * 2 ^ (w.log2 + 1) := Nat.mul_le_mul_left _ hk2
      _ = _ := Nat.mul_comm _ _
  have hdq : (0 : ℚ) < (v.den : ℚ) := by exact_mod_cast hd
  have hsq : (0 : ℚ) < ((2 ^ s : Nat) : ℚ) := by positivity
  have e1 : pow2 ((w.log2 : Int) - s - 52 + 52) = ((2 ^ w.log2 : Nat) : ℚ) / ((2 ^ s : Nat) : ℚ) := by
    have : pow2 (w.log2 : Int) = pow2 ((w.log2 : Int) - s - 52 + 52) * pow2 (s : Int) := by
      rw [← pow2_add]; congr 1; omega
    rw [pow2_nat, pow2_nat] at this
    rw [this]; field_simp
  have e2 : pow2 ((w.log2 : Int) - s - 52 + 53) = ((2 ^ (w.log2 + 1) : Nat) : ℚ) / ((2 ^ s : Nat) : ℚ) := by
    have : pow2 ((w.log2 + 1 : Nat) : Int) = pow2 ((w.log2 : Int) - s - 52 + 53) * pow2 (s : Int) := by
      rw [← pow2_add]; congr 1; push_cast; omega
    rw [pow2_nat, pow2_nat] at this
    rw [this]; field_simp
  rw [e1, e2, hvq]
  constructor
  · rw [div_le_div_iff₀ hsq hdq]
    exact_mod_cast hlo'
  · rw [div_lt_div_iff₀ hdq hsq]
    exact_mod_cast hhi'

theorem pow2_lt {a b : Int} : pow2 a < pow2 b ↔ a < b := by
  simp only [pow2_eq]; exact zpow_lt_zpow_iff_right₀ one_lt_two

/-- a binade determines its exponent -/
theorem binade_unique {v : ℚ} {a b : Int} (ha1 : pow2 (a + 52) ≤ v) (ha2 : v < pow2 (a + 53))
    (hb1 : pow2 (b + 52) ≤ v) (hb2 : v < pow2 (b + 53)) : a = b := by
  have h1 : pow2 (a + 52) < pow2 (b + 53) := lt_of_le_of_lt ha1 hb2
  have h2 : pow2 (b + 52) < pow2 (a + 53) := lt_of_le_of_lt hb1 ha2
  rw [pow2_lt] at h1 h2
  omega

theorem binExp_eq {v : ℚ} {e : Int} (h1 : pow2 (e + 52) ≤ v) (h2 : v < pow2 (e + 53)) : binExp v = e :=
  have hv : 0 < v := lt_of_lt_of_le (pow2_pos _) h1
  binade_unique (binExp_spec v hv).1 (binExp_spec v hv).2 h1 h2

theorem roundHalfEven_of_close (r : ℚ) (k : Int) (h : |r - k| < 1 / 2) : roundHalfEven r = k := by
  have hc := Round.roundHalfEven_close r
  rw [abs_lt] at h
  rw [abs_le] at hc
  have h1 : ((roundHalfEven r : Int) : ℚ) - k < 1 := by linarith
  have h2 : (-1 : ℚ) < ((roundHalfEven r : Int) : ℚ) - k := by linarith
  have h1' : roundHalfEven r - k < 1 := by exact_mod_cast h1
  have h2' : -1 < roundHalfEven r - k := by exact_mod_cast h2
  omega

theorem pow2_52 (e : Int) : pow2 (e + 52) = 2 ^ 52 * pow2 e := by
  rw [pow2_add, mul_comm]; congr 1
theorem pow2_53 (e : Int) : pow2 (e + 53) = 2 ^ 53 * pow2 e := by
  rw [pow2_add, mul_comm]; congr 1
theorem pow2_m1 (e : Int) : pow2 (e - 1) = pow2 e / 2 := by
  have : pow2 e = pow2 (e - 1) * pow2 1 := by rw [← pow2_add]; congr 1; omega
  rw [this]; have : pow2 1 = 2 := by rfl
  rw [this]; ring
theorem pow2_m2 (e : Int) : pow2 (e - 2) = pow2 e / 4 := by
  have : pow2 e = pow2 (e - 2) * pow2 2 := by rw [← pow2_add]; congr 1; omega
  rw [this]; have : pow2 2 = 4 := by rfl
  rw [this]; ring

/-- `readFloat` of a number whose binade and nearest significand are known -/
theorem readFloat_in_binade (v : ℚ) (e : Int) (m : Nat) (h1 : pow2 (e + 52) ≤ v) (h2 : v < pow2 (e + 53))
    (hm : |v / pow2 e - (m : Int)| < 1 / 2) :
    readFloat v = if m = 2 ^ 53 then ⟨2 ^ 52, e + 1⟩ else ⟨m, e⟩ := by
  have hv : 0 < v := lt_of_lt_of_le (pow2_pos _) h1
  unfold readFloat
  simp only [not_le.mpr hv, if_false, binExp_eq h1 h2, roundHalfEven_of_close _ _ hm, Int.toNat_natCast]

/-- **correct rounding returns the number whose rounding interval contains the input** -/
theorem readFloat_of_close (d : Dbl) (hn : d.Normal) (v : ℚ) (hc : closeTo d v = true) : readFloat v = d := by
  obtain ⟨m, e⟩ := d
  obtain ⟨hm1, hm2⟩ := hn
  simp only at hm1 hm2
  have hP := pow2_pos e
  have hm1q : (2 : ℚ) ^ 52 ≤ (m : ℚ) := by exact_mod_cast hm1
  have hm2q : (m : ℚ) ≤ 2 ^ 53 - 1 := by
    have : m + 1 ≤ 2 ^ 53 := hm2
    have : ((m + 1 : Nat) : ℚ) ≤ ((2 ^ 53 : Nat) : ℚ) := by exact_mod_cast this
    push_cast at this; linarith
  simp only [closeTo, Dbl.value, Bool.and_eq_true, decide_eq_true_eq, pow2_m1, pow2_m2] at hc
  obtain ⟨hlo, hhi⟩ := hc
  have hne : m ≠ 2 ^ 53 := by omega
  by_cases hb : m = 2 ^ 52
  · have hmq : (m : ℚ) = 2 ^ 52 := by rw [hb]; norm_num
    simp only [if_pos hb] at hlo
    rw [hmq] at hhi hlo
    by_cases hx : (2 : ℚ) ^ 52 * pow2 e ≤ v
    · have := readFloat_in_binade v e m (by rw [pow2_52]; exact hx) (by rw [pow2_53]; linarith) (by
        rw [abs_lt, Int.cast_natCast, hmq]
        constructor
        · rw [lt_sub_iff_add_lt, lt_div_iff₀ hP]; linarith
        · rw [sub_lt_iff_lt_add, div_lt_iff₀ hP]; linarith)
      rw [this, if_neg hne]
    · have hx' : v < 2 ^ 52 * pow2 e := not_le.mp hx
      have hP1 := pow2_pos (e - 1)
      have := readFloat_in_binade v (e - 1) (2 ^ 53) (by rw [pow2_52, pow2_m1]; linarith)
        (by rw [pow2_53, pow2_m1]; linarith) (by
        rw [abs_lt, Int.cast_natCast]
        constructor
        · rw [lt_sub_iff_add_lt, lt_div_iff₀ hP1, pow2_m1]; push_cast; linarith
        · rw [sub_lt_iff_lt_add, div_lt_iff₀ hP1, pow2_m1]; push_cast; linarith)
      rw [this, if_pos rfl, hb]
      congr 1; omega
  · simp only [hb, if_false] at hlo
    have hm1' : (2 : ℚ) ^ 52 + 1 ≤ (m : ℚ) := by
      have : 2 ^ 52 + 1 ≤ m := by omega
      have : ((2 ^ 52 + 1 : Nat) : ℚ) ≤ (m : ℚ) := by exact_mod_cast this
      push_cast at this; linarith
    have := readFloat_in_binade v e m (by rw [pow2_52]; nlinarith) (by rw [pow2_53]; nlinarith) (by
      rw [abs_lt, Int.cast_natCast]
      constructor
      · rw [lt_sub_iff_add_lt, lt_div_iff₀ hP]; linarith
      · rw [sub_lt_iff_lt_add, div_lt_iff₀ hP]; linarith)
    rw [this, if_neg hne]

theorem readFloat_zero : readFloat 0 = Dbl.zero := by simp [readFloat]

/-- a binary64 number reads as itself -/
theorem readFloat_exact (d : Dbl) (hn : d.Normal) : readFloat d.value = d := by
  apply readFloat_of_close d hn
  have h1 := pow2_pos (d.e - 1)
  have h2 := pow2_pos (d.e - 2)
  simp only [closeTo, Bool.and_eq_true, decide_eq_true_eq]
  constructor
  · split <;> linarith
  · linarith

/-- **seventeen significant digits suffice**: a decimal within 5 units of the 17th significant digit of a binary64
    number (relative error at most 5·10^-17, what rounding the exact value to 17 significant digits gives) is read as
    that number -/
theorem seventeen_digits (d : Dbl) (hn : d.Normal) (v : ℚ) (h : |v - d.value| * 10 ^ 17 ≤ 5 * d.value) :
    readFloat v = d := by
  apply readFloat_of_close d hn
  obtain ⟨m, e⟩ := d
  obtain ⟨hm1, hm2⟩ := hn
  simp only at hm1 hm2
  have hP := pow2_pos e
  have hm2q : (m : ℚ) ≤ 2 ^ 53 - 1 := by
    have : m + 1 ≤ 2 ^ 53 := hm2
    have : ((m + 1 : Nat) : ℚ) ≤ ((2 ^ 53 : Nat) : ℚ) := by exact_mod_cast this
    push_cast at this; linarith
  simp only [Dbl.value] at h
  simp only [closeTo, Dbl.value, Bool.and_eq_true, decide_eq_true_eq, pow2_m1, pow2_m2]
  have h1 : (v - (m : ℚ) * pow2 e) * 10 ^ 17 ≤ 5 * ((m : ℚ) * pow2 e) :=
    le_trans (mul_le_mul_of_nonneg_right (le_abs_self _) (by positivity)) h
  have h2 : -(v - (m : ℚ) * pow2 e) * 10 ^ 17 ≤ 5 * ((m : ℚ) * pow2 e) :=
    le_trans (mul_le_mul_of_nonneg_right (neg_le_abs _) (by positivity)) h
  have hmP : (m : ℚ) * pow2 e ≤ (2 ^ 53 - 1) * pow2 e := mul_le_mul_of_nonneg_right hm2q hP.le
  constructor
  · split
    · rename_i hb
      have hmq : (m : ℚ) = 2 ^ 52 := by rw [hb]; norm_num
      rw [hmq] at h2 ⊢
      linarith
    · linarith
  · linarith


/-- the number read is at most half a unit in the last place away from the text -/
theorem readFloat_within (v : ℚ) (hv : 0 < v) : |v - (readFloat v).value| ≤ pow2 ((readFloat v).e - 1) := by
  obtain ⟨h1, h2⟩ := binExp_spec v hv
  have hP := pow2_pos (binExp v)
  rw [pow2_52] at h1
  have hq : (2 : ℚ) ^ 52 ≤ v / pow2 (binExp v) := by rw [le_div_iff₀ hP]; exact h1
  have hr : (2 : Int) ^ 52 ≤ roundHalfEven (v / pow2 (binExp v)) := by
    have := Round.roundHalfEven_mono hq
    have h' : roundHalfEven ((2 : ℚ) ^ 52) = 2 ^ 52 := by
      have := Round.roundHalfEven_int (2 ^ 52); push_cast at this; exact this
    rw [h'] at this; exact this
  have hc := Round.roundHalfEven_close (v / pow2 (binExp v))
  unfold readFloat
  simp only [not_le.mpr hv, if_false]
  generalize roundHalfEven (v / pow2 (binExp v)) = r at hr hc ⊢
  obtain ⟨n, rfl⟩ := Int.eq_ofNat_of_zero_le (show 0 ≤ r by omega)
  simp only [Int.toNat_natCast]
  have hd : |v - (n : ℚ) * pow2 (binExp v)| ≤ pow2 (binExp v) / 2 := by
    rw [abs_le] at hc ⊢
    obtain ⟨c1, c2⟩ := hc
    rw [Int.cast_natCast] at c1 c2
    have c1' : (n : ℚ) - 1 / 2 ≤ v / pow2 (binExp v) := by linarith
    have c2' : v / pow2 (binExp v) ≤ n + 1 / 2 := by linarith
    rw [le_div_iff₀ hP] at c1'
    rw [div_le_iff₀ hP] at c2'
    constructor <;> linarith
  split
  · rename_i hn
    simp only [Dbl.value]
    have : ((2 ^ 52 : Nat) : ℚ) * pow2 (binExp v + 1) = (n : ℚ) * pow2 (binExp v) := by
      rw [hn, pow2_add]; have : pow2 1 = 2 := rfl
      rw [this]; push_cast; ring
    rw [this, show binExp v + 1 - 1 = binExp v by omega]
    linarith
  · simp only [Dbl.value, pow2_m1]
    exact hd

/-- **too few digits**: a text further than half a unit in the last place from a binary64 number is not read as it -/
theorem readFloat_ne_of_far (d : Dbl) (v : ℚ) (hv : 0 < v) (h : pow2 (d.e - 1) < |v - d.value|) : readFloat v ≠ d := by
  intro he
  have := readFloat_within v hv
  rw [he] at this
  linarith

/-- `_handle_sound` down to the number, on the element `do_directions` writes: a decimal text inside the rounding interval
    of the score's quarter tempo comes back as exactly that binary64 number -/
theorem sound_float_roundtrip (t : Model.XmlDir.TempoVal) (h : Model.XmlDir.WellFormedTempo t) (d : Dbl) (hn : d.Normal)
    (hc : closeTo d (tempoValue t) = true) : readSoundFloat (Model.XmlDir.writeSound t) = some (some d) := by
  unfold readSoundFloat
  rw [C03.Dir.sound_roundtrip t h]
  simp [readFloat_of_close d hn _ hc]

/-! ### exponent notation -/

section Sci
open Model.XmlNote Model.XmlDir C03.Text C03.Dir

theorem parseTempo_text (t : TempoVal) (h : WellFormedTempo t) : parseTempo (tempoText t) = some t := by
  have := C03.Dir.sound_roundtrip t h
  unfold readSound writeSound at this
  simp only [Xml.get, Xml.attrs, Model.lookup, if_true] at this
  cases hp : parseTempo (tempoText t) with
  | none => rw [hp] at this; simp at this
  | some u => rw [hp] at this; simp at this; rw [this]

theorem isDigit_ne_e (c : Char) (h : c.isDigit = true) : (c != 'e') = true := by
  have : c ≠ 'e' := by intro e; subst e; revert h; decide
  simpa using this

theorem tempoText_no_e (t : TempoVal) (h : WellFormedTempo t) : ∀ c ∈ tempoText t, (c != 'e') = true := by
  intro c hc
  cases t with
  | whole n => exact isDigit_ne_e c (natDigits_isDigit n c hc)
  | dec ip fp =>
    obtain ⟨_, hdig, _⟩ := h
    simp only [tempoText, List.mem_append, List.mem_cons] at hc
    rcases hc with hc | hc | hc
    · exact isDigit_ne_e c (natDigits_isDigit ip c hc)
    · subst hc; decide
    · exact isDigit_ne_e c (List.all_eq_true.mp hdig c hc)

theorem allDigits_expDigits (n : Nat) : allDigits (expDigits n) = true := by
  unfold expDigits
  split
  · have := allDigits_natDigits n
    unfold allDigits at this ⊢
    simp only [Bool.and_eq_true] at this ⊢
    refine ⟨by simp, ?_⟩
    simp only [List.all_cons, Bool.and_eq_true]
    exact ⟨by decide, this.2⟩
  · exact allDigits_natDigits n

theorem digitsToNat_expDigits (n : Nat) : digitsToNat (expDigits n) = n := by
  unfold expDigits
  split
  · have := Digits.digitsToNat_natDigits n
    unfold digitsToNat at this ⊢
    simpa [List.foldl_cons] using this
  · exact Digits.digitsToNat_natDigits n

theorem expDigits_head (n : Nat) : ∃ c r, expDigits n = c :: r ∧ c.isDigit = true := by
  have h := allDigits_expDigits n
  unfold allDigits at h
  cases he : expDigits n with
  | nil => rw [he] at h; simp at h
  | cons c r =>
    rw [he] at h
    simp only [Bool.and_eq_true, List.all_cons] at h
    exact ⟨c, r, rfl, h.2.1⟩

theorem dropWhile_all {α : Type} (p : α → Bool) (l : List α) (h : ∀ x ∈ l, p x = true) : l.dropWhile p = [] := by
  induction l with
  | nil => rfl
  | cons b l ih =>
    simp only [List.dropWhile_cons, h b (by simp), if_true]
    exact ih fun x hx => h x (List.mem_cons_of_mem _ hx)

/-- the float literal written (plain, or mantissa and exponent) is parsed into the same mantissa and exponent -/
theorem sci_roundtrip (t : TempoVal) (h : WellFormedTempo t) (ex : Int) : parseSci (sciText t ex) = some (t, ex) := by
  have hno := tempoText_no_e t h
  unfold parseSci sciText
  by_cases h0 : ex = 0
  · subst h0
    simp only [if_true]
    rw [takeWhile_all _ _ hno]
    rw [dropWhile_all _ _ hno]
    simp [parseTempo_text t h]
  · simp only [h0, if_false]
    have he : (fun (c : Char) => c != 'e') 'e' = false := by decide
    rw [takeWhile_stop _ _ _ _ hno he, dropWhile_stop _ _ _ _ hno he]
    simp only [parseTempo_text t h]
    have hex : parseExp ((if ex < 0 then '-' else '+') :: expDigits ex.natAbs) = some ex := by
      unfold parseExp
      by_cases hneg : ex < 0
      · simp only [hneg, if_true, allDigits_expDigits, digitsToNat_expDigits]
        congr 1; omega
      · have : ('+' : Char) ≠ '-' := by decide
        simp only [hneg, if_false, this, if_true, allDigits_expDigits, digitsToNat_expDigits]
        congr 1; omega
    rw [hex]

/-- `_handle_sound` down to the number, exponent notation included -/
theorem sound_num_roundtrip (t : TempoVal) (h : WellFormedTempo t) (ex : Int) (d : Dbl) (hn : d.Normal)
    (hc : closeTo d (sciValue (t, ex)) = true) : readSoundNum (writeSoundSci t ex) = some (some d) := by
  unfold readSoundNum writeSoundSci
  simp only [Xml.get, Xml.attrs, Model.lookup, if_true]
  rw [sci_roundtrip t h ex]
  simp [readFloat_of_close d hn _ hc]

end Sci

end C03.Float
