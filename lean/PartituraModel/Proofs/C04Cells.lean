/-
C04 — the importer with the (part, voice) of every note: each note handed to `create_part` carries the
cell that `assign_group_part_voice` gives to the (track, channel) it was read from.
-/
import Mathlib.Data.List.Perm.Basic
import PartituraModel.Proofs.C04Import

namespace C04C
open Model Model.Ticks Model.MidiPair Model.MidiModes Model.ScoreMidi
open C04I (noteRow)

theorem lookup_zip_nodup {α β : Type} [DecidableEq α] (keys : List α) (vs : List β) (hn : keys.Nodup)
    (k : α) (v : β) (h : (k, v) ∈ keys.zip vs) : lookup k (keys.zip vs) = some v := by
  induction keys generalizing vs with
  | nil => simp at h
  | cons a as ih =>
    cases vs with
    | nil => simp at h
    | cons b bs =>
      obtain ⟨ha, hn'⟩ := List.nodup_cons.mp hn
      simp only [List.zip_cons_cons, List.mem_cons, Prod.mk.injEq] at h
      simp only [List.zip_cons_cons, lookup]
      rcases h with ⟨rfl, rfl⟩ | h
      · simp
      · have : a ≠ k := fun e => ha (e ▸ (List.of_mem_zip h).1)
        rw [if_neg this]
        exact ih bs hn' h

theorem flatMap_filter_of_nil {α β : Type} (p : α → Bool) (f : α → List β) (l : List α)
    (h : ∀ x ∈ l, p x = false → f x = []) : (l.filter p).flatMap f = l.flatMap f := by
  induction l with
  | nil => rfl
  | cons x xs ih =>
    have ih' := ih (fun y hy => h y (List.mem_cons_of_mem _ hy))
    cases hp : p x
    · rw [List.filter_cons_of_neg (by simp [hp]), List.flatMap_cons, ih', h x List.mem_cons_self hp, List.nil_append]
    · rw [List.filter_cons_of_pos hp, List.flatMap_cons, List.flatMap_cons, ih']

/-- the imported notes with their (part, voice): read from the tracks, each note tagged with the cell of its
    (track, channel) -/
theorem import_cells (mode ticks : Nat) (tracks : List (List (Int × Msg))) (imp : Imported)
    (h : loadScoreMidi mode ticks tracks = some imp) :
    let byTrCh := notesByTrCh ((readTracks tracks).filter fun e => !e.2.1.isEmpty)
    let trch := sortedTC (byTrCh.map (·.1))
    let Z := trch.zip (assignGroupPartVoice mode trch)
    (imp.parts.flatMap fun e => e.2.notes.map fun n => (C04I.strip n, ((some e.1 : Option Nat), n.2.2.2))).Perm
      ((tracks.zipIdx).flatMap fun ti => (pairTrack ti.1).map fun n => (noteRow n, tagOf (lookup (ti.2, n.ch) Z))) := by
  intro byTrCh0 trch0 Z0
  obtain ⟨hp, _⟩ := C04I.load_inv mode ticks tracks imp h
  have hZ0 : Z0 = trch0.zip (assignGroupPartVoice mode trch0) := rfl
  have hby0 : byTrCh0 = notesByTrCh ((readTracks tracks).filter fun e => !e.2.1.isEmpty) := rfl
  have htr0 : trch0 = sortedTC (byTrCh0.map (·.1)) := rfl
  clear_value Z0 trch0 byTrCh0
  rw [← hby0, ← htr0] at hp
  generalize hg : assignGroupPartVoice mode trch0 = gpv at hp hZ0
  have hlen : trch0.length = gpv.length := by rw [← hg]; exact (C04M.assign_length mode trch0).symm
  have hnd : trch0.Nodup := htr0 ▸ C04I.sortedTC_nodup _
  have hf := C04E.mapM_some _ _ _ hp
  -- part after part: the cells of the part
  let H : (Nat × Nat) × Cell → List ((Int × Nat × Int) × (Option Nat × Int)) := fun e =>
    ((byTrCh0.filter (fun x => x.1 = e.1)).flatMap (·.2)).map fun n => (noteRow n, tagOf (some e.2))
  have e1 : (imp.parts.flatMap fun e => e.2.notes.map fun n => (C04I.strip n, ((some e.1 : Option Nat), n.2.2.2))) =
      (firstSeen (gpv.map (·.2.1))).flatMap fun q => ((trch0.zip gpv).filter (fun e => e.2.2.1 = q)).flatMap H := by
    symm
    apply C04E.forall₂_flatMap_eq hf
    intro q e hqe
    cases q with
    | none => simp [importPart] at hqe
    | some pid =>
      simp only [importPart, Option.some.injEq] at hqe
      subst hqe
      simp only [cellNotes, cellsOf, List.map_flatMap, List.map_map]
      apply List.flatMap_congr
      intro c hc
      have hcp : c.2.2.1 = some pid := by simpa using (List.mem_filter.mp hc).2
      simp only [H, List.map_flatMap]
      apply List.flatMap_congr
      intro x _
      apply List.map_congr_left
      intro n _
      simp only [Function.comp, C04I.strip, noteRow, tagOf, voiceInt, hcp]
      cases c.2.2.2 <;> rfl
  rw [e1, ← List.flatMap_assoc]
  have hz : (trch0.zip gpv).map (fun e => e.2.2.1) = gpv.map (·.2.1) := by
    rw [← C04I.zip_map_snd trch0 gpv hlen, List.map_map, C04I.zip_map_snd trch0 gpv hlen]
    rfl
  have g1 := C04G.firstSeen_group_perm (fun e : (Nat × Nat) × Cell => e.2.2.1) (trch0.zip gpv)
  rw [hz] at g1
  refine (g1.flatMap_right _).trans ?_
  -- cell after cell: the notes stored under its (track, channel), tagged by the lookup of that key
  let g : (Nat × Nat) × List NoteRec → List ((Int × Nat × Int) × (Option Nat × Int)) := fun x =>
    x.2.map fun n => (noteRow n, tagOf (lookup x.1 Z0))
  have e2 : (trch0.zip gpv).flatMap H = (trch0.flatMap fun k => byTrCh0.filter (fun x => x.1 = k)).flatMap g := by
    conv_rhs => rw [← C04I.zip_map_fst trch0 gpv hlen]
    rw [List.flatMap_map, List.flatMap_assoc]
    apply List.flatMap_congr
    intro e he
    simp only [H, List.map_flatMap]
    apply List.flatMap_congr
    intro x hx
    have hxk : x.1 = e.1 := by simpa using (List.mem_filter.mp hx).2
    simp only [g, hxk, hZ0]
    rw [lookup_zip_nodup trch0 gpv hnd e.1 e.2 he]
  rw [e2]
  have g2 := C04G.group_perm_all (fun x : (Nat × Nat) × List NoteRec => x.1) trch0 hnd byTrCh0 (by
    intro x hx
    rw [htr0]
    exact (C04M.mem_sortedTC _ _).mpr (List.mem_map.mpr ⟨x, hx, rfl⟩))
  refine (g2.flatMap_right _).trans ?_
  -- channel after channel: the notes of the track
  rw [hby0]
  unfold notesByTrCh
  rw [List.flatMap_assoc]
  have e3 : ∀ e : TrackRead,
      (((channelsOf e.2.1).map fun ch => ((e.1, ch), e.2.1.filter (fun n => n.ch = ch))).flatMap g).Perm
        (e.2.1.map fun n => (noteRow n, tagOf (lookup (e.1, n.ch) Z0))) := by
    intro e
    rw [List.flatMap_map]
    have : ∀ ch, g ((e.1, ch), e.2.1.filter (fun n => n.ch = ch)) =
        (e.2.1.filter (fun n => n.ch = ch)).map fun n => (noteRow n, tagOf (lookup (e.1, n.ch) Z0)) := by
      intro ch
      simp only [g]
      apply List.map_congr_left
      intro n hn
      have : n.ch = ch := by simpa using (List.mem_filter.mp hn).2
      rw [this]
    simp only [this]
    rw [← List.map_flatMap, C04G.channelsOf_eq]
    exact (C04G.firstSeen_group_perm (fun n : NoteRec => n.ch) e.2.1).map _
  refine (List.Perm.flatMap_left _ (fun e _ => e3 e)).trans (List.Perm.of_eq ?_)
  rw [flatMap_filter_of_nil]
  · unfold readTracks
    rw [List.flatMap_map]
    rfl
  · intro e _ he
    have : e.2.1 = [] := by simpa using he
    simp [this]

-- ------------------------------------------------------------------ `sorted(keys)` depends on the key set only

theorem ltTC_irrefl (a : Nat × Nat) : ¬ C04I.ltTC a a := by
  unfold C04I.ltTC; omega

theorem ltTC_asymm {a b : Nat × Nat} (h : C04I.ltTC a b) : ¬ C04I.ltTC b a := by
  unfold C04I.ltTC at *; omega

theorem sorted_ext (l₁ l₂ : List (Nat × Nat)) (h₁ : l₁.Pairwise C04I.ltTC) (h₂ : l₂.Pairwise C04I.ltTC)
    (hm : ∀ x, x ∈ l₁ ↔ x ∈ l₂) : l₁ = l₂ := by
  induction l₁ generalizing l₂ with
  | nil =>
    cases l₂ with
    | nil => rfl
    | cons b bs => exact absurd ((hm b).mpr List.mem_cons_self) (by simp)
  | cons a as ih =>
    cases l₂ with
    | nil => exact absurd ((hm a).mp List.mem_cons_self) (by simp)
    | cons b bs =>
      obtain ⟨ha, has⟩ := List.pairwise_cons.mp h₁
      obtain ⟨hb, hbs⟩ := List.pairwise_cons.mp h₂
      have hab : a = b := by
        rcases List.mem_cons.mp ((hm a).mp List.mem_cons_self) with h | h
        · exact h
        · rcases List.mem_cons.mp ((hm b).mpr List.mem_cons_self) with h' | h'
          · exact h'.symm
          · exact absurd (ha b h') (ltTC_asymm (hb a h))
      subst hab
      congr 1
      apply ih bs has hbs
      intro x
      constructor
      · intro hx
        rcases List.mem_cons.mp ((hm x).mp (List.mem_cons_of_mem _ hx)) with h | h
        · subst h; exact absurd (ha x hx) (ltTC_irrefl x)
        · exact h
      · intro hx
        rcases List.mem_cons.mp ((hm x).mpr (List.mem_cons_of_mem _ hx)) with h | h
        · subst h; exact absurd (hb x hx) (ltTC_irrefl x)
        · exact h

theorem sortedTC_congr (l₁ l₂ : List (Nat × Nat)) (hm : ∀ x, x ∈ l₁ ↔ x ∈ l₂) : sortedTC l₁ = sortedTC l₂ :=
  sorted_ext _ _ (C04I.sortedTC_sorted l₁) (C04I.sortedTC_sorted l₂)
    (fun x => by rw [C04M.mem_sortedTC, C04M.mem_sortedTC]; exact hm x)

-- ------------------------------------------------------------------ which (track, channel) pairs hold notes

theorem mem_zipIdx_iff {α : Type} (l : List α) (x : α) (i : Nat) : (x, i) ∈ l.zipIdx ↔ l[i]? = some x := by
  rw [List.mem_zipIdx_iff_getElem?]

theorem mem_byTrCh (tracks : List (List (Int × Msg))) (i ch : Nat) :
    (i, ch) ∈ (notesByTrCh ((readTracks tracks).filter fun e => !e.2.1.isEmpty)).map (·.1) ↔
      ∃ tr, tracks[i]? = some tr ∧ ∃ n ∈ pairTrack tr, n.ch = ch := by
  simp only [notesByTrCh, readTracks, List.mem_map, List.mem_flatMap, List.mem_filter, C04G.channelsOf_eq,
    C04G.mem_firstSeen]
  constructor
  · rintro ⟨x, ⟨e, ⟨⟨ti, hti, rfl⟩, _⟩, c, ⟨n, hn, rfl⟩, rfl⟩, hx⟩
    obtain ⟨tr, j⟩ := ti
    simp only [Prod.mk.injEq] at hx
    obtain ⟨rfl, rfl⟩ := hx
    exact ⟨tr, (mem_zipIdx_iff tracks tr j).mp hti, n, hn, rfl⟩
  · rintro ⟨tr, htr, n, hn, rfl⟩
    refine ⟨((i, n.ch), (pairTrack tr).filter (fun m => m.ch = n.ch)), ⟨_, ⟨⟨(tr, i), (mem_zipIdx_iff tracks tr i).mpr htr, rfl⟩, ?_⟩, n.ch, ⟨n, hn, rfl⟩, rfl⟩, rfl⟩
    simp only [Bool.not_eq_eq_eq_not, Bool.not_true, List.isEmpty_eq_false_iff]
    exact List.ne_nil_of_mem hn

theorem mem_noteKeys (parts : List PartIn) (k : Key) :
    k ∈ noteKeys parts ↔ ∃ xi ∈ parts.zipIdx, ∃ n ∈ xi.1.notes, (xi.1.group, xi.2, n.2.2.2) = k := by
  unfold noteKeys
  rw [C04G.mem_firstSeen]
  simp only [List.mem_flatMap, List.mem_map]

/-- the voices `assign_group_part_voice` hands out are `None` or a positive number -/
theorem assign_voice_shape (mode : Nat) (trch : List (Nat × Nat)) :
    ∀ c ∈ assignGroupPartVoice mode trch, c.2.2 = none ∨ ∃ v, c.2.2 = some (v + 1) := by
  intro c hc
  match mode with
  | 0 =>
    simp only [assignGroupPartVoice] at hc
    obtain ⟨i, _, rfl⟩ := List.mem_iff_getElem.mp hc
    simp only [List.getElem_zipWith]
    exact Or.inr ⟨_, rfl⟩
  | 1 =>
    simp only [assignGroupPartVoice] at hc
    obtain ⟨i, _, rfl⟩ := List.mem_iff_getElem.mp hc
    simp only [List.getElem_zipWith]
    exact Or.inl trivial
  | 2 =>
    simp only [assignGroupPartVoice, List.mem_map] at hc
    obtain ⟨v, _, rfl⟩ := hc
    exact Or.inr ⟨v, rfl⟩
  | 3 =>
    simp only [assignGroupPartVoice, List.mem_map] at hc
    obtain ⟨v, _, rfl⟩ := hc
    exact Or.inl rfl
  | 4 =>
    simp only [assignGroupPartVoice, List.mem_map] at hc
    obtain ⟨v, _, rfl⟩ := hc
    exact Or.inl rfl
  | 5 =>
    simp only [assignGroupPartVoice, List.mem_map] at hc
    obtain ⟨v, _, rfl⟩ := hc
    exact Or.inl rfl
  | n + 6 =>
    simp only [assignGroupPartVoice, List.mem_map] at hc
    obtain ⟨v, _, rfl⟩ := hc
    exact Or.inl rfl

theorem voiceInt_inj (x y : Option Nat) (hx : x = none ∨ ∃ v, x = some (v + 1)) (hy : y = none ∨ ∃ v, y = some (v + 1))
    (h : voiceInt x = voiceInt y) : x = y := by
  rcases hx with rfl | ⟨v, rfl⟩ <;> rcases hy with rfl | ⟨w, rfl⟩
  · rfl
  · simp only [voiceInt] at h; omega
  · simp only [voiceInt] at h; omega
  · simp only [voiceInt] at h
    have : v = w := by omega
    rw [this]

/-- a part belongs to one group: the note keys of a score -/
theorem noteKeys_group (parts : List PartIn) :
    ∀ a ∈ noteKeys parts, ∀ b ∈ noteKeys parts, kPart a = kPart b → kGroup a = kGroup b := by
  intro a ha b hb hab
  obtain ⟨xi, hxi, n, _, rfl⟩ := (mem_noteKeys parts a).mp ha
  obtain ⟨xj, hxj, m, _, rfl⟩ := (mem_noteKeys parts b).mp hb
  simp only [kPart, kGroup] at hab ⊢
  have h1 := (mem_zipIdx_iff parts xi.1 xi.2).mp hxi
  have h2 := (mem_zipIdx_iff parts xj.1 xj.2).mp hxj
  rw [hab, h2] at h1
  have := Option.some.inj h1
  rw [this]

-- ------------------------------------------------------------------ the importer returns

theorem mapM_total {α β : Type} (f : α → Option β) (l : List α) (h : ∀ x ∈ l, ∃ y, f x = some y) :
    ∃ r, l.mapM f = some r := by
  induction l with
  | nil => exact ⟨[], rfl⟩
  | cons x xs ih =>
    obtain ⟨y, hy⟩ := h x List.mem_cons_self
    obtain ⟨ys, hys⟩ := ih (fun z hz => h z (List.mem_cons_of_mem _ hz))
    refine ⟨y :: ys, ?_⟩
    rw [List.mapM_cons]
    simp [hy, hys]

theorem assign_part_some (mode : Nat) (hm : mode ≤ 5) (trch : List (Nat × Nat)) :
    ∀ c ∈ assignGroupPartVoice mode trch, ∃ p, c.2.1 = some p := by
  intro c hc
  match mode, hm with
  | 0, _ =>
    simp only [assignGroupPartVoice] at hc
    obtain ⟨i, _, rfl⟩ := List.mem_iff_getElem.mp hc
    simp only [List.getElem_zipWith]
    exact ⟨_, rfl⟩
  | 1, _ =>
    simp only [assignGroupPartVoice] at hc
    obtain ⟨i, _, rfl⟩ := List.mem_iff_getElem.mp hc
    simp only [List.getElem_zipWith]
    exact ⟨_, rfl⟩
  | 2, _ =>
    simp only [assignGroupPartVoice, List.mem_map] at hc
    obtain ⟨v, _, rfl⟩ := hc
    exact ⟨0, rfl⟩
  | 3, _ =>
    simp only [assignGroupPartVoice, List.mem_map] at hc
    obtain ⟨v, _, rfl⟩ := hc
    exact ⟨v, rfl⟩
  | 4, _ =>
    simp only [assignGroupPartVoice, List.mem_map] at hc
    obtain ⟨v, _, rfl⟩ := hc
    exact ⟨0, rfl⟩
  | 5, _ =>
    simp only [assignGroupPartVoice, List.mem_map] at hc
    obtain ⟨v, _, rfl⟩ := hc
    exact ⟨v, rfl⟩

/-- for the six modes `load_score_midi` returns as soon as one track holds a completed note -/
theorem import_total (mode : Nat) (hm : mode ≤ 5) (ticks : Nat) (tracks : List (List (Int × Msg)))
    (hne : ∃ (i : Nat) (tr : List (Int × Msg)), tracks[i]? = some tr ∧ pairTrack tr ≠ []) :
    ∃ imp, loadScoreMidi mode ticks tracks = some imp := by
  unfold loadScoreMidi
  dsimp only
  obtain ⟨i, tr, htr, hp⟩ := hne
  obtain ⟨n, hn⟩ := List.exists_mem_of_ne_nil _ hp
  have hmem := (mem_byTrCh tracks i n.ch).mpr ⟨tr, htr, n, hn, rfl⟩
  have hne' : (notesByTrCh ((readTracks tracks).filter fun e => !e.2.1.isEmpty)).isEmpty = false := by
    rw [List.isEmpty_eq_false_iff]
    intro h0
    rw [h0] at hmem
    simp at hmem
  rw [if_neg (by simp [hne'])]
  have := mapM_total (importPart ticks (notesByTrCh ((readTracks tracks).filter fun e => !e.2.1.isEmpty))
    (sortedTC ((notesByTrCh ((readTracks tracks).filter fun e => !e.2.1.isEmpty)).map (·.1)))
    (assignGroupPartVoice mode (sortedTC ((notesByTrCh ((readTracks tracks).filter fun e => !e.2.1.isEmpty)).map (·.1))))
    (sigTables (readTracks tracks)))
    (firstSeen ((assignGroupPartVoice mode (sortedTC ((notesByTrCh ((readTracks tracks).filter fun e => !e.2.1.isEmpty)).map (·.1)))).map (·.2.1)))
    (by
      intro q hq
      rw [C04G.mem_firstSeen] at hq
      obtain ⟨c, hc, rfl⟩ := List.mem_map.mp hq
      obtain ⟨p, hp'⟩ := assign_part_some mode hm _ c hc
      rw [hp']
      exact ⟨_, rfl⟩)
  obtain ⟨r, hr⟩ := this
  exact ⟨_, by rw [hr]; rfl⟩

-- ------------------------------------------------------------------ tagged notes of all tracks

theorem zipIdx_flatMap_range {α β : Type} (l : List α) (F : α × Nat → List β) (d : α) (k : Nat) :
    (l.zipIdx k).flatMap F = (List.range l.length).flatMap fun i => F (l[i]?.getD d, i + k) := by
  induction l generalizing k with
  | nil => rfl
  | cons x xs ih =>
    rw [List.zipIdx_cons, List.flatMap_cons, ih (k + 1), List.length_cons, List.range_succ_eq_map,
      List.flatMap_cons, List.flatMap_map]
    congr 1
    · simp
    · apply List.flatMap_congr
      intro i _
      simp only [List.getElem?_cons_succ]
      congr 2
      omega

/-- the routed notes of all tracks, each with a tag computed from its (track, channel) -/
theorem routes_tagged {τ : Type} (T : Nat × Nat → τ) (ktc : List (Key × (Nat × Nat))) (vel n : Nat) (recs : List NoteOut)
    (hn : ∀ e ∈ recs.filterMap (C04E.routeAny ktc vel), e.1 < n) :
    ((List.range n).flatMap fun tr => (recs.filterMap (C04E.route ktc vel tr)).map fun m => (noteRow m, T (tr, m.ch))).Perm
      (recs.filterMap fun r => (lookup r.key ktc).map fun tc => ((r.on, r.pitch, r.off - r.on), T tc)) := by
  have e1 : ∀ tr, ((recs.filterMap (C04E.route ktc vel tr)).map fun m => (noteRow m, T (tr, m.ch))) =
      ((recs.filterMap (C04E.routeAny ktc vel)).filter (fun e => e.1 = tr)).map fun e => (noteRow e.2, T (e.1, e.2.ch)) := by
    intro tr
    rw [C04E.route_eq_filter, List.map_map]
    apply List.map_congr_left
    intro e he
    have : e.1 = tr := by simpa using (List.mem_filter.mp he).2
    simp [this]
  simp only [e1]
  rw [← List.map_flatMap]
  refine ((C04G.group_perm_all (fun e : Nat × NoteRec => e.1) (List.range n) List.nodup_range _
    (fun e he => List.mem_range.mpr (hn e he))).map _).trans (List.Perm.of_eq ?_)
  rw [List.map_filterMap]
  apply List.filterMap_congr
  intro r _
  simp only [C04E.routeAny, Option.map_map]
  cases lookup r.key ktc with
  | none => rfl
  | some tc => rfl

end C04C
