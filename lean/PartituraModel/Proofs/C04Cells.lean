/-
C04 — the importer with the (part, voice) of every note: each note handed to `create_part` carries the
cell that `assign_group_part_voice` gives to the (track, channel) it was read from.
-/
import Mathlib.Data.List.Perm.Basic
import PartituraModel.Proofs.C04Import

namespace C04C
open Model Model.Ticks Model.MidiPair Model.MidiModes Model.ScoreMidi
open C04I (noteRow)

/-- the voice number `create_part` receives -/
def voiceInt (v : Option Nat) : Int := match v with | some v => (v : Int) | none => 0

/-- (part number, voice) of a cell -/
def tagOf (c : Option Cell) : Option Nat × Int :=
  match c with
  | some c => (c.2.1, voiceInt c.2.2)
  | none => (none, 0)

theorem lookup_zip_nodup {α β : Type} [DecidableEq α] (keys : List α) (vs : List β) (hn : keys.Nodup)
    (k : α) (v : β) (h : (k, v) ∈ keys.zip vs) : lookup k (keys.zip vs) = some v := by
  induction keys generalizing vs with
  | nil => simp at h
  | cons a as ih =>
    cases vs with
    | nil => simp at h
    | cons b bs =>
      obtain ⟨ha, hn'⟩ := List.nodup_cons.mp hn
      simp only [List.zip_cons_cons, List.mem_cons, Prod.mk.injEq] at h
      simp only [List.zip_cons_cons, lookup]
      rcases h with ⟨rfl, rfl⟩ | h
      · simp
      · have : a ≠ k := fun e => ha (e ▸ (List.of_mem_zip h).1)
        rw [if_neg this]
        exact ih bs hn' h

theorem flatMap_filter_of_nil {α β : Type} (p : α → Bool) (f : α → List β) (l : List α)
    (h : ∀ x ∈ l, p x = false → f x = []) : (l.filter p).flatMap f = l.flatMap f := by
  induction l with
  | nil => rfl
  | cons x xs ih =>
    have ih' := ih (fun y hy => h y (List.mem_cons_of_mem _ hy))
    cases hp : p x
    · rw [List.filter_cons_of_neg (by simp [hp]), List.flatMap_cons, ih', h x List.mem_cons_self hp, List.nil_append]
    · rw [List.filter_cons_of_pos hp, List.flatMap_cons, List.flatMap_cons, ih']

/-- the imported notes with their (part, voice): read from the tracks, each note tagged with the cell of its
    (track, channel) -/
theorem import_cells (mode ticks : Nat) (tracks : List (List (Int × Msg))) (imp : Imported)
    (h : loadScoreMidi mode ticks tracks = some imp) :
    let byTrCh := notesByTrCh ((readTracks tracks).filter fun e => !e.2.1.isEmpty)
    let trch := sortedTC (byTrCh.map (·.1))
    let Z := trch.zip (assignGroupPartVoice mode trch)
    (imp.parts.flatMap fun e => e.2.notes.map fun n => (C04I.strip n, ((some e.1 : Option Nat), n.2.2.2))).Perm
      ((tracks.zipIdx).flatMap fun ti => (pairTrack ti.1).map fun n => (noteRow n, tagOf (lookup (ti.2, n.ch) Z))) := by
  intro byTrCh0 trch0 Z0
  obtain ⟨hp, _⟩ := C04I.load_inv mode ticks tracks imp h
  have hZ0 : Z0 = trch0.zip (assignGroupPartVoice mode trch0) := rfl
  have hby0 : byTrCh0 = notesByTrCh ((readTracks tracks).filter fun e => !e.2.1.isEmpty) := rfl
  have htr0 : trch0 = sortedTC (byTrCh0.map (·.1)) := rfl
  clear_value Z0 trch0 byTrCh0
  rw [← hby0, ← htr0] at hp
  generalize hg : assignGroupPartVoice mode trch0 = gpv at hp hZ0
  have hlen : trch0.length = gpv.length := by rw [← hg]; exact (C04M.assign_length mode trch0).symm
  have hnd : trch0.Nodup := htr0 ▸ C04I.sortedTC_nodup _
  have hf := C04E.mapM_some _ _ _ hp
  -- part after part: the cells of the part
  let H : (Nat × Nat) × Cell → List ((Int × Nat × Int) × (Option Nat × Int)) := fun e =>
    ((byTrCh0.filter (fun x => x.1 = e.1)).flatMap (·.2)).map fun n => (noteRow n, tagOf (some e.2))
  have e1 : (imp.parts.flatMap fun e => e.2.notes.map fun n => (C04I.strip n, ((some e.1 : Option Nat), n.2.2.2))) =
      (firstSeen (gpv.map (·.2.1))).flatMap fun q => ((trch0.zip gpv).filter (fun e => e.2.2.1 = q)).flatMap H := by
    symm
    apply C04E.forall₂_flatMap_eq hf
    intro q e hqe
    cases q with
    | none => simp [importPart] at hqe
    | some pid =>
      simp only [importPart, Option.some.injEq] at hqe
      subst hqe
      simp only [cellNotes, cellsOf, List.map_flatMap, List.map_map]
      apply List.flatMap_congr
      intro c hc
      have hcp : c.2.2.1 = some pid := by simpa using (List.mem_filter.mp hc).2
      simp only [H, List.map_flatMap]
      apply List.flatMap_congr
      intro x _
      apply List.map_congr_left
      intro n _
      simp only [Function.comp, C04I.strip, noteRow, tagOf, voiceInt, hcp]
      cases c.2.2.2 <;> rfl
  rw [e1, ← List.flatMap_assoc]
  have hz : (trch0.zip gpv).map (fun e => e.2.2.1) = gpv.map (·.2.1) := by
    rw [← C04I.zip_map_snd trch0 gpv hlen, List.map_map, C04I.zip_map_snd trch0 gpv hlen]
    rfl
  have g1 := C04G.firstSeen_group_perm (fun e : (Nat × Nat) × Cell => e.2.2.1) (trch0.zip gpv)
  rw [hz] at g1
  refine (g1.flatMap_right _).trans ?_
  -- cell after cell: the notes stored under its (track, channel), tagged by the lookup of that key
  let g : (Nat × Nat) × List NoteRec → List ((Int × Nat × Int) × (Option Nat × Int)) := fun x =>
    x.2.map fun n => (noteRow n, tagOf (lookup x.1 Z0))
  have e2 : (trch0.zip gpv).flatMap H = (trch0.flatMap fun k => byTrCh0.filter (fun x => x.1 = k)).flatMap g := by
    conv_rhs => rw [← C04I.zip_map_fst trch0 gpv hlen]
    rw [List.flatMap_map, List.flatMap_assoc]
    apply List.flatMap_congr
    intro e he
    simp only [H, List.map_flatMap]
    apply List.flatMap_congr
    intro x hx
    have hxk : x.1 = e.1 := by simpa using (List.mem_filter.mp hx).2
    simp only [g, hxk, hZ0]
    rw [lookup_zip_nodup trch0 gpv hnd e.1 e.2 he]
  rw [e2]
  have g2 := C04G.group_perm_all (fun x : (Nat × Nat) × List NoteRec => x.1) trch0 hnd byTrCh0 (by
    intro x hx
    rw [htr0]
    exact (C04M.mem_sortedTC _ _).mpr (List.mem_map.mpr ⟨x, hx, rfl⟩))
  refine (g2.flatMap_right _).trans ?_
  -- channel after channel: the notes of the track
  rw [hby0]
  unfold notesByTrCh
  rw [List.flatMap_assoc]
  have e3 : ∀ e : TrackRead,
      (((channelsOf e.2.1).map fun ch => ((e.1, ch), e.2.1.filter (fun n => n.ch = ch))).flatMap g).Perm
        (e.2.1.map fun n => (noteRow n, tagOf (lookup (e.1, n.ch) Z0))) := by
    intro e
    rw [List.flatMap_map]
    have : ∀ ch, g ((e.1, ch), e.2.1.filter (fun n => n.ch = ch)) =
        (e.2.1.filter (fun n => n.ch = ch)).map fun n => (noteRow n, tagOf (lookup (e.1, n.ch) Z0)) := by
      intro ch
      simp only [g]
      apply List.map_congr_left
      intro n hn
      have : n.ch = ch := by simpa using (List.mem_filter.mp hn).2
      rw [this]
    simp only [this]
    rw [← List.map_flatMap, C04G.channelsOf_eq]
    exact (C04G.firstSeen_group_perm (fun n : NoteRec => n.ch) e.2.1).map _
  refine (List.Perm.flatMap_left _ (fun e _ => e3 e)).trans (List.Perm.of_eq ?_)
  rw [flatMap_filter_of_nil]
  · unfold readTracks
    rw [List.flatMap_map]
    rfl
  · intro e _ he
    have : e.2.1 = [] := by simpa using he
    simp [this]

end C04C
