/-
C18 (round 6) — the tempo curves on a CALLER-GIVEN grouping (`unique_onset_idxs`): what `tempoSeqs_spec`,
`tempoAverageAt_pos`, `tempoDerivativeAt_pos` say for the built-in grouping holds for every grouping into non-empty
groups of notes of the table whose mean score onsets increase strictly.
-/
import PartituraModel.Proofs.C18Ext

namespace C18P
open Model Model.Codec

/-- a grouping of the notes `ns` the tempo curves can work with: at least one group, no empty group, every member a
    note of the table, the mean score onsets of the groups strictly increasing (the order the caller lists them in) -/
structure GoodGroups (ns : List MNote) (gs : List (Grp MNote)) : Prop where
  ne : gs ≠ []
  grp_ne : ∀ g ∈ gs, g ≠ []
  mem : ∀ g ∈ gs, ∀ p ∈ g, p.2 ∈ ns
  inc : (groupMeans (·.so) gs).Pairwise (· < ·)

/-- the built-in grouping is good -/
theorem goodGroups_enc (ns : List MNote) (hne : ns ≠ []) : GoodGroups ns (encGroups ns) :=
  ⟨groupsBy_ne_nil_of_ne_nil _ ns hne, groupsBy_ne_nil (fun (n : MNote) => encKey n.so) ns,
   fun g hg p hp => mem_encGroups ns g hg p hp, groupMeans_so_strict ns⟩

theorem pickGroup_mem {α : Type} (ns : List α) (i : List Nat) (g : Grp α)
    (h : allSome (i.map fun k => (ns[k]?).map fun x => (k, x)) = some g) :
    ∀ p ∈ g, p.2 ∈ ns ∧ ns[p.1]? = some p.2 := by
  induction i generalizing g with
  | nil => simp [allSome] at h; subst h; simp
  | cons k ks ihk =>
    simp only [List.map_cons] at h
    cases hk : ns[k]? with
    | none => simp [allSome, hk] at h
    | some x =>
      cases hks : allSome (ks.map fun k => (ns[k]?).map fun x => (k, x)) with
      | none => simp [allSome, hk, hks] at h
      | some gk =>
        simp only [allSome, hk, hks, Option.map_some, Option.some.injEq] at h
        subst h
        intro p hp
        rcases List.mem_cons.mp hp with rfl | hp
        · exact ⟨List.mem_of_getElem? hk, hk⟩
        · exact ihk gk hks p hp

/-- `pickGroups` hands out notes of the table -/
theorem pickGroups_mem {α : Type} (ns : List α) (idx : List (List Nat)) (gs : List (Grp α))
    (h : pickGroups ns idx = some gs) : ∀ g ∈ gs, ∀ p ∈ g, p.2 ∈ ns ∧ ns[p.1]? = some p.2 := by
  induction idx generalizing gs with
  | nil =>
    simp [pickGroups, allSome] at h
    subst h; simp
  | cons i rest ih =>
    simp only [pickGroups, List.map_cons] at h
    cases hi : allSome (i.map fun k => (ns[k]?).map fun x => (k, x)) with
    | none => simp [allSome, hi] at h
    | some g0 =>
      cases hr : allSome (rest.map fun g => allSome (g.map fun k => (ns[k]?).map fun x => (k, x))) with
      | none => simp [allSome, hi, hr] at h
      | some gr =>
        simp only [allSome, hi, hr, Option.map_some, Option.some.injEq] at h
        subst h
        intro g hg
        rcases List.mem_cons.mp hg with rfl | hg
        · exact pickGroup_mem ns i g hi
        · exact ih gr hr g hg

theorem groupMeans_lt_of (ns : List MNote) (gs : List (Grp MNote)) (hne : ∀ g ∈ gs, g ≠ [])
    (hmem : ∀ g ∈ gs, ∀ p ∈ g, p.2 ∈ ns) (f : MNote → Rat) (t : Rat) (h : ∀ x ∈ ns, f x < t) :
    ∀ m ∈ groupMeans f gs, m < t := by
  intro m hm
  unfold groupMeans at hm
  obtain ⟨g, hg, rfl⟩ := List.mem_map.mp hm
  apply mean_lt _ _ (by simpa using hne g hg)
  intro x hx
  obtain ⟨a, ha, rfl⟩ := List.mem_map.mp hx
  exact h _ (hmem g hg a ha)

/-- `tempoSeqs_spec` for any good grouping -/
theorem tempoSeqs_spec_groups (ns : List MNote) (gs : List (Grp MNote)) (hg : GoodGroups ns gs) (hne : ns ≠ [])
    (hsd : ∀ x ∈ ns, 0 ≤ x.sd) (hpd : ∀ x ∈ ns, 0 ≤ x.pd) :
    ∃ xs ss mono, tempoSeqs ns gs = some (xs, ss, mono) ∧
      (∃ ls, xs = groupMeans (·.so) gs ++ [ls]) ∧
      xs.Pairwise (· < ·) ∧ mono.Pairwise (· < ·) ∧
      List.Forall₂ (fun x y => monoFun xs ss x = some y) xs mono := by
  obtain ⟨ls, hls⟩ := lastTime_some ns (·.so) (fun n => n.so + n.sd) hne
  obtain ⟨lp, hlp⟩ := lastTime_some ns (·.po) (fun n => n.po + n.pd) hne
  have hgs0 : gs ≠ [] := hg.ne
  have hso : ∀ x ∈ ns, x.so < ls :=
    lastTime_gt ns (·.so) (fun n => n.so + n.sd) (fun x hx => by have := hsd x hx; linarith) ls hls
  have hpo : ∀ x ∈ ns, x.po < lp :=
    lastTime_gt ns (·.po) (fun n => n.po + n.pd) (fun x hx => by have := hpd x hx; linarith) lp hlp
  obtain ⟨us, hus⟩ : ∃ us, groupMeans (·.so) gs = us := ⟨_, rfl⟩
  obtain ⟨pm, hpm⟩ : ∃ pm, groupMeans (·.po) gs = pm := ⟨_, rfl⟩
  have husl : us.length = gs.length := by rw [← hus]; simp [groupMeans]
  have hpml : pm.length = gs.length := by rw [← hpm]; simp [groupMeans]
  have hglen : 0 < gs.length := List.length_pos_iff.mpr hgs0
  have hxs : (us ++ [ls]).Pairwise (· < ·) := by
    rw [← hus]
    exact pairwise_append_last _ ls hg.inc (groupMeans_lt_of ns gs hg.grp_ne hg.mem (·.so) ls hso)
  have hzip : (us ++ [ls]).zip (pm ++ [lp]) = us.zip pm ++ [(ls, lp)] := by
    rw [List.zip_append (by omega)]; rfl
  have hzne : us.zip pm ≠ [] := by
    intro h0
    have := congrArg List.length h0
    simp only [List.length_zip, List.length_nil] at this
    omega
  have hzlt : ∀ a ∈ us.zip pm, a.2 < (ls, lp).2 := by
    intro a ha
    have := (List.of_mem_zip ha).2
    rw [← hpm] at this
    exact groupMeans_lt_of ns gs hg.grp_ne hg.mem (·.po) lp hpo _ this
  obtain ⟨ks, hks⟩ : ∃ ks, monoKnots ((us ++ [ls]).zip (pm ++ [lp])) = ks := ⟨_, rfl⟩
  have hkx : IncX ks := by rw [← hks]; exact monoKnots_incX _ (zip_incX _ _ hxs)
  have hky : IncY ks := by rw [← hks]; exact monoKnots_incY _
  have hk2 : 2 ≤ ks.length := by
    rw [← hks, hzip, monoKnots_append_last _ _ hzne hzlt, List.length_append]
    have := List.length_pos_iff.mpr (monoKnots_ne_nil _ hzne)
    simp only [List.length_cons, List.length_nil]
    omega
  obtain ⟨k0, k1, kt, hk⟩ := exists_two_of_length ks hk2
  have hfun : monoFun (us ++ [ls]) (pm ++ [lp]) = interpExt (k0 :: k1 :: kt) := by
    unfold monoFun
    rw [hks, sortKnots_of_incX ks hkx, hk]
  rw [hk] at hkx hky
  obtain ⟨mono, hm1, hm2, hm3⟩ := allSome_map_strictMono (interpExt (k0 :: k1 :: kt))
    (interpExt_strictMono kt k0 k1 hkx hky) (us ++ [ls]) hxs
  refine ⟨us ++ [ls], pm ++ [lp], mono, ?_, ⟨ls, by rw [hus]⟩, hxs, hm3, ?_⟩
  · unfold tempoSeqs monotonize
    simp only [hls, hlp, hus, hpm, hfun, hm1]
  · rw [hfun]; exact hm2

/-- the data `tempo_by_average` works with, for any good grouping -/
theorem tempoAverage_data_groups (ns : List MNote) (gs : List (Grp MNote)) (hg : GoodGroups ns gs) (hne : ns ≠ [])
    (hsd : ∀ x ∈ ns, 0 ≤ x.sd) (hpd : ∀ x ∈ ns, 0 ≤ x.pd) :
    ∃ xs ss mono us bp, tempoSeqs ns gs = some (xs, ss, mono) ∧ xs.dropLast = us ∧
      bp = List.zipWith (· / ·) (diffs mono) (diffs xs) ∧ us.Pairwise (· < ·) ∧ us.length = bp.length ∧
      bp.length = gs.length ∧ bp ≠ [] ∧ (∀ b ∈ bp, 0 < b) ∧ tempoAverage ns gs = some bp := by
  obtain ⟨xs, ss, mono, h1, ⟨ls, hxs⟩, h3, h4, h5⟩ := tempoSeqs_spec_groups ns gs hg hne hsd hpd
  have hgs0 : gs ≠ [] := hg.ne
  have hlen := h5.length_eq
  have hbl : (List.zipWith (· / ·) (diffs mono) (diffs xs)).length = (groupMeans (·.so) gs).length := by
    rw [List.length_zipWith, diffs_length, diffs_length, ← hlen, hxs]
    simp
  have hgl : (groupMeans (·.so) gs).length = gs.length := by simp [groupMeans]
  refine ⟨xs, ss, mono, groupMeans (·.so) gs, _, h1, by rw [hxs, List.dropLast_concat], rfl,
    hg.inc, hbl.symm, by rw [hbl, hgl], ?_, zipWith_div_pos _ _ (diffs_pos mono h4) (diffs_pos xs h3), ?_⟩
  · intro h0
    rw [h0] at hbl
    have := List.length_pos_iff.mpr hgs0
    simp [groupMeans] at hbl
    omega
  · unfold tempoAverage; rw [h1]

/-- `tempo_by_average(…, unique_onset_idxs)` on a good grouping: one positive beat period per group; without
    `input_onsets` the sampled curve is that list -/
theorem tempoAverageAt_none_groups (ns : List MNote) (gs : List (Grp MNote)) (hg : GoodGroups ns gs) (hne : ns ≠ [])
    (hsd : ∀ x ∈ ns, 0 ≤ x.sd) (hpd : ∀ x ∈ ns, 0 ≤ x.pd) :
    ∃ bp, tempoAverageAt ns gs none = some bp ∧ tempoAverage ns gs = some bp ∧ bp.length = gs.length ∧ ∀ b ∈ bp, 0 < b := by
  obtain ⟨xs, ss, mono, us, bp, h1, h2, h3, h4, h5, h5', h6, h7, h8⟩ := tempoAverage_data_groups ns gs hg hne hsd hpd
  refine ⟨bp, ?_, h8, h5', h7⟩
  unfold tempoAverageAt
  rw [h1]
  simp only [← h3, h2, Option.getD_none]
  obtain ⟨b0, hb0⟩ : ∃ b0, bp.head? = some b0 := by
    cases bp with
    | nil => exact absurd rfl h6
    | cons b t => exact ⟨b, rfl⟩
  obtain ⟨bl, hbl⟩ : ∃ bl, bp.getLast? = some bl := by
    rw [← Option.isSome_iff_exists]
    cases bp with
    | nil => exact absurd rfl h6
    | cons b t => simp
  rw [hb0, hbl]
  exact allSome_of_forall₂ _ _ _ (forall₂_zeroHold_knots us bp b0 bl h4 h5)

/-- sampled at ANY `input_onsets` -/
theorem tempoAverageAt_pos_groups (ns : List MNote) (gs : List (Grp MNote)) (hg : GoodGroups ns gs) (hne : ns ≠ [])
    (hsd : ∀ x ∈ ns, 0 ≤ x.sd) (hpd : ∀ x ∈ ns, 0 ≤ x.pd) (inputs : List Rat) :
    ∃ out, tempoAverageAt ns gs (some inputs) = some out ∧ out.length = inputs.length ∧ ∀ b ∈ out, 0 < b := by
  obtain ⟨xs, ss, mono, us, bp, h1, h2, h3, h4, h5, _, h6, h7, _⟩ := tempoAverage_data_groups ns gs hg hne hsd hpd
  unfold tempoAverageAt
  rw [h1]
  simp only [← h3, h2, Option.getD_some]
  obtain ⟨b0, hb0⟩ : ∃ b0, bp.head? = some b0 := by
    cases bp with
    | nil => exact absurd rfl h6
    | cons b t => exact ⟨b, rfl⟩
  obtain ⟨bl, hbl⟩ : ∃ bl, bp.getLast? = some bl := by
    rw [← Option.isSome_iff_exists]
    cases bp with
    | nil => exact absurd rfl h6
    | cons b t => simp
  rw [hb0, hbl]
  have hb0m : b0 ∈ bp := List.mem_of_mem_head? hb0
  have hblm : bl ∈ bp := List.mem_of_getLast? hbl
  have hzne : us.zip bp ≠ [] := by
    intro h0
    have := congrArg List.length h0
    simp only [List.length_zip, List.length_nil] at this
    have := List.length_pos_iff.mpr h6
    omega
  apply allSome_map_pos
  intro x
  obtain ⟨v, hv, hcase⟩ := zeroHold_range (us.zip bp) hzne b0 bl x
  refine ⟨v, hv, ?_⟩
  rcases hcase with rfl | rfl | hm
  · exact h7 _ hb0m
  · exact h7 _ hblm
  · obtain ⟨k, hk, rfl⟩ := List.mem_map.mp hm
    exact h7 _ (List.of_mem_zip hk).2

/-- the same for `tempo_by_derivative`, at any sampling points (`none`: the group means) -/
theorem tempoDerivativeAt_pos_groups (ns : List MNote) (gs : List (Grp MNote)) (hg : GoodGroups ns gs) (hne : ns ≠ [])
    (hsd : ∀ x ∈ ns, 0 ≤ x.sd) (hpd : ∀ x ∈ ns, 0 ≤ x.pd) (inputs : Option (List Rat)) :
    ∃ out, tempoDerivativeAt ns gs inputs = some out ∧
      out.length = (inputs.getD (groupMeans (·.so) gs)).length ∧ ∀ b ∈ out, 0 < b := by
  obtain ⟨xs, ss, mono, h1, ⟨ls, hxs⟩, h3, h4, h5⟩ := tempoSeqs_spec_groups ns gs hg hne hsd hpd
  have hgs0 : gs ≠ [] := hg.ne
  have hlen := h5.length_eq
  have hkx : IncX (xs.zip mono) := zip_incX _ _ h3
  have hky : IncY (xs.zip mono) := zip_incY _ _ h4
  have hk2 : 2 ≤ (xs.zip mono).length := by
    rw [List.length_zip, ← hlen, hxs]
    have := List.length_pos_iff.mpr hgs0
    simp [groupMeans]
    omega
  obtain ⟨k0, k1, kt, hk⟩ := exists_two_of_length _ hk2
  rw [hk] at hkx hky
  have hdl : xs.dropLast = groupMeans (·.so) gs := by rw [hxs, List.dropLast_concat]
  obtain ⟨bp, hb1, hb2, hb3⟩ := allSome_map_pos _
    (firstOrderDerivative_pos _ (interpExt_strictMono kt k0 k1 hkx hky)) (inputs.getD (groupMeans (·.so) gs))
  refine ⟨bp, ?_, hb2, hb3⟩
  unfold tempoDerivativeAt
  rw [h1]
  simp only
  rw [sortKnots_of_incX _ (zip_incX _ _ h3), hk, hdl]
  exact hb1

end C18P
