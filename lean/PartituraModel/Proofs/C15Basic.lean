/-
C15 helper lemmas, part 1: arithmetic of lcm / unique values / running offsets, and the characterisation of
the loop `mergeFrom` by the closed-form loop state `ctxG`.
-/
import PartituraModel.Model.Merge
import Mathlib.Tactic.Linarith
import Mathlib.Tactic.FieldSimp
import Mathlib.Tactic.Ring
import Mathlib.Algebra.Order.Field.Rat
import Mathlib.Data.List.Perm.Basic

namespace C15
open Model.Merge

-- ---------------------------------------------------------------- lcm

theorem dvd_lcmList {d : Nat} {l : List Nat} (h : d ∈ l) : d ∣ lcmList l := by
  induction l with
  | nil => cases h
  | cons x xs ih =>
    simp only [lcmList, List.foldr_cons]
    rcases List.mem_cons.mp h with rfl | h
    · exact Nat.dvd_lcm_left _ _
    · exact Nat.dvd_trans (ih h) (Nat.dvd_lcm_right _ _)

theorem lcmList_pos {l : List Nat} (h : ∀ d ∈ l, 0 < d) : 0 < lcmList l := by
  induction l with
  | nil => simp [lcmList]
  | cons x xs ih =>
    simp only [lcmList, List.foldr_cons]
    exact Nat.lcm_pos (h x (List.mem_cons_self)) (ih fun d hd => h d (List.mem_cons_of_mem _ hd))

/-- exact rescaling: `s * (L / d)` over `L` is `s` over `d` -/
theorem rescale_rat {s d L : Nat} (hd : 0 < d) (hL : 0 < L) (hdvd : d ∣ L) :
    ((s * (L / d) : Nat) : Rat) / (L : Rat) = (s : Rat) / (d : Rat) := by
  obtain ⟨k, rfl⟩ := hdvd
  have hk : 0 < k := by
    rcases Nat.eq_zero_or_pos k with h | h
    · subst h; simp at hL
    · exact h
  rw [Nat.mul_div_cancel_left _ hd]
  have hd' : (d : Rat) ≠ 0 := by exact_mod_cast (Nat.pos_iff_ne_zero.mp hd)
  have hk' : (k : Rat) ≠ 0 := by exact_mod_cast (Nat.pos_iff_ne_zero.mp hk)
  push_cast
  field_simp

-- ---------------------------------------------------------------- unique values, maxima

theorem mem_insertU {a x : Nat} {l : List Nat} : a ∈ insertU x l ↔ a = x ∨ a ∈ l := by
  induction l with
  | nil => simp [insertU]
  | cons y ys ih =>
    simp only [insertU]
    split
    · simp
    · split
      · rename_i h; subst h; simp
      · simp [ih]; tauto

theorem mem_uniq {a : Nat} {l : List Nat} : a ∈ uniq l ↔ a ∈ l := by
  induction l with
  | nil => simp [uniq]
  | cons y ys ih =>
    have : uniq (y :: ys) = insertU y (uniq ys) := rfl
    rw [this, mem_insertU, ih]; simp

theorem le_foldr_max {a : Nat} {l : List Nat} (h : a ∈ l) : a ≤ l.foldr max 0 := by
  induction l with
  | nil => cases h
  | cons y ys ih =>
    simp only [List.foldr_cons]
    rcases List.mem_cons.mp h with rfl | h
    · exact Nat.le_max_left _ _
    · exact Nat.le_trans (ih h) (Nat.le_max_right _ _)

theorem le_maxOr1 {a : Nat} {l : List Nat} (h : a ∈ l) : a ≤ maxOr1 l := by
  cases l with
  | nil => cases h
  | cons y ys => exact le_foldr_max h

-- ---------------------------------------------------------------- voices / staves in use

theorem voice_mem_uVoices {p : APart} {e : Elem} {v : Nat} (he : e ∈ allElems p) (hg : isGeneric e.cls = true)
    (hv : e.voice = some v) : v ∈ uVoices p := by
  rw [uVoices, mem_uniq, voicesOf, List.mem_filterMap]
  exact ⟨e, he, by simp [hg, hv]⟩

theorem staff_mem_uStaves {p : APart} {e : Elem} (he : e ∈ allElems p) (hs : withStaff e.cls = true) :
    e.staff.getD 1 ∈ uStaves p := by
  rw [uStaves, mem_uniq, stavesOf, List.mem_map]
  exact ⟨e, List.mem_filter.mpr ⟨he, by simpa using hs⟩, rfl⟩

theorem voice_le_maxVoice {p : APart} {e : Elem} {v : Nat} (he : e ∈ allElems p) (hg : isGeneric e.cls = true)
    (hv : e.voice = some v) : v ≤ maxVoice p := le_maxOr1 (voice_mem_uVoices he hg hv)

theorem staff_le_maxStaff {p : APart} {e : Elem} (he : e ∈ allElems p) (hs : withStaff e.cls = true) :
    e.staff.getD 1 ≤ maxStaff p := le_maxOr1 (staff_mem_uStaves he hs)

/-- 1-based position among the unique values: between 1 and their number -/
theorem rank_pos (u : List Nat) (x : Nat) : 1 ≤ rank u x := by simp [rank]

theorem rank_le {u : List Nat} {x : Nat} (h : x ∈ u) : rank u x ≤ u.length := by
  have := List.idxOf_lt_length_of_mem h
  simp only [rank]; omega

theorem rank_inj {u : List Nat} {x y : Nat} (hx : x ∈ u) (hy : y ∈ u) (h : rank u x = rank u y) : x = y := by
  have h' : u.idxOf x = u.idxOf y := by simp only [rank] at h; omega
  have hx' := List.idxOf_lt_length_of_mem hx
  have hy' := List.idxOf_lt_length_of_mem hy
  have e1 : u[u.idxOf x] = x := List.getElem_idxOf hx'
  have e2 : u[u.idxOf y] = y := List.getElem_idxOf hy'
  rw [← e1, ← e2]; simp [h']

-- ---------------------------------------------------------------- running sums

theorem sumBefore_zero (f : APart → Nat) (ps : List APart) : sumBefore f ps 0 = 0 := by simp [sumBefore]

theorem sumBefore_succ (f : APart → Nat) (p : APart) (ps : List APart) (i : Nat) :
    sumBefore f (p :: ps) (i + 1) = f p + sumBefore f ps i := by simp [sumBefore]

/-- the offset of a later part is at least the offset of an earlier part plus that part's own contribution -/
theorem sumBefore_mono (f : APart → Nat) {ps : List APart} {i j : Nat} {p : APart} (hij : i < j)
    (hp : ps[i]? = some p) : sumBefore f ps i + f p ≤ sumBefore f ps j := by
  induction ps generalizing i j with
  | nil => simp at hp
  | cons q qs ih =>
    cases j with
    | zero => omega
    | succ j =>
      cases i with
      | zero =>
        simp at hp; subst hp
        rw [sumBefore_zero, sumBefore_succ]; omega
      | succ i =>
        simp only [List.getElem?_cons_succ] at hp
        rw [sumBefore_succ, sumBefore_succ]
        have := ih (i := i) (j := j) (by omega) hp
        omega

-- ---------------------------------------------------------------- the loop in closed form

theorem ctxG_zero (L : Nat) (first : Bool) (vo so np : Nat) (p : APart) (ps : List APart) :
    ctxG L first vo so np (p :: ps) 0 p = ctxOf L first vo so np p := by
  simp [ctxG, sumBefore_zero]

theorem ctxG_succ (L : Nat) (first : Bool) (vo so np : Nat) (q p : APart) (ps : List APart) (i : Nat) :
    ctxG L first vo so np (q :: ps) (i + 1) p
      = ctxG L false (vo + maxVoice q) (so + maxStaff q) (np + nStaves q) ps i p := by
  simp [ctxG, sumBefore_succ, Nat.add_assoc]

theorem mem_mergeFrom {m : Mode} {L : Nat} {first : Bool} {vo so np : Nat} {ps : List APart} {e' : Elem} :
    e' ∈ mergeFrom m L first vo so np ps
      ↔ ∃ i p, ps[i]? = some p ∧ e' ∈ partOut m (ctxG L first vo so np ps i p) p := by
  induction ps generalizing first vo so np with
  | nil => simp [mergeFrom]
  | cons q qs ih =>
    simp only [mergeFrom, List.mem_append]
    constructor
    · rintro (h | h)
      · exact ⟨0, q, by simp, by rw [ctxG_zero]; exact h⟩
      · obtain ⟨i, p, hp, he⟩ := ih.mp h
        exact ⟨i + 1, p, by simpa using hp, by rw [ctxG_succ]; exact he⟩
    · rintro ⟨i, p, hp, he⟩
      cases i with
      | zero =>
        simp at hp; subst hp
        rw [ctxG_zero] at he; exact Or.inl he
      | succ i =>
        simp only [List.getElem?_cons_succ] at hp
        rw [ctxG_succ] at he
        exact Or.inr (ih.mpr ⟨i, p, hp, he⟩)

theorem mem_partOut {m : Mode} {c : Ctx} {p : APart} {e' : Elem} :
    e' ∈ partOut m c p ↔ ∃ e ∈ p.elems, keep m c.first e = true ∧ e' = xform m c e := by
  simp only [partOut, List.mem_map, List.mem_filter]
  constructor
  · rintro ⟨e, ⟨he, hk⟩, rfl⟩; exact ⟨e, he, hk, rfl⟩
  · rintro ⟨e, he, hk, rfl⟩; exact ⟨e, ⟨he, hk⟩, rfl⟩

@[simp] theorem ctxAt_first (L : Nat) (ps : List APart) (i : Nat) (p : APart) :
    (ctxAt L ps i p).first = (i == 0) := by simp [ctxAt, ctxG, ctxOf]
@[simp] theorem ctxAt_mult (L : Nat) (ps : List APart) (i : Nat) (p : APart) :
    (ctxAt L ps i p).mult = L / p.divs := by simp [ctxAt, ctxG, ctxOf]
@[simp] theorem ctxAt_vOff (L : Nat) (ps : List APart) (i : Nat) (p : APart) :
    (ctxAt L ps i p).vOff = sumBefore maxVoice ps i := by simp [ctxAt, ctxG, ctxOf]
@[simp] theorem ctxAt_sOff (L : Nat) (ps : List APart) (i : Nat) (p : APart) :
    (ctxAt L ps i p).sOff = sumBefore maxStaff ps i := by simp [ctxAt, ctxG, ctxOf]
@[simp] theorem ctxAt_nPrev (L : Nat) (ps : List APart) (i : Nat) (p : APart) :
    (ctxAt L ps i p).nPrev = sumBefore nStaves ps i := by simp [ctxAt, ctxG, ctxOf]
@[simp] theorem ctxAt_uV (L : Nat) (ps : List APart) (i : Nat) (p : APart) :
    (ctxAt L ps i p).uV = uVoices p := by simp [ctxAt, ctxG, ctxOf]
@[simp] theorem ctxAt_uS (L : Nat) (ps : List APart) (i : Nat) (p : APart) :
    (ctxAt L ps i p).uS = uStaves p := by simp [ctxAt, ctxG, ctxOf]

/-- membership in the raw merged list, in terms of the inputs -/
theorem mem_merged {m : Mode} {L : Nat} {ps : List APart} {e' : Elem} :
    e' ∈ mergeFrom m L true 0 0 0 ps
      ↔ ∃ i p e, ps[i]? = some p ∧ e ∈ p.elems ∧ keep m (i == 0) e = true ∧ e' = image m L ps i p e := by
  rw [mem_mergeFrom]
  constructor
  · rintro ⟨i, p, hp, he⟩
    obtain ⟨e, hmem, hk, rfl⟩ := mem_partOut.mp he
    refine ⟨i, p, e, hp, hmem, ?_, rfl⟩
    have : (ctxG L true 0 0 0 ps i p).first = (i == 0) := ctxAt_first L ps i p
    rw [this] at hk; exact hk
  · rintro ⟨i, p, e, hp, he, hk, rfl⟩
    refine ⟨i, p, hp, mem_partOut.mpr ⟨e, he, ?_, rfl⟩⟩
    have : (ctxG L true 0 0 0 ps i p).first = (i == 0) := ctxAt_first L ps i p
    rw [this]; exact hk

end C15
