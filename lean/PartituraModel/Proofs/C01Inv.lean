/-
C01 helper lemmas, part 2: the invariant without the link clause (`InvCore`), its transfer across
relinking, and preservation by `ensurePoint` (get_or_add_point), registration, deregistration and
`cleanupPoint`.
-/
import PartituraModel.Proofs.C01Points
import PartituraModel.Proofs.C01Objs

namespace TL

/-- all clauses of `Inv` except the links; `ex` is a time whose point may (temporarily) be empty -/
structure InvCore (ex : Option Int) (s : Part) : Prop where
  sorted : s.times.Pairwise (· < ·)
  nonneg : ∀ p ∈ s.points, 0 ≤ p.t
  regNodup : ∀ sd, ∀ p ∈ s.points, (p.reg sd).Nodup
  objsNodup : (s.objs.map (·.ref)).Nodup
  listed : ∀ sd, ∀ e ∈ s.objs, ∀ p ∈ s.points, (e.ref ∈ p.reg sd ↔ e.at sd = some p.t)
  refOn : ∀ sd, ∀ e ∈ s.objs, ∀ t, e.at sd = some t → t ∈ s.times
  listedKnown : ∀ sd, ∀ p ∈ s.points, ∀ o ∈ p.reg sd, o ∈ s.objs.map (·.ref)
  nonempty : ∀ p ∈ s.points, p.starting ≠ [] ∨ p.ending ≠ [] ∨ p.t ∈ s.requested ∨ some p.t = ex
  requestedOn : ∀ t ∈ s.requested, t ∈ s.times
  quarter : ∀ p ∈ s.points, qdAt s.qtab p.t = some p.quarter
  qsorted : (s.qtab.map (·.1)).Pairwise (· < ·)
  qhead : s.qtab.head?.map (·.1) = some 0

theorem inv_iff (s : Part) : Inv s ↔ InvCore none s ∧ LinksFrom none s.points := by
  constructor
  · intro h
    exact ⟨⟨h.sorted, h.nonneg, h.regNodup, h.objsNodup, h.listed, h.refOn, h.listedKnown,
      fun p hp => by rcases h.nonempty p hp with a | a | a <;> simp [a],
      h.requestedOn, h.quarter, h.qsorted, h.qhead⟩, h.links⟩
  · rintro ⟨h, hl⟩
    exact ⟨h.sorted, h.nonneg, hl, h.regNodup, h.objsNodup, h.listed, h.refOn, h.listedKnown,
      fun p hp => by rcases h.nonempty p hp with a | a | a | a <;> simp_all,
      h.requestedOn, h.quarter, h.qsorted, h.qhead⟩

theorem InvCore.weaken {s : Part} (h : InvCore none s) (ex : Option Int) : InvCore ex s :=
  { h with nonempty := fun p hp => by rcases h.nonempty p hp with a | a | a | a <;> simp_all }

/-- `InvCore` does not look at the links -/
theorem InvCore.congr {ex : Option Int} {s s' : Part} (h : InvCore ex s)
    (hp : s'.points.map Point.unlink = s.points.map Point.unlink)
    (hq : s'.qtab = s.qtab) (ho : s'.objs = s.objs) (hr : s'.requested = s.requested) : InvCore ex s' := by
  have ht : s'.times = s.times := times_of_unlink_eq hp
  have tr : ∀ p' ∈ s'.points, ∃ p ∈ s.points, p.unlink = p'.unlink := fun p' h' => mem_of_unlink_eq hp h'
  have tr' : ∀ p ∈ s.points, ∃ p' ∈ s'.points, p'.unlink = p.unlink := fun p h' => mem_of_unlink_eq hp.symm h'
  refine ⟨by rw [ht]; exact h.sorted, ?_, ?_, by rw [ho]; exact h.objsNodup, ?_, ?_, ?_, ?_, ?_, ?_,
    by rw [hq]; exact h.qsorted, by rw [hq]; exact h.qhead⟩
  · intro p' hp'
    obtain ⟨p, hp, he⟩ := tr p' hp'
    have := h.nonneg p hp
    have e : p.t = p'.t := (unlink_eq he).1
    omega
  · intro sd p' hp'
    obtain ⟨p, hp, he⟩ := tr p' hp'
    have := h.regNodup sd p hp
    have e : p.reg sd = p'.reg sd := (unlink_eq he).2.2.2.2 sd
    rwa [e] at this
  · intro sd e he p' hp'
    rw [ho] at he
    obtain ⟨p, hp, hu⟩ := tr p' hp'
    have := h.listed sd e he p hp
    have e1 : p.reg sd = p'.reg sd := (unlink_eq hu).2.2.2.2 sd
    have e2 : p.t = p'.t := (unlink_eq hu).1
    rwa [e1, e2] at this
  · intro sd e he t hat
    rw [ho] at he
    rw [ht]
    exact h.refOn sd e he t hat
  · intro sd p' hp' o hoo
    obtain ⟨p, hp, hu⟩ := tr p' hp'
    have e1 : p.reg sd = p'.reg sd := (unlink_eq hu).2.2.2.2 sd
    rw [ho]
    exact h.listedKnown sd p hp o (by rw [e1]; exact hoo)
  · intro p' hp'
    obtain ⟨p, hp, hu⟩ := tr p' hp'
    have e1 : p.starting = p'.starting := (unlink_eq hu).2.2.1
    have e2 : p.ending = p'.ending := (unlink_eq hu).2.2.2.1
    have e3 : p.t = p'.t := (unlink_eq hu).1
    have := h.nonempty p hp
    rwa [e1, e2, e3, ← hr] at this
  · intro t htr
    rw [hr] at htr
    rw [ht]
    exact h.requestedOn t htr
  · intro p' hp'
    obtain ⟨p, hp, hu⟩ := tr p' hp'
    have e3 : p.t = p'.t := (unlink_eq hu).1
    have e4 : p.quarter = p'.quarter := (unlink_eq hu).2.1
    have := h.quarter p hp
    rwa [e3, e4, ← hq] at this

-- ------------------------------------------------------------------ get_point

theorem getPoint_split (pre post : List Point) (t : Int) (h1 : ∀ p ∈ pre, p.t < t)
    (h2 : ∀ b ∈ post.head?, t ≤ b.t) :
    getPoint (pre ++ post) t = (post.head?).bind (fun b => if b.t = t then some b else none) := by
  unfold getPoint
  rw [searchsorted_points_app pre post t h1 h2, getElem?_app_len]
  cases post <;> simp

theorem sorted_post_gt {pre post : List Point} {b : Point} {t : Int}
    (hs : ((pre ++ b :: post).map (·.t)).Pairwise (· < ·)) (hb : t ≤ b.t) :
    ∀ p ∈ post, t < p.t := by
  intro p hp
  simp only [List.map_append, List.map_cons, List.pairwise_append, List.pairwise_cons] at hs
  have := hs.2.1.1 p.t (List.mem_map_of_mem hp)
  omega

theorem qdAt_isSome {tab : List (Int × Nat)} (h : tab.head?.map (·.1) = some 0) (t : Int) :
    ∃ q, qdAt tab t = some q := by
  cases tab with
  | nil => simp at h
  | cons e r => exact ⟨_, rfl⟩

/-- `get_or_add_point` (without the ghost): result of `ensurePoint` under the invariant -/
theorem ensurePoint_spec {s : Part} (h : InvCore none s) (hl : LinksFrom none s.points) {t : Int} (ht : 0 ≤ t) :
    ∃ s', ensurePoint s t = .ok s' ∧ InvCore (some t) s' ∧ LinksFrom none s'.points ∧ t ∈ s'.times
      ∧ s'.objs = s.objs ∧ s'.qtab = s.qtab ∧ s'.requested = s.requested
      ∧ (∀ x, x ∈ s'.times ↔ x ∈ s.times ∨ x = t)
      ∧ (∀ p' ∈ s'.points, p'.t ≠ t → ∃ p ∈ s.points, p.unlink = p'.unlink)
      ∧ (∀ p ∈ s.points, ∃ p' ∈ s'.points, p.unlink = p'.unlink) := by
  obtain ⟨pre, post, hsplit, h1, h2, -⟩ := searchsorted_split s.points t
  have hneg : ¬ t < 0 := by omega
  have hgp := getPoint_split pre post t h1 h2
  rw [← hsplit] at hgp
  unfold ensurePoint
  simp only [hneg, if_false]
  -- is there a point at t?
  by_cases hpres : ∃ b r, post = b :: r ∧ b.t = t
  · obtain ⟨b, r, rfl, hb⟩ := hpres
    simp only [List.head?_cons, Option.bind_some, hb, if_true] at hgp
    simp only [hgp]
    refine ⟨s, rfl, h.weaken _, hl, ?_, rfl, rfl, rfl, ?_, ?_, ?_⟩
    · simp [Part.times, hsplit, hb]
    · intro x
      constructor
      · exact fun hx => Or.inl hx
      · rintro (hx | rfl)
        · exact hx
        · simp [Part.times, hsplit, hb]
    · intro p' hp' _
      exact ⟨p', hp', rfl⟩
    · intro p hp
      exact ⟨p, hp, rfl⟩
  · have h2' : ∀ b ∈ post.head?, t < b.t := by
      intro b hb
      have := h2 b hb
      cases post with
      | nil => simp at hb
      | cons b' r =>
        simp at hb
        subst hb
        have : b'.t ≠ t := fun e => hpres ⟨b', r, rfl, e⟩
        omega
    have hnone : getPoint s.points t = none := by
      rw [hgp]
      cases post with
      | nil => simp
      | cons b r =>
        have := h2' b (by simp)
        simp
        omega
    obtain ⟨q, hq⟩ := qdAt_isSome h.qhead t
    have hadd := addPoint_absent pre post t q h1 h2'
    rw [← hsplit] at hadd
    simp only [hnone, hq]
    change ∃ s', (addPoint s.points (freshPoint t q) >>= fun pts => pure { s with points := pts }) = .ok s' ∧ _
    rw [hadd]
    refine ⟨{ s with points := insertLinked pre post t q }, rfl, ?_, ?_, ?_, rfl, rfl, rfl, ?_, ?_, ?_⟩
    · -- InvCore of the state with the unlinked insertion, then transfer
      have hallpost : ∀ p ∈ post, t < p.t := by
        cases post with
        | nil => simp
        | cons b r =>
          intro p hp
          rcases List.mem_cons.mp hp with rfl | hp
          · exact h2' p (by simp)
          · have := h.sorted
            rw [Part.times, hsplit] at this
            have hb := h2' b (by simp)
            have := sorted_post_gt this (Int.le_of_lt hb) p hp
            exact this
      have hnot : t ∉ s.times := by
        rw [Part.times, hsplit]
        simp only [List.map_append, List.mem_append, List.mem_map, not_or, not_exists, not_and]
        exact ⟨fun p hp e => by have := h1 p hp; omega, fun p hp e => by have := hallpost p hp; omega⟩
      have hmem : ∀ p, p ∈ pre ++ freshPoint t q :: post ↔ p ∈ s.points ∨ p = freshPoint t q := by
        intro p
        rw [hsplit]
        simp only [List.mem_append, List.mem_cons]
        grind
      let s0 : Part := { s with points := pre ++ freshPoint t q :: post }
      have h0 : InvCore (some t) s0 := by
        refine ⟨?_, ?_, ?_, h.objsNodup, ?_, ?_, ?_, ?_, ?_, ?_, h.qsorted, h.qhead⟩
        · have hs := h.sorted
          rw [Part.times, hsplit] at hs
          simp only [Part.times, s0, List.map_append, List.map_cons, List.pairwise_append,
            List.pairwise_cons] at hs ⊢
          refine ⟨hs.1, ⟨?_, hs.2.1⟩, ?_⟩
          · intro x hx
            obtain ⟨p, hp, rfl⟩ := List.mem_map.mp hx
            exact hallpost p hp
          · intro a ha b hb
            rcases List.mem_cons.mp hb with rfl | hb
            · obtain ⟨p, hp, rfl⟩ := List.mem_map.mp ha
              exact h1 p hp
            · exact hs.2.2 a ha b hb
        · intro p hp
          rcases (hmem p).mp hp with hp | rfl
          · exact h.nonneg p hp
          · exact ht
        · intro sd p hp
          rcases (hmem p).mp hp with hp | rfl
          · exact h.regNodup sd p hp
          · cases sd <;> simp [Point.reg, freshPoint]
        · intro sd e he p hp
          rcases (hmem p).mp hp with hp | rfl
          · exact h.listed sd e he p hp
          · have : e.at sd ≠ some t := fun hc => hnot (h.refOn sd e he t hc)
            cases sd <;> simpa [Point.reg, freshPoint] using this
        · intro sd e he x hx
          have := h.refOn sd e he x hx
          simp only [Part.times, s0, hsplit, List.map_append, List.map_cons, List.mem_append, List.mem_cons] at this ⊢
          grind
        · intro sd p hp o ho
          rcases (hmem p).mp hp with hp | rfl
          · exact h.listedKnown sd p hp o ho
          · cases sd <;> simp [Point.reg, freshPoint] at ho
        · intro p hp
          rcases (hmem p).mp hp with hp | rfl
          · rcases h.nonempty p hp with a | a | a | a
            · exact Or.inl a
            · exact Or.inr (Or.inl a)
            · exact Or.inr (Or.inr (Or.inl a))
            · simp at a
          · simp [freshPoint]
        · intro x hx
          have := h.requestedOn x hx
          simp only [Part.times, s0, hsplit, List.map_append, List.map_cons, List.mem_append, List.mem_cons] at this ⊢
          grind
        · intro p hp
          rcases (hmem p).mp hp with hp | rfl
          · exact h.quarter p hp
          · exact hq
      exact h0.congr (unlink_insertLinked pre post t q) rfl rfl rfl
    · apply links_insertLinked
      rw [← hsplit]
      exact hl
    · have := times_of_unlink_eq (unlink_insertLinked pre post t q)
      simp only [Part.times, this]
      simp [freshPoint]
    · intro x
      have := times_of_unlink_eq (unlink_insertLinked pre post t q)
      simp only [Part.times, this, hsplit]
      simp only [List.map_append, List.map_cons, List.mem_append, List.mem_cons, freshPoint]
      grind
    · intro p' hp' hne
      obtain ⟨p, hp, hu⟩ := mem_of_unlink_eq (unlink_insertLinked pre post t q) hp'
      have hp2 : p ∈ s.points ∨ p = freshPoint t q := by
        rw [hsplit]
        simp only [List.mem_append, List.mem_cons] at hp ⊢
        grind
      rcases hp2 with hp2 | rfl
      · exact ⟨p, hp2, hu⟩
      · exfalso
        apply hne
        have := (unlink_eq hu).1
        simpa [freshPoint] using this.symm
    · intro p hp
      have hp2 : p ∈ pre ++ freshPoint t q :: post := by
        rw [hsplit] at hp
        simp only [List.mem_append, List.mem_cons] at hp ⊢
        grind
      obtain ⟨p', hp', hu⟩ := mem_of_unlink_eq (unlink_insertLinked pre post t q).symm hp2
      exact ⟨p', hp', hu.symm⟩

-- ------------------------------------------------------------------ facts lifted to `getObj`

theorem point_unique {pts : List Point} (hs : (pts.map (·.t)).Pairwise (· < ·)) {p p' : Point}
    (hp : p ∈ pts) (hp' : p' ∈ pts) (ht : p.t = p'.t) : p = p' := by
  induction pts with
  | nil => cases hp
  | cons a r ih =>
    simp only [List.map_cons, List.pairwise_cons] at hs
    rcases List.mem_cons.mp hp with rfl | hp1 <;> rcases List.mem_cons.mp hp' with rfl | hp2
    · rfl
    · have := hs.1 p'.t (List.mem_map_of_mem hp2); omega
    · have := hs.1 p.t (List.mem_map_of_mem hp1); omega
    · exact ih hs.2 hp1 hp2

theorem InvCore.getObj_listed {ex : Option Int} {s : Part} (h : InvCore ex s) (sd : Side) (o : ObjRef)
    {p : Point} (hp : p ∈ s.points) : o ∈ p.reg sd ↔ (getObj s.objs o).at sd = some p.t := by
  rcases getObj_mem_or_blank s.objs o with ⟨hm, _⟩ | ⟨hb, hnm⟩
  · have := h.listed sd _ hm p hp
    simpa using this
  · rw [hb]
    constructor
    · intro ho
      exact absurd (h.listedKnown sd p hp o ho) hnm
    · intro hc
      cases sd <;> simp [blank, ObjSt.at] at hc

theorem InvCore.getObj_refOn {ex : Option Int} {s : Part} (h : InvCore ex s) (sd : Side) (o : ObjRef)
    {t : Int} (ht : (getObj s.objs o).at sd = some t) : t ∈ s.times := by
  rcases getObj_mem_or_blank s.objs o with ⟨hm, _⟩ | ⟨hb, hnm⟩
  · exact h.refOn sd _ hm t ht
  · rw [hb] at ht
    cases sd <;> simp [blank, ObjSt.at] at ht

-- ------------------------------------------------------------------ registration

/-- `tp.add_starting_object(o)` / `tp.add_ending_object(o)` on the point at `t` -/
def register (s : Part) (sd : Side) (t : Int) (o : ObjRef) : Part :=
  { s with
    points := modifyPoint s.points t (fun p => p.setReg sd (regAdd (p.reg sd) o)),
    objs := setObj s.objs o (fun e => e.setAt sd (some t)) }

theorem addSide_eq (s : Part) (sd : Side) (t : Int) (o : ObjRef) :
    addSide s sd t o = (ensurePoint s t).map (fun s1 => register s1 sd t o) := by
  unfold addSide register
  cases ensurePoint s t <;> rfl

theorem register_times (s : Part) (sd : Side) (t : Int) (o : ObjRef) : (register s sd t o).times = s.times :=
  times_modifyPoint (fun p => by simp)

theorem register_links (s : Part) (sd : Side) (t : Int) (o : ObjRef) :
    LinksFrom none (register s sd t o).points ↔ LinksFrom none s.points :=
  linksFrom_congr _ _ _ (lnk_modifyPoint (fun p => by simp))

theorem register_inv {s : Part} {sd : Side} {t : Int} {o : ObjRef} (h : InvCore (some t) s)
    (ht : t ∈ s.times) (hfree : (getObj s.objs o).at sd = none) : InvCore none (register s sd t o) := by
  have hrefs : ∀ e : ObjSt, (e.setAt sd (some t)).ref = e.ref := fun e => by simp
  have htimes := register_times s sd t o
  unfold register at htimes ⊢
  refine ⟨by rw [htimes]; exact h.sorted, ?_, ?_, nodup_refs_setObj h.objsNodup hrefs, ?_, ?_, ?_, ?_, ?_, ?_,
    h.qsorted, h.qhead⟩
  · intro p' hp'
    obtain ⟨p, hp, rfl⟩ := mem_modifyPoint.mp hp'
    have := h.nonneg p hp
    split <;> simpa using this
  · intro sd' p' hp'
    obtain ⟨p, hp, rfl⟩ := mem_modifyPoint.mp hp'
    split
    · rw [setReg_reg]
      split
      · rename_i hsd; subst hsd; exact nodup_regAdd o (h.regNodup _ p hp)
      · exact h.regNodup sd' p hp
    · exact h.regNodup sd' p hp
  · -- listed
    intro sd' e' he' p' hp'
    obtain ⟨p, hp, rfl⟩ := mem_modifyPoint.mp hp'
    have hpt : (if p.t = t then p.setReg sd (regAdd (p.reg sd) o) else p).t = p.t := by split <;> simp
    rw [hpt]
    rcases (mem_setObj (f := fun e => e.setAt sd (some t)) h.objsNodup).mp he' with ⟨he, hne⟩ | rfl
    · -- another object
      have hl := h.listed sd' e' he p hp
      by_cases hc : p.t = t ∧ sd' = sd
      · obtain ⟨hc1, rfl⟩ := hc
        simp only [hc1, if_true, setReg_reg_same, mem_regAdd, hne, or_false]
        rw [← hc1]; exact hl
      · have : (if p.t = t then p.setReg sd (regAdd (p.reg sd) o) else p).reg sd' = p.reg sd' := by
          split
          · rename_i h1
            exact setReg_reg_other p (fun e => hc ⟨h1, e⟩) _
          · rfl
        rw [this]; exact hl
    · -- the object being registered
      have hl := h.getObj_listed sd' o hp
      simp only [setAt_ref, getObj_ref]
      by_cases hsd : sd' = sd
      · subst hsd
        simp only [setAt_at_same, Option.some.injEq]
        by_cases hpt' : p.t = t
        · simp [hpt', mem_regAdd]
        · simp only [hpt', if_false]
          rw [hl, hfree]
          simp only [reduceCtorEq, false_iff]
          exact fun e => hpt' e.symm
      · rw [setAt_at_other _ hsd]
        have : (if p.t = t then p.setReg sd (regAdd (p.reg sd) o) else p).reg sd' = p.reg sd' := by
          split
          · exact setReg_reg_other p hsd _
          · rfl
        rw [this]; exact hl
  · -- refOn
    intro sd' e' he' x hx
    rw [htimes]
    rcases (mem_setObj (f := fun e => e.setAt sd (some t)) h.objsNodup).mp he' with ⟨he, _⟩ | rfl
    · exact h.refOn sd' e' he x hx
    · by_cases hsd : sd' = sd
      · subst hsd
        simp only [setAt_at_same, Option.some.injEq] at hx
        subst hx; exact ht
      · rw [setAt_at_other _ hsd] at hx
        exact h.getObj_refOn sd' o hx
  · -- listedKnown
    intro sd' p' hp' x hx
    obtain ⟨p, hp, rfl⟩ := mem_modifyPoint.mp hp'
    refine (mem_refs_setObj hrefs).mpr ?_
    split at hx
    · rw [setReg_reg] at hx
      split at hx
      · rename_i hsd; subst hsd
        rcases mem_regAdd.mp hx with hx | rfl
        · exact Or.inl (h.listedKnown _ p hp x hx)
        · exact Or.inr rfl
      · exact Or.inl (h.listedKnown sd' p hp x hx)
    · exact Or.inl (h.listedKnown sd' p hp x hx)
  · -- nonempty
    intro p' hp'
    obtain ⟨p, hp, rfl⟩ := mem_modifyPoint.mp hp'
    split
    · have hm : o ∈ (p.setReg sd (regAdd (p.reg sd) o)).reg sd := by simp [mem_regAdd]
      rcases reg_nonempty_of_mem hm with a | a
      · exact Or.inl a
      · exact Or.inr (Or.inl a)
    · rename_i hne
      rcases h.nonempty p hp with a | a | a | a
      · exact Or.inl a
      · exact Or.inr (Or.inl a)
      · exact Or.inr (Or.inr (Or.inl a))
      · simp only [Option.some.injEq] at a
        exact absurd a hne
  · intro x hx
    rw [htimes]; exact h.requestedOn x hx
  · intro p' hp'
    obtain ⟨p, hp, rfl⟩ := mem_modifyPoint.mp hp'
    have := h.quarter p hp
    split <;> simpa using this

-- ------------------------------------------------------------------ deregistration

/-- `tp.starting_objects[type(o)].remove(o); o.start = None` (before the clean-up of the point) -/
def unregister (s : Part) (sd : Side) (t : Int) (o : ObjRef) : Part :=
  { s with
    points := modifyPoint s.points t (fun p => p.setReg sd (regRemove (p.reg sd) o)),
    objs := setObj s.objs o (fun e => e.setAt sd none) }

theorem unregister_times (s : Part) (sd : Side) (t : Int) (o : ObjRef) : (unregister s sd t o).times = s.times :=
  times_modifyPoint (fun p => by simp)

theorem unregister_links (s : Part) (sd : Side) (t : Int) (o : ObjRef) :
    LinksFrom none (unregister s sd t o).points ↔ LinksFrom none s.points :=
  linksFrom_congr _ _ _ (lnk_modifyPoint (fun p => by simp))

theorem unregister_inv {s : Part} {sd : Side} {t : Int} {o : ObjRef} (h : InvCore none s)
    (hat : (getObj s.objs o).at sd = some t) : InvCore (some t) (unregister s sd t o) := by
  have hrefs : ∀ e : ObjSt, (e.setAt sd none).ref = e.ref := fun e => by simp
  have htimes := unregister_times s sd t o
  unfold unregister at htimes ⊢
  refine ⟨by rw [htimes]; exact h.sorted, ?_, ?_, nodup_refs_setObj h.objsNodup hrefs, ?_, ?_, ?_, ?_, ?_, ?_,
    h.qsorted, h.qhead⟩
  · intro p' hp'
    obtain ⟨p, hp, rfl⟩ := mem_modifyPoint.mp hp'
    have := h.nonneg p hp
    split <;> simpa using this
  · intro sd' p' hp'
    obtain ⟨p, hp, rfl⟩ := mem_modifyPoint.mp hp'
    split
    · rw [setReg_reg]
      split
      · rename_i hsd; subst hsd; exact nodup_regRemove o (h.regNodup _ p hp)
      · exact h.regNodup sd' p hp
    · exact h.regNodup sd' p hp
  · -- listed
    intro sd' e' he' p' hp'
    obtain ⟨p, hp, rfl⟩ := mem_modifyPoint.mp hp'
    have hpt : (if p.t = t then p.setReg sd (regRemove (p.reg sd) o) else p).t = p.t := by split <;> simp
    rw [hpt]
    rcases (mem_setObj (f := fun e => e.setAt sd none) h.objsNodup).mp he' with ⟨he, hne⟩ | rfl
    · have hl := h.listed sd' e' he p hp
      by_cases hc : p.t = t ∧ sd' = sd
      · obtain ⟨hc1, rfl⟩ := hc
        simp only [hc1, if_true, setReg_reg_same, mem_regRemove, hne, ne_eq, not_false_eq_true, and_true]
        rw [← hc1]; exact hl
      · have : (if p.t = t then p.setReg sd (regRemove (p.reg sd) o) else p).reg sd' = p.reg sd' := by
          split
          · rename_i h1
            exact setReg_reg_other p (fun e => hc ⟨h1, e⟩) _
          · rfl
        rw [this]; exact hl
    · have hl := h.getObj_listed sd' o hp
      simp only [setAt_ref, getObj_ref]
      by_cases hsd : sd' = sd
      · subst hsd
        simp only [setAt_at_same, reduceCtorEq, iff_false]
        by_cases hpt' : p.t = t
        · simp [hpt', mem_regRemove]
        · simp only [hpt', if_false]
          rw [hl, hat]
          simp only [Option.some.injEq]
          exact fun e => hpt' e.symm
      · rw [setAt_at_other _ hsd]
        have : (if p.t = t then p.setReg sd (regRemove (p.reg sd) o) else p).reg sd' = p.reg sd' := by
          split
          · exact setReg_reg_other p hsd _
          · rfl
        rw [this]; exact hl
  · intro sd' e' he' x hx
    rw [htimes]
    rcases (mem_setObj (f := fun e => e.setAt sd none) h.objsNodup).mp he' with ⟨he, _⟩ | rfl
    · exact h.refOn sd' e' he x hx
    · by_cases hsd : sd' = sd
      · subst hsd
        simp at hx
      · rw [setAt_at_other _ hsd] at hx
        exact h.getObj_refOn sd' o hx
  · intro sd' p' hp' x hx
    obtain ⟨p, hp, rfl⟩ := mem_modifyPoint.mp hp'
    refine (mem_refs_setObj hrefs).mpr ?_
    split at hx
    · rw [setReg_reg] at hx
      split at hx
      · rename_i hsd; subst hsd
        exact Or.inl (h.listedKnown _ p hp x (mem_regRemove.mp hx).1)
      · exact Or.inl (h.listedKnown sd' p hp x hx)
    · exact Or.inl (h.listedKnown sd' p hp x hx)
  · intro p' hp'
    obtain ⟨p, hp, rfl⟩ := mem_modifyPoint.mp hp'
    split
    · rename_i he
      right; right; right
      simp [he]
    · rcases h.nonempty p hp with a | a | a | a
      · exact Or.inl a
      · exact Or.inr (Or.inl a)
      · exact Or.inr (Or.inr (Or.inl a))
      · simp at a
  · intro x hx
    rw [htimes]; exact h.requestedOn x hx
  · intro p' hp'
    obtain ⟨p, hp, rfl⟩ := mem_modifyPoint.mp hp'
    have := h.quarter p hp
    split <;> simpa using this

-- ------------------------------------------------------------------ _cleanup_point

theorem findPoint_split (pre r : List Point) (b : Point) (t : Int) (h1 : ∀ p ∈ pre, p.t < t) (hb : b.t = t) :
    findPoint (pre ++ b :: r) t = some b := by
  unfold findPoint
  induction pre with
  | nil => simp [hb]
  | cons a pre ih =>
    have : a.t < t := h1 a (by simp)
    have hne : (a.t == t) = false := by simp; omega
    simp only [List.cons_append, List.find?_cons, hne]
    exact ih (fun p hp => h1 p (by simp [hp]))

/-- the point list split at an existing time -/
theorem split_at_time {pts : List Point} (hs : (pts.map (·.t)).Pairwise (· < ·)) {t : Int}
    (ht : t ∈ pts.map (·.t)) :
    ∃ pre b r, pts = pre ++ b :: r ∧ b.t = t ∧ (∀ p ∈ pre, p.t < t) ∧ (∀ p ∈ r, t < p.t) := by
  obtain ⟨pre, post, hsplit, h1, h2, -⟩ := searchsorted_split pts t
  obtain ⟨p, hp, hpt⟩ := List.mem_map.mp ht
  rw [hsplit] at hp
  rcases List.mem_append.mp hp with hp | hp
  · have := h1 p hp; omega
  · cases post with
    | nil => cases hp
    | cons b r =>
      have hb := h2 b (by simp)
      rw [hsplit] at hs
      have hgt := sorted_post_gt hs hb
      have hbt : b.t = t := by
        rcases List.mem_cons.mp hp with rfl | hp'
        · exact hpt
        · have := hgt p hp'; omega
      refine ⟨pre, b, r, hsplit, hbt, h1, ?_⟩
      intro p' hp'
      exact hgt p' hp'

theorem cleanupPoint_spec {s : Part} {t : Int} (h : InvCore (some t) s) (hl : LinksFrom none s.points)
    (ht : t ∈ s.times) :
    ∃ s', cleanupPoint s t = .ok s' ∧ InvCore none s' ∧ LinksFrom none s'.points ∧ s'.objs = s.objs
      ∧ s'.qtab = s.qtab := by
  obtain ⟨pre, b, r, hsplit, hbt, h1, h2⟩ := split_at_time h.sorted ht
  have hfind := findPoint_split pre r b t h1 hbt
  rw [← hsplit] at hfind
  unfold cleanupPoint
  simp only [hfind]
  have hbmem : b ∈ s.points := by rw [hsplit]; simp
  by_cases hemp : b.starting.length + b.ending.length = 0
  · -- the point is removed
    simp only [hemp, if_true]
    have hrm := removePoint_present pre r b t h1 hbt
    rw [← hsplit] at hrm
    rw [hrm]
    refine ⟨{ s with points := eraseLinked pre r, requested := s.requested.filter (· ≠ t) }, rfl, ?_, ?_, rfl, rfl⟩
    · let s0 : Part := { s with points := pre ++ r, requested := s.requested.filter (· ≠ t) }
      have hsub : ∀ p ∈ pre ++ r, p ∈ s.points ∧ p.t ≠ t := by
        intro p hp
        rw [hsplit]
        rcases List.mem_append.mp hp with hp | hp
        · exact ⟨by simp [hp], by have := h1 p hp; omega⟩
        · exact ⟨by simp [hp], by have := h2 p hp; omega⟩
      have htimes0 : ∀ x, x ∈ s0.times ↔ x ∈ s.times ∧ x ≠ t := by
        intro x
        simp only [Part.times, s0, hsplit, List.map_append, List.map_cons, List.mem_append, List.mem_cons,
          List.mem_map]
        constructor
        · rintro (⟨p, hp, rfl⟩ | ⟨p, hp, rfl⟩)
          · exact ⟨Or.inl ⟨p, hp, rfl⟩, by have := h1 p hp; omega⟩
          · exact ⟨Or.inr (Or.inr ⟨p, hp, rfl⟩), by have := h2 p hp; omega⟩
        · rintro ⟨(⟨p, hp, rfl⟩ | rfl | ⟨p, hp, rfl⟩), hne⟩
          · exact Or.inl ⟨p, hp, rfl⟩
          · exact absurd hbt hne
          · exact Or.inr ⟨p, hp, rfl⟩
      have h0 : InvCore none s0 := by
        refine ⟨?_, ?_, ?_, h.objsNodup, ?_, ?_, ?_, ?_, ?_, ?_, h.qsorted, h.qhead⟩
        · have hs := h.sorted
          rw [Part.times, hsplit] at hs
          simp only [Part.times, s0, List.map_append, List.map_cons, List.pairwise_append,
            List.pairwise_cons] at hs ⊢
          exact ⟨hs.1, hs.2.1.2, fun a ha c hc => hs.2.2 a ha c (by simp [hc])⟩
        · intro p hp; exact h.nonneg p (hsub p hp).1
        · intro sd p hp; exact h.regNodup sd p (hsub p hp).1
        · intro sd e he p hp; exact h.listed sd e he p (hsub p hp).1
        · intro sd e he x hx
          rw [htimes0]
          refine ⟨h.refOn sd e he x hx, ?_⟩
          rintro rfl
          have := (h.listed sd e he b hbmem).mpr (by rw [hbt]; exact hx)
          rw [reg_eq_nil_of_empty hemp sd] at this
          cases this
        · intro sd p hp o ho; exact h.listedKnown sd p (hsub p hp).1 o ho
        · intro p hp
          obtain ⟨hp1, hp2⟩ := hsub p hp
          rcases h.nonempty p hp1 with a | a | a | a
          · exact Or.inl a
          · exact Or.inr (Or.inl a)
          · refine Or.inr (Or.inr (Or.inl ?_))
            simp only [s0, List.mem_filter]
            exact ⟨a, by simpa using hp2⟩
          · simp only [Option.some.injEq] at a
            exact absurd a hp2
        · intro x hx
          simp only [s0, List.mem_filter, ne_eq, decide_not, Bool.not_eq_eq_eq_not, Bool.not_true,
            decide_eq_false_iff_not] at hx
          rw [htimes0]
          exact ⟨h.requestedOn x hx.1, hx.2⟩
        · intro p hp; exact h.quarter p (hsub p hp).1
      exact h0.congr (unlink_eraseLinked pre r) rfl rfl rfl
    · apply links_eraseLinked pre r b
      rw [← hsplit]; exact hl
  · -- the point stays
    simp only [hemp, if_false]
    refine ⟨s, rfl, ?_, hl, rfl, rfl⟩
    refine { h with nonempty := ?_ }
    intro p hp
    rcases h.nonempty p hp with a | a | a | a
    · exact Or.inl a
    · exact Or.inr (Or.inl a)
    · exact Or.inr (Or.inr (Or.inl a))
    · simp only [Option.some.injEq] at a
      have : p = b := point_unique h.sorted hp hbmem (by rw [a, hbt])
      subst this
      by_cases hs1 : p.starting = []
      · right; left
        intro hs2
        apply hemp
        simp [hs1, hs2]
      · exact Or.inl hs1

/-- `cleanupPoint` neither reads nor writes the object records -/
theorem cleanupPoint_objs (s : Part) (t : Int) (objs : List ObjSt) :
    cleanupPoint { s with objs := objs } t = (cleanupPoint s t).map (fun s2 => { s2 with objs := objs }) := by
  unfold cleanupPoint
  simp only
  cases findPoint s.points t with
  | none => rfl
  | some p =>
    simp only
    split
    · cases removePoint s.points t <;> rfl
    · rfl

end TL
