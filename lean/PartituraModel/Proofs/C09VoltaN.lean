/-
C09 helper lemmas, part 8: one repeated section whose k brackets carry ANY assignment of the numbers
1..N (one or several numbers per bracket, consecutive or interleaved like "1,3" / "2,4"): the enumeration
on the segment table of that shape, for every k and N.
-/
import PartituraModel.Proofs.C09Volta

namespace C09
open Model.Unfold

/-! ### consuming a destination list in order -/

theorem positions_append (d : Dest) : ∀ (l1 l2 : List Dest) (s : Nat),
    positions d (l1 ++ l2) s = positions d l1 s ++ positions d l2 (s + l1.length) := by
  intro l1
  induction l1 with
  | nil => intro l2 s; simp [positions]
  | cons x xs ih =>
    intro l2 s
    simp only [List.cons_append, positions, List.length_cons]
    have e : s + 1 + xs.length = s + (xs.length + 1) := by omega
    split
    · rw [ih, e]; rfl
    · rw [ih, e]

theorem positions_length (d : Dest) : ∀ (l : List Dest) (s : Nat), (positions d l s).length = l.count d := by
  intro l
  induction l with
  | nil => intro s; rfl
  | cons x xs ih =>
    intro s
    simp only [positions, List.count_cons]
    by_cases h : x = d
    · simp [h, ih]
    · have : ¬ ((x == d) = true) := by simpa using h
      simp [h, ih]

/-- after the first `n ≥ 1` destinations have been used in order, the last used one sits at index `n - 1`
(also when the same destination occurs several times in the list) -/
theorem lastIndex_prefix (ds : List Dest) (n : Nat) (h2 : n + 1 ≤ ds.length) :
    lastIndex ds (ds.take (n + 1)) = some (some n) := by
  have hn : n < ds.length := by omega
  obtain ⟨d, hd⟩ : ∃ d, ds[n] = d := ⟨_, rfl⟩
  have htake : ds.take (n + 1) = ds.take n ++ [d] := by
    rw [List.take_add_one, List.getElem?_eq_getElem hn, hd]; rfl
  have hsplit : ds = ds.take n ++ d :: ds.drop (n + 1) := by
    conv => lhs; rw [← List.take_append_drop n ds, List.drop_eq_getElem_cons hn, hd]
  unfold lastIndex
  rw [htake]
  simp only [List.getLast?_append, List.getLast?_singleton, Option.some_or]
  have hcnt : (ds.take n ++ [d]).count d = (ds.take n).count d + 1 := by
    rw [List.count_append, List.count_singleton_self]
  have hpos : positions d ds 0 =
      positions d (ds.take n) 0 ++ (n :: positions d (ds.drop (n + 1)) (n + 1)) := by
    have e : positions d ds 0 = positions d (ds.take n ++ d :: ds.drop (n + 1)) 0 :=
      congrArg (fun l => positions d l 0) hsplit
    rw [e, positions_append]
    have hl : (ds.take n).length = n := by simp; omega
    simp only [positions, if_true, hl, Nat.zero_add]
  rw [hcnt, hpos]
  have hl1 : (positions d (ds.take n) 0).length = (ds.take n).count d := positions_length _ _ _
  simp only [Nat.add_sub_cancel, List.length_append, List.length_cons, hl1]
  have hmod : (ds.take n).count d % ((ds.take n).count d + ((positions d (ds.drop (n + 1)) (n + 1)).length + 1))
      = (ds.take n).count d := Nat.mod_eq_of_lt (by omega)
  rw [hmod, List.getElem?_append_right (by omega), hl1, Nat.sub_self]
  rfl

/-- all-repeats mode: when the first `n` destinations of the current segment have been used in order and
there is a further one, exactly that one is offered -/
theorem dests_prefix (st : PState) (s : Seg) (n : Nat) (hs : st.segs[st.cur]? = some s)
    (hu : st.used st.cur = s.to.take n) (hn : n < s.to.length)
    (hnr : st.noRepeats = false) (har : st.allRepeats = true) :
    st.dests = some [s.to[n]] := by
  unfold PState.dests
  rw [hs]
  simp only [hu, hnr, har, Bool.false_eq_true, if_false, Bool.or_true, if_true]
  cases n with
  | zero =>
    have : lastIndex s.to (s.to.take 0) = some none := by simp [lastIndex]
    rw [this]
    simp only
    rw [List.head?_eq_getElem?, List.getElem?_eq_getElem hn]
    rfl
  | succ n =>
    rw [lastIndex_prefix s.to n (by omega)]
    simp only [hn, if_true, List.getElem?_eq_getElem hn, Option.map_some]

/-! ### single steps of the enumeration -/

theorem unfold_step_seg (il : Bool) (f : Nat) (st st' : PState) (j : Nat)
    (hd : st.dests = some [.seg j]) (hj : st.jump il j = some st') :
    unfoldFrom il (f + 1) st = unfoldFrom il f st' := by
  rw [unfoldFrom, hd]
  simp only [stepList, hj]
  cases unfoldFrom il f st' <;> simp

theorem unfold_step_fin (il : Bool) (f : Nat) (st : PState) (hd : st.dests = some [.fin]) :
    unfoldFrom il (f + 1) st = some [st.path] := by
  rw [unfoldFrom, hd]
  simp [stepList]

/-! ### the segment table -/

/-- how often bracket `j` sends back to the section: once per number it carries, except for the last
number of all -/
def mBack (asg : List Nat) (j : Nat) : Nat := asg.dropLast.count j

/-- destinations of segment `i`: `asg[n]` is the bracket that carries number `n + 1` -/
def mTo (pre : Bool) (k : Nat) (post : Bool) (asg : List Nat) (i : Nat) : List Dest :=
  if i < vBody pre then [.seg (vBody pre)]
  else if i = vBody pre then asg.map (bracketDest (vBody pre))
  else if i ≤ vBody pre + k then
    List.replicate (mBack asg (i - vBody pre - 1)) (.seg (vBody pre)) ++
      (if asg.getLast? = some (i - vBody pre - 1) then [vNext pre k post] else [])
  else [.fin]

def mvGraph (pre : Bool) (k : Nat) (post : Bool) (asg : List Nat) (tys : Nat → SegType) (tms : Nat → Int × Int) :
    List Seg :=
  (List.range (vLen pre k post)).map fun i =>
    { start := (tms i).1, stp := (tms i).2, to := mTo pre k post asg i, await := [], ty := tys i }

def mvPasses (c : Nat) (asg : List Nat) : List Nat := asg.flatMap fun j => [c, c + 1 + j]

def mvMaxPath (pre : Bool) (k : Nat) (post : Bool) (asg : List Nat) : List Nat :=
  (if pre then [0] else []) ++ mvPasses (vBody pre) asg ++ (if post then [vBody pre + k + 1] else [])

def mvMinPath (pre : Bool) (k : Nat) (post : Bool) (last : Nat) : List Nat :=
  (if pre then [0] else []) ++ [vBody pre, vBody pre + 1 + last] ++ (if post then [vBody pre + k + 1] else [])

theorem mvGraph_get (pre : Bool) (k : Nat) (post : Bool) (asg : List Nat) (tys : Nat → SegType)
    (tms : Nat → Int × Int) (i : Nat) (h : i < vLen pre k post) :
    (mvGraph pre k post asg tys tms)[i]? =
      some { start := (tms i).1, stp := (tms i).2, to := mTo pre k post asg i, await := [], ty := tys i } := by
  unfold mvGraph
  rw [List.getElem?_map, List.getElem?_range h]
  rfl

theorem mTo_body (pre : Bool) (k : Nat) (post : Bool) (asg : List Nat) :
    mTo pre k post asg (vBody pre) = asg.map (bracketDest (vBody pre)) := by
  unfold mTo; simp

theorem mTo_bracket (pre : Bool) (k : Nat) (post : Bool) (asg : List Nat) (j : Nat) (hj : j < k) :
    mTo pre k post asg (vBody pre + 1 + j) =
      List.replicate (mBack asg j) (.seg (vBody pre)) ++ (if asg.getLast? = some j then [vNext pre k post] else []) := by
  unfold mTo
  have h1 : ¬ (vBody pre + 1 + j < vBody pre) := by omega
  have h2 : ¬ (vBody pre + 1 + j = vBody pre) := by omega
  have h3 : vBody pre + 1 + j ≤ vBody pre + k := by omega
  have h4 : vBody pre + 1 + j - vBody pre - 1 = j := by omega
  simp only [h1, h2, h3, h4, if_false, if_true]

theorem mTo_post (pre : Bool) (k : Nat) (post : Bool) (asg : List Nat) :
    mTo pre k post asg (vBody pre + k + 1) = [.fin] := by
  unfold mTo
  have h1 : ¬ (vBody pre + k + 1 < vBody pre) := by omega
  have h2 : ¬ (vBody pre + k + 1 = vBody pre) := by omega
  have h3 : ¬ (vBody pre + k + 1 ≤ vBody pre + k) := by omega
  simp only [h1, h2, h3, if_false]

/-! ### counting -/

theorem count_take_le_dropLast (asg : List Nat) (j n : Nat) (h : n + 1 ≤ asg.length) :
    (asg.take n).count j ≤ asg.dropLast.count j := by
  have : asg.take n = asg.dropLast.take n := by
    rw [List.dropLast_eq_take, List.take_take]
    congr 1; omega
  rw [this]
  exact List.Sublist.count_le j (List.take_sublist n _)

theorem take_succ_count (asg : List Nat) (n : Nat) (h : n < asg.length) (j : Nat) :
    (asg.take (n + 1)).count j = (asg.take n).count j + (if asg[n] = j then 1 else 0) := by
  rw [List.take_add_one, List.getElem?_eq_getElem h]
  simp only [Option.toList_some, List.count_append, List.count_cons, List.count_nil, Nat.zero_add]
  by_cases e : asg[n] = j <;> simp [e]

section mvolta
variable (pre : Bool) (k : Nat) (post : Bool) (asg : List Nat) (tys : Nat → SegType) (tms : Nat → Int × Int) (il : Bool)

/-- leaving the group: to the music after it, or to END -/
theorem mv_out (hty : ∀ i, tys i ≠ SegType.leapStart) (j : Nat) (hj : j < k)
    (f : Nat) (st : PState) (hsegs : st.segs = mvGraph pre k post asg tys tms)
    (hcur : st.cur = vBody pre + 1 + j) (hd : st.dests = some [vNext pre k post])
    (hfresh : post = true → st.used (vBody pre + k + 1) = []) :
    unfoldFrom il (f + 2) st = some [st.path ++ vTail pre k post] := by
  have hlt : vBody pre + 1 + j < vLen pre k post := by unfold vLen; omega
  have hsp := mvGraph_get pre k post asg tys tms (vBody pre + 1 + j) hlt
  rw [← hsegs, ← hcur] at hsp
  cases hpost : post with
  | false =>
    have hd' : st.dests = some [.fin] := by rw [hd]; simp [vNext, hpost]
    have := unfold_step_fin il (f + 1) st hd'
    rw [this]
    simp [vTail]
  | true =>
    have hlt2 : vBody pre + k + 1 < vLen pre k post := by unfold vLen; simp [hpost]
    have hsj := mvGraph_get pre k post asg tys tms (vBody pre + k + 1) hlt2
    rw [← hsegs] at hsj
    have hjmp := jump_plain il st (vBody pre + k + 1) _ _ hsj hsp (hty _)
    have hd' : st.dests = some [.seg (vBody pre + k + 1)] := by rw [hd]; simp [vNext, hpost]
    rw [unfold_step_seg il (f + 1) st _ _ hd' hjmp]
    have hs' : (afterJump st (vBody pre + k + 1)).segs[(afterJump st (vBody pre + k + 1)).cur]? = _ := hsj
    have hd2 : (afterJump st (vBody pre + k + 1)).dests = some [.fin] := by
      rw [dests_fresh _ _ hs' (by
        show (if vBody pre + k + 1 = st.cur then st.used (vBody pre + k + 1) ++ [Dest.seg (vBody pre + k + 1)]
              else st.used (vBody pre + k + 1)) = []
        rw [if_neg (by omega)]; exact hfresh hpost)]
      simp only [mTo_post]
      cases (afterJump st (vBody pre + k + 1)).noRepeats <;> cases (afterJump st (vBody pre + k + 1)).allRepeats <;> simp
    rw [unfold_step_fin il f _ hd2]
    simp [path_eq, afterJump, vTail, hpost]

/-- maximal unfolding from the section when the first `n` numbers have been played -/
theorem mv_max_from (hty : ∀ i, tys i ≠ SegType.leapStart) (hasg : ∀ x ∈ asg, x < k) :
    ∀ (m n : Nat), n + m = asg.length → 1 ≤ m → ∀ (fuel : Nat), 2 * m + 2 ≤ fuel → ∀ (st : PState),
      st.segs = mvGraph pre k post asg tys tms → st.cur = vBody pre →
      st.used (vBody pre) = (asg.map (bracketDest (vBody pre))).take n →
      (∀ j, j < k → st.used (vBody pre + 1 + j) = List.replicate ((asg.take n).count j) (.seg (vBody pre))) →
      (post = true → st.used (vBody pre + k + 1) = []) →
      st.noRepeats = false → st.allRepeats = true →
      unfoldFrom il fuel st = some [st.prev.reverse ++ mvPasses (vBody pre) (asg.drop n) ++ vTail pre k post] := by
  intro m
  induction m with
  | zero => intro n _ h; omega
  | succ m ih =>
    intro n hnm _ fuel hfuel st hsegs hcur hub hbr hpostfresh hnr har
    have hn : n < asg.length := by omega
    have hjk : asg[n] < k := hasg _ (List.getElem_mem hn)
    have hltb : vBody pre < vLen pre k post := by unfold vLen; omega
    have hsb := mvGraph_get pre k post asg tys tms (vBody pre) hltb
    rw [← hsegs, ← hcur] at hsb
    have hsb' := hsb
    rw [hcur] at hsb'
    -- at the section: bracket asg[n]
    have hd : st.dests = some [bracketDest (vBody pre) asg[n]] := by
      have := dests_prefix st _ n hsb (by rw [hcur]; simp only [mTo_body]; exact hub)
        (by simp only [hcur, mTo_body, List.length_map]; exact hn) hnr har
      rw [this]
      simp only [hcur, mTo_body, List.getElem_map]
    have hltj : vBody pre + 1 + asg[n] < vLen pre k post := by unfold vLen; omega
    have hsj := mvGraph_get pre k post asg tys tms (vBody pre + 1 + asg[n]) hltj
    rw [← hsegs] at hsj
    have hjmp := jump_plain il st (vBody pre + 1 + asg[n]) _ _ hsj hsb (hty _)
    obtain ⟨f, rfl⟩ : ∃ f, fuel = f + 1 := ⟨fuel - 1, by omega⟩
    rw [unfold_step_seg il f st _ _ hd hjmp]
    -- at the bracket
    let st1 := afterJump st (vBody pre + 1 + asg[n])
    have hs1 : st1.segs[st1.cur]? = _ := hsj
    have hu1 : st1.used st1.cur = List.replicate ((asg.take n).count asg[n]) (.seg (vBody pre)) := by
      show (if vBody pre + 1 + asg[n] = st.cur then st.used (vBody pre + 1 + asg[n]) ++ [Dest.seg (vBody pre + 1 + asg[n])]
            else st.used (vBody pre + 1 + asg[n])) = _
      rw [if_neg (by omega)]; exact hbr _ hjk
    have hle : (asg.take n).count asg[n] ≤ mBack asg asg[n] := count_take_le_dropLast asg _ n (by omega)
    have hto1 : (mTo pre k post asg (vBody pre + 1 + asg[n])).take ((asg.take n).count asg[n]) =
        List.replicate ((asg.take n).count asg[n]) (.seg (vBody pre)) := by
      rw [mTo_bracket pre k post asg _ hjk, List.take_append_of_le_length (by simp; exact hle), List.take_replicate]
      congr 1; omega
    have hpath1 : st1.path = st.prev.reverse ++ [vBody pre, vBody pre + 1 + asg[n]] := by
      simp [path_eq, st1, afterJump, hcur]
    have hdrop : asg.drop n = asg[n] :: asg.drop (n + 1) := List.drop_eq_getElem_cons hn
    by_cases hlast : n + 1 < asg.length
    · -- not the last number: back to the section
      have hcnt : (asg.take (n + 1)).count asg[n] = (asg.take n).count asg[n] + 1 := by
        rw [take_succ_count asg n hn]; simp
      have hlt : (asg.take n).count asg[n] < mBack asg asg[n] := by
        have := count_take_le_dropLast asg asg[n] (n + 1) (by omega)
        unfold mBack
        omega
      have hd1 : st1.dests = some [.seg (vBody pre)] := by
        have := dests_prefix st1 _ ((asg.take n).count asg[n]) hs1 (by rw [hu1]; exact hto1.symm)
          (by simp only [mTo_bracket pre k post asg _ hjk, List.length_append, List.length_replicate]; omega) hnr har
        rw [this]
        simp only [mTo_bracket pre k post asg _ hjk]
        rw [List.getElem_append_left (by simpa using hlt)]
        simp
      have hsb1 := mvGraph_get pre k post asg tys tms (vBody pre) hltb
      rw [← hsegs] at hsb1
      have hjmp2 := jump_plain il st1 (vBody pre) _ _ hsb1 hs1 (hty _)
      obtain ⟨f', rfl⟩ : ∃ f', f = f' + 1 := ⟨f - 1, by omega⟩
      rw [unfold_step_seg il f' st1 _ _ hd1 hjmp2]
      have hc1 : st1.cur = vBody pre + 1 + asg[n] := rfl
      have hrec := ih (n + 1) (by omega) (by omega) f' (by omega) (afterJump st1 (vBody pre)) hsegs rfl
        (by
          show (if vBody pre = st1.cur then st1.used (vBody pre) ++ [Dest.seg (vBody pre)] else st1.used (vBody pre)) = _
          rw [if_neg (by omega)]
          show (if vBody pre = st.cur then st.used (vBody pre) ++ [Dest.seg (vBody pre + 1 + asg[n])] else st.used (vBody pre)) = _
          rw [if_pos hcur.symm, hub, List.take_add_one, List.getElem?_map, List.getElem?_eq_getElem hn]
          rfl)
        (by
          intro j hj
          show (if vBody pre + 1 + j = st1.cur then st1.used (vBody pre + 1 + j) ++ [Dest.seg (vBody pre)]
                else st1.used (vBody pre + 1 + j)) = _
          rw [take_succ_count asg n hn]
          by_cases hje : asg[n] = j
          · subst hje
            have hu1' : st1.used (vBody pre + 1 + asg[n]) =
                List.replicate ((asg.take n).count asg[n]) (.seg (vBody pre)) := hu1
            rw [if_pos hc1.symm, hu1']
            simp [List.replicate_succ']
          · rw [if_neg (by omega)]
            show (if vBody pre + 1 + j = st.cur then _ else st.used (vBody pre + 1 + j)) = _
            rw [if_neg (by omega), hbr j hj]
            simp [hje])
        (by
          intro hp
          show (if vBody pre + k + 1 = st1.cur then _ else st1.used (vBody pre + k + 1)) = []
          rw [if_neg (by omega)]
          show (if vBody pre + k + 1 = st.cur then _ else st.used (vBody pre + k + 1)) = []
          rw [if_neg (by omega)]
          exact hpostfresh hp)
        hnr har
      rw [hrec]
      have : (afterJump st1 (vBody pre)).prev.reverse = st1.path := by simp [path_eq, afterJump]
      rw [this, hpath1, hdrop]
      simp only [mvPasses, List.flatMap_cons, List.append_assoc, List.cons_append, List.nil_append]
    · -- the last number: on to the rest
      have hnl : n + 1 = asg.length := by omega
      have hm0 : m = 0 := by omega
      subst hm0
      have hgl : asg.getLast? = some asg[n] := by
        rw [List.getLast?_eq_getElem?]
        have : asg.length - 1 = n := by omega
        rw [this, List.getElem?_eq_getElem hn]
      have hcnt : (asg.take n).count asg[n] = mBack asg asg[n] := by
        unfold mBack
        rw [List.dropLast_eq_take]
        have : asg.length - 1 = n := by omega
        rw [this]
      have hd1 : st1.dests = some [vNext pre k post] := by
        have := dests_prefix st1 _ ((asg.take n).count asg[n]) hs1 (by rw [hu1]; exact hto1.symm)
          (by simp only [mTo_bracket pre k post asg _ hjk, hgl, if_true, List.length_append, List.length_replicate,
                List.length_cons, List.length_nil]; omega) hnr har
        rw [this]
        simp only [mTo_bracket pre k post asg _ hjk, hgl, if_true]
        rw [List.getElem_append_right (by simp [hcnt])]
        simp [hcnt]
      obtain ⟨f', rfl⟩ : ∃ f', f = f' + 2 := ⟨f - 2, by omega⟩
      have := mv_out pre k post asg tys tms il hty asg[n] hjk f' st1 hsegs rfl hd1
        (by
          intro hp
          show (if vBody pre + k + 1 = st.cur then _ else st.used (vBody pre + k + 1)) = []
          rw [if_neg (by omega)]
          exact hpostfresh hp)
      rw [this, hpath1, hdrop]
      have hnil : asg.drop (n + 1) = [] := List.drop_eq_nil_of_le (by omega)
      simp only [mvPasses, hnil, List.flatMap_cons, List.flatMap_nil, List.append_assoc, List.cons_append,
        List.nil_append, List.append_nil]

/-- minimal unfolding from the section: once, with the bracket that carries the last number -/
theorem mv_min_from (hty : ∀ i, tys i ≠ SegType.leapStart) (last : Nat) (hlast : asg.getLast? = some last)
    (hlk : last < k)
    (f : Nat) (st : PState) (hsegs : st.segs = mvGraph pre k post asg tys tms) (hcur : st.cur = vBody pre)
    (hub : st.used (vBody pre) = []) (hfresh : st.used (vBody pre + 1 + last) = [])
    (hpostfresh : post = true → st.used (vBody pre + k + 1) = []) (hnr : st.noRepeats = true) :
    unfoldFrom il (f + 3) st = some [st.prev.reverse ++ [vBody pre, vBody pre + 1 + last] ++ vTail pre k post] := by
  have hltb : vBody pre < vLen pre k post := by unfold vLen; omega
  have hsb := mvGraph_get pre k post asg tys tms (vBody pre) hltb
  rw [← hsegs, ← hcur] at hsb
  have hd : st.dests = some [Dest.seg (vBody pre + 1 + last)] := by
    rw [dests_fresh st _ hsb (by rw [hcur]; exact hub)]
    simp only [hnr, if_true, hcur, mTo_body, List.getLast?_map, hlast, Option.map_some, bracketDest]
  have hltj : vBody pre + 1 + last < vLen pre k post := by unfold vLen; omega
  have hsj := mvGraph_get pre k post asg tys tms (vBody pre + 1 + last) hltj
  rw [← hsegs] at hsj
  have hjmp := jump_plain il st (vBody pre + 1 + last) _ _ hsj hsb (hty _)
  rw [unfold_step_seg il (f + 2) st _ _ hd hjmp]
  have hs1 : (afterJump st (vBody pre + 1 + last)).segs[(afterJump st (vBody pre + 1 + last)).cur]? = _ := hsj
  have hu1 : (afterJump st (vBody pre + 1 + last)).used (afterJump st (vBody pre + 1 + last)).cur = [] := by
    show (if vBody pre + 1 + last = st.cur then _ else st.used (vBody pre + 1 + last)) = []
    rw [if_neg (by omega)]; exact hfresh
  have hd1 : (afterJump st (vBody pre + 1 + last)).dests = some [vNext pre k post] := by
    rw [dests_fresh _ _ hs1 hu1]
    have e1 : (afterJump st (vBody pre + 1 + last)).noRepeats = true := hnr
    simp only [e1, if_true, mTo_bracket pre k post asg _ hlk, hlast]
    simp
  have := mv_out pre k post asg tys tms il hty last hlk f (afterJump st (vBody pre + 1 + last)) hsegs rfl hd1
    (by
      intro hp
      show (if vBody pre + k + 1 = st.cur then _ else st.used (vBody pre + k + 1)) = []
      rw [if_neg (by omega)]
      exact hpostfresh hp)
  rw [this]
  simp [path_eq, afterJump, hcur]

/-- from the very start: the lead-in (if any) and then the group -/
theorem mv_paths_aux (hty : ∀ i, tys i ≠ SegType.leapStart) (hasg : ∀ x ∈ asg, x < k)
    (last : Nat) (hlast : asg.getLast? = some last) (fuel : Nat) (hf : 2 * asg.length + 4 ≤ fuel) :
    getPaths (mvGraph pre k post asg tys tms) false true il fuel = some [mvMaxPath pre k post asg] ∧
    getPaths (mvGraph pre k post asg tys tms) true false il fuel = some [mvMinPath pre k post last] := by
  have hne : 1 ≤ asg.length := by
    cases asg with
    | nil => simp at hlast
    | cons _ _ => simp
  have hlk : last < k := hasg last (List.mem_of_getLast? hlast)
  cases hpre : pre with
  | false =>
    constructor
    · have := mv_max_from false k post asg tys tms il hty hasg asg.length 0 (by omega) hne fuel (by omega)
        (initState (mvGraph false k post asg tys tms) false true) rfl rfl (by simp [initState])
        (fun _ _ => by simp [initState]) (fun _ => rfl) rfl rfl
      simpa [getPaths, initState, mvMaxPath, vTail] using this
    · obtain ⟨f, rfl⟩ : ∃ f, fuel = f + 3 := ⟨fuel - 3, by omega⟩
      have := mv_min_from false k post asg tys tms il hty last hlast hlk f
        (initState (mvGraph false k post asg tys tms) true false) rfl rfl rfl rfl (fun _ => rfl) rfl
      simpa [getPaths, initState, mvMinPath, vTail] using this
  | true =>
    have hlt0 : 0 < vLen true k post := by unfold vLen; omega
    have hlt1 : 1 < vLen true k post := by unfold vLen vBody; simp; omega
    obtain ⟨f, rfl⟩ : ∃ f, fuel = f + 1 := ⟨fuel - 1, by omega⟩
    have lead : ∀ nr ar, unfoldFrom il (f + 1) (initState (mvGraph true k post asg tys tms) nr ar) =
        unfoldFrom il f (afterJump (initState (mvGraph true k post asg tys tms) nr ar) 1) := by
      intro nr ar
      have hs0 := mvGraph_get true k post asg tys tms 0 hlt0
      have hs1 := mvGraph_get true k post asg tys tms 1 hlt1
      have hto0 : mTo true k post asg 0 = [Dest.seg 1] := by unfold mTo vBody; simp
      have hd : (initState (mvGraph true k post asg tys tms) nr ar).dests = some [Dest.seg 1] := by
        rw [dests_fresh _ _ hs0 rfl]
        simp only [hto0]
        cases nr <;> cases ar <;> simp [initState]
      have hj := jump_plain il (initState (mvGraph true k post asg tys tms) nr ar) 1 _ _ hs1 hs0 (hty _)
      exact unfold_step_seg il f _ _ _ hd hj
    constructor
    · have := mv_max_from true k post asg tys tms il hty hasg asg.length 0 (by omega) hne f (by omega)
        (afterJump (initState (mvGraph true k post asg tys tms) false true) 1) rfl rfl
        (by simp [afterJump, initState, vBody])
        (fun j _ => by simp [afterJump, initState, vBody])
        (fun _ => by simp [afterJump, initState, vBody])
        rfl rfl
      rw [getPaths, lead, this]
      simp [afterJump, initState, mvMaxPath, vTail, vBody]
    · obtain ⟨f', rfl⟩ : ∃ f', f = f' + 3 := ⟨f - 3, by omega⟩
      have := mv_min_from true k post asg tys tms il hty last hlast hlk f'
        (afterJump (initState (mvGraph true k post asg tys tms) true false) 1) rfl rfl
        (by simp [afterJump, initState, vBody])
        (by simp [afterJump, initState, vBody])
        (fun _ => by simp [afterJump, initState, vBody])
        rfl
      rw [getPaths, lead, this]
      simp [afterJump, initState, mvMinPath, vTail, vBody]

end mvolta

/-- pass `n` (0-based) of the maximal path: the section, then the bracket that carries number `n + 1` -/
theorem mvPasses_get (c : Nat) : ∀ (asg : List Nat) (n j : Nat), asg[n]? = some j →
    (mvPasses c asg)[2 * n]? = some c ∧ (mvPasses c asg)[2 * n + 1]? = some (c + 1 + j) := by
  intro asg
  induction asg with
  | nil => intro n j h; simp at h
  | cons a as ih =>
    intro n j h
    cases n with
    | zero =>
      simp only [List.getElem?_cons_zero, Option.some.injEq] at h
      subst h
      simp [mvPasses]
    | succ n =>
      simp only [List.getElem?_cons_succ] at h
      obtain ⟨h1, h2⟩ := ih n j h
      have e1 : 2 * (n + 1) = (2 * n) + 1 + 1 := by omega
      rw [e1]
      simp only [mvPasses, List.flatMap_cons, List.cons_append, List.nil_append, List.getElem?_cons_succ] at h1 h2 ⊢
      exact ⟨h1, h2⟩

theorem count_range (n j : Nat) : (List.range n).count j = if j < n then 1 else 0 := by
  induction n with
  | zero => simp
  | succ n ih =>
    rw [List.range_succ, List.count_append, ih]
    by_cases h1 : j < n
    · have : ¬ n = j := by omega
      have h2 : j < n + 1 := by omega
      simp [h1, h2, List.count_cons, this]
    · by_cases h2 : n = j
      · subst h2; simp
      · have h3 : ¬ j < n + 1 := by omega
        simp [h1, h3, List.count_cons, h2]

/-- with one number per bracket the table is the one of `voltaGraph` -/
theorem mvGraph_range (pre : Bool) (k : Nat) (post : Bool) (tys : Nat → SegType) (tms : Nat → Int × Int) (hk : 1 ≤ k) :
    mvGraph pre k post (List.range k) tys tms = voltaGraph pre k post tys tms := by
  unfold mvGraph voltaGraph
  apply List.map_congr_left
  intro i hi
  have hto : mTo pre k post (List.range k) i = vTo pre k post i := by
    unfold mTo vTo
    by_cases h1 : i < vBody pre
    · simp [h1]
    · by_cases h2 : i = vBody pre
      · simp [h2]
      · by_cases h3 : i ≤ vBody pre + k
        · simp only [h1, h2, h3, if_false, if_true]
          have hgl : (List.range k).getLast? = some (k - 1) := by
            obtain ⟨k', rfl⟩ : ∃ k', k = k' + 1 := ⟨k - 1, by omega⟩
            simp [List.range_succ]
          have hdl : (List.range k).dropLast = List.range (k - 1) := by
            obtain ⟨k', rfl⟩ : ∃ k', k = k' + 1 := ⟨k - 1, by omega⟩
            simp [List.range_succ]
          by_cases h4 : i - vBody pre < k
          · have hc : (List.range (k - 1)).count (i - vBody pre - 1) = 1 := by
              rw [count_range, if_pos (by omega)]
            have hne : ¬ (k - 1 = i - vBody pre - 1) := by omega
            simp [mBack, hdl, hc, hgl, h4, hne]
          · have hc : (List.range (k - 1)).count (i - vBody pre - 1) = 0 := by
              rw [count_range, if_neg (by omega)]
            have he : k - 1 = i - vBody pre - 1 := by omega
            simp [mBack, hdl, hc, hgl, h4, he]
        · simp [h1, h2, h3]
  rw [hto]

end C09
