/-
C09 helper lemmas, part 4: one repeated section with k endings (one number each) — the enumeration on the
segment table of that shape, for every k.
-/
import PartituraModel.Proofs.C09Shape

namespace C09
open Model.Unfold


def vNext (pre : Bool) (k : Nat) (post : Bool) : Dest :=
  if post then .seg (vBody pre + k + 1) else .fin

def bracketDest (c : Nat) (t : Nat) : Dest := .seg (c + 1 + t)

/-- destinations of segment `i` in a volta group with k brackets -/
def vTo (pre : Bool) (k : Nat) (post : Bool) (i : Nat) : List Dest :=
  if i < vBody pre then [.seg (vBody pre)]
  else if i = vBody pre then (List.range k).map (bracketDest (vBody pre))
  else if i ≤ vBody pre + k then [if i - vBody pre < k then .seg (vBody pre) else vNext pre k post]
  else [.fin]


/-- the segment table `add_segments` builds for a repeat with endings 1..k: the section offers the brackets in
order, every bracket but the last jumps back, the last goes on -/
def voltaGraph (pre : Bool) (k : Nat) (post : Bool) (tys : Nat → SegType) (tms : Nat → Int × Int) : List Seg :=
  (List.range (vLen pre k post)).map fun i =>
    { start := (tms i).1, stp := (tms i).2, to := vTo pre k post i, await := [], ty := tys i }

def vPasses (c : Nat) : Nat → Nat → List Nat
  | _, 0 => []
  | j, m + 1 => c :: (c + 1 + j) :: vPasses c (j + 1) m

def voltaMaxPath (pre : Bool) (k : Nat) (post : Bool) : List Nat :=
  (if pre then [0] else []) ++ vPasses (vBody pre) 0 k ++ (if post then [vBody pre + k + 1] else [])

def voltaMinPath (pre : Bool) (k : Nat) (post : Bool) : List Nat :=
  (if pre then [0] else []) ++ [vBody pre, vBody pre + k] ++ (if post then [vBody pre + k + 1] else [])

theorem voltaGraph_get (pre : Bool) (k : Nat) (post : Bool) (tys : Nat → SegType) (tms : Nat → Int × Int)
    (i : Nat) (h : i < vLen pre k post) :
    (voltaGraph pre k post tys tms)[i]? =
      some { start := (tms i).1, stp := (tms i).2, to := vTo pre k post i, await := [], ty := tys i } := by
  unfold voltaGraph
  rw [List.getElem?_map, List.getElem?_range h]
  rfl

/-! positions / counts in the list of brackets -/

theorem positions_brackets (c i : Nat) :
    ∀ (n a s : Nat), positions (bracketDest c i) ((List.range' a n).map (bracketDest c)) s =
      if a ≤ i ∧ i < a + n then [s + (i - a)] else [] := by
  intro n
  induction n with
  | zero => intro a s; simp [positions]
  | succ n ih =>
    intro a s
    simp only [List.range'_succ, List.map_cons, positions]
    by_cases hai : a = i
    · subst hai
      simp only [if_true]
      rw [ih]
      have h1 : ¬ (a + 1 ≤ a ∧ a < a + 1 + n) := by omega
      have h2 : (a ≤ a ∧ a < a + (n + 1)) := by omega
      simp [h1, h2]
    · have hne : ¬ (bracketDest c a = bracketDest c i) := by
        intro h
        simp only [bracketDest, Dest.seg.injEq] at h
        omega
      simp only [hne, if_false]
      rw [ih]
      by_cases hc : a + 1 ≤ i ∧ i < a + 1 + n
      · have hc' : a ≤ i ∧ i < a + (n + 1) := by omega
        simp only [hc, hc', and_self, if_true, List.cons.injEq, and_true]
        omega
      · have hc' : ¬ (a ≤ i ∧ i < a + (n + 1)) := by omega
        simp [hc, hc']

theorem count_brackets (c i : Nat) :
    ∀ (n a : Nat), ((List.range' a n).map (bracketDest c)).count (bracketDest c i) =
      if a ≤ i ∧ i < a + n then 1 else 0 := by
  intro n
  induction n with
  | zero => intro a; simp
  | succ n ih =>
    intro a
    simp only [List.range'_succ, List.map_cons, List.count_cons, ih]
    by_cases hai : a = i
    · subst hai
      have h1 : ¬ (a + 1 ≤ a ∧ a < a + 1 + n) := by omega
      have h2 : (a ≤ a ∧ a < a + (n + 1)) := by omega
      simp [h1, h2]
    · have hne : ¬ ((bracketDest c a == bracketDest c i) = true) := by
        simp only [beq_iff_eq, bracketDest, Dest.seg.injEq]
        omega
      simp only [hne, if_false, Nat.add_zero]
      by_cases hc : a + 1 ≤ i ∧ i < a + 1 + n
      · have hc' : a ≤ i ∧ i < a + (n + 1) := by omega
        simp [hc, hc']
      · have hc' : ¬ (a ≤ i ∧ i < a + (n + 1)) := by omega
        simp [hc, hc']

/-- destinations offered at the section on pass `j` (0-based) in the maximal unfolding: bracket `j` -/
theorem body_dests (st : PState) (s : Seg) (c k j : Nat) (hs : st.segs[st.cur]? = some s)
    (hto : s.to = (List.range k).map (bracketDest c)) (hfs : s.forceSeq = false)
    (hu : st.used st.cur = (List.range j).map (bracketDest c)) (hj : j < k)
    (hnr : st.noRepeats = false) (har : st.allRepeats = true) :
    st.dests = some [bracketDest c j] := by
  unfold PState.dests
  rw [hs]
  simp only [hto, hu, hnr, har, hfs, Bool.false_eq_true, if_false, Bool.or_true, if_true]
  cases j with
  | zero =>
    have hk : List.range k = 0 :: List.range' 1 (k - 1) := by
      rw [List.range_eq_range']
      have : k = (k - 1) + 1 := by omega
      rw [this, List.range'_succ]
      simp
    simp [lastIndex, hk]
  | succ j =>
    have hlast : ((List.range (j + 1)).map (bracketDest c)).getLast? = some (bracketDest c j) := by
      rw [List.range_succ]; simp
    have hpos := positions_brackets c j k 0 0
    have hcnt := count_brackets c j (j + 1) 0
    rw [← List.range_eq_range'] at hpos hcnt
    have hc1 : (0 ≤ j ∧ j < 0 + k) := by omega
    have hc2 : (0 ≤ j ∧ j < 0 + (j + 1)) := by omega
    simp only [hc1, hc2, and_self, if_true] at hpos hcnt
    have hli : lastIndex ((List.range k).map (bracketDest c)) ((List.range (j + 1)).map (bracketDest c)) =
        some (some j) := by
      unfold lastIndex
      rw [hlast]
      simp only [hpos, hcnt]
      simp
    rw [hli]
    have hlen : ((List.range k).map (bracketDest c)).length = k := by simp
    simp only [hlen, hj, if_true]
    have : ((List.range k).map (bracketDest c))[j + 1]? = some (bracketDest c (j + 1)) := by
      rw [List.getElem?_map, List.getElem?_range hj]; rfl
    rw [this]; rfl

section volta
variable (pre : Bool) (k : Nat) (post : Bool) (tys : Nat → SegType) (tms : Nat → Int × Int) (il : Bool)

/-- the end of the path after the last bracket -/
def vTail : List Nat := if post then [vBody pre + k + 1] else []

/-- leaving the last bracket: to the music after the group, or to END -/
theorem last_bracket_out (hty : ∀ i, tys i ≠ SegType.leapStart) (hk : 1 ≤ k)
    (f : Nat) (st : PState) (hsegs : st.segs = voltaGraph pre k post tys tms)
    (hcur : st.cur = vBody pre + k) (hfresh : post = true → st.used (vBody pre + k + 1) = []) :
    stepList (unfoldFrom il (f + 1)) il st [vNext pre k post] =
      some [st.path ++ vTail pre k post] := by
  have hlt : vBody pre + k < vLen pre k post := by unfold vLen; omega
  have hsp := voltaGraph_get pre k post tys tms (vBody pre + k) hlt
  rw [← hsegs, ← hcur] at hsp
  cases hpost : post with
  | false =>
    simp [vNext, hpost, stepList, vTail]
  | true =>
    have hlt2 : vBody pre + k + 1 < vLen pre k post := by unfold vLen; simp [hpost]
    have hsj := voltaGraph_get pre k post tys tms (vBody pre + k + 1) hlt2
    rw [← hsegs] at hsj
    have hj := jump_plain il st (vBody pre + k + 1) _ _ hsj hsp (hty _)
    have hto : vTo pre k post (vBody pre + k + 1) = [.fin] := by
      unfold vTo
      have h1 : ¬ (vBody pre + k + 1 < vBody pre) := by omega
      have h2 : ¬ (vBody pre + k + 1 = vBody pre) := by omega
      have h3 : ¬ (vBody pre + k + 1 ≤ vBody pre + k) := by omega
      simp [h1, h2, h3]
    have hd : (afterJump st (vBody pre + k + 1)).dests = some [.fin] := by
      have hs' : (afterJump st (vBody pre + k + 1)).segs[(afterJump st (vBody pre + k + 1)).cur]? = _ := hsj
      rw [dests_fresh _ _ hs' (by
        show (if vBody pre + k + 1 = st.cur then st.used (vBody pre + k + 1) ++ [Dest.seg (vBody pre + k + 1)]
              else st.used (vBody pre + k + 1)) = []
        rw [if_neg (by omega)]; exact hfresh hpost)]
      simp only [hto]
      cases (afterJump st (vBody pre + k + 1)).noRepeats <;> cases (afterJump st (vBody pre + k + 1)).allRepeats <;> simp
    simp only [vNext, hpost, if_true, stepList, hj]
    rw [unfoldFrom, hd]
    simp [stepList, path_eq, afterJump, vTail, hpost]

/-- maximal unfolding from the section on pass `j`: the remaining passes in order, then the tail -/
theorem volta_max_from (hty : ∀ i, tys i ≠ SegType.leapStart) :
    ∀ (m j : Nat), j + m = k → 1 ≤ m → ∀ (fuel : Nat), 2 * m + 2 ≤ fuel → ∀ (st : PState),
      st.segs = voltaGraph pre k post tys tms → st.cur = vBody pre →
      st.used (vBody pre) = (List.range j).map (bracketDest (vBody pre)) →
      (∀ t, j ≤ t → t < k → st.used (vBody pre + 1 + t) = []) →
      (post = true → st.used (vBody pre + k + 1) = []) →
      st.noRepeats = false → st.allRepeats = true →
      unfoldFrom il fuel st = some [st.prev.reverse ++ vPasses (vBody pre) j m ++ vTail pre k post] := by
  intro m
  induction m with
  | zero => intro j _ h; omega
  | succ m ih =>
    intro j hjm _ fuel hfuel st hsegs hcur hub hfresh hpostfresh hnr har
    have hjk : j < k := by omega
    have hltb : vBody pre < vLen pre k post := by unfold vLen; omega
    have hsb := voltaGraph_get pre k post tys tms (vBody pre) hltb
    rw [← hsegs, ← hcur] at hsb
    have htob : vTo pre k post (vBody pre) = (List.range k).map (bracketDest (vBody pre)) := by
      unfold vTo; simp
    have htob' : vTo pre k post st.cur = (List.range k).map (bracketDest (vBody pre)) := by rw [hcur]; exact htob
    have hd := body_dests st _ (vBody pre) k j hsb htob' rfl (by rw [hcur]; exact hub) hjk hnr har
    -- bracket j
    have hltj : vBody pre + 1 + j < vLen pre k post := by unfold vLen; omega
    have hsj := voltaGraph_get pre k post tys tms (vBody pre + 1 + j) hltj
    rw [← hsegs] at hsj
    have hjmp := jump_plain il st (vBody pre + 1 + j) _ _ hsj hsb (hty _)
    obtain ⟨f, rfl⟩ : ∃ f, fuel = f + 1 := ⟨fuel - 1, by omega⟩
    obtain ⟨f', rfl⟩ : ∃ f', f = f' + 1 := ⟨f - 1, by omega⟩
    obtain ⟨f'', rfl⟩ : ∃ f'', f' = f'' + 1 := ⟨f' - 1, by omega⟩
    rw [unfoldFrom, hd]
    simp only [bracketDest, stepList, hjmp]
    have hs1 : (afterJump st (vBody pre + 1 + j)).segs[(afterJump st (vBody pre + 1 + j)).cur]? = _ := hsj
    have hu1 : (afterJump st (vBody pre + 1 + j)).used (afterJump st (vBody pre + 1 + j)).cur = [] := by
      show (if vBody pre + 1 + j = st.cur then st.used (vBody pre + 1 + j) ++ [Dest.seg (vBody pre + 1 + j)]
            else st.used (vBody pre + 1 + j)) = []
      rw [if_neg (by omega)]; exact hfresh j (Nat.le_refl _) hjk
    have htoj : vTo pre k post (vBody pre + 1 + j) =
        [if j + 1 < k then Dest.seg (vBody pre) else vNext pre k post] := by
      unfold vTo
      have h1 : ¬ (vBody pre + 1 + j < vBody pre) := by omega
      have h2 : ¬ (vBody pre + 1 + j = vBody pre) := by omega
      have h3 : vBody pre + 1 + j ≤ vBody pre + k := by omega
      have h4 : vBody pre + 1 + j - vBody pre = j + 1 := by omega
      simp [h1, h2, h3, h4]
    have hd1 : (afterJump st (vBody pre + 1 + j)).dests = some [if j + 1 < k then Dest.seg (vBody pre) else vNext pre k post] := by
      rw [dests_fresh (afterJump st (vBody pre + 1 + j)) _ hs1 hu1]
      simp only [htoj]
      have e1 : (afterJump st (vBody pre + 1 + j)).noRepeats = false := hnr
      have e2 : (afterJump st (vBody pre + 1 + j)).allRepeats = true := har
      simp [e1, e2]
    have hpath1 : (afterJump st (vBody pre + 1 + j)).path = st.prev.reverse ++ [vBody pre, vBody pre + 1 + j] := by
      simp [path_eq, afterJump, hcur]
    rw [unfoldFrom, hd1]
    by_cases hlastb : j + 1 < k
    · -- back to the section for the next pass
      simp only [hlastb, if_true]
      have hsb1 := voltaGraph_get pre k post tys tms (vBody pre) hltb
      rw [← hsegs] at hsb1
      have hjmp2 := jump_plain il (afterJump st (vBody pre + 1 + j)) (vBody pre) _ _ hsb1 hs1 (hty _)
      simp only [stepList, hjmp2]
      have hm : 1 ≤ m := by omega
      have hrec := ih (j + 1) (by omega) hm (f'' + 1) (by omega) (afterJump (afterJump st (vBody pre + 1 + j)) (vBody pre)) hsegs rfl
        (by
          show (if vBody pre = (afterJump st (vBody pre + 1 + j)).cur then (afterJump st (vBody pre + 1 + j)).used (vBody pre) ++ [Dest.seg (vBody pre)] else (afterJump st (vBody pre + 1 + j)).used (vBody pre)) = _
          have hc1 : (afterJump st (vBody pre + 1 + j)).cur = vBody pre + 1 + j := rfl
          rw [if_neg (by omega)]
          show (if vBody pre = st.cur then st.used (vBody pre) ++ [Dest.seg (vBody pre + 1 + j)] else st.used (vBody pre)) = _
          rw [if_pos hcur.symm, hub, List.range_succ, List.map_append]
          rfl)
        (by
          intro t ht1 ht2
          show (if vBody pre + 1 + t = (afterJump st (vBody pre + 1 + j)).cur then _ else (afterJump st (vBody pre + 1 + j)).used (vBody pre + 1 + t)) = []
          have hc1 : (afterJump st (vBody pre + 1 + j)).cur = vBody pre + 1 + j := rfl
          rw [if_neg (by omega)]
          show (if vBody pre + 1 + t = st.cur then _ else st.used (vBody pre + 1 + t)) = []
          rw [if_neg (by omega)]
          exact hfresh t (by omega) ht2)
        (by
          intro hp
          show (if vBody pre + k + 1 = (afterJump st (vBody pre + 1 + j)).cur then _ else (afterJump st (vBody pre + 1 + j)).used (vBody pre + k + 1)) = []
          have hc1 : (afterJump st (vBody pre + 1 + j)).cur = vBody pre + 1 + j := rfl
          rw [if_neg (by omega)]
          show (if vBody pre + k + 1 = st.cur then _ else st.used (vBody pre + k + 1)) = []
          rw [if_neg (by omega)]
          exact hpostfresh hp)
        hnr har
      rw [hrec]
      have : (afterJump (afterJump st (vBody pre + 1 + j)) (vBody pre)).prev.reverse = (afterJump st (vBody pre + 1 + j)).path := by
        simp [path_eq, afterJump]
      rw [this, hpath1]
      simp [vPasses]
    · -- the last bracket: on to the rest
      have hjk' : j + 1 = k := by omega
      have hm0 : m = 0 := by omega
      subst hm0
      simp only [hlastb, if_false]
      have hc1 : (afterJump st (vBody pre + 1 + j)).cur = vBody pre + k := by
        show vBody pre + 1 + j = _
        omega
      have := last_bracket_out pre k post tys tms il hty (by omega) f'' (afterJump st (vBody pre + 1 + j)) hsegs hc1
        (by
          intro hp
          show (if vBody pre + k + 1 = st.cur then _ else st.used (vBody pre + k + 1)) = []
          rw [if_neg (by omega)]
          exact hpostfresh hp)
      rw [this, hpath1]
      simp [vPasses]

/-- minimal unfolding from the section: once, with the last bracket -/
theorem volta_min_from (hty : ∀ i, tys i ≠ SegType.leapStart) (hk : 1 ≤ k)
    (f : Nat) (st : PState) (hsegs : st.segs = voltaGraph pre k post tys tms) (hcur : st.cur = vBody pre)
    (hub : st.used (vBody pre) = []) (hfresh : st.used (vBody pre + k) = [])
    (hpostfresh : post = true → st.used (vBody pre + k + 1) = []) (hnr : st.noRepeats = true) :
    unfoldFrom il (f + 3) st = some [st.prev.reverse ++ [vBody pre, vBody pre + k] ++ vTail pre k post] := by
  have hltb : vBody pre < vLen pre k post := by unfold vLen; omega
  have hsb := voltaGraph_get pre k post tys tms (vBody pre) hltb
  rw [← hsegs, ← hcur] at hsb
  have htob : vTo pre k post st.cur = (List.range k).map (bracketDest (vBody pre)) := by
    rw [hcur]; unfold vTo; simp
  obtain ⟨k', rfl⟩ : ∃ k', k = k' + 1 := ⟨k - 1, by omega⟩
  have hd : st.dests = some [Dest.seg (vBody pre + (k' + 1))] := by
    rw [dests_fresh st _ hsb (by rw [hcur]; exact hub)]
    simp only [hnr, if_true, htob, List.range_succ, List.map_append, List.map_cons, List.map_nil]
    simp [bracketDest]
    omega
  have hltj : vBody pre + (k' + 1) < vLen pre (k' + 1) post := by unfold vLen; omega
  have hsj := voltaGraph_get pre (k' + 1) post tys tms (vBody pre + (k' + 1)) hltj
  rw [← hsegs] at hsj
  have hjmp := jump_plain il st (vBody pre + (k' + 1)) _ _ hsj hsb (hty _)
  rw [unfoldFrom, hd]
  simp only [stepList, hjmp]
  have hs1 : (afterJump st (vBody pre + (k' + 1))).segs[(afterJump st (vBody pre + (k' + 1))).cur]? = _ := hsj
  have hu1 : (afterJump st (vBody pre + (k' + 1))).used (afterJump st (vBody pre + (k' + 1))).cur = [] := by
    show (if vBody pre + (k' + 1) = st.cur then _ else st.used (vBody pre + (k' + 1))) = []
    rw [if_neg (by omega)]; exact hfresh
  have htoj : vTo pre (k' + 1) post (vBody pre + (k' + 1)) = [vNext pre (k' + 1) post] := by
    unfold vTo
    have h1 : ¬ (vBody pre + (k' + 1) < vBody pre) := by omega
    have h2 : ¬ (vBody pre + (k' + 1) = vBody pre) := by omega
    have h3 : vBody pre + (k' + 1) ≤ vBody pre + (k' + 1) := Nat.le_refl _
    have h4 : ¬ (vBody pre + (k' + 1) - vBody pre < k' + 1) := by omega
    simp [h1, h2, h4]
  have hd1 : (afterJump st (vBody pre + (k' + 1))).dests = some [vNext pre (k' + 1) post] := by
    rw [dests_fresh _ _ hs1 hu1]
    simp only [htoj]
    have e1 : (afterJump st (vBody pre + (k' + 1))).noRepeats = true := hnr
    simp [e1]
  rw [unfoldFrom, hd1]
  have := last_bracket_out pre (k' + 1) post tys tms il hty (by omega) f (afterJump st (vBody pre + (k' + 1))) hsegs rfl
    (by
      intro hp
      show (if vBody pre + (k' + 1) + 1 = st.cur then _ else st.used (vBody pre + (k' + 1) + 1)) = []
      rw [if_neg (by omega)]
      exact hpostfresh hp)
  simp only [this]
  simp [path_eq, afterJump, hcur]

/-- from the very start: the lead-in (if any) and then the group -/
theorem volta_paths_aux (hty : ∀ i, tys i ≠ SegType.leapStart) (hk : 1 ≤ k) (fuel : Nat) (hf : 2 * k + 4 ≤ fuel) :
    getPaths (voltaGraph pre k post tys tms) false true il fuel = some [voltaMaxPath pre k post] ∧
    getPaths (voltaGraph pre k post tys tms) true false il fuel = some [voltaMinPath pre k post] := by
  cases hpre : pre with
  | false =>
    constructor
    · have := volta_max_from false k post tys tms il hty k 0 (by omega) hk fuel (by omega)
        (initState (voltaGraph false k post tys tms) false true) rfl rfl rfl (fun _ _ _ => rfl) (fun _ => rfl) rfl rfl
      simpa [getPaths, initState, voltaMaxPath, vTail] using this
    · obtain ⟨f, rfl⟩ : ∃ f, fuel = f + 3 := ⟨fuel - 3, by omega⟩
      have := volta_min_from false k post tys tms il hty hk f
        (initState (voltaGraph false k post tys tms) true false) rfl rfl rfl rfl (fun _ => rfl) rfl
      simpa [getPaths, initState, voltaMinPath, vTail] using this
  | true =>
    have hlt0 : 0 < vLen true k post := by unfold vLen; omega
    have hlt1 : 1 < vLen true k post := by unfold vLen vBody; simp; omega
    obtain ⟨f, rfl⟩ : ∃ f, fuel = f + 1 := ⟨fuel - 1, by omega⟩
    have lead : ∀ nr ar, unfoldFrom il (f + 1) (initState (voltaGraph true k post tys tms) nr ar) =
        unfoldFrom il f (afterJump (initState (voltaGraph true k post tys tms) nr ar) 1) := by
      intro nr ar
      have hs0 := voltaGraph_get true k post tys tms 0 hlt0
      have hs1 := voltaGraph_get true k post tys tms 1 hlt1
      have hto0 : vTo true k post 0 = [Dest.seg 1] := by unfold vTo vBody; simp
      have hd : (initState (voltaGraph true k post tys tms) nr ar).dests = some [Dest.seg 1] := by
        rw [dests_fresh _ _ hs0 rfl]
        simp only [hto0]
        cases nr <;> cases ar <;> simp [initState]
      have hj := jump_plain il (initState (voltaGraph true k post tys tms) nr ar) 1 _ _ hs1 hs0 (hty _)
      rw [unfoldFrom, hd]
      simp only [stepList, hj]
      cases unfoldFrom il f (afterJump (initState (voltaGraph true k post tys tms) nr ar) 1) <;> simp
    constructor
    · have := volta_max_from true k post tys tms il hty k 0 (by omega) hk f (by omega)
        (afterJump (initState (voltaGraph true k post tys tms) false true) 1) rfl rfl rfl
        (fun t _ _ => by simp [afterJump, initState, vBody])
        (fun _ => by simp [afterJump, initState, vBody])
        rfl rfl
      rw [getPaths, lead, this]
      simp [afterJump, initState, voltaMaxPath, vTail, vBody]
    · obtain ⟨f', rfl⟩ : ∃ f', f = f' + 3 := ⟨f - 3, by omega⟩
      have := volta_min_from true k post tys tms il hty hk f'
        (afterJump (initState (voltaGraph true k post tys tms) true false) 1) rfl rfl rfl
        (by simp [afterJump, initState, vBody])
        (fun _ => by simp [afterJump, initState, vBody])
        rfl
      rw [getPaths, lead, this]
      simp [afterJump, initState, voltaMinPath, vTail, vBody]

end volta

/-- pass `i` (0-based) of the maximal path: the section, then bracket `i` -/
theorem vPasses_get (c : Nat) : ∀ (m j i : Nat), i < m →
    (vPasses c j m)[2 * i]? = some c ∧ (vPasses c j m)[2 * i + 1]? = some (c + 1 + (j + i)) := by
  intro m
  induction m with
  | zero => intro j i h; omega
  | succ m ih =>
    intro j i h
    cases i with
    | zero => simp [vPasses]
    | succ i =>
      have e1 : 2 * (i + 1) = (2 * i) + 1 + 1 := by omega
      obtain ⟨h1, h2⟩ := ih (j + 1) i (by omega)
      rw [e1]
      simp only [vPasses, List.getElem?_cons_succ]
      refine ⟨h1, ?_⟩
      rw [h2]
      congr 1
      omega

end C09
