/-
C09 helper lemmas, part 7: the rank `update_note_ids_after_unfolding` assigns (position among the notes
with the same id ordered by onset) is the number of the visit of the note's segment.
-/
import PartituraModel.Proofs.C09Shape

namespace C09
open Model.Unfold

/-! ### generic list facts -/

theorem enum_filter_snd {α : Type} (R : α → Bool) (l : List α) (k : Nat) :
    ((enum k l).filter fun q => R q.2).length = (l.filter R).length := by
  induction l generalizing k with
  | nil => rfl
  | cons a as ih =>
    simp only [enum, List.filter_cons]
    cases R a <;> simp [ih]

theorem two_le_filter {α : Type} (R : α → Bool) : ∀ (l : List α) (a b : Nat) (x y : α),
    a < b → l[a]? = some x → l[b]? = some y → R x = true → R y = true → 2 ≤ (l.filter R).length := by
  intro l
  induction l with
  | nil => intro a b x y _ h; simp at h
  | cons z zs ih =>
    intro a b x y hab hx hy rx ry
    cases b with
    | zero => omega
    | succ b =>
      simp only [List.getElem?_cons_succ] at hy
      cases a with
      | zero =>
        simp only [List.getElem?_cons_zero, Option.some.injEq] at hx
        subst hx
        have hmem : y ∈ zs.filter R := List.mem_filter.mpr ⟨List.mem_of_getElem? hy, ry⟩
        have : 1 ≤ (zs.filter R).length := List.length_pos_of_mem hmem
        simp only [List.filter_cons, rx, if_true, List.length_cons]
        omega
      | succ a =>
        simp only [List.getElem?_cons_succ] at hx
        have := ih a b x y (by omega) hx hy rx ry
        simp only [List.filter_cons]
        split <;> simp <;> omega

theorem enum_take_filter {α : Type} (R : α → Bool) (l : List α) (k K : Nat) :
    ((enum k l).filter fun q => decide (q.1 < k + K) && R q.2).length = ((l.take K).filter R).length := by
  induction l generalizing k K with
  | nil => simp [enum]
  | cons a as ih =>
    cases K with
    | zero =>
      have : (enum k (a :: as)).filter (fun q => decide (q.1 < k + 0) && R q.2) = [] := by
        rw [List.filter_eq_nil_iff]
        intro q hq
        obtain ⟨i, x⟩ := q
        have := ((enum_mem (a :: as) k i x).mp hq).1
        have h : ¬ i < k := by omega
        simp [h]
      rw [this]; simp
    | succ K =>
      simp only [enum, List.filter_cons, List.take_succ_cons]
      have h1 : k < k + (K + 1) := by omega
      have e : ∀ q : Nat × α, (decide (q.1 < k + (K + 1)) && R q.2) = (decide (q.1 < (k + 1) + K) && R q.2) := by
        intro q
        have : (q.1 < k + (K + 1)) ↔ (q.1 < (k + 1) + K) := by omega
        simp [this]
      have e2 : (enum (k + 1) as).filter (fun q => decide (q.1 < k + (K + 1)) && R q.2) =
          (enum (k + 1) as).filter (fun q => decide (q.1 < (k + 1) + K) && R q.2) :=
        List.filter_congr (fun q _ => e q)
      rw [e2]
      simp only [h1, decide_true, Bool.true_and]
      cases R a <;> simp [ih]

/-! ### windows of different visits do not overlap -/

theorem offsets_mono : ∀ (vs : List Visit) (off : Int), OffsetsOK off vs → (∀ v ∈ vs, v.s < v.e) →
    ∀ (a b : Nat) (va vb : Visit), a < b → vs[a]? = some va → vs[b]? = some vb →
      va.off + (va.e - va.s) ≤ vb.off := by
  intro vs
  induction vs with
  | nil => intro off _ _ a b va vb _ h; simp at h
  | cons w ws ih =>
    intro off hok hpos a b va vb hab ha hb
    obtain ⟨h0, hrest⟩ := hok
    have hposr : ∀ v ∈ ws, v.s < v.e := fun v hv => hpos v (List.mem_cons_of_mem _ hv)
    cases b with
    | zero => omega
    | succ b =>
      simp only [List.getElem?_cons_succ] at hb
      cases a with
      | zero =>
        simp only [List.getElem?_cons_zero, Option.some.injEq] at ha
        subst ha
        obtain ⟨i1, _, _, _⟩ := offsets_bounds ws _ hrest hposr
        have := (i1 vb (List.mem_of_getElem? hb)).1
        omega
      | succ a =>
        simp only [List.getElem?_cons_succ] at ha
        exact ih _ hrest hposr a b va vb (by omega) ha hb

/-! ### counting the copies of one original -/

theorem flat_count_visit (objs : List Obj) (i : Nat) (o : Obj) (hi : objs[i]? = some o)
    (hd : o.kind.dropped = false) (hs : o.kind.isSig = false) (Rv : Nat → Bool) :
    ∀ (vs : List Visit) (k : Nat),
      (((enum k vs).flatMap fun nv =>
          ((enum 0 objs).filter (copyable nv.2)).map fun q => core (mkCopy q.1 nv.1 q.2 (nv.2.off - nv.2.s))).filter
        fun t => decide (t.1 = i) && Rv t.2.1).length =
      ((enum k vs).filter fun nv => Rv nv.1 && inWin nv.2 o).length := by
  intro vs
  induction vs with
  | nil => intro k; simp [enum]
  | cons v vs ih =>
    intro k
    simp only [enum, List.flatMap_cons, List.filter_append, List.length_append, ih, List.filter_cons]
    have hhead : ((((enum 0 objs).filter (copyable v)).map fun q => core (mkCopy q.1 k q.2 (v.off - v.s))).filter
        fun t => decide (t.1 = i) && Rv t.2.1).length = if (Rv k && inWin v o) then 1 else 0 := by
      rw [List.filter_map, List.length_map, List.filter_filter]
      have hfun : (fun q : Nat × Obj => ((fun t : Nat × Nat × Kind × Int × Option Int × List Int × Option String × Bool =>
            decide (t.1 = i) && Rv t.2.1) ∘ fun q => core (mkCopy q.1 k q.2 (v.off - v.s))) q && copyable v q) =
          fun q => decide (q.1 = i) && (Rv k && copyable v q) := by
        funext q
        show (decide (q.1 = i) && Rv k && copyable v q) = _
        rw [Bool.and_assoc]
      rw [hfun, enum_filter_idx (fun q => Rv k && copyable v q) objs 0 i o (Nat.zero_le _) (by simpa using hi)]
      simp [copyable, hd, hs]
    rw [hhead]
    cases Rv k <;> cases inWin v o <;> simp <;> omega

theorem enum_filter_idx_le {α : Type} (P : Nat × α → Bool) (l : List α) (k n : Nat) :
    ((enum k l).filter (fun q => decide (q.1 = n) && P q)).length ≤ 1 := by
  by_cases h : k ≤ n ∧ n - k < l.length
  · have := enum_filter_idx P l k n l[n - k] h.1 (List.getElem?_eq_getElem h.2)
    rw [this]; split <;> omega
  · have : (enum k l).filter (fun q => decide (q.1 = n) && P q) = [] := by
      rw [List.filter_eq_nil_iff]
      intro q hq
      obtain ⟨j, x⟩ := q
      have hm := (enum_mem l k j x).mp hq
      have hlt := (List.getElem?_eq_some_iff.mp hm.2).1
      have : ¬ j = n := by
        intro e; subst e
        exact h ⟨hm.1, hlt⟩
      simp [this]
    rw [this]; simp

/-! ### the elements of the unfolded part -/

/-- a copy that is not the extra fermata: which original, which visit, where -/
theorem out_elem (objs : List Obj) (vs : List Visit) (c : OObj) (hc : c ∈ variantObjs objs 0 vs [])
    (hx : c.extra = false) :
    ∃ v o, vs[c.visit]? = some v ∧ objs[c.orig]? = some o ∧ inWin v o = true ∧ o.kind.dropped = false ∧
      c.kind = o.kind ∧ c.nid = o.nid ∧ c.start = o.start + (v.off - v.s) := by
  rcases variantObjs_mem objs vs 0 [] c hc with h | ⟨n, v, out', hv, hcv⟩
  · simp at h
  · obtain ⟨hvis, hkind⟩ := visitCopies_mem objs v (0 + n) out' c hcv
    rcases hkind with ⟨hx', _⟩ | ⟨_, i, o, hio, hw, hd, hcore, _⟩
    · rw [hx] at hx'; simp at hx'
    · simp only [core, mkCopy, Prod.mk.injEq] at hcore
      refine ⟨v, o, ?_, ?_, hw, hd, hcore.2.2.1, hcore.2.2.2.2.2.2.1, hcore.2.2.2.1⟩
      · rw [hvis]; simpa using hv
      · rw [hcore.1]; exact hio

/-- the class rank of a copy is that of its original -/
theorem visitCopies_cls (objs : List Obj) (v : Visit) (k : Nat) (out : List OObj) (c : OObj)
    (h : c ∈ visitCopies objs v k out) (hx : c.extra = false) :
    ∃ o, objs[c.orig]? = some o ∧ c.cls = o.cls := by
  unfold visitCopies at h
  rw [List.mem_append] at h
  rcases h with h | h
  · simp only [resolve, List.mem_map] at h
    obtain ⟨c0, hc0, rfl⟩ := h
    obtain ⟨q, hq, _, _, rfl⟩ := copyPass_mem v k _ _ c0 hc0
    obtain ⟨i, o⟩ := q
    have := (enum_mem objs 0 i o).mp hq
    exact ⟨o, by simpa [mkCopy] using this.2, rfl⟩
  · obtain ⟨h1, _⟩ := fermataPass_extra v k _ c h
    rw [hx] at h1; cases h1

theorem out_cls (objs : List Obj) (vs : List Visit) (c : OObj) (hc : c ∈ variantObjs objs 0 vs [])
    (hx : c.extra = false) : ∃ o, objs[c.orig]? = some o ∧ c.cls = o.cls := by
  rcases variantObjs_mem objs vs 0 [] c hc with h | ⟨n, v, out', _, hcv⟩
  · simp at h
  · exact visitCopies_cls objs v (0 + n) out' c hcv hx

theorem out_extra_kind (objs : List Obj) (vs : List Visit) (c : OObj) (hc : c ∈ variantObjs objs 0 vs [])
    (hx : c.extra = true) : c.kind = .fermata := by
  rcases variantObjs_mem objs vs 0 [] c hc with h | ⟨n, v, out', hv, hcv⟩
  · simp at h
  · obtain ⟨_, hkind⟩ := visitCopies_mem objs v (0 + n) out' c hcv
    rcases hkind with ⟨_, hk, _⟩ | ⟨hx', _⟩
    · exact hk
    · rw [hx] at hx'; simp at hx'

/-- ids of notes are unique in the original part -/
def UniqueNoteIds (objs : List Obj) : Prop :=
  ∀ (i j : Nat) (oi oj : Obj), objs[i]? = some oi → objs[j]? = some oj → oi.kind = .note → oj.kind = .note →
    oi.nid = oj.nid → oi.nid ≠ none → i = j

theorem idRank_eq (objs : List Obj) (vs : List Visit)
    (hoff : OffsetsOK 0 vs) (hpos : ∀ v ∈ vs, v.s < v.e) (huniq : UniqueNoteIds objs)
    (pos : Nat) (c : OObj) (hc : (variantObjs objs 0 vs [])[pos]? = some c)
    (hk : c.kind = .note) (hn : c.nid ≠ none) :
    ∃ o, objs[c.orig]? = some o ∧
      idRank (variantObjs objs 0 vs []) pos c = 1 + ((vs.take c.visit).filter fun v => inWin v o).length := by
  have hcm : c ∈ variantObjs objs 0 vs [] := List.mem_of_getElem? hc
  have hcx : c.extra = false := by
    cases hx : c.extra with
    | false => rfl
    | true => have := out_extra_kind objs vs c hcm hx; rw [hk] at this; cases this
  obtain ⟨vc, o, hvc, ho, hwc, hdc, hkc, hnc, hsc⟩ := out_elem objs vs c hcm hcx
  refine ⟨o, ho, ?_⟩
  have hon : o.kind = .note := by rw [← hkc]; exact hk
  have hos : o.kind.isSig = false := by rw [hon]; rfl
  -- where a same-id note sits
  have hsame : ∀ q ∈ variantObjs objs 0 vs [], q.kind = .note → q.nid = c.nid →
      q.extra = false ∧ q.orig = c.orig ∧ q.cls = c.cls ∧ ∃ vq, vs[q.visit]? = some vq ∧ inWin vq o = true ∧
        q.start = o.start + (vq.off - vq.s) := by
    intro q hq hqk hqn
    have hqx : q.extra = false := by
      cases hx : q.extra with
      | false => rfl
      | true => have := out_extra_kind objs vs q hq hx; rw [hqk] at this; cases this
    obtain ⟨vq, oq, hvq, hoq, hwq, _, hkq, hnq, hsq⟩ := out_elem objs vs q hq hqx
    have e : q.orig = c.orig := by
      apply huniq q.orig c.orig oq o hoq ho (by rw [← hkq]; exact hqk) hon
      · rw [← hnq, hqn, hnc]
      · rw [← hnq, hqn]; exact hn
    rw [e, ho] at hoq
    simp only [Option.some.injEq] at hoq
    subst hoq
    have hcls : q.cls = c.cls := by
      obtain ⟨o1, ho1, hc1⟩ := out_cls objs vs q hq hqx
      obtain ⟨o2, ho2, hc2⟩ := out_cls objs vs c hcm hcx
      rw [e, ho2] at ho1
      simp only [Option.some.injEq] at ho1
      rw [hc1, hc2, ho1]
    exact ⟨hqx, e, hcls, vq, hvq, hwq, hsq⟩
  -- order of onsets = order of visits
  have hord : ∀ (a b : Nat) (va vb : Visit), vs[a]? = some va → vs[b]? = some vb → inWin va o = true →
      inWin vb o = true → a < b → o.start + (va.off - va.s) < o.start + (vb.off - vb.s) := by
    intro a b va vb ha hb wa wb hab
    have := offsets_mono vs 0 hoff hpos a b va vb hab ha hb
    simp only [inWin, Bool.and_eq_true, decide_eq_true_eq] at wa wb
    omega
  -- the predicate of `idRank` on the elements of the part
  have hpred : ∀ q ∈ enum 0 (variantObjs objs 0 vs []),
      (decide (q.2.kind = Kind.note) && decide (q.2.nid = c.nid) && noteBefore q pos c) =
      (keepP q.2 && (decide (q.2.orig = c.orig) && decide (q.2.visit < c.visit))) := by
    intro q hq
    obtain ⟨a, x⟩ := q
    have hxa := ((enum_mem _ 0 a x).mp hq).2
    simp only [Nat.sub_zero] at hxa
    have hxm : x ∈ variantObjs objs 0 vs [] := List.mem_of_getElem? hxa
    simp only
    by_cases hq1 : x.kind = .note ∧ x.nid = c.nid
    · obtain ⟨hqx, he, hcl, vq, hvq, hwq, hsq⟩ := hsame x hxm hq1.1 hq1.2
      have hkeep : keepP x = true := by simp [keepP, hq1.1, hqx, Kind.isSig]
      simp only [noteBefore, hq1.1, hq1.2, decide_true, Bool.true_and, hkeep, he, hcl, Nat.lt_irrefl, decide_false,
        Bool.false_or]
      rw [hsq, hsc]
      rcases Nat.lt_trichotomy x.visit c.visit with hlt | heq | hgt
      · have := hord _ _ vq vc hvq hvc hwq hwc hlt
        have h2 : ¬ (o.start + (vq.off - vq.s) = o.start + (vc.off - vc.s)) := by omega
        simp [this, hlt]
      · -- the same visit: it is the same element
        rw [heq, hvc] at hvq
        simp only [Option.some.injEq] at hvq
        subst hvq
        have hnl : ¬ x.visit < c.visit := by omega
        have hap : ¬ a < pos := by
          intro hlt
          -- two different positions with the same (orig, visit): impossible
          have h2 := two_le_filter (fun y : OObj => keepP y && (decide (y.orig = c.orig) && decide (y.visit = c.visit)))
            (variantObjs objs 0 vs []) a pos x c hlt hxa hc
            (by simp [hkeep, he, heq]) (by simp [keepP, hk, hcx, Kind.isSig])
          have h3 : ((variantObjs objs 0 vs []).filter
              (fun y : OObj => keepP y && (decide (y.orig = c.orig) && decide (y.visit = c.visit)))).length =
              ((((variantObjs objs 0 vs []).filter keepP).map core).filter
                fun t => decide (t.1 = c.orig) && decide (t.2.1 = c.visit)).length := by
            rw [List.filter_map, List.length_map, List.filter_filter]
            congr 1
            exact List.filter_congr (fun y _ => by rw [Bool.and_comm]; rfl)
          rw [h3, variantObjs_keep] at h2
          simp only [List.filter_nil, List.map_nil, List.nil_append] at h2
          rw [flat_count_visit objs c.orig o ho hdc hos (fun n => decide (n = c.visit)) vs 0] at h2
          have := enum_filter_idx_le (fun nv : Nat × Visit => inWin nv.2 o) vs 0 c.visit
          omega
        simp [hnl, hap]
      · have := hord _ _ vc vq hvc hvq hwc hwq hgt
        have h2 : ¬ (o.start + (vq.off - vq.s) = o.start + (vc.off - vc.s)) := by omega
        have h3 : ¬ (o.start + (vq.off - vq.s) < o.start + (vc.off - vc.s)) := by omega
        have h4 : ¬ x.visit < c.visit := by omega
        simp [h2, h3, h4]
    · -- not a note with this id: then not a copy of the same original either
      have hl : (decide (x.kind = Kind.note) && decide (x.nid = c.nid)) = false := by
        by_cases h1 : x.kind = .note
        · have : ¬ x.nid = c.nid := fun h => hq1 ⟨h1, h⟩
          simp [h1, this]
        · simp [h1]
      rw [hl, Bool.false_and]
      by_cases hkp : keepP x = true
      · by_cases ho' : x.orig = c.orig
        · exfalso
          have hxx : x.extra = false := by
            simp only [keepP, Bool.and_eq_true, Bool.not_eq_true'] at hkp
            exact hkp.2
          obtain ⟨_, ox, _, hox, _, _, hkx, hnx, _⟩ := out_elem objs vs x hxm hxx
          rw [ho', ho] at hox
          simp only [Option.some.injEq] at hox
          subst hox
          exact hq1 ⟨by rw [hkx]; exact hon, by rw [hnx, hnc]⟩
        · simp [ho']
      · have : keepP x = false := by simpa using hkp
        simp [this]
  unfold idRank
  congr 1
  rw [List.filter_congr hpred]
  rw [enum_filter_snd (fun y : OObj => keepP y && (decide (y.orig = c.orig) && decide (y.visit < c.visit)))]
  have h3 : ((variantObjs objs 0 vs []).filter
      (fun y : OObj => keepP y && (decide (y.orig = c.orig) && decide (y.visit < c.visit)))).length =
      ((((variantObjs objs 0 vs []).filter keepP).map core).filter
        fun t => decide (t.1 = c.orig) && decide (t.2.1 < c.visit)).length := by
    rw [List.filter_map, List.length_map, List.filter_filter]
    congr 1
    exact List.filter_congr (fun y _ => by rw [Bool.and_comm]; rfl)
  rw [h3, variantObjs_keep]
  simp only [List.filter_nil, List.map_nil, List.nil_append]
  rw [flat_count_visit objs c.orig o ho hdc hos (fun n => decide (n < c.visit)) vs 0]
  have := enum_take_filter (fun v : Visit => inWin v o) vs 0 c.visit
  simp only [Nat.zero_add] at this
  exact this

theorem visitsFrom_take (g : List Seg) : ∀ (path : List Nat) (off : Int) (vs : List Visit) (K : Nat),
    visitsFrom g off path = some vs → visitsFrom g off (path.take K) = some (vs.take K) := by
  intro path
  induction path with
  | nil =>
    intro off vs K h
    simp only [visitsFrom, Option.some.injEq] at h
    subst h; simp [visitsFrom]
  | cons a rest ih =>
    intro off vs K h
    cases K with
    | zero => simp [visitsFrom]
    | succ K =>
      simp only [visitsFrom] at h
      cases hg : g[a]? with
      | none => simp [hg] at h
      | some sa =>
        simp only [hg] at h
        cases hr : visitsFrom g (off + (sa.stp - sa.start)) rest with
        | none => simp [hr] at h
        | some vs' =>
          simp only [hr, Option.map_some, Option.some.injEq] at h
          subst h
          simp only [List.take_succ_cons, visitsFrom, hg, ih _ _ K hr, Option.map_some]

end C09
