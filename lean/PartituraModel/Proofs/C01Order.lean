/-
C01 helper lemmas, round 5: ORDER.  The registries are insertion-ordered (`_OrderedSet` per class bucket); the
lemmas here follow the exact LIST `regAt pts sd x` (the registry of side `sd` of the point at `x`, `[]` when
there is no such point) through `get_or_add_point`, `add_*_object`, `_cleanup_point`, `remove`, and describe
the order in which one point's objects are yielded.
-/
import PartituraModel.Proofs.C01XStep

namespace TL

/-- the registry (in its order) of side `sd` of the point at time `x`; `[]` when there is no point at `x` -/
def regAt (pts : List Point) (sd : Side) (x : Int) : List ObjRef :=
  ((findPoint pts x).map (·.reg sd)).getD []

theorem findPoint_map {pts : List Point} {g : Point → Point} (hg : ∀ p, (g p).t = p.t) (x : Int) :
    findPoint (pts.map g) x = (findPoint pts x).map g := by
  unfold findPoint
  rw [List.find?_map]
  congr 2
  funext p
  simp [hg]

theorem regAt_congr {l l' : List Point} (h : l'.map Point.unlink = l.map Point.unlink) (sd : Side) (x : Int) :
    regAt l' sd x = regAt l sd x := by
  have e : ∀ pts : List Point, regAt pts sd x = regAt (pts.map Point.unlink) sd x := by
    intro pts
    unfold regAt
    rw [findPoint_map (g := Point.unlink) (fun p => rfl)]
    cases findPoint pts x <;> simp
  rw [e l', e l, h]

/-- a point with an empty registry on side `sd` is invisible to `regAt · sd` (times being unique) -/
theorem regAt_skip_empty (pre post : List Point) (b : Point) (sd : Side) (x : Int) (hb : b.reg sd = [])
    (h2 : ∀ p ∈ post, p.t ≠ b.t) : regAt (pre ++ b :: post) sd x = regAt (pre ++ post) sd x := by
  unfold regAt findPoint
  induction pre with
  | nil =>
    simp only [List.nil_append, List.find?_cons]
    by_cases hx : b.t = x
    · have hnone : post.find? (fun p => p.t == x) = none := by
        rw [List.find?_eq_none]
        intro p hp
        have := h2 p hp
        simp; omega
      simp [hx, hb, hnone]
    · have : (b.t == x) = false := by simpa using hx
      simp [this]
  | cons a pre ih =>
    simp only [List.cons_append, List.find?_cons]
    cases (a.t == x) with
    | true => rfl
    | false => exact ih

theorem regAt_modify (pts : List Point) (t : Int) (f : Point → Point) (hf : ∀ p, (f p).t = p.t)
    (sd : Side) (x : Int) :
    regAt (modifyPoint pts t f) sd x
      = if x = t then ((findPoint pts t).map (fun p => (f p).reg sd)).getD [] else regAt pts sd x := by
  unfold regAt modifyPoint
  rw [findPoint_map (fun p => by split <;> simp [hf])]
  by_cases hx : x = t
  · subst hx
    simp only [if_true]
    cases hfp : findPoint pts x with
    | none => rfl
    | some p =>
      have := (findPoint_mem hfp).2
      simp [this]
  · simp only [hx, if_false]
    cases hfp : findPoint pts x with
    | none => rfl
    | some p =>
      have := (findPoint_mem hfp).2
      have hne : ¬ p.t = t := by omega
      simp [hne]

-- ------------------------------------------------------------------ get_or_add_point keeps every registry

theorem ensurePoint_regAt {s s1 : Part} (hW : WGood s) {t : Int} (ht : 0 ≤ t)
    (he : ensurePoint s t = .ok s1) (sd : Side) (x : Int) : regAt s1.points sd x = regAt s.points sd x := by
  have hneg : ¬ t < 0 := by omega
  unfold ensurePoint at he
  simp only [hneg, if_false] at he
  by_cases hm : t ∈ s.times
  · obtain ⟨l, p, r, hsplit, hpt, -, -⟩ := split_at_time hW.1.sorted hm
    have hs := hW.1.sorted
    rw [Part.times, hsplit] at hs
    subst hpt
    rw [hsplit, getPoint_of_split hs] at he
    simp only [pure, Except.pure, Except.ok.injEq] at he
    subst he
    rw [hsplit]
  · rw [getPoint_none_of_not_mem hm] at he
    simp only at he
    cases hq : qdAt s.qtab t with
    | none => rw [hq] at he; cases he
    | some q =>
      rw [hq] at he
      simp only at he
      obtain ⟨pre, post, hsplit, h1, h2, -⟩ := searchsorted_split s.points t
      have h2' : ∀ b ∈ post.head?, t < b.t := by
        intro b hb
        have hle := h2 b hb
        have hbm : b ∈ s.points := by rw [hsplit]; exact List.mem_append.mpr (Or.inr (List.mem_of_mem_head? hb))
        have : b.t ≠ t := fun e => hm (e ▸ List.mem_map_of_mem hbm)
        omega
      have hallpost : ∀ p ∈ post, p.t ≠ t := by
        intro p hp e
        exact hm (e ▸ List.mem_map_of_mem (by rw [hsplit]; exact List.mem_append.mpr (Or.inr hp)))
      have hadd := addPoint_absent pre post t q h1 h2'
      rw [← hsplit] at hadd
      have hfresh : ({ t := t, quarter := q, prev := none, next := none, starting := [], ending := [] } : Point)
          = freshPoint t q := rfl
      rw [hfresh, hadd] at he
      simp only [bind, Except.bind, pure, Except.pure, Except.ok.injEq] at he
      subst he
      simp only
      rw [regAt_congr (unlink_insertLinked pre post t q),
        regAt_skip_empty pre post (freshPoint t q) sd x (by cases sd <;> rfl) hallpost, hsplit]

/-- the point `get_or_add_point(t)` returns is on the timeline -/
theorem ensurePoint_mem {s s1 : Part} (hW : WGood s) {t : Int} (ht : 0 ≤ t) (he : ensurePoint s t = .ok s1) :
    t ∈ s1.times := by
  obtain ⟨s', he', -, -, hmem, -⟩ := ensurePoint_wspec hW.1 hW.2 ht
  rw [he] at he'
  cases he'
  exact hmem

theorem regAt_of_mem {pts : List Point} (hs : (pts.map (·.t)).Pairwise (· < ·)) {t : Int}
    (ht : t ∈ pts.map (·.t)) (sd : Side) : ∃ p, findPoint pts t = some p ∧ regAt pts sd t = p.reg sd := by
  obtain ⟨pre, b, r, hsplit, hbt, h1, -⟩ := split_at_time hs ht
  have hf := findPoint_split pre r b t h1 hbt
  rw [← hsplit] at hf
  exact ⟨b, hf, by simp [regAt, hf]⟩

/-- `add(o, start=t)` / `add(o, end=t)`: the registry of that side at `t` becomes `regAdd old o` (the object goes
LAST unless it is already listed there, in which case it keeps its position); every other registry is the same
list as before -/
theorem addSide_regAt {s s' : Part} (hW : WGood s) {sd : Side} {t : Int} {o : ObjRef} (ht : 0 ≤ t)
    (he : addSide s sd t o = .ok s') (sd' : Side) (x : Int) :
    regAt s'.points sd' x = if x = t ∧ sd' = sd then regAdd (regAt s.points sd t) o else regAt s.points sd' x := by
  rw [addSide_eq] at he
  cases h1 : ensurePoint s t with
  | error e => simp [h1, Except.map] at he
  | ok s1 =>
    simp only [h1, Except.map, Except.ok.injEq] at he
    subst he
    have hk := fun sd'' x' => ensurePoint_regAt hW ht h1 sd'' x'
    have hmem := ensurePoint_mem hW ht h1
    obtain ⟨s1', he1, hc1, -⟩ := ensurePoint_wspec hW.1 hW.2 ht
    rw [h1] at he1
    cases he1
    obtain ⟨p, hfp, hreg⟩ := regAt_of_mem hc1.sorted hmem sd
    unfold register
    simp only
    rw [regAt_modify _ _ _ (fun p => by simp)]
    by_cases hx : x = t
    · subst hx
      simp only [if_true, true_and, hfp, Option.map_some, Option.getD_some, setReg_reg]
      by_cases hsd : sd' = sd
      · subst hsd
        simp only [if_true]
        rw [← hreg, hk]
      · simp only [hsd, if_false]
        have : p.reg sd' = regAt s1.points sd' x := by simp [regAt, hfp]
        rw [this, hk]
    · simp only [hx, if_false, false_and]
      exact hk sd' x

-- ------------------------------------------------------------------ _cleanup_point keeps every registry

theorem cleanupPoint_regAt {s s' : Part} {t : Int} (h : WCore (some t) s) (ht : t ∈ s.times)
    (he : cleanupPoint s t = .ok s') (sd : Side) (x : Int) : regAt s'.points sd x = regAt s.points sd x := by
  obtain ⟨pre, b, r, hsplit, hbt, h1, h2⟩ := split_at_time h.sorted ht
  have hfind := findPoint_split pre r b t h1 hbt
  rw [← hsplit] at hfind
  unfold cleanupPoint at he
  simp only [hfind] at he
  by_cases hemp : b.starting.length + b.ending.length = 0
  · simp only [hemp, if_true] at he
    have hrm := removePoint_present pre r b t h1 hbt
    rw [← hsplit] at hrm
    rw [hrm] at he
    simp only [bind, Except.bind, pure, Except.pure, Except.ok.injEq] at he
    subst he
    simp only
    rw [regAt_congr (unlink_eraseLinked pre r), hsplit,
      regAt_skip_empty pre r b sd x (reg_eq_nil_of_empty hemp sd) (fun p hp => by have := h2 p hp; omega)]
  · simp only [hemp, if_false, pure, Except.pure, Except.ok.injEq] at he
    subst he
    rfl

/-- one half of `remove`: the registry the object's reference points to loses the object (the others keep
their relative order); every other registry is the same list as before -/
theorem removeSide_regAt {s s' : Part} (hW : WGood s) {sd : Side} {o : ObjRef} {t : Int}
    (hat : (getObj s.objs o).at sd = some t) (he : removeSide s sd o = .ok s') (sd' : Side) (x : Int) :
    regAt s'.points sd' x
      = if x = t ∧ sd' = sd then regRemove (regAt s.points sd t) o else regAt s.points sd' x := by
  rw [removeSide_eq_cleanup hat] at he
  have hu : WCore (some t) (unregister s sd t o) := unregister_winv hW.1
  have htm : t ∈ s.times := hW.1.getObj_refOn sd o hat
  have htu : t ∈ (unregister s sd t o).times := by rw [unregister_times]; exact htm
  rw [cleanupPoint_regAt hu htu he]
  obtain ⟨p, hfp, hreg⟩ := regAt_of_mem hW.1.sorted htm sd
  unfold unregister
  simp only
  rw [regAt_modify _ _ _ (fun p => by simp)]
  by_cases hx : x = t
  · subst hx
    simp only [if_true, true_and, hfp, Option.map_some, Option.getD_some, setReg_reg]
    by_cases hsd : sd' = sd
    · subst hsd
      simp only [if_true]
      rw [← hreg]
    · simp only [hsd, if_false]
      simp [regAt, hfp]
  · simp only [hx, if_false, false_and]

-- ------------------------------------------------------------------ order inside one point's answer

/-- the classes `iter_starting / iter_ending (cls, include_subclasses)` walk, in that order: the class itself,
then `iter_subclasses(cls)` -/
def classOrder (cls : Option Nat) (incl : Bool) : List Nat :=
  (match cls with | none => [] | some c => [c]) ++ (if incl then subSeq cls else [])

theorem iterReg_eq_classOrder (reg : List ObjRef) (cls : Option Nat) (incl : Bool) :
    iterReg reg cls incl = (classOrder cls incl).flatMap fun c => reg.filter (fun o => o.cls == c) := by
  unfold iterReg classOrder
  cases cls <;> cases incl <;> simp

theorem pairwise_idxOf_of_nodup {α : Type} [DecidableEq α] : ∀ {l : List α}, l.Nodup →
    l.Pairwise (fun a b => l.idxOf a < l.idxOf b)
  | [], _ => List.Pairwise.nil
  | a :: l, hn => by
    have hn' := List.nodup_cons.mp hn
    refine List.Pairwise.cons ?_ ?_
    · intro b hb
      have hne : a ≠ b := fun e => hn'.1 (e ▸ hb)
      rw [List.idxOf_cons_self, List.idxOf_cons_ne _ hne]
      omega
    · refine (pairwise_idxOf_of_nodup hn'.2).imp_of_mem ?_
      intro x y hx hy hxy
      have h1 : a ≠ x := fun e => hn'.1 (e ▸ hx)
      have h2 : a ≠ y := fun e => hn'.1 (e ▸ hy)
      rw [List.idxOf_cons_ne _ h1, List.idxOf_cons_ne _ h2]
      omega

/-- the order of one point's answer: by position of the class in the walk, then by position in the registry
(= insertion order) -/
theorem buckets_ordered {reg : List ObjRef} (hn : reg.Nodup) : ∀ {ord : List Nat}, ord.Nodup →
    (ord.flatMap fun c => reg.filter (fun o => o.cls == c)).Pairwise fun o1 o2 =>
      ord.idxOf o1.cls < ord.idxOf o2.cls ∨ (o1.cls = o2.cls ∧ reg.idxOf o1 < reg.idxOf o2)
  | [], _ => List.Pairwise.nil
  | c :: rest, ho => by
    have ho' := List.nodup_cons.mp ho
    rw [List.flatMap_cons, List.pairwise_append]
    refine ⟨?_, ?_, ?_⟩
    · have := ((pairwise_idxOf_of_nodup hn).sublist (List.filter_sublist (p := fun o => o.cls == c)))
      refine this.imp_of_mem ?_
      intro x y hx hy hxy
      have e1 : x.cls = c := by simpa using (List.mem_filter.mp hx).2
      have e2 : y.cls = c := by simpa using (List.mem_filter.mp hy).2
      exact Or.inr ⟨e1.trans e2.symm, hxy⟩
    · refine (buckets_ordered hn ho'.2).imp_of_mem ?_
      intro x y hx hy hxy
      have cls_in : ∀ z, z ∈ (rest.flatMap fun c => reg.filter (fun o => o.cls == c)) → z.cls ∈ rest := by
        intro z hz
        obtain ⟨d, hd, hz'⟩ := List.mem_flatMap.mp hz
        have : z.cls = d := by simpa using (List.mem_filter.mp hz').2
        rw [this]; exact hd
      have h1 : c ≠ x.cls := fun e => ho'.1 (e ▸ cls_in x hx)
      have h2 : c ≠ y.cls := fun e => ho'.1 (e ▸ cls_in y hy)
      rcases hxy with h | h
      · left
        rw [List.idxOf_cons_ne _ h1, List.idxOf_cons_ne _ h2]
        omega
      · exact Or.inr h
    · intro x hx y hy
      have e1 : x.cls = c := by simpa using (List.mem_filter.mp hx).2
      obtain ⟨d, hd, hy'⟩ := List.mem_flatMap.mp hy
      have e2 : y.cls = d := by simpa using (List.mem_filter.mp hy').2
      have hne : c ≠ y.cls := fun e => ho'.1 (by rw [e, e2]; exact hd)
      left
      rw [e1, List.idxOf_cons_self, List.idxOf_cons_ne _ hne]
      omega

end TL
