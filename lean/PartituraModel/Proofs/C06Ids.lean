/-
C06 helper lemmas: the sort key of the loaded notes.
-/
import PartituraModel.Model.PerfMidi
import PartituraModel.Proofs.C06Sort
import Mathlib.Tactic.Linarith

namespace C06Ids
open Model Model.PerfMidi C06Sort

theorem rnoteLe_iff (a b : RNote) : rnoteLe a b = true ↔
    (a.on < b.on ∨ (a.on = b.on ∧ (a.pitch < b.pitch ∨ (a.pitch = b.pitch ∧
      (a.off < b.off ∨ (a.off = b.off ∧ a.ch ≤ b.ch)))))) := by
  simp [rnoteLe]

theorem rnoteLe_total (a b : RNote) : rnoteLe a b = true ∨ rnoteLe b a = true := by
  rw [rnoteLe_iff, rnoteLe_iff]; omega

theorem rnoteLe_trans (a b c : RNote) (h1 : rnoteLe a b = true) (h2 : rnoteLe b c = true) :
    rnoteLe a c = true := by
  rw [rnoteLe_iff] at *; omega

/-- lexicographic order of (onset, pitch, offset, channel) with the times in seconds -/
def KeyLe (sec : Int → Rat) (a b : RNote) : Prop :=
  sec a.on < sec b.on ∨ (sec a.on = sec b.on ∧ (a.pitch < b.pitch ∨ (a.pitch = b.pitch ∧
    (sec a.off < sec b.off ∨ (sec a.off = sec b.off ∧ a.ch ≤ b.ch)))))

/-- for a conversion that is strictly increasing on the non-negative ticks, the order by ticks is the
    order by seconds -/
theorem keyLe_of_rnoteLe (sec : Int → Rat) (hsec : ∀ x y, 0 ≤ x → x < y → sec x < sec y)
    (a b : RNote) (ha : 0 ≤ a.on ∧ 0 ≤ a.off) (h : rnoteLe a b = true) : KeyLe sec a b := by
  rw [rnoteLe_iff] at h
  unfold KeyLe
  rcases h with h | ⟨h1, h⟩
  · exact Or.inl (hsec _ _ ha.1 h)
  · right
    refine ⟨by rw [h1], ?_⟩
    rcases h with h | ⟨h2, h⟩
    · exact Or.inl h
    · right
      refine ⟨h2, ?_⟩
      rcases h with h | ⟨h3, h⟩
      · exact Or.inl (hsec _ _ ha.2 h)
      · exact Or.inr ⟨by rw [h3], h⟩

theorem tickLe_total (a b : TMsg) : tickLe a b = true ∨ tickLe b a = true := by
  simp only [tickLe, decide_eq_true_eq]; omega

theorem tickLe_trans (a b c : TMsg) (h1 : tickLe a b = true) (h2 : tickLe b c = true) :
    tickLe a c = true := by
  simp only [tickLe, decide_eq_true_eq] at *; omega

end C06Ids
