/-
C11 — installing a tie chain in the note list (`tieOne`, `tieStage1` of Model/Measures.lean) leaves the summed
duration and the end of every tie chain, and the onset/pitch/voice/staff/id of every note, as they were.

`Walk ns x d e` is the recursion of the Python properties `duration_tied` / `end_tied` started at the note with
key `x`: follow `tie_next` to the end, adding durations.
-/
import PartituraModel.Proofs.C11Tie
import Mathlib.Data.List.Nodup

namespace C11Walk
open Model Model.Dur Model.Meas C11Tie

/-- the note with key `x` (first match, as the model addresses notes) -/
def lk (ns : List Note) (x : Nat) : Option Note := ns.find? (·.key = x)

inductive Walk (ns : List Note) : Nat → Nat → Nat → Prop
  | last (x : Nat) (n : Note) : lk ns x = some n → n.tieNext = none → Walk ns x (n.stop - n.start) n.stop
  | step (x : Nat) (n : Note) (t d e : Nat) : lk ns x = some n → n.tieNext = some t → Walk ns t d e →
      Walk ns x ((n.stop - n.start) + d) e

-- ------------------------------------------------------------------ lookups after the list operations

theorem lk_map (g : Note → Note) (hg : ∀ n, (g n).key = n.key) (ns : List Note) (x : Nat) :
    lk (ns.map g) x = (lk ns x).map g := by
  unfold lk
  induction ns with
  | nil => rfl
  | cons a as ih =>
    simp only [List.map_cons, List.find?_cons, hg]
    split
    · rfl
    · exact ih

theorem lk_insert (n : Note) : ∀ (ns : List Note) (x : Nat), lk ns n.key = none →
    lk (insertNote n ns) x = if n.key = x then some n else lk ns x := by
  intro ns
  induction ns with
  | nil =>
    intro x _
    simp only [insertNote, lk, List.find?_cons, List.find?_nil, decide_eq_true_eq]
    split <;> simp_all
  | cons a as ih =>
    intro x hfresh
    have ha : a.key ≠ n.key ∧ lk as n.key = none := by
      unfold lk at hfresh
      simp only [List.find?_cons] at hfresh
      split at hfresh
      · cases hfresh
      · rename_i h; exact ⟨by simpa using h, hfresh⟩
    unfold insertNote
    split
    · simp only [lk, List.find?_cons, decide_eq_true_eq]
      split <;> simp_all
    · have := ih x ha.2
      simp only [lk, List.find?_cons, decide_eq_true_eq] at this ⊢
      by_cases hax : a.key = x
      · simp only [hax, if_true]
        have : ¬ (n.key = x) := by intro h; exact ha.1 (hax.trans h.symm)
        simp [this]
      · simp only [hax, if_false]
        exact this

theorem lk_foldInsert : ∀ (more : List Note) (ns : List Note) (x : Nat),
    (∀ m ∈ more, lk ns m.key = none) → (more.map (·.key)).Nodup →
    lk (more.foldl (fun acc n => insertNote n acc) ns) x =
      match more.find? (·.key = x) with
      | some m => some m
      | none => lk ns x := by
  intro more
  induction more with
  | nil => intro ns x _ _; rfl
  | cons m rest ih =>
    intro ns x hfresh hnd
    simp only [List.foldl_cons]
    have hnd' : m.key ∉ rest.map (·.key) ∧ (rest.map (·.key)).Nodup := by
      rw [List.map_cons] at hnd; exact List.nodup_cons.mp hnd
    have hfm := hfresh m List.mem_cons_self
    have hrest : ∀ r ∈ rest, lk (insertNote m ns) r.key = none := by
      intro r hr
      rw [lk_insert m ns r.key hfm]
      have : m.key ≠ r.key := by
        intro h; apply hnd'.1; rw [h]; exact List.mem_map.mpr ⟨r, hr, rfl⟩
      rw [if_neg this]
      exact hfresh r (List.mem_cons_of_mem _ hr)
    rw [ih (insertNote m ns) x hrest hnd'.2, lk_insert m ns x hfm]
    simp only [List.find?_cons, decide_eq_true_eq]
    by_cases hmx : m.key = x
    · simp only [hmx, if_true]
      have : rest.find? (·.key = x) = none := by
        rw [List.find?_eq_none]
        intro r hr hc
        apply hnd'.1
        rw [hmx]
        exact List.mem_map.mpr ⟨r, hr, by simpa using hc⟩
      rw [this]; simp
    · simp only [hmx, if_false]
      simp [hmx]

theorem freshKey_gt (ns : List Note) : ∀ n ∈ ns, n.key < freshKey ns := by
  unfold freshKey
  suffices h : ∀ (l : List Note) (acc : Nat), (∀ n ∈ l, n.key < l.foldl (fun m n => max m (n.key + 1)) acc) ∧
      acc ≤ l.foldl (fun m n => max m (n.key + 1)) acc from (h ns 0).1
  intro l
  induction l with
  | nil => intro acc; exact ⟨by intro n hn; simp at hn, Nat.le_refl _⟩
  | cons a as ih =>
    intro acc
    simp only [List.foldl_cons]
    obtain ⟨i1, i2⟩ := ih (max acc (a.key + 1))
    refine ⟨?_, by omega⟩
    intro n hn
    rcases List.mem_cons.mp hn with rfl | hn
    · omega
    · exact i1 n hn

theorem lk_none_of_fresh (ns : List Note) (x : Nat) (h : freshKey ns ≤ x) : lk ns x = none := by
  unfold lk
  rw [List.find?_eq_none]
  intro n hn hc
  have := freshKey_gt ns n hn
  simp only [decide_eq_true_eq] at hc
  omega

-- ------------------------------------------------------------------ the chain in the list


/-- keys of a chain: the head keeps `ck`, the further pieces get `base + i`, `base + i + 1`, … -/
theorem chainFrom_keys (orig : Note) (base : Nat) : ∀ (ps : List (Nat × Nat × Option Est)) (i : Nat)
    (prev : Option Nat) (ck : Nat) (cid : Option String), ps ≠ [] →
    (chainFrom orig base i prev ck cid ps).map (·.key) =
      ck :: (List.range (ps.length - 1)).map (fun j => base + i + j) := by
  intro ps
  induction ps with
  | nil => intro i prev ck cid h; exact absurd rfl h
  | cons p rest ih =>
    intro i prev ck cid _
    obtain ⟨l, r, sy⟩ := p
    cases rest with
    | nil => rfl
    | cons q rest' =>
      have hc : chainFrom orig base i prev ck cid ((l, r, sy) :: q :: rest') =
          { orig with key := ck, id := cid, start := l, stop := r, sym := sy, tiePrev := prev,
                      tieNext := some (base + i), slurStops := [] }
            :: chainFrom orig base (i + 1) (some ck) (base + i) (cid.bind makeTiedNoteId) (q :: rest') := rfl
      rw [hc, List.map_cons, ih (i + 1) (some ck) (base + i) (cid.bind makeTiedNoteId) (by simp)]
      simp only [List.length_cons, Nat.add_sub_cancel]
      rw [List.range_succ_eq_map, List.map_cons, List.map_map]
      simp only [Nat.add_zero, List.cons.injEq, true_and]
      apply List.map_congr_left
      intro j _
      simp only [Function.comp, Nat.succ_eq_add_one]
      omega

/-- what a lookup may change without changing what the note contributes to a chain or a row -/
def UpTo (n n' : Note) : Prop :=
  n'.key = n.key ∧ n'.start = n.start ∧ n'.stop = n.stop ∧ n'.tieNext = n.tieNext ∧ n'.pitch = n.pitch ∧
  n'.voice = n.voice ∧ n'.staff = n.staff ∧ n'.id = n.id ∧ (n.tiePrev.isSome → n'.tiePrev.isSome) ∧
  n'.sym = n.sym ∧ n'.slurStops = n.slurStops

theorem upTo_refl (n : Note) : UpTo n n := ⟨rfl, rfl, rfl, rfl, rfl, rfl, rfl, rfl, id, rfl, rfl⟩

theorem lk_relink (orig : Note) (chain ns : List Note) :
    ∃ r : Note → Note, (∀ n, UpTo n (r n)) ∧ ∀ x, lk (relinkNext orig chain ns) x = (lk ns x).map r := by
  unfold relinkNext
  split
  · rename_i t last _ _
    refine ⟨fun n => if n.key = t then { n with tiePrev := some last.key } else n, ?_, ?_⟩
    · intro n
      by_cases h : n.key = t
      · show UpTo n (if n.key = t then { n with tiePrev := some last.key } else n)
        rw [if_pos h]; exact ⟨rfl, rfl, rfl, rfl, rfl, rfl, rfl, rfl, fun _ => rfl, rfl, rfl⟩
      · show UpTo n (if n.key = t then { n with tiePrev := some last.key } else n)
        rw [if_neg h]; exact upTo_refl n
    · intro x
      unfold updateNote
      apply lk_map
      intro n
      by_cases h : n.key = t <;> simp [h]
  · exact ⟨id, upTo_refl, fun x => by simp⟩



/-- lookups in the list after a chain `first :: more` was installed for `orig` -/
theorem lk_install (ns : List Note) (orig first : Note) (more : List Note)
    (hfk : first.key = orig.key) (hmore : ∀ m ∈ more, freshKey ns ≤ m.key) (hnd : (more.map (·.key)).Nodup) :
    ∃ r : Note → Note, (∀ n, UpTo n (r n)) ∧ ∀ x,
      lk (installChain ns orig (first :: more)) x =
        Option.map r (match more.find? (fun (m : Note) => decide (m.key = x)) with
         | some m => some m
         | none => (lk ns x).map fun (n : Note) => if n.key = orig.key then first else n) := by
  obtain ⟨r, hr, hlk⟩ := lk_relink orig (first :: more)
    (more.foldl (fun acc n => insertNote n acc) (ns.map fun n => if n.key = orig.key then first else n))
  refine ⟨r, hr, ?_⟩
  intro x
  show lk (relinkNext orig (first :: more) _) x = _
  rw [hlk x]
  congr 1
  have hg : ∀ n : Note, (if n.key = orig.key then first else n).key = n.key := by
    intro n; split
    · rename_i h; rw [hfk, h]
    · rfl
  have hside : ∀ m ∈ more, lk (ns.map fun n => if n.key = orig.key then first else n) m.key = none := by
    intro m hm
    rw [lk_map _ hg, lk_none_of_fresh ns m.key (hmore m hm)]
    rfl
  rw [lk_foldInsert more _ x hside hnd, lk_map _ hg]
  try rfl

/-- walking down a chain that sits in the list: from its head to its last member, then on as the
    continuation `cont` says -/
theorem walk_chain (ns' : List Note) : ∀ (c : List Note) (a : Note), Linked (a :: c) →
    (∀ m ∈ a :: c, ∃ m', lk ns' m.key = some m' ∧ UpTo m m') →
    ∀ (lastN : Note), (a :: c).getLast? = some lastN →
    ((lastN.tieNext = none → Walk ns' a.key (sumDur (a :: c)) lastN.stop) ∧
     (∀ t d e, lastN.tieNext = some t → Walk ns' t d e → Walk ns' a.key (sumDur (a :: c) + d) e)) := by
  intro c
  induction c with
  | nil =>
    intro a _ hin lastN hl
    simp only [List.getLast?_singleton, Option.some.injEq] at hl
    subst hl
    obtain ⟨a', ha', _, h1, h2, h3, _⟩ := hin a List.mem_cons_self
    have hs : sumDur [a] = a.stop - a.start := by simp [sumDur]
    rw [hs]
    constructor
    · intro hn
      have := Walk.last a.key a' ha' (by rw [h3]; exact hn)
      rw [h1, h2] at this; exact this
    · intro t d e ht hw
      have := Walk.step a.key a' t d e ha' (by rw [h3]; exact ht) hw
      rw [h1, h2] at this; exact this
  | cons b rest ih =>
    intro a hlink hin lastN hl
    obtain ⟨l1, l2, _, l4⟩ := (linked_cons2 ..).mp hlink
    have hl' : (b :: rest).getLast? = some lastN := by simpa [List.getLast?_cons_cons] using hl
    obtain ⟨i1, i2⟩ := ih b l4 (fun m hm => hin m (List.mem_cons_of_mem _ hm)) lastN hl'
    obtain ⟨a', ha', _, h1, h2, h3, _⟩ := hin a List.mem_cons_self
    have hs : sumDur (a :: b :: rest) = (a.stop - a.start) + sumDur (b :: rest) := by
      simp [sumDur]
    rw [hs]
    constructor
    · intro hn
      have := Walk.step a.key a' b.key _ _ ha' (by rw [h3]; exact l2) (i1 hn)
      rw [h1, h2] at this; exact this
    · intro t d e ht hw
      have := Walk.step a.key a' b.key _ _ ha' (by rw [h3]; exact l2) (i2 t d e ht hw)
      rw [h1, h2] at this
      rw [Nat.add_assoc]; exact this



theorem lk_some (ns : List Note) (x : Nat) (n : Note) (h : lk ns x = some n) : n.key = x ∧ n ∈ ns := by
  unfold lk at h
  exact ⟨by simpa using List.find?_some h, List.mem_of_find?_eq_some h⟩

theorem find_self (more : List Note) (hnd : (more.map (·.key)).Nodup) : ∀ m ∈ more,
    more.find? (fun (y : Note) => decide (y.key = m.key)) = some m := by
  induction more with
  | nil => intro m hm; simp at hm
  | cons a as ih =>
    intro m hm
    rw [List.map_cons] at hnd
    have hnd' := List.nodup_cons.mp hnd
    simp only [List.find?_cons, decide_eq_true_eq]
    rcases List.mem_cons.mp hm with rfl | hm
    · simp
    · have : a.key ≠ m.key := by
        intro h; apply hnd'.1; rw [h]; exact List.mem_map.mpr ⟨m, hm, rfl⟩
      simp only [this, if_false]
      exact ih hnd'.2 m hm

/-- **installing a chain keeps every walk**: summed duration and end of every tie chain that can be walked in
    the old list are the same in the new one -/
theorem install_walk (ns : List Note) (orig : Note) (base : Nat) (ps : List (Nat × Nat × Option Est))
    (hk : lk ns orig.key = some orig) (hbase : freshKey ns ≤ base) (hne : ps ≠ [])
    (ht : PTiles orig.start orig.stop ps) :
    ∀ x d e, Walk ns x d e → Walk (installChain ns orig (mkChain orig base ps)) x d e := by
  have sp := chainFrom_spec orig base ps 0 orig.tiePrev orig.key orig.id orig.start orig.stop hne ht
  have hkeys := chainFrom_keys orig base ps 0 orig.tiePrev orig.key orig.id hne
  obtain ⟨first, more, hc, _, hfk, _, _⟩ := sp.head
  have hc' : mkChain orig base ps = first :: more := hc
  rw [hc'] 
  rw [hc, List.map_cons] at hkeys
  have hmk : more.map (·.key) = (List.range (ps.length - 1)).map (fun j => base + 0 + j) := (List.cons.inj hkeys).2
  have hnd : (more.map (·.key)).Nodup := by
    rw [hmk]
    exact List.Nodup.map (f := fun j => base + 0 + j) (by intro a b h; simp only at h; omega) List.nodup_range
  have hge : ∀ m ∈ more, base ≤ m.key := by
    intro m hm
    have : m.key ∈ more.map (·.key) := List.mem_map.mpr ⟨m, hm, rfl⟩
    rw [hmk] at this
    obtain ⟨j, _, hj⟩ := List.mem_map.mp this
    omega
  obtain ⟨r, hr, hlk⟩ := lk_install ns orig first more hfk (fun m hm => Nat.le_trans hbase (hge m hm)) hnd
  -- old keys are not keys of new pieces
  have hold : ∀ x n, lk ns x = some n → more.find? (fun (m : Note) => decide (m.key = x)) = none := by
    intro x n hn
    obtain ⟨h1, h2⟩ := lk_some ns x n hn
    have := freshKey_gt ns n h2
    rw [List.find?_eq_none]
    intro m hm hcm
    simp only [decide_eq_true_eq] at hcm
    have := hge m hm
    omega
  -- every member of the chain is found in the new list
  have hin : ∀ m ∈ first :: more, ∃ m', lk (installChain ns orig (first :: more)) m.key = some m' ∧ UpTo m m' := by
    intro m hm
    rcases List.mem_cons.mp hm with rfl | hm
    · refine ⟨r m, ?_, hr m⟩
      rw [hlk, hfk, hold _ _ hk, hk]
      simp
    · refine ⟨r m, ?_, hr m⟩
      rw [hlk, find_self more hnd m hm]
      rfl
  obtain ⟨lastN, hl1, hl2, hl3, _⟩ := sp.last
  rw [hc] at hl1
  have hlinked : Linked (first :: more) := by rw [← hc]; exact sp.linked
  obtain ⟨wc1, wc2⟩ := walk_chain _ more first hlinked hin lastN hl1
  have hsum : sumDur (first :: more) = orig.stop - orig.start := by rw [← hc]; exact sp.sum
  rw [hsum, hfk, hl2] at wc1
  rw [hsum, hfk] at wc2
  -- other notes are found as they were
  have hother : ∀ x n, lk ns x = some n → x ≠ orig.key →
      ∃ n', lk (installChain ns orig (first :: more)) x = some n' ∧ UpTo n n' := by
    intro x n hn hx
    refine ⟨r n, ?_, hr n⟩
    rw [hlk, hold x n hn, hn]
    have : ¬ (n.key = orig.key) := by rw [(lk_some ns x n hn).1]; exact hx
    simp [this]
  intro x d e hw
  induction hw with
  | last x n hn htn =>
    by_cases hx : x = orig.key
    · subst hx
      have : n = orig := by rw [hk] at hn; exact (Option.some.inj hn).symm
      subst this
      exact wc1 (by rw [hl3]; exact htn)
    · obtain ⟨n', hn', _, h1, h2, h3, _⟩ := hother x n hn hx
      have := Walk.last x n' hn' (by rw [h3]; exact htn)
      rw [h1, h2] at this; exact this
  | step x n t d e hn htn _ ih =>
    by_cases hx : x = orig.key
    · subst hx
      have : n = orig := by rw [hk] at hn; exact (Option.some.inj hn).symm
      subst this
      exact wc2 t d e (by rw [hl3]; exact htn) ih
    · obtain ⟨n', hn', _, h1, h2, h3, _⟩ := hother x n hn hx
      have := Walk.step x n' t d e hn' (by rw [h3]; exact htn) ih
      rw [h1, h2] at this; exact this

-- ------------------------------------------------------------------ tie_notes


theorem cutPoints_cons_lt : ∀ (ms : List Nat) (start stop c : Nat) (cs : List Nat),
    cutPoints start stop ms = c :: cs → start < stop := by
  intro ms
  induction ms with
  | nil => intro start stop c cs h; simp [cutPoints] at h
  | cons m ms ih =>
    intro start stop c cs h
    unfold cutPoints at h
    split at h
    · exact ih start stop c cs h
    · split at h
      · omega
      · cases h

/-- what stays of a note under its key: onset, pitch, voice, staff, id; a note that had a `tie_prev` still has one -/
def RowKept (ns ns' : List Note) : Prop :=
  ∀ x n, lk ns x = some n → ∃ n', lk ns' x = some n' ∧ n'.start = n.start ∧ n'.pitch = n.pitch ∧
    n'.voice = n.voice ∧ n'.staff = n.staff ∧ n'.id = n.id ∧ (n.tiePrev.isSome → n'.tiePrev.isSome)

theorem rowKept_refl (ns : List Note) : RowKept ns ns :=
  fun _ n h => ⟨n, h, rfl, rfl, rfl, rfl, rfl, id⟩

theorem rowKept_trans {a b c : List Note} (h1 : RowKept a b) (h2 : RowKept b c) : RowKept a c := by
  intro x n hn
  obtain ⟨n', hn', e1, e2, e3, e4, e5, e6⟩ := h1 x n hn
  obtain ⟨n'', hn'', f1, f2, f3, f4, f5, f6⟩ := h2 x n' hn'
  exact ⟨n'', hn'', f1.trans e1, f2.trans e2, f3.trans e3, f4.trans e4, f5.trans e5, fun h => f6 (e6 h)⟩

theorem install_rows (ns : List Note) (orig : Note) (base : Nat) (ps : List (Nat × Nat × Option Est))
    (hk : lk ns orig.key = some orig) (hbase : freshKey ns ≤ base) (hne : ps ≠ [])
    (ht : PTiles orig.start orig.stop ps) :
    RowKept ns (installChain ns orig (mkChain orig base ps)) := by
  have sp := chainFrom_spec orig base ps 0 orig.tiePrev orig.key orig.id orig.start orig.stop hne ht
  have hkeys := chainFrom_keys orig base ps 0 orig.tiePrev orig.key orig.id hne
  obtain ⟨first, more, hc, hfs, hfk, hfid, hfp⟩ := sp.head
  have hc' : mkChain orig base ps = first :: more := hc
  rw [hc']
  rw [hc, List.map_cons] at hkeys
  have hmk : more.map (·.key) = (List.range (ps.length - 1)).map (fun j => base + 0 + j) := (List.cons.inj hkeys).2
  have hnd : (more.map (·.key)).Nodup := by
    rw [hmk]
    exact List.Nodup.map (f := fun j => base + 0 + j) (by intro a b h; simp only at h; omega) List.nodup_range
  have hge : ∀ m ∈ more, base ≤ m.key := by
    intro m hm
    have : m.key ∈ more.map (·.key) := List.mem_map.mpr ⟨m, hm, rfl⟩
    rw [hmk] at this
    obtain ⟨j, _, hj⟩ := List.mem_map.mp this
    omega
  obtain ⟨r, hr, hlk⟩ := lk_install ns orig first more hfk (fun m hm => Nat.le_trans hbase (hge m hm)) hnd
  have hsame := sp.same first (by rw [hc]; exact List.mem_cons_self)
  intro x n hn
  have hold : more.find? (fun (m : Note) => decide (m.key = x)) = none := by
    obtain ⟨h1, h2⟩ := lk_some ns x n hn
    have := freshKey_gt ns n h2
    rw [List.find?_eq_none]
    intro m hm hcm
    simp only [decide_eq_true_eq] at hcm
    have := hge m hm
    omega
  by_cases hx : x = orig.key
  · subst hx
    have : n = orig := by rw [hk] at hn; exact (Option.some.inj hn).symm
    subst this
    obtain ⟨_, u1, _, _, u4, u5, u6, u7, u8, _⟩ := hr first
    refine ⟨r first, ?_, by rw [u1, hfs], by rw [u4, hsame.1], by rw [u5, hsame.2.1], by rw [u6, hsame.2.2],
      by rw [u7, hfid], ?_⟩
    · rw [hlk, hold, hn]; simp
    · intro h; apply u8; rw [hfp]; exact h
  · obtain ⟨_, u1, _, _, u4, u5, u6, u7, u8, _⟩ := hr n
    refine ⟨r n, ?_, u1, u4, u5, u6, u7, u8⟩
    rw [hlk, hold, hn]
    have : ¬ (n.key = orig.key) := by rw [(lk_some ns x n hn).1]; exact hx
    simp [this]

theorem tieOne_sound (qd : List (Int × Nat)) (ms : List Nat) (ns : List Note) (k : Nat) :
    (∀ x d e, Walk ns x d e → Walk (tieOne qd ms ns k) x d e) ∧ RowKept ns (tieOne qd ms ns k) := by
  unfold tieOne
  cases hn : ns.find? (·.key = k) with
  | none => exact ⟨fun _ _ _ h => h, rowKept_refl ns⟩
  | some note =>
    simp only
    cases hcut : cutPoints note.start note.stop ms with
    | nil => exact ⟨fun _ _ _ h => h, rowKept_refl ns⟩
    | cons c cs =>
      simp only
      have hlt := cutPoints_cons_lt ms note.start note.stop c cs hcut
      have hkk : note.key = k := (lk_some ns k note hn).1
      have hk : lk ns note.key = some note := by rw [hkk]; exact hn
      have ht := cutPoints_tiles (fun b => some (estimateI (b.2 - b.1) (quarterAt qd b.1))) ms note.start note.stop hlt
      rw [hcut] at ht
      have hne : (pieceBounds note.start note.stop (c :: cs)).map
          (fun b => (b.1, b.2, some (estimateI (b.2 - b.1) (quarterAt qd b.1)))) ≠ [] := by
        intro h; rw [h] at ht
        have : note.start = note.stop := ht
        omega
      exact ⟨install_walk ns note (freshKey ns) _ hk (Nat.le_refl _) hne ht,
             install_rows ns note (freshKey ns) _ hk (Nat.le_refl _) hne ht⟩

/-- **stage 1 of `tie_notes` keeps what sounds**: every tie chain keeps its summed duration and its end, every
    note keeps its onset, pitch, voice, staff and id under its key (for all note lists, all measure starts) -/
theorem tieStage1_sound (qd : List (Int × Nat)) (ms : List Nat) (ns : List Note) :
    (∀ x d e, Walk ns x d e → Walk (tieStage1 qd ms ns) x d e) ∧ RowKept ns (tieStage1 qd ms ns) := by
  unfold tieStage1
  generalize ns.map (·.key) = ks
  induction ks generalizing ns with
  | nil => exact ⟨fun _ _ _ h => h, rowKept_refl ns⟩
  | cons k ks ih =>
    rw [List.foldl_cons]
    obtain ⟨w1, r1⟩ := tieOne_sound qd ms ns k
    obtain ⟨w2, r2⟩ := ih (tieOne qd ms ns k)
    exact ⟨fun x d e h => w2 x d e (w1 x d e h), rowKept_trans r1 r2⟩

-- ------------------------------------------------------------------ sanitize_part


/-- every tie link of the list joins adjacent notes, and no note ends before it starts -/
def ContigAll (ns : List Note) : Prop :=
  ∀ n ∈ ns, n.start ≤ n.stop ∧ ∀ t nx, n.tieNext = some t → ns.find? (·.key = t) = some nx → nx.start = n.stop

theorem chainEndDur_contig (ns : List Note) (hc : ContigAll ns) : ∀ (fuel : Nat) (n : Note), n ∈ ns →
    (chainEndDur ns fuel n).1 = n.start + (chainEndDur ns fuel n).2 := by
  intro fuel
  induction fuel with
  | zero =>
    intro n hn
    have := (hc n hn).1
    simp only [chainEndDur]; omega
  | succ f ih =>
    intro n hn
    have h0 := (hc n hn).1
    unfold chainEndDur
    split
    · simp only; omega
    · rename_i nx hnx
      cases ht : n.tieNext with
      | none => rw [ht] at hnx; simp at hnx
      | some t =>
        rw [ht] at hnx
        simp only [Option.bind_some] at hnx
        have hmem : nx ∈ ns := List.mem_of_find?_eq_some hnx
        have hadj := (hc n hn).2 t nx ht hnx
        have := ih nx hmem
        simp only
        omega

/-- **sanitize keeps well-formed ties**: when every tie link joins adjacent notes the tie check of
    `sanitize_part` changes nothing, whatever the tolerance -/
theorem sanitizeStep_noop (ns : List Note) (tol : Nat) (hc : ContigAll ns) (h : Note) : sanitizeStep tol ns h = ns := by
  unfold sanitizeStep
  split
  · rfl
  · rename_i n hn
    have hmem : n ∈ ns := List.mem_of_find?_eq_some hn
    have := chainEndDur_contig ns hc ns.length n hmem
    simp only
    split
    · rename_i hbig
      exfalso
      rw [this] at hbig
      have : ((n.start + (chainEndDur ns ns.length n).2 : Nat) : Int) - (n.start : Int) -
          ((chainEndDur ns ns.length n).2 : Int) = 0 := by push_cast; omega
      rw [this] at hbig
      simp at hbig
    · rfl

/-- **sanitize keeps well-formed ties**: when every tie link joins adjacent notes the tie check of
    `sanitize_part` changes nothing, whatever the tolerance -/
theorem sanitize_noop (ns : List Note) (tol : Nat) (hc : ContigAll ns) : sanitizeTies ns tol = ns := by
  unfold sanitizeTies
  generalize ns.filter (fun n => n.tiePrev.isNone ∧ n.tieNext.isSome) = heads
  induction heads with
  | nil => rfl
  | cons h rest ih => rw [List.foldl_cons, sanitizeStep_noop ns tol hc h]; exact ih

end C11Walk
