/-
C04 — the whole exporter: inversion of `saveScoreMidi`, routing of every sounding note to its track
and channel, and the notes of a track as a permutation of the notes routed to it.
-/
import Mathlib.Data.List.Perm.Basic
import Mathlib.Tactic.Linarith
import PartituraModel.Proofs.C04Pair
import PartituraModel.Proofs.C04Ticks
import Mathlib.Data.List.Forall2
import PartituraModel.Proofs.C04Group
import PartituraModel.Proofs.C04Meta
import PartituraModel.Proofs.C04Sort
import PartituraModel.Proofs.Round
import PartituraModel.Model.ScoreMidi
import PartituraModel.Model.ScoreMidiSpec

namespace C04E
open Model Model.Ticks Model.MidiPair Model.MidiModes Model.ScoreMidi

-- ------------------------------------------------------------------ what `save_score_midi` computes

/-- the tick function of an export -/
abbrev tkOf (p : Nat) (o : Rat) : PartIn → Nat → Int := fun x t => tick p x.base o t

theorem save_inv (mode : Nat) (a : Anacrusis) (minPpq vel : Nat) (parts : List PartIn) (ex : Exported)
    (h : saveScoreMidi mode a minPpq vel parts = some ex) :
    ∃ o metas tcs n,
      origin a (parts.map (·.base)) = some o ∧
      exportMetas a (tkOf (exportPpq parts minPpq) o) parts = some metas ∧
      mapToTrackChannel mode (noteKeys parts) = some tcs ∧
      (maxList (tcs.map (·.1))).map (· + 1) = some n ∧
      ex = ⟨exportPpq parts minPpq, (List.range n).map
        (exportTrack (exportTempos (tkOf (exportPpq parts minPpq) o) parts) metas
          (exportRecs (tkOf (exportPpq parts minPpq) o) parts) ((noteKeys parts).zip tcs) vel)⟩ := by
  unfold saveScoreMidi at h
  simp only [Option.bind_eq_some_iff, bind, pure] at h
  obtain ⟨o, ho, metas, hm, tcs, htc, n, hn, hex⟩ := h
  refine ⟨o, metas, tcs, n, ho, hm, htc, hn, ?_⟩
  split at hex
  · exact absurd hex (by simp)
  · exact (Option.some.inj hex).symm

-- ------------------------------------------------------------------ routing

/-- the note a record becomes in track `tr`, if its key is mapped to that track -/
def route (ktc : List (Key × (Nat × Nat))) (vel tr : Nat) (r : NoteOut) : Option NoteRec :=
  match lookup r.key ktc with
  | some (t, ch) => if t = tr then some ⟨r.on, r.off, ch, r.pitch, vel⟩ else none
  | none => none

theorem keyMajor_perm (recs : List NoteOut) (ktc : List (Key × (Nat × Nat))) (tr vel : Nat) :
    (keyMajor recs (fun k => lookup k ktc) tr vel).Perm (recs.filterMap (route ktc vel tr)) := by
  have e : keyMajor recs (fun k => lookup k ktc) tr vel =
      (firstSeen (recs.map (·.key))).flatMap fun k => (recs.filter (fun r => r.key = k)).filterMap (route ktc vel tr) := by
    unfold keyMajor
    apply List.flatMap_congr
    intro k _
    beta_reduce
    have hk : ∀ r ∈ recs.filter (fun r => r.key = k), r.key = k := by
      intro r hr
      simpa using (List.mem_filter.mp hr).2
    cases hl : lookup k ktc with
    | none =>
      symm
      simp only
      rw [List.filterMap_eq_nil_iff]
      intro r hr
      simp [route, hk r hr, hl]
    | some tc =>
      obtain ⟨t, ch⟩ := tc
      by_cases ht : t = tr
      · simp only [ht, ↓reduceIte]
        rw [← List.filterMap_eq_map]
        apply List.filterMap_congr
        intro r hr
        simp [route, hk r hr, hl, ht]
      · simp only [ht, ↓reduceIte]
        symm
        rw [List.filterMap_eq_nil_iff]
        intro r hr
        simp [route, hk r hr, hl, ht]
  rw [e, ← List.filterMap_flatMap]
  exact (C04G.firstSeen_group_perm (fun r : NoteOut => r.key) recs).filterMap _

theorem trackNotes_perm (recs : List NoteOut) (ktc : List (Key × (Nat × Nat))) (tr vel : Nat) :
    (trackNotes recs (fun k => lookup k ktc) tr vel).Perm (recs.filterMap (route ktc vel tr)) := by
  unfold trackNotes
  refine ((keyMajor_perm _ ktc tr vel).append (keyMajor_perm _ ktc tr vel)).trans ?_
  rw [← List.filterMap_append]
  apply List.Perm.filterMap
  have := List.filter_append_perm (fun r : NoteOut => decide (r.on ≠ r.off)) recs
  refine List.Perm.trans (List.Perm.of_eq ?_) this
  congr 1
  apply List.filter_congr
  intro r _
  simp

-- ------------------------------------------------------------------ `mapM` on `Option`, `Forall₂`

theorem mapM_some {α β : Type} (f : α → Option β) :
    ∀ (l : List α) (r : List β), l.mapM f = some r → List.Forall₂ (fun x y => f x = some y) l r := by
  intro l
  induction l with
  | nil => intro r h; simp at h; subst h; exact List.Forall₂.nil
  | cons x xs ih =>
    intro r h
    rw [List.mapM_cons] at h
    simp only [Option.bind_eq_some_iff, bind, pure] at h
    obtain ⟨y, hy, ys, hys, hr⟩ := h
    cases hr
    exact List.Forall₂.cons hy (ih ys hys)

theorem forall₂_flatMap_perm {α β γ : Type} {R : α → β → Prop} {l : List α} {r : List β}
    (h : List.Forall₂ R l r) (f : α → List γ) (g : β → List γ) (hfg : ∀ x y, R x y → (f x).Perm (g y)) :
    (l.flatMap f).Perm (r.flatMap g) := by
  induction h with
  | nil => simp
  | cons hxy _ ih =>
    rw [List.flatMap_cons, List.flatMap_cons]
    exact (hfg _ _ hxy).append ih

theorem forall₂_flatMap_eq {α β γ : Type} {R : α → β → Prop} {l : List α} {r : List β}
    (h : List.Forall₂ R l r) (f : α → List γ) (g : β → List γ) (hfg : ∀ x y, R x y → f x = g y) :
    l.flatMap f = r.flatMap g := by
  induction h with
  | nil => simp
  | cons hxy _ ih =>
    rw [List.flatMap_cons, List.flatMap_cons, hfg _ _ hxy, ih]

theorem forall₂_mem_right {α β : Type} {R : α → β → Prop} {l : List α} {r : List β}
    (h : List.Forall₂ R l r) : ∀ y ∈ r, ∃ x ∈ l, R x y := by
  induction h with
  | nil => simp
  | cons hxy _ ih =>
    intro y hy
    rcases List.mem_cons.mp hy with rfl | hy
    · exact ⟨_, List.mem_cons_self, hxy⟩
    · obtain ⟨x, hx, hr⟩ := ih y hy
      exact ⟨x, List.mem_cons_of_mem _ hx, hr⟩

theorem forall₂_mem_left {α β : Type} {R : α → β → Prop} {l : List α} {r : List β}
    (h : List.Forall₂ R l r) : ∀ x ∈ l, ∃ y ∈ r, R x y := by
  induction h with
  | nil => simp
  | cons hxy _ ih =>
    intro x hx
    rcases List.mem_cons.mp hx with rfl | hx
    · exact ⟨_, List.mem_cons_self, hxy⟩
    · obtain ⟨y, hy, hr⟩ := ih x hx
      exact ⟨y, List.mem_cons_of_mem _ hy, hr⟩

/-- `meta_events`: per part (in order) its index and the flattened dict of `partMetas` -/
theorem exportMetas_spec (a : Anacrusis) (tk : PartIn → Nat → Int) (parts : List PartIn)
    (metas : List (Nat × List (Int × Msg))) (h : exportMetas a tk parts = some metas) :
    List.Forall₂ (fun (xi : PartIn × Nat) e => ∃ d, partMetas a xi.1 (tk xi.1) = some d ∧ e = (xi.2, flattenDict d))
      parts.zipIdx metas := by
  unfold exportMetas at h
  refine (mapM_some _ _ _ h).imp ?_
  intro xi e hxe
  obtain ⟨x, i⟩ := xi
  simp only [Option.map_eq_some_iff] at hxe
  obtain ⟨d, hd, rfl⟩ := hxe
  exact ⟨d, hd, rfl⟩

-- ------------------------------------------------------------------ events of a track by kind

/-- the note events are neither signatures nor tempi -/
theorem noteEvents_kinds (q : Int × Msg → Bool) (hq : ∀ x, C04P.isNoteMsg x = true → q x = false) (notes : List NoteRec) :
    (noteEvents notes).offs.filter q = [] ∧ (noteEvents notes).zeros.filter q = [] ∧ (noteEvents notes).ons.filter q = [] := by
  obtain ⟨f1, f2, f3⟩ := C04P.noteEvents_filter notes
  refine ⟨?_, ?_, ?_⟩ <;> rw [List.filter_eq_nil_iff] <;> intro x hx
  · have := (List.filter_eq_self.mp f1) x hx
    simp [hq x this]
  · have := (List.filter_eq_self.mp f2) x hx
    simp [hq x this]
  · have := (List.filter_eq_self.mp f3) x hx
    simp [hq x this]

/-- the events of a kind `q` (no note message) of a written track: those of its tempo and signature lists,
    sorted by tick with the tempo first -/
theorem trackOrder_filter (q : Int × Msg → Bool) (hq : ∀ x, C04P.isNoteMsg x = true → q x = false)
    (tempos metas : List (Int × Msg)) (notes : List NoteRec) :
    (trackOrder (trackEvents tempos metas notes)).filter q = sortEv (tempos.filter q ++ metas.filter q) := by
  unfold trackOrder trackEvents
  rw [C04S.sortEv_filter]
  obtain ⟨f1, f2, f3⟩ := noteEvents_kinds q hq notes
  simp only [List.filter_append, f1, f2, f3, List.append_nil]

theorem isKS_note (x : Int × Msg) (h : C04P.isNoteMsg x = true) : C04D.isKS x = false := by
  obtain ⟨t, m⟩ := x
  cases m <;> simp_all [C04D.isKS, C04P.isNoteMsg]

theorem isTS_note (x : Int × Msg) (h : C04P.isNoteMsg x = true) : C04D.isTS x = false := by
  obtain ⟨t, m⟩ := x
  cases m <;> simp_all [C04D.isTS, C04P.isNoteMsg]

theorem isTempo_note (x : Int × Msg) (h : C04P.isNoteMsg x = true) : C04D.isTempo x = false := by
  obtain ⟨t, m⟩ := x
  cases m <;> simp_all [C04D.isTempo, C04P.isNoteMsg]

/-- the tempo events handed to track `tr` -/
def trackTempos (tempos : List (Int × Nat)) (tr : Nat) : List (Int × Msg) :=
  if tr = 0 then tempos.map (fun e => (e.1, Msg.tempo e.2)) else []

theorem trackTempos_kind (tempos : List (Int × Nat)) (tr : Nat) :
    (∀ x ∈ trackTempos tempos tr, C04D.isTempo x = true) ∧ (∀ x ∈ trackTempos tempos tr, C04P.isNoteMsg x = false) := by
  unfold trackTempos
  split
  · constructor <;> intro x hx <;> simp only [List.mem_map] at hx <;> obtain ⟨e, _, rfl⟩ := hx <;> rfl
  · simp

/-- every signature event of a track is a time or key signature -/
theorem trackMetas_kinds (a : Anacrusis) (tk : PartIn → Nat → Int) (parts : List PartIn)
    (metas : List (Nat × List (Int × Msg))) (h : exportMetas a tk parts = some metas)
    (ktc : List (Key × (Nat × Nat))) (tr : Nat) :
    ∀ x ∈ trackMetas metas ktc tr, C04D.isKS x = true ∨ C04D.isTS x = true := by
  intro x hx
  simp only [trackMetas, List.mem_flatMap, List.mem_reverse] at hx
  obtain ⟨e, he, hx⟩ := hx
  split at hx
  · obtain ⟨xi, _, d, hd, rfl⟩ := forall₂_mem_right (exportMetas_spec a tk parts metas h) e he
    exact C04D.partMetas_kinds a xi.1 (tk xi.1) d hd x hx
  · simp at hx

/-- the events of kind `q` of a written track, as a multiset -/
theorem exportTrack_filter (q : Int × Msg → Bool) (hq : ∀ x, C04P.isNoteMsg x = true → q x = false)
    (tempos : List (Int × Nat)) (metas : List (Nat × List (Int × Msg))) (recs : List NoteOut)
    (ktc : List (Key × (Nat × Nat))) (vel tr : Nat) :
    ((exportTrack tempos metas recs ktc vel tr).filter q).Perm
      ((trackTempos tempos tr).filter q ++ (trackMetas metas ktc tr).filter q) := by
  unfold exportTrack
  rw [trackOrder_filter q hq]
  exact C04S.sortEv_perm _

/-- the signature events of kind `q` of a track, in terms of the parts: `img x` is what part `x` contributes -/
theorem trackMetas_filter (a : Anacrusis) (tk : PartIn → Nat → Int) (parts : List PartIn)
    (metas : List (Nat × List (Int × Msg))) (h : exportMetas a tk parts = some metas)
    (ktc : List (Key × (Nat × Nat))) (tr : Nat) (q : Int × Msg → Bool) (img : PartIn → List (Int × Msg))
    (himg : ∀ x d, partMetas a x (tk x) = some d → ((flattenDict d).filter q).Perm (img x)) :
    ((trackMetas metas ktc tr).filter q).Perm
      ((parts.zipIdx).flatMap fun xi => if (tracksOfPart ktc xi.2).contains tr then img xi.1 else []) := by
  unfold trackMetas
  rw [List.filter_flatMap]
  refine ((List.reverse_perm metas).flatMap_right _).trans ?_
  refine (forall₂_flatMap_perm (exportMetas_spec a tk parts metas h) _ _ ?_).symm
  intro xi e hxe
  obtain ⟨d, hd, rfl⟩ := hxe
  simp only
  split
  · exact (himg xi.1 d hd).symm
  · simp

theorem mem_trackMetas (a : Anacrusis) (tk : PartIn → Nat → Int) (parts : List PartIn)
    (metas : List (Nat × List (Int × Msg))) (h : exportMetas a tk parts = some metas)
    (ktc : List (Key × (Nat × Nat))) (tr : Nat) (x : Int × Msg) :
    x ∈ trackMetas metas ktc tr ↔ ∃ xi ∈ parts.zipIdx, (tracksOfPart ktc xi.2).contains tr = true ∧
      ∃ d, partMetas a xi.1 (tk xi.1) = some d ∧ x ∈ flattenDict d := by
  have hf := exportMetas_spec a tk parts metas h
  simp only [trackMetas, List.mem_flatMap, List.mem_reverse]
  constructor
  · rintro ⟨e, he, hx⟩
    split at hx
    · rename_i hc
      obtain ⟨xi, hxi, d, hd, rfl⟩ := forall₂_mem_right hf e he
      exact ⟨xi, hxi, hc, d, hd, hx⟩
    · simp at hx
  · rintro ⟨xi, hxi, hc, d, hd, hx⟩
    obtain ⟨e, he, d', hd', rfl⟩ := forall₂_mem_left hf xi hxi
    rw [hd] at hd'
    cases hd'
    exact ⟨_, he, by rw [if_pos hc]; exact hx⟩

theorem mem_tracksOfPart (ktc : List (Key × (Nat × Nat))) (i tr : Nat) :
    (tracksOfPart ktc i).contains tr = true ↔ ∃ k tc, (k, tc) ∈ ktc ∧ k.2.1 = i ∧ tc.1 = tr := by
  simp only [tracksOfPart, List.contains_iff_mem, List.mem_filterMap]
  constructor
  · rintro ⟨e, he, hx⟩
    split at hx
    · rename_i hi
      cases hx
      exact ⟨e.1, e.2, he, hi, rfl⟩
    · cases hx
  · rintro ⟨k, tc, he, hi, rfl⟩
    exact ⟨(k, tc), he, by simp [hi]⟩

-- ------------------------------------------------------------------ ticks of a note

theorem tick_mono (P : Nat) (b : TimeBase) (o : Rat) (hw : C04T.WellFormed b) (x y : Nat) (hxy : x ≤ y) :
    tick P b o x ≤ tick P b o y := by
  unfold tick
  apply Round.roundHalfEven_mono
  have h := C04T.quarterRaw_mono b hw x y hxy
  have hP : (0 : Rat) ≤ (P : Rat) := by exact_mod_cast Nat.zero_le P
  unfold toTick quarter
  apply mul_le_mul_of_nonneg_left _ hP
  linarith

theorem exportRecs_valid (p : Nat) (o : Rat) (parts : List PartIn) (hw : ∀ x ∈ parts, C04T.WellFormed x.base) :
    ∀ r ∈ exportRecs (tkOf p o) parts, r.on ≤ r.off := by
  intro r hr
  simp only [exportRecs, List.mem_flatMap, List.mem_map] at hr
  obtain ⟨⟨x, i⟩, hxi, n, _, rfl⟩ := hr
  have hx : x ∈ parts := by
    have := List.mem_zipIdx hxi
    simp only [Nat.zero_add] at this
    obtain ⟨_, _, h3⟩ := this
    rw [h3]
    exact List.getElem_mem _
  exact tick_mono p x.base o (hw x hx) _ _ (Nat.le_add_right _ _)

theorem route_valid (ktc : List (Key × (Nat × Nat))) (vel tr : Nat) (hvel : 0 < vel) (recs : List NoteOut)
    (hr : ∀ r ∈ recs, r.on ≤ r.off) : ∀ n ∈ recs.filterMap (route ktc vel tr), C04P.Valid n := by
  intro n hn
  simp only [List.mem_filterMap] at hn
  obtain ⟨r, hrm, hrt⟩ := hn
  unfold route at hrt
  split at hrt
  · split at hrt
    · cases hrt
      exact ⟨hvel, hr r hrm⟩
    · cases hrt
  · cases hrt

theorem compat_symm : ∀ {x y : NoteRec}, C04P.Compat x y → C04P.Compat y x := fun h => h.symm

theorem noOverlap_perm {l₁ l₂ : List NoteRec} (h : l₁.Perm l₂) : C04P.NoOverlap l₁ ↔ C04P.NoOverlap l₂ :=
  h.pairwise_iff compat_symm

-- ------------------------------------------------------------------ the (track, channel) table

theorem lookup_mem {α β : Type} [DecidableEq α] (k : α) (l : List (α × β)) (v : β) (h : lookup k l = some v) :
    (k, v) ∈ l := by
  induction l with
  | nil => simp [lookup] at h
  | cons e rest ih =>
    obtain ⟨a, b⟩ := e
    simp only [lookup] at h
    split at h
    · rename_i hab
      cases h
      subst hab
      exact List.mem_cons_self
    · exact List.mem_cons_of_mem _ (ih h)

theorem lookup_zip_some {α β : Type} [DecidableEq α] (k : α) (keys : List α) (vs : List β)
    (hl : keys.length = vs.length) (hk : k ∈ keys) : ∃ v, lookup k (keys.zip vs) = some v := by
  induction keys generalizing vs with
  | nil => simp at hk
  | cons a as ih =>
    cases vs with
    | nil => simp at hl
    | cons v vs =>
      simp only [List.zip_cons_cons, lookup]
      split
      · exact ⟨v, rfl⟩
      · rename_i hne
        rcases List.mem_cons.mp hk with rfl | hk
        · exact absurd rfl hne
        · exact ih vs (by simpa using hl) hk

theorem foldl_max_ge (l : List Nat) (a : Nat) : a ≤ l.foldl max a ∧ ∀ x ∈ l, x ≤ l.foldl max a := by
  induction l generalizing a with
  | nil => simp
  | cons y ys ih =>
    simp only [List.foldl_cons]
    obtain ⟨h1, h2⟩ := ih (max a y)
    refine ⟨le_trans (le_max_left a y) h1, ?_⟩
    intro x hx
    rcases List.mem_cons.mp hx with rfl | hx
    · exact le_trans (le_max_right a x) h1
    · exact h2 x hx

theorem maxList_ge (l : List Nat) (m : Nat) (h : maxList l = some m) : ∀ x ∈ l, x ≤ m := by
  cases l with
  | nil => simp [maxList] at h
  | cons a as =>
    simp only [maxList, Option.some.injEq] at h
    subst h
    intro x hx
    rcases List.mem_cons.mp hx with rfl | hx
    · exact (foldl_max_ge as x).1
    · exact (foldl_max_ge as a).2 x hx

-- ------------------------------------------------------------------ all tracks together

/-- the note a record becomes, with its track -/
def routeAny (ktc : List (Key × (Nat × Nat))) (vel : Nat) (r : NoteOut) : Option (Nat × NoteRec) :=
  (lookup r.key ktc).map fun tc => (tc.1, ⟨r.on, r.off, tc.2, r.pitch, vel⟩)

theorem route_eq_filter (ktc : List (Key × (Nat × Nat))) (vel tr : Nat) (recs : List NoteOut) :
    recs.filterMap (route ktc vel tr) = ((recs.filterMap (routeAny ktc vel)).filter (fun e => e.1 = tr)).map (·.2) := by
  induction recs with
  | nil => rfl
  | cons r rs ih =>
    simp only [List.filterMap_cons, route, routeAny]
    cases hl : lookup r.key ktc with
    | none => simpa [route] using ih
    | some tc =>
      obtain ⟨t, ch⟩ := tc
      by_cases ht : t = tr
      · simp only [Option.map_some, ht, ↓reduceIte, List.filter_cons, decide_true, List.map_cons]
        rw [← ih]
      · simp only [Option.map_some, ht, ↓reduceIte, List.filter_cons, decide_false, Bool.false_eq_true]
        rw [← ih]

/-- writing every track and collecting the notes routed to the tracks `0 .. n-1` gives every routed note once -/
theorem routes_all (ktc : List (Key × (Nat × Nat))) (vel n : Nat) (recs : List NoteOut)
    (hn : ∀ e ∈ recs.filterMap (routeAny ktc vel), e.1 < n) :
    ((List.range n).flatMap fun tr => recs.filterMap (route ktc vel tr)).Perm
      ((recs.filterMap (routeAny ktc vel)).map (·.2)) := by
  simp only [route_eq_filter]
  rw [← List.map_flatMap]
  apply List.Perm.map
  exact C04G.group_perm_all (fun e : Nat × NoteRec => e.1) (List.range n) List.nodup_range _
    (fun e he => List.mem_range.mpr (hn e he))

-- ------------------------------------------------------------------ the routed notes in terms of the parts

theorem routedTo_eq (p : Nat) (o : Rat) (vel : Nat) (ktc : List (Key × (Nat × Nat))) (parts : List PartIn) (tr : Nat) :
    routedTo p o vel ktc parts tr = (exportRecs (tkOf p o) parts).filterMap (route ktc vel tr) := by
  unfold routedTo exportRecs
  rw [List.filterMap_flatMap]
  apply List.flatMap_congr
  intro xi _
  rw [List.filterMap_map]
  apply List.filterMap_congr
  intro n _
  simp only [Function.comp, route]
  cases lookup (xi.1.group, xi.2, n.2.2.2) ktc with
  | none => rfl
  | some tc => rfl

theorem flatMap_zipIdx {α β : Type} (f : α → List β) (l : List α) (k : Nat) :
    ((l.zipIdx k).flatMap fun xi => f xi.1) = l.flatMap f := by
  induction l generalizing k with
  | nil => rfl
  | cons x xs ih => rw [List.zipIdx_cons, List.flatMap_cons, List.flatMap_cons, ih]

theorem mem_exportRecs_key (tk : PartIn → Nat → Int) (parts : List PartIn) :
    ∀ r ∈ exportRecs tk parts, r.key ∈ noteKeys parts := by
  intro r hr
  unfold noteKeys
  rw [C04G.mem_firstSeen]
  simp only [exportRecs, List.mem_flatMap, List.mem_map] at hr ⊢
  obtain ⟨xi, hxi, n, hn, rfl⟩ := hr
  exact ⟨xi, hxi, n, hn, rfl⟩

/-- when every key has an entry, the routed notes of all records are all records -/
theorem routeAny_all (ktc : List (Key × (Nat × Nat))) (vel : Nat) (recs : List NoteOut)
    (hall : ∀ r ∈ recs, ∃ tc, lookup r.key ktc = some tc) :
    ((recs.filterMap (routeAny ktc vel)).map fun e => (e.2.on, e.2.pitch, e.2.off - e.2.on)) =
      recs.map fun r => (r.on, r.pitch, r.off - r.on) := by
  induction recs with
  | nil => rfl
  | cons r rs ih =>
    obtain ⟨tc, htc⟩ := hall r List.mem_cons_self
    simp only [List.filterMap_cons, routeAny, htc, Option.map_some, List.map_cons]
    rw [← ih (fun r' hr' => hall r' (List.mem_cons_of_mem _ hr'))]

theorem exportRecs_rows (p : Nat) (o : Rat) (parts : List PartIn) :
    (exportRecs (tkOf p o) parts).map (fun r => (r.on, r.pitch, r.off - r.on)) = writtenRows p o parts := by
  unfold exportRecs writtenRows
  rw [List.map_flatMap, ← flatMap_zipIdx (fun x : PartIn => x.notes.map fun n =>
    (tick p x.base o n.1, n.2.2.1, tick p x.base o (n.1 + n.2.1) - tick p x.base o n.1)) parts 0]
  apply List.flatMap_congr
  intro xi _
  rw [List.map_map]
  rfl

end C04E
