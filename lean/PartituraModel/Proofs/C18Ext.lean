/-
C18 (round 5) — lemmas about Model/CodecX.lean: the zero-order interpolator of `tempo_by_average`, the tempo curves
sampled at any `input_onsets`, `monotonize_times` without abscissae, `decode_performance` with everything it returns.
-/
import PartituraModel.Model.CodecX
import PartituraModel.Proofs.C18Decode

namespace C18P
open Model Model.Codec

-- ------------------------------------------------------------------ zero-order hold

theorem holdAt_head_gt (ks : List (Rat × Rat)) (y q : Rat) (h : ∀ k ∈ ks.head?, q < k.1) : holdAt ks y q = y := by
  cases ks with
  | nil => rfl
  | cons k rest =>
    obtain ⟨x, v⟩ := k
    have := h (x, v) (by simp)
    simp only [holdAt]
    rw [if_neg (not_le.mpr this)]

theorem holdAt_knot (ks : List (Rat × Rat)) (hx : IncX ks) (x y y' : Rat) (hm : (x, y) ∈ ks) :
    holdAt ks y' x = y := by
  induction ks generalizing y' with
  | nil => simp at hm
  | cons k rest ih =>
    obtain ⟨a, v⟩ := k
    have hx' := List.pairwise_cons.mp hx
    rcases List.mem_cons.mp hm with h | h
    · simp only [Prod.mk.injEq] at h
      obtain ⟨rfl, rfl⟩ := h
      simp only [holdAt, le_refl, if_true]
      apply holdAt_head_gt
      intro k hk
      have hk' : k ∈ rest := List.mem_of_mem_head? hk
      exact hx'.1 k hk'
    · have hlt : a < x := hx'.1 (x, y) h
      simp only [holdAt]
      rw [if_pos (le_of_lt hlt)]
      exact ih hx'.2 v h

theorem holdAt_mem (ks : List (Rat × Rat)) (y q : Rat) : holdAt ks y q = y ∨ holdAt ks y q ∈ ks.map (·.2) := by
  induction ks generalizing y with
  | nil => left; rfl
  | cons k rest ih =>
    obtain ⟨a, v⟩ := k
    simp only [holdAt]
    split
    · rcases ih v with h | h
      · right; rw [h]; simp
      · right; simp only [List.map_cons, List.mem_cons]; right; exact h
    · left; rfl

theorem le_lastX (x0 : Rat) (ks : List (Rat × Rat)) (y0 : Rat) (hx : IncX ((x0, y0) :: ks)) :
    ∀ k ∈ (x0, y0) :: ks, k.1 ≤ lastX x0 ks := by
  induction ks generalizing x0 y0 with
  | nil => intro k hk; simp at hk; subst hk; simp [lastX]
  | cons k1 rest ih =>
    obtain ⟨x1, y1⟩ := k1
    have hx' := List.pairwise_cons.mp hx
    intro k hk
    simp only [lastX]
    have h1 := ih x1 y1 hx'.2
    rcases List.mem_cons.mp hk with rfl | hk
    · have : x0 < x1 := hx'.1 (x1, y1) (by simp)
      have := h1 (x1, y1) (by simp)
      simp only at *
      linarith
    · exact h1 k hk

/-- the zero-order interpolator passes through its knots (strictly increasing abscissae) -/
theorem zeroHold_knot (ks : List (Rat × Rat)) (hx : IncX ks) (lo hi x y : Rat) (hm : (x, y) ∈ ks) :
    zeroHold ks lo hi x = some y := by
  unfold zeroHold
  rw [sortKnots_of_incX ks hx]
  cases ks with
  | nil => simp at hm
  | cons k0 rest =>
    obtain ⟨x0, y0⟩ := k0
    cases rest with
    | nil =>
      simp only [List.mem_singleton, Prod.mk.injEq] at hm
      simp [hm.2]
    | cons k1 rest =>
      simp only
      have hx' := List.pairwise_cons.mp hx
      have hle := le_lastX x0 (k1 :: rest) y0 hx (x, y) hm
      simp only at hle
      rcases List.mem_cons.mp hm with h | h
      · simp only [Prod.mk.injEq] at h
        obtain ⟨rfl, rfl⟩ := h
        rw [if_neg (lt_irrefl _), if_neg (not_lt.mpr hle)]
        congr 1
        apply holdAt_head_gt
        intro k hk
        simp only [List.head?_cons, Option.mem_def, Option.some.injEq] at hk
        subst hk
        exact hx'.1 _ (by simp)
      · have hlt : x0 < x := hx'.1 (x, y) h
        rw [if_neg (not_lt.mpr (le_of_lt hlt)), if_neg (not_lt.mpr hle)]
        congr 1
        exact holdAt_knot _ hx'.2 x y y0 h

/-- every value of the zero-order interpolator is one of the two fill values or the ordinate of a knot -/
theorem zeroHold_range (ks : List (Rat × Rat)) (hne : ks ≠ []) (lo hi q : Rat) :
    ∃ v, zeroHold ks lo hi q = some v ∧ (v = lo ∨ v = hi ∨ v ∈ ks.map (·.2)) := by
  unfold zeroHold
  have hperm : (sortKnots ks).Perm ks := perm_isort _ ks
  have hmem : ∀ v, v ∈ (sortKnots ks).map (·.2) → v ∈ ks.map (·.2) := by
    intro v hv
    exact (hperm.map _).mem_iff.mp hv
  cases hs : sortKnots ks with
  | nil =>
    rw [hs] at hperm
    exact absurd hperm.symm.eq_nil hne
  | cons k0 rest =>
    obtain ⟨x0, y0⟩ := k0
    rw [hs] at hmem
    cases rest with
    | nil => exact ⟨y0, rfl, Or.inr (Or.inr (hmem y0 (by simp)))⟩
    | cons k1 rest =>
      simp only
      split
      · exact ⟨lo, rfl, Or.inl rfl⟩
      · split
        · exact ⟨hi, rfl, Or.inr (Or.inl rfl)⟩
        · refine ⟨_, rfl, Or.inr (Or.inr ?_)⟩
          rcases holdAt_mem (k1 :: rest) y0 q with h | h
          · rw [h]; exact hmem y0 (by simp)
          · apply hmem
            simp only [List.map_cons, List.mem_cons] at h ⊢
            right; exact h

-- ------------------------------------------------------------------ tempo curves at any sampling points

theorem tempoSeqs_xs (ns : List MNote) (gs : List (Grp MNote)) (xs ss mono : List Rat)
    (h : tempoSeqs ns gs = some (xs, ss, mono)) : ∃ ls, xs = groupMeans (·.so) gs ++ [ls] := by
  unfold tempoSeqs at h
  split at h
  · rename_i ls lp _ _
    simp only at h
    split at h
    · simp only [Option.some.injEq, Prod.mk.injEq] at h
      exact ⟨ls, h.1.symm⟩
    · simp at h
  · simp at h

/-- without `input_onsets` the sampled derivative curve is `tempoDerivative` (any grouping) -/
theorem tempoDerivativeAt_none (ns : List MNote) (gs : List (Grp MNote)) :
    tempoDerivativeAt ns gs none = tempoDerivative ns gs := by
  unfold tempoDerivativeAt tempoDerivative
  cases h : tempoSeqs ns gs with
  | none => rfl
  | some t =>
    obtain ⟨xs, ss, mono⟩ := t
    obtain ⟨ls, hls⟩ := tempoSeqs_xs ns gs xs ss mono h
    simp only [Option.getD_none]
    rw [hls, List.dropLast_concat]

theorem forall₂_zeroHold_knots (xs ys : List Rat) (lo hi : Rat) (hx : xs.Pairwise (· < ·)) (hlen : xs.length = ys.length) :
    List.Forall₂ (fun x y => zeroHold (xs.zip ys) lo hi x = some y) xs ys := by
  rw [List.forall₂_iff_get]
  refine ⟨hlen, ?_⟩
  intro i h1 h2
  apply zeroHold_knot _ (zip_incX _ _ hx)
  have : i < (xs.zip ys).length := by simp [List.length_zip]; omega
  have e : (xs.zip ys)[i] = (xs[i], ys[i]) := by simp
  simp only [List.get_eq_getElem]
  rw [← e]
  exact List.getElem_mem this

/-- the data `tempo_by_average` works with, for the built-in grouping: unique score onsets `us` (strictly increasing),
    one positive beat period per onset -/
theorem tempoAverage_data (ns : List MNote) (hne : ns ≠ []) (hsd : ∀ x ∈ ns, 0 ≤ x.sd) (hpd : ∀ x ∈ ns, 0 ≤ x.pd) :
    ∃ xs ss mono us bp, tempoSeqs ns (encGroups ns) = some (xs, ss, mono) ∧ xs.dropLast = us ∧
      bp = List.zipWith (· / ·) (diffs mono) (diffs xs) ∧ us.Pairwise (· < ·) ∧ us.length = bp.length ∧
      bp ≠ [] ∧ (∀ b ∈ bp, 0 < b) ∧ tempoAverage ns (encGroups ns) = some bp := by
  obtain ⟨xs, ss, mono, h1, ⟨ls, hxs⟩, h3, h4, h5⟩ := tempoSeqs_spec ns hne hsd hpd
  have hgs0 : encGroups ns ≠ [] := groupsBy_ne_nil_of_ne_nil _ ns hne
  have hlen := h5.length_eq
  have hbl : (List.zipWith (· / ·) (diffs mono) (diffs xs)).length = (groupMeans (·.so) (encGroups ns)).length := by
    rw [List.length_zipWith, diffs_length, diffs_length, ← hlen, hxs]
    simp
  refine ⟨xs, ss, mono, groupMeans (·.so) (encGroups ns), _, h1, by rw [hxs, List.dropLast_concat], rfl,
    groupMeans_so_strict ns, hbl.symm, ?_, zipWith_div_pos _ _ (diffs_pos mono h4) (diffs_pos xs h3), ?_⟩
  · intro h0
    rw [h0] at hbl
    have := List.length_pos_iff.mpr hgs0
    simp [groupMeans] at hbl
    omega
  · unfold tempoAverage; rw [h1]

/-- without `input_onsets` the sampled curve is the list of beat periods itself: the zero-order interpolator is
    evaluated at its own knots -/
theorem tempoAverageAt_none (ns : List MNote) (hne : ns ≠ []) (hsd : ∀ x ∈ ns, 0 ≤ x.sd) (hpd : ∀ x ∈ ns, 0 ≤ x.pd) :
    tempoAverageAt ns (encGroups ns) none = tempoAverage ns (encGroups ns) := by
  obtain ⟨xs, ss, mono, us, bp, h1, h2, h3, h4, h5, h6, _, h8⟩ := tempoAverage_data ns hne hsd hpd
  rw [h8]
  unfold tempoAverageAt
  rw [h1]
  simp only [← h3, h2, Option.getD_none]
  obtain ⟨b0, hb0⟩ : ∃ b0, bp.head? = some b0 := by
    cases bp with
    | nil => exact absurd rfl h6
    | cons b t => exact ⟨b, rfl⟩
  obtain ⟨bl, hbl⟩ : ∃ bl, bp.getLast? = some bl := by
    rw [← Option.isSome_iff_exists]
    cases bp with
    | nil => exact absurd rfl h6
    | cons b t => simp
  rw [hb0, hbl]
  exact allSome_of_forall₂ _ _ _ (forall₂_zeroHold_knots us bp b0 bl h4 h5)

/-- sampled at ANY `input_onsets`, `tempo_by_average` returns one positive beat period per sampling point -/
theorem tempoAverageAt_pos (ns : List MNote) (hne : ns ≠ []) (hsd : ∀ x ∈ ns, 0 ≤ x.sd) (hpd : ∀ x ∈ ns, 0 ≤ x.pd)
    (inputs : List Rat) :
    ∃ out, tempoAverageAt ns (encGroups ns) (some inputs) = some out ∧ out.length = inputs.length ∧ ∀ b ∈ out, 0 < b := by
  obtain ⟨xs, ss, mono, us, bp, h1, h2, h3, h4, h5, h6, h7, _⟩ := tempoAverage_data ns hne hsd hpd
  unfold tempoAverageAt
  rw [h1]
  simp only [← h3, h2, Option.getD_some]
  obtain ⟨b0, hb0⟩ : ∃ b0, bp.head? = some b0 := by
    cases bp with
    | nil => exact absurd rfl h6
    | cons b t => exact ⟨b, rfl⟩
  obtain ⟨bl, hbl⟩ : ∃ bl, bp.getLast? = some bl := by
    rw [← Option.isSome_iff_exists]
    cases bp with
    | nil => exact absurd rfl h6
    | cons b t => simp
  rw [hb0, hbl]
  have hb0m : b0 ∈ bp := List.mem_of_mem_head? hb0
  have hblm : bl ∈ bp := List.mem_of_getLast? hbl
  have hzne : us.zip bp ≠ [] := by
    intro h0
    have := congrArg List.length h0
    simp only [List.length_zip, List.length_nil] at this
    have := List.length_pos_iff.mpr h6
    omega
  apply allSome_map_pos
  intro x
  obtain ⟨v, hv, hcase⟩ := zeroHold_range (us.zip bp) hzne b0 bl x
  refine ⟨v, hv, ?_⟩
  rcases hcase with rfl | rfl | hm
  · exact h7 _ hb0m
  · exact h7 _ hblm
  · obtain ⟨k, hk, rfl⟩ := List.mem_map.mp hm
    exact h7 _ (List.of_mem_zip hk).2

/-- the same for `tempo_by_derivative` -/
theorem tempoDerivativeAt_pos (ns : List MNote) (hne : ns ≠ []) (hsd : ∀ x ∈ ns, 0 ≤ x.sd) (hpd : ∀ x ∈ ns, 0 ≤ x.pd)
    (inputs : List Rat) :
    ∃ out, tempoDerivativeAt ns (encGroups ns) (some inputs) = some out ∧ out.length = inputs.length ∧ ∀ b ∈ out, 0 < b := by
  obtain ⟨xs, ss, mono, h1, ⟨ls, hxs⟩, h3, h4, h5⟩ := tempoSeqs_spec ns hne hsd hpd
  have hgs0 : encGroups ns ≠ [] := groupsBy_ne_nil_of_ne_nil _ ns hne
  have hlen := h5.length_eq
  have hkx : IncX (xs.zip mono) := zip_incX _ _ h3
  have hky : IncY (xs.zip mono) := zip_incY _ _ h4
  have hk2 : 2 ≤ (xs.zip mono).length := by
    rw [List.length_zip, ← hlen, hxs]
    have := List.length_pos_iff.mpr hgs0
    simp [groupMeans]
    omega
  obtain ⟨k0, k1, kt, hk⟩ := exists_two_of_length _ hk2
  rw [hk] at hkx hky
  obtain ⟨bp, hb1, hb2, hb3⟩ := allSome_map_pos _
    (firstOrderDerivative_pos _ (interpExt_strictMono kt k0 k1 hkx hky)) inputs
  refine ⟨bp, ?_, hb2, hb3⟩
  unfold tempoDerivativeAt
  rw [h1]
  simp only [Option.getD_some]
  rw [sortKnots_of_incX _ (zip_incX _ _ h3), hk]
  exact hb1

end C18P
