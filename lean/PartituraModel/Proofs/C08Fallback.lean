/-
C08 (round 6) — helper lemmas for Props/C08Fallback.lean: the reader's order of the snote lines (`sort_snotes`) is a
total preorder, so the head of the sorted list is below every line; the beat count of a score is monotone; the time
signature is constant inside a measure when signatures change at measure starts only; a smaller (beat, offset) key
inside one measure means an earlier note.
-/
import PartituraModel.Model.MatchTime
import PartituraModel.Proofs.C08
import PartituraModel.Proofs.C08Sort
import PartituraModel.Proofs.C08Mixed
import Mathlib.Tactic.Linarith
import Mathlib.Tactic.Ring
import Mathlib.Tactic.FieldSimp
import Mathlib.Tactic.NormNum
import Mathlib.Tactic.Positivity
import Mathlib.Algebra.Order.Field.Basic

namespace C08F
open Model Model.MatchTime

/-- the comparison of `sortSNotes` -/
def snLe (a b : Nat × SNote) : Bool :=
  decide (a.2.measure < b.2.measure) ||
    (decide (a.2.measure = b.2.measure) &&
      (decide (a.2.beat < b.2.beat) ||
       (decide (a.2.beat = b.2.beat) && decide (a.2.offset.val ≤ b.2.offset.val))))

theorem sortSNotes_eq (l : List (Nat × SNote)) : sortSNotes l = sortBy snLe l := rfl

theorem snLe_iff (a b : Nat × SNote) : snLe a b = true ↔
    (a.2.measure < b.2.measure ∨ (a.2.measure = b.2.measure ∧
      (a.2.beat < b.2.beat ∨ (a.2.beat = b.2.beat ∧ a.2.offset.val ≤ b.2.offset.val)))) := by
  unfold snLe
  simp only [Bool.or_eq_true, Bool.and_eq_true, decide_eq_true_eq]

theorem snLe_total (a b : Nat × SNote) : snLe a b = true ∨ snLe b a = true := by
  rw [snLe_iff, snLe_iff]
  rcases lt_trichotomy a.2.measure b.2.measure with h | h | h
  · left; left; exact h
  · rcases lt_trichotomy a.2.beat b.2.beat with h2 | h2 | h2
    · left; right; exact ⟨h, Or.inl h2⟩
    · rcases le_total a.2.offset.val b.2.offset.val with h3 | h3
      · left; right; exact ⟨h, Or.inr ⟨h2, h3⟩⟩
      · right; right; exact ⟨h.symm, Or.inr ⟨h2.symm, h3⟩⟩
    · right; right; exact ⟨h.symm, Or.inl h2⟩
  · right; left; exact h

theorem snLe_trans (a b c : Nat × SNote) : snLe a b = true → snLe b c = true → snLe a c = true := by
  rw [snLe_iff, snLe_iff, snLe_iff]
  rintro (h1 | ⟨h1, h1'⟩) (h2 | ⟨h2, h2'⟩)
  · left; omega
  · left; omega
  · left; omega
  · right
    refine ⟨by omega, ?_⟩
    rcases h1' with h1' | ⟨h1', h1''⟩ <;> rcases h2' with h2' | ⟨h2', h2''⟩
    · left; omega
    · left; omega
    · left; omega
    · right; exact ⟨by omega, le_trans h1'' h2''⟩

/-- the first line in the reader's order is below every line -/
theorem head_le_all (l : List (Nat × SNote)) (first : Nat × SNote) (h : (sortSNotes l).head? = some first) :
    ∀ x ∈ l, snLe first x = true := by
  intro x hx
  have hpw := C08S.sortBy_pairwise snLe snLe_total snLe_trans l
  have hx' : x ∈ sortBy snLe l := C08S.mem_sortBy.mpr hx
  rw [sortSNotes_eq] at h
  cases hs : sortBy snLe l with
  | nil => rw [hs] at hx'; simp at hx'
  | cons a rest =>
    rw [hs] at h hpw hx'
    simp only [List.head?_cons, Option.some.injEq] at h
    subst h
    rcases List.mem_cons.mp hx' with rfl | hr
    · rcases snLe_total x x with h | h <;> exact h
    · exact (List.pairwise_cons.mp hpw).1 x hr

/-- `foldl min`: the result is the start value or an element, and is below both -/
theorem foldl_min_spec : ∀ (l : List Rat) (init : Rat),
    (l.foldl min init = init ∨ l.foldl min init ∈ l) ∧ l.foldl min init ≤ init ∧ ∀ x ∈ l, l.foldl min init ≤ x := by
  intro l
  induction l with
  | nil => intro init; exact ⟨Or.inl rfl, le_refl _, fun x hx => by simp at hx⟩
  | cons a t ih =>
    intro init
    obtain ⟨h1, h2, h3⟩ := ih (min init a)
    rw [List.foldl_cons]
    refine ⟨?_, le_trans h2 (min_le_left _ _), ?_⟩
    · rcases h1 with h1 | h1
      · rcases min_choice init a with hm | hm
        · left; rw [h1, hm]
        · right; rw [h1, hm]; simp
      · right; exact List.mem_cons_of_mem _ h1
    · intro x hx
      rcases List.mem_cons.mp hx with rfl | hx'
      · exact le_trans h2 (min_le_right _ _)
      · exact h3 x hx'

/-- the beat count never decreases -/
theorem PW_mono (divs : Nat) (hd : 0 < divs) (beats : Int → Rat) : ∀ (rest : List TSig) (s : TSig),
    (s :: rest).Pairwise (fun a b => a.t < b.t) → C08M.PW divs beats (s :: rest) → (∀ x ∈ s :: rest, 0 < x.den) →
    ∀ o o' : Int, s.t ≤ o → o ≤ o' → beats o ≤ beats o' := by
  have hdq : (0 : Rat) < 4 * (divs : Rat) := by
    have : (0 : Rat) < (divs : Rat) := by exact_mod_cast hd
    linarith
  have seg : ∀ (s : TSig) (a b : Int), a ≤ b →
      ((a - s.t : Int) : Rat) * (s.den : Rat) / (4 * (divs : Rat))
        ≤ ((b - s.t : Int) : Rat) * (s.den : Rat) / (4 * (divs : Rat)) := by
    intro s a b hab
    have hcast : ((a - s.t : Int) : Rat) ≤ ((b - s.t : Int) : Rat) := by exact_mod_cast (by omega : a - s.t ≤ b - s.t)
    simp only [div_eq_mul_inv]
    exact mul_le_mul_of_nonneg_right (mul_le_mul_of_nonneg_right hcast (by positivity)) (inv_nonneg.mpr (le_of_lt hdq))
  intro rest
  induction rest with
  | nil =>
    intro s _ hpw _ o o' ho hoo
    have h1 := hpw o ho
    have h2 := hpw o' (by omega)
    have := seg s o o' hoo
    linarith
  | cons s' r ih =>
    intro s hsort hpw hden o o' ho hoo
    obtain ⟨hpw1, hpw2⟩ := hpw
    have hsort2 := (List.pairwise_cons.mp hsort).2
    have hlt : s.t < s'.t := (List.pairwise_cons.mp hsort).1 s' (by simp)
    have hden2 : ∀ x ∈ s' :: r, 0 < x.den := fun x hx => hden x (List.mem_cons_of_mem _ hx)
    by_cases h1 : o' ≤ s'.t
    · have e1 := hpw1 o ho (by omega)
      have e2 := hpw1 o' (by omega) h1
      have := seg s o o' hoo
      linarith
    · by_cases h2 : s'.t ≤ o
      · exact ih s' hsort2 hpw2 hden2 o o' h2 hoo
      · have e1 := hpw1 o ho (by omega)
        have e2 := hpw1 s'.t (by omega) (le_refl _)
        have := seg s o s'.t (by omega)
        have h3 := ih s' hsort2 hpw2 hden2 s'.t o' (le_refl _) (by omega)
        linarith

/-- no time signature strictly inside `(a, b)`: the signature in force is the same at every point of `[a, b)` -/
theorem tsAt_const : ∀ (ts : List TSig) (a b o o' : Int), (∀ s ∈ ts, s.t ≤ a ∨ b ≤ s.t) →
    a ≤ o → o < b → a ≤ o' → o' < b → tsAt ts o = tsAt ts o'
  | [], _, _, _, _, _, _, _, _, _ => rfl
  | [_], _, _, _, _, _, _, _, _, _ => rfl
  | s :: s' :: rest, a, b, o, o', h, h1, h2, h3, h4 => by
    unfold tsAt
    rcases h s' (by simp) with hs | hs
    · rw [if_neg (by omega), if_neg (by omega)]
      exact tsAt_const (s' :: rest) a b o o' (fun x hx => h x (List.mem_cons_of_mem _ hx)) h1 h2 h3 h4
    · rw [if_pos (by omega), if_pos (by omega)]

/-- the measure a note is found in contains it -/
theorem measureOf_spec (sc : Score) (o : Int) (mi : Nat) (h : sc.measureOf o = some mi) :
    ∃ m, sc.ms[mi]? = some m ∧ m.s ≤ o ∧ o < m.e := by
  unfold Score.measureOf at h
  simp only at h
  have hmem := C08P.mem_of_getLast? h
  rw [List.mem_filter] at hmem
  obtain ⟨_, hp⟩ := hmem
  cases hm : sc.ms[mi]? with
  | none => simp [hm] at hp
  | some m =>
    simp only [hm, Bool.and_eq_true, decide_eq_true_eq] at hp
    exact ⟨m, rfl, hp.1, hp.2⟩

/-- inside one measure and one metre: a smaller (beat, offset) key means an earlier note -/
theorem rel_le_of_key_le (divs den : Nat) (hd : 0 < divs) (hn : 0 < den) (r1 r2 : Int)
    (hkey : encBeat divs den r1 < encBeat divs den r2
      ∨ (encBeat divs den r1 = encBeat divs den r2 ∧ encOffset divs den r1 ≤ encOffset divs den r2)) : r1 ≤ r2 := by
  have hD : (0 : Int) < 4 * (divs : Int) := by omega
  have hk : (0 : Int) < (den : Int) := by omega
  have lo1 : encBeat divs den r1 * (4 * (divs : Int)) ≤ r1 * (den : Int) := Int.ediv_mul_le _ (by omega)
  have lo2 : encBeat divs den r2 * (4 * (divs : Int)) ≤ r2 * (den : Int) := Int.ediv_mul_le _ (by omega)
  have hi1 : r1 * (den : Int) < (encBeat divs den r1 + 1) * (4 * (divs : Int)) :=
    Int.lt_ediv_add_one_mul_self _ hD
  rcases hkey with hb | ⟨hb, hoff⟩
  · have h3 : (encBeat divs den r1 + 1) * (4 * (divs : Int)) ≤ encBeat divs den r2 * (4 * (divs : Int)) :=
      mul_le_mul_of_nonneg_right (by omega) (le_of_lt hD)
    have h4 : r1 * (den : Int) < r2 * (den : Int) := by omega
    exact le_of_lt (lt_of_mul_lt_mul_right h4 (le_of_lt hk))
  · rw [C08P.encOffset_eq, C08P.encOffset_eq, hb] at hoff
    have hc : (0 : Rat) < ((4 * divs * den : Nat) : Rat) := by
      have : 0 < 4 * divs * den := by positivity
      exact_mod_cast this
    have h5 := mul_le_mul_of_nonneg_right hoff (le_of_lt hc)
    rw [div_mul_cancel₀ _ (ne_of_gt hc), div_mul_cancel₀ _ (ne_of_gt hc)] at h5
    have h6 : r1 * (den : Int) - encBeat divs den r2 * (4 * (divs : Int))
        ≤ r2 * (den : Int) - encBeat divs den r2 * (4 * (divs : Int)) := by exact_mod_cast h5
    have h7 : r1 * (den : Int) ≤ r2 * (den : Int) := by omega
    exact le_of_mul_le_mul_right h7 hk

/-! ### small facts used by Props/C08Fallback.lean -/

/-- a list of pairs is the zip of its two columns -/
theorem zip_fst_snd {α β : Type} (l : List (α × β)) : (l.map (·.1)).zip (l.map (·.2)) = l := by
  induction l with
  | nil => rfl
  | cons a t ih => simp [ih]

/-- every element of the first of two lists of equal length has a partner in the zip -/
theorem mem_zip_left {α β : Type} : ∀ (l1 : List α) (l2 : List β), l1.length = l2.length →
    ∀ y ∈ l1, ∃ b, (y, b) ∈ l1.zip l2 := by
  intro l1
  induction l1 with
  | nil => intro _ _ y hy; simp at hy
  | cons a t ih =>
    intro l2 hlen y hy
    cases l2 with
    | nil => simp at hlen
    | cons b t2 =>
      rcases List.mem_cons.mp hy with rfl | hy'
      · exact ⟨b, by simp⟩
      · obtain ⟨b', hb'⟩ := ih t2 (by simpa using hlen) y hy'
        exact ⟨b', by simp [hb']⟩

/-- every element of the second of two lists of equal length has a partner in the zip -/
theorem mem_zip_right {α β : Type} : ∀ (l1 : List α) (l2 : List β), l1.length = l2.length →
    ∀ b ∈ l2, ∃ y, (y, b) ∈ l1.zip l2 := by
  intro l1
  induction l1 with
  | nil =>
    intro l2 hlen b hb
    cases l2 with
    | nil => simp at hb
    | cons _ _ => simp at hlen
  | cons a t ih =>
    intro l2 hlen b hb
    cases l2 with
    | nil => simp at hb
    | cons b0 t2 =>
      rcases List.mem_cons.mp hb with rfl | hb'
      · exact ⟨a, by simp⟩
      · obtain ⟨y', hy'⟩ := ih t2 (by simpa using hlen) b hb'
        exact ⟨y', by simp [hy']⟩

theorem absR_eq_abs (x : Rat) : absR x = |x| := by
  unfold absR
  split
  · rename_i h; rw [abs_of_neg h]
  · rename_i h; rw [abs_of_nonneg (not_lt.mp h)]

/-- `foldl min` from a value that is below everything in the list returns that value -/
theorem foldl_min_eq (init : Rat) : ∀ l : List Rat, (∀ x ∈ l, init ≤ x) → l.foldl min init = init := by
  intro l
  induction l with
  | nil => intro _; rfl
  | cons a rest ih =>
    intro h
    rw [List.foldl_cons, min_eq_left (h a (by simp))]
    exact ih (fun x hx => h x (by simp [hx]))

/-- the rounding of a beat time costs at most `1/5000` quarter in any metre -/
theorem beat_rounding_small (x : Rat) (den : Nat) (hden : 0 < den) :
    |4 * (dec4 x - x) / (den : Rat)| ≤ 1 / 5000 := by
  have hd : (1 : Rat) ≤ (den : Rat) := by exact_mod_cast hden
  have hc := C08P.dec4_close x
  rw [abs_div, abs_mul, abs_of_pos (by norm_num : (0 : Rat) < 4), abs_of_pos (by linarith : (0 : Rat) < (den : Rat))]
  rw [div_le_iff₀ (by linarith)]
  nlinarith [abs_nonneg (dec4 x - x)]

end C08F
